(* C11, liveness: in a globally quiescent configuration every micro-step
   decreases a potential bounded by three waves plus the pending messages. *)
From PV Require Import Base.Tac Base.ListX Term4C.Term4CDefs Term4C.Term4CBase Term4C.Term4CMicro Term4C.Term4CInv
  Term4C.Term4CStruct Term4C.Term4CContrib Term4C.Term4CProofs Term4C.Term4CLive.
Local Open Scope Z_scope.

Definition allq (c : cfg) : Prop := forall j, (j < NP c)%nat -> quietw (P c j).

(* the reports of the wave in progress / of the last decided wave equal the present counters *)
Definition fresh_cur (c : cfg) (g : ghost) : bool :=
  forallb (fun k => implb (gf g k) ((cur_s g k =? sent (P c k)) && (cur_r g k =? recv (P c k)))) (seq 0 (NP c)).
Definition fresh_dc (c : cfg) (g : ghost) : bool :=
  gd g && forallb (fun k => (dc_s g k =? sent (P c k)) && (dc_r g k =? recv (P c k))) (seq 0 (NP c)).
(* decisions the root still has to take *)
Definition W (c : cfg) (g : ghost) : Z :=
  if cls (P c 0) =? 3 then 0 else if fresh_cur c g then (if fresh_dc c g then 1 else 2) else 3.
Definition edgepot (c : cfg) (g : ghost) (k : nat) : Z :=
  if (k =? 0)%nat then 0 else (if gf g k then 0 else 7) + (if cls (P c k) =? 2 then 4 else 0).
Definition Phi (c : cfg) (g : ghost) : Z :=
  (7 * Z.of_nat (NP c) + 5) * W c g + bsum (NP c) (edgepot c g)
  + 2 * Z.of_nat (length (net c)) + Z.of_nat (length (dlyq c)).

Lemma W_range c g : 0 <= W c g <= 3.
Proof. unfold W. destruct (cls (P c 0) =? 3), (fresh_cur c g), (fresh_dc c g); lia. Qed.
Lemma edgepot_range c g k : 0 <= edgepot c g k <= 11.
Proof. unfold edgepot. destruct (k =? 0)%nat, (gf g k), (cls (P c k) =? 2); lia. Qed.
Lemma Phi_nonneg c g : 0 <= Phi c g.
Proof.
  unfold Phi. pose proof (W_range c g). assert (0 <= bsum (NP c) (edgepot c g)) by (apply bsum_nonneg; intros; apply edgepot_range). nia.
Qed.
Lemma bsum_const_le n f b : (forall k, (k < n)%nat -> f k <= b) -> bsum n f <= b * Z.of_nat n.
Proof. induction n; intros H; cbn [bsum]; [lia|]. pose proof (H n ltac:(lia)). assert (bsum n f <= b * Z.of_nat n) by (apply IHn; intros; apply H; lia). lia. Qed.
Lemma Phi_bound c g : Phi c g <= 32 * Z.of_nat (NP c) + 15 + 2 * Z.of_nat (length (net c)) + Z.of_nat (length (dlyq c)).
Proof.
  unfold Phi. pose proof (W_range c g).
  assert (bsum (NP c) (edgepot c g) <= 11 * Z.of_nat (NP c)) by (apply bsum_const_le; intros; apply edgepot_range). nia.
Qed.

Lemma forallb_seq_ext f h n : (forall k, (k < n)%nat -> f k = h k) -> forallb f (seq 0 n) = forallb h (seq 0 n).
Proof.
  intros H. assert (forall l, (forall k, In k l -> f k = h k) -> forallb f l = forallb h l).
  { induction l; intros Hl; cbn; auto. rewrite Hl, IHl by (try left; auto; intros; apply Hl; right; auto). auto. }
  apply H0. intros k Hk. apply in_seq in Hk. apply H. lia.
Qed.
Lemma forallb_seq_true f n : forallb f (seq 0 n) = true <-> forall k, (k < n)%nat -> f k = true.
Proof. rewrite forallb_forall. split; intros H k Hk; apply H; [apply in_seq; lia|apply in_seq in Hk; lia]. Qed.

(* W only looks at the class of the root, the message counters and the ghost *)
Lemma W_same c c' g : NP c' = NP c -> cls (P c' 0) = cls (P c 0) ->
  (forall k, (k < NP c)%nat -> sent (P c' k) = sent (P c k) /\ recv (P c' k) = recv (P c k)) -> W c' g = W c g.
Proof.
  intros HN H0 Hs. unfold W, fresh_cur, fresh_dc. rewrite HN, H0.
  rewrite (forallb_seq_ext _ (fun k => implb (gf g k) ((cur_s g k =? sent (P c k)) && (cur_r g k =? recv (P c k))))) by (intros k Hk; destruct (Hs k Hk) as [-> ->]; auto).
  rewrite (forallb_seq_ext (fun k => (dc_s g k =? sent (P c' k)) && _) (fun k => (dc_s g k =? sent (P c k)) && (dc_r g k =? recv (P c k)))) by (intros k Hk; destruct (Hs k Hk) as [-> ->]; auto).
  reflexivity.
Qed.

Lemma children_len N i : (length (children N i) <= 2)%nat.
Proof. unfold children. destruct (2*i+2 <? N)%nat; [|destruct (2*i+1 <? N)%nat]; cbn; lia. Qed.
Lemma fwd_len N j b : (length (fwd N j b) <= 2)%nat.
Proof. unfold fwd. rewrite map_length. apply children_len. Qed.

Lemma edgepot_upd c c' g j : (j < NP c)%nat -> (forall k, (k < NP c)%nat -> k <> j -> cls (P c' k) = cls (P c k)) ->
  bsum (NP c) (edgepot c' g) = bsum (NP c) (edgepot c g) - edgepot c g j + edgepot c' g j.
Proof.
  intros Hj H. apply (bsum_upd (NP c) (edgepot c g) (edgepot c' g) j Hj). intros k Hk Hne. unfold edgepot. rewrite H; auto.
Qed.

Lemma W_le c c' g g' : cls (P c' 0) = cls (P c 0) ->
  (fresh_cur c g = true -> fresh_cur c' g' = true) -> fresh_dc c' g' = fresh_dc c g -> W c' g' <= W c g.
Proof.
  intros H0 H1 H2. unfold W. rewrite H0, H2. destruct (cls (P c 0) =? 3); [lia|].
  destruct (fresh_cur c g); [rewrite H1 by auto; lia|]. destruct (fresh_cur c' g'), (fresh_dc c g); lia.
Qed.

Lemma bsum_nonroot_const n (v : Z) : (1 <= n)%nat -> bsum n (fun k => if (k =? 0)%nat then 0 else v) = v * (Z.of_nat n - 1).
Proof.
  intros H. induction n as [|n IH]; [lia|]. cbn [bsum]. destruct n as [|n]; [cbn; lia|].
  rewrite IH by lia. cbn [Nat.eqb]. lia.
Qed.

Lemma phi_mstep c c' g : Inv c g -> allq c -> mstep c c' -> exists g', Inv c' g' /\ Phi c' g' + 1 <= Phi c g.
Proof.
  intros HI Hq Hm.
  assert (Hst : forall i, (i < NP c)%nat -> (st (P c i) = IWC \/ st (P c i) = IWP \/ st (P c i) = TERM) /\ infl (P c i) = 0 /\ inproc (P c i) = 0).
  { intros i Hi. destruct (Hq i Hi) as (Hb & Hf & Hp). split; auto. apply quietw_cls. split; auto. }
  destruct Hm.
  - exfalso. destruct (Hst i H) as ([X|[X|X]] & _); congruence.
  - exfalso. destruct (Hst i H) as (X & _ & Y). unfold may_load, busy_or_nr in H0. rewrite Y in H0. destruct X as [X|[X|X]]; rewrite X in H0; discriminate.
  - exfalso. destruct (Hst i H) as (X & _ & Y). unfold may_load, busy_or_nr in H0. rewrite Y in H0. destruct X as [X|[X|X]]; rewrite X in H0; discriminate.
  - exfalso. destruct (Hst i H) as ([X|[X|X]] & _); destruct H1; congruence.
  - (* a report *)
    set (c' := mkC (lset (procs c) i (fst (send_up (NP c) i (P c i)))) (net c ++ snd (send_up (NP c) i (P c i))) (dlyq c)).
    assert (HN : NP c' = NP c) by (unfold NP, c'; cbn [procs]; apply lset_length; auto).
    assert (HP : forall k, P c' k = if (k =? i)%nat then fst (send_up (NP c) i (P c i)) else P c k) by (intros; unfold c'; rewrite P_lset by auto; reflexivity).
    destruct (Nat.eq_dec i 0) as [->|Hne].
    + (* the root decides *)
      destruct (inv_contrib_root c g HI H0 H1 H2) as (g' & HI' & G1 & G2 & G3 & G4 & G5 & G6). fold c' in HI'.
      exists g'. split; [exact HI'|].
      pose proof (send_up_root (NP c) (P c 0)) as Hsu. cbv zeta in Hsu.
      set (p := P c 0) in *. set (s' := acc_s p + sent p) in *. set (r' := acc_r p + recv p) in *.
      set (res := if nch (NP c) 0 =? 0 then true else (last_s p =? s') && (last_r p =? r') && (s' =? r')) in *.
      assert (Hq0 : sent (fst (send_up (NP c) 0 p)) = sent p /\ recv (fst (send_up (NP c) 0 p)) = recv p /\
                    cls (fst (send_up (NP c) 0 p)) = (if res then 3 else 1) /\ snd (send_up (NP c) 0 p) = fwd (NP c) 0 res).
      { rewrite Hsu. unfold cls. destruct res; cbn; rewrite ?H1; auto. }
      destruct Hq0 as (Q1 & Q2 & Q3 & Q4).
      assert (Hsr : forall k, (k < NP c)%nat -> sent (P c' k) = sent (P c k) /\ recv (P c' k) = recv (P c k)).
      { intros k Hk. rewrite HP. destruct (k =? 0)%nat eqn:E; auto. apply Nat.eqb_eq in E. subst k. fold p. auto. }
      assert (Hc1 : cls p = 1) by (unfold cls; rewrite H1; auto).
      (* sums of the present counters *)
      assert (Hcons : bsum (NP c) (fun k => sent (P c k)) = bsum (NP c) (fun k => recv (P c k))).
      { pose proof (I_cons _ _ HI) as Hc.
        rewrite (bsum_ext (NP c) (fun i => infl (P c i)) (fun _ => 0)), (bsum_ext (NP c) (fun i => inproc (P c i)) (fun _ => 0)), bsum_zero in Hc;
          try (intros k Hk; apply (Hst k Hk)). lia. }
      (* W goes down *)
      assert (HW : W c' g' + 1 <= W c g).
      { unfold W at 1. rewrite HP. cbn [Nat.eqb]. rewrite Q3. pose proof (W_range c g) as WR.
        assert (W1 : 1 <= W c g). { unfold W. fold p. rewrite Hc1. cbn. destruct (fresh_cur c g), (fresh_dc c g); lia. }
        destruct res eqn:Eres; [cbn; lia|]. cbn [Z.eqb Pos.eqb].
        assert (Hfc : fresh_cur c' g' = true).
        { unfold fresh_cur. apply forallb_seq_true. intros k Hk. rewrite G1. reflexivity. }
        rewrite Hfc.
        unfold W in *. fold p in WR, W1 |- *. rewrite Hc1 in *. cbn [Z.eqb Pos.eqb] in *.
        destruct (fresh_cur c g) eqn:Efc; [|destruct (fresh_dc c' g'); lia].
        pose proof (proj1 (forallb_seq_true _ _) Efc) as Hfck.
        assert (Hdc' : forall k, (k < NP c)%nat -> dc_s g' k = sent (P c k) /\ dc_r g' k = recv (P c k)).
        { intros k Hk. destruct (G3 k) as [-> ->]. destruct (k =? 0)%nat eqn:E; [apply Nat.eqb_eq in E; subst k; auto|].
          apply Nat.eqb_neq in E. specialize (Hfck k Hk). cbn in Hfck. rewrite (G4 k ltac:(lia)) in Hfck. cbn in Hfck.
          apply andb_true_iff in Hfck. destruct Hfck as [A B]. apply Z.eqb_eq in A, B. auto. }
        assert (Hfd' : fresh_dc c' g' = true).
        { unfold fresh_dc. rewrite G2, HN. cbn [andb]. apply forallb_seq_true. intros k Hk. destruct (Hdc' k Hk) as [-> ->]. destruct (Hsr k Hk) as [-> ->].
          rewrite !Z.eqb_refl. reflexivity. }
        rewrite Hfd'. destruct (fresh_dc c g) eqn:Efd; [|lia].
        (* both waves fresh: the root must have said yes *)
        exfalso. unfold fresh_dc in Efd. apply andb_true_iff in Efd. destruct Efd as [Egd Efd].
        pose proof (proj1 (forallb_seq_true _ _) Efd) as Hfdk.
        destruct (I_g7 _ _ HI) as [G7 _]. destruct (G7 Egd) as [L1 L2]. fold p in L1, L2.
        assert (S1 : bsum (NP c) (dc_s g) = bsum (NP c) (fun k => sent (P c k))).
        { apply bsum_ext. intros k Hk. specialize (Hfdk k Hk). cbn in Hfdk. apply andb_true_iff in Hfdk. destruct Hfdk as [A _]. apply Z.eqb_eq in A. auto. }
        assert (S2 : bsum (NP c) (dc_r g) = bsum (NP c) (fun k => recv (P c k))).
        { apply bsum_ext. intros k Hk. specialize (Hfdk k Hk). cbn in Hfdk. apply andb_true_iff in Hfdk. destruct Hfdk as [_ A]. apply Z.eqb_eq in A. auto. }
        assert (S3 : bsum (NP c) (dc_s g') = bsum (NP c) (fun k => sent (P c k))) by (apply bsum_ext; intros k Hk; apply (Hdc' k Hk)).
        assert (S4 : bsum (NP c) (dc_r g') = bsum (NP c) (fun k => recv (P c k))) by (apply bsum_ext; intros k Hk; apply (Hdc' k Hk)).
        unfold res in Eres. destruct (nch (NP c) 0 =? 0); [discriminate|].
        fold p in G5, G6. fold s' in G5. fold r' in G6.
        assert (last_s p = s') by lia. assert (last_r p = r') by lia. assert (s' = r') by lia.
        rewrite H3, H4, H5, !Z.eqb_refl in Eres. discriminate. }
      (* the rest of the potential grows by at most 7 (N - 1) + 4 *)
      assert (HE : bsum (NP c) (edgepot c' g') = bsum (NP c) (edgepot c g) + 7 * (Z.of_nat (NP c) - 1)).
      { rewrite <- (bsum_nonroot_const (NP c) 7) by (apply (I_N _ _ HI)). rewrite <- bsum_add. apply bsum_ext. intros k Hk.
        unfold edgepot. destruct (k =? 0)%nat eqn:E; [lia|]. apply Nat.eqb_neq in E. rewrite G1, (G4 k ltac:(lia)), HP.
        apply Nat.eqb_neq in E. rewrite E. lia. }
      unfold Phi. rewrite HN, HE. replace (net c') with (net c ++ fwd (NP c) 0 res) by (unfold c'; cbn [net]; rewrite Q4; auto).
      replace (dlyq c') with (dlyq c) by reflexivity. rewrite app_length. pose proof (fwd_len (NP c) 0 res). pose proof (I_N _ _ HI).
      pose proof (W_range c g). pose proof (W_range c' g'). nia.
    + (* a report to the parent *)
      destruct (inv_contrib_nonroot c g i HI H Hne H0 H1 H2) as (g' & HI' & G0 & G1 & G2 & G3 & G4 & G5 & G6). fold c' in HI'.
      exists g'. split; [exact HI'|].
      rewrite (send_up_nonroot _ _ _ Hne) in HP. cbn [fst] in HP.
      assert (Hsr : forall k, (k < NP c)%nat -> sent (P c' k) = sent (P c k) /\ recv (P c' k) = recv (P c k)).
      { intros k Hk. rewrite HP. destruct (k =? i)%nat eqn:E; auto. apply Nat.eqb_eq in E. subst k. auto. }
      assert (Hcl : forall k, k <> i -> cls (P c' k) = cls (P c k)).
      { intros k Hk. rewrite HP. apply Nat.eqb_neq in Hk. rewrite Hk. auto. }
      assert (HW : W c' g' <= W c g).
      { apply W_le.
        - apply Hcl. lia.
        - unfold fresh_cur. rewrite HN, !forallb_seq_true. intros Hf k Hk. specialize (Hf k Hk). destruct (Hsr k Hk) as [-> ->].
          destruct (Nat.eq_dec k i) as [->|Hki]; [rewrite G1, G2, G3, !Z.eqb_refl; reflexivity|].
          destruct (G4 k Hki) as (-> & -> & ->). auto.
        - unfold fresh_dc. rewrite HN, G6. f_equal. apply forallb_seq_ext. intros k Hk. destruct (G5 k) as [-> ->]. destruct (Hsr k Hk) as [-> ->]. auto. }
      assert (HE : bsum (NP c) (edgepot c' g') = bsum (NP c) (edgepot c g) - 7 + 4).
      { rewrite (bsum_upd (NP c) (edgepot c g) (edgepot c' g') i H).
        - unfold edgepot. apply Nat.eqb_neq in Hne. rewrite Hne, G0, G1, HP, Nat.eqb_refl. unfold cls. rewrite H1. cbn. lia.
        - intros k Hk Hki. unfold edgepot. destruct (G4 k Hki) as (-> & _). rewrite Hcl; auto. }
      unfold Phi. rewrite HN, HE. replace (net c') with (net c ++ [(i, parent i, UP (acc_s (P c i) + sent (P c i)) (acc_r (P c i) + recv (P c i)))])
        by (unfold c'; cbn [net]; rewrite (send_up_nonroot _ _ _ Hne); auto).
      replace (dlyq c') with (dlyq c) by reflexivity. rewrite app_length. cbn [length]. pose proof (I_N _ _ HI). pose proof (W_range c g). pose proof (W_range c' g'). nia.
  - exfalso. destruct (Hst i H) as (X & _). unfold is_busy in H2. destruct X as [X|[X|X]]; rewrite X in H2; discriminate.
  - exfalso. destruct (Hst i H) as (_ & X & _). lia.
  - exfalso. destruct (Hst i H) as (_ & _ & X). lia.
  - (* a message is handed to the module *)
    exists g. split; [apply inv_delay; auto|].
    assert (E1 : W (mkC (procs c) (l1 ++ l2) (dlyq c ++ [pk])) g = W c g) by (apply W_same; auto).
    unfold Phi. rewrite E1. change (NP (mkC (procs c) (l1 ++ l2) (dlyq c ++ [pk]))) with (NP c).
    change (bsum (NP c) (edgepot (mkC (procs c) (l1 ++ l2) (dlyq c ++ [pk])) g)) with (bsum (NP c) (edgepot c g)).
    cbn [net dlyq]. rewrite H, !app_length. cbn [length]. lia.
  - (* UP absorbed *)
    exists g. split; [eapply inv_up; eauto|].
    set (c' := mkC (lset (procs c) j (up_p (P c j) a b)) (net c) (d1 ++ d2)).
    assert (HN : NP c' = NP c) by (unfold NP, c'; cbn [procs]; apply lset_length; auto).
    assert (HP : forall k, P c' k = if (k =? j)%nat then up_p (P c j) a b else P c k) by (intros; unfold c'; rewrite P_lset by auto; reflexivity).
    assert (Hsame : forall k, cls (P c' k) = cls (P c k) /\ sent (P c' k) = sent (P c k) /\ recv (P c' k) = recv (P c k)).
    { intros k. rewrite HP. destruct (k =? j)%nat eqn:E; auto. apply Nat.eqb_eq in E. subst k. auto. }
    assert (E1 : W c' g = W c g) by (apply W_same; auto; [apply Hsame|intros k _; apply Hsame]).
    assert (E2 : bsum (NP c) (edgepot c' g) = bsum (NP c) (edgepot c g)).
    { apply bsum_ext. intros k Hk. unfold edgepot. destruct (Hsame k) as (-> & _). auto. }
    unfold Phi. rewrite HN, E1, E2. replace (net c') with (net c) by reflexivity. replace (dlyq c') with (d1 ++ d2) by reflexivity.
    rewrite H, !app_length. cbn [length]. lia.
  - (* DOWN(true) *)
    exists g. split; [eapply inv_downT; eauto|].
    set (c' := mkC (lset (procs c) j (downT_p (P c j))) (net c ++ fwd (NP c) j true) (d1 ++ d2)).
    assert (HN : NP c' = NP c) by (unfold NP, c'; cbn [procs]; apply lset_length; auto).
    assert (HP : forall k, P c' k = if (k =? j)%nat then downT_p (P c j) else P c k) by (intros; unfold c'; rewrite P_lset by auto; reflexivity).
    assert (Hin : In (s, j, DOWN true) (pool c)) by (unfold pool; rewrite H; rewrite !in_app_iff; cbn; tauto).
    pose proof (I_pkt _ _ HI _ Hin) as Hok. unfold pkt_ok, msg, src, dst in Hok. cbn [fst snd] in Hok. destruct Hok as (J0 & _ & _).
    assert (1 <= dT c j) by (unfold dT; apply (in_pool_cnt _ c _ Hin); unfold downTto, dst, msg; cbn; rewrite Nat.eqb_refl; auto).
    destruct (edge_dT_inv c g j (I_edge _ _ HI j ltac:(lia)) H2) as (Hj2 & _).
    assert (Hother : forall k, k <> j -> P c' k = P c k) by (intros k Hk; rewrite HP; apply Nat.eqb_neq in Hk; rewrite Hk; auto).
    assert (E1 : W c' g = W c g).
    { apply W_same; auto; [rewrite Hother; auto|]. intros k Hk. rewrite HP. destruct (k =? j)%nat eqn:E; auto. apply Nat.eqb_eq in E. subst k. auto. }
    assert (E2 : bsum (NP c) (edgepot c' g) = bsum (NP c) (edgepot c g) - 4).
    { rewrite (edgepot_upd c c' g j H0) by (intros k Hk Hne; rewrite Hother; auto).
      unfold edgepot. apply Nat.eqb_neq in J0. rewrite J0, Hj2, HP, Nat.eqb_refl. cbn. lia. }
    unfold Phi. rewrite HN, E1, E2. replace (net c') with (net c ++ fwd (NP c) j true) by reflexivity. replace (dlyq c') with (d1 ++ d2) by reflexivity.
    rewrite H, !app_length. cbn [length]. pose proof (fwd_len (NP c) j true). lia.
  - (* DOWN(false) *)
    exists g. split; [eapply inv_downF; eauto|].
    set (c' := mkC (lset (procs c) j (downF_p (P c j))) (net c ++ fwd (NP c) j false) (d1 ++ d2)).
    assert (HN : NP c' = NP c) by (unfold NP, c'; cbn [procs]; apply lset_length; auto).
    assert (HP : forall k, P c' k = if (k =? j)%nat then downF_p (P c j) else P c k) by (intros; unfold c'; rewrite P_lset by auto; reflexivity).
    assert (Hin : In (s, j, DOWN false) (pool c)) by (unfold pool; rewrite H; rewrite !in_app_iff; cbn; tauto).
    pose proof (I_pkt _ _ HI _ Hin) as Hok. unfold pkt_ok, msg, src, dst in Hok. cbn [fst snd] in Hok. destruct Hok as (J0 & _ & _).
    assert (1 <= dF c j) by (unfold dF; apply (in_pool_cnt _ c _ Hin); unfold downFto, dst, msg; cbn; rewrite Nat.eqb_refl; auto).
    destruct (edge_dF_inv c g j (I_edge _ _ HI j ltac:(lia)) H2) as (Hj2 & _).
    assert (Hother : forall k, k <> j -> P c' k = P c k) by (intros k Hk; rewrite HP; apply Nat.eqb_neq in Hk; rewrite Hk; auto).
    assert (E1 : W c' g = W c g).
    { apply W_same; auto; [rewrite Hother; auto|]. intros k Hk. rewrite HP. destruct (k =? j)%nat eqn:E; auto. apply Nat.eqb_eq in E. subst k. auto. }
    assert (E2 : bsum (NP c) (edgepot c' g) = bsum (NP c) (edgepot c g) - 4).
    { rewrite (edgepot_upd c c' g j H0) by (intros k Hk Hne; rewrite Hother; auto).
      unfold edgepot. apply Nat.eqb_neq in J0. rewrite J0, Hj2, HP, Nat.eqb_refl.
      assert (cls (downF_p (P c j)) = 1) as -> by (unfold downF_p, cls; cbn; destruct (st (P c j)); reflexivity). cbn. lia. }
    unfold Phi. rewrite HN, E1, E2. replace (net c') with (net c ++ fwd (NP c) j false) by reflexivity. replace (dlyq c') with (d1 ++ d2) by reflexivity.
    rewrite H, !app_length. cbn [length]. pose proof (fwd_len (NP c) j false). lia.
Qed.

Lemma allq_mstep c c' g : Inv c g -> allq c -> mstep c c' -> allq c'.
Proof. intros HI Hq Hm j Hj. rewrite (NP_mstep _ _ Hm) in Hj. apply (quiet_mstep c c' g); auto. Qed.

Lemma phi_msteps c c' : msteps c c' -> forall g, Inv c g -> allq c ->
  exists g', Inv c' g' /\ allq c' /\ Phi c' g' <= Phi c g.
Proof.
  induction 1; intros g HI Hq; [exists g; split; [exact HI|split; [exact Hq|lia]]|].
  destruct (phi_mstep _ _ _ HI Hq H) as (g1 & HI1 & Hp1). pose proof (allq_mstep _ _ _ HI Hq H) as Hq1.
  destruct (IHmsteps g1 HI1 Hq1) as (g2 & HI2 & Hq2 & Hp2). exists g2. split; [exact HI2|split; [exact Hq2|lia]].
Qed.

(* an effective delivery takes at least one micro-step *)
Lemma deliver_first c i j m rest : (j < NP c)%nat -> take_first i j (net c) = Some (m, rest) ->
  exists c1, mstep c c1 /\ msteps c1 (step c (ADeliver i j)).
Proof.
  intros Hj Ht. destruct c as [ps nt dq]. unfold NP in Hj. cbn [procs net] in *. cbn [step procs net dlyq].
  apply Nat.ltb_lt in Hj. rewrite Hj, Ht. apply Nat.ltb_lt in Hj.
  destruct (take_first_split _ _ _ _ _ Ht) as (l1 & l2 & -> & ->).
  exists (mkC ps (l1 ++ l2) (dq ++ [(i, j, m)])). split.
  - apply (M_delay (mkC ps (l1 ++ (i, j, m) :: l2) dq) l1 (i, j, m) l2). reflexivity.
  - unfold P. cbn [procs].
    assert (Hnn : st (nth j ps p0) <> NR ->
                  msteps (mkC ps (l1 ++ l2) (dq ++ [(i, j, m)]))
                         (mkC (lset ps j (fst (dispatch_tp (length ps) j (nth j ps p0) m)))
                              ((l1 ++ l2) ++ snd (dispatch_tp (length ps) j (nth j ps p0) m)) dq)).
    { intros Hn. pose proof (dispatch_ms ps (l1 ++ l2) dq [] i j m Hj Hn) as Hdn. cbv zeta in Hdn. destruct Hdn as [H _]. rewrite app_nil_r in H. exact H. }
    destruct (st (nth j ps p0)) eqn:Est; try (apply Hnn; congruence). constructor.
Qed.

(* a sequence of deliveries of messages that are in the network *)
Inductive deliveries : cfg -> list action -> Prop :=
| D_nil c : deliveries c []
| D_cons c i j m rest l : (j < NP c)%nat -> take_first i j (net c) = Some (m, rest) ->
    deliveries (step c (ADeliver i j)) l -> deliveries c (ADeliver i j :: l).

Lemma deliveries_len c l : deliveries c l -> forall g, Inv c g -> allq c -> Z.of_nat (length l) <= Phi c g.
Proof.
  induction 1; intros g HI Hq; [cbn; apply Phi_nonneg|].
  destruct (deliver_first c i j m rest H H0) as (c1 & Hm & Hms).
  destruct (phi_mstep _ _ _ HI Hq Hm) as (g1 & HI1 & Hp1). pose proof (allq_mstep _ _ _ HI Hq Hm) as Hq1.
  destruct (phi_msteps _ _ Hms g1 HI1 Hq1) as (g2 & HI2 & Hq2 & Hp2).
  specialize (IHdeliveries g2 HI2 Hq2). cbn [length]. lia.
Qed.

(* ---- the delayed list only holds messages for processes that are not ready ---- *)
Definition dly_ok (c : cfg) : Prop := forall x, In x (dlyq c) -> st (P c (dst x)) = NR.

Lemma ready_loop_kept N i : forall q p x, In x (snd (fst (ready_loop N i p q))) -> In x q /\ dst x <> i.
Proof.
  induction q as [|[[s d] m] q IH]; intros p x Hx; cbn [ready_loop] in Hx; [destruct Hx|].
  destruct (d =? i)%nat eqn:E.
  - destruct (dispatch_tp N i p m) as [p1 o1]. specialize (IH p1 x).
    destruct (ready_loop N i p1 q) as [[p2 k] o2]. cbn [fst snd] in *. destruct (IH Hx). split; [right|]; auto.
  - specialize (IH p x). destruct (ready_loop N i p q) as [[p2 k] o2]. cbn [fst snd] in *.
    destruct Hx as [<-|Hx]; [split; [left; auto|unfold dst; cbn; apply Nat.eqb_neq; auto]|]. destruct (IH Hx). split; [right|]; auto.
Qed.

Lemma wl_keeps_nr N i p : st p = NR -> st (fst (wl_changed N i p)) = NR.
Proof. intros H. unfold wl_changed. rewrite H. destruct (idle0 p); auto. Qed.

Lemma nr_stable c a k : st (P c k) = NR -> a <> AReady k -> st (P (step c a) k) = NR.
Proof.
  intros Hs Ha. destruct a as [i|i v|i v|i v|i v|i j|i|i|i j]; cbn [step].
  - destruct ((i <? length (procs c))%nat && _) eqn:E; auto. apply andb_true_iff in E. destruct E as [E1 _]. apply Nat.ltb_lt in E1.
    destruct (ready_loop _ _ _ _) as [[p2 kk] o]. rewrite P_lset by auto. destruct (k =? i)%nat eqn:Ek; auto. apply Nat.eqb_eq in Ek. subst. congruence.
  - destruct ((i <? length (procs c))%nat && _ && _) eqn:E; auto. rewrite !andb_true_iff in E. destruct E as [[E1 _] _]. apply Nat.ltb_lt in E1.
    rewrite P_local by auto. destruct (k =? i)%nat eqn:Ek; auto. apply Nat.eqb_eq in Ek. subst k.
    unfold addto_tasks. destruct (v =? 0); auto. destruct (_ || _); [apply wl_keeps_nr|]; auto.
  - destruct ((i <? length (procs c))%nat && _ && _) eqn:E; auto. rewrite !andb_true_iff in E. destruct E as [[E1 _] _]. apply Nat.ltb_lt in E1.
    rewrite P_local by auto. destruct (k =? i)%nat eqn:Ek; auto. apply Nat.eqb_eq in Ek. subst k.
    unfold addto_acts. destruct (v =? 0); auto. destruct (_ || _); [apply wl_keeps_nr|]; auto.
  - destruct ((i <? length (procs c))%nat && _ && _) eqn:E; auto. rewrite !andb_true_iff in E. destruct E as [[E1 _] _]. apply Nat.ltb_lt in E1.
    rewrite P_local by auto. destruct (k =? i)%nat eqn:Ek; auto. apply Nat.eqb_eq in Ek. subst k.
    unfold setto_tasks. destruct (_ =? _); auto. apply wl_keeps_nr. auto.
  - destruct ((i <? length (procs c))%nat && _ && _) eqn:E; auto. rewrite !andb_true_iff in E. destruct E as [[E1 _] _]. apply Nat.ltb_lt in E1.
    rewrite P_local by auto. destruct (k =? i)%nat eqn:Ek; auto. apply Nat.eqb_eq in Ek. subst k.
    unfold setto_acts. destruct (_ =? _); auto. apply wl_keeps_nr. auto.
  - destruct ((i <? length (procs c))%nat && _ && _ && _) eqn:E; auto. rewrite !andb_true_iff in E. destruct E as [[[E1 E2] E3] E4].
    apply Nat.ltb_lt in E1, E2.
    assert (HN1 : NP (local c i (set_sent (P c i) (sent (P c i) + 1), [])) = NP c) by (unfold NP, local; cbn; apply lset_length; auto).
    rewrite P_local by (rewrite HN1; auto). rewrite !P_local by auto. cbn [fst].
    destruct (k =? j)%nat eqn:Ekj; [|destruct (k =? i)%nat eqn:Eki; auto].
    + apply Nat.eqb_eq in Ekj. subst k. destruct (j =? i)%nat eqn:Eji; [apply Nat.eqb_eq in Eji; subst; rewrite Nat.eqb_refl in E3; discriminate|cbn; auto].
    + apply Nat.eqb_eq in Eki. subst k. auto.
  - destruct ((i <? length (procs c))%nat && _ && _) eqn:E; auto. rewrite !andb_true_iff in E. destruct E as [[E1 _] E3]. apply Nat.ltb_lt in E1.
    rewrite P_local by auto. destruct (k =? i)%nat eqn:Ek; auto. apply Nat.eqb_eq in Ek. subst k. unfold can_recv in E3. rewrite Hs in E3. discriminate.
  - destruct ((i <? length (procs c))%nat && _) eqn:E; auto. rewrite !andb_true_iff in E. destruct E as [E1 _]. apply Nat.ltb_lt in E1.
    rewrite P_local by auto. destruct (k =? i)%nat eqn:Ek; auto. apply Nat.eqb_eq in Ek. subst k. auto.
  - destruct (j <? length (procs c))%nat eqn:E1; auto. apply Nat.ltb_lt in E1.
    destruct (take_first i j (net c)) as [[m rest]|]; auto.
    destruct (st (P c j)) eqn:Es; auto; rewrite P_lset by auto; destruct (k =? j)%nat eqn:Ek; auto; apply Nat.eqb_eq in Ek; subst k; congruence.
Qed.

Lemma dly_ok_step c a : dly_ok c -> dly_ok (step c a).
Proof.
  intros Hd x Hx.
  assert (Hgen : In x (dlyq c) -> a <> AReady (dst x) -> st (P (step c a) (dst x)) = NR).
  { intros Hin Hne. apply nr_stable; auto. }
  destruct a as [i|i v|i v|i v|i v|i j|i|i|i j]; try (apply Hgen; [|discriminate]; revert Hx; cbn [step];
    repeat match goal with |- context[if ?b then _ else _] => destruct b end; auto; fail).
  - (* ready *)
    cbn [step] in Hx |- *. destruct ((i <? length (procs c))%nat && _) eqn:E; [|apply Hd in Hx; auto].
    apply andb_true_iff in E. destruct E as [E1 _]. apply Nat.ltb_lt in E1.
    pose proof (ready_loop_kept (length (procs c)) i (dlyq c) (set_st (set_ncl (P c i) (nch (length (procs c)) i)) BWC) x) as Hk.
    destruct (ready_loop _ _ _ _) as [[p2 kk] o]. cbn [fst snd dlyq] in *. destruct (Hk Hx) as [Hin Hne].
    rewrite P_lset by auto. apply Nat.eqb_neq in Hne. rewrite Hne. apply Hd. auto.
  - (* deliver *)
    cbn [step] in Hx. destruct (j <? length (procs c))%nat eqn:E1; [|apply Hgen; auto; discriminate].
    destruct (take_first i j (net c)) as [[m rest]|] eqn:Et; [|apply Hgen; auto; discriminate].
    destruct (st (P c j)) eqn:Es; try (apply Hgen; [exact Hx|discriminate]).
    cbn [dlyq] in Hx. apply in_app_iff in Hx. destruct Hx as [Hx|[<-|[]]]; [apply Hgen; auto; discriminate|].
    apply nr_stable; [unfold dst; cbn; auto|discriminate].
Qed.

Lemma reach_dly_ok N c : reach N c -> dly_ok c.
Proof.
  intros (sched & ->). assert (H : forall l c0, dly_ok c0 -> dly_ok (run c0 l)).
  { induction l; intros c0 H0; cbn; auto. apply IHl. apply dly_ok_step. auto. }
  apply H. intros x Hx. destruct Hx.
Qed.

(* ---- liveness ---- *)
Definition lbound (N : nat) (c : cfg) : nat := (32 * N + 15 + 2 * length (net c) + length (dlyq c))%nat.

Lemma reach_step N c a : reach N c -> reach N (step c a).
Proof. intros (s & ->). exists (s ++ [a]). unfold run. rewrite fold_left_app. reflexivity. Qed.
Lemma reach_run N c l : reach N c -> reach N (run c l).
Proof. intros (s & ->). exists (s ++ l). unfold run. rewrite fold_left_app. reflexivity. Qed.

Lemma quiescent_allq N c : NP c = N -> quiescent N c -> allq c.
Proof.
  intros HN Hq j Hj. destruct (Hq j ltac:(lia)) as (A & _ & _ & B & C). unfold quietw, busy_or_nr. destruct A as [-> | [-> | ->] ]; auto.
Qed.

Lemma quiescent_no_delayed N c : (1 <= N)%nat -> reach N c -> quiescent N c -> dlyq c = [].
Proof.
  intros HN Hr Hq. destruct (reach_inv N c HN Hr) as (HNP & g & HI). pose proof (reach_dly_ok N c Hr) as Hd.
  destruct (dlyq c) as [|x r] eqn:E; auto. exfalso.
  assert (Hin : In x (pool c)) by (unfold pool; rewrite E; apply in_or_app; right; left; auto).
  pose proof (I_pkt _ _ HI x Hin) as Hok. assert (Hx : In x (dlyq c)) by (rewrite E; left; auto). specialize (Hd x Hx).
  assert (Hlt : (dst x < N)%nat).
  { unfold pkt_ok in Hok. destruct (msg x); cbv iota beta in Hok; destruct Hok as (A & B & C); [|lia]. rewrite C. pose proof (parent_lt (src x) A). lia. }
  destruct (Hq (dst x) Hlt) as ([A|[A|A]] & _); congruence.
Qed.

Theorem liveness N c l : (1 <= N)%nat -> reach N c -> quiescent N c -> deliveries c l ->
  (length l <= lbound N c)%nat /\ quiescent N (run c l) /\
  (net (run c l) = [] -> forall j, (j < N)%nat -> st (P (run c l) j) = TERM).
Proof.
  intros HN Hr Hq Hd. destruct (reach_inv N c HN Hr) as (HNP & g & HI).
  pose proof (quiescent_allq N c HNP Hq) as Ha.
  pose proof (deliveries_len c l Hd g HI Ha) as Hlen. pose proof (Phi_bound c g) as Hb. rewrite HNP in Hb.
  destruct (liveness_partial N c l HN Hr Hq) as (Hq' & _ & Hterm). split; [unfold lbound; lia|]. split; auto.
  intros Hnet. apply Hterm; auto. apply (quiescent_no_delayed N); auto. apply reach_run; auto.
Qed.

(* the schedule that always delivers the oldest control message *)
Lemma drain_spec N : (1 <= N)%nat -> forall fuel c, reach N c ->
  exists l, deliveries c l /\ drain fuel c = run c l /\ (length l = fuel \/ net (run c l) = []).
Proof.
  intros HN. induction fuel as [|f IH]; intros c Hr; [exists []; repeat split; auto; constructor|].
  cbn [drain]. destruct (net c) as [|[[s d] m] r] eqn:En; [exists []; repeat split; auto; constructor|].
  destruct (reach_inv N c HN Hr) as (HNP & g & HI).
  assert (Hin : In (s, d, m) (pool c)) by (unfold pool; rewrite En; left; auto).
  pose proof (I_pkt _ _ HI _ Hin) as Hok.
  assert (Hlt : (d < NP c)%nat).
  { unfold pkt_ok, msg, src, dst in Hok. cbn [fst snd] in Hok. destruct m; cbv iota beta in Hok; destruct Hok as (A & B & C); [|lia]. rewrite C. pose proof (parent_lt s A). lia. }
  destruct (IH (step c (ADeliver s d)) (reach_step N c _ Hr)) as (l & Hd & He & Hl).
  exists (ADeliver s d :: l). split; [|split].
  - apply (D_cons c s d m r); auto. rewrite En. cbn. rewrite !Nat.eqb_refl. reflexivity.
  - exact He.
  - cbn [length run fold_left] in *. destruct Hl; [left; lia|right; auto].
Qed.

Theorem drain_terminates N c fuel : (1 <= N)%nat -> reach N c -> quiescent N c -> (lbound N c < fuel)%nat ->
  forall j, (j < N)%nat -> st (P (drain fuel c) j) = TERM.
Proof.
  intros HN Hr Hq Hf. destruct (drain_spec N HN fuel c Hr) as (l & Hd & He & Hl).
  destruct (liveness N c l HN Hr Hq Hd) as (Hlen & _ & Hterm). rewrite He. apply Hterm. destruct Hl; [lia|auto].
Qed.

(* in a quiescent configuration the only choices that change anything are deliveries of pending control messages *)
Lemma quiescent_only_deliveries N c a : NP c = N -> quiescent N c ->
  step c a = c \/ exists i j m rest, a = ADeliver i j /\ (j < NP c)%nat /\ take_first i j (net c) = Some (m, rest).
Proof.
  intros HN Hq.
  assert (Hst : forall i, (i < length (procs c))%nat ->
            (st (P c i) = IWC \/ st (P c i) = IWP \/ st (P c i) = TERM) /\ infl (P c i) = 0 /\ inproc (P c i) = 0).
  { intros i Hi. unfold NP in HN. destruct (Hq i ltac:(lia)) as (A & _ & _ & B & C). auto. }
  destruct a as [i|i v|i v|i v|i v|i j|i|i|i j]; cbn [step].
  - left. destruct (i <? length (procs c))%nat eqn:E; auto. apply Nat.ltb_lt in E. destruct (Hst i E) as ([X|[X|X]] & _); rewrite X; auto.
  - left. destruct (i <? length (procs c))%nat eqn:E; auto. apply Nat.ltb_lt in E. destruct (Hst i E) as (X & _ & Y).
    unfold may_load, busy_or_nr. rewrite Y. destruct X as [X|[X|X]]; rewrite X; auto.
  - left. destruct (i <? length (procs c))%nat eqn:E; auto. apply Nat.ltb_lt in E. destruct (Hst i E) as (X & _ & Y).
    unfold may_load, busy_or_nr. rewrite Y. destruct X as [X|[X|X]]; rewrite X; auto.
  - left. destruct (i <? length (procs c))%nat eqn:E; auto. apply Nat.ltb_lt in E. destruct (Hst i E) as (X & _ & Y).
    unfold may_load, busy_or_nr. rewrite Y. destruct X as [X|[X|X]]; rewrite X; auto.
  - left. destruct (i <? length (procs c))%nat eqn:E; auto. apply Nat.ltb_lt in E. destruct (Hst i E) as (X & _ & Y).
    unfold may_load, busy_or_nr. rewrite Y. destruct X as [X|[X|X]]; rewrite X; auto.
  - left. destruct (i <? length (procs c))%nat eqn:E; auto. apply Nat.ltb_lt in E. destruct (Hst i E) as (X & _).
    unfold is_busy. destruct X as [X|[X|X]]; rewrite X; rewrite ?andb_false_r; auto.
  - left. destruct (i <? length (procs c))%nat eqn:E; auto. apply Nat.ltb_lt in E. destruct (Hst i E) as (_ & X & _). rewrite X. auto.
  - left. destruct (i <? length (procs c))%nat eqn:E; auto. apply Nat.ltb_lt in E. destruct (Hst i E) as (_ & _ & X). rewrite X. auto.
  - destruct (j <? length (procs c))%nat eqn:E; auto. apply Nat.ltb_lt in E.
    destruct (take_first i j (net c)) as [[m rest]|] eqn:Et; auto. right. exists i, j, m, rest. auto.
Qed.

Lemma run_as_deliveries N : (1 <= N)%nat -> forall sched c, reach N c -> quiescent N c ->
  exists l, deliveries c l /\ run c sched = run c l /\ (length l <= length sched)%nat.
Proof.
  intros HN. induction sched as [|a s IH]; intros c Hr Hq; [exists []; repeat split; auto; constructor|].
  destruct (reach_inv N c HN Hr) as (HNP & _).
  destruct (quiescent_only_deliveries N c a HNP Hq) as [Hno|(i & j & m & rest & -> & Hj & Ht)].
  - destruct (IH c Hr Hq) as (l & Hd & He & Hl). exists l. cbn [run fold_left length]. rewrite Hno. repeat split; auto.
  - assert (Hq1 : quiescent N (step c (ADeliver i j))) by (apply (quiescence_stable N c [ADeliver i j]); auto).
    destruct (IH _ (reach_step N c _ Hr) Hq1) as (l & Hd & He & Hl).
    exists (ADeliver i j :: l). split; [apply (D_cons c i j m rest); auto|]. cbn [run fold_left length] in *. split; [auto|lia].
Qed.

(* LIVENESS: from a reachable globally quiescent configuration, whatever the
   schedule, at most [lbound] choices have an effect (all of them deliveries of
   control messages: three waves plus the messages already there), quiescence
   persists, and whenever the control channels are empty every process is
   TERMINATED.  Hence every schedule that keeps delivering pending messages
   terminates everywhere after at most [lbound] deliveries. *)
Theorem liveness_any_schedule N c sched : (1 <= N)%nat -> reach N c -> quiescent N c ->
  let c' := run c sched in
  quiescent N c' /\
  (net c' = [] -> forall j, (j < N)%nat -> st (P c' j) = TERM) /\
  exists l, deliveries c l /\ c' = run c l /\ (length l <= lbound N c)%nat.
Proof.
  intros HN Hr Hq c'. destruct (run_as_deliveries N HN sched c Hr Hq) as (l & Hd & He & _).
  destruct (liveness N c l HN Hr Hq Hd) as (Hlen & Hq' & Hterm). unfold c'. rewrite He.
  split; [auto|split; [auto|]]. exists l. auto.
Qed.
