(* C11: the invariant holds in every reachable configuration; the theorems. *)
From PV Require Import Base.Tac Base.ListX Term4C.Term4CDefs Term4C.Term4CBase Term4C.Term4CMicro Term4C.Term4CInv
  Term4C.Term4CStruct Term4C.Term4CContrib.
Local Open Scope Z_scope.

Lemma inv_mstep c c' g : Inv c g -> mstep c c' -> exists g', Inv c' g'.
Proof.
  intros HI Hm. destruct Hm.
  - exists g. apply inv_ready; auto.
  - exists g. apply inv_load_t; auto.
  - exists g. apply inv_load_a; auto.
  - exists g. apply inv_idle; auto.
  - destruct (Nat.eq_dec i 0) as [->|Hne].
    + destruct (inv_contrib_root c g HI H0 H1 H2) as (g' & A & _). exists g'. exact A.
    + destruct (inv_contrib_nonroot c g i HI H Hne H0 H1 H2) as (g' & A & _). exists g'. exact A.
  - exists g. apply inv_send; auto.
  - exists g. apply inv_rstart; auto.
  - exists g. apply inv_rend; auto.
  - exists g. apply inv_delay; auto.
  - exists g. eapply inv_up; eauto.
  - exists g. eapply inv_downT; eauto.
  - exists g. eapply inv_downF; eauto.
Qed.

Lemma inv_msteps c c' : msteps c c' -> forall g, Inv c g -> exists g', Inv c' g'.
Proof.
  induction 1; intros g HI; [eauto|]. destruct (inv_mstep _ _ _ HI H) as [g1 H1]. eauto.
Qed.

Definition g_init : ghost := mkG (fun _ => 0) (fun _ => 0) (fun _ => 0) (fun _ => 0) (fun _ => false) (fun _ => p0) false.

Lemma P_init N i : P (init N) i = p0.
Proof. unfold P, init. cbn. apply nth_repeat_p0. Qed.
Lemma NP_init N : NP (init N) = N.
Proof. unfold NP, init. cbn. apply repeat_length. Qed.

Lemma inv_init N : (1 <= N)%nat -> Inv (init N) g_init.
Proof.
  intros HN.
  assert (Hz : forall f : proc -> Z, f p0 = 0 -> bsum N (fun i => f (P (init N) i)) = 0).
  { intros f Hf. rewrite (bsum_ext _ _ (fun _ => 0)); [apply bsum_zero|]. intros. rewrite P_init. auto. }
  constructor; rewrite ?NP_init.
  - auto.
  - intros i Hi. rewrite P_init. unfold loc_ok. cbn. repeat split; try lia; intros; discriminate.
  - rewrite P_init. cbn. split; [lia|auto].
  - intros x Hx. destruct Hx.
  - intros k Hk. apply Ph_collect; rewrite ?P_init; cbn; try lia; auto. unfold cnts, upc, dT, dF, pool. cbn. auto.
  - intros i Hi. rewrite P_init. cbn. split; intros; lia.
  - rewrite !Hz; auto.
  - intros i Hi. rewrite P_init. cbn. lia.
  - intros i Hi Hf. discriminate.
  - cbn. split; [rewrite !bsum_zero; lia|intros; cbn; lia].
  - intros Hf. discriminate.
  - intros i Hi Hf. discriminate.
  - rewrite !Hz by reflexivity. unfold pool. cbn. rewrite !bsum_zero. auto.
  - rewrite P_init. cbn. split; [discriminate|auto].
  - intros Hq. destruct (Hq 0%nat ltac:(lia)) as (Hb & _). discriminate.
  - intros (i & Hi & H3). rewrite P_init in H3. cbn in H3. lia.
  - intros _. rewrite P_init. cbn. auto.
Qed.

Theorem reach_inv N c : (1 <= N)%nat -> reach N c -> NP c = N /\ exists g, Inv c g.
Proof.
  intros HN (sched & ->). pose proof (run_msteps (init N) sched) as Hms. split.
  - rewrite (NP_msteps _ _ Hms). apply NP_init.
  - apply (inv_msteps _ _ Hms g_init). apply inv_init; auto.
Qed.

(* ---- safety ---- *)
Lemma quietw_quiet_p c g i : Inv c g -> (i < NP c)%nat -> quietw (P c i) -> quiet_p (P c i).
Proof.
  intros HI Hi (Hb & Hf & Hp). destruct (I_loc _ _ HI i Hi) as (_ & _ & _ & _ & Hz & _). destruct (Hz Hb).
  unfold quiet_p. repeat split; auto. unfold busy_or_nr in Hb. destruct (st (P c i)); try discriminate; auto.
Qed.

Theorem safety N sched : (1 <= N)%nat ->
  let c := run (init N) sched in
  (exists i, (i < N)%nat /\ st (P c i) = TERM) ->
  (forall j, (j < N)%nat -> quiet_p (P c j)) /\ total_sent c = total_recv c /\ total_flight c = 0.
Proof.
  intros HN c (i & Hi & Ht).
  destruct (reach_inv N c HN) as (HNP & g & HI); [exists sched; reflexivity|].
  assert (Hq : forall j, (j < NP c)%nat -> quietw (P c j)).
  { apply (I_T _ _ HI). exists i. rewrite HNP. split; auto. unfold cls. rewrite Ht. reflexivity. }
  assert (Hfl : total_flight c = 0).
  { unfold total_flight. rewrite !sumf_bsum. fold (NP c).
    rewrite (bsum_ext _ _ (fun _ => 0)), (bsum_ext _ (fun i => inproc _) (fun _ => 0)); [rewrite bsum_zero; lia| |];
      intros j Hj; apply (Hq j Hj). }
  split; [|split; auto].
  - intros j Hj. apply (quietw_quiet_p c g); auto; rewrite ?HNP; auto. apply Hq. lia.
  - pose proof (I_cons _ _ HI) as Hc. unfold total_sent, total_recv, total_flight in *. rewrite !sumf_bsum in *. fold (NP c) in *.
    unfold P in Hc. lia.
Qed.

Theorem conservation N sched : (1 <= N)%nat ->
  let c := run (init N) sched in total_sent c = total_recv c + total_flight c.
Proof.
  intros HN c. destruct (reach_inv N c HN) as (HNP & g & HI); [exists sched; reflexivity|].
  pose proof (I_cons _ _ HI) as Hc. unfold total_sent, total_recv, total_flight. rewrite !sumf_bsum. fold (NP c). unfold P in Hc. lia.
Qed.

(* a DOWN message exists only for a process that waits for its parent; DOWN(true) only for an idle one *)
Theorem down_only_to_waiting N sched s j b : (1 <= N)%nat ->
  let c := run (init N) sched in
  In (s, j, DOWN b) (net c ++ dlyq c) ->
  (j < N)%nat /\ (st (P c j) = BWP \/ st (P c j) = IWP) /\ (b = true -> st (P c j) = IWP).
Proof.
  intros HN c Hin. destruct (reach_inv N c HN) as (HNP & g & HI); [exists sched; reflexivity|].
  fold (pool c) in Hin. pose proof (I_pkt _ _ HI _ Hin) as Hok. unfold pkt_ok, msg, src, dst in Hok. cbn [fst snd] in Hok.
  destruct Hok as (J0 & JN & _). rewrite HNP in JN. split; auto.
  pose proof (I_edge _ _ HI j ltac:(lia)) as HE.
  assert (Hc2 : cls (P c j) = 2 /\ (b = true -> cls (P c (parent j)) = 3)).
  { destruct b.
    - assert (1 <= dT c j) by (unfold dT; apply (in_pool_cnt _ c _ Hin); unfold downTto, dst, msg; cbn; rewrite Nat.eqb_refl; auto).
      destruct (edge_dT_inv c g j HE H) as (A & _ & _ & B). auto.
    - assert (1 <= dF c j) by (unfold dF; apply (in_pool_cnt _ c _ Hin); unfold downFto, dst, msg; cbn; rewrite Nat.eqb_refl; auto).
      destruct (edge_dF_inv c g j HE H) as (A & _). split; auto. discriminate. }
  destruct Hc2 as [H2 H3]. split.
  - unfold cls in H2. destruct (st (P c j)); try lia; auto.
  - intros Hb. pose proof (parent_lt j J0).
    assert (Hq : quietw (P c j)).
    { apply (I_T _ _ HI); [|lia]. exists (parent j). split; [lia|auto]. }
    destruct Hq as (Hq & _). unfold cls in H2. unfold busy_or_nr in Hq. destruct (st (P c j)); try lia; try discriminate; auto.
Qed.

Theorem callback_at_most_once N sched i : (1 <= N)%nat -> (i < N)%nat ->
  let c := run (init N) sched in cbs (P c i) = (if is_term (P c i) then 1 else 0).
Proof.
  intros HN Hi c. destruct (reach_inv N c HN) as (HNP & g & HI); [exists sched; reflexivity|].
  destruct (I_loc _ _ HI i ltac:(lia)) as (_ & _ & _ & _ & _ & Hc). rewrite Hc. unfold cls, is_term. destruct (st (P c i)); reflexivity.
Qed.

(* ---- counters only grow ---- *)
Lemma mstep_monotone c c' : mstep c c' -> forall j, sent (P c j) <= sent (P c' j) /\ recv (P c j) <= recv (P c' j).
Proof.
  intros Hm j. destruct Hm; rewrite ?P_setp by (rewrite ?NP_setp; auto); rewrite ?P_lset by (unfold NP in *; auto);
    try (cbn [P procs]; lia).
  all: repeat match goal with |- context[if (?a =? ?b)%nat then _ else _] => destruct (a =? b)%nat eqn:? end;
       repeat match goal with H : (_ =? _)%nat = true |- _ => apply Nat.eqb_eq in H; subst end;
       try lia.
  all: try (unfold busyfix, rstart_p, up_p, downT_p, downF_p; cbn;
            repeat match goal with |- context[if ?b then _ else _] => destruct b eqn:? end; cbn; try lia;
            match goal with |- context[st ?p] => destruct (st p); cbn; lia end).
  all: try (unfold send_up; destruct i; cbn; repeat match goal with |- context[if ?b then _ else _] => destruct b eqn:? end; cbn; lia).
  all: unfold P; cbn [procs]; lia.
Qed.

Lemma msteps_monotone c c' : msteps c c' -> forall j, sent (P c j) <= sent (P c' j) /\ recv (P c j) <= recv (P c' j).
Proof.
  induction 1; intros j; [lia|]. destruct (mstep_monotone _ _ H j). destruct (IHmsteps j). lia.
Qed.
Theorem counters_monotone c a j : sent (P c j) <= sent (P (step c a) j) /\ recv (P c j) <= recv (P (step c a) j).
Proof. apply msteps_monotone. apply step_msteps. Qed.

Theorem tree_wf N : (forall k, (0 < k < N)%nat -> (parent k < k)%nat /\ In k (children N (parent k))) /\
  (forall i k, In k (children N i) -> parent k = i /\ (0 < k < N)%nat /\ (i < k)%nat) /\
  (forall i, NoDup (children N i)).
Proof.
  split; [|split].
  - intros k Hk. split; [apply parent_lt; lia|apply ch_spec; lia].
  - intros i k Hk. apply ch_spec in Hk. pose proof (parent_lt k). lia.
  - apply ch_nodup.
Qed.

(* ---- global quiescence is stable ---- *)
Lemma quiet_mstep c c' g : Inv c g -> (forall j, (j < NP c)%nat -> quietw (P c j)) -> mstep c c' ->
  forall j, (j < NP c)%nat -> quietw (P c' j).
Proof.
  intros HI Hq Hm j Hj.
  assert (Hst : forall i, (i < NP c)%nat -> (st (P c i) = IWC \/ st (P c i) = IWP \/ st (P c i) = TERM) /\ infl (P c i) = 0 /\ inproc (P c i) = 0).
  { intros i Hi. destruct (Hq i Hi) as (Hb & Hf & Hp). split; auto. apply quietw_cls. split; auto. }
  destruct Hm.
  - exfalso. destruct (Hst i H) as ([X|[X|X]] & _); congruence.
  - exfalso. destruct (Hst i H) as (X & _ & Y). unfold may_load, busy_or_nr in H0. rewrite Y in H0. destruct X as [X|[X|X]]; rewrite X in H0; discriminate.
  - exfalso. destruct (Hst i H) as (X & _ & Y). unfold may_load, busy_or_nr in H0. rewrite Y in H0. destruct X as [X|[X|X]]; rewrite X in H0; discriminate.
  - exfalso. destruct (Hst i H) as ([X|[X|X]] & _); destruct H1; congruence.
  - (* contrib *)
    rewrite P_lset by (unfold NP in *; auto). destruct (j =? i)%nat eqn:E; [|apply Hq; auto].
    destruct (Hq i H) as (Hb & Hf & Hp). unfold quietw, send_up, busy_or_nr in *.
    destruct i; cbn; repeat match goal with |- context[if ?b then _ else _] => destruct b eqn:? end; cbn; rewrite ?H1; auto.
  - exfalso. destruct (Hst i H) as (X & _). unfold is_busy in H2. destruct X as [X|[X|X]]; rewrite X in H2; discriminate.
  - exfalso. destruct (Hst i H) as (_ & X & _). lia.
  - exfalso. destruct (Hst i H) as (_ & _ & X). lia.
  - apply Hq; auto.
  - rewrite P_lset by (unfold NP in *; auto). destruct (j =? j0)%nat eqn:E; [|apply Hq; auto]. apply Nat.eqb_eq in E. subst j.
    apply (Hq j0 Hj).
  - rewrite P_lset by (unfold NP in *; auto). destruct (j =? j0)%nat eqn:E; [|apply Hq; auto]. apply Nat.eqb_eq in E. subst j.
    destruct (Hq j0 Hj) as (Hb & Hf & Hp). unfold quietw, downT_p, busy_or_nr. cbn. auto.
  - rewrite P_lset by (unfold NP in *; auto). destruct (j =? j0)%nat eqn:E; [|apply Hq; auto]. apply Nat.eqb_eq in E. subst j.
    assert (Hin : In (s, j0, DOWN false) (pool c)) by (unfold pool; rewrite H; rewrite !in_app_iff; cbn; tauto).
    pose proof (I_pkt _ _ HI _ Hin) as Hok. unfold pkt_ok, msg, src, dst in Hok. cbn [fst snd] in Hok. destruct Hok as (J0 & _ & _).
    assert (1 <= dF c j0) by (unfold dF; apply (in_pool_cnt _ c _ Hin); unfold downFto, dst, msg; cbn; rewrite Nat.eqb_refl; auto).
    destruct (edge_dF_inv c g j0 (I_edge _ _ HI j0 ltac:(lia)) H2) as (A & _).
    destruct (Hq j0 Hj) as (Hb & Hf & Hp). unfold quietw, downF_p, busy_or_nr, cls in *. destruct (st (P c j0)); try lia; try discriminate; cbn; auto.
Qed.

Lemma quiet_msteps c c' : msteps c c' -> forall g, Inv c g -> (forall j, (j < NP c)%nat -> quietw (P c j)) ->
  forall j, (j < NP c)%nat -> quietw (P c' j).
Proof.
  induction 1; intros g HI Hq; auto.
  destruct (inv_mstep _ _ _ HI H) as [g1 H1]. pose proof (NP_mstep _ _ H) as HN.
  intros j Hj. rewrite <- HN in Hj. apply (IHmsteps g1 H1); auto. intros k Hk. rewrite HN in Hk. apply (quiet_mstep c c1 g); auto.
Qed.
