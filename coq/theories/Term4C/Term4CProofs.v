(* C11: the invariant holds in every reachable configuration; the theorems. *)
From PV Require Import Base.Tac Base.ListX Term4C.Term4CDefs Term4C.Term4CBase Term4C.Term4CMicro Term4C.Term4CInv
  Term4C.Term4CStruct Term4C.Term4CContrib.
Local Open Scope Z_scope.

Lemma inv_mstep c c' g : Inv c g -> mstep c c' -> exists g', Inv c' g'.
Proof.
  intros HI Hm. destruct Hm.
  - exists g. apply inv_ready; auto.
  - exists g. apply inv_load_t; auto.
  - exists g. apply inv_load_a; auto.
  - exists g. apply inv_idle; auto.
  - destruct (Nat.eq_dec i 0) as [->|Hne].
    + apply (inv_contrib_root c g); auto.
    + apply (inv_contrib_nonroot c g); auto.
  - exists g. apply inv_send; auto.
  - exists g. apply inv_rstart; auto.
  - exists g. apply inv_rend; auto.
  - exists g. apply inv_delay; auto.
  - exists g. eapply inv_up; eauto.
  - exists g. eapply inv_downT; eauto.
  - exists g. eapply inv_downF; eauto.
Qed.

Lemma inv_msteps c c' : msteps c c' -> forall g, Inv c g -> exists g', Inv c' g'.
Proof.
  induction 1; intros g HI; [eauto|]. destruct (inv_mstep _ _ _ HI H) as [g1 H1]. eauto.
Qed.

Definition g_init : ghost := mkG (fun _ => 0) (fun _ => 0) (fun _ => 0) (fun _ => 0) (fun _ => false) (fun _ => p0) false.

Lemma P_init N i : P (init N) i = p0.
Proof. unfold P, init. cbn. apply nth_repeat_p0. Qed.
Lemma NP_init N : NP (init N) = N.
Proof. unfold NP, init. cbn. apply repeat_length. Qed.

Lemma inv_init N : (1 <= N)%nat -> Inv (init N) g_init.
Proof.
  intros HN.
  assert (Hz : forall f : proc -> Z, f p0 = 0 -> bsum N (fun i => f (P (init N) i)) = 0).
  { intros f Hf. rewrite (bsum_ext _ _ (fun _ => 0)); [apply bsum_zero|]. intros. rewrite P_init. auto. }
  constructor; rewrite ?NP_init.
  - auto.
  - intros i Hi. rewrite P_init. unfold loc_ok. cbn. repeat split; try lia; intros; discriminate.
  - rewrite P_init. cbn. split; [lia|auto].
  - intros x Hx. destruct Hx.
  - intros k Hk. apply Ph_collect; rewrite ?P_init; cbn; try lia; auto. unfold cnts, upc, dT, dF, pool. cbn. auto.
  - intros i Hi. rewrite P_init. cbn. split; intros; lia.
  - rewrite !Hz; auto.
  - intros i Hi. rewrite P_init. cbn. lia.
  - intros i Hi Hf. discriminate.
  - cbn. split; [rewrite !bsum_zero; lia|intros; cbn; lia].
  - intros Hf. discriminate.
  - intros i Hi Hf. discriminate.
  - rewrite !Hz by reflexivity. unfold pool. cbn. rewrite !bsum_zero. auto.
  - rewrite P_init. cbn. split; [discriminate|auto].
  - intros Hq. destruct (Hq 0%nat ltac:(lia)) as (Hb & _). discriminate.
  - intros (i & Hi & H3). rewrite P_init in H3. cbn in H3. lia.
  - intros _. rewrite P_init. cbn. auto.
Qed.

Theorem reach_inv N c : (1 <= N)%nat -> reach N c -> NP c = N /\ exists g, Inv c g.
Proof.
  intros HN (sched & ->). pose proof (run_msteps (init N) sched) as Hms. split.
  - rewrite (NP_msteps _ _ Hms). apply NP_init.
  - apply (inv_msteps _ _ Hms g_init). apply inv_init; auto.
Qed.
