(* C11: the invariant holds in every reachable configuration; the theorems. *)
From PV Require Import Base.Tac Base.ListX Term4C.Term4CDefs Term4C.Term4CBase Term4C.Term4CMicro Term4C.Term4CInv
  Term4C.Term4CStruct Term4C.Term4CContrib.
Local Open Scope Z_scope.

Lemma inv_mstep c c' g : Inv c g -> mstep c c' -> exists g', Inv c' g'.
Proof.
  intros HI Hm. destruct Hm.
  - exists g. apply inv_ready; auto.
  - exists g. apply inv_load_t; auto.
  - exists g. apply inv_load_a; auto.
  - exists g. apply inv_idle; auto.
  - destruct (Nat.eq_dec i 0) as [->|Hne].
    + apply (inv_contrib_root c g); auto.
    + apply (inv_contrib_nonroot c g); auto.
  - exists g. apply inv_send; auto.
  - exists g. apply inv_rstart; auto.
  - exists g. apply inv_rend; auto.
  - exists g. apply inv_delay; auto.
  - exists g. eapply inv_up; eauto.
  - exists g. eapply inv_downT; eauto.
  - exists g. eapply inv_downF; eauto.
Qed.

Lemma inv_msteps c c' : msteps c c' -> forall g, Inv c g -> exists g', Inv c' g'.
Proof.
  induction 1; intros g HI; [eauto|]. destruct (inv_mstep _ _ _ HI H) as [g1 H1]. eauto.
Qed.

Definition g_init : ghost := mkG (fun _ => 0) (fun _ => 0) (fun _ => 0) (fun _ => 0) (fun _ => false) (fun _ => p0) false.

Lemma P_init N i : P (init N) i = p0.
Proof. unfold P, init. cbn. apply nth_repeat_p0. Qed.
Lemma NP_init N : NP (init N) = N.
Proof. unfold NP, init. cbn. apply repeat_length. Qed.

Lemma inv_init N : (1 <= N)%nat -> Inv (init N) g_init.
Proof.
  intros HN.
  assert (Hz : forall f : proc -> Z, f p0 = 0 -> bsum N (fun i => f (P (init N) i)) = 0).
  { intros f Hf. rewrite (bsum_ext _ _ (fun _ => 0)); [apply bsum_zero|]. intros. rewrite P_init. auto. }
  constructor; rewrite ?NP_init.
  - auto.
  - intros i Hi. rewrite P_init. unfold loc_ok. cbn. repeat split; try lia; intros; discriminate.
  - rewrite P_init. cbn. split; [lia|auto].
  - intros x Hx. destruct Hx.
  - intros k Hk. apply Ph_collect; rewrite ?P_init; cbn; try lia; auto. unfold cnts, upc, dT, dF, pool. cbn. auto.
  - intros i Hi. rewrite P_init. cbn. split; intros; lia.
  - rewrite !Hz; auto.
  - intros i Hi. rewrite P_init. cbn. lia.
  - intros i Hi Hf. discriminate.
  - cbn. split; [rewrite !bsum_zero; lia|intros; cbn; lia].
  - intros Hf. discriminate.
  - intros i Hi Hf. discriminate.
  - rewrite !Hz by reflexivity. unfold pool. cbn. rewrite !bsum_zero. auto.
  - rewrite P_init. cbn. split; [discriminate|auto].
  - intros Hq. destruct (Hq 0%nat ltac:(lia)) as (Hb & _). discriminate.
  - intros (i & Hi & H3). rewrite P_init in H3. cbn in H3. lia.
  - intros _. rewrite P_init. cbn. auto.
Qed.

Theorem reach_inv N c : (1 <= N)%nat -> reach N c -> NP c = N /\ exists g, Inv c g.
Proof.
  intros HN (sched & ->). pose proof (run_msteps (init N) sched) as Hms. split.
  - rewrite (NP_msteps _ _ Hms). apply NP_init.
  - apply (inv_msteps _ _ Hms g_init). apply inv_init; auto.
Qed.

(* ---- safety ---- *)
Lemma quietw_quiet_p c g i : Inv c g -> (i < NP c)%nat -> quietw (P c i) -> quiet_p (P c i).
Proof.
  intros HI Hi (Hb & Hf & Hp). destruct (I_loc _ _ HI i Hi) as (_ & _ & _ & _ & Hz & _). destruct (Hz Hb).
  unfold quiet_p. repeat split; auto. unfold busy_or_nr in Hb. destruct (st (P c i)); try discriminate; auto.
Qed.

Theorem safety N sched : (1 <= N)%nat ->
  let c := run (init N) sched in
  (exists i, (i < N)%nat /\ st (P c i) = TERM) ->
  (forall j, (j < N)%nat -> quiet_p (P c j)) /\ total_sent c = total_recv c /\ total_flight c = 0.
Proof.
  intros HN c (i & Hi & Ht).
  destruct (reach_inv N c HN) as (HNP & g & HI); [exists sched; reflexivity|].
  assert (Hq : forall j, (j < NP c)%nat -> quietw (P c j)).
  { apply (I_T _ _ HI). exists i. rewrite HNP. split; auto. unfold cls. rewrite Ht. reflexivity. }
  assert (Hfl : total_flight c = 0).
  { unfold total_flight. rewrite !sumf_bsum. fold (NP c).
    rewrite (bsum_ext _ _ (fun _ => 0)), (bsum_ext _ (fun i => inproc _) (fun _ => 0)); [rewrite bsum_zero; lia| |];
      intros j Hj; apply (Hq j Hj). }
  split; [|split; auto].
  - intros j Hj. apply (quietw_quiet_p c g); auto; rewrite ?HNP; auto. apply Hq. lia.
  - pose proof (I_cons _ _ HI) as Hc. unfold total_sent, total_recv, total_flight in *. rewrite !sumf_bsum in *. fold (NP c) in *.
    unfold P in Hc. lia.
Qed.

Theorem conservation N sched : (1 <= N)%nat ->
  let c := run (init N) sched in total_sent c = total_recv c + total_flight c.
Proof.
  intros HN c. destruct (reach_inv N c HN) as (HNP & g & HI); [exists sched; reflexivity|].
  pose proof (I_cons _ _ HI) as Hc. unfold total_sent, total_recv, total_flight. rewrite !sumf_bsum. fold (NP c). unfold P in Hc. lia.
Qed.

(* a DOWN message exists only for a process that waits for its parent; DOWN(true) only for an idle one *)
Theorem down_only_to_waiting N sched s j b : (1 <= N)%nat ->
  let c := run (init N) sched in
  In (s, j, DOWN b) (net c ++ dlyq c) ->
  (j < N)%nat /\ (st (P c j) = BWP \/ st (P c j) = IWP) /\ (b = true -> st (P c j) = IWP).
Proof.
  intros HN c Hin. destruct (reach_inv N c HN) as (HNP & g & HI); [exists sched; reflexivity|].
  fold (pool c) in Hin. pose proof (I_pkt _ _ HI _ Hin) as Hok. unfold pkt_ok, msg, src, dst in Hok. cbn [fst snd] in Hok.
  destruct Hok as (J0 & JN & _). rewrite HNP in JN. split; auto.
  pose proof (I_edge _ _ HI j ltac:(lia)) as HE.
  assert (Hc2 : cls (P c j) = 2 /\ (b = true -> cls (P c (parent j)) = 3)).
  { destruct b.
    - assert (1 <= dT c j) by (unfold dT; apply (in_pool_cnt _ c _ Hin); unfold downTto, dst, msg; cbn; rewrite Nat.eqb_refl; auto).
      destruct (edge_dT_inv c g j HE H) as (A & _ & _ & B). auto.
    - assert (1 <= dF c j) by (unfold dF; apply (in_pool_cnt _ c _ Hin); unfold downFto, dst, msg; cbn; rewrite Nat.eqb_refl; auto).
      destruct (edge_dF_inv c g j HE H) as (A & _). split; auto. discriminate. }
  destruct Hc2 as [H2 H3]. split.
  - unfold cls in H2. destruct (st (P c j)); try lia; auto.
  - intros Hb. pose proof (parent_lt j J0).
    assert (Hq : quietw (P c j)).
    { apply (I_T _ _ HI); [|lia]. exists (parent j). split; [lia|auto]. }
    destruct Hq as (Hq & _). unfold cls in H2. unfold busy_or_nr in Hq. destruct (st (P c j)); try lia; try discriminate; auto.
Qed.

Theorem callback_at_most_once N sched i : (1 <= N)%nat -> (i < N)%nat ->
  let c := run (init N) sched in cbs (P c i) = (if is_term (P c i) then 1 else 0).
Proof.
  intros HN Hi c. destruct (reach_inv N c HN) as (HNP & g & HI); [exists sched; reflexivity|].
  destruct (I_loc _ _ HI i ltac:(lia)) as (_ & _ & _ & _ & _ & Hc). rewrite Hc. unfold cls, is_term. destruct (st (P c i)); reflexivity.
Qed.

(* ---- counters only grow ---- *)
Lemma P_mkC_lset ps nt dq i q j : P (mkC (lset ps i q) nt dq) j = if ((j =? i)%nat && (i <? length ps)%nat)%bool then q else nth j ps p0.
Proof.
  destruct (i <? length ps)%nat eqn:E.
  - apply Nat.ltb_lt in E. rewrite P_lset by auto. rewrite andb_true_r. reflexivity.
  - rewrite andb_false_r. unfold P. cbn [procs]. apply Nat.ltb_ge in E. unfold lset.
    rewrite firstn_all2, skipn_all2 by lia.
    destruct (Nat.lt_ge_cases j (length ps)); [rewrite app_nth1 by lia; auto|].
    rewrite !nth_overflow; auto. rewrite app_length. cbn. lia.
Qed.

Lemma mstep_monotone c c' : mstep c c' -> forall j, sent (P c j) <= sent (P c' j) /\ recv (P c j) <= recv (P c' j).
Proof.
  intros Hm j. destruct Hm; unfold setp; rewrite ?P_mkC_lset; unfold NP in *; try (cbn [P procs]; lia).
  all: repeat match goal with |- context[if ?b then _ else _] => destruct b eqn:? end;
       repeat match goal with H : (_ && _)%bool = true |- _ => apply andb_true_iff in H; destruct H end;
       repeat match goal with H : (_ =? _)%nat = true |- _ => apply Nat.eqb_eq in H; subst end;
       unfold P in *; cbn [procs] in *; try lia.
  all: try (unfold busyfix, rstart_p, up_p, downT_p, downF_p; cbn;
            repeat match goal with |- context[if ?b then _ else _] => destruct b eqn:? end; cbn; try lia;
            match goal with |- context[st ?p] => destruct (st p); cbn; lia end).
  all: try (unfold send_up; destruct i; cbn; repeat match goal with |- context[if ?b then _ else _] => destruct b eqn:? end; cbn; lia).
Qed.
