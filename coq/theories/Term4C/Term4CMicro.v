(* C11: every step of the model is a finite sequence of micro-steps with
   elementary effects.  The invariants are proved on micro-steps. *)
From PV Require Import Base.Tac Base.ListX Term4C.Term4CDefs Term4C.Term4CBase.
Local Open Scope Z_scope.

Definition NP (c : cfg) : nat := length (procs c).
Definition setp (c : cfg) (i : nat) (p : proc) : cfg := mkC (lset (procs c) i p) (net c) (dlyq c).

(* the busy branch of check_state_workload_changed *)
Definition busyfix (p : proc) : proc :=
  if idle0 p then p else match st p with IWC => set_st p BWC | IWP => set_st p BWP | _ => p end.
Definition rstart_p (p : proc) : proc :=
  let p1 := set_inproc (set_infl p (infl p - 1)) (inproc p + 1) in
  match st p1 with IWC => set_st p1 BWC | IWP => set_st p1 BWP | _ => p1 end.
Definition up_p (p : proc) (a b : Z) : proc := set_ncl (set_acc p (acc_s p + a) (acc_r p + b)) (ncl p - 1).
Definition downF_p (p : proc) : proc := set_st (set_acc p 0 0) (match st p with IWP => IWC | _ => BWC end).
Definition downT_p (p : proc) : proc := set_cbs (set_st p TERM) (cbs p + 1).
Definition fwd (N j : nat) (b : bool) : list pkt := map (fun k => (j, k, DOWN b)) (children N j).

Inductive mstep (c : cfg) : cfg -> Prop :=
| M_ready i : (i < NP c)%nat -> st (P c i) = NR ->
    mstep c (setp c i (set_st (set_ncl (P c i) (nch (NP c) i)) BWC))
| M_load_t i v (fx : bool) : (i < NP c)%nat -> may_load (P c i) = true -> 0 <= v ->
    (fx = false -> tasks (P c i) <> 0 /\ v <> 0) ->
    mstep c (setp c i (if fx then busyfix (set_tasks (P c i) v) else set_tasks (P c i) v))
| M_load_a i v (fx : bool) : (i < NP c)%nat -> may_load (P c i) = true -> 0 <= v ->
    (fx = false -> acts (P c i) <> 0 /\ v <> 0) ->
    mstep c (setp c i (if fx then busyfix (set_acts (P c i) v) else set_acts (P c i) v))
| M_idle i : (i < NP c)%nat -> idle0 (P c i) = true -> (st (P c i) = BWP \/ st (P c i) = BWC) ->
    mstep c (setp c i (set_st (P c i) (match st (P c i) with BWP => IWP | _ => IWC end)))
| M_contrib i : (i < NP c)%nat -> idle0 (P c i) = true -> st (P c i) = IWC -> ncl (P c i) = 0 ->
    mstep c (mkC (lset (procs c) i (fst (send_up (NP c) i (P c i))))
                 (net c ++ snd (send_up (NP c) i (P c i))) (dlyq c))
| M_send i j : (i < NP c)%nat -> (j < NP c)%nat -> i <> j -> is_busy (P c i) = true ->
    mstep c (setp (setp c i (set_sent (P c i) (sent (P c i) + 1))) j (set_infl (P c j) (infl (P c j) + 1)))
| M_rstart i : (i < NP c)%nat -> 0 < infl (P c i) -> can_recv (P c i) = true ->
    mstep c (setp c i (rstart_p (P c i)))
| M_rend i : (i < NP c)%nat -> 0 < inproc (P c i) ->
    mstep c (setp c i (set_inproc (set_recv (P c i) (recv (P c i) + 1)) (inproc (P c i) - 1)))
| M_delay l1 pk l2 : net c = l1 ++ pk :: l2 ->
    mstep c (mkC (procs c) (l1 ++ l2) (dlyq c ++ [pk]))
| M_up d1 d2 s j a b : dlyq c = d1 ++ (s, j, UP a b) :: d2 -> (j < NP c)%nat -> st (P c j) <> NR ->
    mstep c (mkC (lset (procs c) j (up_p (P c j) a b)) (net c) (d1 ++ d2))
| M_downT d1 d2 s j : dlyq c = d1 ++ (s, j, DOWN true) :: d2 -> (j < NP c)%nat -> st (P c j) <> NR ->
    mstep c (mkC (lset (procs c) j (downT_p (P c j))) (net c ++ fwd (NP c) j true) (d1 ++ d2))
| M_downF d1 d2 s j : dlyq c = d1 ++ (s, j, DOWN false) :: d2 -> (j < NP c)%nat -> st (P c j) <> NR ->
    mstep c (mkC (lset (procs c) j (downF_p (P c j))) (net c ++ fwd (NP c) j false) (d1 ++ d2)).

Inductive msteps : cfg -> cfg -> Prop :=
| ms_refl c : msteps c c
| ms_step c c1 c2 : mstep c c1 -> msteps c1 c2 -> msteps c c2.

Lemma ms_trans c1 c2 c3 : msteps c1 c2 -> msteps c2 c3 -> msteps c1 c3.
Proof. induction 1; intros; auto. econstructor; eauto. Qed.
Lemma ms_one c c1 : mstep c c1 -> msteps c c1.
Proof. intros. econstructor; eauto. constructor. Qed.

Lemma lset_same {A} (l : list A) i d : (i < length l)%nat -> lset l i (nth i l d) = l.
Proof.
  revert i; induction l as [|x l IH]; intros [|i] H; cbn in H; try lia; [reflexivity|].
  unfold lset in *. cbn [firstn skipn app nth]. f_equal. apply IH. lia.
Qed.

Lemma NP_mstep c c' : mstep c c' -> NP c' = NP c.
Proof.
  destruct 1; unfold NP, setp in *; cbn [procs]; try reflexivity;
    repeat rewrite lset_length; auto; rewrite lset_length; auto.
Qed.
Lemma NP_msteps c c' : msteps c c' -> NP c' = NP c.
Proof. induction 1; auto. rewrite IHmsteps. apply NP_mstep; auto. Qed.

(* ---- the pieces of the module as micro-step sequences ---- *)
Lemma send_up_not_nr N i p : st p <> NR -> st (fst (send_up N i p)) <> NR.
Proof.
  intros H. unfold send_up. destruct i; [|cbn; congruence].
  destruct (if nch N 0 =? 0 then true else _); cbn; congruence.
Qed.

Lemma contrib_ms ps nt dq i : (i < length ps)%nat ->
  (idle0 (nth i ps p0) && is_iwc (nth i ps p0) && (ncl (nth i ps p0) =? 0)) = true ->
  msteps (mkC ps nt dq) (mkC (lset ps i (fst (send_up (length ps) i (nth i ps p0))))
                             (nt ++ snd (send_up (length ps) i (nth i ps p0))) dq).
Proof.
  intros Hi Hc. rewrite !andb_true_iff in Hc. destruct Hc as [[H1 H2] H3].
  apply ms_one. apply (M_contrib (mkC ps nt dq) i); unfold NP, P; cbn [procs]; auto.
  - unfold is_iwc in H2. destruct (st (nth i ps p0)); congruence.
  - lia.
Qed.

Lemma check_recv_ms ps nt dq i : (i < length ps)%nat ->
  let r := check_recv (length ps) i (nth i ps p0) in
  msteps (mkC ps nt dq) (mkC (lset ps i (fst r)) (nt ++ snd r) dq).
Proof.
  intros Hi. unfold check_recv.
  destruct (idle0 (nth i ps p0) && is_iwc (nth i ps p0) && (ncl (nth i ps p0) =? 0)) eqn:E.
  - apply contrib_ms; auto.
  - cbn. rewrite lset_same, app_nil_r by auto. constructor.
Qed.

Lemma check_recv_not_nr N i p : st p <> NR -> st (fst (check_recv N i p)) <> NR.
Proof. intros H. unfold check_recv. destruct (_ && _ && _); [apply send_up_not_nr|]; auto. Qed.

Lemma dispatch_ms ps nt d1 d2 s j m : (j < length ps)%nat -> st (nth j ps p0) <> NR ->
  let r := dispatch_tp (length ps) j (nth j ps p0) m in
  msteps (mkC ps nt (d1 ++ (s, j, m) :: d2)) (mkC (lset ps j (fst r)) (nt ++ snd r) (d1 ++ d2))
  /\ st (fst r) <> NR.
Proof.
  intros Hj Hnr. set (p := nth j ps p0) in *. destruct m as [a b|[|]]; cbn [dispatch_tp].
  - (* UP *)
    unfold msg_up. fold (up_p p a b). split; [|apply check_recv_not_nr; cbn; auto].
    eapply ms_step.
    + apply (M_up (mkC ps nt (d1 ++ (s, j, UP a b) :: d2)) d1 d2 s j a b); unfold NP, P; cbn [procs dlyq]; auto.
    + unfold P, NP; cbn [procs net dlyq]. fold p.
      pose proof (check_recv_ms (lset ps j (up_p p a b)) nt (d1 ++ d2) j) as H. cbv zeta in H.
      rewrite lset_length, nth_lset_eq, lset_lset in H by auto. apply H; auto.
  - (* DOWN true *)
    unfold msg_down. cbn [fst snd]. split; [|cbn; congruence].
    apply ms_one.
    apply (M_downT (mkC ps nt (d1 ++ (s, j, DOWN true) :: d2)) d1 d2 s j); unfold NP, P; cbn [procs dlyq]; auto.
  - (* DOWN false *)
    unfold msg_down.
    assert (Hm : mstep (mkC ps nt (d1 ++ (s, j, DOWN false) :: d2))
                       (mkC (lset ps j (downF_p p)) (nt ++ fwd (length ps) j false) (d1 ++ d2))).
    { apply (M_downF (mkC ps nt (d1 ++ (s, j, DOWN false) :: d2)) d1 d2 s j); unfold NP, P; cbn [procs dlyq]; auto. }
    replace (st (set_acc p 0 0)) with (st p) by reflexivity.
    destruct (st p) eqn:Est; try (cbn [fst snd]; split; [|cbn; congruence]; apply ms_one;
      unfold downF_p in Hm; rewrite Est in Hm; exact Hm).
    (* IWP: idle, becomes IWC, may report again *)
    destruct (check_recv (length ps) j (set_st (set_acc p 0 0) IWC)) as [p2 o] eqn:Ecr. cbn [fst snd].
    split.
    + eapply ms_step; [exact Hm|]. unfold downF_p. rewrite Est.
      pose proof (check_recv_ms (lset ps j (set_st (set_acc p 0 0) IWC)) (nt ++ fwd (length ps) j false) (d1 ++ d2) j) as H. cbv zeta in H.
      rewrite lset_length, nth_lset_eq, lset_lset, Ecr in H by auto. cbn [fst snd] in H.
      rewrite app_assoc. apply H; auto.
    + replace p2 with (fst (check_recv (length ps) j (set_st (set_acc p 0 0) IWC))) by (rewrite Ecr; auto).
      apply check_recv_not_nr. cbn. congruence.
Qed.

Lemma ready_loop_ms i : forall q pre ps nt, (i < length ps)%nat -> st (nth i ps p0) <> NR ->
  let r := ready_loop (length ps) i (nth i ps p0) q in
  msteps (mkC ps nt (pre ++ q)) (mkC (lset ps i (fst (fst r))) (nt ++ snd r) (pre ++ snd (fst r))).
Proof.
  induction q as [|[[s d] m] q IH]; intros pre ps nt Hi Hnr; cbv zeta in *.
  - cbn. rewrite lset_same, !app_nil_r by auto. constructor.
  - cbn [ready_loop]. destruct (d =? i)%nat eqn:Ed.
    + apply Nat.eqb_eq in Ed. subst d.
      pose proof (dispatch_ms ps nt pre q s i m Hi Hnr) as Hdn. cbv zeta in Hdn. destruct Hdn as [Hd Hn].
      destruct (dispatch_tp (length ps) i (nth i ps p0) m) as [p1 o1] eqn:Edp. cbn [fst snd] in Hd, Hn.
      specialize (IH pre (lset ps i p1) (nt ++ o1)).
      rewrite lset_length, nth_lset_eq, lset_lset in IH by auto.
      specialize (IH Hi Hn).
      destruct (ready_loop (length ps) i p1 q) as [[p2 k] o2]. cbn [fst snd] in *.
      rewrite app_assoc. eapply ms_trans; eauto.
    + specialize (IH (pre ++ [(s, d, m)]) ps nt Hi Hnr).
      destruct (ready_loop (length ps) i (nth i ps p0) q) as [[p2 k] o2]. cbn [fst snd] in *.
      rewrite <- !app_assoc in IH. exact IH.
Qed.

Lemma wl_from_fixed ps nt dq i p1 : (i < length ps)%nat -> nth i ps p0 = busyfix p1 ->
  let r := wl_changed (length ps) i p1 in
  msteps (mkC ps nt dq) (mkC (lset ps i (fst r)) (nt ++ snd r) dq).
Proof.
  intros Hi Hp. unfold wl_changed, busyfix in *. destruct (idle0 p1) eqn:Eid.
  - destruct (st p1) eqn:Est; try (cbn [fst snd]; rewrite <- Hp, lset_same, app_nil_r by auto; constructor).
    + (* BWC *)
      assert (Hm : mstep (mkC ps nt dq) (mkC (lset ps i (set_st p1 IWC)) nt dq)).
      { pose proof (M_idle (mkC ps nt dq) i) as H. unfold NP, P, setp in H; cbn [procs net dlyq] in H.
        rewrite Hp, Est in H. apply H; auto. }
      replace (ncl (set_st p1 IWC)) with (ncl p1) by reflexivity.
      destruct (ncl p1 =? 0) eqn:En.
      * eapply ms_step; [exact Hm|].
        pose proof (contrib_ms (lset ps i (set_st p1 IWC)) nt dq i) as H.
        rewrite lset_length, nth_lset_eq, lset_lset in H by auto. apply H; auto.
        unfold idle0 in *. cbn. rewrite En. cbn in Eid. rewrite Eid. reflexivity.
      * cbn [fst snd]. rewrite app_nil_r. apply ms_one. exact Hm.
    + (* BWP *)
      cbn [fst snd]. rewrite app_nil_r. apply ms_one.
      pose proof (M_idle (mkC ps nt dq) i) as H. unfold NP, P, setp in H; cbn [procs net dlyq] in H.
      rewrite Hp, Est in H. apply H; auto.
  - destruct (st p1); cbn [fst snd]; rewrite <- Hp, lset_same, app_nil_r by auto; constructor.
Qed.

Lemma local_id ps nt dq i : (i < length ps)%nat -> local (mkC ps nt dq) i (nth i ps p0, []) = mkC ps nt dq.
Proof. intros H. unfold local. cbn. rewrite lset_same, app_nil_r by auto. reflexivity. Qed.

Lemma take_first_split i j : forall l m rest, take_first i j l = Some (m, rest) ->
  exists l1 l2, l = l1 ++ (i, j, m) :: l2 /\ rest = l1 ++ l2.
Proof.
  induction l as [|[[s d] m0] l IH]; intros m rest H; cbn in H; [discriminate|].
  destruct ((s =? i)%nat && (d =? j)%nat) eqn:E.
  - apply andb_true_iff in E. destruct E as [E1 E2]. apply Nat.eqb_eq in E1, E2. subst. inversion H; subst.
    exists [], rest. auto.
  - destruct (take_first i j l) as [[m' r']|] eqn:Et; [|discriminate]. inversion H; subst.
    destruct (IH _ _ eq_refl) as (l1 & l2 & -> & ->). exists ((s, d, m0) :: l1), l2. auto.
Qed.

Theorem step_msteps c a : msteps c (step c a).
Proof.
  destruct c as [ps nt dq]. destruct a as [i|i v|i v|i v|i v|i j|i|i|i j]; cbn [step procs net dlyq].
  - (* ready *)
    destruct ((i <? length ps)%nat && _) eqn:E; [|constructor].
    apply andb_true_iff in E. destruct E as [E1 E2]. apply Nat.ltb_lt in E1.
    unfold P in *. cbn [procs] in *.
    assert (Est : st (nth i ps p0) = NR) by (destruct (st (nth i ps p0)); congruence).
    set (p1 := set_st (set_ncl (nth i ps p0) (nch (length ps) i)) BWC).
    eapply ms_step.
    + apply (M_ready (mkC ps nt dq) i); unfold NP, P; cbn; auto.
    + unfold setp, NP, P. cbn [procs net dlyq]. fold p1.
      pose proof (ready_loop_ms i dq [] (lset ps i p1) nt) as H. cbv zeta in H.
      rewrite lset_length, nth_lset_eq in H by auto. specialize (H E1 ltac:(cbn; congruence)).
      destruct (ready_loop (length ps) i p1 dq) as [[p2 k] o]. cbn [fst snd app] in H.
      rewrite lset_lset in H by auto. exact H.
  - (* addto_nb_tasks *)
    destruct ((i <? length ps)%nat && _ && _) eqn:E; [|constructor].
    rewrite !andb_true_iff in E. destruct E as [[E1 E2] E3]. apply Nat.ltb_lt in E1. apply Z.leb_le in E3.
    unfold P in *. cbn [procs] in *. set (p := nth i ps p0) in *. unfold addto_tasks.
    destruct (v =? 0) eqn:Ev; [unfold p; rewrite local_id by auto; constructor|].
    destruct ((tasks p =? 0) || (tasks p + v =? 0)) eqn:Ec.
    + eapply ms_step.
      * apply (M_load_t (mkC ps nt dq) i (tasks p + v) true); unfold NP, P; cbn [procs]; auto. discriminate.
      * unfold setp, P, local; cbn [procs net dlyq]. fold p.
        pose proof (wl_from_fixed (lset ps i (busyfix (set_tasks p (tasks p + v)))) nt dq i (set_tasks p (tasks p + v))) as H. cbv zeta in H.
        rewrite lset_length, nth_lset_eq, lset_lset in H by auto. apply H; auto.
    + apply orb_false_iff in Ec. destruct Ec as [Ec1 Ec2]. unfold local. cbn [fst snd procs net dlyq]. rewrite app_nil_r.
      apply ms_one. apply (M_load_t (mkC ps nt dq) i (tasks p + v) false); unfold NP, P; cbn [procs]; auto.
      intros _. fold p. lia.
  - (* addto_runtime_actions *)
    destruct ((i <? length ps)%nat && _ && _) eqn:E; [|constructor].
    rewrite !andb_true_iff in E. destruct E as [[E1 E2] E3]. apply Nat.ltb_lt in E1. apply Z.leb_le in E3.
    unfold P in *. cbn [procs] in *. set (p := nth i ps p0) in *. unfold addto_acts.
    destruct (v =? 0) eqn:Ev; [unfold p; rewrite local_id by auto; constructor|].
    destruct ((acts p =? 0) || (acts p + v =? 0)) eqn:Ec.
    + eapply ms_step.
      * apply (M_load_a (mkC ps nt dq) i (acts p + v) true); unfold NP, P; cbn [procs]; auto. discriminate.
      * unfold setp, P, local; cbn [procs net dlyq]. fold p.
        pose proof (wl_from_fixed (lset ps i (busyfix (set_acts p (acts p + v)))) nt dq i (set_acts p (acts p + v))) as H. cbv zeta in H.
        rewrite lset_length, nth_lset_eq, lset_lset in H by auto. apply H; auto.
    + apply orb_false_iff in Ec. destruct Ec as [Ec1 Ec2]. unfold local. cbn [fst snd procs net dlyq]. rewrite app_nil_r.
      apply ms_one. apply (M_load_a (mkC ps nt dq) i (acts p + v) false); unfold NP, P; cbn [procs]; auto.
      intros _. fold p. lia.
  - (* set_nb_tasks *)
    destruct ((i <? length ps)%nat && _ && _) eqn:E; [|constructor].
    rewrite !andb_true_iff in E. destruct E as [[E1 E2] E3]. apply Nat.ltb_lt in E1. apply Z.leb_le in E3.
    unfold P in *. cbn [procs] in *. set (p := nth i ps p0) in *. unfold setto_tasks.
    destruct (tasks p =? v) eqn:Ev; [unfold p; rewrite local_id by auto; constructor|].
    eapply ms_step.
    * apply (M_load_t (mkC ps nt dq) i v true); unfold NP, P; cbn [procs]; auto. discriminate.
    * unfold setp, P, local; cbn [procs net dlyq]. fold p.
      pose proof (wl_from_fixed (lset ps i (busyfix (set_tasks p v))) nt dq i (set_tasks p v)) as H. cbv zeta in H.
      rewrite lset_length, nth_lset_eq, lset_lset in H by auto. apply H; auto.
  - (* set_runtime_actions *)
    destruct ((i <? length ps)%nat && _ && _) eqn:E; [|constructor].
    rewrite !andb_true_iff in E. destruct E as [[E1 E2] E3]. apply Nat.ltb_lt in E1. apply Z.leb_le in E3.
    unfold P in *. cbn [procs] in *. set (p := nth i ps p0) in *. unfold setto_acts.
    destruct (acts p =? v) eqn:Ev; [unfold p; rewrite local_id by auto; constructor|].
    eapply ms_step.
    * apply (M_load_a (mkC ps nt dq) i v true); unfold NP, P; cbn [procs]; auto. discriminate.
    * unfold setp, P, local; cbn [procs net dlyq]. fold p.
      pose proof (wl_from_fixed (lset ps i (busyfix (set_acts p v))) nt dq i (set_acts p v)) as H. cbv zeta in H.
      rewrite lset_length, nth_lset_eq, lset_lset in H by auto. apply H; auto.
  - (* send *)
    destruct ((i <? length ps)%nat && _ && _ && _) eqn:E; [|constructor].
    rewrite !andb_true_iff in E. destruct E as [[[E1 E2] E3] E4].
    apply Nat.ltb_lt in E1, E2. apply negb_true_iff, Nat.eqb_neq in E3.
    apply ms_one. unfold local. cbn [fst snd procs net dlyq]. rewrite !app_nil_r.
    pose proof (M_send (mkC ps nt dq) i j) as H. unfold NP, P, setp in *; cbn [procs net dlyq] in *.
    rewrite (nth_lset_ne ps i j) by auto. apply H; auto.
  - (* receive start *)
    destruct ((i <? length ps)%nat && _ && _) eqn:E; [|constructor].
    rewrite !andb_true_iff in E. destruct E as [[E1 E2] E3]. apply Nat.ltb_lt in E1. apply Z.ltb_lt in E2.
    apply ms_one. unfold local. cbn [fst snd procs net dlyq]. rewrite app_nil_r.
    apply (M_rstart (mkC ps nt dq) i); auto.
  - (* receive end *)
    destruct ((i <? length ps)%nat && _) eqn:E; [|constructor].
    rewrite !andb_true_iff in E. destruct E as [E1 E2]. apply Nat.ltb_lt in E1. apply Z.ltb_lt in E2.
    apply ms_one. unfold local. cbn [fst snd procs net dlyq]. rewrite app_nil_r.
    apply (M_rend (mkC ps nt dq) i); auto.
  - (* deliver *)
    destruct (j <? length ps)%nat eqn:E1; [|constructor]. apply Nat.ltb_lt in E1.
    destruct (take_first i j nt) as [[m rest]|] eqn:Et; [|constructor].
    destruct (take_first_split _ _ _ _ _ Et) as (l1 & l2 & -> & ->).
    assert (Hd : mstep (mkC ps (l1 ++ (i, j, m) :: l2) dq) (mkC ps (l1 ++ l2) (dq ++ [(i, j, m)]))).
    { apply (M_delay (mkC ps (l1 ++ (i, j, m) :: l2) dq) l1 (i, j, m) l2). reflexivity. }
    unfold P. cbn [procs].
    assert (Hnn : st (nth j ps p0) <> NR ->
                  msteps (mkC ps (l1 ++ (i, j, m) :: l2) dq)
                         (mkC (lset ps j (fst (dispatch_tp (length ps) j (nth j ps p0) m)))
                              ((l1 ++ l2) ++ snd (dispatch_tp (length ps) j (nth j ps p0) m)) dq)).
    { intros Hn. eapply ms_step; [exact Hd|].
      pose proof (dispatch_ms ps (l1 ++ l2) dq [] i j m E1 Hn) as Hdn. cbv zeta in Hdn. destruct Hdn as [H _]. rewrite app_nil_r in H. exact H. }
    destruct (st (nth j ps p0)) eqn:Est; try (apply Hnn; congruence).
    apply ms_one. exact Hd.
Qed.

Lemma run_msteps c sched : msteps c (run c sched).
Proof.
  revert c; induction sched as [|a l IH]; intros c; cbn; [constructor|].
  eapply ms_trans; [apply step_msteps|apply IH].
Qed.
