(* C11: the obligation on the CALL SITES of the detector.  The theorems of
   Term4CProofs / Term4CBound are about the disciplined environment of
   Term4CDefs.step: every application message is counted sent exactly once
   (outgoing_message_start) and received exactly once (incoming_message_end once
   per incoming_message_start).  The module cannot enforce this; the
   communication layer must.  Here: if ONE message is counted received twice,
   a system that is idle for ever never declares termination (liveness is lost;
   parsec/remote_dep_mpi.c, remote_dep_release_incoming is the call site). *)
From PV Require Import Base.Tac Base.ListX Term4C.Term4CDefs Term4C.Term4CBase Term4C.Term4CMicro Term4C.Term4CInv
  Term4C.Term4CProofs Term4C.Term4CLive Term4C.Term4CBound.
Local Open Scope Z_scope.

(* the communication layer calls incoming_message_end at i once more for a message that is already counted *)
Definition dup_end (c : cfg) (i : nat) : cfg :=
  mkC (lset (procs c) i (set_recv (P c i) (recv (P c i) + 1))) (net c) (dlyq c).

(* two processes, one message from 0 to 1, everybody finishes *)
Definition one_message : list action :=
  [AActs 0 1; AActs 1 1; AReady 0; AReady 1; ASend 0 1; ARecvStart 1; ARecvEnd 1; AActs 1 (-1); AActs 0 (-1)].
Definition c_ok : cfg := run (init 2) one_message.
Definition c_dup : cfg := dup_end c_ok 1.

(* the configurations the overcounted system can be in *)
Definition dup_states : list cfg :=
  [c_dup;
   run c_dup [ADeliver 1 0];
   run c_dup [ADeliver 1 0; ADeliver 0 1];
   run c_dup [ADeliver 1 0; ADeliver 0 1; ADeliver 1 0];
   run c_dup [ADeliver 1 0; ADeliver 0 1; ADeliver 1 0; ADeliver 0 1]].

Ltac find_in := vm_compute; repeat (try (left; reflexivity); right).

Lemma dup_states_quiescent c : In c dup_states -> NP c = 2%nat /\ quiescent 2 c.
Proof.
  intros H. unfold dup_states in H. cbn [In] in H.
  repeat (destruct H as [<-|H]; [split; [reflexivity|intros [|[|j]] Hj; try lia; vm_compute; repeat split; auto]|]).
  destruct H.
Qed.

Ltac deliver_cases i j Hj Ht :=
  destruct i as [|[|i]]; destruct j as [|[|j]]; try (vm_compute in Hj; lia); try (vm_compute in Ht; discriminate); find_in.

Lemma dup_states_deliver c i j m rest : In c dup_states -> (j < NP c)%nat -> take_first i j (net c) = Some (m, rest) ->
  In (step c (ADeliver i j)) dup_states.
Proof.
  intros Hin Hj Ht. unfold dup_states in Hin. cbn [In] in Hin.
  destruct Hin as [<-|[<-|[<-|[<-|[<-|[]]]]]].
  - deliver_cases i j Hj Ht.
  - deliver_cases i j Hj Ht.
  - deliver_cases i j Hj Ht.
  - deliver_cases i j Hj Ht.
  - deliver_cases i j Hj Ht.
Qed.

Lemma dup_states_closed c a : In c dup_states -> In (step c a) dup_states.
Proof.
  intros Hin. destruct (dup_states_quiescent c Hin) as [HN Hq].
  destruct (quiescent_only_deliveries 2 c a HN Hq) as [E|(i & j & m & rest & E & Hj & Ht)]; [rewrite E; auto|].
  subst a. eapply dup_states_deliver; eauto.
Qed.

Lemma dup_run sched : forall c, In c dup_states -> In (run c sched) dup_states.
Proof. induction sched as [|a l IH]; intros c H; unfold run in *; cbn [fold_left]; auto. apply IH. apply dup_states_closed. auto. Qed.

Lemma dup_states_not_term c j : In c dup_states -> st (P c j) <> TERM.
Proof.
  intros H. unfold dup_states in H. cbn [In] in H.
  repeat (destruct H as [<-|H]; [destruct j as [|[|[|j]]]; vm_compute; discriminate|]).
  destruct H.
Qed.

(* the disciplined system terminates; with one receipt counted twice it is quiescent for ever and never terminates *)
Theorem double_count_refuted :
  (quiescent 2 c_ok /\ total_sent c_ok = 1 /\ total_recv c_ok = 1 /\ forall j, (j < 2)%nat -> st (P (finish c_ok) j) = TERM) /\
  (quiescent 2 c_dup /\ total_sent c_dup = 1 /\ total_recv c_dup = 2 /\
   forall sched j, quiescent 2 (run c_dup sched) /\ st (P (run c_dup sched) j) <> TERM).
Proof.
  split.
  - split; [intros [|[|j]] Hj; try lia; vm_compute; repeat split; auto|].
    split; [reflexivity|split; [reflexivity|]]. intros [|[|j]] Hj; try lia; vm_compute; reflexivity.
  - assert (H0 : In c_dup dup_states) by (left; reflexivity).
    split; [apply (dup_states_quiescent c_dup H0)|]. split; [reflexivity|split; [reflexivity|]].
    intros sched j. pose proof (dup_run sched c_dup H0) as Hr. split.
    + apply (dup_states_quiescent _ Hr).
    + apply dup_states_not_term; auto.
Qed.
