(* C11: the inductive invariant (with ghost wave snapshots) and the lemmas
   about configurations it is stated with. *)
From PV Require Import Base.Tac Base.ListX Term4C.Term4CDefs Term4C.Term4CBase Term4C.Term4CMicro.
Local Open Scope Z_scope.

(* ---- access to processes ---- *)
Lemma P_mk ps nt dq j : P (mkC ps nt dq) j = nth j ps p0. Proof. reflexivity. Qed.
Lemma P_lset ps nt dq i q j : (i < length ps)%nat ->
  P (mkC (lset ps i q) nt dq) j = if (j =? i)%nat then q else nth j ps p0.
Proof.
  intros H. unfold P. cbn [procs]. destruct (j =? i)%nat eqn:E.
  - apply Nat.eqb_eq in E. subst. apply nth_lset_eq; auto.
  - apply Nat.eqb_neq in E. apply nth_lset_ne; auto.
Qed.
Lemma P_setp c i q j : (i < NP c)%nat -> P (setp c i q) j = if (j =? i)%nat then q else P c j.
Proof. intros H. unfold setp. rewrite P_lset by auto. reflexivity. Qed.
Lemma NP_setp c i q : (i < NP c)%nat -> NP (setp c i q) = NP c.
Proof. intros H. unfold NP, setp. cbn. apply lset_length; auto. Qed.

(* ---- the messages that exist: network and delayed list together ---- *)
Definition pool (c : cfg) : list pkt := net c ++ dlyq c.
Definition src (x : pkt) : nat := fst (fst x).
Definition dst (x : pkt) : nat := snd (fst x).
Definition msg (x : pkt) : cmsg := snd x.
Definition upfrom (k : nat) (x : pkt) : bool :=
  (src x =? k)%nat && match msg x with UP _ _ => true | _ => false end.
Definition downTto (k : nat) (x : pkt) : bool :=
  (dst x =? k)%nat && match msg x with DOWN true => true | _ => false end.
Definition downFto (k : nat) (x : pkt) : bool :=
  (dst x =? k)%nat && match msg x with DOWN false => true | _ => false end.
Definition upc c k := cnt (upfrom k) (pool c).
Definition dT c k := cnt (downTto k) (pool c).
Definition dF c k := cnt (downFto k) (pool c).
Definition ups_s (x : pkt) : Z := match msg x with UP s _ => s | _ => 0 end.
Definition ups_r (x : pkt) : Z := match msg x with UP _ r => r | _ => 0 end.

(* class of a monitor state: 0 not ready, 1 collecting from children, 2 waiting
   for the parent, 3 terminated *)
Definition cls (p : proc) : Z :=
  match st p with NR => 0 | BWC | IWC => 1 | BWP | IWP => 2 | TERM => 3 end.
Definition absb (c : cfg) (k : nat) : bool :=
  (cls (P c k) =? 2) && (upc c k =? 0) && (dT c k =? 0) && (dF c k =? 0).
Definition nabs (c : cfg) (i : nat) : Z := cnt (fun k => negb (absb c k)) (children (NP c) i).
Definition mass_s (p : proc) : Z := if cls p <=? 1 then acc_s p else 0.
Definition mass_r (p : proc) : Z := if cls p <=? 1 then acc_r p else 0.
Definition quietw (p : proc) : Prop := busy_or_nr p = false /\ infl p = 0 /\ inproc p = 0.

(* ---- ghost state ---- *)
Record ghost := mkG {
  cur_s : nat -> Z; cur_r : nat -> Z;   (* own counters at the latest report *)
  dc_s : nat -> Z; dc_r : nat -> Z;     (* own counters reported to the last decided wave *)
  gf : nat -> bool;                     (* has reported to the wave not yet decided *)
  gz : nat -> proc;                     (* the processes when the root last decided *)
  gd : bool                             (* the root has decided at least once *)
}.

Definition cnts c k (a b d : Z) : Prop := upc c k = a /\ dT c k = b /\ dF c k = d.

(* the phase of the edge between k and its parent *)
Inductive Edge (c : cfg) (g : ghost) (k : nat) : Prop :=
| Ph_collect : cls (P c k) <= 1 -> cnts c k 0 0 0 -> gf g k = false -> cls (P c (parent k)) <= 1 -> Edge c g k
| Ph_up : cls (P c k) = 2 -> cnts c k 1 0 0 -> gf g k = true -> cls (P c (parent k)) <= 1 -> Edge c g k
| Ph_abs1 : cls (P c k) = 2 -> cnts c k 0 0 0 -> gf g k = true -> cls (P c (parent k)) = 1 -> Edge c g k
| Ph_abs2 : cls (P c k) = 2 -> cnts c k 0 0 0 -> gf g k = gf g (parent k) -> cls (P c (parent k)) = 2 -> Edge c g k
| Ph_dF : cls (P c k) = 2 -> cnts c k 0 0 1 -> gf g k = false -> cls (P c (parent k)) <= 1 -> Edge c g k
| Ph_dT : cls (P c k) = 2 -> cnts c k 0 1 0 -> gf g k = false -> cls (P c (parent k)) = 3 -> Edge c g k
| Ph_term : cls (P c k) = 3 -> cnts c k 0 0 0 -> gf g k = false -> cls (P c (parent k)) = 3 -> Edge c g k.

Definition pkt_ok (N : nat) (x : pkt) : Prop :=
  match msg x with
  | UP _ _ => src x <> 0%nat /\ (src x < N)%nat /\ dst x = parent (src x)
  | DOWN _ => dst x <> 0%nat /\ (dst x < N)%nat /\ src x = parent (dst x)
  end.

Definition loc_ok (p : proc) : Prop :=
  0 <= tasks p /\ 0 <= acts p /\ 0 <= infl p /\ 0 <= inproc p /\
  (busy_or_nr p = false -> tasks p = 0 /\ acts p = 0) /\
  cbs p = (if cls p =? 3 then 1 else 0).

Record Inv (c : cfg) (g : ghost) : Prop := {
  I_N : (1 <= NP c)%nat;
  I_loc : forall i, (i < NP c)%nat -> loc_ok (P c i);
  I_root : cls (P c 0) <> 2 /\ gf g 0%nat = false;
  I_pkt : forall x, In x (pool c) -> pkt_ok (NP c) x;
  I_edge : forall k, (0 < k < NP c)%nat -> Edge c g k;
  I_ncl : forall i, (i < NP c)%nat ->
            (cls (P c i) = 1 -> ncl (P c i) = nabs c i) /\ (cls (P c i) = 2 -> ncl (P c i) = nch (NP c) i);
  I_cons : bsum (NP c) (fun i => sent (P c i)) =
           bsum (NP c) (fun i => recv (P c i)) + bsum (NP c) (fun i => infl (P c i)) + bsum (NP c) (fun i => inproc (P c i));
  I_g1 : forall i, (i < NP c)%nat ->
           0 <= dc_s g i <= sent (gz g i) /\ sent (gz g i) <= sent (P c i) /\
           0 <= dc_r g i <= recv (gz g i) /\ recv (gz g i) <= recv (P c i);
  I_g2 : forall i, (i < NP c)%nat -> gf g i = true ->
           sent (gz g i) <= cur_s g i <= sent (P c i) /\ recv (gz g i) <= cur_r g i <= recv (P c i);
  I_g3 : bsum (NP c) (fun i => sent (gz g i)) =
           bsum (NP c) (fun i => recv (gz g i)) + bsum (NP c) (fun i => infl (gz g i)) + bsum (NP c) (fun i => inproc (gz g i))
         /\ forall i, (i < NP c)%nat -> 0 <= infl (gz g i) /\ 0 <= inproc (gz g i);
  I_g4 : gd g = true -> forall i, (i < NP c)%nat -> busy_or_nr (gz g i) = true ->
           0 < inproc (gz g i) \/ dc_r g i < recv (gz g i);
  I_g5 : forall i, (i < NP c)%nat -> gf g i = true -> st (P c i) = BWP ->
           0 < inproc (P c i) \/ cur_r g i < recv (P c i);
  I_g6 : bsum (NP c) (fun i => mass_s (P c i)) + psum ups_s (pool c) = bsum (NP c) (fun i => if gf g i then cur_s g i else 0)
         /\ bsum (NP c) (fun i => mass_r (P c i)) + psum ups_r (pool c) = bsum (NP c) (fun i => if gf g i then cur_r g i else 0);
  I_g7 : (gd g = true -> last_s (P c 0) = bsum (NP c) (dc_s g) /\ last_r (P c 0) = bsum (NP c) (dc_r g))
         /\ (gd g = false -> last_s (P c 0) = -1);
  I_g9 : (forall i, (i < NP c)%nat -> quietw (gz g i)) -> forall i, (i < NP c)%nat -> quietw (P c i);
  I_T : (exists i, (i < NP c)%nat /\ cls (P c i) = 3) -> forall i, (i < NP c)%nat -> quietw (P c i);
  I_one : NP c = 1%nat -> infl (P c 0) = 0 /\ inproc (P c 0) = 0
}.

(* ---- facts about cls ---- *)
Lemma cls_range p : 0 <= cls p <= 3. Proof. unfold cls; destruct (st p); lia. Qed.
Lemma cls_busy_or_nr p : busy_or_nr p = false -> 2 <= cls p \/ st p = IWC.
Proof. unfold busy_or_nr, cls. destruct (st p); intros; try discriminate; auto; lia. Qed.
Lemma quietw_cls p : quietw p -> st p = IWC \/ st p = IWP \/ st p = TERM.
Proof. intros [H _]. unfold busy_or_nr in H. destruct (st p); try discriminate; auto. Qed.

(* ---- counting in the pool ---- *)
Lemma cnt_remove {A} (f : A -> bool) d1 x d2 : cnt f (d1 ++ x :: d2) = cnt f (d1 ++ d2) + (if f x then 1 else 0).
Proof. rewrite !cnt_app, cnt_cons. lia. Qed.
Lemma psum_remove w d1 x d2 : psum w (d1 ++ x :: d2) = psum w (d1 ++ d2) + w x.
Proof. rewrite !psum_app. cbn. lia. Qed.

Lemma cnt_const_true {A} (l : list A) : cnt (fun _ => true) l = Z.of_nat (length l).
Proof. induction l; [reflexivity|]. rewrite cnt_cons. cbn [length]. lia. Qed.
Lemma cnt_const_false {A} (l : list A) : cnt (fun _ => false) l = 0.
Proof. induction l; [reflexivity|]. rewrite cnt_cons. lia. Qed.

(* the DOWN messages forwarded by j *)
Lemma upfrom_fwd N j b k : cnt (upfrom k) (fwd N j b) = 0.
Proof. unfold fwd. rewrite (cnt_map_children _ _ (fun _ => false)); [apply cnt_const_false|]. intros x. unfold upfrom, msg. cbn. apply andb_false_r. Qed.
Lemma psum_fwd_s N j b : psum ups_s (fwd N j b) = 0.
Proof. apply psum_zero. intros x Hx. unfold fwd in Hx. apply in_map_iff in Hx. destruct Hx as (k & <- & _). reflexivity. Qed.
Lemma psum_fwd_r N j b : psum ups_r (fwd N j b) = 0.
Proof. apply psum_zero. intros x Hx. unfold fwd in Hx. apply in_map_iff in Hx. destruct Hx as (k & <- & _). reflexivity. Qed.
Definition is_child (N j k : nat) : bool := negb (k =? 0)%nat && (k <? N)%nat && (parent k =? j)%nat.
Lemma is_child_spec N j k : is_child N j k = true <-> (k <> 0 /\ k < N /\ parent k = j)%nat.
Proof. unfold is_child. rewrite !andb_true_iff, negb_true_iff, Nat.eqb_neq, Nat.ltb_lt, Nat.eqb_eq. tauto. Qed.
Lemma downT_fwd N j k : cnt (downTto k) (fwd N j true) = if is_child N j k then 1 else 0.
Proof. unfold fwd. rewrite (cnt_map_children _ _ (fun x => (x =? k)%nat)); [apply cnt_eqb_children|]. intros x. unfold downTto, dst, msg. cbn. apply andb_true_r. Qed.
Lemma downF_fwd N j k : cnt (downFto k) (fwd N j false) = if is_child N j k then 1 else 0.
Proof. unfold fwd. rewrite (cnt_map_children _ _ (fun x => (x =? k)%nat)); [apply cnt_eqb_children|]. intros x. unfold downFto, dst, msg. cbn. apply andb_true_r. Qed.
Lemma downT_fwdF N j k : cnt (downTto k) (fwd N j false) = 0.
Proof. unfold fwd. rewrite (cnt_map_children _ _ (fun _ => false)); [apply cnt_const_false|]. intros x. unfold downTto, msg. cbn. apply andb_false_r. Qed.
Lemma downF_fwdT N j k : cnt (downFto k) (fwd N j true) = 0.
Proof. unfold fwd. rewrite (cnt_map_children _ _ (fun _ => false)); [apply cnt_const_false|]. intros x. unfold downFto, msg. cbn. apply andb_false_r. Qed.
Lemma fwd_ok N j b x : (j < N)%nat -> In x (fwd N j b) -> pkt_ok N x.
Proof.
  intros Hj Hx. unfold fwd in Hx. apply in_map_iff in Hx. destruct Hx as (k & <- & Hk).
  apply ch_spec in Hk. unfold pkt_ok, msg, dst, src. cbn. intuition.
Qed.

(* ---- steps that change only fields the tree protocol does not look at ---- *)
Definition Rloc (g : ghost) (j : nat) (p q : proc) : Prop :=
  cls q = cls p /\ ncl q = ncl p /\ acc_s q = acc_s p /\ acc_r q = acc_r p /\
  last_s q = last_s p /\ last_r q = last_r p /\ loc_ok q /\ sent p <= sent q /\ recv p <= recv q /\
  (gf g j = true -> st q = BWP -> 0 < inproc q \/ cur_r g j < recv q).

Lemma Rloc_refl c g j : Inv c g -> (j < NP c)%nat -> Rloc g j (P c j) (P c j).
Proof.
  intros HI Hj. unfold Rloc. do 6 (split; [reflexivity|]). split; [apply (I_loc _ _ HI j Hj)|].
  split; [lia|]. split; [lia|]. intros. apply (I_g5 _ _ HI j); auto.
Qed.

Lemma absb_transfer c c' k : cls (P c' k) = cls (P c k) ->
  (forall f, cnt f (pool c') = cnt f (pool c)) -> absb c' k = absb c k.
Proof. intros H1 H2. unfold absb, upc, dT, dF. rewrite H1, !H2. reflexivity. Qed.

Lemma edge_transfer c c' g k : cls (P c' k) = cls (P c k) -> cls (P c' (parent k)) = cls (P c (parent k)) ->
  (forall f, cnt f (pool c') = cnt f (pool c)) -> Edge c g k -> Edge c' g k.
Proof.
  intros H1 H2 H3 HE.
  assert (Hc : forall a b d, cnts c k a b d -> cnts c' k a b d).
  { unfold cnts, upc, dT, dF. intros. rewrite !H3. auto. }
  destruct HE; [apply Ph_collect|apply Ph_up|apply Ph_abs1|apply Ph_abs2|apply Ph_dF|apply Ph_dT|apply Ph_term]; auto; congruence.
Qed.

Lemma inv_fieldwise c c' g :
  Inv c g -> NP c' = NP c ->
  (forall f, cnt f (pool c') = cnt f (pool c)) ->
  (forall w, psum w (pool c') = psum w (pool c)) ->
  (forall x, In x (pool c') -> In x (pool c)) ->
  (forall j, (j < NP c)%nat -> Rloc g j (P c j) (P c' j)) ->
  bsum (NP c) (fun i => sent (P c' i)) =
    bsum (NP c) (fun i => recv (P c' i)) + bsum (NP c) (fun i => infl (P c' i)) + bsum (NP c) (fun i => inproc (P c' i)) ->
  ((forall j, (j < NP c)%nat -> quietw (P c j)) -> forall j, (j < NP c)%nat -> quietw (P c' j)) ->
  (NP c = 1%nat -> infl (P c' 0) = 0 /\ inproc (P c' 0) = 0) ->
  Inv c' g.
Proof.
  intros HI HN Hcnt Hps Hin HR Hcons Hq H1.
  pose proof (I_N _ _ HI) as HN1.
  assert (Hcls : forall j, (j < NP c)%nat -> cls (P c' j) = cls (P c j)) by (intros j Hj; apply (HR j Hj)).
  constructor; rewrite ?HN.
  - auto.
  - intros i Hi. apply (HR i Hi).
  - destruct (I_root _ _ HI). rewrite Hcls by lia. auto.
  - intros x Hx. apply (I_pkt _ _ HI). auto.
  - intros k Hk. apply (edge_transfer c); auto.
    + apply Hcls. lia.
    + apply Hcls. pose proof (parent_lt k). lia.
    + apply (I_edge _ _ HI); auto.
  - intros i Hi. destruct (HR i Hi) as (Hc & Hn & _). rewrite Hc, Hn.
    assert (nabs c' i = nabs c i) as ->.
    { unfold nabs. rewrite HN. apply cnt_ext_in. intros k Hk. apply ch_spec in Hk. f_equal. apply absb_transfer; auto. apply Hcls. lia. }
    apply (I_ncl _ _ HI); auto.
  - exact Hcons.
  - intros i Hi. destruct (I_g1 _ _ HI i Hi) as (A & B & C & D). destruct (HR i Hi) as (_ & _ & _ & _ & _ & _ & _ & Hs & Hr & _). lia.
  - intros i Hi Hf. destruct (I_g2 _ _ HI i Hi Hf) as (A & B). destruct (HR i Hi) as (_ & _ & _ & _ & _ & _ & _ & Hs & Hr & _). lia.
  - apply (I_g3 _ _ HI).
  - apply (I_g4 _ _ HI).
  - intros i Hi Hf Hs. apply (HR i Hi); auto.
  - destruct (I_g6 _ _ HI) as [A B]. rewrite !Hps. split.
    + rewrite <- A. f_equal. apply bsum_ext. intros i Hi. destruct (HR i Hi) as (Hc & _ & Ha & _). unfold mass_s. rewrite Hc, Ha. reflexivity.
    + rewrite <- B. f_equal. apply bsum_ext. intros i Hi. destruct (HR i Hi) as (Hc & _ & _ & Ha & _). unfold mass_r. rewrite Hc, Ha. reflexivity.
  - destruct (HR 0%nat ltac:(lia)) as (_ & _ & _ & _ & Hl1 & Hl2 & _). rewrite Hl1, Hl2. apply (I_g7 _ _ HI).
  - intros Hz. apply Hq. apply (I_g9 _ _ HI); auto.
  - intros (i & Hi & Ht). apply Hq. apply (I_T _ _ HI). exists i. split; auto. rewrite <- Hcls; auto.
  - exact H1.
Qed.

Lemma bsum_setp (f : proc -> Z) c i q : (i < NP c)%nat ->
  bsum (NP c) (fun k => f (P (setp c i q) k)) = bsum (NP c) (fun k => f (P c k)) - f (P c i) + f q.
Proof.
  intros Hi. rewrite (bsum_upd (NP c) (fun k => f (P c k)) (fun k => f (P (setp c i q) k)) i Hi).
  - rewrite P_setp, Nat.eqb_refl by auto. reflexivity.
  - intros k Hk Hne. rewrite P_setp by auto. apply Nat.eqb_neq in Hne. rewrite Hne. reflexivity.
Qed.

Lemma inv_setp c g i q : Inv c g -> (i < NP c)%nat -> Rloc g i (P c i) q ->
  sent q - sent (P c i) = (recv q - recv (P c i)) + (infl q - infl (P c i)) + (inproc q - inproc (P c i)) ->
  (quietw (P c i) -> quietw q) -> (NP c = 1%nat -> infl q = 0 /\ inproc q = 0) ->
  Inv (setp c i q) g.
Proof.
  intros HI Hi HR Hd Hq H1.
  apply (inv_fieldwise c); auto.
  - apply NP_setp; auto.
  - intros j Hj. rewrite P_setp by auto. destruct (j =? i)%nat eqn:E; [apply Nat.eqb_eq in E; subst; auto|apply Rloc_refl; auto].
  - rewrite !bsum_setp by auto. pose proof (I_cons _ _ HI). lia.
  - intros Hall j Hj. rewrite P_setp by auto. destruct (j =? i)%nat eqn:E; [apply Hq; apply Hall; auto|apply Hall; auto].
  - intros HN. rewrite P_setp by auto. assert (i = 0)%nat by lia. subst. cbn. auto.
Qed.

Ltac rec_cases p := destruct p as [st0 ta0 ac0 se0 re0 nc0 as0 ar0 ls0 lr0 cb0 if0 ip0].

Lemma loc_ok_P c g i : Inv c g -> (i < NP c)%nat -> loc_ok (P c i).
Proof. intros HI Hi. apply (I_loc _ _ HI); auto. Qed.
Lemma term_quiet c g i : Inv c g -> (i < NP c)%nat -> st (P c i) = TERM -> quietw (P c i).
Proof. intros HI Hi Hs. apply (I_T _ _ HI); auto. exists i. split; auto. unfold cls. rewrite Hs. reflexivity. Qed.

(* what a local step must satisfy, stated on one process *)
Definition same_env (p q : proc) : Prop :=
  sent q = sent p /\ recv q = recv p /\ infl q = infl p /\ inproc q = inproc p.
Definition Hyp5 (g : ghost) (j : nat) (p : proc) : Prop :=
  gf g j = true -> st p = BWP -> 0 < inproc p \/ cur_r g j < recv p.

Ltac proc_tac :=
  unfold Rloc, same_env, Hyp5, loc_ok, quietw, busyfix, rstart_p, may_load, can_recv, is_busy, busy_or_nr, idle0, cls in *;
  cbn in *;
  repeat match goal with
         | |- context[if ?b then _ else _] => destruct b eqn:?
         | H : context[if ?b then _ else _] |- _ => destruct b eqn:? end;
  cbn in *; try discriminate; try lia;
  repeat split; intros; try discriminate; try lia; auto.

Lemma load_t_p g j p v fx : loc_ok p -> (st p = TERM -> quietw p) -> Hyp5 g j p ->
  may_load p = true -> 0 <= v -> (fx = false -> tasks p <> 0 /\ v <> 0) ->
  let q := if fx then busyfix (set_tasks p v) else set_tasks p v in
  Rloc g j p q /\ same_env p q /\ (quietw p -> quietw q).
Proof.
  intros Hl Ht H5 Hml Hv Hfx. rec_cases p. destruct fx; [|destruct (Hfx eq_refl)]; destruct st0;
    try (destruct Ht as (? & ? & ?); [reflexivity|]); proc_tac.
  all: try (destruct H5; auto; lia). all: try (destruct Hl as (? & ? & ? & ? & Hz & ?); destruct Hz; auto; lia).
Qed.

Lemma load_a_p g j p v fx : loc_ok p -> (st p = TERM -> quietw p) -> Hyp5 g j p ->
  may_load p = true -> 0 <= v -> (fx = false -> acts p <> 0 /\ v <> 0) ->
  let q := if fx then busyfix (set_acts p v) else set_acts p v in
  Rloc g j p q /\ same_env p q /\ (quietw p -> quietw q).
Proof.
  intros Hl Ht H5 Hml Hv Hfx. rec_cases p. destruct fx; [|destruct (Hfx eq_refl)]; destruct st0;
    try (destruct Ht as (? & ? & ?); [reflexivity|]); proc_tac.
  all: try (destruct H5; auto; lia). all: try (destruct Hl as (? & ? & ? & ? & Hz & ?); destruct Hz; auto; lia).
Qed.

Lemma idle_p g j p : loc_ok p -> idle0 p = true -> (st p = BWP \/ st p = BWC) ->
  let q := set_st p (match st p with BWP => IWP | _ => IWC end) in
  Rloc g j p q /\ same_env p q /\ (quietw p -> quietw q).
Proof. intros Hl Hi Hs. rec_cases p. destruct Hs as [Hs|Hs]; cbn in Hs; subst st0; proc_tac. Qed.

Lemma rstart_p_ok g j p : loc_ok p -> Hyp5 g j p -> 0 < infl p -> can_recv p = true ->
  let q := rstart_p p in
  Rloc g j p q /\ sent q = sent p /\ recv q = recv p /\ infl q = infl p - 1 /\ inproc q = inproc p + 1.
Proof. intros Hl H5 Hi Hc. rec_cases p. destruct st0; proc_tac. Qed.

Lemma rend_p_ok g j p : loc_ok p -> Hyp5 g j p -> (gf g j = true -> cur_r g j <= recv p) -> 0 < inproc p ->
  let q := set_inproc (set_recv p (recv p + 1)) (inproc p - 1) in
  Rloc g j p q /\ sent q = sent p /\ recv q = recv p + 1 /\ infl q = infl p /\ inproc q = inproc p - 1.
Proof.
  intros Hl H5 H2 Hi. rec_cases p. destruct st0; proc_tac.
  all: try (specialize (H2 H); destruct H5; auto; lia). all: try (specialize (H2 H6); destruct H5; auto; lia).
Qed.

Lemma hyp5_P c g i : Inv c g -> (i < NP c)%nat -> Hyp5 g i (P c i).
Proof. intros HI Hi. unfold Hyp5. apply (I_g5 _ _ HI); auto. Qed.

Lemma one_P c g i : Inv c g -> (i < NP c)%nat -> NP c = 1%nat -> infl (P c i) = 0 /\ inproc (P c i) = 0.
Proof. intros HI Hi HN. assert (i = 0)%nat by lia. subst. apply (I_one _ _ HI); auto. Qed.

Lemma inv_load_t c g i v fx : Inv c g -> (i < NP c)%nat -> may_load (P c i) = true -> 0 <= v ->
  (fx = false -> tasks (P c i) <> 0 /\ v <> 0) ->
  Inv (setp c i (if fx then busyfix (set_tasks (P c i) v) else set_tasks (P c i) v)) g.
Proof.
  intros HI Hi Hml Hv Hfx.
  destruct (load_t_p g i (P c i) v fx (loc_ok_P c g i HI Hi) (term_quiet c g i HI Hi) (hyp5_P c g i HI Hi) Hml Hv Hfx)
    as (HR & (E1 & E2 & E3 & E4) & Hq).
  apply inv_setp; auto; [lia|]. intros HN. rewrite E3, E4. apply (one_P c g i HI Hi HN).
Qed.

Lemma inv_load_a c g i v fx : Inv c g -> (i < NP c)%nat -> may_load (P c i) = true -> 0 <= v ->
  (fx = false -> acts (P c i) <> 0 /\ v <> 0) ->
  Inv (setp c i (if fx then busyfix (set_acts (P c i) v) else set_acts (P c i) v)) g.
Proof.
  intros HI Hi Hml Hv Hfx.
  destruct (load_a_p g i (P c i) v fx (loc_ok_P c g i HI Hi) (term_quiet c g i HI Hi) (hyp5_P c g i HI Hi) Hml Hv Hfx)
    as (HR & (E1 & E2 & E3 & E4) & Hq).
  apply inv_setp; auto; [lia|]. intros HN. rewrite E3, E4. apply (one_P c g i HI Hi HN).
Qed.

Lemma inv_idle c g i : Inv c g -> (i < NP c)%nat -> idle0 (P c i) = true -> (st (P c i) = BWP \/ st (P c i) = BWC) ->
  Inv (setp c i (set_st (P c i) (match st (P c i) with BWP => IWP | _ => IWC end))) g.
Proof.
  intros HI Hi Hid Hs.
  destruct (idle_p g i (P c i) (loc_ok_P c g i HI Hi) Hid Hs) as (HR & (E1 & E2 & E3 & E4) & Hq).
  apply inv_setp; auto; [lia|]. intros HN. rewrite E3, E4. apply (one_P c g i HI Hi HN).
Qed.

Lemma inv_rstart c g i : Inv c g -> (i < NP c)%nat -> 0 < infl (P c i) -> can_recv (P c i) = true ->
  Inv (setp c i (rstart_p (P c i))) g.
Proof.
  intros HI Hi Hf Hc.
  destruct (rstart_p_ok g i (P c i) (loc_ok_P c g i HI Hi) (hyp5_P c g i HI Hi) Hf Hc) as (HR & E1 & E2 & E3 & E4).
  apply inv_setp; auto; [lia| |].
  - intros (_ & Hz & _). lia.
  - intros HN. destruct (one_P c g i HI Hi HN). lia.
Qed.

Lemma inv_rend c g i : Inv c g -> (i < NP c)%nat -> 0 < inproc (P c i) ->
  Inv (setp c i (set_inproc (set_recv (P c i) (recv (P c i) + 1)) (inproc (P c i) - 1))) g.
Proof.
  intros HI Hi Hf.
  assert (H2 : gf g i = true -> cur_r g i <= recv (P c i)) by (intros Hg; destruct (I_g2 _ _ HI i Hi Hg); lia).
  destruct (rend_p_ok g i (P c i) (loc_ok_P c g i HI Hi) (hyp5_P c g i HI Hi) H2 Hf) as (HR & E1 & E2 & E3 & E4).
  apply inv_setp; auto; [lia| |].
  - intros (_ & _ & Hz). lia.
  - intros HN. destruct (one_P c g i HI Hi HN). lia.
Qed.

Lemma inv_send c g i j : Inv c g -> (i < NP c)%nat -> (j < NP c)%nat -> i <> j -> is_busy (P c i) = true ->
  Inv (setp (setp c i (set_sent (P c i) (sent (P c i) + 1))) j (set_infl (P c j) (infl (P c j) + 1))) g.
Proof.
  intros HI Hi Hj Hne Hb.
  set (c1 := setp c i (set_sent (P c i) (sent (P c i) + 1))).
  assert (HN1 : NP c1 = NP c) by (apply NP_setp; auto).
  assert (HP : forall k, P (setp c1 j (set_infl (P c j) (infl (P c j) + 1))) k =
            if (k =? j)%nat then set_infl (P c j) (infl (P c j) + 1)
            else if (k =? i)%nat then set_sent (P c i) (sent (P c i) + 1) else P c k).
  { intros k. rewrite P_setp by lia. destruct (k =? j)%nat; auto. unfold c1. rewrite P_setp by auto. reflexivity. }
  apply (inv_fieldwise c); auto.
  - rewrite NP_setp; lia.
  - intros k Hk. rewrite HP. destruct (k =? j)%nat eqn:Ej; [|destruct (k =? i)%nat eqn:Ei].
    + apply Nat.eqb_eq in Ej; subst k. pose proof (loc_ok_P c g j HI Hj) as Hl. pose proof (hyp5_P c g j HI Hj) as H5.
      rec_cases (P c j). proc_tac.
    + apply Nat.eqb_eq in Ei; subst k. pose proof (loc_ok_P c g i HI Hi) as Hl. pose proof (hyp5_P c g i HI Hi) as H5.
      rec_cases (P c i). proc_tac.
    + apply Rloc_refl; auto.
  - rewrite <- HN1. rewrite !bsum_setp by lia. rewrite HN1. unfold c1. rewrite !bsum_setp by auto.
    rewrite !P_setp by auto. apply Nat.eqb_neq in Hne. rewrite Nat.eqb_sym in Hne. rewrite Hne.
    pose proof (I_cons _ _ HI). cbn [sent recv infl inproc set_sent set_infl]. lia.
  - intros Hall. destruct (Hall i Hi) as (Hq & _). unfold is_busy, busy_or_nr in *. destruct (st (P c i)); discriminate.
  - intros HN. lia.
Qed.

Lemma inv_delay c g l1 pk l2 : Inv c g -> net c = l1 ++ pk :: l2 ->
  Inv (mkC (procs c) (l1 ++ l2) (dlyq c ++ [pk])) g.
Proof.
  intros HI Hn. apply (inv_fieldwise c); auto.
  - intros f. unfold pool. cbn [net dlyq]. rewrite Hn, !cnt_app, !cnt_cons, cnt_nil. lia.
  - intros w. unfold pool. cbn [net dlyq]. rewrite Hn, !psum_app. cbn [psum]. lia.
  - intros x. unfold pool. cbn [net dlyq]. rewrite Hn, !in_app_iff. cbn [In]. tauto.
  - intros j Hj. change (P (mkC (procs c) (l1 ++ l2) (dlyq c ++ [pk])) j) with (P c j). apply Rloc_refl; auto.
  - apply (I_cons _ _ HI).
  - apply (I_one _ _ HI).
Qed.
