(* C11: the invariant is preserved by the micro-steps that move the wave
   (ready, UP absorbed, DOWN handled); the ghost state does not change. *)
From PV Require Import Base.Tac Base.ListX Term4C.Term4CDefs Term4C.Term4CBase Term4C.Term4CMicro Term4C.Term4CInv.
Local Open Scope Z_scope.

Definition Rnum (g : ghost) (j : nat) (p q : proc) : Prop :=
  loc_ok q /\ same_env p q /\ Hyp5 g j q /\ last_s q = last_s p /\ last_r q = last_r p.

Lemma inv_build c c' g :
  Inv c g -> NP c' = NP c ->
  (forall j, (j < NP c)%nat -> Rnum g j (P c j) (P c' j)) ->
  cls (P c' 0) <> 2 ->
  (forall x, In x (pool c') -> pkt_ok (NP c) x) ->
  (forall k, (0 < k < NP c)%nat -> Edge c' g k) ->
  (forall i, (i < NP c)%nat ->
     (cls (P c' i) = 1 -> ncl (P c' i) = nabs c' i) /\ (cls (P c' i) = 2 -> ncl (P c' i) = nch (NP c) i)) ->
  bsum (NP c) (fun i => mass_s (P c' i)) + psum ups_s (pool c') = bsum (NP c) (fun i => mass_s (P c i)) + psum ups_s (pool c) ->
  bsum (NP c) (fun i => mass_r (P c' i)) + psum ups_r (pool c') = bsum (NP c) (fun i => mass_r (P c i)) + psum ups_r (pool c) ->
  ((forall j, (j < NP c)%nat -> quietw (P c j)) -> forall j, (j < NP c)%nat -> quietw (P c' j)) ->
  ((exists i, (i < NP c)%nat /\ cls (P c' i) = 3) -> exists i, (i < NP c)%nat /\ cls (P c i) = 3) ->
  Inv c' g.
Proof.
  intros HI HN HR Hroot Hpkt Hedge Hncl Hms Hmr Hq HT.
  pose proof (I_N _ _ HI) as HN1.
  assert (Henv : forall (f : proc -> Z), (forall p q, same_env p q -> f q = f p) ->
                 bsum (NP c) (fun i => f (P c' i)) = bsum (NP c) (fun i => f (P c i))).
  { intros f Hf. apply bsum_ext. intros i Hi. apply Hf. apply (HR i Hi). }
  constructor; rewrite ?HN; auto.
  - intros i Hi. apply (HR i Hi).
  - split; auto. apply (I_root _ _ HI).
  - rewrite (Henv sent), (Henv recv), (Henv infl), (Henv inproc); try (intros p q (?&?&?&?); auto). apply (I_cons _ _ HI).
  - intros i Hi. destruct (HR i Hi) as (_ & (E1 & E2 & _) & _). rewrite E1, E2. apply (I_g1 _ _ HI); auto.
  - intros i Hi Hf. destruct (HR i Hi) as (_ & (E1 & E2 & _) & _). rewrite E1, E2. apply (I_g2 _ _ HI); auto.
  - apply (I_g3 _ _ HI).
  - apply (I_g4 _ _ HI).
  - intros i Hi Hf Hs. destruct (HR i Hi) as (_ & _ & H5 & _). apply H5; auto.
  - destruct (I_g6 _ _ HI) as [A B]. split; lia.
  - destruct (HR 0%nat ltac:(lia)) as (_ & _ & _ & L1 & L2). rewrite L1, L2. apply (I_g7 _ _ HI).
  - intros Hz. apply Hq. apply (I_g9 _ _ HI); auto.
  - intros Hex. apply Hq. apply (I_T _ _ HI). auto.
  - intros H1. destruct (HR 0%nat ltac:(lia)) as (_ & (_ & _ & E3 & E4) & _). rewrite E3, E4. apply (I_one _ _ HI); auto.
Qed.

(* ---- reading the phase of an edge from what is known ---- *)
Lemma edge_up_inv c g k : Edge c g k -> 1 <= upc c k ->
  cls (P c k) = 2 /\ cnts c k 1 0 0 /\ gf g k = true /\ cls (P c (parent k)) <= 1.
Proof. intros HE H. destruct HE as [? (E&?&?)|? (E&?&?)|? (E&?&?)|? (E&?&?)|? (E&?&?)|? (E&?&?)|? (E&?&?)]; try lia. repeat split; auto. Qed.
Lemma edge_dF_inv c g k : Edge c g k -> 1 <= dF c k ->
  cls (P c k) = 2 /\ cnts c k 0 0 1 /\ gf g k = false /\ cls (P c (parent k)) <= 1.
Proof. intros HE H. destruct HE as [? (?&?&E)|? (?&?&E)|? (?&?&E)|? (?&?&E)|? (?&?&E)|? (?&?&E)|? (?&?&E)]; try lia. repeat split; auto. Qed.
Lemma edge_dT_inv c g k : Edge c g k -> 1 <= dT c k ->
  cls (P c k) = 2 /\ cnts c k 0 1 0 /\ gf g k = false /\ cls (P c (parent k)) = 3.
Proof. intros HE H. destruct HE as [? (?&E&?)|? (?&E&?)|? (?&E&?)|? (?&E&?)|? (?&E&?)|? (?&E&?)|? (?&E&?)]; try lia. repeat split; auto. Qed.
Lemma edge_par2_inv c g k : Edge c g k -> cls (P c (parent k)) = 2 ->
  cls (P c k) = 2 /\ cnts c k 0 0 0 /\ gf g k = gf g (parent k).
Proof. intros HE H. destruct HE; try lia. split; [auto|split; auto]. Qed.
Lemma edge_par0_noabs c g k : Edge c g k -> cls (P c (parent k)) = 0 -> absb c k = false.
Proof.
  intros HE H. unfold absb. destruct HE as [? (E1&E2&E3)|? (E1&E2&E3)|? (E1&E2&E3)|? (E1&E2&E3)|? (E1&E2&E3)|? (E1&E2&E3)|? (E1&E2&E3)]; try lia;
  rewrite ?E1, ?E2, ?E3; cbn; rewrite ?andb_false_r; auto.
  all: try (destruct (cls (P c k) =? 2) eqn:E; auto; lia).
Qed.

Lemma edge_same c c' g k : cls (P c' k) = cls (P c k) -> cls (P c' (parent k)) = cls (P c (parent k)) ->
  upc c' k = upc c k -> dT c' k = dT c k -> dF c' k = dF c k -> Edge c g k -> Edge c' g k.
Proof.
  intros H1 H2 U T F HE.
  assert (Hc : forall a b d, cnts c k a b d -> cnts c' k a b d) by (unfold cnts; intros; rewrite U, T, F; auto).
  destruct HE; [apply Ph_collect|apply Ph_up|apply Ph_abs1|apply Ph_abs2|apply Ph_dF|apply Ph_dT|apply Ph_term]; auto; congruence.
Qed.
Lemma absb_same c c' k : cls (P c' k) = cls (P c k) ->
  upc c' k = upc c k -> dT c' k = dT c k -> dF c' k = dF c k -> absb c' k = absb c k.
Proof. intros H U T F. unfold absb. rewrite H, U, T, F. reflexivity. Qed.

Lemma in_pool_cnt (f : pkt -> bool) c x : In x (pool c) -> f x = true -> 1 <= cnt f (pool c).
Proof. intros. eapply cnt_pos_in; eauto. Qed.

Lemma mass_bsum_upd (m : proc -> Z) c c' j : (j < NP c)%nat ->
  (forall k, (k < NP c)%nat -> k <> j -> P c' k = P c k) ->
  bsum (NP c) (fun i => m (P c' i)) = bsum (NP c) (fun i => m (P c i)) - m (P c j) + m (P c' j).
Proof.
  intros Hj H. apply (bsum_upd (NP c) (fun i => m (P c i)) (fun i => m (P c' i)) j Hj).
  intros k Hk Hne. rewrite H; auto.
Qed.

Lemma Rnum_refl c g j : Inv c g -> (j < NP c)%nat -> Rnum g j (P c j) (P c j).
Proof.
  intros HI Hj. unfold Rnum, same_env. split; [apply (I_loc _ _ HI j Hj)|]. split; [auto|]. split; [apply hyp5_P; auto|auto].
Qed.

Ltac cls_tac Hcls :=
  rewrite ?Hcls; repeat match goal with |- context[(?a =? ?b)%nat] => destruct (a =? b)%nat eqn:?  end;
  repeat match goal with H : (_ =? _)%nat = true |- _ => apply Nat.eqb_eq in H; subst end; try lia.

Lemma inv_ready c g i : Inv c g -> (i < NP c)%nat -> st (P c i) = NR ->
  Inv (setp c i (set_st (set_ncl (P c i) (nch (NP c) i)) BWC)) g.
Proof.
  intros HI Hi Hst. set (q := set_st (set_ncl (P c i) (nch (NP c) i)) BWC). set (c' := setp c i q).
  assert (HP : forall k, P c' k = if (k =? i)%nat then q else P c k) by (intros; apply P_setp; auto).
  assert (Hc0 : cls (P c i) = 0) by (unfold cls; rewrite Hst; auto).
  assert (Hcls : forall k, cls (P c' k) = if (k =? i)%nat then 1 else cls (P c k)).
  { intros k. rewrite HP. destruct (k =? i)%nat; auto. }
  assert (Hpool : pool c' = pool c) by reflexivity.
  assert (HU : forall k, upc c' k = upc c k /\ dT c' k = dT c k /\ dF c' k = dF c k) by (intros; unfold upc, dT, dF; rewrite Hpool; auto).
  assert (Habs : forall k, absb c' k = absb c k).
  { intros k. unfold absb. destruct (HU k) as (-> & -> & ->). rewrite Hcls. destruct (k =? i)%nat eqn:E; auto.
    apply Nat.eqb_eq in E; subst. rewrite Hc0. reflexivity. }
  apply (inv_build c); auto.
  - apply NP_setp; auto.
  - intros j Hj. rewrite HP. destruct (j =? i)%nat eqn:E; [|apply Rnum_refl; auto].
    apply Nat.eqb_eq in E; subst j. pose proof (loc_ok_P c g i HI Hi) as Hl. unfold q. rec_cases (P c i). cbn in Hst. subst st0.
    unfold Rnum. proc_tac.
  - destruct (I_root _ _ HI). cls_tac Hcls.
  - rewrite Hpool. apply (I_pkt _ _ HI).
  - intros k Hk. pose proof (I_edge _ _ HI k Hk) as HE. pose proof (parent_lt k ltac:(lia)).
    assert (Hc : forall a b d, cnts c k a b d -> cnts c' k a b d) by (unfold cnts; destruct (HU k) as (-> & -> & ->); auto).
    destruct HE; [apply Ph_collect|apply Ph_up|apply Ph_abs1|apply Ph_abs2|apply Ph_dF|apply Ph_dT|apply Ph_term]; auto; cls_tac Hcls.
  - intros j Hj. rewrite Hcls. unfold nabs. replace (NP c') with (NP c) by (symmetry; apply NP_setp; auto).
    rewrite (cnt_ext_in _ (fun k => negb (absb c k))) by (intros; rewrite Habs; auto).
    destruct (j =? i)%nat eqn:E.
    + apply Nat.eqb_eq in E; subst j. rewrite HP, Nat.eqb_refl. split; [|lia]. intros _. unfold q. cbn [ncl set_st set_ncl].
      rewrite (cnt_ext_in _ (fun _ => true)); [rewrite cnt_const_true; reflexivity|].
      intros k Hk. apply ch_spec in Hk. destruct Hk as (K0 & KN & KP).
      rewrite (edge_par0_noabs c g k); auto. apply (I_edge _ _ HI); lia. rewrite KP. auto.
    + rewrite HP, E. apply (I_ncl _ _ HI); auto.
  - f_equal. apply bsum_ext. intros j Hj. rewrite HP. destruct (j =? i)%nat eqn:E; auto. apply Nat.eqb_eq in E; subst.
    unfold mass_s. rewrite Hc0. reflexivity.
  - f_equal. apply bsum_ext. intros j Hj. rewrite HP. destruct (j =? i)%nat eqn:E; auto. apply Nat.eqb_eq in E; subst.
    unfold mass_r. rewrite Hc0. reflexivity.
  - intros Hall. destruct (Hall i Hi) as (Hb & _). unfold busy_or_nr in Hb. rewrite Hst in Hb. discriminate.
  - intros (j & Hj & H3). exists j. split; auto. rewrite Hcls in H3. destruct (j =? i)%nat; [lia|auto].
Qed.

Lemma cls_1_of c j : cls (P c j) <= 1 -> st (P c j) <> NR -> cls (P c j) = 1.
Proof. unfold cls. destruct (st (P c j)); intros; try lia; congruence. Qed.

Lemma nabs_same c c' i : NP c' = NP c ->
  (forall k, In k (children (NP c) i) -> absb c' k = absb c k) -> nabs c' i = nabs c i.
Proof. intros HN H. unfold nabs. rewrite HN. apply cnt_ext_in. intros k Hk. rewrite H; auto. Qed.

Lemma inv_up c g d1 d2 s j a b : Inv c g -> dlyq c = d1 ++ (s, j, UP a b) :: d2 -> (j < NP c)%nat ->
  st (P c j) <> NR ->
  Inv (mkC (lset (procs c) j (up_p (P c j) a b)) (net c) (d1 ++ d2)) g.
Proof.
  intros HI Hd Hj Hnr. set (x := (s, j, UP a b)) in *. set (q := up_p (P c j) a b).
  set (c' := mkC (lset (procs c) j q) (net c) (d1 ++ d2)).
  assert (HN : NP c' = NP c) by (unfold NP, c'; cbn; apply lset_length; auto).
  assert (HP : forall k, P c' k = if (k =? j)%nat then q else P c k) by (intros; unfold c'; rewrite P_lset by auto; reflexivity).
  assert (Hcls : forall k, cls (P c' k) = cls (P c k)).
  { intros k. rewrite HP. destruct (k =? j)%nat eqn:E; auto. apply Nat.eqb_eq in E; subst. reflexivity. }
  assert (Hcnt : forall f, cnt f (pool c) = cnt f (pool c') + if f x then 1 else 0).
  { intros f. unfold pool, c'. cbn [net dlyq]. rewrite Hd, !cnt_app, cnt_cons. lia. }
  assert (Hin : In x (pool c)) by (unfold pool; rewrite Hd; apply in_or_app; right; apply in_or_app; right; left; auto).
  pose proof (I_pkt _ _ HI x Hin) as Hok. unfold pkt_ok, msg, src, dst, x in Hok. cbn [fst snd] in Hok. destruct Hok as (S0 & SN & SP).
  assert (HU : forall k, upc c' k = upc c k - (if (s =? k)%nat then 1 else 0) /\ dT c' k = dT c k /\ dF c' k = dF c k).
  { intros k. unfold upc, dT, dF. rewrite !Hcnt. unfold upfrom, downTto, downFto, x, src, dst, msg. cbn. rewrite !andb_true_r, !andb_false_r. lia. }
  assert (Hs1 : 1 <= upc c s).
  { unfold upc. apply (in_pool_cnt _ c x); auto. unfold upfrom, x, src, msg. cbn. rewrite Nat.eqb_refl. auto. }
  destruct (edge_up_inv c g s (I_edge _ _ HI s ltac:(lia)) Hs1) as (Hs2 & (Su & St & Sf) & Sg & Spar).
  rewrite <- SP in Spar. pose proof (cls_1_of c j Spar Hnr) as Hj1.
  assert (Habs_s : absb c s = false) by (unfold absb; rewrite Su; cbn; rewrite andb_false_r; auto).
  assert (Habs_s' : absb c' s = true).
  { unfold absb. destruct (HU s) as (-> & -> & ->). rewrite Hcls, Hs2, Su, St, Sf, Nat.eqb_refl. reflexivity. }
  assert (Habs : forall k, k <> s -> absb c' k = absb c k).
  { intros k Hk. destruct (HU k) as (U1 & U2 & U3). apply absb_same; auto. rewrite U1. apply Nat.eqb_neq in Hk. rewrite Nat.eqb_sym, Hk. lia. }
  apply (inv_build c); auto.
  - intros k Hk. rewrite HP. destruct (k =? j)%nat eqn:E; [|apply Rnum_refl; auto].
    apply Nat.eqb_eq in E; subst k. pose proof (loc_ok_P c g j HI Hj) as Hl. pose proof (hyp5_P c g j HI Hj) as H5.
    unfold q, up_p. rec_cases (P c j). unfold Rnum. proc_tac.
  - rewrite Hcls. apply (I_root _ _ HI).
  - intros y Hy. apply (I_pkt _ _ HI). unfold pool, c' in *. cbn [net dlyq] in Hy. rewrite Hd.
    rewrite !in_app_iff in *. cbn [In]. tauto.
  - intros k Hk. destruct (Nat.eq_dec k s) as [->|Hne].
    + apply Ph_abs1; rewrite ?Hcls; auto.
      * destruct (HU s) as (U1 & U2 & U3). unfold cnts. rewrite U1, U2, U3, Nat.eqb_refl. lia.
      * rewrite <- SP. auto.
    + destruct (HU k) as (U1 & U2 & U3). apply (edge_same c); auto.
      * rewrite U1. apply Nat.eqb_neq in Hne. rewrite Nat.eqb_sym, Hne. lia.
      * apply (I_edge _ _ HI); auto.
  - intros i Hi. rewrite Hcls. destruct (Nat.eq_dec i j) as [->|Hne].
    + rewrite HP, Nat.eqb_refl. split; [|lia]. intros _.
      replace (ncl q) with (ncl (P c j) - 1) by reflexivity.
      destruct (I_ncl _ _ HI j Hj) as [Hn _]. rewrite (Hn Hj1).
      unfold nabs. rewrite HN.
      rewrite (cnt_change (fun k => negb (absb c k)) (fun k => negb (absb c' k)) (children (NP c) j) s).
      * rewrite Habs_s, Habs_s'. cbn. lia.
      * apply ch_nodup.
      * apply ch_spec. auto.
      * intros y _ Hy. rewrite Habs; auto.
    + rewrite HP. apply Nat.eqb_neq in Hne. rewrite Hne.
      rewrite (nabs_same c c' i HN). apply (I_ncl _ _ HI); auto.
      intros k Hk. apply Habs. apply ch_spec in Hk. apply Nat.eqb_neq in Hne. intros ->. lia.
  - rewrite (mass_bsum_upd mass_s c c' j Hj) by (intros k Hk Hne; rewrite HP; apply Nat.eqb_neq in Hne; rewrite Hne; auto).
    pose proof (Hcnt (fun _ => false)) as _. unfold pool at 2. rewrite Hd.
    replace (psum ups_s (pool c')) with (psum ups_s (net c ++ d1 ++ d2)) by reflexivity.
    rewrite !psum_app. cbn [psum]. unfold mass_s. rewrite Hcls, Hj1, HP, Nat.eqb_refl. cbn. unfold ups_s, msg, x. cbn. lia.
  - rewrite (mass_bsum_upd mass_r c c' j Hj) by (intros k Hk Hne; rewrite HP; apply Nat.eqb_neq in Hne; rewrite Hne; auto).
    unfold pool at 2. rewrite Hd.
    replace (psum ups_r (pool c')) with (psum ups_r (net c ++ d1 ++ d2)) by reflexivity.
    rewrite !psum_app. cbn [psum]. unfold mass_r. rewrite Hcls, Hj1, HP, Nat.eqb_refl. cbn. unfold ups_r, msg, x. cbn. lia.
  - intros Hall k Hk. rewrite HP. destruct (k =? j)%nat eqn:E; auto. apply Nat.eqb_eq in E; subst k. apply (Hall j Hj).
  - intros (k & Hk & H3). exists k. rewrite Hcls in H3. auto.
Qed.

Lemma is_child_self N j : is_child N j j = false.
Proof.
  destruct (is_child N j j) eqn:E; auto. apply is_child_spec in E. destruct E as (H0 & _ & HP). pose proof (parent_lt j H0). lia.
Qed.

Lemma inv_downF c g d1 d2 s j : Inv c g -> dlyq c = d1 ++ (s, j, DOWN false) :: d2 -> (j < NP c)%nat ->
  st (P c j) <> NR ->
  Inv (mkC (lset (procs c) j (downF_p (P c j))) (net c ++ fwd (NP c) j false) (d1 ++ d2)) g.
Proof.
  intros HI Hd Hj Hnr. set (x := (s, j, DOWN false)) in *. set (q := downF_p (P c j)).
  set (c' := mkC (lset (procs c) j q) (net c ++ fwd (NP c) j false) (d1 ++ d2)).
  assert (HN : NP c' = NP c) by (unfold NP, c'; cbn; apply lset_length; auto).
  assert (HP : forall k, P c' k = if (k =? j)%nat then q else P c k) by (intros; unfold c'; rewrite P_lset by auto; reflexivity).
  assert (Hcnt : forall f, cnt f (pool c') + (if f x then 1 else 0) = cnt f (pool c) + cnt f (fwd (NP c) j false)).
  { intros f. unfold pool, c'. cbn [net dlyq]. rewrite Hd, !cnt_app, cnt_cons. lia. }
  assert (Hin : In x (pool c)) by (unfold pool; rewrite Hd; apply in_or_app; right; apply in_or_app; right; left; auto).
  pose proof (I_pkt _ _ HI x Hin) as Hok. unfold pkt_ok, msg, src, dst, x in Hok. cbn [fst snd] in Hok. destruct Hok as (J0 & _ & SP).
  assert (HU : forall k, upc c' k = upc c k /\ dT c' k = dT c k /\
             dF c' k = dF c k - (if (j =? k)%nat then 1 else 0) + (if is_child (NP c) j k then 1 else 0)).
  { intros k. unfold upc, dT, dF. pose proof (Hcnt (upfrom k)) as A. pose proof (Hcnt (downTto k)) as B. pose proof (Hcnt (downFto k)) as C.
    rewrite upfrom_fwd in A. rewrite downT_fwdF in B. rewrite downF_fwd in C.
    assert (X1 : upfrom k x = false) by (unfold upfrom, x, msg; cbn; apply andb_false_r).
    assert (X2 : downTto k x = false) by (unfold downTto, x, msg; cbn; apply andb_false_r).
    assert (X3 : downFto k x = (j =? k)%nat) by (unfold downFto, x, msg, dst; cbn; apply andb_true_r).
    rewrite X1 in A. rewrite X2 in B. rewrite X3 in C. lia. }
  assert (Hj1 : 1 <= dF c j).
  { unfold dF. apply (in_pool_cnt _ c x); auto. unfold downFto, x, dst, msg. cbn. rewrite Nat.eqb_refl. auto. }
  destruct (edge_dF_inv c g j (I_edge _ _ HI j ltac:(lia)) Hj1) as (Hj2 & (Ju & Jt & Jf) & Jg & Jpar).
  assert (Hq1 : cls q = 1) by (unfold q, downF_p, cls; cbn; destruct (st (P c j)); reflexivity).
  assert (Hcls : forall k, cls (P c' k) = if (k =? j)%nat then 1 else cls (P c k)).
  { intros k. rewrite HP. destruct (k =? j)%nat; auto. }
  pose proof (parent_lt j J0) as Jlt.
  assert (Hch : forall k, is_child (NP c) j k = true -> (0 < k < NP c)%nat /\ parent k = j /\ k <> j).
  { intros k Hk. apply is_child_spec in Hk. destruct Hk as (K0 & KN & KP). pose proof (parent_lt k K0). repeat split; lia. }
  assert (Hchild : forall k, is_child (NP c) j k = true -> cls (P c k) = 2 /\ cnts c k 0 0 0 /\ gf g k = false).
  { intros k Hk. destruct (Hch k Hk) as (K1 & KP & _).
    destruct (edge_par2_inv c g k (I_edge _ _ HI k K1)) as (A & B & C); [rewrite KP; auto|]. rewrite KP, Jg in C. auto. }
  assert (Habs_other : forall k, k <> j -> is_child (NP c) j k = false -> absb c' k = absb c k).
  { intros k K1 K2. destruct (HU k) as (U1 & U2 & U3). apply absb_same; auto.
    - rewrite Hcls. apply Nat.eqb_neq in K1. rewrite K1. auto.
    - rewrite U3, K2. apply Nat.eqb_neq in K1. rewrite Nat.eqb_sym, K1. lia. }
  assert (Habs_j : absb c j = false /\ absb c' j = false).
  { unfold absb. rewrite Jf, Hcls, Nat.eqb_refl. cbn. rewrite !andb_false_r. auto. }
  assert (Habs_ch : forall k, is_child (NP c) j k = true -> absb c' k = false).
  { intros k Hk. destruct (Hchild k Hk) as (_ & (A & B & C) & _). destruct (Hch k Hk) as (_ & _ & Kne).
    unfold absb. destruct (HU k) as (_ & _ & ->). rewrite C, Hk. apply Nat.eqb_neq in Kne. rewrite Nat.eqb_sym, Kne. cbn. rewrite andb_false_r. auto. }
  apply (inv_build c); auto.
  - intros k Hk. rewrite HP. destruct (k =? j)%nat eqn:E; [|apply Rnum_refl; auto].
    apply Nat.eqb_eq in E; subst k. pose proof (loc_ok_P c g j HI Hj) as Hl.
    unfold q, downF_p, Rnum, Hyp5. rewrite Jg. unfold cls in Hj2. rec_cases (P c j). destruct st0; try (cbn in Hj2; lia); proc_tac.
  - rewrite Hcls. destruct (0 =? j)%nat eqn:E; [apply Nat.eqb_eq in E; lia|]. apply (I_root _ _ HI).
  - intros y Hy. unfold pool, c' in Hy. cbn [net dlyq] in Hy. rewrite !in_app_iff in Hy.
    destruct Hy as [[Hy|Hy]|[Hy|Hy]]; try (apply (I_pkt _ _ HI); unfold pool; rewrite Hd, !in_app_iff; cbn [In]; tauto).
    apply (fwd_ok (NP c) j false); auto.
  - intros k Hk. destruct (HU k) as (U1 & U2 & U3). destruct (Nat.eq_dec k j) as [->|Hne]; [|destruct (is_child (NP c) j k) eqn:Ec].
    + apply Ph_collect; rewrite ?Hcls, ?Nat.eqb_refl; auto; try lia.
      * unfold cnts. rewrite U1, U2, U3, is_child_self, Nat.eqb_refl. lia.
      * destruct (parent j =? j)%nat eqn:E; [apply Nat.eqb_eq in E; lia|auto].
    + destruct (Hchild k Ec) as (A & (B1 & B2 & B3) & C). destruct (Hch k Ec) as (_ & KP & _).
      apply Ph_dF; rewrite ?Hcls; auto.
      * apply Nat.eqb_neq in Hne. rewrite Hne. auto.
      * unfold cnts. rewrite U1, U2, U3, ?Ec. apply Nat.eqb_neq in Hne. rewrite Nat.eqb_sym, Hne. lia.
      * rewrite KP, Nat.eqb_refl. lia.
    + apply (edge_same c); auto.
      * rewrite Hcls. apply Nat.eqb_neq in Hne. rewrite Hne. auto.
      * rewrite Hcls. destruct (parent k =? j)%nat eqn:E; auto. apply Nat.eqb_eq in E.
        assert (is_child (NP c) j k = true) by (apply is_child_spec; lia). congruence.
      * rewrite U3, ?Ec. apply Nat.eqb_neq in Hne. rewrite Nat.eqb_sym, Hne. lia.
      * apply (I_edge _ _ HI); auto.
  - intros i Hi. rewrite Hcls. destruct (Nat.eq_dec i j) as [->|Hne].
    + rewrite HP, Nat.eqb_refl. split; [|lia]. intros _.
      replace (ncl q) with (ncl (P c j)) by reflexivity.
      destruct (I_ncl _ _ HI j Hj) as [_ Hn]. rewrite (Hn Hj2).
      unfold nabs. rewrite HN. rewrite (cnt_ext_in _ (fun _ => true)); [rewrite cnt_const_true; reflexivity|].
      intros k Hk. rewrite Habs_ch; auto. apply is_child_spec. apply ch_spec in Hk. auto.
    + rewrite HP. apply Nat.eqb_neq in Hne. rewrite Hne.
      rewrite (nabs_same c c' i HN). apply (I_ncl _ _ HI); auto.
      intros k Hk. apply ch_spec in Hk. destruct (Nat.eq_dec k j) as [->|Hkj].
      * destruct Habs_j as [-> ->]. auto.
      * apply Habs_other; auto. destruct (is_child (NP c) j k) eqn:E; auto. apply is_child_spec in E. apply Nat.eqb_neq in Hne. lia.
  - rewrite (mass_bsum_upd mass_s c c' j Hj) by (intros k Hk Hne; rewrite HP; apply Nat.eqb_neq in Hne; rewrite Hne; auto).
    unfold pool at 2. rewrite Hd.
    replace (psum ups_s (pool c')) with (psum ups_s ((net c ++ fwd (NP c) j false) ++ d1 ++ d2)) by reflexivity.
    rewrite !psum_app, psum_fwd_s. cbn [psum]. unfold mass_s. rewrite Hcls, Hj2, HP, Nat.eqb_refl. cbn. unfold ups_s, msg, x. cbn. lia.
  - rewrite (mass_bsum_upd mass_r c c' j Hj) by (intros k Hk Hne; rewrite HP; apply Nat.eqb_neq in Hne; rewrite Hne; auto).
    unfold pool at 2. rewrite Hd.
    replace (psum ups_r (pool c')) with (psum ups_r ((net c ++ fwd (NP c) j false) ++ d1 ++ d2)) by reflexivity.
    rewrite !psum_app, psum_fwd_r. cbn [psum]. unfold mass_r. rewrite Hcls, Hj2, HP, Nat.eqb_refl. cbn. unfold ups_r, msg, x. cbn. lia.
  - intros Hall k Hk. rewrite HP. destruct (k =? j)%nat eqn:E; auto. apply Nat.eqb_eq in E; subst k.
    pose proof (Hall j Hj) as Hqj. unfold q, downF_p, quietw, busy_or_nr, cls in *. rec_cases (P c j). destruct st0; cbn in *; try lia; intuition discriminate.
  - intros (k & Hk & H3). exists k. split; auto. rewrite Hcls in H3. destruct (k =? j)%nat; [lia|auto].
Qed.

Lemma inv_downT c g d1 d2 s j : Inv c g -> dlyq c = d1 ++ (s, j, DOWN true) :: d2 -> (j < NP c)%nat ->
  st (P c j) <> NR ->
  Inv (mkC (lset (procs c) j (downT_p (P c j))) (net c ++ fwd (NP c) j true) (d1 ++ d2)) g.
Proof.
  intros HI Hd Hj Hnr. set (x := (s, j, DOWN true)) in *. set (q := downT_p (P c j)).
  set (c' := mkC (lset (procs c) j q) (net c ++ fwd (NP c) j true) (d1 ++ d2)).
  assert (HN : NP c' = NP c) by (unfold NP, c'; cbn; apply lset_length; auto).
  assert (HP : forall k, P c' k = if (k =? j)%nat then q else P c k) by (intros; unfold c'; rewrite P_lset by auto; reflexivity).
  assert (Hcnt : forall f, cnt f (pool c') + (if f x then 1 else 0) = cnt f (pool c) + cnt f (fwd (NP c) j true)).
  { intros f. unfold pool, c'. cbn [net dlyq]. rewrite Hd, !cnt_app, cnt_cons. lia. }
  assert (Hin : In x (pool c)) by (unfold pool; rewrite Hd; apply in_or_app; right; apply in_or_app; right; left; auto).
  pose proof (I_pkt _ _ HI x Hin) as Hok. unfold pkt_ok, msg, src, dst, x in Hok. cbn [fst snd] in Hok. destruct Hok as (J0 & _ & SP).
  assert (HU : forall k, upc c' k = upc c k /\ dF c' k = dF c k /\
             dT c' k = dT c k - (if (j =? k)%nat then 1 else 0) + (if is_child (NP c) j k then 1 else 0)).
  { intros k. unfold upc, dT, dF. pose proof (Hcnt (upfrom k)) as A. pose proof (Hcnt (downFto k)) as B. pose proof (Hcnt (downTto k)) as C.
    rewrite upfrom_fwd in A. rewrite downF_fwdT in B. rewrite downT_fwd in C.
    assert (X1 : upfrom k x = false) by (unfold upfrom, x, msg; cbn; apply andb_false_r).
    assert (X2 : downFto k x = false) by (unfold downFto, x, msg; cbn; apply andb_false_r).
    assert (X3 : downTto k x = (j =? k)%nat) by (unfold downTto, x, msg, dst; cbn; apply andb_true_r).
    rewrite X1 in A. rewrite X2 in B. rewrite X3 in C. lia. }
  assert (Hj1 : 1 <= dT c j).
  { unfold dT. apply (in_pool_cnt _ c x); auto. unfold downTto, x, dst, msg. cbn. rewrite Nat.eqb_refl. auto. }
  destruct (edge_dT_inv c g j (I_edge _ _ HI j ltac:(lia)) Hj1) as (Hj2 & (Ju & Jt & Jf) & Jg & Jpar).
  pose proof (parent_lt j J0) as Jlt.
  assert (Hquiet : forall k, (k < NP c)%nat -> quietw (P c k)).
  { apply (I_T _ _ HI). exists (parent j). split; [lia|auto]. }
  assert (Hq3 : cls q = 3) by reflexivity.
  assert (Hcls : forall k, cls (P c' k) = if (k =? j)%nat then 3 else cls (P c k)).
  { intros k. rewrite HP. destruct (k =? j)%nat; auto. }
  assert (Hch : forall k, is_child (NP c) j k = true -> (0 < k < NP c)%nat /\ parent k = j /\ k <> j).
  { intros k Hk. apply is_child_spec in Hk. destruct Hk as (K0 & KN & KP). pose proof (parent_lt k K0). repeat split; lia. }
  assert (Hchild : forall k, is_child (NP c) j k = true -> cls (P c k) = 2 /\ cnts c k 0 0 0 /\ gf g k = false).
  { intros k Hk. destruct (Hch k Hk) as (K1 & KP & _).
    destruct (edge_par2_inv c g k (I_edge _ _ HI k K1)) as (A & B & C); [rewrite KP; auto|]. rewrite KP, Jg in C. auto. }
  assert (Habs_other : forall k, k <> j -> is_child (NP c) j k = false -> absb c' k = absb c k).
  { intros k K1 K2. destruct (HU k) as (U1 & U2 & U3). apply absb_same; auto.
    - rewrite Hcls. apply Nat.eqb_neq in K1. rewrite K1. auto.
    - rewrite U3, K2. apply Nat.eqb_neq in K1. rewrite Nat.eqb_sym, K1. lia. }
  assert (Habs_j : absb c j = false /\ absb c' j = false).
  { unfold absb. rewrite Jt, Hcls, Nat.eqb_refl. cbn. rewrite !andb_false_r. auto. }
  apply (inv_build c); auto.
  - intros k Hk. rewrite HP. destruct (k =? j)%nat eqn:E; [|apply Rnum_refl; auto].
    apply Nat.eqb_eq in E; subst k. pose proof (loc_ok_P c g j HI Hj) as Hl. pose proof (Hquiet j Hj) as Hqj.
    unfold q, downT_p, Rnum, Hyp5. rewrite Jg. unfold cls in Hj2. rec_cases (P c j). destruct st0; try (cbn in Hj2; lia); proc_tac.
  - rewrite Hcls. destruct (0 =? j)%nat eqn:E; [apply Nat.eqb_eq in E; lia|]. apply (I_root _ _ HI).
  - intros y Hy. unfold pool, c' in Hy. cbn [net dlyq] in Hy. rewrite !in_app_iff in Hy.
    destruct Hy as [[Hy|Hy]|[Hy|Hy]]; try (apply (I_pkt _ _ HI); unfold pool; rewrite Hd, !in_app_iff; cbn [In]; tauto).
    apply (fwd_ok (NP c) j true); auto.
  - intros k Hk. destruct (HU k) as (U1 & U2 & U3). destruct (Nat.eq_dec k j) as [->|Hne]; [|destruct (is_child (NP c) j k) eqn:Ec].
    + apply Ph_term; rewrite ?Hcls, ?Nat.eqb_refl; auto; try lia.
      * unfold cnts. rewrite U1, U2, U3, is_child_self, Nat.eqb_refl. lia.
      * destruct (parent j =? j)%nat eqn:E; [apply Nat.eqb_eq in E; lia|auto].
    + destruct (Hchild k Ec) as (A & (B1 & B2 & B3) & C). destruct (Hch k Ec) as (_ & KP & _).
      apply Ph_dT; rewrite ?Hcls; auto.
      * apply Nat.eqb_neq in Hne. rewrite Hne. auto.
      * unfold cnts. rewrite U1, U2, U3, ?Ec. apply Nat.eqb_neq in Hne. rewrite Nat.eqb_sym, Hne. lia.
      * rewrite KP, Nat.eqb_refl. lia.
    + apply (edge_same c); auto.
      * rewrite Hcls. apply Nat.eqb_neq in Hne. rewrite Hne. auto.
      * rewrite Hcls. destruct (parent k =? j)%nat eqn:E; auto. apply Nat.eqb_eq in E.
        assert (is_child (NP c) j k = true) by (apply is_child_spec; lia). congruence.
      * rewrite U3, ?Ec. apply Nat.eqb_neq in Hne. rewrite Nat.eqb_sym, Hne. lia.
      * apply (I_edge _ _ HI); auto.
  - intros i Hi. rewrite Hcls. destruct (Nat.eq_dec i j) as [->|Hne].
    + rewrite Nat.eqb_refl. split; lia.
    + rewrite HP. apply Nat.eqb_neq in Hne. rewrite Hne.
      rewrite (nabs_same c c' i HN). apply (I_ncl _ _ HI); auto.
      intros k Hk. apply ch_spec in Hk. destruct (Nat.eq_dec k j) as [->|Hkj].
      * destruct Habs_j as [-> ->]. auto.
      * apply Habs_other; auto. destruct (is_child (NP c) j k) eqn:E; auto. apply is_child_spec in E. apply Nat.eqb_neq in Hne. lia.
  - rewrite (mass_bsum_upd mass_s c c' j Hj) by (intros k Hk Hne; rewrite HP; apply Nat.eqb_neq in Hne; rewrite Hne; auto).
    unfold pool at 2. rewrite Hd.
    replace (psum ups_s (pool c')) with (psum ups_s ((net c ++ fwd (NP c) j true) ++ d1 ++ d2)) by reflexivity.
    rewrite !psum_app, psum_fwd_s. cbn [psum]. unfold mass_s. rewrite Hcls, Hj2, Nat.eqb_refl. cbn. unfold ups_s, msg, x. cbn. lia.
  - rewrite (mass_bsum_upd mass_r c c' j Hj) by (intros k Hk Hne; rewrite HP; apply Nat.eqb_neq in Hne; rewrite Hne; auto).
    unfold pool at 2. rewrite Hd.
    replace (psum ups_r (pool c')) with (psum ups_r ((net c ++ fwd (NP c) j true) ++ d1 ++ d2)) by reflexivity.
    rewrite !psum_app, psum_fwd_r. cbn [psum]. unfold mass_r. rewrite Hcls, Hj2, Nat.eqb_refl. cbn. unfold ups_r, msg, x. cbn. lia.
  - intros Hall k Hk. rewrite HP. destruct (k =? j)%nat eqn:E; auto. apply Nat.eqb_eq in E; subst k.
    pose proof (Hall j Hj) as Hqj. unfold q, downT_p, quietw, busy_or_nr in *. rec_cases (P c j). cbn in *. intuition.
  - intros _. exists (parent j). split; [lia|auto].
Qed.
