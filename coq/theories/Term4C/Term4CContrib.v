(* C11: the invariant is preserved when a process reports to its parent and
   when the root decides (Mattern's argument lives in [inv_contrib_root]). *)
From PV Require Import Base.Tac Base.ListX Term4C.Term4CDefs Term4C.Term4CBase Term4C.Term4CMicro Term4C.Term4CInv Term4C.Term4CStruct.
Local Open Scope Z_scope.

Lemma inv_build_g c c' g g' :
  Inv c g -> NP c' = NP c ->
  (forall i, dc_s g' i = dc_s g i) -> (forall i, dc_r g' i = dc_r g i) -> (forall i, gz g' i = gz g i) -> gd g' = gd g ->
  (forall j, (j < NP c)%nat -> Rnum g' j (P c j) (P c' j)) ->
  cls (P c' 0) <> 2 -> gf g' 0%nat = false ->
  (forall x, In x (pool c') -> pkt_ok (NP c) x) ->
  (forall k, (0 < k < NP c)%nat -> Edge c' g' k) ->
  (forall i, (i < NP c)%nat ->
     (cls (P c' i) = 1 -> ncl (P c' i) = nabs c' i) /\ (cls (P c' i) = 2 -> ncl (P c' i) = nch (NP c) i)) ->
  (forall i, (i < NP c)%nat -> gf g' i = true ->
     sent (gz g i) <= cur_s g' i <= sent (P c' i) /\ recv (gz g i) <= cur_r g' i <= recv (P c' i)) ->
  bsum (NP c) (fun i => mass_s (P c' i)) + psum ups_s (pool c') = bsum (NP c) (fun i => if gf g' i then cur_s g' i else 0) ->
  bsum (NP c) (fun i => mass_r (P c' i)) + psum ups_r (pool c') = bsum (NP c) (fun i => if gf g' i then cur_r g' i else 0) ->
  ((forall j, (j < NP c)%nat -> quietw (P c j)) -> forall j, (j < NP c)%nat -> quietw (P c' j)) ->
  ((exists i, (i < NP c)%nat /\ cls (P c' i) = 3) -> exists i, (i < NP c)%nat /\ cls (P c i) = 3) ->
  Inv c' g'.
Proof.
  intros HI HN D1 D2 D3 D4 HR Hroot Hgf0 Hpkt Hedge Hncl H2 Hms Hmr Hq HT.
  pose proof (I_N _ _ HI) as HN1.
  assert (Henv : forall (f : proc -> Z), (forall p q, same_env p q -> f q = f p) ->
                 bsum (NP c) (fun i => f (P c' i)) = bsum (NP c) (fun i => f (P c i))).
  { intros f Hf. apply bsum_ext. intros i Hi. apply Hf. apply (HR i Hi). }
  constructor; rewrite ?HN; auto.
  - intros i Hi. apply (HR i Hi).
  - rewrite (Henv sent), (Henv recv), (Henv infl), (Henv inproc); try (intros p q (?&?&?&?); auto). apply (I_cons _ _ HI).
  - intros i Hi. destruct (HR i Hi) as (_ & (E1 & E2 & _) & _). rewrite E1, E2, D1, D2, D3. apply (I_g1 _ _ HI); auto.
  - intros i Hi Hf. rewrite D3. apply H2; auto.
  - destruct (I_g3 _ _ HI) as [A B]. split.
    + rewrite (bsum_ext _ (fun i => sent (gz g' i)) (fun i => sent (gz g i))), (bsum_ext _ (fun i => recv (gz g' i)) (fun i => recv (gz g i))),
        (bsum_ext _ (fun i => infl (gz g' i)) (fun i => infl (gz g i))), (bsum_ext _ (fun i => inproc (gz g' i)) (fun i => inproc (gz g i)));
        auto; intros; rewrite D3; auto.
    + intros i Hi. rewrite D3. auto.
  - rewrite D4. intros Hd i Hi. rewrite D3, D2. apply (I_g4 _ _ HI); auto.
  - intros i Hi Hf Hs. destruct (HR i Hi) as (_ & _ & H5 & _). apply H5; auto.
  - destruct (HR 0%nat ltac:(lia)) as (_ & _ & _ & L1 & L2). rewrite L1, L2, D4.
    rewrite (bsum_ext _ (dc_s g') (dc_s g)), (bsum_ext _ (dc_r g') (dc_r g)) by (intros; auto). apply (I_g7 _ _ HI).
  - intros Hz. apply Hq. apply (I_g9 _ _ HI); auto. intros i Hi. rewrite <- D3. auto.
  - intros Hex. apply Hq. apply (I_T _ _ HI). auto.
  - intros H1. destruct (HR 0%nat ltac:(lia)) as (_ & (_ & _ & E3 & E4) & _). rewrite E3, E4. apply (I_one _ _ HI); auto.
Qed.

Lemma edge_same_g c c' g g' k : cls (P c' k) = cls (P c k) -> cls (P c' (parent k)) = cls (P c (parent k)) ->
  upc c' k = upc c k -> dT c' k = dT c k -> dF c' k = dF c k ->
  gf g' k = gf g k -> gf g' (parent k) = gf g (parent k) -> Edge c g k -> Edge c' g' k.
Proof.
  intros H1 H2 U T F G1 G2 HE.
  assert (Hc : forall a b d, cnts c k a b d -> cnts c' k a b d) by (unfold cnts; intros; rewrite U, T, F; auto).
  destruct HE; [apply Ph_collect|apply Ph_up|apply Ph_abs1|apply Ph_abs2|apply Ph_dF|apply Ph_dT|apply Ph_term]; auto; congruence.
Qed.

(* a process that is about to report has heard from all its children *)
Lemma children_reported c g i : Inv c g -> (i < NP c)%nat -> cls (P c i) = 1 -> ncl (P c i) = 0 ->
  forall k, In k (children (NP c) i) -> cls (P c k) = 2 /\ cnts c k 0 0 0 /\ gf g k = true.
Proof.
  intros HI Hi H1 Hn k Hk.
  destruct (I_ncl _ _ HI i Hi) as [Hnc _]. specialize (Hnc H1). rewrite Hn in Hnc. symmetry in Hnc.
  pose proof (cnt_zero_none _ _ Hnc k Hk) as Hab. cbn in Hab. apply negb_false_iff in Hab.
  unfold absb in Hab. rewrite !andb_true_iff, !Z.eqb_eq in Hab. destruct Hab as (((A & B) & C) & D).
  apply ch_spec in Hk. destruct Hk as (K0 & KN & KP).
  pose proof (I_edge _ _ HI k ltac:(lia)) as HE. rewrite <- KP in H1.
  destruct HE as [?|? (E&?&?)|?|?|? (?&?&E)|?|?]; try lia. repeat split; auto.
Qed.

Lemma send_up_nonroot N i p : i <> 0%nat ->
  send_up N i p = (set_st (set_ncl (set_acc p (acc_s p + sent p) (acc_r p + recv p)) (nch N i)) IWP,
                   [(i, parent i, UP (acc_s p + sent p) (acc_r p + recv p))]).
Proof. intros H. destruct i; [congruence|reflexivity]. Qed.

Lemma inv_contrib_nonroot c g i : Inv c g -> (i < NP c)%nat -> i <> 0%nat ->
  idle0 (P c i) = true -> st (P c i) = IWC -> ncl (P c i) = 0 ->
  exists g', Inv (mkC (lset (procs c) i (fst (send_up (NP c) i (P c i))))
                      (net c ++ snd (send_up (NP c) i (P c i))) (dlyq c)) g' /\
    gf g i = false /\ gf g' i = true /\ cur_s g' i = sent (P c i) /\ cur_r g' i = recv (P c i) /\
    (forall k, k <> i -> gf g' k = gf g k /\ cur_s g' k = cur_s g k /\ cur_r g' k = cur_r g k) /\
    (forall k, dc_s g' k = dc_s g k /\ dc_r g' k = dc_r g k) /\ gd g' = gd g.
Proof.
  intros HI Hi Hi0 Hidle Hst Hncl. rewrite (send_up_nonroot _ _ _ Hi0). cbn [fst snd].
  set (p := P c i) in *. set (s' := acc_s p + sent p). set (r' := acc_r p + recv p).
  set (q := set_st (set_ncl (set_acc p s' r') (nch (NP c) i)) IWP). set (x := (i, parent i, UP s' r')).
  set (c' := mkC (lset (procs c) i q) (net c ++ [x]) (dlyq c)).
  set (g' := mkG (fun k => if (k =? i)%nat then sent p else cur_s g k) (fun k => if (k =? i)%nat then recv p else cur_r g k)
                 (dc_s g) (dc_r g) (fun k => if (k =? i)%nat then true else gf g k) (gz g) (gd g)).
  exists g'.
  cut (Inv c' g' /\ gf g i = false).
  { intros [A B]. split; [exact A|]. split; [exact B|]. unfold g'. cbn [gf cur_s cur_r dc_s dc_r gd]. rewrite Nat.eqb_refl.
    split; [reflexivity|]. split; [reflexivity|]. split; [reflexivity|].
    split; [intros k Hk; apply Nat.eqb_neq in Hk; rewrite Hk; auto|]. split; [intros k; auto|reflexivity]. }
  assert (HN : NP c' = NP c) by (unfold NP, c'; cbn; apply lset_length; auto).
  assert (HP : forall k, P c' k = if (k =? i)%nat then q else P c k) by (intros; unfold c'; rewrite P_lset by auto; reflexivity).
  assert (Hc1 : cls p = 1) by (unfold cls; rewrite Hst; auto).
  assert (Hcls : forall k, cls (P c' k) = if (k =? i)%nat then 2 else cls (P c k)).
  { intros k. rewrite HP. destruct (k =? i)%nat; auto. }
  assert (Hcnt : forall f, cnt f (pool c') = cnt f (pool c) + if f x then 1 else 0).
  { intros f. unfold pool, c'. cbn [net dlyq]. rewrite !cnt_app, cnt_cons, cnt_nil. lia. }
  assert (HU : forall k, upc c' k = upc c k + (if (i =? k)%nat then 1 else 0) /\ dT c' k = dT c k /\ dF c' k = dF c k).
  { intros k. unfold upc, dT, dF. rewrite !Hcnt.
    assert (X1 : upfrom k x = (i =? k)%nat) by (unfold upfrom, x, msg, src; cbn; apply andb_true_r).
    assert (X2 : downTto k x = false) by (unfold downTto, x, msg; cbn; apply andb_false_r).
    assert (X3 : downFto k x = false) by (unfold downFto, x, msg; cbn; apply andb_false_r).
    rewrite X1, X2, X3. lia. }
  pose proof (parent_lt i Hi0) as Plt.
  (* the edge above i *)
  pose proof (I_edge _ _ HI i ltac:(lia)) as HEi. fold p in HEi.
  assert (Hei : cnts c i 0 0 0 /\ gf g i = false /\ cls (P c (parent i)) <= 1).
  { pose proof Hc1 as Hc1'. unfold p in Hc1'. destruct HEi; try lia. auto. }
  destruct Hei as ((Iu & It & If) & Ig & Ipar).
  (* the edges below i *)
  pose proof (children_reported c g i HI Hi Hc1 Hncl) as Hch.
  assert (Habs_i : absb c i = false /\ absb c' i = false).
  { unfold absb. destruct (HU i) as (-> & _ & _). rewrite Hcls, Nat.eqb_refl, Iu. fold p. rewrite Hc1. cbn. auto. }
  assert (Habs : forall k, k <> i -> absb c' k = absb c k).
  { intros k Hk. destruct (HU k) as (U1 & U2 & U3). apply absb_same; auto.
    - rewrite Hcls. apply Nat.eqb_neq in Hk. rewrite Hk. auto.
    - rewrite U1. apply Nat.eqb_neq in Hk. rewrite Nat.eqb_sym, Hk. lia. }
  pose proof (loc_ok_P c g i HI Hi) as Hl. fold p in Hl.
  destruct (I_g1 _ _ HI i Hi) as (G1a & G1b & G1c & G1d). fold p in G1b, G1d.
  split; [|exact Ig].
  apply (inv_build_g c c' g g'); auto.
  - intros k Hk. rewrite HP. destruct (k =? i)%nat eqn:E.
    + apply Nat.eqb_eq in E; subst k. fold p. unfold q, Rnum, Hyp5. rec_cases p. cbn in Hst. subst st0. proc_tac.
    + destruct (Rnum_refl c g k HI Hk) as (A & B & C & D). unfold Rnum, Hyp5 in *. cbn [gf cur_r g']. rewrite E. auto.
  - rewrite Hcls. destruct (0 =? i)%nat eqn:E; [apply Nat.eqb_eq in E; lia|]. apply (I_root _ _ HI).
  - cbn [gf g']. destruct (0 =? i)%nat eqn:E; [apply Nat.eqb_eq in E; lia|]. apply (I_root _ _ HI).
  - intros y Hy. unfold pool, c' in Hy. cbn [net dlyq] in Hy. rewrite !in_app_iff in Hy. cbn [In] in Hy.
    destruct Hy as [[Hy|[<-|[]]]|Hy]; try (apply (I_pkt _ _ HI); unfold pool; rewrite in_app_iff; tauto).
    unfold pkt_ok, x, msg, src, dst. cbn. auto.
  - intros k Hk. destruct (HU k) as (U1 & U2 & U3). destruct (Nat.eq_dec k i) as [->|Hne]; [|destruct (Nat.eq_dec (parent k) i) as [Hpk|Hpk]].
    + apply Ph_up; rewrite ?Hcls, ?Nat.eqb_refl; auto.
      * unfold cnts. rewrite U1, U2, U3, Nat.eqb_refl. lia.
      * cbn [gf g']. rewrite Nat.eqb_refl. auto.
      * destruct (parent i =? i)%nat eqn:E; [apply Nat.eqb_eq in E; lia|auto].
    + destruct (Hch k) as (A & (B1 & B2 & B3) & C); [apply ch_spec; lia|].
      apply Ph_abs2; rewrite ?Hcls; auto.
      * apply Nat.eqb_neq in Hne. rewrite Hne. auto.
      * unfold cnts. rewrite U1, U2, U3. apply Nat.eqb_neq in Hne. rewrite Nat.eqb_sym, Hne. lia.
      * cbn [gf g']. rewrite Hpk, Nat.eqb_refl. apply Nat.eqb_neq in Hne. rewrite Hne. auto.
      * rewrite Hpk, Nat.eqb_refl. auto.
    + apply (edge_same_g c c' g g'); auto.
      * rewrite Hcls. apply Nat.eqb_neq in Hne. rewrite Hne. auto.
      * rewrite Hcls. apply Nat.eqb_neq in Hpk. rewrite Hpk. auto.
      * rewrite U1. apply Nat.eqb_neq in Hne. rewrite Nat.eqb_sym, Hne. lia.
      * cbn [gf g']. apply Nat.eqb_neq in Hne. rewrite Hne. auto.
      * cbn [gf g']. apply Nat.eqb_neq in Hpk. rewrite Hpk. auto.
      * apply (I_edge _ _ HI); auto.
  - intros j Hj. rewrite Hcls. destruct (Nat.eq_dec j i) as [->|Hne].
    + rewrite HP, Nat.eqb_refl. split; [lia|]. intros _. reflexivity.
    + rewrite HP. apply Nat.eqb_neq in Hne. rewrite Hne.
      rewrite (nabs_same c c' j HN). apply (I_ncl _ _ HI); auto.
      intros k Hk. destruct (Nat.eq_dec k i) as [->|Hki]; [destruct Habs_i as [-> ->]; auto|apply Habs; auto].
  - intros j Hj. cbn [gf cur_s cur_r g']. rewrite HP. destruct (j =? i)%nat eqn:E.
    + apply Nat.eqb_eq in E; subst j. intros _. unfold q. cbn [sent recv set_st set_ncl set_acc]. lia.
    + apply (I_g2 _ _ HI); auto.
  - destruct (I_g6 _ _ HI) as [A _].
    rewrite (mass_bsum_upd mass_s c c' i Hi) by (intros k Hk Hne; rewrite HP; apply Nat.eqb_neq in Hne; rewrite Hne; auto).
    rewrite (bsum_upd (NP c) (fun k => if gf g k then cur_s g k else 0) (fun k => if gf g' k then cur_s g' k else 0) i Hi).
    2:{ intros k Hk Hne. cbn [gf cur_s g']. apply Nat.eqb_neq in Hne. rewrite Hne. auto. }
    cbn [gf cur_s g']. rewrite Nat.eqb_refl, Ig.
    replace (psum ups_s (pool c')) with (psum ups_s ((net c ++ [x]) ++ dlyq c)) by reflexivity.
    assert (M1 : mass_s (P c i) = acc_s p) by (unfold mass_s; fold p; rewrite Hc1; reflexivity).
    assert (M2 : mass_s (P c' i) = 0) by (unfold mass_s; rewrite Hcls, Nat.eqb_refl; reflexivity).
    assert (M3 : ups_s x = s') by reflexivity.
    unfold pool in A. rewrite !psum_app in *. cbn [psum]. rewrite M1, M2, M3. unfold s'. lia.
  - destruct (I_g6 _ _ HI) as [_ A].
    rewrite (mass_bsum_upd mass_r c c' i Hi) by (intros k Hk Hne; rewrite HP; apply Nat.eqb_neq in Hne; rewrite Hne; auto).
    rewrite (bsum_upd (NP c) (fun k => if gf g k then cur_r g k else 0) (fun k => if gf g' k then cur_r g' k else 0) i Hi).
    2:{ intros k Hk Hne. cbn [gf cur_r g']. apply Nat.eqb_neq in Hne. rewrite Hne. auto. }
    cbn [gf cur_r g']. rewrite Nat.eqb_refl, Ig.
    replace (psum ups_r (pool c')) with (psum ups_r ((net c ++ [x]) ++ dlyq c)) by reflexivity.
    assert (M1 : mass_r (P c i) = acc_r p) by (unfold mass_r; fold p; rewrite Hc1; reflexivity).
    assert (M2 : mass_r (P c' i) = 0) by (unfold mass_r; rewrite Hcls, Nat.eqb_refl; reflexivity).
    assert (M3 : ups_r x = r') by reflexivity.
    unfold pool in A. rewrite !psum_app in *. cbn [psum]. rewrite M1, M2, M3. unfold r'. lia.
  - intros Hall k Hk. rewrite HP. destruct (k =? i)%nat eqn:E; auto. apply Nat.eqb_eq in E; subst k.
    pose proof (Hall i Hi) as Hqi. fold p in Hqi. unfold q, quietw, busy_or_nr in *. rec_cases p. cbn in *. intuition.
  - intros (k & Hk & H3). exists k. split; auto. rewrite Hcls in H3. destruct (k =? i)%nat; [lia|auto].
Qed.

(* ---- the root decides ---- *)
Lemma bsum_single n (f : nat -> Z) : (1 <= n)%nat -> (forall k, (0 < k < n)%nat -> f k = 0) -> bsum n f = f 0%nat.
Proof.
  intros Hn H. rewrite (bsum_upd n (fun _ => 0) f 0%nat) by (try lia; intros k Hk Hne; apply H; lia).
  rewrite bsum_zero. lia.
Qed.

Lemma all_reported c g : Inv c g -> cls (P c 0) = 1 -> ncl (P c 0) = 0 ->
  forall k, (0 < k < NP c)%nat -> cls (P c k) = 2 /\ cnts c k 0 0 0 /\ gf g k = true.
Proof.
  intros HI H1 Hn k. induction k as [k IH] using lt_wf_ind. intros Hk.
  destruct (Nat.eq_dec (parent k) 0) as [Hp|Hp].
  - apply (children_reported c g 0%nat HI ltac:(lia) H1 Hn). apply ch_spec. lia.
  - pose proof (parent_lt k ltac:(lia)) as Plt.
    destruct (IH (parent k) Plt ltac:(lia)) as (A & _ & C).
    destruct (edge_par2_inv c g k (I_edge _ _ HI k Hk) A) as (X & Y & Z). rewrite C in Z. auto.
Qed.

Lemma no_up_in_pool c g : Inv c g -> (forall k, (0 < k < NP c)%nat -> upc c k = 0) ->
  psum ups_s (pool c) = 0 /\ psum ups_r (pool c) = 0.
Proof.
  intros HI H.
  assert (Hy : forall y, In y (pool c) -> ups_s y = 0 /\ ups_r y = 0).
  { intros y Hy. pose proof (I_pkt _ _ HI y Hy) as Hok. unfold pkt_ok, ups_s, ups_r in *. destruct (msg y) eqn:Em; auto.
    destruct Hok as (A & B & _). exfalso.
    assert (1 <= upc c (src y)). { unfold upc. apply (in_pool_cnt _ c y); auto. unfold upfrom. rewrite Nat.eqb_refl, Em. auto. }
    rewrite H in H0; lia. }
  split; apply psum_zero; intros y Hin; apply Hy; auto.
Qed.

Lemma send_up_root N p :
  let s' := acc_s p + sent p in let r' := acc_r p + recv p in
  let res := if nch N 0 =? 0 then true else (last_s p =? s') && (last_r p =? r') && (s' =? r') in
  let p2 := set_last (set_ncl (set_acc p s' r') (nch N 0)) s' r' in
  send_up N 0 p = (if res then set_cbs (set_st p2 TERM) (cbs p2 + 1) else set_acc p2 0 0, fwd N 0 res).
Proof. cbv zeta. unfold send_up, fwd. destruct (if nch N 0 =? 0 then true else _); reflexivity. Qed.

Lemma inv_contrib_root c g : Inv c g ->
  idle0 (P c 0) = true -> st (P c 0) = IWC -> ncl (P c 0) = 0 ->
  exists g', Inv (mkC (lset (procs c) 0 (fst (send_up (NP c) 0 (P c 0))))
                      (net c ++ snd (send_up (NP c) 0 (P c 0))) (dlyq c)) g' /\
    (forall k, gf g' k = false) /\ gd g' = true /\
    (forall k, dc_s g' k = (if (k =? 0)%nat then sent (P c 0) else cur_s g k) /\
               dc_r g' k = (if (k =? 0)%nat then recv (P c 0) else cur_r g k)) /\
    (forall k, (0 < k < NP c)%nat -> gf g k = true) /\
    bsum (NP c) (dc_s g') = acc_s (P c 0) + sent (P c 0) /\ bsum (NP c) (dc_r g') = acc_r (P c 0) + recv (P c 0).
Proof.
  intros HI Hidle Hst Hncl. pose proof (I_N _ _ HI) as HN1. rewrite send_up_root. cbv zeta. cbn [fst snd].
  set (p := P c 0) in *. set (s' := acc_s p + sent p). set (r' := acc_r p + recv p).
  set (res := if nch (NP c) 0 =? 0 then true else (last_s p =? s') && (last_r p =? r') && (s' =? r')).
  set (p2 := set_last (set_ncl (set_acc p s' r') (nch (NP c) 0)) s' r').
  set (q := if res then set_cbs (set_st p2 TERM) (cbs p2 + 1) else set_acc p2 0 0).
  set (c' := mkC (lset (procs c) 0 q) (net c ++ fwd (NP c) 0 res) (dlyq c)).
  set (cs := fun k => if (k =? 0)%nat then sent p else cur_s g k).
  set (cr := fun k => if (k =? 0)%nat then recv p else cur_r g k).
  set (g' := mkG cs cr cs cr (fun _ => false) (fun k => P c' k) true).
  exists g'.
  cut (Inv c' g' /\ (forall k, (0 < k < NP c)%nat -> gf g k = true) /\ bsum (NP c) cs = s' /\ bsum (NP c) cr = r').
  { intros (A & B & C1 & C2). split; [exact A|]. unfold g'. cbn [gf dc_s dc_r gd].
    split; [reflexivity|]. split; [reflexivity|]. split; [intros k; split; reflexivity|]. split; [exact B|]. split; [exact C1|exact C2]. }
  assert (H0N : (0 < NP c)%nat) by lia.
  assert (HN : NP c' = NP c) by (unfold NP, c'; cbn [procs]; apply lset_length; auto).
  assert (HP : forall k, P c' k = if (k =? 0)%nat then q else P c k) by (intros; unfold c'; rewrite P_lset by auto; reflexivity).
  assert (Hc1 : cls (P c 0) = 1) by (unfold cls; fold p; rewrite Hst; auto).
  pose proof (all_reported c g HI Hc1 Hncl) as Hall.
  assert (Hup0 : forall k, (0 < k < NP c)%nat -> upc c k = 0) by (intros k Hk; apply (Hall k Hk)).
  destruct (no_up_in_pool c g HI Hup0) as [Hps Hpr].
  pose proof (loc_ok_P c g 0%nat HI H0N) as Hl. fold p in Hl.
  destruct (I_root _ _ HI) as [_ Hgf0].
  (* the accumulators of the root hold the wave *)
  assert (Hmass : forall (m : proc -> Z), (forall x, cls x = 2 -> m x = 0) -> bsum (NP c) (fun k => m (P c k)) = m p).
  { intros m Hm. apply (bsum_single (NP c) (fun k => m (P c k))); auto. intros k Hk. apply Hm. apply (Hall k Hk). }
  assert (Hacc : acc_s p = bsum (NP c) (fun k => if gf g k then cur_s g k else 0) /\
                 acc_r p = bsum (NP c) (fun k => if gf g k then cur_r g k else 0)).
  { destruct (I_g6 _ _ HI) as [A B]. rewrite Hps in A. rewrite Hpr in B.
    rewrite (Hmass mass_s) in A by (intros x Hx; unfold mass_s; rewrite Hx; reflexivity).
    rewrite (Hmass mass_r) in B by (intros x Hx; unfold mass_r; rewrite Hx; reflexivity).
    unfold mass_s, mass_r in A, B. fold p in Hc1. rewrite Hc1 in A, B. cbn in A, B. lia. }
  assert (Hsum : bsum (NP c) cs = s' /\ bsum (NP c) cr = r').
  { destruct Hacc as [A B]. split.
    - rewrite (bsum_upd (NP c) (fun k => if gf g k then cur_s g k else 0) cs 0%nat H0N).
      + rewrite Hgf0. unfold cs, s'. cbn [Nat.eqb]. lia.
      + intros k Hk Hne. unfold cs. apply Nat.eqb_neq in Hne. rewrite Hne. destruct (Hall k ltac:(apply Nat.eqb_neq in Hne; lia)) as (_ & _ & ->). auto.
    - rewrite (bsum_upd (NP c) (fun k => if gf g k then cur_r g k else 0) cr 0%nat H0N).
      + rewrite Hgf0. unfold cr, r'. cbn [Nat.eqb]. lia.
      + intros k Hk Hne. unfold cr. apply Nat.eqb_neq in Hne. rewrite Hne. destruct (Hall k ltac:(apply Nat.eqb_neq in Hne; lia)) as (_ & _ & ->). auto. }
  (* each report lies between the last snapshot and the present *)
  assert (Hbnd : forall k, (k < NP c)%nat ->
            0 <= dc_s g k <= sent (gz g k) /\ sent (gz g k) <= cs k <= sent (P c k) /\
            0 <= dc_r g k <= recv (gz g k) /\ recv (gz g k) <= cr k <= recv (P c k)).
  { intros k Hk. destruct (I_g1 _ _ HI k Hk) as (A & B & C & D). unfold cs, cr. destruct (k =? 0)%nat eqn:E.
    - apply Nat.eqb_eq in E. subst k. fold p in B, D |- *. lia.
    - apply Nat.eqb_neq in E. destruct (Hall k ltac:(lia)) as (_ & _ & Hg). destruct (I_g2 _ _ HI k Hk Hg). lia. }
  assert (Hq_env : same_env p q /\ cls q = (if res then 3 else 1) /\ last_s q = s' /\ last_r q = r' /\ ncl q = nch (NP c) 0 /\ (res = false -> acc_s q = 0 /\ acc_r q = 0)).
  { unfold q, same_env, cls. destruct res; cbn; rewrite ?Hst; repeat split; auto; try discriminate. }
  destruct Hq_env as (Henvq & Hclsq & Hlsq & Hlrq & Hnclq & Haccq).
  assert (Hcls : forall k, (0 < k < NP c)%nat -> cls (P c' k) = 2 /\ P c' k = P c k).
  { intros k Hk. rewrite HP. destruct (k =? 0)%nat eqn:E; [apply Nat.eqb_eq in E; lia|]. split; auto. apply (Hall k Hk). }
  assert (HP0 : P c' 0 = q) by (rewrite HP; reflexivity).
  assert (Hcnt : forall f, cnt f (pool c') = cnt f (pool c) + cnt f (fwd (NP c) 0 res)).
  { intros f. unfold pool, c'. cbn [net dlyq]. rewrite !cnt_app. lia. }
  assert (Hsame : forall (f : proc -> Z), (forall a b, same_env a b -> f b = f a) ->
                  bsum (NP c) (fun k => f (P c' k)) = bsum (NP c) (fun k => f (P c k))).
  { intros f Hf. apply bsum_ext. intros k Hk. rewrite HP. destruct (k =? 0)%nat eqn:E; auto. apply Nat.eqb_eq in E. subst k. fold p. apply Hf; auto. }
  assert (Hcons' : bsum (NP c) (fun i => sent (P c' i)) =
           bsum (NP c) (fun i => recv (P c' i)) + bsum (NP c) (fun i => infl (P c' i)) + bsum (NP c) (fun i => inproc (P c' i))).
  { rewrite (Hsame sent), (Hsame recv), (Hsame infl), (Hsame inproc); try (intros a b (?&?&?&?); auto). apply (I_cons _ _ HI). }
  (* quiescence when the root says yes: Mattern's argument *)
  assert (HQ : res = true -> forall k, (k < NP c)%nat -> quietw (P c' k)).
  { intros Hres.
    assert (Hqc : forall k, (k < NP c)%nat -> quietw (P c k)).
    { unfold res in Hres. destruct (nch (NP c) 0 =? 0) eqn:En.
      - (* a single process *)
        apply Z.eqb_eq in En. assert (NP c = 1)%nat.
        { destruct (Nat.eq_dec (NP c) 1); auto. pose proof (nch_root (NP c) ltac:(lia)). lia. }
        intros k Hk. assert (k = 0)%nat by lia. subst k. destruct (I_one _ _ HI H) as [A B]. fold p in A, B |- *.
        unfold quietw, busy_or_nr. rewrite Hst. auto.
      - rewrite !andb_true_iff, !Z.eqb_eq in Hres. destruct Hres as ((E1 & E2) & E3).
        destruct Hsum as [Ss Sr]. destruct (I_g7 _ _ HI) as [G7a G7b]. fold p in G7a, G7b.
        assert (Hgd : gd g = true).
        { destruct (gd g) eqn:Egd; auto. specialize (G7b eq_refl).
          assert (0 <= bsum (NP c) cs) by (apply bsum_nonneg; intros k Hk; destruct (Hbnd k Hk); lia). lia. }
        destruct (G7a Hgd) as [L1 L2].
        assert (Es : forall k, (k < NP c)%nat -> dc_s g k = cs k).
        { apply bsum_le_eq; [intros k Hk; destruct (Hbnd k Hk); lia|lia]. }
        assert (Er : forall k, (k < NP c)%nat -> dc_r g k = cr k).
        { apply bsum_le_eq; [intros k Hk; destruct (Hbnd k Hk); lia|lia]. }
        assert (Zs : bsum (NP c) (fun i => sent (gz g i)) = s').
        { rewrite <- Ss. apply bsum_ext. intros k Hk. destruct (Hbnd k Hk). specialize (Es k Hk). lia. }
        assert (Zr : bsum (NP c) (fun i => recv (gz g i)) = r').
        { rewrite <- Sr. apply bsum_ext. intros k Hk. destruct (Hbnd k Hk). specialize (Er k Hk). lia. }
        destruct (I_g3 _ _ HI) as [G3 G3n]. rewrite Zs, Zr in G3.
        assert (Zf : forall k, (k < NP c)%nat -> infl (gz g k) + inproc (gz g k) = 0).
        { apply bsum_zero_all; [intros k Hk; destruct (G3n k Hk); lia|]. rewrite bsum_add. lia. }
        apply (I_g9 _ _ HI). intros k Hk. destruct (G3n k Hk). specialize (Zf k Hk).
        unfold quietw. split; [|lia].
        destruct (busy_or_nr (gz g k)) eqn:Eb; auto.
        destruct (I_g4 _ _ HI Hgd k Hk Eb) as [X|X]; [lia|]. destruct (Hbnd k Hk). specialize (Er k Hk). lia. }
    intros k Hk. rewrite HP. destruct (k =? 0)%nat eqn:E; [|apply Hqc; auto].
    pose proof (Hqc 0%nat H0N) as (_ & A & B). fold p in A, B. destruct Henvq as (_ & _ & E3 & E4).
    unfold quietw. rewrite E3, E4. split; auto. unfold q. rewrite Hres. reflexivity. }
  assert (Hchild : forall k, (0 < k < NP c)%nat ->
            upc c' k = 0 /\ dT c' k = (if res && is_child (NP c) 0 k then 1 else 0) /\ dF c' k = (if negb res && is_child (NP c) 0 k then 1 else 0)).
  { intros k Hk. destruct (Hall k Hk) as (_ & (U & T & F) & _). unfold upc, dT, dF in *. rewrite !Hcnt, U, T, F, upfrom_fwd.
    destruct res; cbn [andb negb]; rewrite ?downT_fwd, ?downF_fwd, ?downT_fwdF, ?downF_fwdT; auto. }
  split; [|split; [intros k Hk; apply (Hall k Hk)|exact Hsum]].
  constructor; rewrite ?HN.
  - auto.
  - intros k Hk. rewrite HP. destruct (k =? 0)%nat eqn:E; [|apply (I_loc _ _ HI); auto].
    unfold q, idle0, loc_ok, busy_or_nr, cls in *. rec_cases p. cbn in Hst. subst st0. destruct res; proc_tac.
  - rewrite HP0, Hclsq. split; [destruct res; lia|reflexivity].
  - intros y Hy. unfold pool, c' in Hy. cbn [net dlyq] in Hy. rewrite !in_app_iff in Hy.
    destruct Hy as [[Hy|Hy]|Hy]; try (apply (I_pkt _ _ HI); unfold pool; rewrite in_app_iff; tauto).
    apply (fwd_ok (NP c) 0 res); auto.
  - intros k Hk. destruct (Hcls k Hk) as [K2 _]. destruct (Hchild k Hk) as (U & T & F).
    destruct (is_child (NP c) 0 k) eqn:Ec.
    + apply is_child_spec in Ec. destruct Ec as (_ & _ & KP).
      destruct res eqn:Er; cbn [andb negb] in T, F.
      * apply Ph_dT; auto. unfold cnts; auto. rewrite KP, HP0, Hclsq. reflexivity.
      * apply Ph_dF; auto. unfold cnts; auto. rewrite KP, HP0, Hclsq. lia.
    + rewrite andb_false_r in T, F.
      assert (KP : (0 < parent k < NP c)%nat).
      { pose proof (parent_lt k ltac:(lia)). destruct (Nat.eq_dec (parent k) 0) as [E|E]; [|lia].
        assert (is_child (NP c) 0 k = true) by (apply is_child_spec; lia). congruence. }
      apply Ph_abs2; auto. unfold cnts; auto. apply (Hcls _ KP).
  - intros k Hk. destruct (Nat.eq_dec k 0) as [->|Hne].
    + rewrite HP0, Hclsq, Hnclq. split; [|destruct res; lia]. intros Hr. destruct res eqn:Er; [lia|].
      unfold nabs. rewrite HN. rewrite (cnt_ext_in _ (fun _ => true)); [rewrite cnt_const_true; reflexivity|].
      intros j Hj. apply ch_spec in Hj. assert (Hj' : (0 < j < NP c)%nat) by lia.
      destruct (Hchild j Hj') as (_ & _ & F). assert (is_child (NP c) 0 j = true) as Ec by (apply is_child_spec; auto).
      rewrite Ec in F. cbn in F. unfold absb. rewrite F. cbn. rewrite andb_false_r. auto.
    + destruct (Hcls k ltac:(lia)) as [K2 KE]. rewrite K2, KE. split; [lia|]. intros _. apply (I_ncl _ _ HI k Hk). apply (Hall k ltac:(lia)).
  - exact Hcons'.
  - intros k Hk. cbn [dc_s dc_r gz g']. destruct (Hbnd k Hk) as (A & B & C & D).
    assert (sent (P c' k) = sent (P c k) /\ recv (P c' k) = recv (P c k)) as [-> ->].
    { rewrite HP. destruct (k =? 0)%nat eqn:E; auto. apply Nat.eqb_eq in E. subst k. fold p. destruct Henvq as (X & Y & _). auto. }
    lia.
  - intros k Hk Hf. discriminate.
  - cbn [gz g']. split; [exact Hcons'|]. intros k Hk.
    assert (loc_ok (P c' k)) as (_ & _ & A & B & _).
    { rewrite HP. destruct (k =? 0)%nat eqn:E; [|apply (I_loc _ _ HI); auto].
      unfold q, idle0, loc_ok, busy_or_nr, cls in *. rec_cases p. cbn in Hst. subst st0. destruct res; proc_tac. }
    auto.
  - intros _ k Hk Hb. cbn [gz dc_r g'] in *. rewrite HP in *. destruct (k =? 0)%nat eqn:E.
    + exfalso. unfold q, busy_or_nr in Hb. rec_cases p. cbn in Hst. subst st0. destruct res; cbn in Hb; discriminate.
    + apply Nat.eqb_neq in E. destruct (Hall k ltac:(lia)) as (K2 & _ & Kg). unfold cr. apply Nat.eqb_neq in E. rewrite E.
      apply (I_g5 _ _ HI k Hk Kg). unfold cls, busy_or_nr in *. destruct (st (P c k)); try lia; try discriminate; auto.
  - intros k Hk Hf. discriminate.
  - assert (M : forall (m : proc -> Z), (forall x, cls x = 2 -> m x = 0) -> m q = 0 -> bsum (NP c) (fun k => m (P c' k)) = 0).
    { intros m M1 M2. rewrite (bsum_ext _ _ (fun _ => 0)); [apply bsum_zero|]. intros k Hk. destruct (Nat.eq_dec k 0) as [->|Hne]; [rewrite HP0; auto|].
      apply M1. apply (Hcls k ltac:(lia)). }
    assert (Z0 : forall f : nat -> Z, bsum (NP c) (fun i => if gf g' i then f i else 0) = 0) by (intros; unfold g'; cbn; apply bsum_zero).
    rewrite !Z0.
    change (pool c') with ((net c ++ fwd (NP c) 0 res) ++ dlyq c). rewrite !psum_app, psum_fwd_s, psum_fwd_r. unfold pool in Hps, Hpr. rewrite !psum_app in Hps, Hpr.
    rewrite (M mass_s), (M mass_r); try lia.
    + intros x Hx. unfold mass_r. rewrite Hx. reflexivity.
    + unfold mass_r. rewrite Hclsq. destruct res eqn:Er; [reflexivity|]. destruct (Haccq eq_refl) as [_ ->]. reflexivity.
    + intros x Hx. unfold mass_s. rewrite Hx. reflexivity.
    + unfold mass_s. rewrite Hclsq. destruct res eqn:Er; [reflexivity|]. destruct (Haccq eq_refl) as [-> _]. reflexivity.
  - cbn [gd dc_s dc_r g']. rewrite HP0, Hlsq, Hlrq. destruct Hsum as [-> ->]. split; [auto|discriminate].
  - cbn [gz g']. auto.
  - intros (k & Hk & H3). apply HQ. destruct res eqn:Er; auto. exfalso.
    destruct (Nat.eq_dec k 0) as [->|Hne]; [rewrite HP0, Hclsq in H3; lia|]. destruct (Hcls k ltac:(lia)). lia.
  - intros H1. rewrite HP0. destruct Henvq as (_ & _ & E3 & E4). rewrite E3, E4. apply (I_one _ _ HI); auto.
Qed.
