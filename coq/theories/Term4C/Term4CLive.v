(* C11, liveness side: a reachable configuration never holds a process that
   could report and has not; with that, a quiescent configuration whose control
   channels are empty has terminated everywhere. *)
From PV Require Import Base.Tac Base.ListX Term4C.Term4CDefs Term4C.Term4CBase Term4C.Term4CMicro Term4C.Term4CInv
  Term4C.Term4CStruct Term4C.Term4CContrib Term4C.Term4CProofs.
Local Open Scope Z_scope.

(* the condition of check_state_message_received *)
Definition pend (p : proc) : bool := idle0 p && is_iwc p && (ncl p =? 0).

Lemma pend_send_up N i p : pend (fst (send_up N i p)) = false.
Proof.
  unfold send_up, pend, is_iwc. destruct i; [|cbn; rewrite andb_false_r; auto].
  destruct (nch N 0 =? 0) eqn:E; [cbn; rewrite andb_false_r; auto|].
  destruct ((last_s p =? acc_s p + sent p) && (last_r p =? acc_r p + recv p) && (acc_s p + sent p =? acc_r p + recv p)).
  - cbn. rewrite andb_false_r. auto.
  - cbn [fst ncl set_acc set_last set_ncl]. rewrite E. apply andb_false_r.
Qed.
Lemma pend_check_recv N i p : pend (fst (check_recv N i p)) = false.
Proof. unfold check_recv. fold (pend p). destruct (pend p) eqn:E; [apply pend_send_up|auto]. Qed.
Lemma pend_wl N i p : pend p = false -> pend (fst (wl_changed N i p)) = false.
Proof.
  intros Hp. unfold wl_changed. destruct (idle0 p) eqn:Ei.
  - destruct (st p) eqn:Es; auto.
    + replace (ncl (set_st p IWC)) with (ncl p) by reflexivity. destruct (ncl p =? 0) eqn:En; [apply pend_send_up|].
      unfold pend. cbn. rewrite En. apply andb_false_r.
    + unfold pend, is_iwc. cbn. rewrite andb_false_r. auto.
  - destruct (st p); auto; unfold pend, idle0 in *; cbn; rewrite Ei; auto.
Qed.
Lemma pend_dispatch N i p m : pend (fst (dispatch_tp N i p m)) = false.
Proof.
  destruct m as [a b|[|]]; cbn [dispatch_tp].
  - apply pend_check_recv.
  - unfold msg_down, pend, is_iwc. cbn. rewrite andb_false_r. auto.
  - unfold msg_down. replace (st (set_acc p 0 0)) with (st p) by reflexivity.
    destruct (st p); try (unfold pend, is_iwc; cbn; rewrite andb_false_r; auto).
    pose proof (pend_check_recv N i (set_st (set_acc p 0 0) IWC)) as H.
    destruct (check_recv N i (set_st (set_acc p 0 0) IWC)). auto.
Qed.
Lemma pend_ready_loop N i : forall q p, pend p = false -> pend (fst (fst (ready_loop N i p q))) = false.
Proof.
  induction q as [|[[s d] m] q IH]; intros p Hp; cbn [ready_loop]; auto.
  destruct (d =? i)%nat.
  - pose proof (pend_dispatch N i p m) as Hd. destruct (dispatch_tp N i p m) as [p1 o1]. cbn in Hd.
    specialize (IH p1 Hd). destruct (ready_loop N i p1 q) as [[p2 k] o2]. auto.
  - specialize (IH p Hp). destruct (ready_loop N i p q) as [[p2 k] o2]. auto.
Qed.

Lemma P_local c i r k : (i < NP c)%nat -> P (local c i r) k = if (k =? i)%nat then fst r else P c k.
Proof. intros H. unfold local. rewrite P_lset by auto. reflexivity. Qed.

Lemma idle_state_idle0 c g i : Inv c g -> (i < NP c)%nat -> st (P c i) = IWC -> tasks (P c i) = 0 /\ acts (P c i) = 0.
Proof.
  intros HI Hi Hs. destruct (I_loc _ _ HI i Hi) as (_ & _ & _ & _ & Hz & _). apply Hz. unfold busy_or_nr. rewrite Hs. auto.
Qed.

Lemma no_pending_step c g a : Inv c g -> (forall i, (i < NP c)%nat -> pend (P c i) = false) ->
  forall i, (i < NP c)%nat -> pend (P (step c a) i) = false.
Proof.
  intros HI Hp k Hk. unfold NP in *.
  destruct a as [i|i v|i v|i v|i v|i j|i|i|i j]; cbn [step].
  - destruct ((i <? length (procs c))%nat && _) eqn:E; [|auto]. apply andb_true_iff in E. destruct E as [E1 _]. apply Nat.ltb_lt in E1.
    pose proof (pend_ready_loop (length (procs c)) i (dlyq c) (set_st (set_ncl (P c i) (nch (length (procs c)) i)) BWC)) as H.
    destruct (ready_loop _ _ _ _) as [[p2 kk] o]. rewrite P_lset by auto. destruct (k =? i)%nat; [|apply Hp; auto].
    apply H. unfold pend, is_iwc. cbn. rewrite andb_false_r. auto.
  - destruct ((i <? length (procs c))%nat && _ && _) eqn:E; [|auto]. rewrite !andb_true_iff in E. destruct E as [[E1 _] _]. apply Nat.ltb_lt in E1.
    rewrite P_local by auto. destruct (k =? i)%nat; [|apply Hp; auto].
    unfold addto_tasks. destruct (v =? 0) eqn:Ev; [apply Hp; auto|].
    assert (Hp1 : pend (set_tasks (P c i) (tasks (P c i) + v)) = false).
    { unfold pend, is_iwc, idle0. cbn. destruct (st (P c i)) eqn:Es; rewrite ?andb_false_r; auto.
      destruct (idle_state_idle0 c g i HI E1 Es) as [-> _]. apply Z.eqb_neq in Ev. destruct (0 + v =? 0) eqn:E0; [lia|auto]. }
    destruct (_ || _); [apply pend_wl; auto|auto].
  - destruct ((i <? length (procs c))%nat && _ && _) eqn:E; [|auto]. rewrite !andb_true_iff in E. destruct E as [[E1 _] _]. apply Nat.ltb_lt in E1.
    rewrite P_local by auto. destruct (k =? i)%nat; [|apply Hp; auto].
    unfold addto_acts. destruct (v =? 0) eqn:Ev; [apply Hp; auto|].
    assert (Hp1 : pend (set_acts (P c i) (acts (P c i) + v)) = false).
    { unfold pend, is_iwc, idle0. cbn. destruct (st (P c i)) eqn:Es; rewrite ?andb_false_r; auto.
      destruct (idle_state_idle0 c g i HI E1 Es) as [_ ->]. apply Z.eqb_neq in Ev. destruct (0 + v =? 0) eqn:E0; [lia|]. rewrite andb_false_r. auto. }
    destruct (_ || _); [apply pend_wl; auto|auto].
  - destruct ((i <? length (procs c))%nat && _ && _) eqn:E; [|auto]. rewrite !andb_true_iff in E. destruct E as [[E1 _] _]. apply Nat.ltb_lt in E1.
    rewrite P_local by auto. destruct (k =? i)%nat; [|apply Hp; auto].
    unfold setto_tasks. destruct (tasks (P c i) =? v) eqn:Ev; [apply Hp; auto|]. apply pend_wl.
    unfold pend, is_iwc, idle0. cbn. destruct (st (P c i)) eqn:Es; rewrite ?andb_false_r; auto.
    destruct (idle_state_idle0 c g i HI E1 Es) as [Ht _]. rewrite Ht in Ev. apply Z.eqb_neq in Ev. destruct (v =? 0) eqn:E0; [lia|auto].
  - destruct ((i <? length (procs c))%nat && _ && _) eqn:E; [|auto]. rewrite !andb_true_iff in E. destruct E as [[E1 _] _]. apply Nat.ltb_lt in E1.
    rewrite P_local by auto. destruct (k =? i)%nat; [|apply Hp; auto].
    unfold setto_acts. destruct (acts (P c i) =? v) eqn:Ev; [apply Hp; auto|]. apply pend_wl.
    unfold pend, is_iwc, idle0. cbn. destruct (st (P c i)) eqn:Es; rewrite ?andb_false_r; auto.
    destruct (idle_state_idle0 c g i HI E1 Es) as [_ Ht]. rewrite Ht in Ev. apply Z.eqb_neq in Ev. destruct (v =? 0) eqn:E0; [lia|]. rewrite andb_false_r. auto.
  - destruct ((i <? length (procs c))%nat && _ && _ && _) eqn:E; [|auto]. rewrite !andb_true_iff in E. destruct E as [[[E1 E2] E3] E4].
    apply Nat.ltb_lt in E1, E2. apply negb_true_iff, Nat.eqb_neq in E3.
    assert (HN1 : NP (local c i (set_sent (P c i) (sent (P c i) + 1), [])) = NP c) by (unfold NP, local; cbn; apply lset_length; auto).
    rewrite P_local by (rewrite HN1; auto). rewrite !P_local by auto. cbn [fst].
    destruct (k =? j)%nat eqn:Ekj.
    + apply Nat.eqb_neq in E3. rewrite Nat.eqb_sym, E3. specialize (Hp j E2). unfold pend, idle0, is_iwc in *. cbn. auto.
    + destruct (k =? i)%nat eqn:Eki; [|apply Hp; auto]. specialize (Hp i E1). unfold pend, idle0, is_iwc in *. cbn. auto.
  - destruct ((i <? length (procs c))%nat && _ && _) eqn:E; [|auto]. rewrite !andb_true_iff in E. destruct E as [[E1 _] E3]. apply Nat.ltb_lt in E1.
    rewrite P_local by auto. destruct (k =? i)%nat; [|apply Hp; auto]. cbn [fst].
    unfold can_recv in E3. unfold pend, is_iwc. rec_cases (P c i). cbn in *. destruct st0; try discriminate; cbn; rewrite ?andb_false_r; auto.
  - destruct ((i <? length (procs c))%nat && _) eqn:E; [|auto]. rewrite !andb_true_iff in E. destruct E as [E1 _]. apply Nat.ltb_lt in E1.
    rewrite P_local by auto. destruct (k =? i)%nat; [|apply Hp; auto]. cbn [fst].
    specialize (Hp i E1). unfold pend, idle0, is_iwc in *. cbn. auto.
  - destruct (j <? length (procs c))%nat eqn:E1; [|auto]. apply Nat.ltb_lt in E1.
    destruct (take_first i j (net c)) as [[m rest]|]; [|auto].
    destruct (st (P c j)) eqn:Es; try (rewrite P_lset by auto; destruct (k =? j)%nat; [apply pend_dispatch|apply Hp; auto]).
    apply Hp; auto.
Qed.

Definition good (N : nat) (c : cfg) : Prop :=
  NP c = N /\ (exists g, Inv c g) /\ forall i, (i < N)%nat -> pend (P c i) = false.

Lemma good_step N c a : good N c -> good N (step c a).
Proof.
  intros (HN & (g & HI) & Hp). pose proof (step_msteps c a) as Hms. split; [|split].
  - rewrite (NP_msteps _ _ Hms). auto.
  - apply (inv_msteps _ _ Hms g HI).
  - intros i Hi. apply (no_pending_step c g a HI); rewrite ?HN; auto.
Qed.
Lemma good_run N sched : forall c, good N c -> good N (run c sched).
Proof. induction sched as [|a l IH]; intros c H; cbn; auto. apply IH. apply good_step. auto. Qed.
Lemma good_init N : (1 <= N)%nat -> good N (init N).
Proof.
  intros HN. split; [apply NP_init|split; [exists g_init; apply inv_init; auto|]]. intros i _. rewrite P_init. reflexivity.
Qed.
Lemma reach_good N c : (1 <= N)%nat -> reach N c -> good N c.
Proof. intros HN (sched & ->). apply good_run. apply good_init; auto. Qed.

Lemma cnt_pos_exists {A} (f : A -> bool) l : 0 < cnt f l -> exists x, In x l /\ f x = true.
Proof.
  induction l as [|y l IH]; intros H; [rewrite cnt_nil in H; lia|]. rewrite cnt_cons in H.
  destruct (f y) eqn:E; [exists y; split; [left|]; auto|]. destruct IH as (x & Hx & Hf); [lia|]. exists x. split; [right|]; auto.
Qed.

Theorem no_deadlock N c : (1 <= N)%nat -> reach N c ->
  (forall j, (j < N)%nat -> quiet_p (P c j)) -> net c = [] -> dlyq c = [] ->
  forall j, (j < N)%nat -> st (P c j) = TERM.
Proof.
  intros HN Hr Hq Hnet Hdl. destruct (reach_good N c HN Hr) as (HNP & (g & HI) & Hpend).
  assert (Hpool : pool c = []) by (unfold pool; rewrite Hnet, Hdl; reflexivity).
  assert (Hcnt : forall k, upc c k = 0 /\ dT c k = 0 /\ dF c k = 0) by (intros; unfold upc, dT, dF; rewrite Hpool; auto).
  assert (Hcls : forall k, (k < N)%nat -> 1 <= cls (P c k) <= 3 /\ (cls (P c k) = 1 -> st (P c k) = IWC)).
  { intros k Hk. destruct (Hq k Hk) as (Hs & _). unfold cls. destruct Hs as [-> | [-> | ->] ]; split; try lia; auto; intros; lia. }
  (* nobody is still collecting *)
  assert (HA : forall m k, (N - k <= m)%nat -> (k < N)%nat -> cls (P c k) <> 1).
  { induction m as [|m IH]; intros k Hm Hk H1; [lia|].
    destruct (Hcls k Hk) as (_ & Hs). specialize (Hs H1).
    destruct (idle_state_idle0 c g k HI ltac:(lia) Hs) as [Ht Ha].
    pose proof (Hpend k Hk) as Hp. unfold pend, idle0, is_iwc in Hp. rewrite Ht, Ha, Hs in Hp. cbn in Hp.
    destruct (I_ncl _ _ HI k ltac:(lia)) as [Hn _]. specialize (Hn H1).
    assert (0 < nabs c k). { pose proof (cnt_nonneg (fun j => negb (absb c j)) (children (NP c) k)). unfold nabs in *. apply Z.eqb_neq in Hp. lia. }
    destruct (cnt_pos_exists _ _ H) as (j & Hj & Hab). rewrite HNP in Hj. apply ch_spec in Hj. destruct Hj as (J0 & JN & JP).
    pose proof (parent_lt j J0) as Jlt. apply negb_true_iff in Hab.
    destruct (Hcnt j) as (U & T & F).
    pose proof (I_edge _ _ HI j ltac:(lia)) as HE. rewrite JP in *.
    assert (cls (P c j) = 1).
    { destruct (Hcls j JN) as (R & _).
      destruct HE as [X ? | X (? & ? & ?) | X ? | X ? ? Y | X (? & ? & ?) | X (? & ? & ?) | X ? ? Y]; rewrite ?JP in *; try lia.
      unfold absb in Hab. rewrite X, U, T, F in Hab. discriminate. }
    apply (IH j); auto. lia. }
  assert (H0 : cls (P c 0) = 3).
  { destruct (Hcls 0%nat ltac:(lia)) as (R & _). destruct (I_root _ _ HI) as [R2 _]. pose proof (HA N 0%nat ltac:(lia) ltac:(lia)). lia. }
  assert (HC : forall k, (k < N)%nat -> cls (P c k) = 3).
  { induction k as [k IH] using lt_wf_ind. intros Hk. destruct (Nat.eq_dec k 0) as [->|Hne]; auto.
    pose proof (parent_lt k Hne) as Plt. specialize (IH (parent k) Plt ltac:(lia)).
    destruct (Hcnt k) as (U & T & F). pose proof (I_edge _ _ HI k ltac:(lia)) as HE.
    destruct HE as [? ? ? Y | ? ? ? Y | ? ? ? Y | ? ? ? Y | ? ? ? Y | ? (? & ? & ?) | ? ? ? Y]; try lia. }
  intros j Hj. specialize (HC j Hj). unfold cls in HC. destruct (st (P c j)); try lia; auto.
Qed.

Lemma quiet_mstep_counters c c' : (forall j, (j < NP c)%nat -> quietw (P c j)) -> mstep c c' ->
  forall j, (j < NP c)%nat -> sent (P c' j) = sent (P c j) /\ recv (P c' j) = recv (P c j).
Proof.
  intros Hq Hm j Hj.
  assert (Hst : forall i, (i < NP c)%nat -> (st (P c i) = IWC \/ st (P c i) = IWP \/ st (P c i) = TERM) /\ infl (P c i) = 0 /\ inproc (P c i) = 0).
  { intros i Hi. destruct (Hq i Hi) as (Hb & Hf & Hp). split; auto. apply quietw_cls. split; auto. }
  destruct Hm.
  - exfalso. destruct (Hst i H) as ([X|[X|X]] & _); congruence.
  - exfalso. destruct (Hst i H) as (X & _ & Y). unfold may_load, busy_or_nr in H0. rewrite Y in H0. destruct X as [X|[X|X]]; rewrite X in H0; discriminate.
  - exfalso. destruct (Hst i H) as (X & _ & Y). unfold may_load, busy_or_nr in H0. rewrite Y in H0. destruct X as [X|[X|X]]; rewrite X in H0; discriminate.
  - exfalso. destruct (Hst i H) as ([X|[X|X]] & _); destruct H1; congruence.
  - rewrite P_lset by (unfold NP in *; auto). destruct (j =? i)%nat eqn:E; auto. apply Nat.eqb_eq in E. subst j.
    unfold send_up. destruct i; cbn; repeat match goal with |- context[if ?b then _ else _] => destruct b end; cbn; auto.
  - exfalso. destruct (Hst i H) as (X & _). unfold is_busy in H2. destruct X as [X|[X|X]]; rewrite X in H2; discriminate.
  - exfalso. destruct (Hst i H) as (_ & X & _). lia.
  - exfalso. destruct (Hst i H) as (_ & _ & X). lia.
  - auto.
  - rewrite P_lset by (unfold NP in *; auto). destruct (j =? j0)%nat eqn:E; auto. apply Nat.eqb_eq in E. subst j. auto.
  - rewrite P_lset by (unfold NP in *; auto). destruct (j =? j0)%nat eqn:E; auto. apply Nat.eqb_eq in E. subst j. auto.
  - rewrite P_lset by (unfold NP in *; auto). destruct (j =? j0)%nat eqn:E; auto. apply Nat.eqb_eq in E. subst j. auto.
Qed.

(* global quiescence, and what is proved of liveness: it is stable under every
   schedule, nothing the application counts changes any more, and whenever the
   control channels are empty every process has terminated *)
Definition quiescent (N : nat) (c : cfg) : Prop := forall j, (j < N)%nat -> quiet_p (P c j).

Theorem quiescence_stable N c sched : (1 <= N)%nat -> reach N c -> quiescent N c -> quiescent N (run c sched).
Proof.
  intros HN Hr Hq. destruct (reach_good N c HN Hr) as (HNP & (g & HI) & _).
  pose proof (run_msteps c sched) as Hms.
  assert (Hw : forall j, (j < NP c)%nat -> quietw (P c j)).
  { intros j Hj. destruct (Hq j ltac:(lia)) as (A & _ & _ & B & C). unfold quietw, busy_or_nr. destruct A as [-> | [-> | ->] ]; auto. }
  destruct (inv_msteps _ _ Hms g HI) as [g' HI']. pose proof (NP_msteps _ _ Hms) as HN'.
  intros j Hj. apply (quietw_quiet_p _ g'); auto; [lia|]. apply (quiet_msteps c _ Hms g HI Hw). lia.
Qed.

Theorem liveness_partial N c sched : (1 <= N)%nat -> reach N c -> quiescent N c ->
  let c' := run c sched in
  quiescent N c' /\
  (forall j, sent (P c' j) = sent (P c j) /\ recv (P c' j) = recv (P c j)) /\
  (net c' = [] -> dlyq c' = [] -> forall j, (j < N)%nat -> st (P c' j) = TERM).
Proof.
  intros HN Hr Hq c'. pose proof (quiescence_stable N c sched HN Hr Hq) as Hq'. fold c' in Hq'.
  assert (Hr' : reach N c'). { destruct Hr as (s0 & ->). exists (s0 ++ sched). unfold c', run. rewrite fold_left_app. reflexivity. }
  split; [auto|split].
  - (* every micro-step from a quiescent configuration keeps sent and recv: only send and receive-end change them *)
    destruct (reach_good N c HN Hr) as (HNP & (g & HI) & _).
    assert (HNP' : NP c' = N) by (unfold c'; rewrite (NP_msteps _ _ (run_msteps c sched)); auto).
    assert (Hsame : forall j, (j < N)%nat -> recv (P c' j) = recv (P c j) /\ sent (P c' j) = sent (P c j)).
    {
      revert g HI Hq HNP. clear Hr Hr' Hq' HNP'. unfold c'. clear c'.
      pose proof (run_msteps c sched) as Hms. induction Hms as [d|d d1 d2 Hs Hms IH]; intros g HI Hq HNP; [auto|].
      assert (Hw : forall j, (j < NP d)%nat -> quietw (P d j)).
      { intros j Hj. destruct (Hq j ltac:(lia)) as (A & _ & _ & B & C). unfold quietw, busy_or_nr. destruct A as [-> | [-> | ->] ]; auto. }
      destruct (inv_mstep _ _ _ HI Hs) as [g1 HI1]. pose proof (NP_mstep _ _ Hs) as HN1.
      assert (Hq1 : quiescent N d1).
      { intros j Hj. apply (quietw_quiet_p _ g1); auto; [lia|]. apply (quiet_mstep d d1 g HI Hw Hs). lia. }
      assert (Hstep : forall j, (j < N)%nat -> sent (P d1 j) = sent (P d j) /\ recv (P d1 j) = recv (P d j)).
      { intros j Hj. apply (quiet_mstep_counters d d1 Hw Hs). lia. }
      intros j Hj. destruct (IH g1 HI1 Hq1 ltac:(lia) j Hj). destruct (Hstep j Hj). lia. }
    intros j. destruct (Nat.lt_ge_cases j N) as [Hj|Hj]; [destruct (Hsame j Hj); auto|].
    unfold P. rewrite !nth_overflow; auto; unfold NP in *; lia.
  - apply no_deadlock; auto.
Qed.
