(* Lists, bounded sums, the binary tree of ranks: lemmas shared by the C11 proofs. *)
From PV Require Import Base.Tac Base.ListX Term4C.Term4CDefs.
Local Open Scope Z_scope.

(* ---- lset / nth ---- *)
Lemma lset_length {A} (l : list A) i q : (i < length l)%nat -> length (lset l i q) = length l.
Proof.
  intros H. unfold lset. rewrite app_length, firstn_length_le by lia. cbn [length].
  rewrite skipn_length. lia.
Qed.
Lemma nth_lset_eq {A} (l : list A) i q d : (i < length l)%nat -> nth i (lset l i q) d = q.
Proof.
  intros H. unfold lset. rewrite app_nth2; rewrite firstn_length_le by lia; [|lia].
  rewrite Nat.sub_diag. reflexivity.
Qed.
Lemma nth_lset_ne {A} (l : list A) i j q d : (i < length l)%nat -> j <> i -> nth j (lset l i q) d = nth j l d.
Proof.
  intros H Hne. unfold lset.
  destruct (Nat.lt_ge_cases j i) as [Hlt|Hge].
  - rewrite app_nth1 by (rewrite firstn_length_le; lia).
    rewrite <- (firstn_skipn i l) at 2. rewrite app_nth1 by (rewrite firstn_length_le; lia). reflexivity.
  - rewrite app_nth2; rewrite firstn_length_le by lia; [|lia].
    destruct (j - i)%nat as [|k] eqn:E; [lia|]. cbn [nth].
    rewrite <- (firstn_skipn (S i) l) at 2.
    rewrite app_nth2; rewrite firstn_length_le by lia; [|lia].
    f_equal. lia.
Qed.
Lemma lset_lset {A} (l : list A) i q r : (i < length l)%nat -> lset (lset l i q) i r = lset l i r.
Proof.
  revert i; induction l as [|x l IH]; intros [|i] H; cbn in H; try lia; [reflexivity|].
  specialize (IH i ltac:(lia)). unfold lset in *. cbn [firstn skipn app] in *.
  change (x :: firstn i l ++ q :: skipn (S i) l) with (x :: (firstn i l ++ q :: skipn (S i) l)).
  cbn [firstn skipn app]. f_equal. exact IH.
Qed.
Lemma nth_repeat_p0 n i : nth i (repeat p0 n) p0 = p0.
Proof. revert i; induction n; intros [|i]; cbn; auto. Qed.

(* ---- bounded sums over ranks ---- *)
Fixpoint bsum (n : nat) (f : nat -> Z) : Z :=
  match n with O => 0 | S k => bsum k f + f k end.

Lemma bsum_ext n f g : (forall i, (i < n)%nat -> f i = g i) -> bsum n f = bsum n g.
Proof. induction n; intros H; cbn; [reflexivity|]. rewrite IHn, H by (intros; auto with arith); auto. Qed.
Lemma bsum_add n f g : bsum n (fun i => f i + g i) = bsum n f + bsum n g.
Proof. induction n; cbn; lia. Qed.
Lemma bsum_sub n f g : bsum n (fun i => f i - g i) = bsum n f - bsum n g.
Proof. induction n; cbn; lia. Qed.
Lemma bsum_zero n : bsum n (fun _ => 0) = 0.
Proof. induction n; cbn; lia. Qed.
Lemma bsum_le n f g : (forall i, (i < n)%nat -> f i <= g i) -> bsum n f <= bsum n g.
Proof. induction n; intros H; cbn; [lia|]. pose proof (H n ltac:(lia)). assert (bsum n f <= bsum n g) by (apply IHn; intros; apply H; lia). lia. Qed.
Lemma bsum_nonneg n f : (forall i, (i < n)%nat -> 0 <= f i) -> 0 <= bsum n f.
Proof. intros H. rewrite <- (bsum_zero n). apply bsum_le. auto. Qed.
Lemma bsum_le_eq n f g : (forall i, (i < n)%nat -> f i <= g i) -> bsum n f = bsum n g ->
  forall i, (i < n)%nat -> f i = g i.
Proof.
  induction n; intros Hle Heq i Hi; [lia|]. cbn in Heq.
  assert (H1 : bsum n f <= bsum n g) by (apply bsum_le; intros; apply Hle; lia).
  pose proof (Hle n ltac:(lia)).
  destruct (Nat.eq_dec i n) as [->|Hne]; [lia|].
  apply IHn; [intros; apply Hle; lia|lia|lia].
Qed.
Lemma bsum_zero_all n f : (forall i, (i < n)%nat -> 0 <= f i) -> bsum n f = 0 -> forall i, (i < n)%nat -> f i = 0.
Proof.
  intros Hnn H0 i Hi. symmetry. apply (bsum_le_eq n (fun _ => 0) f); auto. rewrite bsum_zero. lia.
Qed.
Lemma bsum_upd n f g i : (i < n)%nat -> (forall k, (k < n)%nat -> k <> i -> g k = f k) ->
  bsum n g = bsum n f - f i + g i.
Proof.
  induction n; intros Hi H; [lia|]. cbn.
  destruct (Nat.eq_dec i n) as [->|Hne].
  - rewrite (bsum_ext n g f) by (intros; apply H; lia). lia.
  - rewrite IHn by (try lia; intros; apply H; lia). rewrite (H n) by lia. lia.
Qed.
Lemma sumf_bsum f l : sumf f l = bsum (length l) (fun i => f (nth i l p0)).
Proof.
  induction l as [|p l IH] using rev_ind; [reflexivity|].
  assert (Hs : forall l1 l2, sumf f (l1 ++ l2) = sumf f l1 + sumf f l2).
  { induction l1; intros; cbn; [lia|]. rewrite IHl1. lia. }
  rewrite Hs, app_length, Nat.add_1_r. cbn [bsum sumf length].
  rewrite app_nth2, Nat.sub_diag by lia. cbn [nth].
  rewrite IH. rewrite (bsum_ext (length l) (fun i => f (nth i (l ++ [p]) p0)) (fun i => f (nth i l p0))); [lia|].
  intros i Hi. rewrite app_nth1 by lia. reflexivity.
Qed.

(* ---- counting and summing packets ---- *)
Fixpoint psum (w : pkt -> Z) (l : list pkt) : Z :=
  match l with [] => 0 | x :: r => w x + psum w r end.
Lemma psum_app w a b : psum w (a ++ b) = psum w a + psum w b.
Proof. induction a; cbn; lia. Qed.
Lemma psum_zero w l : (forall x, In x l -> w x = 0) -> psum w l = 0.
Proof. induction l; intros H; cbn; [reflexivity|]. rewrite H, IHl by (try left; auto; intros; apply H; right; auto). lia. Qed.

Lemma cnt_zero_none {A} (f : A -> bool) l : cnt f l = 0 -> forall x, In x l -> f x = false.
Proof.
  induction l as [|y l IH]; intros H x Hin; [destruct Hin|]. rewrite cnt_cons in H.
  pose proof (cnt_nonneg f l). destruct Hin as [->|Hin].
  - destruct (f x); [lia|reflexivity].
  - apply IH; auto. destruct (f y); lia.
Qed.
Lemma cnt_pos_in {A} (f : A -> bool) l x : In x l -> f x = true -> 1 <= cnt f l.
Proof.
  intros Hin Hf. destruct (Z_le_gt_dec 1 (cnt f l)); auto.
  pose proof (cnt_nonneg f l). assert (cnt f l = 0) by lia.
  rewrite (cnt_zero_none f l H0 x Hin) in Hf. discriminate.
Qed.
Lemma cnt_ext_in {A} (f g : A -> bool) l : (forall x, In x l -> f x = g x) -> cnt f l = cnt g l.
Proof.
  induction l as [|y l IH]; intros H; [reflexivity|]. rewrite !cnt_cons, IH, (H y) by (try left; auto; intros; apply H; right; auto). reflexivity.
Qed.
(* one element of a duplicate-free list changes its flag *)
Lemma cnt_change {A} (f g : A -> bool) l x : NoDup l -> In x l ->
  (forall y, In y l -> y <> x -> g y = f y) ->
  cnt g l = cnt f l - (if f x then 1 else 0) + (if g x then 1 else 0).
Proof.
  induction l as [|y l IH]; intros Hnd Hin H; [destruct Hin|].
  inversion Hnd as [|? ? Hni Hnd']; subst. rewrite !cnt_cons. destruct Hin as [->|Hin].
  - rewrite (cnt_ext_in g f l); [lia|]. intros z Hz. apply H; [right; auto|]. intros ->. contradiction.
  - rewrite IH by (auto; intros; apply H; auto; right; auto).
    rewrite (H y) by (try left; auto; intros ->; contradiction). lia.
Qed.

(* ---- the tree ---- *)
Lemma ch_spec N i k : In k (children N i) <-> (k <> 0 /\ k < N /\ parent k = i)%nat.
Proof.
  unfold children, parent.
  destruct (2*i+2 <? N)%nat eqn:E2; [|destruct (2*i+1 <? N)%nat eqn:E1]; cbn [In].
  - apply Nat.ltb_lt in E2. split.
    + intros [<-|[<-|[]]]; (split; [lia|split; [lia|]]).
      * replace (2*i+1-1)%nat with (i*2)%nat by lia. apply Nat.div_mul. lia.
      * replace (2*i+2-1)%nat with (1 + i*2)%nat by lia. rewrite Nat.div_add by lia. reflexivity.
    + intros (H0 & Hn & Hp). pose proof (Nat.div_mod (k-1) 2 ltac:(lia)) as Hd.
      pose proof (Nat.mod_upper_bound (k-1) 2 ltac:(lia)). rewrite Hp in Hd. lia.
  - apply Nat.ltb_lt in E1. apply Nat.ltb_ge in E2. split.
    + intros [<-|[]]. split; [lia|split; [lia|]].
      replace (2*i+1-1)%nat with (i*2)%nat by lia. apply Nat.div_mul. lia.
    + intros (H0 & Hn & Hp). pose proof (Nat.div_mod (k-1) 2 ltac:(lia)) as Hd.
      pose proof (Nat.mod_upper_bound (k-1) 2 ltac:(lia)). rewrite Hp in Hd. lia.
  - apply Nat.ltb_ge in E1. apply Nat.ltb_ge in E2. split; [intros []|].
    intros (H0 & Hn & Hp). pose proof (Nat.div_mod (k-1) 2 ltac:(lia)) as Hd.
    pose proof (Nat.mod_upper_bound (k-1) 2 ltac:(lia)). rewrite Hp in Hd. lia.
Qed.
Lemma ch_nodup N i : NoDup (children N i).
Proof.
  unfold children. destruct (2*i+2 <? N)%nat; [|destruct (2*i+1 <? N)%nat]; repeat constructor; cbn; try tauto; lia.
Qed.
Lemma parent_lt k : (k <> 0 -> parent k < k)%nat.
Proof. intros H. unfold parent. apply Nat.div_lt_upper_bound; lia. Qed.
Lemma nch_nonneg N i : 0 <= nch N i. Proof. unfold nch. lia. Qed.
Lemma nch_root N : (2 <= N)%nat -> 1 <= nch N 0.
Proof. intros H. destruct N as [|[|[|N]]]; try lia; unfold nch, children; cbn; lia. Qed.
Lemma nch_zero_no_children N i : nch N i = 0 -> children N i = [].
Proof. unfold nch. destruct (children N i); cbn; [auto|lia]. Qed.
Lemma children_root1 : children 1 0 = []. Proof. reflexivity. Qed.

(* counting over the forwarded DOWN messages *)
Lemma cnt_map_children {B} (g : nat -> B) (f : B -> bool) (h : nat -> bool) N i :
  (forall k, f (g k) = h k) -> cnt f (map g (children N i)) = cnt h (children N i).
Proof. intros H. induction (children N i) as [|k l IH]; [reflexivity|]. cbn [map]. rewrite !cnt_cons, IH, H. reflexivity. Qed.
Lemma cnt_eqb_children N i k : cnt (fun x => (x =? k)%nat) (children N i) = if ((negb (k =? 0)%nat) && (k <? N)%nat && (parent k =? i)%nat)%bool then 1 else 0.
Proof.
  pose proof (ch_spec N i k) as Hs. pose proof (ch_nodup N i) as Hnd.
  destruct ((negb (k =? 0)%nat) && (k <? N)%nat && (parent k =? i)%nat)%bool eqn:E.
  - assert (Hin : In k (children N i)). { apply Hs. rewrite !andb_true_iff, negb_true_iff, Nat.eqb_neq, Nat.ltb_lt, Nat.eqb_eq in E. tauto. }
    clear Hs E. induction (children N i) as [|y l IH]; [destruct Hin|].
    inversion Hnd; subst. rewrite cnt_cons. destruct Hin as [->|Hin].
    + rewrite Nat.eqb_refl. rewrite (cnt_ext_in _ (fun _ => false) l).
      * clear. induction l; [reflexivity|]. rewrite cnt_cons. cbn in *. lia.
      * intros x Hx. apply Nat.eqb_neq. intros ->. contradiction.
    + rewrite IH by auto. destruct (y =? k)%nat eqn:E; [|lia]. apply Nat.eqb_eq in E. subst. contradiction.
  - assert (Hni : ~ In k (children N i)).
    { intros Hin. apply Hs in Hin. rewrite !andb_false_iff, negb_false_iff, Nat.eqb_eq, Nat.ltb_ge, Nat.eqb_neq in E. lia. }
    clear Hs E Hnd. induction (children N i) as [|y l IH]; [reflexivity|]. rewrite cnt_cons, IH by (intros H; apply Hni; right; auto).
    destruct (y =? k)%nat eqn:E; [|lia]. apply Nat.eqb_eq in E. subst. exfalso. apply Hni. left; auto.
Qed.
