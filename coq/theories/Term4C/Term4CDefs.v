(* Executable model of the four-counter termination detector
   (parsec/mca/termdet/fourcounter/termdet_fourcounter_module.c) run by N
   processes, with the network and the application around it.  NO proofs here.

   One process = the monitor structure of the module plus the two workload
   counters of its taskpool and two pieces of environment state (application
   messages in flight towards it, application messages whose receipt has
   started and not ended).  Control messages (UP / DOWN) travel in [net]; a
   message that arrives at a process whose monitor is NOT_READY goes to the
   (single, global) delayed list [dlyq], as in the C code.  Assertions of the C
   code are compiled out (-DNDEBUG): the model performs what the code performs
   when they would fail.  The uint32 counters are modelled in Z (hypothesis:
   fewer than 2^32 - 1 application messages, so that no sum wraps and -1, the
   initial value of last_acc_*_at_root, is never a sum). *)
From Coq Require Import ZArith List Bool Arith.
Import ListNotations.
Local Open Scope Z_scope.

(* parsec_termdet_fourcounter_state_t, in the order of the C enum *)
Inductive tstate := NR | BWC | BWP | IWC | IWP | TERM.
Definition st_code (s : tstate) : Z :=
  match s with NR => 0 | BWC => 1 | BWP => 2 | IWC => 3 | IWP => 4 | TERM => 5 end.
(* parsec_termdet_fourcounter_taskpool_state: 1 NOT_READY 2 BUSY 3 IDLE 4 TERMINATED *)
Definition pub_code (s : tstate) : Z :=
  match s with NR => 1 | BWC | BWP => 2 | IWC | IWP => 3 | TERM => 4 end.

Inductive cmsg := UP (s r : Z) | DOWN (b : bool).
Definition pkt := (nat * nat * cmsg)%type.          (* source, destination, message *)

Record proc := mkP {
  st : tstate;
  tasks : Z;            (* tp->nb_tasks *)
  acts : Z;             (* tp->nb_pending_actions *)
  sent : Z;             (* messages_sent *)
  recv : Z;             (* messages_received *)
  ncl : Z;              (* nb_child_left, read as int *)
  acc_s : Z; acc_r : Z; (* acc_sent, acc_received *)
  last_s : Z; last_r : Z; (* last_acc_*_at_root, read as int *)
  cbs : Z;              (* number of times tp->tdm.callback ran *)
  infl : Z;             (* environment: application messages in flight towards this process *)
  inproc : Z            (* environment: application messages between incoming_message_start and _end *)
}.

(* monitor_taskpool *)
Definition p0 : proc := mkP NR 0 0 0 0 (-1) 0 0 (-1) (-1) 0 0 0.

Definition set_st p v := mkP v (tasks p) (acts p) (sent p) (recv p) (ncl p) (acc_s p) (acc_r p) (last_s p) (last_r p) (cbs p) (infl p) (inproc p).
Definition set_tasks p v := mkP (st p) v (acts p) (sent p) (recv p) (ncl p) (acc_s p) (acc_r p) (last_s p) (last_r p) (cbs p) (infl p) (inproc p).
Definition set_acts p v := mkP (st p) (tasks p) v (sent p) (recv p) (ncl p) (acc_s p) (acc_r p) (last_s p) (last_r p) (cbs p) (infl p) (inproc p).
Definition set_sent p v := mkP (st p) (tasks p) (acts p) v (recv p) (ncl p) (acc_s p) (acc_r p) (last_s p) (last_r p) (cbs p) (infl p) (inproc p).
Definition set_recv p v := mkP (st p) (tasks p) (acts p) (sent p) v (ncl p) (acc_s p) (acc_r p) (last_s p) (last_r p) (cbs p) (infl p) (inproc p).
Definition set_ncl p v := mkP (st p) (tasks p) (acts p) (sent p) (recv p) v (acc_s p) (acc_r p) (last_s p) (last_r p) (cbs p) (infl p) (inproc p).
Definition set_acc p s r := mkP (st p) (tasks p) (acts p) (sent p) (recv p) (ncl p) s r (last_s p) (last_r p) (cbs p) (infl p) (inproc p).
Definition set_last p s r := mkP (st p) (tasks p) (acts p) (sent p) (recv p) (ncl p) (acc_s p) (acc_r p) s r (cbs p) (infl p) (inproc p).
Definition set_cbs p v := mkP (st p) (tasks p) (acts p) (sent p) (recv p) (ncl p) (acc_s p) (acc_r p) (last_s p) (last_r p) v (infl p) (inproc p).
Definition set_infl p v := mkP (st p) (tasks p) (acts p) (sent p) (recv p) (ncl p) (acc_s p) (acc_r p) (last_s p) (last_r p) (cbs p) v (inproc p).
Definition set_inproc p v := mkP (st p) (tasks p) (acts p) (sent p) (recv p) (ncl p) (acc_s p) (acc_r p) (last_s p) (last_r p) (cbs p) (infl p) v.

(* ---- the tree: topology_nb_children / _child / _parent / _is_root ---- *)
Definition children (N i : nat) : list nat :=
  if (2*i+2 <? N)%nat then [2*i+1; 2*i+2]%nat
  else if (2*i+1 <? N)%nat then [2*i+1]%nat else [].
Definition parent (i : nat) : nat := ((i - 1) / 2)%nat.
Definition nch (N i : nat) : Z := Z.of_nat (length (children N i)).

Definition idle0 (p : proc) : bool := (tasks p =? 0) && (acts p =? 0).
Definition is_iwc (p : proc) : bool := match st p with IWC => true | _ => false end.

(* parsec_termdet_fourcounter_send_up_messages; returns the messages given to send_am, in order *)
Definition send_up (N i : nat) (p : proc) : proc * list pkt :=
  let s' := acc_s p + sent p in
  let r' := acc_r p + recv p in
  let p1 := set_ncl (set_acc p s' r') (nch N i) in
  match i with
  | O =>
      let res := if nch N i =? 0 then true
                 else (last_s p =? s') && (last_r p =? r') && (s' =? r') in
      let outs := map (fun c => (i, c, DOWN res)) (children N i) in
      let p2 := set_last p1 s' r' in
      if res then (set_cbs (set_st p2 TERM) (cbs p2 + 1), outs)
      else (set_acc p2 0 0, outs)
  | S _ => (set_st p1 IWP, [(i, parent i, UP s' r')])
  end.

(* parsec_termdet_fourcounter_check_state_message_received *)
Definition check_recv (N i : nat) (p : proc) : proc * list pkt :=
  if idle0 p && is_iwc p && (ncl p =? 0) then send_up N i p else (p, []).

(* parsec_termdet_fourcounter_check_state_workload_changed *)
Definition wl_changed (N i : nat) (p : proc) : proc * list pkt :=
  if idle0 p then
    match st p with
    | BWP => (set_st p IWP, [])
    | BWC => let p1 := set_st p IWC in
             if ncl p1 =? 0 then send_up N i p1 else (p1, [])
    | _ => (p, [])
    end
  else
    match st p with
    | IWC => (set_st p BWC, [])
    | IWP => (set_st p BWP, [])
    | _ => (p, [])
    end.

(* parsec_termdet_fourcounter_msg_up *)
Definition msg_up (N i : nat) (p : proc) (s r : Z) : proc * list pkt :=
  check_recv N i (set_ncl (set_acc p (acc_s p + s) (acc_r p + r)) (ncl p - 1)).

(* parsec_termdet_fourcounter_msg_down *)
Definition msg_down (N i : nat) (p : proc) (b : bool) : proc * list pkt :=
  let fw := map (fun c => (i, c, DOWN b)) (children N i) in
  if b then (set_cbs (set_st p TERM) (cbs p + 1), fw)
  else
    let p1 := set_acc p 0 0 in
    match st p1 with
    | IWP => let '(p2, o) := check_recv N i (set_st p1 IWC) in (p2, fw ++ o)
    | _ => (set_st p1 BWC, fw)
    end.

(* parsec_termdet_fourcounter_msg_dispatch_taskpool *)
Definition dispatch_tp (N i : nat) (p : proc) (m : cmsg) : proc * list pkt :=
  match m with UP s r => msg_up N i p s r | DOWN b => msg_down N i p b end.

(* the loop of parsec_termdet_fourcounter_taskpool_ready over the delayed list:
   returns the monitor, the entries that stay in the list, the messages sent *)
Fixpoint ready_loop (N i : nat) (p : proc) (q : list pkt) : proc * list pkt * list pkt :=
  match q with
  | [] => (p, [], [])
  | (s, d, m) :: q' =>
      if (d =? i)%nat then
        let '(p1, o1) := dispatch_tp N i p m in
        let '(p2, k, o2) := ready_loop N i p1 q' in (p2, k, o1 ++ o2)
      else
        let '(p2, k, o2) := ready_loop N i p q' in (p2, (s, d, m) :: k, o2)
  end.

(* taskpool_addto_nb_tasks / taskpool_addto_runtime_actions *)
Definition addto_tasks (N i : nat) (p : proc) (v : Z) : proc * list pkt :=
  if v =? 0 then (p, []) else
  let old := tasks p in
  let p1 := set_tasks p (old + v) in
  if (old =? 0) || (old + v =? 0) then wl_changed N i p1 else (p1, []).
Definition addto_acts (N i : nat) (p : proc) (v : Z) : proc * list pkt :=
  if v =? 0 then (p, []) else
  let old := acts p in
  let p1 := set_acts p (old + v) in
  if (old =? 0) || (old + v =? 0) then wl_changed N i p1 else (p1, []).
(* taskpool_set_nb_tasks / taskpool_set_runtime_actions *)
Definition setto_tasks (N i : nat) (p : proc) (v : Z) : proc * list pkt :=
  if tasks p =? v then (p, []) else wl_changed N i (set_tasks p v).
Definition setto_acts (N i : nat) (p : proc) (v : Z) : proc * list pkt :=
  if acts p =? v then (p, []) else wl_changed N i (set_acts p v).

(* ---- the system ---- *)
Record cfg := mkC { procs : list proc; net : list pkt; dlyq : list pkt }.
Definition init (N : nat) : cfg := mkC (repeat p0 N) [] [].
Definition P (c : cfg) (i : nat) : proc := nth i (procs c) p0.

Definition lset {A} (l : list A) (t : nat) (p : A) : list A := firstn t l ++ p :: skipn (S t) l.

Inductive action :=
| AReady (i : nat)                 (* taskpool_ready *)
| ATasks (i : nat) (v : Z)         (* taskpool_addto_nb_tasks(v) *)
| AActs (i : nat) (v : Z)          (* taskpool_addto_runtime_actions(v) *)
| ASetTasks (i : nat) (v : Z)      (* taskpool_set_nb_tasks(v) *)
| ASetActs (i : nat) (v : Z)       (* taskpool_set_runtime_actions(v) *)
| ASend (i j : nat)                (* outgoing_message_start/_pack at i, message to j enters the network *)
| ARecvStart (i : nat)             (* a message in flight reaches i: incoming_message_start *)
| ARecvEnd (i : nat)               (* incoming_message_end *)
| ADeliver (i j : nat).            (* head of the control channel i -> j handed to msg_dispatch at j *)

(* first message of channel (i, j), and the network without it *)
Fixpoint take_first (i j : nat) (l : list pkt) : option (cmsg * list pkt) :=
  match l with
  | [] => None
  | (s, d, m) :: r =>
      if (s =? i)%nat && (d =? j)%nat then Some (m, r)
      else match take_first i j r with
           | Some (m', r') => Some (m', (s, d, m) :: r')
           | None => None
           end
  end.

(* the discipline of the environment (termdet.h): the workload of a taskpool
   changes only while it is not yet ready, or busy, or while an application
   message is being received (an idle process gets new work only from a
   message), and never below zero; application messages are sent by busy
   processes *)
Definition busy_or_nr (p : proc) : bool := match st p with NR | BWC | BWP => true | _ => false end.
Definition may_load (p : proc) : bool := busy_or_nr p || (0 <? inproc p).
Definition is_busy (p : proc) : bool := match st p with BWC | BWP => true | _ => false end.
Definition can_recv (p : proc) : bool := match st p with BWC | BWP | IWC | IWP => true | _ => false end.

Definition local (c : cfg) (i : nat) (r : proc * list pkt) : cfg :=
  mkC (lset (procs c) i (fst r)) (net c ++ snd r) (dlyq c).

(* one step; a choice that is not enabled leaves the configuration unchanged *)
Definition step (c : cfg) (a : action) : cfg :=
  let N := length (procs c) in
  match a with
  | AReady i =>
      if (i <? N)%nat && (match st (P c i) with NR => true | _ => false end) then
        let p1 := set_st (set_ncl (P c i) (nch N i)) BWC in
        let '(p2, k, o) := ready_loop N i p1 (dlyq c) in
        mkC (lset (procs c) i p2) (net c ++ o) k
      else c
  | ATasks i v =>
      if (i <? N)%nat && may_load (P c i) && (0 <=? tasks (P c i) + v) then local c i (addto_tasks N i (P c i) v) else c
  | AActs i v =>
      if (i <? N)%nat && may_load (P c i) && (0 <=? acts (P c i) + v) then local c i (addto_acts N i (P c i) v) else c
  | ASetTasks i v =>
      if (i <? N)%nat && may_load (P c i) && (0 <=? v) then local c i (setto_tasks N i (P c i) v) else c
  | ASetActs i v =>
      if (i <? N)%nat && may_load (P c i) && (0 <=? v) then local c i (setto_acts N i (P c i) v) else c
  | ASend i j =>
      if (i <? N)%nat && (j <? N)%nat && negb (i =? j)%nat && is_busy (P c i) then
        let c1 := local c i (set_sent (P c i) (sent (P c i) + 1), []) in
        local c1 j (set_infl (P c1 j) (infl (P c1 j) + 1), [])
      else c
  | ARecvStart i =>
      if (i <? N)%nat && (0 <? infl (P c i)) && can_recv (P c i) then
        let p := P c i in
        let p1 := set_inproc (set_infl p (infl p - 1)) (inproc p + 1) in
        let p2 := match st p1 with IWC => set_st p1 BWC | IWP => set_st p1 BWP | _ => p1 end in
        local c i (p2, [])
      else c
  | ARecvEnd i =>
      if (i <? N)%nat && (0 <? inproc (P c i)) then
        let p := P c i in
        local c i (set_inproc (set_recv p (recv p + 1)) (inproc p - 1), [])
      else c
  | ADeliver i j =>
      if (j <? N)%nat then
        match take_first i j (net c) with
        | None => c
        | Some (m, rest) =>
            match st (P c j) with
            | NR => mkC (procs c) rest (dlyq c ++ [(i, j, m)])
            | _ => let r := dispatch_tp N j (P c j) m in
                   mkC (lset (procs c) j (fst r)) (rest ++ snd r) (dlyq c)
            end
        end
      else c
  end.

Definition run (c : cfg) (sched : list action) : cfg := fold_left step sched c.
Definition reach (N : nat) (c : cfg) : Prop := exists sched, c = run (init N) sched.

(* ---- observables ---- *)
Fixpoint sumf (f : proc -> Z) (l : list proc) : Z :=
  match l with [] => 0 | p :: r => f p + sumf f r end.
Definition total_sent c := sumf sent (procs c).
Definition total_recv c := sumf recv (procs c).
Definition total_flight c := sumf infl (procs c) + sumf inproc (procs c).
Definition loaded (p : proc) : Z := if idle0 p then 0 else 1.

Definition is_term (p : proc) : bool := match st p with TERM => true | _ => false end.
(* the process neither works nor waits to be declared ready *)
Definition quiet_p (p : proc) : Prop :=
  (st p = IWC \/ st p = IWP \/ st p = TERM) /\ tasks p = 0 /\ acts p = 0 /\ infl p = 0 /\ inproc p = 0.

(* ---- the deterministic epilogue used by the differential runs: every
   process finishes what it has, then the control channels are drained ---- *)
Definition steps (c : cfg) (l : list action) : cfg := fold_left step l c.
Definition settle1 (c : cfg) (i : nat) : cfg :=
  let c1 := step c (AReady i) in
  let k := Z.to_nat (infl (P c1 i)) in
  let c2 := steps c1 (concat (repeat [ARecvStart i; ARecvEnd i] k)) in
  let c3 := steps c2 (repeat (ARecvEnd i) (Z.to_nat (inproc (P c2 i)))) in
  let c4 := steps c3 [ASetTasks i 0; ASetActs i 0] in
  if is_busy (P c4 i) then steps c4 [AActs i 1; AActs i (-1)] else c4.
Fixpoint drain (fuel : nat) (c : cfg) : cfg :=
  match fuel with
  | O => c
  | S f => match net c with
           | [] => c
           | (s, d, _) :: _ => drain f (step c (ADeliver s d))
           end
  end.
Definition finish_round (c : cfg) : cfg :=
  let N := length (procs c) in
  drain (16 * N + 16) (fold_left settle1 (seq 0 N) c).
Definition finish (c : cfg) : cfg := finish_round (finish_round c).
