(* Counting lemmas for the arena / mempool invariants: occurrences of a block id in
   the blocks of all threads, sums over threads, and how both change when one
   thread's entry is replaced (ListX.upd). *)
From PV Require Import Base.Tac Base.ListX Arena.ArenaDefs.
Local Open Scope Z_scope.

Definition occ (b : nat) (l : list nat) : Z := Z.of_nat (count_occ Nat.eq_dec l b).

Lemma occ_nil b : occ b [] = 0. Proof. reflexivity. Qed.
Lemma occ_app b l1 l2 : occ b (l1 ++ l2) = occ b l1 + occ b l2.
Proof. unfold occ. rewrite count_occ_app. lia. Qed.
Lemma occ_cons b x l : occ b (x :: l) = occ b [x] + occ b l.
Proof. change (x :: l) with ([x] ++ l). apply occ_app. Qed.
Lemma occ_nonneg b l : 0 <= occ b l. Proof. unfold occ; lia. Qed.
Lemma occ_single b x : occ b [x] = if Nat.eqb x b then 1 else 0.
Proof. unfold occ. cbn [count_occ]. destruct (Nat.eq_dec x b) as [e|n].
  - subst. rewrite Nat.eqb_refl. reflexivity.
  - apply Nat.eqb_neq in n. rewrite n. reflexivity. Qed.
Lemma occ_single_same b : occ b [b] = 1.
Proof. rewrite occ_single, Nat.eqb_refl. reflexivity. Qed.
Lemma occ_single_le b x : 0 <= occ b [x] <= 1.
Proof. rewrite occ_single. destruct (Nat.eqb x b); lia. Qed.
Lemma occ_zero_iff b l : occ b l = 0 <-> ~ In b l.
Proof. unfold occ. rewrite (count_occ_not_In Nat.eq_dec). lia. Qed.
Lemma occ_pos_iff b l : 1 <= occ b l <-> In b l.
Proof. unfold occ. rewrite (count_occ_In Nat.eq_dec). lia. Qed.
Lemma NoDup_occ l : NoDup l <-> (forall b, occ b l <= 1).
Proof. rewrite (NoDup_count_occ Nat.eq_dec). unfold occ. split; intros H b; specialize (H b); lia. Qed.

Lemma flatT_app {A B} (f : A -> list B) l1 l2 : flatT f (l1 ++ l2) = flatT f l1 ++ flatT f l2.
Proof. unfold flatT. rewrite map_app, concat_app. reflexivity. Qed.
Lemma flatT_cons {A B} (f : A -> list B) x l : flatT f (x :: l) = f x ++ flatT f l.
Proof. reflexivity. Qed.
Lemma concat_flatT {B} (l : list (list B)) : concat l = flatT (fun x => x) l.
Proof. unfold flatT. rewrite map_id. reflexivity. Qed.

Lemma occ_flat_upd {A} (f : A -> list nat) l t p q b : nth_error l t = Some p ->
  occ b (flatT f (upd l t q)) = occ b (flatT f l) - occ b (f p) + occ b (f q).
Proof.
  intros H. unfold upd. rewrite (split_nth l t p H) at 3.
  rewrite !flatT_app, !flatT_cons, !occ_app. lia.
Qed.
Lemma occ_flat_ge {A} (f : A -> list nat) l t p b : nth_error l t = Some p ->
  occ b (f p) <= occ b (flatT f l).
Proof.
  intros H. rewrite (split_nth l t p H), flatT_app, flatT_cons, !occ_app.
  pose proof (occ_nonneg b (flatT f (firstn t l))). pose proof (occ_nonneg b (flatT f (skipn (S t) l))). lia.
Qed.
Lemma in_flatT {A B} (f : A -> list B) l t p x : nth_error l t = Some p -> In x (f p) -> In x (flatT f l).
Proof.
  intros H Hx. rewrite (split_nth l t p H), flatT_app, flatT_cons. apply in_or_app. right. apply in_or_app. now left.
Qed.
Lemma flatT_map_nil {A B C} (f : B -> list C) (g : A -> B) l : (forall x, f (g x) = []) -> flatT f (map g l) = [].
Proof. intros H. induction l as [|x l IH]; [reflexivity|]. cbn [map]. rewrite flatT_cons, H, IH. reflexivity. Qed.

(* sums over threads *)
Lemma sumZ_app l1 l2 : sumZ (l1 ++ l2) = sumZ l1 + sumZ l2.
Proof. induction l1 as [|x l IH]; cbn [sumZ app]; lia. Qed.
Lemma sumT_upd {A} (g : A -> Z) l t p q : nth_error l t = Some p ->
  sumT g (upd l t q) = sumT g l - g p + g q.
Proof.
  intros H. unfold sumT, upd. rewrite (split_nth l t p H) at 3.
  rewrite !map_app, !sumZ_app. cbn [map sumZ]. rewrite ?sumZ_app. cbn [sumZ]. lia.
Qed.
Lemma sumT_nonneg {A} (g : A -> Z) l : (forall x, 0 <= g x) -> 0 <= sumT g l.
Proof. intros H. unfold sumT. induction l as [|x l IH]; cbn [map sumZ]; [lia|]. specialize (H x). lia. Qed.
Lemma sumT_ge_nth {A} (g : A -> Z) l t p : (forall x, 0 <= g x) -> nth_error l t = Some p -> g p <= sumT g l.
Proof.
  intros Hg H. unfold sumT. rewrite (split_nth l t p H), map_app, sumZ_app. cbn [map sumZ].
  pose proof (sumT_nonneg g (firstn t l) Hg). pose proof (sumT_nonneg g (skipn (S t) l) Hg). unfold sumT in *. lia.
Qed.
Lemma sumT_map_zero {A B} (g : B -> Z) (h : A -> B) l : (forall x, g (h x) = 0) -> sumT g (map h l) = 0.
Proof. intros H. unfold sumT. induction l as [|x l IH]; [reflexivity|]. cbn [map sumZ]. rewrite H, IH. lia. Qed.
Lemma cnt_map_false {A B} (f : B -> bool) (h : A -> B) l : (forall x, f (h x) = false) -> cnt f (map h l) = 0.
Proof. intros H. induction l as [|x l IH]; [reflexivity|]. cbn [map]. rewrite cnt_cons, H, IH. lia. Qed.
Lemma sumZ_upd l t p q : nth_error l t = Some p -> sumZ (upd l t q) = sumZ l - p + q.
Proof. intros H. pose proof (sumT_upd (fun x => x) l t p q H) as E. unfold sumT in E. rewrite !map_id in E. exact E. Qed.

Lemma firstn_In {A} (l : list A) k x : In x (firstn k l) -> In x l.
Proof. intros H. rewrite <- (firstn_skipn k l). apply in_or_app. now left. Qed.
Lemma skipn_In {A} (l : list A) k x : In x (skipn k l) -> In x l.
Proof. intros H. rewrite <- (firstn_skipn k l). apply in_or_app. now right. Qed.

(* removing the k-th held block *)
Lemma remove_nth_split {A} (l : list A) k x : nth_error l k = Some x ->
  l = firstn k l ++ x :: skipn (S k) l.
Proof. apply split_nth. Qed.
Lemma occ_remove_nth l k x b : nth_error l k = Some x ->
  occ b (remove_nth k l) = occ b l - occ b [x].
Proof.
  intros H. unfold remove_nth. rewrite (split_nth l k x H) at 3.
  rewrite !occ_app, (occ_cons b x). lia.
Qed.
Lemma map_remove_nth {A B} (f : A -> B) k l : map f (remove_nth k l) = remove_nth k (map f l).
Proof. unfold remove_nth. rewrite map_app, firstn_map, skipn_map. reflexivity. Qed.
Lemma sumZ_remove_nth l k x : nth_error l k = Some x -> sumZ (remove_nth k l) = sumZ l - x.
Proof.
  intros H. unfold remove_nth. rewrite (split_nth l k x H) at 3.
  rewrite !sumZ_app. cbn [sumZ]. lia.
Qed.
Lemma in_remove_nth {A} (l : list A) k x : In x (remove_nth k l) -> In x l.
Proof.
  unfold remove_nth. intros H. apply in_app_or in H. destruct H as [H|H].
  - eapply firstn_In; eauto. - eapply skipn_In; eauto.
Qed.
Lemma nth_error_In' {A} (l : list A) k x : nth_error l k = Some x -> In x l.
Proof. apply nth_error_In. Qed.

(* Forall and upd *)
Lemma Forall_upd {A} (P : A -> Prop) l t q : Forall P l -> P q -> Forall P (upd l t q).
Proof.
  intros H Hq. unfold upd. apply Forall_app. split.
  - apply Forall_forall. intros x Hx. rewrite Forall_forall in H. apply H. eapply firstn_In; eauto.
  - constructor; [assumption|]. apply Forall_forall. intros x Hx. rewrite Forall_forall in H. apply H. eapply skipn_In; eauto.
Qed.
Lemma Forall_nth {A} (P : A -> Prop) l t p : Forall P l -> nth_error l t = Some p -> P p.
Proof. intros H E. rewrite Forall_forall in H. apply H. eapply nth_error_In; eauto. Qed.
Lemma nth_error_snoc_old {A} (l : list A) x b y : nth_error l b = Some y -> nth_error (l ++ [x]) b = Some y.
Proof. intros H. rewrite nth_error_app1; [assumption|]. apply nth_error_Some. congruence. Qed.
Lemma nth_error_snoc_new {A} (l : list A) x : nth_error (l ++ [x]) (length l) = Some x.
Proof. rewrite nth_error_app2 by lia. rewrite Nat.sub_diag. reflexivity. Qed.
