(* Executable atomic-step models of
     (a) the arena chunk cache of parsec/arena.c
           parsec_arena_construct_ex, parsec_arena_allocate_device_private,
           parsec_arena_get_chunk, parsec_arena_release_chunk
     (b) the thread memory pools of parsec/mempool.c / mempool.h
           parsec_thread_mempool_allocate(_when_empty), parsec_mempool_free,
           parsec_mempool_destruct
   NO proofs here.

   Granularity (T-sched): one model step = the code between two scheduling
   points.  Scheduling points are: every parsec_atomic_* read-modify-write
   (harness/interpose.h), every parsec_lifo_pop / parsec_lifo_push (the LIFO is
   an ATOMIC stack here: one step per operation; its linearizability is C30),
   and the boundary between two operations of a thread.  Plain reads (the test
   `arena->released < arena->max_released` of release_chunk, chunk->count, the
   owner pointer of a mempool element) belong to the segment that contains them.
   malloc is a source of fresh block ids: the id of a block is the sequence
   number of the allocator call that produced it. *)
From Coq Require Import ZArith List Bool.
From PV Require Import Base.ListX.
Import ListNotations.
Local Open Scope Z_scope.

(* ------------------------------------------------------------------------ *)
(* sizes and alignment (arena.h: PARSEC_ALIGN, PARSEC_ALIGN_PTR)             *)
Definition INT32_MAX : Z := 2147483647.
Definition HDR : Z := 72.     (* sizeof(parsec_arena_chunk_t); the harness prints the real value *)
Definition LI  : Z := 48.     (* sizeof(parsec_list_item_t) *)

(* PARSEC_ALIGN(x,a,t) = ((x)+((t)(a)-1)) & ~(((t)(a)-1)) *)
Definition align_up (x a : Z) : Z := Z.land (x + (a - 1)) (Z.lnot (a - 1)).
(* bytes asked from the allocator for a chunk of cnt elements *)
Definition chunk_size (es al : Z) (cnt : positive) : Z :=
  let s := align_up (es * Z.pos cnt + al + HDR) al in
  if (cnt =? 1)%positive then (if s <? LI then LI else s)   (* get_chunk: size < sizeof(list_item) *)
  else s.
(* chunk->data - (char* )chunk for a chunk at address base *)
Definition data_off (base al : Z) : Z := align_up (base + HDR) al - base.

Record aparams := { p_es : Z; p_al : Z; p_mu : Z; p_mr : Z }.
Definition limit (mem es : Z) : Z := if mem / es >? INT32_MAX then INT32_MAX else mem / es.
(* parsec_arena_construct_ex: None = PARSEC_ERR_BAD_PARAM *)
Definition arena_construct (es al maxalloc maxcached : Z) : option aparams :=
  if (al <=? 1) || negb (Z.land al (al - 1) =? 0) then None
  else if es =? 0 then None
  else Some {| p_es := es; p_al := al; p_mu := limit maxalloc es; p_mr := limit maxcached es |}.

(* ------------------------------------------------------------------------ *)
(* (a) arena chunk cache                                                     *)
Inductive op := OGet (cnt : positive) | ORel (k : nat) | OGive (k u : nat).
Inductive res := RGot (b : nat) (cnt : positive) | RNull | ROk | RSkip.
Inductive apc :=
  | AIdle | ADone
  | GPop                              (* before parsec_lifo_pop *)
  | GDecRel (b : nat)                 (* popped b; before fetch_dec(released) *)
  | GAdd (cnt : positive)             (* before fetch_inc/fetch_add(used) *)
  | GFail (cnt : positive)            (* allocation_failed: before fetch_dec/fetch_sub(used) *)
  | RInc (b : nat)                    (* test released < max_released passed; before fetch_inc(released) *)
  | RPush (b : nat)                   (* before parsec_lifo_push *)
  | RUndo (b : nat)                   (* repaired code only: reservation failed; before fetch_dec(released) *)
  | RSub (b : nat) (cnt : positive).  (* before fetch_sub(used), then data_free *)

Notation blk := (nat * positive)%type (only parsing).     (* block id, chunk->count *)
Record thr := { t_ops : list op; t_pc : apc; t_held : list blk; t_log : list res (* newest first *) }.
Record acfg := { a_used : Z; a_rel : Z; a_lifo : list nat;
                 a_allocs : list Z;           (* size passed to each allocator call, in order *)
                 a_freed : list nat;          (* blocks given to data_free, newest first *)
                 a_thr : list thr }.

Definition remove_nth {A} (k : nat) (l : list A) : list A := firstn k l ++ skipn (S k) l.
Definition rest_pc (ops : list op) : apc := match ops with [] => ADone | _ => AIdle end.
Definition goto (th : thr) (pc : apc) : thr :=
  {| t_ops := t_ops th; t_pc := pc; t_held := t_held th; t_log := t_log th |}.
Definition finish (th : thr) (held : list blk) (r : res) : thr :=
  {| t_ops := t_ops th; t_pc := rest_pc (t_ops th); t_held := held; t_log := r :: t_log th |}.
Definition with_ops (th : thr) (ops : list op) (held : list blk) : thr :=
  {| t_ops := ops; t_pc := t_pc th; t_held := held; t_log := t_log th |}.
Definition set_thr (c : acfg) (t : nat) (th : thr) : acfg :=
  {| a_used := a_used c; a_rel := a_rel c; a_lifo := a_lifo c; a_allocs := a_allocs c;
     a_freed := a_freed c; a_thr := upd (a_thr c) t th |}.
Definition set_used (c : acfg) (u : Z) : acfg :=
  {| a_used := u; a_rel := a_rel c; a_lifo := a_lifo c; a_allocs := a_allocs c;
     a_freed := a_freed c; a_thr := a_thr c |}.
Definition set_rel (c : acfg) (r : Z) : acfg :=
  {| a_used := a_used c; a_rel := r; a_lifo := a_lifo c; a_allocs := a_allocs c;
     a_freed := a_freed c; a_thr := a_thr c |}.
Definition set_lifo (c : acfg) (l : list nat) : acfg :=
  {| a_used := a_used c; a_rel := a_rel c; a_lifo := l; a_allocs := a_allocs c;
     a_freed := a_freed c; a_thr := a_thr c |}.
Definition add_alloc (c : acfg) (sz : Z) : acfg :=
  {| a_used := a_used c; a_rel := a_rel c; a_lifo := a_lifo c; a_allocs := a_allocs c ++ [sz];
     a_freed := a_freed c; a_thr := a_thr c |}.
Definition add_freed (c : acfg) (b : nat) : acfg :=
  {| a_used := a_used c; a_rel := a_rel c; a_lifo := a_lifo c; a_allocs := a_allocs c;
     a_freed := b :: a_freed c; a_thr := a_thr c |}.

Definition mem_nat (n : nat) (l : list nat) : bool := existsb (Nat.eqb n) l.

(* the allocator call of get_chunk / allocate_device_private and what follows it.
   fails = sequence numbers of the allocator calls that return NULL. *)
Definition alloc_path (P : aparams) (fails : list nat) (c : acfg) (t : nat) (th : thr) (cnt : positive) : acfg :=
  let n := length (a_allocs c) in
  let c1 := add_alloc c (chunk_size (p_es P) (p_al P) cnt) in
  if mem_nat n fails
  then (if p_mu P =? INT32_MAX then set_thr c1 t (finish th (t_held th) RNull)
        else set_thr c1 t (goto th (GFail cnt)))
  else set_thr c1 t (finish th (t_held th ++ [(n, cnt)]) (RGot n cnt)).

(* the free path of release_chunk *)
Definition free_path (P : aparams) (c : acfg) (t : nat) (th1 : thr) (b : nat) (cnt : positive) : acfg :=
  if negb (p_mu P =? 0) && negb (p_mu P =? INT32_MAX)
  then set_thr c t (goto th1 (RSub b cnt))
  else set_thr (add_freed c b) t (finish th1 (t_held th1) ROk).

(* fx = false: release_chunk as it is in the repository (plain read of `released`, then a separate increment).
   fx = true : release_chunk with notes/findings/C27-cache-limit-race.patch applied (the increment IS the test:
               fetch_inc(released) < max_released, undone by a fetch_dec when it fails). *)
Definition astep (fx : bool) (P : aparams) (fails : list nat) (c : acfg) (t : nat) : acfg :=
  match nth_error (a_thr c) t with
  | None => c
  | Some th =>
    match t_pc th with
    | ADone => c
    | AIdle =>
      match t_ops th with
      | [] => set_thr c t (goto th ADone)
      | OGet cnt :: r =>
          let th1 := with_ops th r (t_held th) in
          if (cnt =? 1)%positive then set_thr c t (goto th1 GPop)          (* count == 1: get_chunk *)
          else if p_mu P =? INT32_MAX then alloc_path P fails c t th1 cnt
          else set_thr c t (goto th1 (GAdd cnt))
      | ORel k :: r =>
          match nth_error (t_held th) k with
          | None => set_thr c t (finish (with_ops th r (t_held th)) (t_held th) RSkip)
          | Some (b, cnt) =>
              let th1 := with_ops th r (remove_nth k (t_held th)) in
              if fx
              then (* if( (chunk->count == 1) && (arena->max_released > 0) ) *)
                   (if (cnt =? 1)%positive && (0 <? p_mr P)
                    then (if p_mr P =? INT32_MAX then set_thr c t (goto th1 (RPush b))
                          else set_thr c t (goto th1 (RInc b)))
                    else free_path P c t th1 b cnt)
              else (* if( (chunk->count == 1) && (arena->released < arena->max_released) ) : plain read *)
                   (if (cnt =? 1)%positive && (a_rel c <? p_mr P)
                    then (if p_mr P =? INT32_MAX then set_thr c t (goto th1 (RPush b))
                          else set_thr c t (goto th1 (RInc b)))
                    else free_path P c t th1 b cnt)
          end
      | OGive k u :: r =>
          match nth_error (t_held th) k, nth_error (a_thr c) u with
          | Some e, Some _ =>
              let th1 := finish (with_ops th r (remove_nth k (t_held th))) (remove_nth k (t_held th)) ROk in
              let c1 := set_thr c t th1 in
              match nth_error (a_thr c1) u with
              | Some tu => set_thr c1 u (with_ops tu (t_ops tu) (t_held tu ++ [e]))
              | None => c1
              end
          | _, _ => set_thr c t (finish (with_ops th r (t_held th)) (t_held th) RSkip)
          end
      end
    | GPop =>
      match a_lifo c with
      | b :: l =>
          if p_mr P =? INT32_MAX
          then set_thr (set_lifo c l) t (finish th (t_held th ++ [(b, 1%positive)]) (RGot b 1))
          else set_thr (set_lifo c l) t (goto th (GDecRel b))
      | [] =>
          if p_mu P =? INT32_MAX then alloc_path P fails c t th 1
          else set_thr c t (goto th (GAdd 1))
      end
    | GDecRel b =>
        set_thr (set_rel c (a_rel c - 1)) t (finish th (t_held th ++ [(b, 1%positive)]) (RGot b 1))
    | GAdd cnt =>
        let u := a_used c + Z.pos cnt in
        if u >? p_mu P then set_thr (set_used c u) t (goto th (GFail cnt))
        else alloc_path P fails (set_used c u) t th cnt
    | GFail cnt =>
        set_thr (set_used c (a_used c - Z.pos cnt)) t (finish th (t_held th) RNull)
    | RInc b =>
        if fx && negb (a_rel c <? p_mr P)      (* repaired code: fetch_inc(released) < max_released failed *)
        then set_thr (set_rel c (a_rel c + 1)) t (goto th (RUndo b))
        else set_thr (set_rel c (a_rel c + 1)) t (goto th (RPush b))
    | RUndo b => free_path P (set_rel c (a_rel c - 1)) t th b 1
    | RPush b => set_thr (set_lifo c (b :: a_lifo c)) t (finish th (t_held th) ROk)
    | RSub b cnt =>
        set_thr (add_freed (set_used c (a_used c - Z.pos cnt)) b) t (finish th (t_held th) ROk)
    end
  end.

Definition arun_gen (fx : bool) (P : aparams) (fails : list nat) (c : acfg) (sched : list nat) : acfg :=
  fold_left (astep fx P fails) sched c.
(* the code as it is *)
Definition arun := arun_gen false.
Definition mk_thr (ops : list op) : thr := {| t_ops := ops; t_pc := AIdle; t_held := []; t_log := [] |}.
Definition ainit (progs : list (list op)) : acfg :=
  {| a_used := 0; a_rel := 0; a_lifo := []; a_allocs := []; a_freed := []; a_thr := map mk_thr progs |}.
Definition a_is_done (th : thr) : bool := match t_pc th with ADone => true | _ => false end.

(* blocks a thread has in hand: the one its program counter carries, and the ones it was handed *)
Definition pc_blocks (p : apc) : list nat :=
  match p with GDecRel b | RInc b | RPush b | RUndo b | RSub b _ => [b] | _ => [] end.
Definition thr_blocks (th : thr) : list nat := pc_blocks (t_pc th) ++ map fst (t_held th).
Definition flatT {A B} (f : A -> list B) (l : list A) : list B := concat (map f l).
(* every block that is allocated and not freed: in hand, or cached *)
Definition all_blocks (c : acfg) : list nat := flatT thr_blocks (a_thr c) ++ a_lifo c.
Definition held_ids (c : acfg) : list nat := flatT (fun th => map fst (t_held th)) (a_thr c).

Fixpoint sumZ (l : list Z) : Z := match l with [] => 0 | x :: r => x + sumZ r end.
Definition sumT {A} (g : A -> Z) (l : list A) : Z := sumZ (map g l).
Definition pc_elems (p : apc) : Z :=
  match p with GDecRel _ | RInc _ | RPush _ | RUndo _ => 1 | RSub _ cnt => Z.pos cnt | _ => 0 end.
Definition thr_elems (th : thr) : Z := pc_elems (t_pc th) + sumZ (map (fun e => Z.pos (snd e)) (t_held th)).
Definition pc_pending (p : apc) : Z := match p with GFail cnt => Z.pos cnt | _ => 0 end.
Definition thr_pending (th : thr) : Z := pc_pending (t_pc th).
(* elements currently allocated from the arena (in hand or cached) *)
Definition a_live (c : acfg) : Z := sumT thr_elems (a_thr c) + Z.of_nat (length (a_lifo c)).
Definition a_pending (c : acfg) : Z := sumT thr_pending (a_thr c).
Definition is_rinc (th : thr) : bool := match t_pc th with RInc _ => true | _ => false end.
Definition is_relwin (th : thr) : bool := match t_pc th with RPush _ | GDecRel _ | RUndo _ => true | _ => false end.
Definition is_rundo (th : thr) : bool := match t_pc th with RUndo _ => true | _ => false end.
Definition is_gfail (th : thr) : bool := match t_pc th with GFail _ => true | _ => false end.

(* ------------------------------------------------------------------------ *)
(* (b) thread memory pools                                                   *)
Inductive mop := MGet | MRel (k : nat) | MGive (k u : nat).
Inductive mres := MGot (b : nat) | MOk | MSkip.
Inductive mpc := MIdle | MDone
  | MPop                 (* before parsec_lifo_pop(&thread_mempool->mempool) *)
  | MPush (b : nat).     (* owner read; before parsec_lifo_push(&owner->mempool) *)
Record mthr := { m_ops : list mop; m_pc : mpc; m_held : list nat; m_log : list mres }.
Record mcfg := { m_pools : list (list nat);   (* LIFO of each thread mempool, top first *)
                 m_nbelt : list Z;            (* thread_mempool->nb_elt *)
                 m_owner : list nat;          (* owner pool written in element i at its creation *)
                 m_thr : list mthr }.

Definition mrest (ops : list mop) : mpc := match ops with [] => MDone | _ => MIdle end.
Definition mgoto (th : mthr) (ops : list mop) (held : list nat) (pc : mpc) : mthr :=
  {| m_ops := ops; m_pc := pc; m_held := held; m_log := m_log th |}.
Definition mfinish (th : mthr) (ops : list mop) (held : list nat) (r : mres) : mthr :=
  {| m_ops := ops; m_pc := mrest ops; m_held := held; m_log := r :: m_log th |}.
Definition mset_thr (c : mcfg) (t : nat) (th : mthr) : mcfg :=
  {| m_pools := m_pools c; m_nbelt := m_nbelt c; m_owner := m_owner c; m_thr := upd (m_thr c) t th |}.
Definition mset_pool (c : mcfg) (p : nat) (l : list nat) : mcfg :=
  {| m_pools := upd (m_pools c) p l; m_nbelt := m_nbelt c; m_owner := m_owner c; m_thr := m_thr c |}.
Definition mnew_elt (c : mcfg) (p : nat) : mcfg :=
  {| m_pools := m_pools c;
     m_nbelt := match nth_error (m_nbelt c) p with Some n => upd (m_nbelt c) p (n + 1) | None => m_nbelt c end;
     m_owner := m_owner c ++ [p]; m_thr := m_thr c |}.

(* thread t allocates from thread_mempools[t] *)
Definition mstep (c : mcfg) (t : nat) : mcfg :=
  match nth_error (m_thr c) t with
  | None => c
  | Some th =>
    match m_pc th with
    | MDone => c
    | MIdle =>
      match m_ops th with
      | [] => mset_thr c t (mgoto th [] (m_held th) MDone)
      | MGet :: r => mset_thr c t (mgoto th r (m_held th) MPop)
      | MRel k :: r =>
          match nth_error (m_held th) k with
          | None => mset_thr c t (mfinish th r (m_held th) MSkip)
          | Some b => mset_thr c t (mgoto th r (remove_nth k (m_held th)) (MPush b))
          end
      | MGive k u :: r =>
          match nth_error (m_held th) k, nth_error (m_thr c) u with
          | Some e, Some _ =>
              let c1 := mset_thr c t (mfinish th r (remove_nth k (m_held th)) MOk) in
              match nth_error (m_thr c1) u with
              | Some tu => mset_thr c1 u (mgoto tu (m_ops tu) (m_held tu ++ [e]) (m_pc tu))
              | None => c1
              end
          | _, _ => mset_thr c t (mfinish th r (m_held th) MSkip)
          end
      end
    | MPop =>
      match nth_error (m_pools c) t with
      | Some (b :: l) => mset_thr (mset_pool c t l) t (mfinish th (m_ops th) (m_held th ++ [b]) (MGot b))
      | Some [] =>      (* parsec_thread_mempool_allocate_when_empty *)
          let b := length (m_owner c) in
          mset_thr (mnew_elt c t) t (mfinish th (m_ops th) (m_held th ++ [b]) (MGot b))
      | None => mset_thr c t (mfinish th (m_ops th) (m_held th) MSkip)
      end
    | MPush b =>
      match nth_error (m_owner c) b with
      | Some o =>
          match nth_error (m_pools c) o with
          | Some l => mset_thr (mset_pool c o (b :: l)) t (mfinish th (m_ops th) (m_held th) MOk)
          | None => mset_thr c t (mfinish th (m_ops th) (m_held th) MOk)
          end
      | None => mset_thr c t (mfinish th (m_ops th) (m_held th) MOk)     (* NULL owner: element dropped *)
      end
    end
  end.

Definition mrun (c : mcfg) (sched : list nat) : mcfg := fold_left mstep sched c.
Definition mk_mthr (ops : list mop) : mthr := {| m_ops := ops; m_pc := MIdle; m_held := []; m_log := [] |}.
Definition minit (progs : list (list mop)) : mcfg :=
  {| m_pools := map (fun _ => []) progs; m_nbelt := map (fun _ => 0) progs; m_owner := [];
     m_thr := map mk_mthr progs |}.
Definition m_is_done (th : mthr) : bool := match m_pc th with MDone => true | _ => false end.
Definition mpc_blocks (p : mpc) : list nat := match p with MPush b => [b] | _ => [] end.
Definition mthr_blocks (th : mthr) : list nat := mpc_blocks (m_pc th) ++ m_held th.
Definition m_all_blocks (c : mcfg) : list nat := flatT mthr_blocks (m_thr c) ++ concat (m_pools c).
Definition m_held_ids (c : mcfg) : list nat := flatT m_held (m_thr c).
(* parsec_mempool_destruct: usage counter *)
Definition m_usage (c : mcfg) : Z := sumZ (m_nbelt c).
(* mempool->elt_size after construct *)
Definition m_elt_size (sz : Z) : Z := if sz <? LI then LI else sz.
