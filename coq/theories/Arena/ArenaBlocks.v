(* Arena chunk cache: blocks in hand are pairwise distinct, allocated, not freed,
   not cached; and every block was allocated with the size its element count needs.
   For any number of threads, any op lists, any schedule. *)
From PV Require Import Base.Tac Base.ListX Arena.ArenaDefs Arena.ArenaBase.
Local Open Scope Z_scope.

(* case analysis of one step: one goal per path through astep *)
Ltac break_step := repeat match goal with
  | |- context[match ?x with _ => _ end] => destruct x eqn:?
  end.
Ltac cfg_simpl := cbn [a_used a_rel a_lifo a_allocs a_freed a_thr set_thr set_used set_rel set_lifo add_alloc add_freed
                       t_ops t_pc t_held t_log goto finish with_ops] in *.

(* what one step does to the multiset of live blocks *)
Inductive beffect (c c' : acfg) : Prop :=
  | BE_move : a_allocs c' = a_allocs c -> a_freed c' = a_freed c ->
      (forall b, occ b (all_blocks c') = occ b (all_blocks c)) -> beffect c c'
  | BE_alloc sz : a_allocs c' = a_allocs c ++ [sz] -> a_freed c' = a_freed c ->
      (forall b, occ b (all_blocks c') = occ b (all_blocks c) + occ b [length (a_allocs c)]) -> beffect c c'
  | BE_allocfail sz : a_allocs c' = a_allocs c ++ [sz] -> a_freed c' = a_freed c ->
      (forall b, occ b (all_blocks c') = occ b (all_blocks c)) -> beffect c c'
  | BE_free x : a_allocs c' = a_allocs c -> a_freed c' = x :: a_freed c -> 1 <= occ x (all_blocks c) ->
      (forall b, occ b (all_blocks c') = occ b (all_blocks c) - occ b [x]) -> beffect c c'.

Lemma pc_blocks_rest ops : pc_blocks (rest_pc ops) = [].
Proof. destruct ops; reflexivity. Qed.

Ltac occ_norm b :=
  unfold all_blocks; cfg_simpl; rewrite ?occ_app;
  repeat match goal with
    | H : nth_error ?l ?t = Some ?p |- context[occ b (flatT ?f (upd ?l ?t ?q))] =>
        rewrite (occ_flat_upd f l t p q b H)
    end;
  unfold thr_blocks; cfg_simpl; rewrite ?map_app, ?occ_app;
  repeat match goal with
    | H : nth_error (t_held ?th) ?k = Some ?e |- context[remove_nth ?k (t_held ?th)] =>
        rewrite (map_remove_nth fst k (t_held th)),
                (occ_remove_nth (map fst (t_held th)) k (fst e) b (map_nth_error fst k (t_held th) H))
    end;
  repeat match goal with H : t_pc _ = _ |- _ => rewrite H end;
  cbn [pc_blocks fst snd]; rewrite ?pc_blocks_rest;
  rewrite ?map_app, ?occ_app; cbn [map fst snd app];
  repeat match goal with H : a_lifo _ = _ |- _ => rewrite H end;
  repeat match goal with |- context[occ b (?x :: ?l)] =>
    lazymatch l with nil => fail | _ => rewrite (occ_cons b x l) end end;
  rewrite ?occ_nil.

Lemma upd_not_none {A} (l : list A) t u p pu q : nth_error l t = Some p -> nth_error l u = Some pu ->
  nth_error (upd l t q) u = None -> False.
Proof.
  intros Ht Hu Hn. apply nth_error_None in Hn. rewrite (len_upd _ _ _ _ Ht) in Hn.
  apply nth_error_None in Hn. congruence.
Qed.
Ltac give_absurd := exfalso; cfg_simpl;
  match goal with
  | Ht : nth_error ?l ?t = Some _, Hu : nth_error ?l ?u = Some _, Hn : nth_error (upd ?l ?t _) ?u = None |- _ =>
      exact (upd_not_none _ _ _ _ _ _ Ht Hu Hn)
  end.
Ltac in_blocks := apply occ_pos_iff; unfold all_blocks; apply in_or_app; left;
  eapply in_flatT; [eassumption|]; unfold thr_blocks; apply in_or_app;
  first [ left; match goal with H : t_pc _ = _ |- _ => rewrite H end; cbn [pc_blocks]; left; reflexivity
        | right; apply in_map_iff; eexists; split; [|eapply nth_error_In; eassumption]; reflexivity ].

Lemma astep_beffect fx P fails c t : beffect c (astep fx P fails c t).
Proof.
  unfold astep, alloc_path, free_path. break_step; try give_absurd;
    try (apply BE_move; [reflexivity | reflexivity | intros bb; try reflexivity; occ_norm bb; lia]).
  all: try (eapply BE_allocfail; [reflexivity | reflexivity | intros bb; occ_norm bb; lia]).
  all: try (eapply BE_alloc; [reflexivity | reflexivity | intros bb; occ_norm bb; lia]).
  all: try (eapply BE_free; [reflexivity | reflexivity | in_blocks | intros bb; occ_norm bb; lia]).
Qed.

(* ---- the block invariant -------------------------------------------------- *)
Definition BInv (c : acfg) : Prop := forall b,
  occ b (all_blocks c) <= 1 /\
  ((length (a_allocs c) <= b)%nat -> occ b (all_blocks c) = 0) /\
  (In b (a_freed c) -> occ b (all_blocks c) = 0 /\ (b < length (a_allocs c))%nat).

Lemma binv_step fx P fails c t : BInv c -> BInv (astep fx P fails c t).
Proof.
  intros H. unfold BInv in *. destruct (astep_beffect fx P fails c t) as [Ha Hf Ho | sz Ha Hf Ho | sz Ha Hf Ho | x Ha Hf Hx Ho];
    intros b; destruct (H b) as (H1 & H2 & H3); rewrite Ha, Hf, Ho.
  - auto.
  - rewrite app_length; cbn [length]. pose proof (occ_single_le b (length (a_allocs c))) as Hs.
    rewrite occ_single in *. destruct (Nat.eqb (length (a_allocs c)) b) eqn:E.
    + apply Nat.eqb_eq in E. subst b. specialize (H2 (le_n _)).
      split; [lia|]. split; [lia|]. intros Hin. destruct (H3 Hin). lia.
    + apply Nat.eqb_neq in E. split; [lia|]. split; [lia|]. intros Hin. destruct (H3 Hin). lia.
  - rewrite app_length; cbn [length]. split; [lia|]. split; [lia|]. intros Hin. destruct (H3 Hin). lia.
  - destruct (H x) as (Hx1 & Hx2 & Hx3).
    assert (Hxl : (x < length (a_allocs c))%nat).
    { destruct (Nat.lt_ge_cases x (length (a_allocs c))) as [|Hge]; [assumption|]. specialize (Hx2 Hge). lia. }
    rewrite occ_single. destruct (Nat.eqb x b) eqn:E.
    + apply Nat.eqb_eq in E. subst b. split; [lia|]. split; [lia|]. intros _. lia.
    + apply Nat.eqb_neq in E. split; [lia|]. split; [lia|].
      intros [Hin|Hin]; [congruence|]. destruct (H3 Hin). lia.
Qed.

Lemma all_blocks_init progs : all_blocks (ainit progs) = [].
Proof. unfold all_blocks, ainit; cbn [a_thr a_lifo]. rewrite flatT_map_nil; reflexivity. Qed.
Lemma binv_init progs : BInv (ainit progs).
Proof. intros b. rewrite all_blocks_init, occ_nil. cbn [ainit a_freed a_allocs]. split; [lia|]. split; [lia|]. intros []. Qed.
Lemma binv_run_gen fx P fails progs sched : BInv (arun_gen fx P fails (ainit progs) sched).
Proof. unfold arun_gen. apply fold_left_inv; [intros a b; apply binv_step | apply binv_init]. Qed.
Lemma binv_run P fails progs sched : BInv (arun P fails (ainit progs) sched).
Proof. apply binv_run_gen. Qed.

Lemma occ_flat_two {A} (f : A -> list nat) l t u p q b : t <> u ->
  nth_error l t = Some p -> nth_error l u = Some q -> occ b (f p) + occ b (f q) <= occ b (flatT f l).
Proof.
  revert t u. induction l as [|x l IH]; intros t u Hne Ht Hu; [destruct t; discriminate|].
  rewrite flatT_cons, occ_app. destruct t as [|t], u as [|u]; try congruence; cbn [nth_error] in *.
  - inv Ht. pose proof (occ_flat_ge f l u q b Hu). lia.
  - inv Hu. pose proof (occ_flat_ge f l t p b Ht). lia.
  - assert (t <> u) by congruence. pose proof (IH t u H Ht Hu). pose proof (occ_nonneg b (f x)). lia.
Qed.

(* blocks in hand (held, or carried by an operation in progress) and cached blocks are pairwise distinct *)
Theorem arena_nodup P fails progs sched : NoDup (all_blocks (arun P fails (ainit progs) sched)).
Proof. apply NoDup_occ. intros b. apply (binv_run P fails progs sched b). Qed.

(* no block is in the hands of two threads, none is twice in the hands of one, none is also in the cache *)
Theorem arena_never_twice P fails progs sched :
  let c := arun P fails (ainit progs) sched in
  (forall t u th tu b, nth_error (a_thr c) t = Some th -> nth_error (a_thr c) u = Some tu ->
     In b (thr_blocks th) -> In b (thr_blocks tu) -> t = u) /\
  (forall t th, nth_error (a_thr c) t = Some th -> NoDup (thr_blocks th) /\
     forall b, In b (thr_blocks th) -> ~ In b (a_lifo c)) /\
  NoDup (a_lifo c).
Proof.
  intros c. pose proof (binv_run P fails progs sched) as H. fold c in H. repeat split.
  - intros t u th tu b Ht Hu Hb Hb'. destruct (Nat.eq_dec t u) as [|Hne]; [assumption|exfalso].
    destruct (H b) as (H1 & _). unfold all_blocks in H1. rewrite occ_app in H1.
    pose proof (occ_flat_two thr_blocks _ _ _ _ _ b Hne Ht Hu).
    apply occ_pos_iff in Hb, Hb'. pose proof (occ_nonneg b (a_lifo c)). lia.
  - apply NoDup_occ. intros b. destruct (H b) as (H1 & _). unfold all_blocks in H1. rewrite occ_app in H1.
    pose proof (occ_flat_ge thr_blocks _ _ _ b H0). pose proof (occ_nonneg b (a_lifo c)). lia.
  - intros b Hb Hl. destruct (H b) as (H1 & _). unfold all_blocks in H1. rewrite occ_app in H1.
    pose proof (occ_flat_ge thr_blocks _ _ _ b H0). apply occ_pos_iff in Hb, Hl. lia.
  - apply NoDup_occ. intros b. destruct (H b) as (H1 & _). unfold all_blocks in H1. rewrite occ_app in H1.
    pose proof (occ_nonneg b (flatT thr_blocks (a_thr c))). lia.
Qed.

(* every block in hand or cached came from the allocator and has not been given back to it *)
Theorem arena_blocks_allocated_not_freed P fails progs sched :
  let c := arun P fails (ainit progs) sched in
  forall b, In b (all_blocks c) -> (b < length (a_allocs c))%nat /\ ~ In b (a_freed c).
Proof.
  intros c b Hb. destruct (binv_run P fails progs sched b) as (H1 & H2 & H3). fold c in H1, H2, H3.
  apply occ_pos_iff in Hb. split.
  - destruct (Nat.lt_ge_cases b (length (a_allocs c))) as [|Hge]; [assumption|]. specialize (H2 Hge). lia.
  - intros Hf. destruct (H3 Hf). lia.
Qed.

Lemma held_in_thr_blocks th b cnt : In (b, cnt) (t_held th) -> In b (thr_blocks th).
Proof. intros H. unfold thr_blocks. apply in_or_app. right. apply in_map_iff. exists (b, cnt). auto. Qed.
