(* Arena chunk cache: the `used` and `released` counters.
   - elements allocated from the arena (in hand or cached) never exceed max_used;
     `used` = allocated elements + the increments of requests that are being refused;
   - released = cached blocks + blocks between their counter update and their push/pop;
   - released <= max_released + threads - 1 for every schedule (and this is tight);
     released <= max_released when release windows do not overlap (one thread, or sequential use). *)
From PV Require Import Base.Tac Base.ListX Arena.ArenaDefs Arena.ArenaBase Arena.ArenaBlocks.
Local Open Scope Z_scope.

Definition esum (l : list (nat * positive)) : Z := sumZ (map (fun e => Z.pos (snd e)) l).
Lemma thr_elems_eq th : thr_elems th = pc_elems (t_pc th) + esum (t_held th).
Proof. reflexivity. Qed.
Lemma esum_nonneg l : 0 <= esum l.
Proof. unfold esum. induction l as [|x l IH]; cbn [map sumZ]; lia. Qed.
Lemma esum_app l1 l2 : esum (l1 ++ l2) = esum l1 + esum l2.
Proof. unfold esum. rewrite map_app, sumZ_app. reflexivity. Qed.
Lemma esum_one e : esum [e] = Z.pos (snd e).
Proof. unfold esum. cbn [map sumZ]. lia. Qed.
Lemma esum_remove l k e : nth_error l k = Some e -> esum (remove_nth k l) = esum l - Z.pos (snd e).
Proof.
  intros H. unfold esum. rewrite map_remove_nth.
  apply (sumZ_remove_nth _ _ _ (map_nth_error (fun e => Z.pos (snd e)) k l H)).
Qed.
Lemma pc_elems_nonneg p : 0 <= pc_elems p. Proof. destruct p; cbn [pc_elems]; lia. Qed.
Lemma thr_elems_nonneg th : 0 <= thr_elems th.
Proof. rewrite thr_elems_eq. pose proof (pc_elems_nonneg (t_pc th)). pose proof (esum_nonneg (t_held th)). lia. Qed.
Lemma thr_pending_eq th : thr_pending th = pc_pending (t_pc th).
Proof. reflexivity. Qed.
Lemma thr_pending_nonneg th : 0 <= thr_pending th.
Proof. unfold thr_pending. destruct (t_pc th); cbn [pc_pending]; lia. Qed.
Lemma pc_pending_rest ops : pc_pending (rest_pc ops) = 0. Proof. destruct ops; reflexivity. Qed.
Lemma pc_elems_rest ops : pc_elems (rest_pc ops) = 0. Proof. destruct ops; reflexivity. Qed.

Ltac upd_norm :=
  repeat match goal with
    | Hn : nth_error ?l ?u = Some ?p |- context[sumT ?g (upd ?l ?u ?q)] => rewrite (sumT_upd g l u p q Hn)
    | Hn : nth_error ?l ?u = Some ?p |- context[cnt ?f (upd ?l ?u ?q)] => rewrite (cnt_upd f l u p q Hn)
    | Hn : nth_error ?l ?u = Some ?p |- context[length (upd ?l ?u ?q)] => rewrite (len_upd l u p q Hn)
    end.
Ltac held_norm :=
  repeat match goal with
    | H : nth_error (t_held ?th) ?k = Some ?e |- context[esum (remove_nth ?k (t_held ?th))] =>
        rewrite (esum_remove (t_held th) k e H)
    end;
  rewrite ?esum_app, ?esum_one; cbn [fst snd].

(* ---- used ---------------------------------------------------------------- *)
Definition UInv (P : aparams) (c : acfg) : Prop :=
  a_used c = a_live c + a_pending c /\ a_live c <= p_mu P.

Ltac u_norm :=
  unfold a_live, a_pending; cfg_simpl; upd_norm;
  rewrite ?thr_elems_eq, ?thr_pending_eq; cfg_simpl;
  repeat match goal with H : t_pc _ = _ |- _ => rewrite H end;
  repeat match goal with H : a_lifo _ = _ |- _ => rewrite H end;
  rewrite ?pc_elems_rest, ?pc_pending_rest; cbn [pc_elems pc_pending length]; held_norm.

Lemma uinv_step fx P fails c t : p_mu P <> INT32_MAX -> UInv P c -> UInv P (astep fx P fails c t).
Proof.
  intros Hmu [Hu Hl]. unfold astep, alloc_path, free_path. destruct (nth_error (a_thr c) t) as [th|] eqn:E; [|split; assumption].
  pose proof (sumT_ge_nth thr_elems _ _ _ thr_elems_nonneg E) as Hge. rewrite thr_elems_eq in Hge.
  pose proof (sumT_nonneg thr_pending (a_thr c) thr_pending_nonneg) as Hpn.
  pose proof (sumT_ge_nth thr_pending _ _ _ thr_pending_nonneg E) as Hgp. rewrite thr_pending_eq in Hgp.
  pose proof (esum_nonneg (t_held th)) as Hen.
  unfold UInv, a_live, a_pending in Hu, Hl.
  break_step; try give_absurd; try (split; assumption); unfold UInv.
  all: try match goal with Hh : nth_error (t_held ?x) ?k = Some ?e |- _ =>
         pose proof (esum_remove _ _ _ Hh) as Her; pose proof (esum_nonneg (remove_nth k (t_held x))) as Hrn;
         cbn [fst snd] in Her end.
  all: try match goal with Hb : (?p =? 1)%positive && _ = true |- _ =>
         let Hp := fresh "Hp" in pose proof (proj1 (andb_prop _ _ Hb)) as Hp; apply Pos.eqb_eq in Hp; subst p end.
  all: repeat match goal with H : t_pc _ = _ |- _ => rewrite H in * end; cbn [pc_elems pc_pending] in *.
  all: u_norm; cbn [length] in *; split; lia.
Qed.


Lemma a_live_init progs : a_live (ainit progs) = 0.
Proof. unfold a_live, ainit; cbn [a_thr a_lifo length]. rewrite sumT_map_zero; reflexivity. Qed.
Lemma a_pending_init progs : a_pending (ainit progs) = 0.
Proof. unfold a_pending, ainit; cbn [a_thr]. rewrite sumT_map_zero; reflexivity. Qed.
Lemma uinv_run_gen fx P fails progs sched : p_mu P <> INT32_MAX -> 0 <= p_mu P ->
  UInv P (arun_gen fx P fails (ainit progs) sched).
Proof.
  intros Hmu H0. unfold arun_gen. apply fold_left_inv; [intros a b; apply uinv_step; assumption|].
  unfold UInv. rewrite a_live_init, a_pending_init. cbn [ainit a_used]. lia.
Qed.
Lemma uinv_run P fails progs sched : p_mu P <> INT32_MAX -> 0 <= p_mu P ->
  UInv P (arun P fails (ainit progs) sched).
Proof. apply uinv_run_gen. Qed.

(* an arena with an allocation limit never has more than max_used elements allocated (in hand or cached) *)
Theorem arena_limit_respected P fails progs sched : p_mu P <> INT32_MAX -> 0 <= p_mu P ->
  a_live (arun P fails (ainit progs) sched) <= p_mu P.
Proof. intros Hmu H0. apply (uinv_run P fails progs sched Hmu H0). Qed.

(* the counter: allocated elements plus the increments of the requests currently being refused *)
Theorem arena_used_accounting P fails progs sched : p_mu P <> INT32_MAX -> 0 <= p_mu P ->
  let c := arun P fails (ainit progs) sched in
  a_used c = a_live c + a_pending c /\ 0 <= a_pending c /\ a_used c <= p_mu P + a_pending c.
Proof.
  intros Hmu H0 c. destruct (uinv_run P fails progs sched Hmu H0) as [Hu Hl]. fold c in Hu, Hl.
  pose proof (sumT_nonneg thr_pending (a_thr c) thr_pending_nonneg). unfold a_pending in *. lia.
Qed.

(* whenever no request is in its refusal window, used = allocated elements <= max_used *)
Theorem arena_used_quiescent P fails progs sched : p_mu P <> INT32_MAX -> 0 <= p_mu P ->
  let c := arun P fails (ainit progs) sched in
  cnt is_gfail (a_thr c) = 0 -> a_used c = a_live c /\ a_used c <= p_mu P.
Proof.
  intros Hmu H0 c Hq. destruct (uinv_run P fails progs sched Hmu H0) as [Hu Hl]. fold c in Hu, Hl.
  assert (Hp : a_pending c = 0).
  { unfold a_pending. clear Hu Hl. induction (a_thr c) as [|x l IH]; [reflexivity|].
    rewrite cnt_cons in Hq. unfold sumT in *. cbn [map sumZ]. pose proof (cnt_nonneg is_gfail l).
    unfold is_gfail in Hq at 1. unfold thr_pending at 1. destruct (t_pc x); cbn [pc_pending]; try lia. }
  lia.
Qed.

(* the naive reading "used <= max_used at all times" is false even for one thread: the counter is
   incremented before the limit test and decremented afterwards *)
Theorem arena_used_transient_exceeds : exists P progs sched,
  p_mu P <> INT32_MAX /\ a_used (arun P [] (ainit progs) sched) > p_mu P.
Proof.
  exists {| p_es := 8; p_al := 8; p_mu := 1; p_mr := 0 |}, [[OGet 1; OGet 1]], [0;0;0;0;0;0]%nat.
  split; [discriminate|]. vm_compute. reflexivity.
Qed.

(* a request that would take the counter beyond the limit is refused: NULL, nothing allocated, counter restored *)
Theorem arena_refuses_beyond_limit P fails c t th cnt :
  nth_error (a_thr c) t = Some th -> t_pc th = GAdd cnt -> a_used c + Z.pos cnt > p_mu P ->
  let c2 := astep false P fails (astep false P fails c t) t in
  exists th2, nth_error (a_thr c2) t = Some th2 /\ t_log th2 = RNull :: t_log th /\ t_held th2 = t_held th /\
              a_allocs c2 = a_allocs c /\ a_used c2 = a_used c /\ a_lifo c2 = a_lifo c.
Proof.
  intros E Hpc Hgt c2.
  assert (E1 : astep false P fails c t = set_thr (set_used c (a_used c + Z.pos cnt)) t (goto th (GFail cnt))).
  { unfold astep. rewrite E, Hpc. destruct (a_used c + Z.pos cnt >? p_mu P) eqn:Eg; [reflexivity|lia]. }
  unfold c2. rewrite E1. unfold astep. cbn [a_thr set_thr set_used].
  rewrite (nth_upd_same _ _ _ _ E). cbn [t_pc goto].
  eexists. split.
  - cbn [a_thr set_thr set_used]. eapply nth_upd_same. apply (nth_upd_same _ _ _ _ E).
  - cbn. repeat split; lia.
Qed.

(* ---- released ------------------------------------------------------------ *)
Definition nthreads (c : acfg) : Z := Z.of_nat (length (a_thr c)).
Definition RInv (P : aparams) (c : acfg) : Prop :=
  a_rel c = Z.of_nat (length (a_lifo c)) + cnt is_relwin (a_thr c) /\
  a_rel c + cnt is_rinc (a_thr c) <= p_mr P + Z.max 0 (nthreads c - 1).

Definition pc_relwin (p : apc) : bool := match p with RPush _ | GDecRel _ | RUndo _ => true | _ => false end.
Definition pc_rinc (p : apc) : bool := match p with RInc _ => true | _ => false end.
Lemma is_relwin_pc th : is_relwin th = pc_relwin (t_pc th). Proof. reflexivity. Qed.
Lemma is_rinc_pc th : is_rinc th = pc_rinc (t_pc th). Proof. reflexivity. Qed.
Lemma pc_relwin_rest ops : pc_relwin (rest_pc ops) = false. Proof. destruct ops; reflexivity. Qed.
Lemma pc_rinc_rest ops : pc_rinc (rest_pc ops) = false. Proof. destruct ops; reflexivity. Qed.

Ltac r_norm :=
  unfold nthreads; cfg_simpl; upd_norm;
  rewrite ?is_relwin_pc, ?is_rinc_pc; cfg_simpl;
  repeat match goal with H : t_pc _ = _ |- _ => rewrite H end;
  repeat match goal with H : a_lifo _ = _ |- _ => rewrite H end;
  rewrite ?pc_relwin_rest, ?pc_rinc_rest; cbn [pc_relwin pc_rinc length].

Lemma rinv_step P fails c t : p_mr P <> INT32_MAX -> RInv P c -> RInv P (astep false P fails c t).
Proof.
  intros Hmr [Hr Hb]. unfold astep, alloc_path, free_path. cbv iota. destruct (nth_error (a_thr c) t) as [th|] eqn:E; [|split; assumption].
  pose proof (cnt_nonneg is_rinc (a_thr c)) as Hn1. pose proof (cnt_nonneg is_relwin (a_thr c)) as Hn2.
  assert (Hlen : 1 <= nthreads c).
  { unfold nthreads. destruct (a_thr c); [destruct t; discriminate|]. cbn [length]. lia. }
  assert (Hri : is_rinc th = false -> cnt is_rinc (a_thr c) <= nthreads c - 1).
  { intros Hf. apply (cnt_lt_len is_rinc _ _ _ E Hf). }
  assert (Hrp : is_rinc th = true -> 1 <= cnt is_rinc (a_thr c)).
  { intros Hf. pose proof (cnt_pos_of_nth is_rinc _ _ _ E Hf). lia. }
  assert (Hwp : is_relwin th = true -> 1 <= cnt is_relwin (a_thr c)).
  { intros Hf. pose proof (cnt_pos_of_nth is_relwin _ _ _ E Hf). lia. }
  rewrite is_rinc_pc in Hri, Hrp. rewrite is_relwin_pc in Hwp.
  unfold RInv, nthreads in *.
  break_step; try give_absurd; try (split; assumption).
  all: repeat match goal with H : t_pc _ = _ |- _ => rewrite H in * end; cbn [pc_relwin pc_rinc] in *.
  all: try specialize (Hri eq_refl); try specialize (Hrp eq_refl); try specialize (Hwp eq_refl).
  all: r_norm; cbn [length] in *; split; lia.
Qed.

Lemma rinv_init P progs : 0 <= p_mr P -> RInv P (ainit progs).
Proof.
  intros H0. unfold RInv, ainit, nthreads; cbn [a_rel a_lifo a_thr length].
  rewrite !cnt_map_false by reflexivity. lia.
Qed.
Lemma astep_nthreads fx P fails c t : length (a_thr (astep fx P fails c t)) = length (a_thr c).
Proof.
  unfold astep, alloc_path, free_path. destruct (nth_error (a_thr c) t) as [th|] eqn:E; [|reflexivity].
  break_step; try give_absurd; cfg_simpl; upd_norm; reflexivity.
Qed.
Lemma arun_gen_nthreads fx P fails c sched : length (a_thr (arun_gen fx P fails c sched)) = length (a_thr c).
Proof.
  revert c. induction sched as [|t s IH]; intros c; [reflexivity|].
  cbn [arun_gen fold_left]. fold (arun_gen fx P fails (astep fx P fails c t) s). rewrite IH. apply astep_nthreads.
Qed.
Lemma arun_nthreads P fails c sched : length (a_thr (arun P fails c sched)) = length (a_thr c).
Proof. apply arun_gen_nthreads. Qed.
Lemma rinv_run P fails progs sched : p_mr P <> INT32_MAX -> 0 <= p_mr P ->
  RInv P (arun P fails (ainit progs) sched).
Proof.
  intros Hmr H0. unfold arun, arun_gen. apply fold_left_inv; [intros a b; apply rinv_step; assumption|].
  apply rinv_init; assumption.
Qed.

(* released = cached blocks + blocks between the counter update and the LIFO operation *)
Theorem cache_counter_exact P fails progs sched : p_mr P <> INT32_MAX -> 0 <= p_mr P ->
  let c := arun P fails (ainit progs) sched in
  a_rel c = Z.of_nat (length (a_lifo c)) + cnt is_relwin (a_thr c).
Proof. intros Hmr H0. apply (rinv_run P fails progs sched Hmr H0). Qed.

(* the bound that holds for every schedule *)
Theorem cache_bound_true P fails progs sched : p_mr P <> INT32_MAX -> 0 <= p_mr P ->
  let c := arun P fails (ainit progs) sched in
  a_rel c <= p_mr P + Z.max 0 (Z.of_nat (length progs) - 1) /\
  Z.of_nat (length (a_lifo c)) <= p_mr P + Z.max 0 (Z.of_nat (length progs) - 1).
Proof.
  intros Hmr H0 c. destruct (rinv_run P fails progs sched Hmr H0) as [Hr Hb]. fold c in Hr, Hb.
  assert (Hn : nthreads c = Z.of_nat (length progs)).
  { unfold nthreads, c. rewrite arun_nthreads. unfold ainit; cbn [a_thr]. rewrite map_length. reflexivity. }
  rewrite Hn in Hb.
  pose proof (cnt_nonneg is_rinc (a_thr c)). pose proof (cnt_nonneg is_relwin (a_thr c)). lia.
Qed.

Theorem cache_bound_one_thread P fails prog sched : p_mr P <> INT32_MAX -> 0 <= p_mr P ->
  let c := arun P fails (ainit [prog]) sched in
  a_rel c <= p_mr P /\ Z.of_nat (length (a_lifo c)) <= p_mr P.
Proof. intros Hmr H0 c. pose proof (cache_bound_true P fails [prog] sched Hmr H0) as H. cbn [length] in H. fold c in H. lia. Qed.

(* the limit is respected by every run in which no two releases are between their test and their increment
   at the same time (in particular by every sequential use) *)
Definition windows_disjoint P fails c0 sched : Prop :=
  forall k, cnt is_rinc (a_thr (arun P fails c0 (firstn k sched))) <= 1.
Lemma rinv_seq_step P fails c t : p_mr P <> INT32_MAX ->
  a_rel c + cnt is_rinc (a_thr c) <= p_mr P -> cnt is_rinc (a_thr (astep false P fails c t)) <= 1 ->
  a_rel (astep false P fails c t) + cnt is_rinc (a_thr (astep false P fails c t)) <= p_mr P.
Proof.
  intros Hmr Hb. unfold astep, alloc_path, free_path. cbv iota. destruct (nth_error (a_thr c) t) as [th|] eqn:E; [|intros; assumption].
  pose proof (cnt_nonneg is_rinc (a_thr c)) as Hn1.
  assert (Hrp : is_rinc th = true -> 1 <= cnt is_rinc (a_thr c)).
  { intros Hf. pose proof (cnt_pos_of_nth is_rinc _ _ _ E Hf). lia. }
  rewrite is_rinc_pc in Hrp.
  break_step; try give_absurd; try (intros; assumption).
  all: repeat match goal with H : t_pc _ = _ |- _ => rewrite H in * end; cbn [pc_rinc] in *.
  all: try specialize (Hrp eq_refl).
  all: r_norm; cbn [length] in *; intros; lia.
Qed.
Theorem cache_bound_nonoverlapping P fails progs sched : p_mr P <> INT32_MAX -> 0 <= p_mr P ->
  windows_disjoint P fails (ainit progs) sched ->
  let c := arun P fails (ainit progs) sched in
  a_rel c <= p_mr P /\ Z.of_nat (length (a_lifo c)) <= p_mr P.
Proof.
  intros Hmr H0 Hw c.
  assert (H : a_rel c + cnt is_rinc (a_thr c) <= p_mr P).
  { unfold c. clear c. revert Hw. induction sched as [|t s IH] using rev_ind; intros Hw.
    - cbn [arun arun_gen fold_left ainit a_rel a_thr]. rewrite cnt_map_false by reflexivity. lia.
    - unfold arun, arun_gen. rewrite fold_left_app. cbn [fold_left]. fold (arun P fails (ainit progs) s).
      apply rinv_seq_step; [assumption| |].
      + apply IH. intros k. specialize (Hw (Nat.min k (length s))).
        rewrite firstn_app in Hw. replace (Nat.min k (length s) - length s)%nat with 0%nat in Hw by lia.
        cbn [firstn] in Hw. rewrite app_nil_r in Hw.
        destruct (Nat.le_gt_cases k (length s)) as [Hle|Hgt].
        * rewrite Nat.min_l in Hw by assumption. assumption.
        * rewrite Nat.min_r in Hw by lia. rewrite firstn_all in Hw. rewrite firstn_all2 by lia. assumption.
      + specialize (Hw (length (s ++ [t]))). rewrite firstn_all in Hw.
        unfold arun, arun_gen in Hw. rewrite fold_left_app in Hw. exact Hw. }
  destruct (rinv_run P fails progs sched Hmr H0) as [Hr _]. fold c in Hr.
  pose proof (cnt_nonneg is_rinc (a_thr c)). pose proof (cnt_nonneg is_relwin (a_thr c)). lia.
Qed.

(* ---- the stated cache limit is NOT respected under concurrency ---------------
   two threads hold one block each, max_released = 1; both releases read released = 0 < 1
   before either increments: both blocks are cached. *)
Definition refute_P : aparams := {| p_es := 8; p_al := 8; p_mu := 10; p_mr := 1 |}.
Definition refute_progs : list (list op) := [[OGet 1; ORel 0]; [OGet 1; ORel 0]].
Definition refute_sched : list nat := [0;0;0; 1;1;1; 0;1; 0;1; 0;1]%nat.
Theorem cache_bound_refuted : exists P progs sched,
  arena_construct 8 8 80 8 = Some P /\ p_mr P <> INT32_MAX /\
  let c := arun P [] (ainit progs) sched in
  a_rel c > p_mr P /\ Z.of_nat (length (a_lifo c)) > p_mr P /\ cnt a_is_done (a_thr c) = Z.of_nat (length progs).
Proof.
  exists refute_P, refute_progs, refute_sched. split; [reflexivity|]. split; [discriminate|].
  vm_compute. repeat split.
Qed.
(* three threads reach max_released + 2 = max_released + threads - 1 *)
Theorem cache_bound_tight : exists P progs sched, p_mr P <> INT32_MAX /\
  a_rel (arun P [] (ainit progs) sched) = p_mr P + (Z.of_nat (length progs) - 1).
Proof.
  exists refute_P, [[OGet 1; ORel 0]; [OGet 1; ORel 0]; [OGet 1; ORel 0]],
         [0;0;0; 1;1;1; 2;2;2; 0;1;2; 0;1;2; 0;1;2]%nat.
  split; [discriminate|]. vm_compute. reflexivity.
Qed.

(* ---- the repaired release_chunk (fx = true): the cache limit holds for every schedule ----
   reserved = cached blocks + successful reservations not yet pushed + popped blocks whose decrement is pending
            = released - (failed reservations not yet undone) *)
Definition pc_rundo (p : apc) : bool := match p with RUndo _ => true | _ => false end.
Lemma is_rundo_pc th : is_rundo th = pc_rundo (t_pc th). Proof. reflexivity. Qed.
Lemma pc_rundo_rest ops : pc_rundo (rest_pc ops) = false. Proof. destruct ops; reflexivity. Qed.
Definition FInv (P : aparams) (c : acfg) : Prop :=
  a_rel c = Z.of_nat (length (a_lifo c)) + cnt is_relwin (a_thr c) /\
  a_rel c - cnt is_rundo (a_thr c) <= p_mr P.

Lemma finv_step P fails c t : p_mr P <> INT32_MAX -> FInv P c -> FInv P (astep true P fails c t).
Proof.
  intros Hmr [Hr Hb]. unfold astep, alloc_path, free_path. cbv iota. destruct (nth_error (a_thr c) t) as [th|] eqn:E; [|split; assumption].
  pose proof (cnt_nonneg is_rundo (a_thr c)) as Hn1. pose proof (cnt_nonneg is_relwin (a_thr c)) as Hn2.
  assert (Hup : is_rundo th = true -> 1 <= cnt is_rundo (a_thr c)).
  { intros Hf. pose proof (cnt_pos_of_nth is_rundo _ _ _ E Hf). lia. }
  assert (Hwp : is_relwin th = true -> 1 <= cnt is_relwin (a_thr c)).
  { intros Hf. pose proof (cnt_pos_of_nth is_relwin _ _ _ E Hf). lia. }
  rewrite is_rundo_pc in Hup. rewrite is_relwin_pc in Hwp.
  unfold FInv in *.
  break_step; try give_absurd; try (split; assumption).
  all: repeat match goal with H : t_pc _ = _ |- _ => rewrite H in * end; cbn [pc_relwin pc_rundo] in *.
  all: try specialize (Hup eq_refl); try specialize (Hwp eq_refl).
  all: unfold nthreads; cfg_simpl; upd_norm;
       rewrite ?is_relwin_pc, ?is_rundo_pc; cfg_simpl;
       repeat match goal with H : t_pc _ = _ |- _ => rewrite H end;
       repeat match goal with H : a_lifo _ = _ |- _ => rewrite H end;
       rewrite ?pc_relwin_rest, ?pc_rundo_rest; cbn [pc_relwin pc_rundo length andb negb] in *; split; lia.
Qed.

Theorem cache_bound_fixed P fails progs sched : p_mr P <> INT32_MAX -> 0 <= p_mr P ->
  let c := arun_gen true P fails (ainit progs) sched in
  Z.of_nat (length (a_lifo c)) <= p_mr P /\
  a_rel c <= p_mr P + Z.of_nat (length progs).
Proof.
  intros Hmr H0 c.
  assert (H : FInv P c).
  { unfold c, arun_gen. apply fold_left_inv; [intros a b; apply finv_step; assumption|].
    unfold FInv, ainit; cbn [a_rel a_lifo a_thr length]. rewrite !cnt_map_false by reflexivity. lia. }
  destruct H as [Hr Hb].
  pose proof (cnt_nonneg is_relwin (a_thr c)) as Hn.
  assert (Hle : cnt is_rundo (a_thr c) <= cnt is_relwin (a_thr c)).
  { clear. induction (a_thr c) as [|x l IH]; [rewrite !cnt_nil; lia|]. rewrite !cnt_cons.
    unfold is_rundo at 1, is_relwin at 1. destruct (t_pc x); lia. }
  pose proof (cnt_le_len is_rundo (a_thr c)) as Hlen.
  unfold c in Hlen at 2. rewrite arun_gen_nthreads in Hlen. unfold ainit in Hlen; cbn [a_thr] in Hlen. rewrite map_length in Hlen.
  split; lia.
Qed.
(* the refuting schedule of the unrepaired code, replayed on the repaired model: one block is cached, one is freed *)
Example cache_bound_fixed_witness :
  let c := arun_gen true refute_P [] (ainit refute_progs) (refute_sched ++ [0;1;0;1]%nat) in
  a_rel c = 1 /\ length (a_lifo c) = 1%nat /\ length (a_freed c) = 1%nat /\ cnt a_is_done (a_thr c) = 2.
Proof. vm_compute. repeat split. Qed.
