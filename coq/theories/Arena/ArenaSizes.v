(* Arena chunk cache: every block in hand or cached was obtained from the allocator with
   the size chunk_size(elem_size, alignment, count) of its element count, and that size
   leaves room for `count` elements after the aligned data pointer (PARSEC_ALIGN arithmetic). *)
From PV Require Import Base.Tac Base.ListX Arena.ArenaDefs Arena.ArenaBase Arena.ArenaBlocks.
Local Open Scope Z_scope.

(* ---- PARSEC_ALIGN -------------------------------------------------------- *)
Lemma align_up_spec x k : 0 <= k -> 0 <= x ->
  align_up x (2 ^ k) = ((x + (2 ^ k - 1)) / 2 ^ k) * 2 ^ k.
Proof.
  intros Hk Hx. unfold align_up.
  replace (2 ^ k - 1) with (Z.ones k) by (rewrite Z.ones_equiv; lia).
  rewrite <- Z.ldiff_land, Z.ldiff_ones_r by assumption.
  rewrite Z.shiftr_div_pow2, Z.shiftl_mul_pow2 by assumption. reflexivity.
Qed.
Lemma align_up_props x k : 0 <= k -> 0 <= x ->
  x <= align_up x (2 ^ k) < x + 2 ^ k /\ align_up x (2 ^ k) mod 2 ^ k = 0.
Proof.
  intros Hk Hx. rewrite align_up_spec by assumption.
  assert (Hp : 0 < 2 ^ k) by (apply Z.pow_pos_nonneg; lia).
  pose proof (Z.div_mod (x + (2 ^ k - 1)) (2 ^ k) ltac:(lia)) as Hd.
  pose proof (Z.mod_pos_bound (x + (2 ^ k - 1)) (2 ^ k) Hp) as Hm.
  split; [nia|]. apply Z.mod_mul. lia.
Qed.

(* alignment > 1 with alignment & (alignment-1) == 0 is a power of two *)
Lemma pow2_of_land a : 1 < a -> Z.land a (a - 1) = 0 -> exists k, 0 < k /\ a = 2 ^ k.
Proof.
  intros Ha Hl. exists (Z.log2 a). split; [apply Z.log2_pos; lia|].
  pose proof (Z.log2_spec a ltac:(lia)) as [Hlo Hhi].
  set (k := Z.log2 a) in *. assert (Hk : 0 <= k) by apply Z.log2_nonneg.
  destruct (Z.eq_dec a (2 ^ k)) as [|Hne]; [assumption|exfalso].
  (* both a and a-1 have bit k set *)
  assert (Hb1 : Z.testbit a k = true) by (apply Z.bit_log2; lia).
  assert (Hb2 : Z.testbit (a - 1) k = true).
  { assert (Hl2 : Z.log2 (a - 1) = k).
    { apply Z.log2_unique; [assumption|]. rewrite Z.pow_succ_r in * by assumption. lia. }
    rewrite <- Hl2. apply Z.bit_log2. lia. }
  assert (Z.testbit (Z.land a (a - 1)) k = true) by (rewrite Z.land_spec, Hb1, Hb2; reflexivity).
  rewrite Hl, Z.bits_0 in H. discriminate.
Qed.

(* the data region of a chunk: after the header, aligned, and inside the allocated size *)
Lemma chunk_fits es al cnt base : 1 < al -> Z.land al (al - 1) = 0 -> 0 <= es -> 0 <= base ->
  HDR <= data_off base al /\
  (base + data_off base al) mod al = 0 /\
  data_off base al + es * Z.pos cnt <= chunk_size es al cnt.
Proof.
  intros Ha Hl Hes Hb. destruct (pow2_of_land al Ha Hl) as (k & Hk & ->).
  unfold data_off, chunk_size, HDR, LI.
  pose proof (align_up_props (base + 72) k ltac:(lia) ltac:(lia)) as [Hd1 Hd2].
  assert (Hsz : 0 <= es * Z.pos cnt) by nia.
  pose proof (align_up_props (es * Z.pos cnt + 2 ^ k + 72) k ltac:(lia) ltac:(lia)) as [Hs1 Hs2].
  split; [lia|]. split; [replace (base + (align_up (base + 72) (2 ^ k) - base)) with (align_up (base + 72) (2 ^ k)) by lia; assumption|].
  destruct (cnt =? 1)%positive; [destruct (_ <? 48) eqn:E|]; lia.
Qed.

(* ---- every block has the size of its count ------------------------------- *)
Definition pc_items (p : apc) : list (nat * positive) :=
  match p with
  | GDecRel b | RInc b | RPush b | RUndo b => [(b, 1%positive)]
  | RSub b cnt => [(b, cnt)]
  | _ => []
  end.
Definition thr_items (th : thr) : list (nat * positive) := pc_items (t_pc th) ++ t_held th.
Definition all_items (c : acfg) : list (nat * positive) :=
  flatT thr_items (a_thr c) ++ map (fun b => (b, 1%positive)) (a_lifo c).
Definition sized (P : aparams) (al : list Z) (e : nat * positive) : Prop :=
  nth_error al (fst e) = Some (chunk_size (p_es P) (p_al P) (snd e)).
Definition SInv (P : aparams) (c : acfg) : Prop := forall e, In e (all_items c) -> sized P (a_allocs c) e.

Lemma in_flat_upd {A B} (f : A -> list B) l t p q e : nth_error l t = Some p ->
  In e (flatT f (upd l t q)) -> In e (f q) \/ In e (flatT f l).
Proof.
  intros H. unfold upd. rewrite (split_nth l t p H) at 3.
  rewrite !flatT_app, !flatT_cons, !in_app_iff. tauto.
Qed.
Lemma sized_mono P al x e : sized P al e -> sized P (al ++ [x]) e.
Proof. unfold sized. apply nth_error_snoc_old. Qed.
Lemma pc_items_rest ops : pc_items (rest_pc ops) = [].
Proof. destruct ops; reflexivity. Qed.

Section OldItems.
Context (c : acfg) (t : nat) (th : thr) (E : nth_error (a_thr c) t = Some th).
Lemma old_held e : In e (t_held th) -> In e (all_items c).
Proof. intros H. unfold all_items. apply in_or_app. left. eapply in_flatT; [exact E|]. unfold thr_items. apply in_or_app. now right. Qed.
Lemma old_pc p e : t_pc th = p -> In e (pc_items p) -> In e (all_items c).
Proof. intros Hp H. unfold all_items. apply in_or_app. left. eapply in_flatT; [exact E|]. unfold thr_items. apply in_or_app. left. now rewrite Hp. Qed.
Lemma old_flat e : In e (flatT thr_items (a_thr c)) -> In e (all_items c).
Proof. intros H. unfold all_items. apply in_or_app. now left. Qed.
Lemma old_lifo b : In b (a_lifo c) -> In (b, 1%positive) (all_items c).
Proof. intros H. unfold all_items. apply in_or_app. right. apply in_map_iff. exists b. auto. Qed.
Lemma old_lifo_map e : In e (map (fun b => (b, 1%positive)) (a_lifo c)) -> In e (all_items c).
Proof. intros H. unfold all_items. apply in_or_app. now right. Qed.
End OldItems.

Ltac items_cases He :=
  unfold thr_items in He; cfg_simpl; rewrite ?pc_items_rest in He;
  repeat match goal with H : t_pc _ = _ |- _ => rewrite H in He end;
  cbn [pc_items app] in He; rewrite ?in_app_iff in He; cbn [map In] in He.


Ltac old_item E := first
  [ solve [eapply old_flat; eassumption]
  | solve [eapply (old_held _ _ _ E); first [eassumption | eapply in_remove_nth; eassumption | eapply nth_error_In; eassumption]]
  | solve [eapply old_lifo_map; eassumption]
  | solve [eapply old_lifo_map; match goal with H : a_lifo _ = _ |- _ => rewrite H end; cbn [map In]; auto]
  | solve [eapply (old_pc _ _ _ E); [eassumption | cbn [pc_items In]; auto]]
  | solve [eapply old_lifo; match goal with H : a_lifo _ = _ |- _ => rewrite H end; cbn [In]; auto] ].

Lemma give_recv {A B} (f : A -> list B) l t u p q r e : nth_error l t = Some p ->
  nth_error (upd l t q) u = Some r -> In e (f r) -> In e (f q) \/ In e (flatT f l).
Proof. intros Ht Hu He. eapply in_flat_upd; [exact Ht|]. eapply in_flatT; eassumption. Qed.

Lemma sinv_step fx P fails c t : SInv P c -> SInv P (astep fx P fails c t).
Proof.
  intros H. unfold astep, alloc_path, free_path. destruct (nth_error (a_thr c) t) as [th|] eqn:E; [|assumption].
  break_step; try give_absurd; try assumption;
    intros e He; unfold all_items in He; cfg_simpl; apply in_app_or in He.
  all: destruct He as [He|He];
    [ repeat match goal with
        | Hn : nth_error ?l ?u = Some ?p |- _ =>
            match type of He with In _ (flatT _ (upd l u _)) =>
              apply (in_flat_upd _ _ _ _ _ _ Hn) in He; destruct He as [He|He] end
        end
    | ];
    try (items_cases He);
    try solve [ repeat apply sized_mono; apply H; old_item E ].
  all: repeat match type of He with _ \/ _ => destruct He as [He|He] end;
    try contradiction;
    try solve [ repeat apply sized_mono; apply H; old_item E ];
    try solve [ subst e; unfold sized; cbn [fst snd]; apply nth_error_snoc_new ].
  all: try match goal with Hb : (?p =? 1)%positive && _ = true |- _ =>
         apply andb_prop in Hb; destruct Hb as [Hb _]; apply Pos.eqb_eq in Hb; subst p end;
       try (subst e);
       try solve [ repeat apply sized_mono; apply H; old_item E ].
  - assert (Hi : In e (thr_items t1)) by (unfold thr_items; apply in_or_app; now left).
    destruct (give_recv thr_items _ _ _ _ _ _ _ E Heqo3 Hi) as [Hq|Hq].
    + items_cases Hq. apply H. old_item E.
    + apply H. old_item E.
  - assert (Hi : In e (thr_items t1)) by (unfold thr_items; apply in_or_app; now right).
    destruct (give_recv thr_items _ _ _ _ _ _ _ E Heqo3 Hi) as [Hq|Hq].
    + items_cases Hq. apply H. old_item E.
    + apply H. old_item E.
Qed.

Lemma sinv_init P progs : SInv P (ainit progs).
Proof. intros e He. unfold all_items, ainit in He; cbn [a_thr a_lifo map] in He. rewrite flatT_map_nil in He by reflexivity. destruct He. Qed.
Lemma sinv_run_gen fx P fails progs sched : SInv P (arun_gen fx P fails (ainit progs) sched).
Proof. unfold arun_gen. apply fold_left_inv; [intros a b; apply sinv_step | apply sinv_init]. Qed.

Lemma sinv_run P fails progs sched : SInv P (arun P fails (ainit progs) sched).
Proof. apply sinv_run_gen. Qed.

(* every block a thread holds was allocated with the size of its element count; cached blocks have the size of one element *)
Theorem arena_block_sizes P fails progs sched :
  let c := arun P fails (ainit progs) sched in
  (forall t th b cnt, nth_error (a_thr c) t = Some th -> In (b, cnt) (t_held th) ->
     nth_error (a_allocs c) b = Some (chunk_size (p_es P) (p_al P) cnt)) /\
  (forall b, In b (a_lifo c) -> nth_error (a_allocs c) b = Some (chunk_size (p_es P) (p_al P) 1)).
Proof.
  intros c. pose proof (sinv_run P fails progs sched) as H. fold c in H. split.
  - intros t th b cnt E Hb. apply (H (b, cnt)). eapply old_held; eassumption.
  - intros b Hb. apply (H (b, 1%positive)). apply old_lifo. assumption.
Qed.

(* ... and that size makes the aligned data region fit: for an arena accepted by the constructor
   (alignment a power of two > 1), whatever address the allocator returned *)
Theorem arena_aligned_and_sized P fails progs sched :
  let c := arun P fails (ainit progs) sched in
  1 < p_al P -> Z.land (p_al P) (p_al P - 1) = 0 -> 0 <= p_es P ->
  forall t th b cnt sz base, nth_error (a_thr c) t = Some th -> In (b, cnt) (t_held th) ->
    nth_error (a_allocs c) b = Some sz -> 0 <= base ->
    HDR <= data_off base (p_al P) /\
    (base + data_off base (p_al P)) mod p_al P = 0 /\
    data_off base (p_al P) + p_es P * Z.pos cnt <= sz.
Proof.
  intros c Ha Hl Hes t th b cnt sz base E Hb Hsz Hbase.
  destruct (arena_block_sizes P fails progs sched) as [Hs _]. fold c in Hs.
  rewrite (Hs t th b cnt E Hb) in Hsz. inv Hsz. apply chunk_fits; assumption.
Qed.

(* the constructor: limits in elements, INT32_MAX = unlimited *)
Theorem construct_limits es al ma mc P : 0 <= es -> 0 <= ma -> 0 <= mc ->
  arena_construct es al ma mc = Some P ->
  p_es P = es /\ p_al P = al /\ 0 < es /\ 1 < al /\ Z.land al (al - 1) = 0 /\
  p_mu P = Z.min (ma / es) INT32_MAX /\ p_mr P = Z.min (mc / es) INT32_MAX /\
  0 <= p_mu P <= INT32_MAX /\ 0 <= p_mr P <= INT32_MAX.
Proof.
  intros Hes Hma Hmc. unfold arena_construct, limit.
  destruct (al <=? 1) eqn:E1; cbn [orb]; [discriminate|].
  destruct (Z.land al (al - 1) =? 0) eqn:E2; cbn [negb]; [|discriminate].
  destruct (es =? 0) eqn:E3; [discriminate|]. intros Hc. inv Hc. cbn [p_es p_al p_mu p_mr].
  assert (0 <= ma / es) by (apply Z.div_pos; lia). assert (0 <= mc / es) by (apply Z.div_pos; lia).
  unfold INT32_MAX in *.
  destruct (ma / es >? 2147483647) eqn:E4; destruct (mc / es >? 2147483647) eqn:E5; repeat split; lia.
Qed.
Theorem construct_rejects es al ma mc : arena_construct es al ma mc = None <->
  (al <= 1 \/ Z.land al (al - 1) <> 0 \/ es = 0).
Proof.
  unfold arena_construct. destruct (al <=? 1) eqn:E1; cbn [orb]; [split; [intros _; lia|reflexivity]|].
  destruct (Z.land al (al - 1) =? 0) eqn:E2; cbn [negb]; [|split; [intros _; lia|reflexivity]].
  destruct (es =? 0) eqn:E3; [split; [intros _; lia|reflexivity]|].
  split; [discriminate|]. intros [?|[?|?]]; lia.
Qed.

