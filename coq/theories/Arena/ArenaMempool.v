(* Thread memory pools (parsec/mempool.c, mempool.h): for any number of threads, any op
   lists and any schedule, every element created by the pools is at exactly one place
   (held by one thread, carried by one free in progress, or in one pool), pooled elements sit
   in the pool of the thread mempool recorded in them (free returns to the owner's pool),
   a thread only ever obtains elements owned by its own pool, and nb_elt counts creations. *)
From PV Require Import Base.Tac Base.ListX Arena.ArenaDefs Arena.ArenaBase Arena.ArenaBlocks.
Local Open Scope Z_scope.

Ltac m_simpl := cbn [m_pools m_nbelt m_owner m_thr mset_thr mset_pool mnew_elt
                     m_ops m_pc m_held m_log mgoto mfinish] in *.

Definition owner_count (c : mcfg) (b : nat) : Z := if (b <? length (m_owner c))%nat then 1 else 0.
Definition MInv (c : mcfg) : Prop :=
  (forall b, occ b (m_all_blocks c) = owner_count c b) /\
  Forall (fun o => (o < length (m_pools c))%nat) (m_owner c) /\
  (forall p l b, nth_error (m_pools c) p = Some l -> In b l -> nth_error (m_owner c) b = Some p) /\
  (length (m_pools c) = length (m_thr c) /\ length (m_nbelt c) = length (m_thr c)) /\
  sumZ (m_nbelt c) = Z.of_nat (length (m_owner c)) /\
  (forall t th b, nth_error (m_thr c) t = Some th -> In (MGot b) (m_log th) -> nth_error (m_owner c) b = Some t).

Lemma mpc_blocks_rest ops : mpc_blocks (mrest ops) = [].
Proof. destruct ops; reflexivity. Qed.

Lemma mthr_blocks_eq th : mthr_blocks th = mpc_blocks (m_pc th) ++ m_held th.
Proof. reflexivity. Qed.

Ltac m_occ_norm b :=
  unfold m_all_blocks; m_simpl; rewrite ?concat_flatT, ?occ_app;
  repeat match goal with
    | H : nth_error ?l ?t = Some ?p |- context[occ b (flatT ?f (upd ?l ?t ?q))] =>
        rewrite (occ_flat_upd f l t p q b H)
    end;
  rewrite ?mthr_blocks_eq; m_simpl; rewrite ?occ_app;
  repeat match goal with
    | H : nth_error (m_held ?th) ?k = Some ?e |- context[remove_nth ?k (m_held ?th)] =>
        rewrite (occ_remove_nth (m_held th) k e b H)
    end;
  repeat match goal with H : m_pc _ = _ |- _ => rewrite H end;
  cbn [mpc_blocks]; rewrite ?mpc_blocks_rest;
  repeat match goal with |- context[occ b (?x :: ?l)] =>
    lazymatch l with nil => fail | _ => rewrite (occ_cons b x l) end end;
  rewrite ?occ_nil.

Lemma m_in_blocks_thr c t th b : nth_error (m_thr c) t = Some th -> In b (mthr_blocks th) ->
  1 <= occ b (m_all_blocks c).
Proof.
  intros E Hb. apply occ_pos_iff. unfold m_all_blocks. apply in_or_app. left. eapply in_flatT; eassumption.
Qed.
Lemma owner_of_live c b : MInv c -> 1 <= occ b (m_all_blocks c) ->
  exists o l, nth_error (m_owner c) b = Some o /\ nth_error (m_pools c) o = Some l.
Proof.
  intros (H1 & H2 & _) Hb. rewrite H1 in Hb. unfold owner_count in Hb.
  destruct (b <? length (m_owner c))%nat eqn:E; [|lia]. apply Nat.ltb_lt in E.
  destruct (nth_error (m_owner c) b) as [o|] eqn:Eo; [|apply nth_error_None in Eo; lia].
  pose proof (Forall_nth _ _ _ _ H2 Eo) as Ho. cbn beta in Ho.
  destruct (nth_error (m_pools c) o) as [l|] eqn:El; [|apply nth_error_None in El; lia].
  eauto.
Qed.

Lemma owner_count_same c c' b : m_owner c' = m_owner c -> owner_count c' b = owner_count c b.
Proof. unfold owner_count. intros ->. reflexivity. Qed.


Definition with_thr (c : mcfg) (thr' : list mthr) : mcfg :=
  {| m_pools := m_pools c; m_nbelt := m_nbelt c; m_owner := m_owner c; m_thr := thr' |}.

(* a step that only rearranges the blocks and logs of threads *)
Lemma minv_thr_change c thr' : MInv c -> length thr' = length (m_thr c) ->
  (forall b, occ b (flatT mthr_blocks thr') = occ b (flatT mthr_blocks (m_thr c))) ->
  (forall t th' b, nth_error thr' t = Some th' -> In (MGot b) (m_log th') ->
     exists th, nth_error (m_thr c) t = Some th /\ In (MGot b) (m_log th)) ->
  MInv (with_thr c thr').
Proof.
  intros (H1 & H2 & H3 & (H4 & H4') & H5 & H6) Hlen Hocc Hlog. unfold MInv, with_thr; m_simpl.
  split; [|split; [assumption|split; [assumption|split; [lia|split; [assumption|]]]]].
  - intros b. specialize (H1 b). unfold owner_count in *; m_simpl. rewrite <- H1.
    unfold m_all_blocks; m_simpl. rewrite !occ_app, Hocc. reflexivity.
  - intros t th' b Ht Hb. destruct (Hlog t th' b Ht Hb) as (th & Hth & Hin). eauto.
Qed.

Lemma log_upd (l : list mthr) t p q : nth_error l t = Some p ->
  (forall b, In (MGot b) (m_log q) -> In (MGot b) (m_log p)) ->
  forall u th' b, nth_error (upd l t q) u = Some th' -> In (MGot b) (m_log th') ->
    exists th, nth_error l u = Some th /\ In (MGot b) (m_log th).
Proof.
  intros Hp Hq u th' b Hu Hb. destruct (Nat.eq_dec u t) as [->|Hne].
  - rewrite (nth_upd_same _ _ _ _ Hp) in Hu. inv Hu. eauto.
  - rewrite (nth_upd_other _ _ _ _ _ Hp Hne) in Hu. eauto.
Qed.

Lemma minv_set_thr c t th th' : MInv c -> nth_error (m_thr c) t = Some th ->
  (forall b, occ b (mthr_blocks th') = occ b (mthr_blocks th)) ->
  (forall b, In (MGot b) (m_log th') -> In (MGot b) (m_log th)) ->
  MInv (mset_thr c t th').
Proof.
  intros H E Hocc Hlog. change (mset_thr c t th') with (with_thr c (upd (m_thr c) t th')).
  apply minv_thr_change; [assumption| | |].
  - apply (len_upd _ _ _ _ E).
  - intros b. rewrite (occ_flat_upd _ _ _ _ _ b E), Hocc. lia.
  - apply (log_upd _ _ _ _ E Hlog).
Qed.

Ltac thr_blocks_eq bb := intros bb; unfold mthr_blocks; m_simpl; rewrite ?occ_app;
  repeat match goal with
    | H : nth_error (m_held ?th) ?k = Some ?e |- context[remove_nth ?k (m_held ?th)] =>
        rewrite (occ_remove_nth (m_held th) k e bb H)
    end;
  repeat match goal with H : m_pc _ = _ |- _ => rewrite H end;
  cbn [mpc_blocks]; rewrite ?mpc_blocks_rest, ?occ_nil; try lia.
Ltac log_sub := intros bb; m_simpl; cbn [In]; intros Hx; repeat destruct Hx as [Hx|Hx]; try discriminate; auto.

Lemma minv_step c t : MInv c -> MInv (mstep c t).
Proof.
  intros H. pose proof H as (H1 & H2 & H3 & (H4 & H4') & H5 & H6).
  unfold mstep. destruct (nth_error (m_thr c) t) as [th|] eqn:E; [|assumption].
  destruct (m_pc th) eqn:Epc; [| assumption | |].
  - (* MIdle *)
    destruct (m_ops th) as [|[|k|k u] r] eqn:Eops.
    + apply (minv_set_thr c t th _ H E); [thr_blocks_eq bb | log_sub].
    + apply (minv_set_thr c t th _ H E); [thr_blocks_eq bb | log_sub].
    + destruct (nth_error (m_held th) k) as [b|] eqn:Eh;
        apply (minv_set_thr c t th _ H E); [thr_blocks_eq bb | log_sub | thr_blocks_eq bb | log_sub].
    + (* MGive *)
      destruct (nth_error (m_held th) k) as [e|] eqn:Eh; [|apply (minv_set_thr c t th _ H E); [thr_blocks_eq bb | log_sub]].
      destruct (nth_error (m_thr c) u) as [tu0|] eqn:Eu; [|apply (minv_set_thr c t th _ H E); [thr_blocks_eq bb | log_sub]].
      m_simpl.
      destruct (nth_error (upd (m_thr c) t (mfinish th r (remove_nth k (m_held th)) MOk)) u) as [tu|] eqn:Eu2;
        [|exfalso; exact (upd_not_none _ _ _ _ _ _ E Eu Eu2)].
      match goal with |- MInv ?x => change x with (with_thr c (upd (upd (m_thr c) t (mfinish th r (remove_nth k (m_held th)) MOk)) u
                                     (mgoto tu (m_ops tu) (m_held tu ++ [e]) (m_pc tu)))) end.
      apply minv_thr_change; [assumption| | |].
      * rewrite (len_upd _ _ _ _ Eu2). apply (len_upd _ _ _ _ E).
      * intros bb. rewrite (occ_flat_upd _ _ _ _ _ bb Eu2), (occ_flat_upd _ _ _ _ _ bb E).
        unfold mthr_blocks; m_simpl. rewrite !occ_app, (occ_remove_nth _ _ _ bb Eh), Epc. cbn [mpc_blocks].
        rewrite mpc_blocks_rest, occ_nil. lia.
      * intros u' th' b Hu' Hb.
        destruct (log_upd _ _ _ (mgoto tu (m_ops tu) (m_held tu ++ [e]) (m_pc tu)) Eu2 (fun b Hx => Hx) _ _ _ Hu' Hb) as (th2 & Hth2 & Hin2).
        apply (log_upd _ _ _ (mfinish th r (remove_nth k (m_held th)) MOk) E) with (th' := th2); [log_sub|assumption|assumption].
  - (* MPop *)
    destruct (nth_error (m_pools c) t) as [[|b l]|] eqn:Ep.
    + (* allocate_when_empty *)
      assert (Ht : (t < length (m_thr c))%nat) by (apply nth_error_Some; congruence).
      destruct (nth_error (m_nbelt c) t) as [n|] eqn:En; [|apply nth_error_None in En; lia].
      unfold MInv, mnew_elt; m_simpl. rewrite En. m_simpl.
      split; [|split; [|split; [|split; [|split]]]].
      * intros bb. specialize (H1 bb). unfold owner_count in *; m_simpl.
        m_occ_norm bb. unfold m_all_blocks in H1. rewrite concat_flatT, occ_app in H1.
        rewrite app_length; cbn [length]. rewrite occ_single.
        destruct (Nat.eqb (length (m_owner c)) bb) eqn:Eb.
        -- apply Nat.eqb_eq in Eb. subst bb. rewrite Nat.ltb_irrefl in H1.
           replace (length (m_owner c) <? length (m_owner c) + 1)%nat with true by (symmetry; apply Nat.ltb_lt; lia). lia.
        -- apply Nat.eqb_neq in Eb.
           replace (bb <? length (m_owner c) + 1)%nat with (bb <? length (m_owner c))%nat; [lia|].
           destruct (bb <? length (m_owner c))%nat eqn:E1; symmetry; [apply Nat.ltb_lt in E1; apply Nat.ltb_lt; lia|].
           apply Nat.ltb_ge in E1. apply Nat.ltb_ge. lia.
      * apply Forall_app. split; [assumption|]. constructor; [lia|constructor].
      * intros p l b Hp Hb. apply nth_error_snoc_old. eauto.
      * rewrite (len_upd _ _ _ _ E), (len_upd _ _ _ _ En). lia.
      * rewrite (sumZ_upd _ _ _ _ En), app_length. cbn [length]. lia.
      * intros u th' b Hu Hb. destruct (Nat.eq_dec u t) as [->|Hne].
        -- rewrite (nth_upd_same _ _ _ _ E) in Hu. inv Hu. m_simpl. destruct Hb as [Hb|Hb].
           ++ inv Hb. apply nth_error_snoc_new.
           ++ apply nth_error_snoc_old. eauto.
        -- rewrite (nth_upd_other _ _ _ _ _ E Hne) in Hu. apply nth_error_snoc_old. eauto.
    + (* pop b *)
      unfold MInv; m_simpl. split; [|split; [|split; [|split; [|split]]]].
      * intros bb. specialize (H1 bb). unfold owner_count in *; m_simpl. rewrite <- H1.
        m_occ_norm bb. rewrite ?(occ_cons bb b l). lia.
      * rewrite (len_upd _ _ _ _ Ep). assumption.
      * intros p l' b' Hp Hb. destruct (Nat.eq_dec p t) as [->|Hne].
        -- rewrite (nth_upd_same _ _ _ _ Ep) in Hp. inv Hp. apply (H3 t (b :: l')); [assumption|now right].
        -- rewrite (nth_upd_other _ _ _ _ _ Ep Hne) in Hp. eauto.
      * rewrite (len_upd _ _ _ _ E), (len_upd _ _ _ _ Ep). lia.
      * assumption.
      * intros u th' b' Hu Hb. destruct (Nat.eq_dec u t) as [->|Hne].
        -- rewrite (nth_upd_same _ _ _ _ E) in Hu. inv Hu. m_simpl. destruct Hb as [Hb|Hb].
           ++ inv Hb. apply (H3 t (b' :: l)); [assumption|now left].
           ++ eauto.
        -- rewrite (nth_upd_other _ _ _ _ _ E Hne) in Hu. eauto.
    + apply (minv_set_thr c t th _ H E); [thr_blocks_eq bb | log_sub].
  - (* MPush b *)
    assert (Hb : 1 <= occ b (m_all_blocks c)).
    { apply (m_in_blocks_thr c t th b E). unfold mthr_blocks. rewrite Epc. left. reflexivity. }
    destruct (owner_of_live c b H Hb) as (o & l & Eo & El). rewrite Eo, El.
    unfold MInv; m_simpl. split; [|split; [|split; [|split; [|split]]]].
    + intros bb. specialize (H1 bb). unfold owner_count in *; m_simpl. rewrite <- H1.
      m_occ_norm bb. rewrite ?(occ_cons bb b l). lia.
    + rewrite (len_upd _ _ _ _ El). assumption.
    + intros p l' b' Hp Hb'. destruct (Nat.eq_dec p o) as [->|Hne].
      * rewrite (nth_upd_same _ _ _ _ El) in Hp. inv Hp. destruct Hb' as [->|Hb']; [assumption|eauto].
      * rewrite (nth_upd_other _ _ _ _ _ El Hne) in Hp. eauto.
    + rewrite (len_upd _ _ _ _ E), (len_upd _ _ _ _ El). lia.
    + assumption.
    + intros u th' b' Hu Hb'. destruct (Nat.eq_dec u t) as [->|Hne].
      * rewrite (nth_upd_same _ _ _ _ E) in Hu. inv Hu. m_simpl. destruct Hb' as [Hb'|Hb']; [discriminate|eauto].
      * rewrite (nth_upd_other _ _ _ _ _ E Hne) in Hu. eauto.
Qed.

Lemma minv_init progs : MInv (minit progs).
Proof.
  unfold MInv, minit; m_simpl. split; [|split; [|split; [|split; [|split]]]].
  - intros b. unfold owner_count, m_all_blocks; m_simpl. cbn [length]. replace (b <? 0)%nat with false by (symmetry; apply Nat.ltb_ge; lia).
    rewrite flatT_map_nil by reflexivity. cbn [app]. rewrite concat_flatT, flatT_map_nil by reflexivity. reflexivity.
  - constructor.
  - intros p l b Hp Hb. apply nth_error_map_inv in Hp. destruct Hp as (x & _ & <-). destruct Hb.
  - rewrite !map_length. auto.
  - induction progs as [|x l IH]; [reflexivity|]. cbn [map sumZ length] in *. lia.
  - intros t th b Ht Hb. apply nth_error_map_inv in Ht. destruct Ht as (x & _ & <-). destruct Hb.
Qed.
Lemma minv_run progs sched : MInv (mrun (minit progs) sched).
Proof. unfold mrun. apply fold_left_inv; [intros a b; apply minv_step | apply minv_init]. Qed.

(* every element is at one place only: never in the hands of two threads, never held and pooled, never in two pools *)
Theorem mempool_never_twice progs sched :
  let c := mrun (minit progs) sched in
  NoDup (m_all_blocks c) /\
  (forall t u th tu b, nth_error (m_thr c) t = Some th -> nth_error (m_thr c) u = Some tu ->
     In b (mthr_blocks th) -> In b (mthr_blocks tu) -> t = u).
Proof.
  intros c. destruct (minv_run progs sched) as (H1 & _). fold c in H1.
  assert (Hle : forall b, occ b (m_all_blocks c) <= 1).
  { intros b. rewrite H1. unfold owner_count. destruct (b <? _)%nat; lia. }
  split; [apply NoDup_occ; assumption|].
  intros t u th tu b Ht Hu Hb Hb'. destruct (Nat.eq_dec t u) as [|Hne]; [assumption|exfalso].
  specialize (Hle b). unfold m_all_blocks in Hle. rewrite occ_app in Hle.
  pose proof (occ_flat_two mthr_blocks _ _ _ _ _ b Hne Ht Hu).
  apply occ_pos_iff in Hb, Hb'. pose proof (occ_nonneg b (concat (m_pools c))). lia.
Qed.

(* free returns an element to the pool of the thread mempool recorded in it, and a thread obtains
   from its own pool only elements it owns *)
Theorem mempool_returns_to_owner progs sched :
  let c := mrun (minit progs) sched in
  (forall p l b, nth_error (m_pools c) p = Some l -> In b l -> nth_error (m_owner c) b = Some p) /\
  (forall t th b, nth_error (m_thr c) t = Some th -> In (MGot b) (m_log th) -> nth_error (m_owner c) b = Some t).
Proof. intros c. destruct (minv_run progs sched) as (_ & _ & H3 & _ & _ & H6). split; assumption. Qed.

(* no element is lost: each created element is held, in flight or pooled exactly once; nb_elt counts creations
   (the value returned by parsec_mempool_destruct) *)
Theorem mempool_accounting progs sched :
  let c := mrun (minit progs) sched in
  (forall b, (b < length (m_owner c))%nat -> occ b (m_all_blocks c) = 1) /\
  (forall b, In b (m_all_blocks c) -> (b < length (m_owner c))%nat) /\
  m_usage c = Z.of_nat (length (m_owner c)).
Proof.
  intros c. destruct (minv_run progs sched) as (H1 & _ & _ & _ & H5 & _). fold c in H1, H5. repeat split.
  - intros b Hb. rewrite H1. unfold owner_count. apply Nat.ltb_lt in Hb. rewrite Hb. reflexivity.
  - intros b Hb. apply occ_pos_iff in Hb. rewrite H1 in Hb. unfold owner_count in Hb.
    destruct (b <? length (m_owner c))%nat eqn:E; [apply Nat.ltb_lt in E; assumption|lia].
  - exact H5.
Qed.
