(* Ops — the matrix operators of parsec/data_dist/matrix (C22).  NO proofs here.

   * apply / reduce / reduce_col / reduce_row: the execution spaces, placements and
     dependencies are NOT written here: they are the definitions of Gen/Gen_ops.v,
     regenerated from the .jdf text (and from the argument binding of the C wrappers)
     by tools/jdf2ast.py on every run of the check.  This file adds the specification
     side (tile lists, regions, sequential fold), the evaluation of a reduction tree
     along the input dependencies, and the functions printed by ocaml/d_ops.ml.
   * map_operator.c is a hand-written task class; its iterator
     (parsec_map_operator_startup_fn + iterate_successors, one shared counter next_n
     advanced with parsec_atomic_fetch_inc_int32) is modelled here as a transition
     system whose steps are the code between two atomic increments. *)
From Coq Require Import ZArith List Bool String Arith.
From PV Require Import Ops.OpsBase Gen.Gen_ops.
Import ListNotations.
Local Open Scope Z_scope.

(* ------------------------------------------------------------------ tiles *)
Definition tile : Type := (Z * Z)%type.
Definition tiles (mt nt : Z) : list tile :=
  flat_map (fun m => map (fun n => (m, n)) (zrange 0 (nt - 1))) (zrange 0 (mt - 1)).
(* the part of the tile grid named by uplo (PARSEC_MATRIX_UPPER / LOWER / FULL) *)
Definition in_region (uplo m n : Z) : bool :=
  if uplo =? matrix_upper_v then m <=? n
  else if uplo =? matrix_lower_v then n <=? m
  else true.
Definition region (uplo mt nt : Z) : list tile :=
  filter (fun t => in_region uplo (fst t) (snd t)) (tiles mt nt).
Definition valid_uplo (uplo : Z) : bool :=
  (uplo =? matrix_upper_v) || (uplo =? matrix_lower_v) || (uplo =? matrix_full_v).

(* ------------------------------------------------ generic view of a class *)
(* the calls of the user operator made by the instances of a class, in the order of the space *)
Definition calls_of (c : gclass) : list (list Z) :=
  flat_map (fun ps => match g_opcall c ps with Some a => [a] | None => [] end) (g_space c).
Definition all_calls (cs : list gclass) : list (list Z) := flat_map calls_of cs.
Definition nb_instances (cs : list gclass) : nat := List.length (flat_map g_space cs).

Definition zlist_eqb (a b : list Z) : bool :=
  (Nat.eqb (List.length a) (List.length b)) && forallb (fun xy => fst xy =? snd xy) (combine a b).
Definition ref_eqb (a b : ref) : bool :=
  match a, b with
  | RData c x, RData d y => String.eqb c d && zlist_eqb x y
  | RTask c f x, RTask d g y => String.eqb c d && String.eqb f g && zlist_eqb x y
  | RNew, RNew => true
  | RNull, RNull => true
  | _, _ => false
  end.
Definition mem_space (ps : list Z) (sp : list (list Z)) : bool := existsb (zlist_eqb ps) sp.

(* ------------------------------------------------------------------ apply *)
(* operator call [u; m; n]: the operator is applied to tile (m, n) with uplo argument u *)
Definition call_tile (a : list Z) : tile :=
  match a with [_; m; n] => (m, n) | _ => (-1, -1) end.
Definition call_uplo (a : list Z) : Z := match a with u :: _ => u | [] => -1 end.
Definition apply_calls (uplo mt nt : Z) : list (list Z) :=
  all_calls (apply_classes (apply_New_G uplo {| md_mt := mt; md_nt := nt; md_lmt := mt; md_lnt := nt |})).
(* an instance works on the tile it names: placed on it, reads flow A from it, writes it back *)
Definition inst_on_tile (c : gclass) (ps : list Z) : bool :=
  match g_opcall c ps with
  | Some [_; m; n] =>
      let r := RData "descA" [m; n] in
      ref_eqb (g_place c ps) r
      && match active_in (g_in c "A" ps) with Some x => ref_eqb x r | None => false end
      && match active_outs (g_out c "A" ps) with [x] => ref_eqb x r | _ => false end
  | _ => false
  end.
Definition apply_insts_on_tile (uplo mt nt : Z) : bool :=
  forallb (fun c => forallb (inst_on_tile c) (g_space c))
          (apply_classes (apply_New_G uplo {| md_mt := mt; md_nt := nt; md_lmt := mt; md_lnt := nt |})).

(* block-cyclic owner (two_dim_rectangle_cyclic.c:twoDBC_rank_of with kp = kq = 1, ip = jq = 0) *)
Definition owner (P Q m n : Z) : Z := (Z.rem m P) * Q + Z.rem n Q.

(* ----------------------------------------------------------------- reduce *)
(* reduce.jdf: value carried by flow C of reduce(l, p) when every task computes
   C := A op B (C := A when B is NULL), evaluated along the ACTIVE INPUT dependencies of
   the generated definitions; a task dependency must name an instance of the execution space *)
Section ReduceVal.
  Context {V : Type}.
  Variable op : V -> V -> V.
  Variable tl : Z -> V.          (* the tile descA(i, 0) *)
  Variable G : reduce_G.

  Definition rd_data (r : ref) : option Z :=
    match r with
    | RData c [i; j] => if String.eqb c "descA" && (j =? 0) then Some i else None
    | _ => None
    end.
  Definition rd_task (r : ref) : option (Z * Z) :=
    match r with
    | RTask c f [l; p] =>
        if String.eqb c "reduce" && String.eqb f "C" && mem_space [l; p] (reduce_reduce_space G)
        then Some (l, p) else None
    | _ => None
    end.

  Fixpoint rval (fuel : nat) (l p : Z) : option V :=
    match fuel with
    | O => None
    | S f =>
        let get (r : ref) : option V :=
          match rd_data r with
          | Some i => Some (tl i)
          | None => match rd_task r with Some (l', p') => rval f l' p' | None => None end
          end in
        match active_in (reduce_reduce_in_A G l p) with
        | None => None
        | Some ra =>
            match get ra with
            | None => None
            | Some a =>
                match active_in (reduce_reduce_in_B G l p) with
                | None => Some a
                | Some RNull => Some a
                | Some rb => match get rb with Some b => Some (op a b) | None => None end
                end
            end
        end
    end.
End ReduceVal.

Definition reduce_G_of (mt : Z) : reduce_G := {| reduce_descA_mt := mt |}.
(* the source tiles under the root, in order: op = ++ *)
Definition reduce_leaves (mt : Z) : option (list Z) :=
  let G := reduce_G_of mt in
  rval (@app Z) (fun i => [i]) G (S (Z.to_nat (reduce_depth G + 1))) (reduce_depth G + 1) 0.
Definition reduce_root_value {V} (op : V -> V -> V) (tl : Z -> V) (mt : Z) : option V :=
  let G := reduce_G_of mt in
  rval op tl G (S (Z.to_nat (reduce_depth G + 1))) (reduce_depth G + 1) 0.
(* sequential fold over a non-empty list *)
Definition fold1 {V} (op : V -> V -> V) (l : list V) : option V :=
  match l with [] => None | x :: r => Some (fold_left op r x) end.
Definition reduce_root_out (mt : Z) : list ref :=
  let G := reduce_G_of mt in active_outs (reduce_reduce_out_C G (reduce_depth G + 1) 0).
(* source tiles read by the instances (flows A and B), with the reading instance *)
Definition reduce_tile_reads (mt : Z) : list (list Z * Z) :=
  let G := reduce_G_of mt in
  flat_map (fun ps => match ps with
                      | [l; p] =>
                          (match active_in (reduce_reduce_in_A G l p) with
                           | Some r => match rd_data r with Some i => [(ps, i)] | None => [] end | None => [] end)
                          ++ (match active_in (reduce_reduce_in_B G l p) with
                              | Some r => match rd_data r with Some i => [(ps, i)] | None => [] end | None => [] end)
                      | _ => [] end) (reduce_reduce_space G).

(* ------------------------------------------- reduce_col / reduce_row (wrappers) *)
Definition md_of (mt nt : Z) : mdesc := {| md_mt := mt; md_nt := nt; md_lmt := mt; md_lnt := nt |}.
Definition tile_in_matrix (d : mdesc) (r : ref) : bool :=
  match r with
  | RData _ [m; n] => (0 <=? m) && (m <? md_lmt d) && (0 <=? n) && (n <? md_lnt d)
  | _ => false
  end.
(* placements / data references of a class that fall outside the matrix *)
Definition out_of_matrix (d : mdesc) (c : gclass) : list (list Z) :=
  filter (fun ps => negb (tile_in_matrix d (g_place c ps))) (g_space c).
(* task inputs that name no instance of the program: such an instance is never released *)
Definition find_class (cs : list gclass) (n : string) : option gclass :=
  find (fun c => String.eqb (g_name c) n) cs.
Definition dangling_inputs (cs : list gclass) : list (string * list Z * string) :=
  flat_map (fun c =>
    flat_map (fun ps =>
      flat_map (fun f =>
        match active_in (g_in c f ps) with
        | Some (RTask cn _ args) =>
            match find_class cs cn with
            | Some c' => if mem_space args (g_space c') then [] else [(g_name c, ps, f)]
            | None => [(g_name c, ps, f)]
            end
        | _ => []
        end) (g_flows c)) (g_space c)) cs.

(* ----------------------------------------------------------- map_operator *)
(* map_operator.c with one virtual process.  Shared state: next_n (last claimed column).
   Agents: the startup function (one loop iteration of `for( ; n < nt; )` per step) and one
   chain per task it created; a chain alternates "execute task (m, n), then look for the next
   local tile below it" and "claim the next column with fetch_inc".  Every step contains at
   most one access to next_n. *)
Local Close Scope Z_scope.
Local Open Scope nat_scope.
Inductive agent :=
| SU (n count : nat)       (* parsec_map_operator_startup_fn at the head of its column loop *)
| Task (m n : nat)         (* a ready task map_operator(m, n) *)
| Claim                    (* iterate_successors about to execute fetch_inc(&next_n) *)
| Done.
Record mstate := { m_next : nat; m_agents : list agent; m_log : list (nat * nat) }.

Section MapOp.
  Variables mt nt ncores : nat.
  Variable local : nat -> nat -> bool.     (* rank_of(m, n) == myrank *)

  (* for( ; m < mt; m++ ) if local … : first local row >= m of column n *)
  Fixpoint scan_fuel (k m n : nat) : option nat :=
    match k with
    | O => None
    | S k' => if local m n then Some m else scan_fuel k' (S m) n
    end.
  Definition scan (m n : nat) : option nat := scan_fuel (mt - m) m n.

  Definition after_claim (n' : nat) : agent :=
    if n' <? nt then match scan 0 n' with Some m => Task m n' | None => Claim end else Done.

  Definition upd_agent (l : list agent) (i : nat) (a : agent) : list agent :=
    firstn i l ++ a :: skipn (S i) l.

  Definition mstep (s : mstate) (i : nat) : mstate :=
    match nth_error (m_agents s) i with
    | None => s
    | Some Done => s
    | Some (Task m n) =>
        (* hook_of: op(m, n); complete_hook -> iterate_successors from row m+1 of column n *)
        let a := match scan (S m) n with Some m' => Task m' n | None => Claim end in
        {| m_next := m_next s; m_agents := upd_agent (m_agents s) i a; m_log := (m, n) :: m_log s |}
    | Some Claim =>
        let n' := S (m_next s) in
        {| m_next := n'; m_agents := upd_agent (m_agents s) i (after_claim n'); m_log := m_log s |}
    | Some (SU n c) =>
        if n <? nt then
          match scan 0 n with
          | Some m =>
              let c' := S c in
              if c' =? ncores then
                {| m_next := m_next s; m_agents := upd_agent (m_agents s) i Done ++ [Task m n]; m_log := m_log s |}
              else
                let n' := S (m_next s) in
                {| m_next := n'; m_agents := upd_agent (m_agents s) i (SU n' c') ++ [Task m n]; m_log := m_log s |}
          | None =>
              let n' := S (m_next s) in
              {| m_next := n'; m_agents := upd_agent (m_agents s) i (SU n' c); m_log := m_log s |}
          end
        else {| m_next := m_next s; m_agents := upd_agent (m_agents s) i Done; m_log := m_log s |}
    end.

  Definition minit : mstate := {| m_next := 0; m_agents := [SU 0 0]; m_log := [] |}.
  Definition mrun (sched : list nat) : mstate := fold_left mstep sched minit.
  Definition is_done (a : agent) : bool := match a with Done => true | _ => false end.
  Definition mfinal (s : mstate) : bool := forallb is_done (m_agents s).

  (* round-robin completion used by the drivers after the given schedule *)
  Fixpoint mcomplete (fuel : nat) (s : mstate) : mstate :=
    match fuel with
    | O => s
    | S f => if mfinal s then s
             else mcomplete f (fold_left mstep (seq 0 (List.length (m_agents s))) s)
    end.

  (* specification: the local tiles, column by column *)
  Definition col_from (m n : nat) : list (nat * nat) :=
    map (fun r => (r, n)) (filter (fun r => local r n) (seq m (mt - m))).
  Definition local_tiles : list (nat * nat) := flat_map (col_from 0) (seq 0 nt).
End MapOp.

(* ownership used by the drivers: block-cyclic over a P x Q grid *)
Definition bc_local (P Q me : nat) (m n : nat) : bool :=
  Nat.eqb ((m mod P) * Q + (n mod Q)) me.
Definition map_visits (mt nt ncores P Q me : nat) (sched : list nat) : list (nat * nat) * bool :=
  let s := mrun mt nt ncores (bc_local P Q me) sched in
  let s' := mcomplete mt nt ncores (bc_local P Q me) (4 * (mt * nt + nt + ncores) + 8) s in
  (rev (m_log s'), mfinal s').

(* map_operator.c sets nb_tasks = src->nb_local_tiles (tiles of the STORED grid owned by this
   process) and nb_pending_actions = 1 in its constructor; the local termination detector
   releases that pending action only when nb_tasks goes from positive to zero
   (mca/termdet/local: taskpool_addto_nb_tasks).  The taskpool therefore completes on a process
   iff it owns at least one stored tile and executes exactly that many tasks.
   fixed = true: the repair of notes/findings/C22-map-operator-termination.patch (nb_tasks = number
   of local tiles of the iteration space, no pending action when there is none). *)
Definition map_completes (fixed : bool) (nb_local_tiles visited : nat) : bool :=
  if fixed then true else negb (nb_local_tiles =? 0) && (visited =? nb_local_tiles).

(* ------------------------------------------------ functions printed by the driver *)
Local Close Scope nat_scope.
Local Open Scope Z_scope.

(* apply: one entry [m; n; u; r] per operator call, r = owner of the tile the instance is placed on *)
Definition place_owner (P Q : Z) (r : ref) : Z :=
  match r with RData _ [m; n] => owner P Q m n | _ => -1 end.
Definition class_run (P Q : Z) (c : gclass) : list (list Z) :=
  flat_map (fun ps => match g_opcall c ps with
                      | Some [u; m; n] => [[m; n; u; place_owner P Q (g_place c ps)]]
                      | Some a => [a]
                      | None => [] end) (g_space c).
Definition apply_run (uplo mt nt P Q : Z) : list (list Z) :=
  flat_map (class_run P Q) (apply_classes (apply_New_G uplo (md_of mt nt))).

(* reduce with the logging body: six slots [sum; max; sum of squares; count; lowest index; highest index] *)
Definition slot_op (a b : list Z) : list Z :=
  match a, b with
  | [a0; a1; a2; a3; a4; a5], [b0; b1; b2; b3; b4; b5] =>
      [a0 + b0; Z.max a1 b1; a2 + b2; a3 + b3; Z.min a4 b4; Z.max a5 b5]
  | _, _ => []
  end.
Definition slot_tile (vals : list Z) (i : Z) : list Z :=
  let v := nth (Z.to_nat i) vals 0 in [v; v; v * v; 1; i; i].
Definition reduce_run (mt : Z) (vals : list Z) : list (list Z * option (list Z)) :=
  let G := reduce_G_of mt in
  map (fun ps => match ps with
                 | [l; p] => (ps, rval slot_op (slot_tile vals) G (S (Z.to_nat l)) l p)
                 | _ => (ps, None) end) (reduce_reduce_space G).
Definition reduce_root_run (mt : Z) (vals : list Z) : option (list Z) :=
  reduce_root_value slot_op (slot_tile vals) mt.
Definition reduce_space_of (mt : Z) : list (list Z) := reduce_reduce_space (reduce_G_of mt).
Definition reduce_depth_of (mt : Z) : Z := reduce_depth (reduce_G_of mt).

(* reduce_col / reduce_row through their wrappers: number of operator calls; is there anything
   outside the matrix / waiting for a task that does not exist / a collection reference with
   the wrong number of indices *)
Definition bad_arity (c : gclass) : bool :=
  existsb (fun ps => existsb (fun f => existsb (fun r => match r with RData _ [_; _] => false | RData _ _ => true | _ => false end)
                                               (active_outs (g_out c f ps))) (g_flows c)) (g_space c).
Definition skeleton_run (col : bool) (mt nt : Z) : Z * bool :=
  let src := md_of mt nt in
  let cs := if col then rcol_classes (rcol_New_G src (md_of 1 nt)) else rrow_classes (rrow_New_G src (md_of mt 1)) in
  (Z.of_nat (List.length (all_calls cs)),
   existsb (fun c => negb (Nat.eqb (List.length (out_of_matrix src c)) 0)) cs
   || negb (Nat.eqb (List.length (dangling_inputs cs)) 0)
   || existsb bad_arity cs).
