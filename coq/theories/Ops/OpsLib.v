(* Ops — list lemmas used by the proofs of C22 (ranges, flat_map, NoDup, Permutation). *)
From Coq Require Import ZArith List Bool Lia Permutation Arith.
From PV Require Import Base.Tac Ops.OpsBase.
Import ListNotations.
Local Open Scope Z_scope.

Lemma In_zrange x lo hi : In x (zrange lo hi) <-> lo <= x <= hi.
Proof.
  unfold zrange. rewrite in_map_iff. split.
  - intros (i & <- & Hi). apply in_seq in Hi. lia.
  - intros H. exists (Z.to_nat (x - lo)). split; [lia|]. apply in_seq. lia.
Qed.

Lemma NoDup_zrange lo hi : NoDup (zrange lo hi).
Proof.
  unfold zrange. apply FinFun.Injective_map_NoDup; [|apply seq_NoDup].
  intros a b H. lia.
Qed.

Lemma zrange_empty lo hi : hi < lo -> zrange lo hi = [].
Proof. intros H. unfold zrange. replace (Z.to_nat (hi - lo + 1)) with O by lia. reflexivity. Qed.

Lemma zrange_cons lo hi : lo <= hi -> zrange lo hi = lo :: zrange (lo + 1) hi.
Proof.
  intros H. unfold zrange.
  replace (Z.to_nat (hi - lo + 1)) with (S (Z.to_nat (hi - (lo + 1) + 1))) by lia.
  cbn [seq map]. f_equal; [lia|]. rewrite <- seq_shift, map_map. apply map_ext. intros a. lia.
Qed.

Lemma zrange_single a : zrange a a = [a].
Proof. rewrite zrange_cons by lia. rewrite zrange_empty by lia. reflexivity. Qed.

Lemma seq_shift_by k : forall len s, seq (s + k) len = map (fun i => (i + k)%nat) (seq s len).
Proof. induction len as [|len IH]; intros s; cbn [seq map]; [reflexivity|]. f_equal. apply (IH (S s)). Qed.

Lemma zrange_app lo mid hi : lo <= mid + 1 -> mid <= hi -> zrange lo mid ++ zrange (mid + 1) hi = zrange lo hi.
Proof.
  intros H1 H2. unfold zrange.
  replace (Z.to_nat (hi - lo + 1)) with (Z.to_nat (mid - lo + 1) + Z.to_nat (hi - (mid + 1) + 1))%nat by lia.
  rewrite seq_app, map_app. f_equal.
  rewrite seq_shift_by, map_map. apply map_ext. intros a. lia.
Qed.

Lemma NoDup_app_intro {A} (a b : list A) :
  NoDup a -> NoDup b -> (forall x, In x a -> ~ In x b) -> NoDup (a ++ b).
Proof.
  induction a as [|x a IH]; intros Ha Hb Hd; cbn [app]; [assumption|].
  inv Ha. constructor.
  - rewrite in_app_iff. intros [H|H]; [contradiction|]. apply (Hd x); [left; reflexivity|assumption].
  - apply IH; auto. intros y Hy. apply Hd. right; assumption.
Qed.

Lemma NoDup_flat_map_disjoint {A B} (f : A -> list B) (l : list A) :
  NoDup l -> (forall x, In x l -> NoDup (f x)) ->
  (forall x y z, In x l -> In y l -> x <> y -> In z (f x) -> ~ In z (f y)) ->
  NoDup (flat_map f l).
Proof.
  induction l as [|a l IH]; intros Hl Hf Hd; cbn [flat_map]; [constructor|].
  inv Hl. apply NoDup_app_intro.
  - apply Hf. left; reflexivity.
  - apply IH; auto.
    + intros x Hx. apply Hf. right; assumption.
    + intros x y z Hx Hy. apply Hd; right; assumption.
  - intros z Hz Hz'. apply in_flat_map in Hz'. destruct Hz' as (y & Hy & Hzy).
    apply (Hd a y z); auto; [left; reflexivity|right; assumption|].
    intros ->. contradiction.
Qed.

(* rows of pairs *)
Lemma NoDup_pairs {A B} (R1 : list A) (sp2 : A -> list B) :
  NoDup R1 -> (forall m, In m R1 -> NoDup (sp2 m)) ->
  NoDup (flat_map (fun m => map (fun n => (m, n)) (sp2 m)) R1).
Proof.
  intros H1 H2. apply NoDup_flat_map_disjoint; auto.
  - intros m Hm. apply FinFun.Injective_map_NoDup; [|auto]. intros a b E. inv E. reflexivity.
  - intros x y z _ _ Hxy Hz Hz'. apply in_map_iff in Hz, Hz'.
    destruct Hz as (n & <- & _). destruct Hz' as (n' & E & _). inv E. contradiction.
Qed.

Lemma In_pairs {A B} (R1 : list A) (sp2 : A -> list B) m n :
  In (m, n) (flat_map (fun m => map (fun n => (m, n)) (sp2 m)) R1) <-> In m R1 /\ In n (sp2 m).
Proof.
  rewrite in_flat_map. split.
  - intros (x & Hx & H). apply in_map_iff in H. destruct H as (y & E & Hy). inv E. auto.
  - intros [H1 H2]. exists m. split; auto. apply in_map_iff. exists n. auto.
Qed.

Lemma flat_map_flat_map {A B C} (f : A -> list B) (g : B -> list C) l :
  flat_map g (flat_map f l) = flat_map (fun x => flat_map g (f x)) l.
Proof. induction l as [|a l IH]; cbn [flat_map]; [reflexivity|]. rewrite flat_map_app, IH. reflexivity. Qed.

Lemma map_flat_map {A B C} (f : A -> list B) (g : B -> C) l :
  map g (flat_map f l) = flat_map (fun x => map g (f x)) l.
Proof. induction l as [|a l IH]; cbn [flat_map map]; [reflexivity|]. rewrite map_app, IH. reflexivity. Qed.

Lemma flat_map_single {A B} (f : A -> B) l : flat_map (fun x => [f x]) l = map f l.
Proof. induction l as [|a l IH]; cbn [flat_map map app]; [reflexivity|]. rewrite IH. reflexivity. Qed.

(* C operators *)
Lemma cb_0 b : (cb b =? 0) = negb b. Proof. destruct b; reflexivity. Qed.
Lemma c_band_cb a b : c_band (cb a) (cb b) = cb (a && b).
Proof. destruct a, b; reflexivity. Qed.
Lemma c_shl_1 l : 0 <= l -> c_shl 1 l = 2 ^ l.
Proof. intros H. unfold c_shl. rewrite Z.shiftl_1_l. reflexivity. Qed.
