(* Ops — map_operator.c: for every number of cores, every ownership predicate and EVERY
   interleaving of the startup function and the task chains, no tile is visited twice, only
   local tiles are visited, and when all agents have finished the visits are exactly the
   local tiles (each once).  Every non-finished agent can take a step and every step
   decreases a measure, so every run can be completed and every complete run is finite. *)
From Coq Require Import List Bool Lia Permutation Arith PeanoNat.
From PV Require Import Base.Tac Ops.OpsBase Ops.OpsDefs Ops.OpsLib.
Import ListNotations.
Local Open Scope nat_scope.

Definition tile_dec : forall a b : nat * nat, {a = b} + {a <> b}.
Proof. decide equality; apply Nat.eq_dec. Defined.
Definition cnt (x : nat * nat) (l : list (nat * nat)) : nat := count_occ tile_dec l x.
Lemma cnt_app x a b : cnt x (a ++ b) = cnt x a + cnt x b.
Proof. apply count_occ_app. Qed.
Lemma cnt_nil x : cnt x [] = 0. Proof. reflexivity. Qed.

Section MapProofs.
  Variables mt nt ncores : nat.
  Variable local : nat -> nat -> bool.
  Notation scan := (scan mt local).
  Notation col_from := (col_from mt local).
  Notation mstep := (mstep mt nt ncores local).
  Notation local_tiles := (local_tiles mt nt local).

  (* ---- scan *)
  Lemma scan_fuel_some n : forall k m m', scan_fuel local k m n = Some m' ->
    m <= m' < m + k /\ local m' n = true /\
    filter (fun r => local r n) (seq m k) = filter (fun r => local r n) (seq m' (m + k - m')).
  Proof.
    induction k as [|k IH]; intros m m' H; cbn [scan_fuel] in H; [discriminate|].
    destruct (local m n) eqn:E.
    - inv H. repeat split; try lia; auto. replace (m' + S k - m') with (S k) by lia. reflexivity.
    - apply IH in H. destruct H as (H1 & H2 & H3). repeat split; try lia; auto.
      cbn [seq filter]. rewrite E. rewrite H3. f_equal. f_equal. lia.
  Qed.
  Lemma scan_fuel_none n : forall k m, scan_fuel local k m n = None ->
    filter (fun r => local r n) (seq m k) = [].
  Proof.
    induction k as [|k IH]; intros m H; cbn [scan_fuel] in H; [reflexivity|].
    destruct (local m n) eqn:E; [discriminate|]. cbn [seq filter]. rewrite E. auto.
  Qed.
  Lemma scan_some m n m' : scan m n = Some m' ->
    m <= m' < mt /\ local m' n = true /\ col_from m n = col_from m' n.
  Proof.
    unfold OpsDefs.scan. intros H. apply scan_fuel_some in H. destruct H as (H1 & H2 & H3).
    repeat split; try lia; auto. unfold OpsDefs.col_from. rewrite H3. f_equal. f_equal. f_equal. lia.
  Qed.
  Lemma scan_none m n : scan m n = None -> col_from m n = [].
  Proof. unfold OpsDefs.scan, OpsDefs.col_from. intros H. rewrite (scan_fuel_none _ _ _ H). reflexivity. Qed.
  Lemma col_from_cons m n : m < mt -> local m n = true -> col_from m n = (m, n) :: col_from (S m) n.
  Proof.
    intros H1 H2. unfold OpsDefs.col_from. replace (mt - m) with (S (mt - S m)) by lia.
    cbn [seq filter]. rewrite H2. reflexivity.
  Qed.

  (* ---- what is left to visit *)
  Definition rem_agent (a : agent) : list (nat * nat) :=
    match a with
    | SU n _ => if n <? nt then col_from 0 n else []
    | Task m n => col_from m n
    | Claim => []
    | Done => []
    end.
  Definition unclaimed (next : nat) : list (nat * nat) := flat_map (col_from 0) (seq (S next) (nt - S next)).
  Definition pending (s : mstate) : list (nat * nat) := flat_map rem_agent (m_agents s) ++ unclaimed (m_next s).
  Definition total (s : mstate) : list (nat * nat) := m_log s ++ pending s.

  Lemma unclaimed_cons next : S next < nt -> unclaimed next = col_from 0 (S next) ++ unclaimed (S next).
  Proof.
    intros H. unfold unclaimed. replace (nt - S next) with (S (nt - S (S next))) by lia. reflexivity.
  Qed.
  Lemma unclaimed_nil next : nt <= S next -> unclaimed next = [].
  Proof. intros H. unfold unclaimed. replace (nt - S next) with 0 by lia. reflexivity. Qed.

  (* ---- replacing one agent *)
  Notation upd := (upd_agent).
  Lemma nth_split (l : list agent) i a : nth_error l i = Some a -> l = firstn i l ++ a :: skipn (S i) l.
  Proof.
    revert i. induction l as [|x l IH]; intros [|i] H; cbn in H; try discriminate.
    - inv H. reflexivity.
    - cbn [firstn skipn app]. f_equal. apply IH. exact H.
  Qed.
  Lemma cnt_upd x l i old a : nth_error l i = Some old ->
    cnt x (flat_map rem_agent (upd l i a)) + cnt x (rem_agent old) =
    cnt x (flat_map rem_agent l) + cnt x (rem_agent a).
  Proof.
    intros H. rewrite (nth_split l i old H) at 2. unfold upd_agent.
    rewrite !flat_map_app. cbn [flat_map]. rewrite !cnt_app. lia.
  Qed.
  Lemma In_upd x l i old a : nth_error l i = Some old -> In x (upd l i a) -> x = a \/ In x l.
  Proof.
    intros H Hx. unfold upd_agent in Hx. apply in_app_iff in Hx. destruct Hx as [Hx|[Hx|Hx]].
    - right. rewrite <- (firstn_skipn i l). apply in_app_iff. left. exact Hx.
    - left. auto.
    - right. rewrite (nth_split l i old H). apply in_app_iff. right. right. exact Hx.
  Qed.
  Lemma final_upd l i old a ex : nth_error l i = Some old ->
    forallb is_done (upd l i a ++ ex) = true -> is_done a = true /\ forallb is_done ex = true.
  Proof.
    intros H Hf. unfold upd_agent in Hf. rewrite !forallb_app in Hf. cbn [forallb] in Hf.
    rewrite !andb_true_iff in Hf. tauto.
  Qed.
  Lemma length_upd l i old a : nth_error l i = Some old -> length (upd l i a) = length l.
  Proof.
    intros H. rewrite (nth_split l i old H) at 2. unfold upd_agent. rewrite !app_length. reflexivity.
  Qed.

  (* ---- the invariant *)
  Record Inv (s : mstate) : Prop := {
    inv_cnt  : forall x, cnt x (total s) = cnt x local_tiles;
    inv_task : forall m n, In (Task m n) (m_agents s) -> m < mt /\ n < nt /\ local m n = true;
    inv_su   : forall n c, In (SU n c) (m_agents s) -> n <= m_next s;
    inv_live : mfinal s = true -> nt <= S (m_next s)
  }.

  Lemma Inv_init : Inv (minit).
  Proof.
    constructor.
    - intros x. unfold total, pending, minit. cbn [m_log m_agents m_next flat_map rem_agent app].
      rewrite app_nil_r. unfold OpsDefs.local_tiles, unclaimed. destruct nt as [|k] eqn:E.
      + reflexivity.
      + cbn [Nat.ltb Nat.leb seq flat_map]. replace (S k - 1) with k by lia. reflexivity.
    - intros m n [H|[]]. discriminate.
    - intros n c [H|[]]. inv H. cbn. lia.
    - cbn. discriminate.
  Qed.

  Ltac agents_cases H :=
    apply in_app_iff in H; destruct H as [H|H];
    [ eapply In_upd in H; [|eassumption]; destruct H as [H|H] | destruct H as [H|[]] ].

  Lemma Inv_step s i : Inv s -> Inv (mstep s i).
  Proof.
    intros [Hc Ht Hs Hl]. unfold OpsDefs.mstep.
    destruct (nth_error (m_agents s) i) as [a|] eqn:En; [|constructor; assumption].
    assert (Hin : In a (m_agents s)) by (eapply nth_error_In; eauto).
    destruct a as [n c|m n| |].
    - (* startup *)
      destruct (n <? nt) eqn:Elt.
      + apply Nat.ltb_lt in Elt. destruct (scan 0 n) as [m|] eqn:Esc.
        * pose proof (scan_some _ _ _ Esc) as (Hm & Hloc & Hcol).
          destruct (S c =? ncores) eqn:Ec.
          -- constructor; cbn [m_next m_agents m_log].
             ++ intros x. specialize (Hc x). unfold total, pending in *. cbn [m_next m_agents m_log].
                rewrite flat_map_app. cbn [flat_map rem_agent]. rewrite !cnt_app in *.
                pose proof (cnt_upd x _ _ _ Done En) as Hu. cbn [rem_agent] in Hu.
                apply Nat.ltb_lt in Elt. rewrite Elt in Hu. rewrite Hcol in Hu. rewrite ?app_nil_r in *; rewrite ?cnt_nil in *; lia.
             ++ intros m' n' H. agents_cases H; [discriminate|auto|]. inv H. repeat split; auto; lia.
             ++ intros n' c' H. agents_cases H; [discriminate|eauto|discriminate].
             ++ unfold mfinal. cbn [m_agents]. intros Hf. eapply final_upd in Hf; [|eassumption]. destruct Hf as [_ Hf]. discriminate.
          -- constructor; cbn [m_next m_agents m_log].
             ++ intros x. specialize (Hc x). unfold total, pending in *. cbn [m_next m_agents m_log].
                rewrite flat_map_app. cbn [flat_map rem_agent]. rewrite !cnt_app in *.
                pose proof (cnt_upd x _ _ _ (SU (S (m_next s)) (S c)) En) as Hu. cbn [rem_agent] in Hu.
                pose proof Elt as Elt'. apply Nat.ltb_lt in Elt'. rewrite Elt' in Hu. rewrite Hcol in Hu.
                rewrite ?app_nil_r in *; rewrite ?cnt_nil in *.
                destruct (S (m_next s) <? nt) eqn:E2.
                ** apply Nat.ltb_lt in E2. rewrite (unclaimed_cons _ E2) in Hc. rewrite cnt_app in Hc. lia.
                ** apply Nat.ltb_ge in E2. rewrite (unclaimed_nil (m_next s)) in Hc by lia.
                   rewrite (unclaimed_nil (S (m_next s))) by lia. rewrite ?cnt_nil in *; lia.
             ++ intros m' n' H. agents_cases H; [discriminate|auto|]. inv H. repeat split; auto; lia.
             ++ intros n' c' H. agents_cases H; [inv H; lia|apply Hs in H; lia|discriminate].
             ++ unfold mfinal. cbn [m_agents]. intros Hf. eapply final_upd in Hf; [|eassumption]. destruct Hf as [_ Hf]. discriminate.
        * pose proof (scan_none _ _ Esc) as Hcol.
          constructor; cbn [m_next m_agents m_log].
          -- intros x. specialize (Hc x). unfold total, pending in *. cbn [m_next m_agents m_log].
             rewrite !cnt_app in *.
             pose proof (cnt_upd x _ _ _ (SU (S (m_next s)) c) En) as Hu. cbn [rem_agent] in Hu.
             pose proof Elt as Elt'. apply Nat.ltb_lt in Elt'. rewrite Elt' in Hu. rewrite Hcol in Hu.
             rewrite ?cnt_nil in *.
             destruct (S (m_next s) <? nt) eqn:E2.
             ++ apply Nat.ltb_lt in E2. rewrite (unclaimed_cons _ E2) in Hc. rewrite cnt_app in Hc. lia.
             ++ apply Nat.ltb_ge in E2. rewrite (unclaimed_nil (m_next s)) in Hc by lia.
                rewrite (unclaimed_nil (S (m_next s))) by lia. rewrite ?cnt_nil in *; lia.
          -- intros m' n' H. eapply In_upd in H; [|eassumption]. destruct H as [H|H]; [discriminate|auto].
          -- intros n' c' H. eapply In_upd in H; [|eassumption]. destruct H as [H|H]; [inv H; lia|apply Hs in H; lia].
          -- unfold mfinal. cbn [m_agents]. intros Hf. rewrite <- (app_nil_r (upd_agent _ _ _)) in Hf.
             eapply final_upd in Hf; [|eassumption]. destruct Hf as [Hf _]. discriminate.
      + apply Nat.ltb_ge in Elt. constructor; cbn [m_next m_agents m_log].
        * intros x. specialize (Hc x). unfold total, pending in *. cbn [m_next m_agents m_log].
          rewrite !cnt_app in *. pose proof (cnt_upd x _ _ _ Done En) as Hu. cbn [rem_agent] in Hu.
          apply Nat.ltb_ge in Elt. rewrite Elt in Hu. rewrite ?cnt_nil in *; lia.
        * intros m' n' H. eapply In_upd in H; [|eassumption]. destruct H as [H|H]; [discriminate|auto].
        * intros n' c' H. eapply In_upd in H; [|eassumption]. destruct H as [H|H]; [discriminate|eauto].
        * intros _. specialize (Hs _ _ Hin). lia.
    - (* a task executes *)
      destruct (Ht _ _ Hin) as (Hm & Hn & Hloc).
      set (a' := match scan (S m) n with Some m' => Task m' n | None => Claim end).
      assert (Hrem : rem_agent (Task m n) = (m, n) :: rem_agent a').
      { cbn [rem_agent]. rewrite (col_from_cons _ _ Hm Hloc). f_equal. subst a'.
        destruct (scan (S m) n) as [m'|] eqn:Esc; cbn [rem_agent].
        - apply scan_some in Esc. tauto.
        - apply scan_none in Esc. exact Esc. }
      constructor; cbn [m_next m_agents m_log].
      + intros x. specialize (Hc x). unfold total, pending in *. cbn [m_next m_agents m_log].
        change ((m, n) :: m_log s) with ([(m, n)] ++ m_log s). rewrite !cnt_app in *.
        pose proof (cnt_upd x _ _ _ a' En) as Hu. rewrite Hrem in Hu.
        change ((m, n) :: rem_agent a') with ([(m, n)] ++ rem_agent a') in Hu. rewrite cnt_app in Hu. lia.
      + intros m' n' H. eapply In_upd in H; [|eassumption]. destruct H as [H|H]; [|auto].
        subst a'. destruct (scan (S m) n) as [m''|] eqn:Esc; [|discriminate]. inv H.
        apply scan_some in Esc. repeat split; try tauto; lia.
      + intros n' c' H. eapply In_upd in H; [|eassumption]. destruct H as [H|H]; [|eauto].
        subst a'. destruct (scan (S m) n); discriminate.
      + unfold mfinal. cbn [m_agents]. intros Hf. rewrite <- (app_nil_r (upd_agent _ _ _)) in Hf.
        eapply final_upd in Hf; [|eassumption]. destruct Hf as [Hf _].
        subst a'. destruct (scan (S m) n); discriminate.
    - (* a claim *)
      unfold after_claim. constructor; cbn [m_next m_agents m_log].
      + intros x. specialize (Hc x). unfold total, pending in *. cbn [m_next m_agents m_log].
        rewrite !cnt_app in *.
        destruct (S (m_next s) <? nt) eqn:E2.
        * apply Nat.ltb_lt in E2. rewrite (unclaimed_cons _ E2) in Hc. rewrite cnt_app in Hc.
          destruct (scan 0 (S (m_next s))) as [m|] eqn:Esc.
          -- pose proof (cnt_upd x _ _ _ (Task m (S (m_next s))) En) as Hu. cbn [rem_agent] in Hu.
             apply scan_some in Esc. destruct Esc as (_ & _ & Hcol). rewrite <- Hcol in Hu. rewrite cnt_nil in Hu. lia.
          -- pose proof (cnt_upd x _ _ _ Claim En) as Hu. cbn [rem_agent] in Hu.
             apply scan_none in Esc. rewrite Esc in Hc. rewrite ?cnt_nil in *; lia.
        * apply Nat.ltb_ge in E2. rewrite (unclaimed_nil (m_next s)) in Hc by lia.
          rewrite (unclaimed_nil (S (m_next s))) by lia.
          pose proof (cnt_upd x _ _ _ Done En) as Hu. cbn [rem_agent] in Hu. rewrite ?cnt_nil in *; lia.
      + intros m' n' H. eapply In_upd in H; [|eassumption]. destruct H as [H|H]; [|auto].
        destruct (S (m_next s) <? nt) eqn:E2; [|discriminate]. apply Nat.ltb_lt in E2.
        destruct (scan 0 (S (m_next s))) as [m|] eqn:Esc; [|discriminate]. inv H.
        apply scan_some in Esc. repeat split; try tauto; lia.
      + intros n' c' H. eapply In_upd in H; [|eassumption]. destruct H as [H|H]; [|apply Hs in H; lia].
        destruct (S (m_next s) <? nt); [destruct (scan 0 (S (m_next s)))|]; discriminate.
      + unfold mfinal. cbn [m_agents]. intros Hf. rewrite <- (app_nil_r (upd_agent _ _ _)) in Hf.
        eapply final_upd in Hf; [|eassumption]. destruct Hf as [Hf _].
        destruct (S (m_next s) <? nt) eqn:E2.
        * destruct (scan 0 (S (m_next s))); discriminate.
        * apply Nat.ltb_ge in E2. lia.
    - constructor; assumption.
  Qed.

  Theorem Inv_run sched : Inv (mrun mt nt ncores local sched).
  Proof. unfold mrun. apply fold_left_inv; [intros; apply Inv_step; assumption|apply Inv_init]. Qed.

  (* ---- consequences *)
  Lemma NoDup_col m n : NoDup (col_from m n).
  Proof.
    unfold OpsDefs.col_from. apply FinFun.Injective_map_NoDup.
    - intros a b E. inv E. reflexivity.
    - apply NoDup_filter, seq_NoDup.
  Qed.
  Lemma NoDup_local_tiles : NoDup local_tiles.
  Proof.
    unfold OpsDefs.local_tiles. apply NoDup_flat_map_disjoint.
    - apply seq_NoDup.
    - intros c _. apply NoDup_col.
    - intros c c' [r q] _ _ Hne H1 H2. unfold OpsDefs.col_from in H1, H2.
      apply in_map_iff in H1, H2. destruct H1 as (r1 & E1 & _). destruct H2 as (r2 & E2 & _).
      inv E1. inv E2. contradiction.
  Qed.
  Lemma In_local_tiles m n : In (m, n) local_tiles <-> m < mt /\ n < nt /\ local m n = true.
  Proof.
    unfold OpsDefs.local_tiles. rewrite in_flat_map. split.
    - intros (c & Hc & H). unfold OpsDefs.col_from in H. apply in_map_iff in H. destruct H as (r & E & Hr). inv E.
      apply filter_In in Hr. destruct Hr as [Hr Hl]. apply in_seq in Hr, Hc. repeat split; auto; lia.
    - intros (H1 & H2 & H3). exists n. split; [apply in_seq; lia|]. unfold OpsDefs.col_from. apply in_map_iff.
      exists m. split; [reflexivity|]. apply filter_In. split; [apply in_seq; lia|assumption].
  Qed.

  (* at every moment of every interleaving: no tile twice, only local tiles of the matrix *)
  Theorem map_never_twice sched :
    let s := mrun mt nt ncores local sched in
    NoDup (m_log s) /\ forall m n, In (m, n) (m_log s) -> m < mt /\ n < nt /\ local m n = true.
  Proof.
    intros s. pose proof (Inv_run sched) as [Hc _ _ _]. fold s in Hc.
    assert (Hle : forall x, cnt x (m_log s) <= cnt x local_tiles).
    { intros x. rewrite <- Hc. unfold total. rewrite cnt_app. lia. }
    split.
    - apply (NoDup_count_occ tile_dec). intros x. specialize (Hle x).
      pose proof (proj1 (NoDup_count_occ tile_dec local_tiles) NoDup_local_tiles x). unfold cnt in *. lia.
    - intros m n H. apply In_local_tiles. apply (count_occ_In tile_dec) in H. specialize (Hle (m, n)).
      apply (count_occ_In tile_dec). unfold cnt in *. lia.
  Qed.

  (* a complete run visits exactly the local tiles, each once *)
  Theorem map_exactly_once sched :
    let s := mrun mt nt ncores local sched in
    mfinal s = true -> Permutation (m_log s) local_tiles.
  Proof.
    intros s Hf. pose proof (Inv_run sched) as [Hc _ _ Hl]. fold s in Hc, Hl.
    apply (Permutation_count_occ tile_dec). intros x. specialize (Hc x). unfold cnt, total, pending in Hc.
    rewrite !count_occ_app in Hc. rewrite (unclaimed_nil _ (Hl Hf)) in Hc.
    assert (Hz : flat_map rem_agent (m_agents s) = []).
    { unfold mfinal in Hf. induction (m_agents s) as [|a l IH]; [reflexivity|]. cbn [forallb] in Hf.
      apply andb_true_iff in Hf. destruct Hf as [Ha Hf]. destruct a; try discriminate. cbn [flat_map rem_agent app]. auto. }
    rewrite Hz in Hc. cbn [count_occ] in Hc. lia.
  Qed.

  (* ---- progress: every agent that has not finished can step, and a step decreases the measure *)
  Definition weight (a : agent) : nat :=
    match a with SU n _ => if n <? nt then 4 else 2 | Task _ _ => 1 | Claim => 1 | Done => 0 end.
  Definition measure (s : mstate) : nat :=
    2 * length (pending s) + 2 * (nt - Nat.min (m_next s) nt) + list_sum (map weight (m_agents s)).

  Lemma sum_upd l i old a : nth_error l i = Some old ->
    list_sum (map weight (upd l i a)) + weight old = list_sum (map weight l) + weight a.
  Proof.
    intros H. rewrite (nth_split l i old H) at 2. unfold upd_agent.
    rewrite !map_app, !list_sum_app. cbn [map list_sum fold_right]. lia.
  Qed.
  Lemma len_upd l i old a : nth_error l i = Some old ->
    length (flat_map rem_agent (upd l i a)) + length (rem_agent old) =
    length (flat_map rem_agent l) + length (rem_agent a).
  Proof.
    intros H. rewrite (nth_split l i old H) at 2. unfold upd_agent.
    rewrite !flat_map_app. cbn [flat_map]. rewrite !app_length. lia.
  Qed.

  Theorem map_progress s i a : Inv s -> nth_error (m_agents s) i = Some a -> is_done a = false ->
    measure (mstep s i) < measure s.
  Proof.
    intros [Hc Ht Hs Hl] En Hnd. unfold OpsDefs.mstep. rewrite En.
    assert (Hin : In a (m_agents s)) by (eapply nth_error_In; eauto).
    unfold measure, pending. destruct a as [n c|m n| |]; [| | |discriminate].
    - destruct (n <? nt) eqn:Elt.
      + destruct (scan 0 n) as [m|] eqn:Esc.
        * pose proof (scan_some _ _ _ Esc) as (Hm & Hloc & Hcol).
          destruct (S c =? ncores) eqn:Ec; cbn [m_next m_agents m_log].
          -- rewrite flat_map_app, map_app, list_sum_app, !app_length. cbn [flat_map rem_agent map list_sum fold_right weight].
             pose proof (len_upd _ _ _ Done En) as Hu. pose proof (sum_upd _ _ _ Done En) as Hw.
             cbn [rem_agent weight] in Hu, Hw. rewrite Elt in Hu, Hw. rewrite Hcol in Hu.
             rewrite app_nil_r in *. cbn [length] in *. lia.
          -- rewrite flat_map_app, map_app, list_sum_app, !app_length. cbn [flat_map rem_agent map list_sum fold_right weight].
             pose proof (len_upd _ _ _ (SU (S (m_next s)) (S c)) En) as Hu.
             pose proof (sum_upd _ _ _ (SU (S (m_next s)) (S c)) En) as Hw.
             cbn [rem_agent weight] in Hu, Hw. rewrite Elt in Hu, Hw. rewrite Hcol in Hu. rewrite app_nil_r in *.
             destruct (S (m_next s) <? nt) eqn:E2.
             ++ apply Nat.ltb_lt in E2. rewrite (unclaimed_cons _ E2), app_length. lia.
             ++ apply Nat.ltb_ge in E2. rewrite (unclaimed_nil (m_next s)) by lia.
                rewrite (unclaimed_nil (S (m_next s))) by lia. cbn [length] in *. lia.
        * pose proof (scan_none _ _ Esc) as Hcol. cbn [m_next m_agents m_log]. rewrite !app_length.
          pose proof (len_upd _ _ _ (SU (S (m_next s)) c) En) as Hu.
          pose proof (sum_upd _ _ _ (SU (S (m_next s)) c) En) as Hw.
          cbn [rem_agent weight] in Hu, Hw. rewrite Elt in Hu, Hw. rewrite Hcol in Hu.
          destruct (S (m_next s) <? nt) eqn:E2.
          -- apply Nat.ltb_lt in E2. rewrite (unclaimed_cons _ E2), app_length. cbn [length] in *. lia.
          -- apply Nat.ltb_ge in E2. rewrite (unclaimed_nil (m_next s)) by lia.
             rewrite (unclaimed_nil (S (m_next s))) by lia. cbn [length] in *. lia.
      + cbn [m_next m_agents m_log]. rewrite !app_length.
        pose proof (len_upd _ _ _ Done En) as Hu. pose proof (sum_upd _ _ _ Done En) as Hw.
        cbn [rem_agent weight] in Hu, Hw. rewrite Elt in Hu, Hw. cbn [length] in *. lia.
    - destruct (Ht _ _ Hin) as (Hm & Hn & Hloc). cbn [m_next m_agents m_log]. rewrite !app_length.
      set (a' := match scan (S m) n with Some m' => Task m' n | None => Claim end).
      assert (Hrem : rem_agent (Task m n) = (m, n) :: rem_agent a').
      { cbn [rem_agent]. rewrite (col_from_cons _ _ Hm Hloc). f_equal. subst a'.
        destruct (scan (S m) n) as [m'|] eqn:Esc; cbn [rem_agent].
        - apply scan_some in Esc. tauto.
        - apply scan_none in Esc. exact Esc. }
      pose proof (len_upd _ _ _ a' En) as Hu. pose proof (sum_upd _ _ _ a' En) as Hw.
      rewrite Hrem in Hu. cbn [length weight] in Hu, Hw.
      assert (weight a' = 1) by (subst a'; destruct (scan (S m) n); reflexivity). lia.
    - cbn [m_next m_agents m_log]. rewrite !app_length. unfold after_claim.
      destruct (S (m_next s) <? nt) eqn:E2.
      + apply Nat.ltb_lt in E2. rewrite (unclaimed_cons _ E2), app_length.
        destruct (scan 0 (S (m_next s))) as [m|] eqn:Esc.
        * pose proof (len_upd _ _ _ (Task m (S (m_next s))) En) as Hu.
          pose proof (sum_upd _ _ _ (Task m (S (m_next s))) En) as Hw. cbn [rem_agent weight length] in Hu, Hw.
          apply scan_some in Esc. destruct Esc as (_ & _ & Hcol). rewrite <- Hcol in Hu. lia.
        * pose proof (len_upd _ _ _ Claim En) as Hu. pose proof (sum_upd _ _ _ Claim En) as Hw.
          cbn [rem_agent weight length] in Hu, Hw. apply scan_none in Esc. rewrite Esc. cbn [length]. lia.
      + apply Nat.ltb_ge in E2. rewrite (unclaimed_nil (m_next s)) by lia. rewrite (unclaimed_nil (S (m_next s))) by lia.
        pose proof (len_upd _ _ _ Done En) as Hu. pose proof (sum_upd _ _ _ Done En) as Hw.
        cbn [rem_agent weight length] in Hu, Hw. lia.
  Qed.

  Theorem map_progress_run sched i a :
    nth_error (m_agents (mrun mt nt ncores local sched)) i = Some a -> is_done a = false ->
    measure (mrun mt nt ncores local (sched ++ [i])) < measure (mrun mt nt ncores local sched).
  Proof.
    intros H1 H2. unfold mrun. rewrite fold_left_app. cbn [fold_left].
    eapply map_progress; eauto. apply Inv_run.
  Qed.
End MapProofs.
