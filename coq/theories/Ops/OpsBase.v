(* Ops — vocabulary shared by the generated file Gen/Gen_ops.v (tools/jdf2ast.py)
   and the hand-written model Ops/OpsDefs.v.  NO proofs here.

   C expressions of the JDF files are translated operator by operator to the
   functions below (int arithmetic on Z; the check's generator keeps every value
   below 2^30 so that the C int never wraps; `/` and `%` truncate towards zero;
   comparisons and logical operators give 0/1; `&` `|` `<<` `>>` are the bitwise
   operators of C on non-negative operands). *)
From Coq Require Import ZArith List Bool String.
Import ListNotations.
Local Open Scope Z_scope.

Definition cb (b : bool) : Z := if b then 1 else 0.
Definition c_eq (a b : Z) : Z := cb (a =? b).
Definition c_ne (a b : Z) : Z := cb (negb (a =? b)).
Definition c_lt (a b : Z) : Z := cb (a <? b).
Definition c_le (a b : Z) : Z := cb (a <=? b).
Definition c_gt (a b : Z) : Z := cb (b <? a).
Definition c_ge (a b : Z) : Z := cb (b <=? a).
Definition c_not (a : Z) : Z := cb (a =? 0).
Definition c_land (a b : Z) : Z := cb (negb (a =? 0) && negb (b =? 0)).
Definition c_lor (a b : Z) : Z := cb (negb (a =? 0) || negb (b =? 0)).
Definition c_band (a b : Z) : Z := Z.land a b.
Definition c_bor (a b : Z) : Z := Z.lor a b.
Definition c_shl (a b : Z) : Z := Z.shiftl a b.
Definition c_shr (a b : Z) : Z := Z.shiftr a b.
Definition c_div (a b : Z) : Z := Z.quot a b.
Definition c_mod (a b : Z) : Z := Z.rem a b.
Definition c_tern (c a b : Z) : Z := if c =? 0 then b else a.
(* (int)ceil(log(x) / log(2.0)) — exact for 1 <= x < 2^26 (checked exhaustively, and the
   harness prints the generated taskpool's depth field next to the model's) *)
Definition c_clog2 (x : Z) : Z := Z.log2_up x.

(* for (v = lo; v <= hi; v++) *)
Definition zrange (lo hi : Z) : list Z :=
  map (fun i => lo + Z.of_nat i) (seq 0 (Z.to_nat (hi - lo + 1))).

(* what a dependency names *)
Inductive ref :=
| RData (coll : string) (args : list Z)          (* descA(m, n) *)
| RTask (cls flow : string) (args : list Z)      (* FLOW class(args) *)
| RNew
| RNull.
(* `<- g ? then : else`; no guard: d_guard = 1 *)
Record dep := { d_guard : Z; d_then : ref; d_else : option ref }.

(* data flows: the first input dependency whose guard selects something is the one that counts
   (parsec_check_IN_dependencies / the generated data_lookup test the guards in order) *)
Fixpoint active_in (ds : list dep) : option ref :=
  match ds with
  | [] => None
  | d :: r =>
      if d_guard d =? 0
      then match d_else d with Some e => Some e | None => active_in r end
      else Some (d_then d)
  end.
(* outputs: every dependency whose guard selects something is followed *)
Fixpoint active_outs (ds : list dep) : list ref :=
  match ds with
  | [] => []
  | d :: r =>
      (if d_guard d =? 0
       then match d_else d with Some e => [e] | None => [] end
       else [d_then d]) ++ active_outs r
  end.

(* the part of a tiled matrix descriptor that the wrappers read *)
Record mdesc := { md_mt : Z; md_nt : Z; md_lmt : Z; md_lnt : Z }.

(* a generated task class *)
Record gclass := {
  g_name   : string;
  g_space  : list (list Z);                          (* parameter tuples, in the order of the generated loop nest *)
  g_place  : list Z -> ref;                          (* `: coll(args)` *)
  g_flows  : list string;
  g_in     : string -> list Z -> list dep;           (* input dependencies of a flow, in order *)
  g_out    : string -> list Z -> list dep;
  g_opcall : list Z -> option (list Z);              (* integer arguments of the call of the user operator in BODY, if any *)
  g_body   : list string                             (* identifiers occurring in BODY *)
}.
