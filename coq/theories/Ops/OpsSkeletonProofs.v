(* Ops — reduce_col.jdf / reduce_row.jdf as instantiated by parsec_reduce_col_New /
   parsec_reduce_row_New (reduce_wrapper.c): what the faithful model shows.
   * the bodies never call the user operator (no shape, no instance);
   * parsec_reduce_col_New binds M = src->lnt, N = src->lmt as INCLUSIVE upper bounds of
     row and col: for every matrix shape the instance reduce_in_col(lnt, lmt) is placed on
     the tile src(lnt, lmt), which is outside the lmt x lnt tile grid;
   * for some shapes a task waits for a predecessor that is not in the execution space. *)
From Coq Require Import ZArith List Bool Lia String.
From PV Require Import Base.Tac Ops.OpsBase Gen.Gen_ops Ops.OpsDefs Ops.OpsLib.
Import ListNotations.
Local Open Scope Z_scope.

Lemma flat_map_nil {A B} (f : A -> list B) l : (forall x, f x = []) -> flat_map f l = [].
Proof. intros H. induction l as [|a l IH]; cbn [flat_map]; [reflexivity|]. rewrite H, IH. reflexivity. Qed.

Lemma calls_none c : (forall ps, g_opcall c ps = None) -> calls_of c = [].
Proof. intros H. unfold calls_of. apply flat_map_nil. intros ps. rewrite H. reflexivity. Qed.

Theorem rcol_no_operator G : all_calls (rcol_classes G) = [].
Proof.
  unfold all_calls, rcol_classes. cbn [flat_map]. rewrite !calls_none; [reflexivity| |].
  - intros ps. cbn [g_opcall rcol_reduce_col_class]. destruct ps as [|a [|b [|c [|e r]]]]; reflexivity.
  - intros ps. cbn [g_opcall rcol_reduce_in_col_class]. destruct ps as [|a [|b [|e r]]]; reflexivity.
Qed.

Theorem rrow_no_operator G : all_calls (rrow_classes G) = [].
Proof.
  unfold all_calls, rrow_classes. cbn [flat_map]. rewrite !calls_none; [reflexivity| |].
  - intros ps. cbn [g_opcall rrow_reduce_row_class]. destruct ps as [|a [|b [|c [|e r]]]]; reflexivity.
  - intros ps. cbn [g_opcall rrow_reduce_in_row_class]. destruct ps as [|a [|b [|e r]]]; reflexivity.
Qed.

Theorem reduce_no_operator G : all_calls (reduce_classes G) = [].
Proof.
  unfold all_calls, reduce_classes. cbn [flat_map]. rewrite !calls_none; [reflexivity|].
  intros ps. cbn [g_opcall reduce_reduce_class]. destruct ps as [|a [|b [|e r]]]; reflexivity.
Qed.

(* every shape: an instance placed outside the matrix *)
Theorem rcol_out_of_matrix src dest : 0 <= md_lmt src -> 0 <= md_lnt src ->
  let G := rcol_New_G src dest in
  In [md_lnt src; md_lmt src] (rcol_reduce_in_col_space G) /\
  rcol_reduce_in_col_place G (md_lnt src) (md_lmt src) = RData "src" [md_lnt src; md_lmt src] /\
  tile_in_matrix src (RData "src" [md_lnt src; md_lmt src]) = false.
Proof.
  intros H1 H2 G. split; [|split].
  - unfold rcol_reduce_in_col_space. apply in_flat_map. exists (md_lnt src). split.
    + apply In_zrange. subst G. cbn. lia.
    + apply in_flat_map. exists (md_lmt src). split; [|left; reflexivity]. apply In_zrange. subst G. cbn. lia.
  - reflexivity.
  - cbn [tile_in_matrix]. destruct (md_lnt src <? md_lmt src) eqn:E1; destruct (md_lmt src <? md_lnt src) eqn:E2;
      rewrite ?andb_false_r, ?andb_false_l; try reflexivity. lia.
Qed.

(* witnesses (computed): tasks that wait for an instance outside the execution space *)
Theorem rcol_dangling_witness : dangling_inputs (rcol_classes (rcol_New_G (md_of 5 5) (md_of 1 5))) <> [].
Proof. vm_compute. discriminate. Qed.
Theorem rrow_out_of_matrix_witness :
  out_of_matrix (md_of 3 3) (rrow_reduce_in_row_class (rrow_New_G (md_of 3 3) (md_of 3 1))) <> [].
Proof. vm_compute. discriminate. Qed.
