(* Ops — reduce.jdf: the tree of partial reductions named by the input dependencies of the
   generated definitions; every source tile is a leaf exactly once (in order), and for an
   associative operator the root carries the sequential fold.  Also: the instance that
   reads a tile outside the matrix when MT is even. *)
From Coq Require Import ZArith List Bool Lia Permutation String.
From PV Require Import Base.Tac Ops.OpsBase Gen.Gen_ops Ops.OpsDefs Ops.OpsLib.
Import ListNotations.
Local Open Scope Z_scope.

Lemma zlist_eqb_refl l : zlist_eqb l l = true.
Proof.
  unfold zlist_eqb. rewrite Nat.eqb_refl. cbn [andb]. induction l as [|x l IH]; cbn; [reflexivity|].
  rewrite Z.eqb_refl. exact IH.
Qed.
Lemma mem_space_In ps sp : In ps sp -> mem_space ps sp = true.
Proof. intros H. unfold mem_space. apply existsb_exists. exists ps. split; [assumption|apply zlist_eqb_refl]. Qed.

(* sequential fold of the tiles lo..hi *)
Section Seg.
  Context {V : Type}.
  Variable op : V -> V -> V.
  Variable tl : Z -> V.
  Hypothesis op_assoc : forall a b c, op a (op b c) = op (op a b) c.

  Definition seg (lo hi : Z) : V := fold_left op (map tl (zrange (lo + 1) hi)) (tl lo).

  Lemma fold_assoc : forall l a x, op a (fold_left op l x) = fold_left op l (op a x).
  Proof.
    induction l as [|y l IH]; intros a x; cbn [fold_left]; [reflexivity|].
    rewrite IH, op_assoc. reflexivity.
  Qed.

  Lemma seg_single a : seg a a = tl a.
  Proof. unfold seg. rewrite zrange_empty by lia. reflexivity. Qed.

  Lemma seg_app lo mid hi : lo <= mid -> mid < hi -> op (seg lo mid) (seg (mid + 1) hi) = seg lo hi.
  Proof.
    intros H1 H2. unfold seg.
    rewrite <- (zrange_app (lo + 1) mid hi) by lia.
    rewrite map_app, fold_left_app.
    rewrite (zrange_cons (mid + 1) hi) by lia. cbn [map fold_left].
    rewrite fold_assoc. reflexivity.
  Qed.

  Lemma fold1_seg lo hi : lo <= hi -> fold1 op (map tl (zrange lo hi)) = Some (seg lo hi).
  Proof. intros H. rewrite zrange_cons by lia. reflexivity. Qed.
End Seg.

Lemma fold_app_single : forall (l acc : list Z), fold_left (@app Z) (map (fun i => [i]) l) acc = acc ++ l.
Proof.
  induction l as [|x l IH]; intros acc; cbn [map fold_left]; [rewrite app_nil_r; reflexivity|].
  rewrite IH, <- app_assoc. reflexivity.
Qed.
Lemma seg_app_list lo hi : lo <= hi -> seg (@app Z) (fun i => [i]) lo hi = zrange lo hi.
Proof.
  intros H. unfold seg. rewrite fold_app_single. rewrite (zrange_cons lo hi) by lia. reflexivity.
Qed.

Section Reduce.
  Variable MT : Z.
  Hypothesis HMT : 1 <= MT.
  Let G := reduce_G_of MT.
  Let d := Z.log2_up MT.

  Lemma pow_d : MT <= 2 ^ d.
  Proof. subst d. destruct (Z.eq_dec MT 1) as [->|]; [cbn; lia|]. apply Z.log2_up_spec. lia. Qed.
  Lemma d_nonneg : 0 <= d. Proof. apply Z.log2_up_nonneg. Qed.

  Lemma In_space l p : 1 <= l <= d + 1 -> 0 <= p -> p * 2 ^ l <= MT -> In [l; p] (reduce_reduce_space G).
  Proof.
    intros Hl Hp Hlt. unfold reduce_reduce_space. apply in_flat_map. exists l. split.
    - apply In_zrange. subst G. unfold reduce_depth, reduce_G_of, c_clog2. cbn [reduce_descA_mt]. fold d. lia.
    - apply in_flat_map. exists p. split; [|left; reflexivity]. apply In_zrange. split; [lia|].
      unfold reduce_MT. subst G. cbn [reduce_G_of reduce_descA_mt]. rewrite c_shl_1 by lia.
      unfold c_div. rewrite Z.quot_div_nonneg by lia. apply Z.div_le_lower_bound; lia.
  Qed.

  Lemma space_inv l p : In [l; p] (reduce_reduce_space G) -> 1 <= l <= d + 1 /\ 0 <= p /\ p * 2 ^ l <= MT.
  Proof.
    unfold reduce_reduce_space. intros H. apply in_flat_map in H. destruct H as (l' & Hl & H).
    apply in_flat_map in H. destruct H as (p' & Hp & H). destruct H as [E|[]]. inv E.
    apply In_zrange in Hl, Hp. subst G. unfold reduce_depth, reduce_MT, reduce_G_of, c_clog2 in *. cbn [reduce_descA_mt] in *.
    fold d in Hl. rewrite c_shl_1 in Hp by lia. unfold c_div in Hp. rewrite Z.quot_div_nonneg in Hp by lia.
    split; [lia|]. split; [lia|].
    assert (0 < 2 ^ l) by lia. pose proof (Z.mul_div_le MT (2 ^ l) H). nia.
  Qed.

  Ltac gsimp := subst G; unfold reduce_MT, reduce_G_of; cbn [reduce_descA_mt].

  Lemma inA_1 p : active_in (reduce_reduce_in_A G 1 p) = Some (RData "descA" [2 * p; 0]).
  Proof. reflexivity. Qed.
  Lemma inA_gt l p : l <> 1 -> active_in (reduce_reduce_in_A G l p) = Some (RTask "reduce" "C" [l - 1; 2 * p]).
  Proof.
    intros H. unfold reduce_reduce_in_A. cbn [active_in d_guard d_then d_else]. unfold c_eq. rewrite cb_0.
    destruct (1 =? l) eqn:E; [lia|]. reflexivity.
  Qed.

  Lemma inB_null l p : 1 <= l -> MT <= p * 2 ^ l + 2 ^ (l - 1) -> active_in (reduce_reduce_in_B G l p) = Some RNull.
  Proof.
    intros Hl H. unfold reduce_reduce_in_B. cbn [active_in d_guard d_then d_else]. gsimp.
    rewrite !c_shl_1 by lia. unfold c_ge. rewrite cb_0. destruct (MT <=? p * 2 ^ l + 2 ^ (l - 1)) eqn:E; [reflexivity|lia].
  Qed.
  Lemma inB_1 p : 2 * p + 1 < MT -> active_in (reduce_reduce_in_B G 1 p) = Some (RData "descA" [2 * p + 1; 0]).
  Proof.
    intros H. unfold reduce_reduce_in_B. cbn [active_in d_guard d_then d_else]. gsimp.
    rewrite !c_shl_1 by lia. change (2 ^ 1) with 2. change (2 ^ (1 - 1)) with 1.
    unfold c_ge, c_eq, c_lt, c_ne. rewrite !c_band_cb, !cb_0.
    destruct (MT <=? p * 2 + 1) eqn:E; [lia|].
    destruct (p * 2 + 1 <? MT) eqn:E2; [|lia]. reflexivity.
  Qed.
  Lemma inB_gt l p : 1 < l -> p * 2 ^ l + 2 ^ (l - 1) < MT ->
    active_in (reduce_reduce_in_B G l p) = Some (RTask "reduce" "C" [l - 1; p * 2 + 1]).
  Proof.
    intros Hl H. unfold reduce_reduce_in_B. cbn [active_in d_guard d_then d_else]. gsimp.
    rewrite !c_shl_1 by lia.
    unfold c_ge, c_eq, c_lt, c_ne. rewrite !c_band_cb, !cb_0.
    destruct (MT <=? p * 2 ^ l + 2 ^ (l - 1)) eqn:E; [lia|].
    destruct (1 =? l) eqn:E1; [lia|]. destruct (p * 2 ^ l + 2 ^ (l - 1) <? MT) eqn:E2; [|lia]. reflexivity.
  Qed.

  Lemma rd_task_in l p : In [l; p] (reduce_reduce_space G) -> rd_task G (RTask "reduce" "C" [l; p]) = Some (l, p).
  Proof. intros H. unfold rd_task. rewrite (mem_space_In _ _ H). reflexivity. Qed.

  Section Val.
    Context {V : Type}.
    Variable op : V -> V -> V.
    Variable tl : Z -> V.
    Hypothesis op_assoc : forall a b c, op a (op b c) = op (op a b) c.

    (* the value at reduce(l, p): the fold of the tiles p*2^l .. min((p+1)*2^l, MT) - 1 *)
    Lemma rval_seg : forall (k : nat) (fuel : nat) (p : Z),
      let l := Z.of_nat (S k) in
      l <= d + 1 -> 0 <= p -> p * 2 ^ l < MT -> (S k <= fuel)%nat ->
      rval op tl G fuel l p = Some (seg op tl (p * 2 ^ l) (Z.min ((p + 1) * 2 ^ l) MT - 1)).
    Proof.
      induction k as [|k IH]; intros fuel p l Hl Hp Hlt Hf.
      - destruct fuel as [|f]; [lia|]. subst l. change (Z.of_nat 1) with 1 in *. change (2 ^ 1) with 2 in *.
        cbn [rval]. rewrite inA_1. cbn [rd_data String.eqb Ascii.eqb Bool.eqb andb Z.eqb].
        destruct (Z_lt_le_dec (2 * p + 1) MT) as [HB|HB].
        + rewrite inB_1 by assumption. cbn [rd_data String.eqb Ascii.eqb Bool.eqb andb Z.eqb].
          f_equal. replace (Z.min ((p + 1) * 2) MT - 1) with (2 * p + 1) by lia.
          replace (p * 2) with (2 * p) by lia.
          rewrite <- (seg_app op tl op_assoc (2 * p) (2 * p) (2 * p + 1)) by lia.
          rewrite !seg_single. reflexivity.
        + rewrite inB_null; [|lia|change (2 ^ 1) with 2; change (2 ^ (1 - 1)) with 1; lia].
          f_equal. replace (Z.min ((p + 1) * 2) MT - 1) with (p * 2) by lia.
          rewrite seg_single. f_equal. lia.
      - destruct fuel as [|f]; [lia|].
        set (l' := Z.of_nat (S k)) in *.
        assert (El : l = l' + 1) by (subst l l'; lia).
        assert (Hl' : 1 <= l') by (subst l'; lia).
        assert (Epow : 2 ^ l = 2 * 2 ^ l') by (rewrite El; apply Z.pow_succ_r; lia).
        assert (Hpos : 0 < 2 ^ l') by lia.
        cbn [rval]. rewrite inA_gt by lia.
        replace (l - 1) with l' by lia.
        cbn [rd_data].
        assert (HinA : In [l'; 2 * p] (reduce_reduce_space G)) by (apply In_space; nia).
        rewrite (rd_task_in _ _ HinA).
        rewrite (IH f (2 * p)); [|lia|lia|nia|lia].
        destruct (Z_lt_le_dec (p * 2 ^ l + 2 ^ l') MT) as [HB|HB].
        + rewrite inB_gt; [|lia|replace (l - 1) with l' by lia; assumption].
          replace (l - 1) with l' by lia. cbn [rd_data].
          assert (HinB : In [l'; p * 2 + 1] (reduce_reduce_space G)) by (apply In_space; nia).
          rewrite (rd_task_in _ _ HinB).
          rewrite (IH f (p * 2 + 1)); [|lia|lia|nia|lia].
          f_equal.
          replace (Z.min ((2 * p + 1) * 2 ^ l') MT - 1) with ((p * 2 + 1) * 2 ^ l' - 1) by nia.
          replace (2 * p * 2 ^ l') with (p * 2 ^ l) by nia.
          replace ((p * 2 + 1 + 1) * 2 ^ l') with ((p + 1) * 2 ^ l) by nia.
          replace ((p * 2 + 1) * 2 ^ l') with ((p * 2 + 1) * 2 ^ l' - 1 + 1) at 2 by lia.
          apply seg_app; [assumption|nia|nia].
        + rewrite inB_null; [|lia|replace (l - 1) with l' by lia; lia].
          f_equal. f_equal; nia.
    Qed.

    Theorem reduce_root_fold :
      reduce_root_value op tl MT = fold1 op (map tl (zrange 0 (MT - 1))).
    Proof.
      unfold reduce_root_value. change (reduce_depth (reduce_G_of MT)) with d. change (reduce_G_of MT) with G.
      pose proof d_nonneg as Hd. pose proof pow_d as Hp.
      replace (d + 1) with (Z.of_nat (S (Z.to_nat d))) by lia.
      rewrite rval_seg; [|lia|lia|lia|lia].
      rewrite fold1_seg by lia.
      replace (Z.of_nat (S (Z.to_nat d))) with (Z.succ d) by lia.
      rewrite Z.pow_succ_r by lia.
      replace (Z.min ((0 + 1) * (2 * 2 ^ d)) MT - 1) with (MT - 1) by lia.
      reflexivity.
    Qed.
  End Val.

  (* every source tile is a leaf of the tree exactly once (and in order) *)
  Theorem reduce_leaves_all : reduce_leaves MT = Some (zrange 0 (MT - 1)).
  Proof.
    unfold reduce_leaves. change (rval (@app Z) (fun i => [i]) (reduce_G_of MT) _ _ 0) with
      (reduce_root_value (@app Z) (fun i => [i]) MT).
    rewrite reduce_root_fold by (intros; apply app_assoc).
    rewrite fold1_seg by lia. rewrite seg_app_list by lia. reflexivity.
  Qed.

  (* the root writes its flow C to R(0, 0) and nowhere else *)
  Theorem reduce_root_output : reduce_root_out MT = [RData "R" [0; 0]].
  Proof.
    unfold reduce_root_out, reduce_reduce_out_C. cbn [active_outs d_guard d_then d_else].
    unfold c_eq, c_ne. rewrite !c_band_cb, Z.eqb_refl. cbn [cb Z.eqb negb andb app]. reflexivity.
  Qed.

  (* when MT is even the execution space has an instance that reads the tile MT, one past the last *)
  Theorem reduce_even_reads_outside : Z.even MT = true ->
    In [1; MT / 2] (reduce_reduce_space G) /\
    active_in (reduce_reduce_in_A G 1 (MT / 2)) = Some (RData "descA" [MT; 0]).
  Proof.
    intros He. apply Z.even_spec in He. destruct He as [h Eh].
    assert (Eh2 : MT / 2 = h) by (rewrite Eh, Z.mul_comm, Z.div_mul by lia; reflexivity).
    split.
    - apply In_space; [pose proof d_nonneg; lia|lia|change (2 ^ 1) with 2; lia].
    - rewrite inA_1. rewrite Eh2. f_equal. f_equal. f_equal. lia.
  Qed.
End Reduce.
