(* Ops — apply.jdf: the operator is called exactly once on every tile of the requested
   region, for every uplo, mt, nt; proofs over the GENERATED definitions of Gen_ops.v. *)
From Coq Require Import ZArith List Bool Lia Permutation String.
From PV Require Import Base.Tac Ops.OpsBase Gen.Gen_ops Ops.OpsDefs Ops.OpsLib.
Import ListNotations.
Local Open Scope Z_scope.

(* normal forms of the three call lists *)
Lemma calls_L G : map call_tile (calls_of (apply_APPLY_L_class G)) =
  flat_map (fun m => map (fun n => (m, n)) (zrange 0 (c_tern (c_lt m (apply_descA_nt G)) (m - 1) ((apply_descA_nt G) - 1))))
    (zrange 1 (c_tern (c_eq (apply_uplo G) (apply_matrix_upper G)) 0 ((apply_descA_mt G) - 1))).
Proof.
  unfold calls_of. cbn [g_space g_opcall apply_APPLY_L_class]. unfold apply_APPLY_L_space.
  rewrite flat_map_flat_map, map_flat_map. apply flat_map_ext. intros m.
  rewrite flat_map_flat_map, map_flat_map. rewrite <- flat_map_single. apply flat_map_ext. intros n.
  reflexivity.
Qed.

Lemma calls_U G : map call_tile (calls_of (apply_APPLY_U_class G)) =
  flat_map (fun m => map (fun n => (m, n)) (zrange (m + 1) (c_tern (c_eq (apply_uplo G) (apply_matrix_lower G)) 0 ((apply_descA_nt G) - 1))))
    (zrange 0 ((apply_descA_mt G) - 1)).
Proof.
  unfold calls_of. cbn [g_space g_opcall apply_APPLY_U_class]. unfold apply_APPLY_U_space.
  rewrite flat_map_flat_map, map_flat_map. apply flat_map_ext. intros m.
  rewrite flat_map_flat_map, map_flat_map. rewrite <- flat_map_single. apply flat_map_ext. intros n.
  reflexivity.
Qed.

Lemma calls_D G : map call_tile (calls_of (apply_APPLY_DIAG_class G)) =
  map (fun k => (k, k))
    (zrange 0 (c_tern (c_lt (apply_descA_mt G) (apply_descA_nt G)) ((apply_descA_mt G) - 1) ((apply_descA_nt G) - 1))).
Proof.
  unfold calls_of. cbn [g_space g_opcall apply_APPLY_DIAG_class]. unfold apply_APPLY_DIAG_space.
  rewrite flat_map_flat_map, map_flat_map. rewrite <- flat_map_single. apply flat_map_ext. intros k.
  reflexivity.
Qed.

Ltac cops := unfold c_tern, c_lt, c_eq, c_le, c_gt, c_ge, c_ne, c_not, c_land, c_lor in *; rewrite ?cb_0 in *.
(* one case split per comparison, whatever comparisons the generated text uses *)
Ltac ctests := repeat match goal with
  | |- context[Z.ltb ?a ?b] => destruct (Z.ltb a b) eqn:?
  | |- context[Z.leb ?a ?b] => destruct (Z.leb a b) eqn:?
  | |- context[Z.eqb ?a ?b] => destruct (Z.eqb a b) eqn:?
  end.

Section Apply.
  Variables uplo mt nt : Z.
  Let G := apply_New_G uplo (md_of mt nt).

  Lemma In_L m n : In (m, n) (map call_tile (calls_of (apply_APPLY_L_class G))) <->
    (uplo <> matrix_upper_v /\ 1 <= m <= mt - 1 /\ 0 <= n <= nt - 1 /\ n < m).
  Proof.
    rewrite calls_L, In_pairs, !In_zrange. subst G. cbn [apply_New_G md_of apply_uplo apply_descA_mt apply_descA_nt md_mt md_nt].
    unfold apply_matrix_upper, matrix_upper_v. cops. ctests; cbn [negb andb orb]; lia.
  Qed.

  Lemma In_U m n : In (m, n) (map call_tile (calls_of (apply_APPLY_U_class G))) <->
    (uplo <> matrix_lower_v /\ 0 <= m <= mt - 1 /\ 0 <= n <= nt - 1 /\ m < n).
  Proof.
    rewrite calls_U, In_pairs, !In_zrange. subst G. cbn [apply_New_G md_of apply_uplo apply_descA_mt apply_descA_nt md_mt md_nt].
    unfold apply_matrix_lower, matrix_lower_v. cops. ctests; cbn [negb andb orb]; lia.
  Qed.

  Lemma In_D m n : In (m, n) (map call_tile (calls_of (apply_APPLY_DIAG_class G))) <->
    (0 <= m <= mt - 1 /\ 0 <= n <= nt - 1 /\ m = n).
  Proof.
    rewrite calls_D, in_map_iff. subst G. cbn [apply_New_G md_of apply_uplo apply_descA_mt apply_descA_nt md_mt md_nt].
    cops. split.
    - intros (k & E & Hk). inv E. apply In_zrange in Hk. revert Hk. ctests; cbn [negb andb orb]; lia.
    - intros (H1 & H2 & ->). exists n. split; [reflexivity|]. apply In_zrange. ctests; cbn [negb andb orb]; lia.
  Qed.

  Lemma In_region m n : In (m, n) (region uplo mt nt) <->
    (0 <= m <= mt - 1 /\ 0 <= n <= nt - 1 /\ in_region uplo m n = true).
  Proof.
    unfold region. rewrite filter_In. unfold tiles. rewrite In_pairs, !In_zrange. cbn [fst snd]. tauto.
  Qed.

  Lemma NoDup_region : NoDup (region uplo mt nt).
  Proof.
    unfold region. apply NoDup_filter. unfold tiles. apply NoDup_pairs.
    - apply NoDup_zrange.
    - intros; apply NoDup_zrange.
  Qed.

  Lemma apply_tiles_unfold :
    map call_tile (apply_calls uplo mt nt) =
    map call_tile (calls_of (apply_APPLY_L_class G)) ++
    map call_tile (calls_of (apply_APPLY_U_class G)) ++
    map call_tile (calls_of (apply_APPLY_DIAG_class G)).
  Proof.
    unfold apply_calls, all_calls, apply_classes. cbn [flat_map]. rewrite app_nil_r, !map_app. reflexivity.
  Qed.

  Lemma NoDup_apply_tiles : NoDup (map call_tile (apply_calls uplo mt nt)).
  Proof.
    rewrite apply_tiles_unfold. apply NoDup_app_intro; [|apply NoDup_app_intro|].
    - rewrite calls_L. apply NoDup_pairs; [apply NoDup_zrange|intros; apply NoDup_zrange].
    - rewrite calls_U. apply NoDup_pairs; [apply NoDup_zrange|intros; apply NoDup_zrange].
    - rewrite calls_D. apply FinFun.Injective_map_NoDup; [|apply NoDup_zrange]. intros a b E. inv E. reflexivity.
    - intros [m n] H1 H2. apply In_U in H1. apply In_D in H2. lia.
    - intros [m n] H1 H2. apply In_L in H1. apply in_app_iff in H2. destruct H2 as [H2|H2].
      + apply In_U in H2. lia.
      + apply In_D in H2. lia.
  Qed.

  (* every tile of the region, each exactly once *)
  Theorem apply_exactly_once : valid_uplo uplo = true ->
    Permutation (map call_tile (apply_calls uplo mt nt)) (region uplo mt nt).
  Proof.
    intros Hv. apply NoDup_Permutation; [apply NoDup_apply_tiles|apply NoDup_region|].
    intros [m n]. rewrite apply_tiles_unfold, !in_app_iff, In_L, In_U, In_D, In_region.
    unfold in_region. unfold valid_uplo in Hv. unfold matrix_upper_v, matrix_lower_v, matrix_full_v in *.
    destruct (uplo =? 121) eqn:E1; destruct (uplo =? 122) eqn:E2; destruct (uplo =? 123) eqn:E3;
      cbn [orb] in Hv; try discriminate; lia.
  Qed.

  (* the uplo argument: the diagonal tiles get the caller's uplo, the others FULL *)
  Theorem apply_uplo_argument : forall a, In a (apply_calls uplo mt nt) ->
    call_uplo a = if fst (call_tile a) =? snd (call_tile a) then uplo else matrix_full_v.
  Proof.
    intros a Ha. unfold apply_calls, all_calls, apply_classes in Ha. cbn [flat_map] in Ha.
    rewrite app_nil_r, !in_app_iff in Ha. destruct Ha as [Ha|[Ha|Ha]].
    - assert (Hc : In (call_tile a) (map call_tile (calls_of (apply_APPLY_L_class G)))) by (apply in_map; exact Ha).
      unfold calls_of in Ha. apply in_flat_map in Ha. destruct Ha as (ps & Hps & Ha).
      cbn [g_space apply_APPLY_L_class] in Hps. unfold apply_APPLY_L_space in Hps.
      apply in_flat_map in Hps. destruct Hps as (m & _ & Hps). apply in_flat_map in Hps. destruct Hps as (n & _ & Hps).
      destruct Hps as [<-|[]]. cbn in Ha. destruct Ha as [<-|[]]. cbn [call_tile call_uplo fst snd] in *.
      apply In_L in Hc. destruct (m =? n) eqn:E; [lia|reflexivity].
    - assert (Hc : In (call_tile a) (map call_tile (calls_of (apply_APPLY_U_class G)))) by (apply in_map; exact Ha).
      unfold calls_of in Ha. apply in_flat_map in Ha. destruct Ha as (ps & Hps & Ha).
      cbn [g_space apply_APPLY_U_class] in Hps. unfold apply_APPLY_U_space in Hps.
      apply in_flat_map in Hps. destruct Hps as (m & _ & Hps). apply in_flat_map in Hps. destruct Hps as (n & _ & Hps).
      destruct Hps as [<-|[]]. cbn in Ha. destruct Ha as [<-|[]]. cbn [call_tile call_uplo fst snd] in *.
      apply In_U in Hc. destruct (m =? n) eqn:E; [lia|reflexivity].
    - unfold calls_of in Ha. apply in_flat_map in Ha. destruct Ha as (ps & Hps & Ha).
      cbn [g_space apply_APPLY_DIAG_class] in Hps. unfold apply_APPLY_DIAG_space in Hps.
      apply in_flat_map in Hps. destruct Hps as (k & _ & Hps).
      destruct Hps as [<-|[]]. cbn in Ha. destruct Ha as [<-|[]]. cbn [call_tile call_uplo fst snd].
      rewrite Z.eqb_refl. reflexivity.
  Qed.

  Lemma zlist_eqb_refl l : zlist_eqb l l = true.
  Proof.
    unfold zlist_eqb. rewrite Nat.eqb_refl. cbn [andb]. induction l as [|x l IH]; cbn; [reflexivity|].
    rewrite Z.eqb_refl. exact IH.
  Qed.

  (* every instance is placed on the tile it passes to the operator, reads it and writes it back *)
  Theorem apply_on_tile : apply_insts_on_tile uplo mt nt = true.
  Proof.
    unfold apply_insts_on_tile, apply_classes. cbn [forallb]. rewrite !andb_true_iff. repeat split.
    - apply forallb_forall. intros ps Hps. cbn [g_space apply_APPLY_L_class] in Hps. unfold apply_APPLY_L_space in Hps.
      apply in_flat_map in Hps. destruct Hps as (m & _ & Hps). apply in_flat_map in Hps. destruct Hps as (n & _ & Hps).
      destruct Hps as [<-|[]]. unfold inst_on_tile. cbn -[zlist_eqb]. rewrite !zlist_eqb_refl. reflexivity.
    - apply forallb_forall. intros ps Hps. cbn [g_space apply_APPLY_U_class] in Hps. unfold apply_APPLY_U_space in Hps.
      apply in_flat_map in Hps. destruct Hps as (m & _ & Hps). apply in_flat_map in Hps. destruct Hps as (n & _ & Hps).
      destruct Hps as [<-|[]]. unfold inst_on_tile. cbn -[zlist_eqb]. rewrite !zlist_eqb_refl. reflexivity.
    - apply forallb_forall. intros ps Hps. cbn [g_space apply_APPLY_DIAG_class] in Hps. unfold apply_APPLY_DIAG_space in Hps.
      apply in_flat_map in Hps. destruct Hps as (k & _ & Hps).
      destruct Hps as [<-|[]]. unfold inst_on_tile. cbn -[zlist_eqb]. rewrite !zlist_eqb_refl. reflexivity.
  Qed.
End Apply.
