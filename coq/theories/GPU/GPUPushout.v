(* Proofs about the post-kernel sequence of device_gpu.c (C43, remote successors):
   parsec_gpu_task_update_pushout sets the pushout bit of a written flow exactly when the upper layer asked for it or
   some successor lives on another rank, whatever the order in which iterate_successors enumerates the successors;
   kernel_pop + the device-to-host copies + kernel_epilog then leave the host copy of such a flow with the version and
   the content of the device copy. *)
From PV Require Import Base.Tac Coherency.CoherencyDefs Coherency.CoherencyProofs GPU.GPUDefs GPU.GPUProofs.
Local Open Scope Z_scope.

(* ---------- the walk over the successors ---------- *)
Lemma memb_cons i j l : memb i (j :: l) = Nat.eqb i j || memb i l.
Proof. reflexivity. Qed.
Lemma memb_remove i j l : memb i (remove_nat j l) = memb i l && negb (Nat.eqb i j).
Proof.
  unfold memb, remove_nat. induction l as [|x l IH]; cbn [filter existsb]; [reflexivity|].
  destruct (Nat.eqb x j) eqn:E; cbn [negb existsb].
  - apply Nat.eqb_eq in E. subst x. rewrite IH. destruct (Nat.eqb i j); cbn; [now rewrite andb_false_r|reflexivity].
  - rewrite IH. destruct (Nat.eqb i x) eqn:E2; cbn [orb]; [|reflexivity].
    apply Nat.eqb_eq in E2. subst x. now rewrite E.
Qed.
Definition remote_for (i : nat) (e : nat * nat) : bool := Nat.eqb (fst e) i && negb (Nat.eqb (snd e) 0).

Lemma remote_for_pair i j r : remote_for i (j, r) = Nat.eqb j i && negb (Nat.eqb r 0). Proof. reflexivity. Qed.

Lemma fold_visit evs : forall po rem stop, (stop = true -> rem = []) ->
  forall i, memb i (fst (fst (fold_left visit evs (po, rem, stop)))) = memb i po || (memb i rem && existsb (remote_for i) evs).
Proof.
  induction evs as [|[j r] evs IH]; intros po rem stop Hs i; cbn [fold_left].
  - cbn [fst existsb]. now rewrite andb_false_r, orb_false_r.
  - unfold visit at 2. destruct stop.
    + rewrite (Hs eq_refl). rewrite IH by auto. cbn [memb existsb andb]. reflexivity.
    + destruct (negb (memb j rem)) eqn:Em.
      * rewrite IH by (destruct rem; [auto|discriminate]).
        cbn [existsb]. rewrite remote_for_pair.
        destruct (Nat.eqb j i) eqn:Eji; cbn [andb orb]; [|reflexivity].
        apply Nat.eqb_eq in Eji. subst j. apply negb_true_iff in Em. rewrite Em. reflexivity.
      * apply negb_false_iff in Em. destruct (negb (Nat.eqb r 0)) eqn:Er.
        -- rewrite IH by (destruct (remove_nat j rem); [auto|discriminate]).
           rewrite memb_cons, memb_remove. cbn [existsb]. rewrite remote_for_pair, Er.
           destruct (Nat.eqb i j) eqn:Eij.
           ++ apply Nat.eqb_eq in Eij. subst i. rewrite Nat.eqb_refl, Em. cbn [andb orb]. now rewrite orb_true_r.
           ++ rewrite Nat.eqb_sym, Eij. cbn [negb andb orb]. now rewrite andb_true_r.
        -- rewrite IH by (destruct rem; [auto|discriminate]).
           cbn [existsb]. rewrite remote_for_pair, Er. now rewrite andb_false_r.
Qed.

(* index sets built from the flows *)
Lemma memb_indexed (P : flow -> bool) : forall fl k i,
  memb i (map fst (filter (fun p => P (snd p)) (indexed_from k fl))) =
  Nat.leb k i && match nth_error fl (i - k) with Some f => P f | None => false end.
Proof.
  induction fl as [|f r IH]; intros k i; cbn [indexed_from filter map].
  - cbn. destruct (i - k)%nat; now rewrite andb_false_r.
  - cbn [snd]. assert (Hrest : memb i (map fst (filter (fun p => P (snd p)) (indexed_from (S k) r))) =
                               Nat.leb (S k) i && match nth_error r (i - S k) with Some f0 => P f0 | None => false end) by apply IH.
    destruct (Nat.eq_dec i k) as [->|Hne].
    + rewrite Nat.sub_diag, Nat.leb_refl. cbn [nth_error andb].
      destruct (P f); cbn [map fst]; [rewrite memb_cons, Nat.eqb_refl; reflexivity|].
      rewrite Hrest. assert (Nat.leb (S k) k = false) as -> by (apply Nat.leb_gt; lia). reflexivity.
    + assert (Hm : memb i (map fst (if P f then (k, f) :: filter (fun p => P (snd p)) (indexed_from (S k) r)
                                     else filter (fun p => P (snd p)) (indexed_from (S k) r))) =
                   memb i (map fst (filter (fun p => P (snd p)) (indexed_from (S k) r)))).
      { destruct (P f); [|reflexivity]. cbn [map fst]. rewrite memb_cons.
        assert (Nat.eqb i k = false) as -> by now apply Nat.eqb_neq. reflexivity. }
      rewrite Hm, Hrest. destruct (Nat.leb k i) eqn:Ek.
      * apply Nat.leb_le in Ek. assert (Nat.leb (S k) i = true) as -> by (apply Nat.leb_le; lia).
        replace (i - k)%nat with (S (i - S k)) by lia. reflexivity.
      * apply Nat.leb_gt in Ek. assert (Nat.leb (S k) i = false) as -> by (apply Nat.leb_gt; lia). reflexivity.
Qed.

Lemma existsb_remote_map i k l : existsb (remote_for i) (map (fun r => (k, r)) l) = Nat.eqb k i && has_remote l.
Proof.
  unfold has_remote. induction l as [|r l IH]; cbn [map existsb]; [now rewrite andb_false_r|].
  rewrite IH. unfold remote_for; cbn [fst snd]. destruct (Nat.eqb k i); reflexivity.
Qed.
Lemma remote_events (rem : list nat) (succs : list (list nat)) : forall fl k i,
  existsb (remote_for i)
    (flat_map (fun p => if memb (fst p) rem then map (fun r => (fst p, r)) (nth (fst p) succs []) else []) (indexed_from k fl)) =
  Nat.leb k i && match nth_error fl (i - k) with Some _ => memb i rem && has_remote (nth i succs []) | None => false end.
Proof.
  induction fl as [|f r IH]; intros k i; cbn [indexed_from flat_map].
  - cbn. destruct (i - k)%nat; now rewrite andb_false_r.
  - rewrite existsb_app, IH. cbn [fst].
    assert (Hh : existsb (remote_for i) (if memb k rem then map (fun r0 => (k, r0)) (nth k succs []) else []) =
                 Nat.eqb k i && (memb k rem && has_remote (nth k succs []))).
    { destruct (memb k rem); [rewrite existsb_remote_map; reflexivity|]. cbn. now rewrite andb_false_r. }
    rewrite Hh. destruct (Nat.eq_dec i k) as [->|Hne].
    + rewrite Nat.eqb_refl, Nat.sub_diag, Nat.leb_refl. cbn [nth_error andb].
      assert (Nat.leb (S k) k = false) as -> by (apply Nat.leb_gt; lia). cbn [andb]. now rewrite orb_false_r.
    + assert (Nat.eqb k i = false) as -> by (apply Nat.eqb_neq; lia). cbn [andb orb].
      destruct (Nat.leb k i) eqn:Ek.
      * apply Nat.leb_le in Ek. assert (Nat.leb (S k) i = true) as -> by (apply Nat.leb_le; lia).
        replace (i - k)%nat with (S (i - S k)) by lia. reflexivity.
      * apply Nat.leb_gt in Ek. assert (Nat.leb (S k) i = false) as -> by (apply Nat.leb_gt; lia). reflexivity.
Qed.

(* parsec_gpu_task_update_pushout decides exactly what the property requires, for every successor list and order *)
Theorem pushout_bits_spec fl succs i : memb i (pushout_bits fl succs) = needs_pushout fl succs i.
Proof.
  unfold pushout_bits, needs_pushout.
  assert (Hpo : memb i (po_init fl) = match nth_error fl i with Some f => fpo f | None => false end).
  { unfold po_init, indexed. rewrite (memb_indexed fpo fl 0 i). cbn [Nat.leb andb]. now rewrite Nat.sub_0_r. }
  assert (Hrem : memb i (rem_init fl) = match nth_error fl i with Some f => writes (fm f) && negb (fpo f) | None => false end).
  { unfold rem_init, indexed. rewrite (memb_indexed (fun f => writes (fm f) && negb (fpo f)) fl 0 i).
    cbn [Nat.leb andb]. now rewrite Nat.sub_0_r. }
  destruct (rem_init fl) as [|x rem] eqn:Er.
  - cbn [fst]. rewrite Hpo. cbn [memb existsb] in Hrem.
    destruct (nth_error fl i) as [f|]; [|reflexivity].
    destruct (fpo f); [reflexivity|]. cbn [orb negb] in *. rewrite andb_true_r in Hrem. now rewrite <- Hrem.
  - pose proof (fold_visit (events fl succs) (po_init fl) (x :: rem) false ltac:(discriminate) i) as Hf.
    destruct (fold_left visit (events fl succs) (po_init fl, x :: rem, false)) as [[po' rem'] st'] eqn:Efold.
    cbn [fst] in Hf. rewrite Hf, Hpo, Hrem.
    unfold events, indexed. rewrite Er. rewrite (remote_events (x :: rem) succs fl 0 i).
    cbn [Nat.leb andb]. rewrite Nat.sub_0_r. rewrite Hrem.
    destruct (nth_error fl i) as [f|]; [|reflexivity].
    destruct (fpo f), (writes (fm f)), (has_remote (nth i succs [])); reflexivity.
Qed.

Lemma indexed_from_nth fl : forall k i, nth_error (indexed_from k fl) i = option_map (fun f => ((k + i)%nat, f)) (nth_error fl i).
Proof.
  induction fl as [|f r IH]; intros k i; destruct i; cbn [indexed_from nth_error option_map]; try reflexivity.
  - now rewrite Nat.add_0_r.
  - rewrite IH. now rewrite Nat.add_succ_r.
Qed.
Lemma with_pushout_nth fl succs i :
  nth_error (with_pushout fl succs) i =
  option_map (fun f => mkflow (fd f) (fm f) (needs_pushout fl succs i)) (nth_error fl i).
Proof.
  unfold with_pushout, indexed. rewrite nth_error_map, indexed_from_nth. cbn [Nat.add].
  destruct (nth_error fl i); cbn [option_map fst snd]; [|reflexivity]. now rewrite pushout_bits_spec.
Qed.
Lemma with_pushout_fd fl succs : map fd (with_pushout fl succs) = map fd fl.
Proof.
  unfold with_pushout, indexed. generalize 0%nat as k. generalize (pushout_bits fl succs) as po.
  induction fl as [|f r IH]; intros po k; cbn [indexed_from map]; [reflexivity|]. cbn [fd snd]. f_equal. apply IH.
Qed.

(* ---------- kernel_pop, the device-to-host copies and kernel_epilog on a flow that is pushed out ---------- *)
Lemma copy_at_upd_copy st d i h e j :
  copy_at (upd_copy st d i h) e j =
  if Nat.eqb e d && Nat.ltb e (length (dats st))
  then option_map (fun c => if Nat.eqb j i then h c else c) (copy_at st e j) else copy_at st e j.
Proof.
  unfold copy_at, upd_copy, upd_coh. rewrite get_dat_upd_dat.
  destruct (Nat.eqb e d && Nat.ltb e (length (dats st))); [|reflexivity].
  cbn [coh copies]. apply getc_upd_at.
Qed.

Lemma length_dats_upd_copy st d i h : length (dats (upd_copy st d i h)) = length (dats st).
Proof. unfold upd_copy, upd_coh, upd_dat; cbn [dats]. apply length_upd. Qed.

Section OneTile.
Variables (d g : nat).
(* the tile keeps a host copy and a device copy, and the version of the device copy is v *)
Definition K (st : gstate) (v : Z) : Prop :=
  exists c0 cg, copy_at st d 0 = Some c0 /\ copy_at st d g = Some cg /\ ver cg = v.
Lemma K_dats a b v : dats a = dats b -> K b v -> K a v.
Proof. intros H (c0 & cg & H0 & Hg & Hv). exists c0, cg. rewrite !(copy_at_dats a b) by exact H. auto. Qed.
Lemma K_upd_copy st e i h v : (forall c, ver (h c) = ver c) -> K st v -> K (upd_copy st e i h) v.
Proof.
  intros Hh (c0 & cg & H0 & Hg & Hv). unfold K. rewrite !copy_at_upd_copy.
  destruct (Nat.eqb d e && Nat.ltb d (length (dats st))).
  - rewrite H0, Hg. cbn [option_map]. do 2 eexists. split; [reflexivity|]. split; [reflexivity|].
    destruct (Nat.eqb g i); [rewrite Hh|]; exact Hv.
  - exists c0, cg. auto.
Qed.
Lemma K_set_val st e i x v : K st v -> K (set_val st e i x) v.
Proof. intros (c0 & cg & H0 & Hg & Hv). exists c0, cg. rewrite !copy_at_set_val. auto. Qed.
Lemma K_release_reader st t e a v : K st v -> K (release_reader st t e a) v.
Proof.
  intros HK. unfold release_reader. destruct (copy_at st e t) as [c|]; [|exact HK].
  assert (H1 : K (upd_copy st e t (fun c0 => set_rdr c0 (rdr c0 - 1))) v) by (apply K_upd_copy; [reflexivity|exact HK]).
  destruct ((rdr c - 1 =? 0) && a); [|exact H1].
  destruct (is_owned (cst c)); eapply K_dats; try exact H1; reflexivity.
Qed.
Lemma K_pop : forall fl st cps v, K st v -> K (fst (pop st g fl cps)) v.
Proof.
  induction fl as [|f r IH]; intros st cps v HK; cbn [pop]; [exact HK|].
  set (st1 := if reads (fm f) then release_reader st g (fd f) (negb (writes (fm f))) else st).
  assert (H1 : K st1 v) by (unfold st1; destruct (reads (fm f)); [now apply K_release_reader|exact HK]).
  destruct (writes (fm f) && fpo f); apply IH; [apply K_upd_copy; [reflexivity|exact H1]|exact H1].
Qed.
Lemma K_run_d2h : forall fl st v, K st v -> K (run_d2h st g fl) v.
Proof.
  unfold run_d2h. induction fl as [|f r IH]; intros st v HK; cbn [fold_left]; [exact HK|].
  apply IH. destruct (writes (fm f) && fpo f); [now apply K_set_val|exact HK].
Qed.

Lemma vals_pop : forall fl st cps, same_vals (fst (pop st g fl cps)) st.
Proof.
  induction fl as [|f r IH]; intros st cps; cbn [pop]; [apply same_vals_refl|].
  set (st1 := if reads (fm f) then release_reader st g (fd f) (negb (writes (fm f))) else st).
  assert (H1 : same_vals st1 st) by (unfold st1; destruct (reads (fm f)); [apply vals_release_reader|apply same_vals_refl]).
  destruct (writes (fm f) && fpo f).
  - eapply same_vals_trans; [apply IH|]. eapply same_vals_trans; [apply vals_upd_copy|exact H1].
  - eapply same_vals_trans; [apply IH|exact H1].
Qed.
Lemma vals_epilog : forall fl st, same_vals (epilog st g fl) st.
Proof.
  induction fl as [|f r IH]; intros st; cbn [epilog]; [apply same_vals_refl|].
  destruct (negb (writes (fm f))); [apply IH|].
  destruct (fpo f).
  - destruct (copy_at st (fd f) g) as [gc|]; [|apply IH].
    eapply same_vals_trans; [apply IH|].
    eapply same_vals_trans; [apply vals_upd_dev|]. eapply same_vals_trans; [apply vals_upd_dev|].
    eapply same_vals_trans; [apply vals_upd_copy|]. apply vals_upd_copy.
  - eapply same_vals_trans; [apply IH|]. apply vals_upd_dev.
Qed.

Hypothesis Hg : (1 <= g)%nat.
(* the device tiles are never the target of a device-to-host copy *)
Lemma run_d2h_dev : forall fl st e, val_at (run_d2h st g fl) e g = val_at st e g.
Proof.
  unfold run_d2h. induction fl as [|f r IH]; intros st e; cbn [fold_left]; [reflexivity|].
  rewrite IH. destruct (writes (fm f) && fpo f); [|reflexivity].
  rewrite val_at_set_val. assert (Nat.eqb g 0 = false) as -> by (apply Nat.eqb_neq; lia).
  cbn [andb]. now rewrite andb_false_r.
Qed.
Lemma run_d2h_frame : forall fl st j, (forall f, In f fl -> fd f <> d) -> val_at (run_d2h st g fl) d j = val_at st d j.
Proof.
  unfold run_d2h. induction fl as [|f r IH]; intros st j Hn; cbn [fold_left]; [reflexivity|].
  rewrite IH by (intros f0 Hf0; apply Hn; now right).
  destruct (writes (fm f) && fpo f); [|reflexivity].
  rewrite val_at_set_val. assert (Nat.eqb d (fd f) = false) as ->; [|reflexivity].
  apply Nat.eqb_neq. intros E. apply (Hn f); [now left|auto].
Qed.
Lemma run_d2h_effect : forall fl st f, NoDup (map fd fl) -> In f fl -> fd f = d -> writes (fm f) && fpo f = true ->
  (d < length (dats st))%nat -> (0 < length (vals (get_dat st d)))%nat ->
  val_at (run_d2h st g fl) d 0 = val_at st d g.
Proof.
  induction fl as [|h r IH]; intros st f Hnd Hin Hfd Hw Hd Hl; [destruct Hin|].
  cbn [map] in Hnd. inversion Hnd as [|x l Hnotin Hnd']; subst x l.
  change (run_d2h st g (h :: r)) with
    (run_d2h (if writes (fm h) && fpo h then set_val st (fd h) 0 (val_at st (fd h) g) else st) g r).
  destruct Hin as [->|Hin].
  - rewrite Hw, Hfd. rewrite run_d2h_frame.
    + rewrite val_at_set_val, !Nat.eqb_refl. apply Nat.ltb_lt in Hd, Hl. now rewrite Hd, Hl.
    + intros f0 Hf0 E. apply Hnotin. rewrite Hfd, <- E. now apply in_map.
  - assert (Hne : fd h <> d).
    { intros E. apply Hnotin. rewrite E, <- Hfd. now apply in_map. }
    set (st1 := if writes (fm h) && fpo h then set_val st (fd h) 0 (val_at st (fd h) g) else st).
    assert (Hsame : forall j, val_at st1 d j = val_at st d j).
    { intros j. unfold st1. destruct (writes (fm h) && fpo h); [|reflexivity].
      rewrite val_at_set_val. assert (Nat.eqb d (fd h) = false) as -> by (apply Nat.eqb_neq; auto). reflexivity. }
    rewrite (IH st1 f Hnd' Hin Hfd Hw).
    + apply Hsame.
    + unfold st1. destruct (writes (fm h) && fpo h); [|exact Hd]. unfold set_val, upd_dat; cbn [dats]. now rewrite length_upd.
    + unfold st1. destruct (writes (fm h) && fpo h); [|exact Hl].
      unfold set_val. rewrite get_dat_upd_dat.
      assert (Nat.eqb d (fd h) = false) as -> by (apply Nat.eqb_neq; auto). exact Hl.
Qed.

Lemma epilog_frame : forall fl st j, (forall f, In f fl -> fd f <> d) -> copy_at (epilog st g fl) d j = copy_at st d j.
Proof.
  induction fl as [|f r IH]; intros st j Hn; cbn [epilog]; [reflexivity|].
  assert (Hr : forall f0, In f0 r -> fd f0 <> d) by (intros f0 Hf0; apply Hn; now right).
  assert (Hne : Nat.eqb d (fd f) = false) by (apply Nat.eqb_neq; intros E; apply (Hn f); [now left|auto]).
  destruct (negb (writes (fm f))); [now apply IH|].
  destruct (fpo f).
  - destruct (copy_at st (fd f) g) as [gc|]; [|now apply IH].
    rewrite IH by exact Hr. unfold push_lru, chop. rewrite !copy_at_upd_dev, !copy_at_upd_copy, Hne. reflexivity.
  - rewrite IH by exact Hr. unfold push_owned. now rewrite copy_at_upd_dev.
Qed.
Lemma epilog_effect : forall fl st f c0 cg, NoDup (map fd fl) -> In f fl -> fd f = d -> writes (fm f) = true -> fpo f = true ->
  copy_at st d 0 = Some c0 -> copy_at st d g = Some cg ->
  exists c0' cg', copy_at (epilog st g fl) d 0 = Some c0' /\ copy_at (epilog st g fl) d g = Some cg' /\
                  ver c0' = ver cg /\ ver cg' = ver cg /\ cst c0' = SHARED /\ cst cg' = SHARED.
Proof.
  induction fl as [|h r IH]; intros st f c0 cg Hnd Hin Hfd Hw Hpo H0 Hgc; [destruct Hin|].
  cbn [map] in Hnd. inversion Hnd as [|x l Hnotin Hnd']; subst x l.
  pose proof (copy_at_in_range _ _ _ _ H0) as Hd. apply Nat.ltb_lt in Hd.
  destruct Hin as [->|Hin].
  - cbn [epilog]. rewrite Hw, Hpo, Hfd, Hgc. cbn [negb].
    assert (Hr : forall f0, In f0 r -> fd f0 <> d).
    { intros f0 Hf0 E. apply Hnotin. rewrite Hfd, <- E. now apply in_map. }
    rewrite !epilog_frame by exact Hr. unfold push_lru, chop. rewrite !copy_at_upd_dev, !copy_at_upd_copy.
    rewrite !length_dats_upd_copy, Nat.eqb_refl, Hd. cbn [andb]. rewrite H0, Hgc. cbn [option_map].
    destruct g as [|g']; [lia|]. cbn [Nat.eqb]. rewrite Nat.eqb_refl.
    do 2 eexists. split; [reflexivity|]. split; [reflexivity|]. cbn. auto.
  - assert (Hne : fd h <> d).
    { intros E. apply Hnotin. rewrite E, <- Hfd. now apply in_map. }
    assert (Hneb : Nat.eqb d (fd h) = false) by (apply Nat.eqb_neq; auto).
    cbn [epilog]. destruct (negb (writes (fm h))); [now apply (IH st f c0 cg)|].
    destruct (fpo h).
    + destruct (copy_at st (fd h) g) as [gc|]; [|now apply (IH st f c0 cg)].
      apply (IH _ f c0 cg); auto; unfold push_lru, chop; rewrite !copy_at_upd_dev, !copy_at_upd_copy, Hneb; assumption.
    + apply (IH _ f c0 cg); auto; unfold push_owned; rewrite copy_at_upd_dev; assumption.
Qed.
End OneTile.

(* update_pushout -> kernel_pop -> device-to-host copies -> kernel_epilog: whatever the successor lists and the order in
   which they are enumerated, a written flow with a successor on another rank ends with a host copy that carries the
   version and the content of the device copy (the copy the communication engine will send) *)
Theorem remote_successor_served_from_newest st g fl succs i f c0 cg :
  (1 <= g)%nat -> NoDup (map fd fl) ->
  nth_error fl i = Some f -> writes (fm f) = true -> has_remote (nth i succs []) = true ->
  copy_at st (fd f) 0 = Some c0 -> copy_at st (fd f) g = Some cg ->
  (0 < length (vals (get_dat st (fd f))))%nat ->
  let st' := post_kernel st g fl succs in
  exists c0' cg', copy_at st' (fd f) 0 = Some c0' /\ copy_at st' (fd f) g = Some cg' /\
                  ver c0' = ver cg /\ ver cg' = ver cg /\ cst c0' = SHARED /\
                  val_at st' (fd f) 0 = val_at st (fd f) g /\ val_at st' (fd f) g = val_at st (fd f) g.
Proof.
  intros Hg Hnd Hnth Hw Hrem H0 Hgc Hl st'. unfold st', post_kernel.
  set (fl' := with_pushout fl succs).
  set (f' := mkflow (fd f) (fm f) (needs_pushout fl succs i)).
  assert (Hnth' : nth_error fl' i = Some f') by (unfold fl'; rewrite with_pushout_nth, Hnth; reflexivity).
  assert (Hin' : In f' fl') by (eapply nth_error_In; exact Hnth').
  assert (Hpo' : fpo f' = true).
  { unfold f'; cbn [fpo]. unfold needs_pushout. rewrite Hnth, Hw, Hrem. now rewrite orb_true_r. }
  assert (Hnd' : NoDup (map fd fl')) by (unfold fl'; now rewrite with_pushout_fd).
  set (d := fd f).
  set (st1 := fst (pop st g fl' [])). set (st2 := run_d2h st1 g fl').
  assert (HK2 : K d g st2 (ver cg)).
  { apply K_run_d2h, K_pop. exists c0, cg. auto. }
  destruct HK2 as (c02 & cg2 & H02 & Hg2 & Hv2).
  destruct (epilog_effect d g Hg fl' st2 f' c02 cg2 Hnd' Hin' eq_refl Hw Hpo' H02 Hg2)
    as (c0' & cg' & E0 & Eg & Ev0 & Evg & Es0 & _).
  exists c0', cg'. split; [exact E0|]. split; [exact Eg|]. split; [congruence|]. split; [congruence|]. split; [exact Es0|].
  assert (Hd : (d < length (dats st))%nat) by (eapply copy_at_in_range; exact H0).
  assert (Hv1 : same_vals st1 st) by apply vals_pop.
  assert (Hd1 : (d < length (dats st1))%nat).
  { pose proof (shape_pop g fl' st []) as (_ & Hlen & _). fold st1 in Hlen. now rewrite Hlen. }
  assert (Hl1 : (0 < length (vals (get_dat st1 d)))%nat).
  { (* pop only updates copies: the memory of the tile keeps its shape *)
    assert (Hgen : forall fl0 s cps, vals (get_dat (fst (pop s g fl0 cps)) d) = vals (get_dat s d)).
    { assert (Hc : forall s e k h, vals (get_dat (upd_copy s e k h) d) = vals (get_dat s d)).
      { intros s e k h. unfold upd_copy, upd_coh. rewrite get_dat_upd_dat.
        destruct (Nat.eqb d e && Nat.ltb d (length (dats s))); reflexivity. }
      assert (Hrr : forall s t e a, vals (get_dat (release_reader s t e a) d) = vals (get_dat s d)).
      { intros s t e a. unfold release_reader. destruct (copy_at s e t) as [c|]; [|reflexivity].
        destruct ((rdr c - 1 =? 0) && a); [|apply Hc]. destruct (is_owned (cst c)); apply Hc. }
      induction fl0 as [|h r IH]; intros s cps; cbn [pop]; [reflexivity|].
      destruct (writes (fm h) && fpo h); rewrite IH; rewrite ?Hc; destruct (reads (fm h)); rewrite ?Hrr; reflexivity. }
    unfold st1. rewrite Hgen. exact Hl. }
  split.
  - rewrite (vals_epilog g fl' st2 d 0%nat). unfold st2.
    rewrite (run_d2h_effect d g fl' st1 f' Hnd' Hin' eq_refl); [apply Hv1| |exact Hd1|exact Hl1].
    rewrite Hpo'. unfold f'; cbn [fm]. now rewrite Hw.
  - rewrite (vals_epilog g fl' st2 d g). unfold st2. rewrite run_d2h_dev by exact Hg. apply Hv1.
Qed.
