(* Proofs about the device-memory model of GPUDefs.v (C43): the reservation pass of
   parsec_device_data_reserve_space evicts only idle copies of the clean list, keeps every copy the
   running task already holds, and never over-commits the zone. *)
From PV Require Import Base.Tac Coherency.CoherencyDefs Coherency.CoherencyProofs GPU.GPUDefs.
Local Open Scope Z_scope.

(* ---------- lists ---------- *)
Lemma nth_mapi_from {A B} (f : nat -> A -> B) l : forall k i d d', (i < length l)%nat ->
  nth i (mapi_from f k l) d' = f (k + i)%nat (nth i l d).
Proof.
  induction l as [|x l IH]; intros k i d d' Hi; cbn [length] in Hi; [lia|].
  destruct i; cbn [mapi_from nth].
  - now rewrite Nat.add_0_r.
  - rewrite (IH (S k) i d d') by lia. f_equal. lia.
Qed.
Lemma length_upd {A} i (f : A -> A) l : length (upd i f l) = length l.
Proof. apply length_mapi_from. Qed.
Lemma nth_upd {A} i j (f : A -> A) l d : (j < length l)%nat ->
  nth j (upd i f l) d = if Nat.eqb j i then f (nth j l d) else nth j l d.
Proof. intros Hj. unfold upd. rewrite (nth_mapi_from _ l 0 j d d Hj). reflexivity. Qed.
Lemma nth_upd_over {A} i j (f : A -> A) l d : (length l <= j)%nat -> nth j (upd i f l) d = nth j l d.
Proof. intros Hj. rewrite !nth_overflow; rewrite ?length_upd; auto. Qed.
Lemma nth_error_upd {A} i j (f : A -> A) l :
  nth_error (upd i f l) j = option_map (fun x => if Nat.eqb j i then f x else x) (nth_error l j).
Proof. unfold upd. now rewrite nth_error_mapi_from. Qed.

(* ---------- accessors under updates ---------- *)
Lemma dats_upd_dev st g f : dats (upd_dev st g f) = dats st. Proof. reflexivity. Qed.
Lemma copy_at_upd_dev st g f d i : copy_at (upd_dev st g f) d i = copy_at st d i. Proof. reflexivity. Qed.
Lemma cap_upd_dev st g f : cap (upd_dev st g f) = cap st. Proof. reflexivity. Qed.
Lemma cap_upd_dat st d f : cap (upd_dat st d f) = cap st. Proof. reflexivity. Qed.
Lemma get_dev_upd_dat st d f g : get_dev (upd_dat st d f) g = get_dev st g. Proof. reflexivity. Qed.

Lemma get_dev_upd_dev_same st g f : (pred g < length (devs st))%nat ->
  get_dev (upd_dev st g f) g = f (get_dev st g).
Proof. intros H. unfold get_dev, upd_dev; cbn [devs]. rewrite nth_upd by exact H. now rewrite Nat.eqb_refl. Qed.
Lemma get_dev_in_range st g x r : lru (get_dev st g) = x :: r -> (pred g < length (devs st))%nat.
Proof.
  intros H. destruct (Nat.ltb (pred g) (length (devs st))) eqn:E; [now apply Nat.ltb_lt|].
  apply Nat.ltb_ge in E. unfold get_dev in H. rewrite nth_overflow in H by exact E. discriminate.
Qed.

Lemma get_dat_upd_dat st d f e :
  get_dat (upd_dat st d f) e = if Nat.eqb e d && Nat.ltb e (length (dats st)) then f (get_dat st e) else get_dat st e.
Proof.
  unfold get_dat, upd_dat; cbn [dats]. destruct (Nat.ltb e (length (dats st))) eqn:E.
  - apply Nat.ltb_lt in E. rewrite nth_upd by exact E. now rewrite andb_true_r.
  - apply Nat.ltb_ge in E. rewrite nth_upd_over by exact E. now rewrite andb_false_r.
Qed.

Lemma getc_upd_set i j o cs : getc (upd i (fun _ => o) cs) j =
  if Nat.eqb j i && Nat.ltb j (length cs) then match o with Some c => Some c | None => None end else getc cs j.
Proof.
  unfold getc. rewrite nth_error_upd. destruct (nth_error cs j) as [x|] eqn:E; cbn [option_map].
  - assert (j < length cs)%nat as Hl by (apply nth_error_Some; congruence).
    apply Nat.ltb_lt in Hl. rewrite Hl, andb_true_r. destruct (Nat.eqb j i); reflexivity.
  - assert (length cs <= j)%nat as Hl by (now apply nth_error_None).
    apply Nat.ltb_ge in Hl. rewrite Hl, andb_false_r. reflexivity.
Qed.

(* the copy of (e, i) after the slot (d, g) was set *)
Lemma copy_at_set_slot st d g o e i :
  copy_at (set_slot st d g o) e i =
  if (Nat.eqb e d && Nat.ltb e (length (dats st))) && (Nat.eqb i g && Nat.ltb i (ndev st d)) then o else copy_at st e i.
Proof.
  unfold copy_at, set_slot, upd_coh. rewrite get_dat_upd_dat.
  destruct (Nat.eqb e d && Nat.ltb e (length (dats st))) eqn:E; cbn [andb]; [|reflexivity].
  cbn [coh copies]. rewrite getc_upd_set.
  apply andb_prop in E. destruct E as [E1 _]. apply Nat.eqb_eq in E1. subst e. unfold ndev.
  destruct (Nat.eqb i g && Nat.ltb i (length (copies (coh (get_dat st d))))); [destruct o|]; reflexivity.
Qed.
Lemma copy_at_set_val st d g v e i : copy_at (set_val st d g v) e i = copy_at st e i.
Proof.
  unfold copy_at, set_val. rewrite get_dat_upd_dat.
  destruct (Nat.eqb e d && Nat.ltb e (length (dats st))); reflexivity.
Qed.
Lemma copy_at_attach_new st d g e i :
  copy_at (attach_new st d g) e i =
  if (Nat.eqb e d && Nat.ltb e (length (dats st))) && (Nat.eqb i g && Nat.ltb i (ndev st d)) then Some fresh_dev_copy
  else copy_at st e i.
Proof. unfold attach_new. rewrite copy_at_set_val. apply copy_at_set_slot. Qed.
Lemma get_dev_set_slot st d g o t : get_dev (set_slot st d g o) t = get_dev st t. Proof. reflexivity. Qed.
Lemma get_dev_attach_new st d g t : get_dev (attach_new st d g) t = get_dev st t. Proof. reflexivity. Qed.
Lemma cap_attach_new st d g : cap (attach_new st d g) = cap st. Proof. reflexivity. Qed.

(* ---------- the eviction loop ---------- *)
(* what the loop returns: the victim was in the clean list, had no reader, is not named by an earlier flow of
   the task; only its slot changed; the dirty list is untouched and the clean list only lost elements *)
Lemma evict_loop_spec fuel : forall st g earlier st' e,
  evict_loop fuel st g earlier = Some (st', e) ->
  In e (lru (get_dev st g)) /\ ~ In e earlier /\
  (exists c, copy_at st e g = Some c /\ rdr c = 0) /\
  dats st' = dats (set_slot st e g None) /\ cap st' = cap st /\
  owned (get_dev st' g) = owned (get_dev st g) /\
  (forall x, In x (lru (get_dev st' g)) -> In x (lru (get_dev st g))).
Proof.
  induction fuel as [|f IH]; intros st g earlier st' e H; cbn [evict_loop] in H; [discriminate|].
  destruct (lru (get_dev st g)) as [|e0 rest] eqn:El; [discriminate|].
  pose proof (get_dev_in_range st g e0 rest El) as Hr.
  set (st1 := upd_dev st g (fun v => mkdev rest (owned v))) in *.
  assert (Hg1 : get_dev st1 g = mkdev rest (owned (get_dev st g))) by (unfold st1; now rewrite get_dev_upd_dev_same).
  assert (Hrec : evict_loop f st1 g earlier = Some (st', e) ->
                 In e (e0 :: rest) /\ ~ In e earlier /\ (exists c, copy_at st e g = Some c /\ rdr c = 0) /\
                 dats st' = dats (set_slot st e g None) /\ cap st' = cap st /\
                 owned (get_dev st' g) = owned (get_dev st g) /\
                 (forall x, In x (lru (get_dev st' g)) -> In x (e0 :: rest))).
  { intros Hq. destruct (IH _ _ _ _ _ Hq) as (Hi & Hn & Hc & Hd & Hcap & Ho & Hl).
    rewrite Hg1 in Hi, Ho, Hl. cbn [lru owned] in Hi, Ho, Hl.
    repeat split; auto.
    - now right.
    - intros x Hx. right. now apply Hl. }
  destruct (copy_at st1 e0 g) as [c|] eqn:Ec; [|now apply Hrec].
  destruct (negb (rdr c =? 0)) eqn:Er; [now apply Hrec|].
  destruct (existsb (Nat.eqb e0) earlier) eqn:Ee; [now apply Hrec|].
  inversion H; subst st' e; clear H.
  repeat split.
  - now left.
  - intros Hin. assert (existsb (Nat.eqb e0) earlier = true) as Hx; [|congruence].
    apply existsb_exists. exists e0. split; [exact Hin|apply Nat.eqb_refl].
  - exists c. split; [exact Ec|]. apply negb_false_iff in Er. lia.
  - rewrite get_dev_set_slot, Hg1. reflexivity.
  - intros x Hx. rewrite get_dev_set_slot, Hg1 in Hx. cbn [lru] in Hx. now right.
Qed.

(* ---------- the reservation pass ---------- *)
Lemma copy_at_dats a b d i : dats a = dats b -> copy_at a d i = copy_at b d i.
Proof. unfold copy_at, get_dat. now intros ->. Qed.
Lemma ndev_dats a b d : dats a = dats b -> ndev a d = ndev b d.
Proof. unfold ndev, get_dat. now intros ->. Qed.
Lemma length_dats_set_slot st d g o : length (dats (set_slot st d g o)) = length (dats st).
Proof. unfold set_slot, upd_coh, upd_dat; cbn [dats]. apply length_upd. Qed.
Lemma length_dats_attach_new st d g : length (dats (attach_new st d g)) = length (dats st).
Proof. unfold attach_new, set_val, upd_dat; cbn [dats]. rewrite length_upd. apply length_dats_set_slot. Qed.
Lemma ndev_set_slot st d g o e : ndev (set_slot st d g o) e = ndev st e.
Proof.
  unfold ndev, set_slot, upd_coh. rewrite get_dat_upd_dat.
  destruct (Nat.eqb e d && Nat.ltb e (length (dats st))) eqn:E; [|reflexivity].
  cbn [coh copies]. rewrite length_upd. reflexivity.
Qed.
Lemma ndev_set_val st d g v e : ndev (set_val st d g v) e = ndev st e.
Proof.
  unfold ndev, set_val. rewrite get_dat_upd_dat.
  destruct (Nat.eqb e d && Nat.ltb e (length (dats st))); reflexivity.
Qed.
Lemma ndev_attach_new st d g e : ndev (attach_new st d g) e = ndev st e.
Proof. unfold attach_new. rewrite ndev_set_val. apply ndev_set_slot. Qed.

(* relation between the state at the start of the pass (st0) and the current one *)
Record Rinv (st0 st : gstate) (g : nat) : Prop := mkRinv {
  ri_cap : cap st = cap st0;
  ri_len : length (dats st) = length (dats st0);
  ri_ndev : forall d, ndev st d = ndev st0 d;
  ri_lru : forall x, In x (lru (get_dev st g)) -> In x (lru (get_dev st0 g));
  ri_owned : owned (get_dev st g) = owned (get_dev st0 g);
  ri_other : forall d i, i <> g -> copy_at st d i = copy_at st0 d i;
  ri_busy : forall d c, copy_at st0 d g = Some c -> rdr c <> 0 -> copy_at st d g = Some c;
  ri_offlist : forall d c, copy_at st0 d g = Some c -> ~ In d (lru (get_dev st0 g)) -> copy_at st d g = Some c;
  ri_new : forall d c, copy_at st d g = Some c -> copy_at st0 d g = Some c \/ c = fresh_dev_copy }.

Lemma Rinv_refl st g : Rinv st st g.
Proof. constructor; auto. Qed.

Definition slot_ok (st : gstate) (d g : nat) : Prop := (d < length (dats st))%nat /\ (g < ndev st d)%nat.

Lemma attach_new_hit st d g : slot_ok st d g -> copy_at (attach_new st d g) d g = Some fresh_dev_copy.
Proof.
  intros [H1 H2]. rewrite copy_at_attach_new. rewrite !Nat.eqb_refl.
  apply Nat.ltb_lt in H1, H2. now rewrite H1, H2.
Qed.
Lemma attach_new_other st d g e i : (e <> d \/ i <> g) -> copy_at (attach_new st d g) e i = copy_at st e i.
Proof.
  intros H. rewrite copy_at_attach_new.
  destruct H as [H|H]; apply Nat.eqb_neq in H; rewrite H; cbn [andb]; rewrite ?andb_false_r; reflexivity.
Qed.
(* attaching on a slot that holds nothing changes no existing copy *)
Lemma attach_new_keeps st d g e i c : copy_at st d g = None -> copy_at st e i = Some c ->
  copy_at (attach_new st d g) e i = Some c.
Proof.
  intros Hn Hc. destruct (Nat.eq_dec e d) as [->|He]; [destruct (Nat.eq_dec i g) as [->|Hi]|].
  - congruence.
  - rewrite attach_new_other; auto.
  - rewrite attach_new_other; auto.
Qed.

Lemma set_slot_none_other st e g x i : (x <> e \/ i <> g) -> copy_at (set_slot st e g None) x i = copy_at st x i.
Proof.
  intros H. rewrite copy_at_set_slot.
  destruct H as [H|H]; apply Nat.eqb_neq in H; rewrite H; cbn [andb]; rewrite ?andb_false_r; reflexivity.
Qed.

Lemma reserve_flow_spec st0 st g earlier d ev st1 ev1 :
  Rinv st0 st g ->
  reserve_flow st g earlier d ev = Some (st1, ev1) ->
  Rinv st0 st1 g /\
  (forall x c, In x earlier -> copy_at st x g = Some c -> copy_at st1 x g = Some c) /\
  (slot_ok st d g -> copy_at st1 d g <> None) /\
  (forall e, In e ev1 -> In e ev \/ In e (lru (get_dev st0 g))).
Proof.
  intros HR H. unfold reserve_flow in H.
  destruct (copy_at st d g) as [c0|] eqn:Ed.
  { inversion H; subst st1 ev1; clear H. split; [exact HR|]. split; [auto|].
    split; [intros _; congruence|]. intros e He. now left. }
  assert (Hattach : forall sta, Rinv st0 sta g -> copy_at sta d g = None ->
                    Rinv st0 (attach_new sta d g) g /\
                    (forall x c, copy_at sta x g = Some c -> copy_at (attach_new sta d g) x g = Some c) /\
                    (slot_ok sta d g -> copy_at (attach_new sta d g) d g <> None)).
  { intros sta [A1 A2 A3 A4 A5 A6 A7 A8 A9] Hn. split; [constructor|split].
    - now rewrite cap_attach_new.
    - now rewrite length_dats_attach_new.
    - intros x. now rewrite ndev_attach_new.
    - intros x. rewrite get_dev_attach_new. apply A4.
    - rewrite get_dev_attach_new. exact A5.
    - intros x i Hi. rewrite attach_new_other by auto. now apply A6.
    - intros x c Hc Hr. apply attach_new_keeps; auto.
    - intros x c Hc Hr. apply attach_new_keeps; auto.
    - intros x c Hc. rewrite copy_at_attach_new in Hc.
      destruct ((Nat.eqb x d && Nat.ltb x (length (dats sta))) && (Nat.eqb g g && Nat.ltb g (ndev sta d))).
      + right. congruence.
      + now apply A9.
    - intros x cx Ex. now apply attach_new_keeps.
    - intros Hs. rewrite attach_new_hit by exact Hs. congruence. }
  destruct (Nat.ltb (resident st g) (cap st)) eqn:Ecap.
  { inversion H; subst st1 ev1; clear H.
    destruct (Hattach st HR Ed) as (B1 & B2 & B3).
    split; [exact B1|]. split; [intros x c _; apply B2|]. split; [exact B3|]. intros e He. now left. }
  destruct (evict_loop (S (length (lru (get_dev st g)))) st g earlier) as [[ste e]|] eqn:Eev; [|discriminate].
  inversion H; subst st1 ev1; clear H.
  destruct (evict_loop_spec _ _ _ _ _ _ Eev) as (Hi & Hne & (c & Hc & Hr0) & Hd & Hcap & Ho & Hl).
  destruct HR as [A1 A2 A3 A4 A5 A6 A7 A8 A9].
  assert (Hde : d <> e) by (intros ->; congruence).
  assert (HRe : Rinv st0 ste g).
  { constructor.
    - congruence.
    - rewrite Hd, length_dats_set_slot. exact A2.
    - intros x. rewrite (ndev_dats _ _ x Hd), ndev_set_slot. apply A3.
    - intros x Hx. apply A4. now apply Hl.
    - congruence.
    - intros x i Hi'. rewrite (copy_at_dats _ _ x i Hd), set_slot_none_other by auto. now apply A6.
    - intros x cx Hcx Hrx. rewrite (copy_at_dats _ _ x g Hd).
      destruct (Nat.eq_dec x e) as [->|Hxe].
      + specialize (A7 e cx Hcx Hrx). rewrite A7 in Hc. inversion Hc; subst. contradiction.
      + rewrite set_slot_none_other by auto. now apply A7.
    - intros x cx Hcx Hnl. rewrite (copy_at_dats _ _ x g Hd).
      destruct (Nat.eq_dec x e) as [->|Hxe].
      + exfalso. apply Hnl. now apply A4.
      + rewrite set_slot_none_other by auto. now apply A8.
    - intros x cx Hcx. rewrite (copy_at_dats _ _ x g Hd) in Hcx.
      destruct (Nat.eq_dec x e) as [->|Hxe].
      + rewrite copy_at_set_slot in Hcx.
        destruct ((Nat.eqb e e && Nat.ltb e (length (dats st))) && (Nat.eqb g g && Nat.ltb g (ndev st e))) eqn:E; [discriminate|].
        now apply A9.
      + rewrite set_slot_none_other in Hcx by auto. now apply A9. }
  assert (Hne' : copy_at ste d g = None).
  { rewrite (copy_at_dats _ _ d g Hd), set_slot_none_other by auto. exact Ed. }
  destruct (Hattach ste HRe Hne') as (B1 & B2 & B3).
  split; [exact B1|]. split; [|split].
  - intros x cx Hx Ex. apply B2. rewrite (copy_at_dats _ _ x g Hd).
    assert (x <> e) by (intros ->; contradiction).
    rewrite set_slot_none_other by auto. exact Ex.
  - intros [Hs1 Hs2]. apply B3. split.
    + rewrite Hd, length_dats_set_slot. exact Hs1.
    + rewrite (ndev_dats _ _ d Hd), ndev_set_slot. exact Hs2.
  - intros x Hx. apply in_app_or in Hx. destruct Hx as [Hx|[<-|[]]]; [now left|right].
    now apply A4.
Qed.

Lemma slot_ok_Rinv st0 st g d : Rinv st0 st g -> slot_ok st0 d g -> slot_ok st d g.
Proof. intros HR [H1 H2]. split; [rewrite (ri_len _ _ _ HR)|rewrite (ri_ndev _ _ _ HR)]; assumption. Qed.

Lemma reserve_from_spec st0 g : forall fl st earlier ev st' ev',
  Rinv st0 st g ->
  reserve_from st g earlier fl ev = Some (st', ev') ->
  Rinv st0 st' g /\
  (forall x c, In x earlier -> copy_at st x g = Some c -> copy_at st' x g = Some c) /\
  (forall f, In f fl -> slot_ok st0 (fd f) g -> copy_at st' (fd f) g <> None) /\
  (forall e, In e ev' -> In e ev \/ In e (lru (get_dev st0 g))).
Proof.
  induction fl as [|f r IH]; intros st earlier ev st' ev' HR H; cbn [reserve_from] in H.
  - inversion H; subst st' ev'; clear H. split; [exact HR|]. split; [auto|]. split; [intros f []|]. intros e He. now left.
  - destruct (reserve_flow st g earlier (fd f) ev) as [[st1 ev1]|] eqn:Ef; [|discriminate].
    destruct (reserve_flow_spec _ _ _ _ _ _ _ _ HR Ef) as (HR1 & He1 & Hd1 & Hv1).
    destruct (IH st1 (earlier ++ [fd f]) ev1 st' ev' HR1 H) as (HR2 & He2 & Hf2 & Hv2).
    split; [exact HR2|]. split; [|split].
    + intros x c Hx Ex. apply He2; [apply in_or_app; now left|]. now apply He1.
    + intros f0 [<-|Hin] Hs; [|now apply Hf2].
      destruct (copy_at st1 (fd f) g) as [c1|] eqn:E1.
      * rewrite (He2 (fd f) c1); [congruence| apply in_or_app; right; now left | exact E1].
      * exfalso. apply Hd1; [|reflexivity]. now apply (slot_ok_Rinv st0).
    + intros e He. destruct (Hv2 e He) as [Hx|Hx]; [|now right]. now apply Hv1.
Qed.

(* parsec_device_data_reserve_space, when it succeeds:
   - every evicted datum came from the clean list gpu_mem_lru of the device;
   - every flow of the task holds a copy on the device at the end of the pass (no flow lost its copy to another one);
   - a copy with readers != 0 is still there, unchanged; so is every copy that was not in the clean list
     (copies of the dirty list, copies held by running tasks);
   - the dirty list and the copies on the other devices are untouched. *)
Theorem reserve_spec st g fl st' ev : reserve st g fl = Some (st', ev) ->
  (forall e, In e ev -> In e (lru (get_dev st g))) /\
  (forall f, In f fl -> slot_ok st (fd f) g -> copy_at st' (fd f) g <> None) /\
  (forall d c, copy_at st d g = Some c -> rdr c <> 0 -> copy_at st' d g = Some c) /\
  (forall d c, copy_at st d g = Some c -> ~ In d (lru (get_dev st g)) -> copy_at st' d g = Some c) /\
  owned (get_dev st' g) = owned (get_dev st g) /\
  (forall d i, i <> g -> copy_at st' d i = copy_at st d i).
Proof.
  intros H. unfold reserve in H.
  destruct (reserve_from_spec st g fl st [] [] st' ev (Rinv_refl st g) H) as (HR & _ & Hf & Hv).
  split; [|split; [exact Hf|split; [|split; [|split]]]].
  - intros e He. destruct (Hv e He) as [[]|Hx]. exact Hx.
  - apply (ri_busy _ _ _ HR).
  - apply (ri_offlist _ _ _ HR).
  - apply (ri_owned _ _ _ HR).
  - apply (ri_other _ _ _ HR).
Qed.

(* ---------- the zone is never over-committed ---------- *)
Lemma mapi_from_ext {A B} (F G : nat -> A -> B) l : forall n,
  (forall k x, F k x = G k x) -> mapi_from F n l = mapi_from G n l.
Proof. induction l as [|x l IH]; intros n H; cbn [mapi_from]; [reflexivity|]. rewrite H. f_equal. now apply IH. Qed.
Lemma mapi_from_shift {A B} (F : nat -> A -> B) l : forall n,
  mapi_from F (S n) l = mapi_from (fun k => F (S k)) n l.
Proof. induction l as [|x l IH]; intros n; cbn [mapi_from]; [reflexivity|]. f_equal. apply IH. Qed.
Lemma mapi_from_id {A} (F : nat -> A -> A) l : forall n,
  (forall k x, (n <= k)%nat -> F k x = x) -> mapi_from F n l = l.
Proof.
  induction l as [|x l IH]; intros n H; cbn [mapi_from]; [reflexivity|].
  rewrite H by lia. f_equal. apply IH. intros k y Hk. apply H. lia.
Qed.
Lemma upd_cons_0 {A} (f : A -> A) x l : upd 0 f (x :: l) = f x :: l.
Proof.
  unfold upd; cbn [mapi_from Nat.eqb]. f_equal. apply mapi_from_id.
  intros k y Hk. destruct k; [lia|reflexivity].
Qed.
Lemma upd_cons_S {A} i (f : A -> A) x l : upd (S i) f (x :: l) = x :: upd i f l.
Proof.
  unfold upd; cbn [mapi_from Nat.eqb]. f_equal. rewrite mapi_from_shift. apply mapi_from_ext. reflexivity.
Qed.
Lemma upd_nil {A} i (f : A -> A) : upd i f [] = []. Proof. reflexivity. Qed.

Definition b2n (b : bool) : nat := if b then 1%nat else 0%nat.
Lemma count_upd {A} (p : A -> bool) (f : A -> A) (dflt : A) : forall l i, (i < length l)%nat ->
  (length (filter p (upd i f l)) + b2n (p (nth i l dflt)) = length (filter p l) + b2n (p (f (nth i l dflt))))%nat.
Proof.
  induction l as [|x l IH]; intros i Hi; cbn [length] in Hi; [lia|].
  destruct i.
  - rewrite upd_cons_0. cbn [filter nth]. destruct (p x), (p (f x)); cbn [length b2n]; lia.
  - rewrite upd_cons_S. cbn [filter nth]. specialize (IH i ltac:(lia)).
    destruct (p x); cbn [length]; lia.
Qed.
Lemma upd_over {A} i (f : A -> A) l : (length l <= i)%nat -> upd i f l = l.
Proof.
  revert i. induction l as [|x l IH]; intros i Hi; [reflexivity|]. cbn [length] in Hi.
  destruct i; [lia|]. rewrite upd_cons_S. f_equal. apply IH. lia.
Qed.

Definition has_on (g : nat) (x : datum) : bool := match getc (copies (coh x)) g with Some _ => true | None => false end.
Lemma resident_eq st g : resident st g = length (filter (has_on g) (dats st)). Proof. reflexivity. Qed.
Lemma resident_dats a b g : dats a = dats b -> resident a g = resident b g.
Proof. unfold resident. now intros ->. Qed.

Lemma resident_upd_dat st d f g : (forall x, has_on g (f x) = has_on g x) -> resident (upd_dat st d f) g = resident st g.
Proof.
  intros H. rewrite !resident_eq. unfold upd_dat; cbn [dats].
  destruct (Nat.ltb d (length (dats st))) eqn:E.
  - apply Nat.ltb_lt in E. pose proof (count_upd (has_on g) f dflt_datum (dats st) d E) as Hc.
    rewrite H in Hc. lia.
  - apply Nat.ltb_ge in E. now rewrite upd_over.
Qed.
Lemma resident_set_val st d i v g : resident (set_val st d i v) g = resident st g.
Proof. unfold set_val. apply resident_upd_dat. reflexivity. Qed.

Lemma resident_evict st e g c : copy_at st e g = Some c -> (resident (set_slot st e g None) g + 1 = resident st g)%nat.
Proof.
  intros Hc. rewrite !resident_eq. unfold set_slot, upd_coh, upd_dat; cbn [dats].
  assert (He : (e < length (dats st))%nat).
  { destruct (Nat.ltb e (length (dats st))) eqn:E; [now apply Nat.ltb_lt|]. apply Nat.ltb_ge in E.
    unfold copy_at, get_dat in Hc. rewrite nth_overflow in Hc by exact E. cbn in Hc. unfold getc in Hc.
    destruct g; discriminate. }
  set (F := fun x : datum => mkdatum (mkdata (owner (coh x)) (upd g (fun _ => None) (copies (coh x)))) (vals x)).
  pose proof (count_upd (has_on g) F dflt_datum (dats st) e He) as Hcnt.
  assert (H1 : has_on g (nth e (dats st) dflt_datum) = true).
  { unfold has_on. unfold copy_at, get_dat in Hc. now rewrite Hc. }
  assert (H2 : has_on g (F (nth e (dats st) dflt_datum)) = false).
  { unfold has_on, F; cbn [coh copies]. rewrite getc_upd_set. rewrite Nat.eqb_refl.
    unfold copy_at, get_dat in Hc. apply getc_lt in Hc. apply Nat.ltb_lt in Hc. now rewrite Hc. }
  rewrite H1, H2 in Hcnt. cbn [b2n] in Hcnt. fold F. lia.
Qed.
Lemma resident_attach st d g : (resident (attach_new st d g) g <= S (resident st g))%nat.
Proof.
  unfold attach_new. rewrite resident_set_val. rewrite !resident_eq. unfold set_slot, upd_coh, upd_dat; cbn [dats].
  destruct (Nat.ltb d (length (dats st))) eqn:E.
  - apply Nat.ltb_lt in E.
    set (F := fun x : datum => mkdatum (mkdata (owner (coh x)) (upd g (fun _ => Some fresh_dev_copy) (copies (coh x)))) (vals x)).
    pose proof (count_upd (has_on g) F dflt_datum (dats st) d E) as Hcnt. fold F.
    destruct (has_on g (nth d (dats st) dflt_datum)), (has_on g (F (nth d (dats st) dflt_datum))); cbn [b2n] in Hcnt; lia.
  - apply Nat.ltb_ge in E. rewrite upd_over by exact E. lia.
Qed.

Lemma reserve_flow_cap st g earlier d ev st1 ev1 :
  reserve_flow st g earlier d ev = Some (st1, ev1) ->
  cap st1 = cap st /\ ((resident st g <= cap st)%nat -> (resident st1 g <= cap st)%nat).
Proof.
  intros H. unfold reserve_flow in H.
  destruct (copy_at st d g) as [c0|] eqn:Ed.
  { inversion H; subst; auto. }
  destruct (Nat.ltb (resident st g) (cap st)) eqn:Ecap.
  { inversion H; subst st1 ev1; clear H. split; [reflexivity|]. intros _.
    apply Nat.ltb_lt in Ecap. pose proof (resident_attach st d g). lia. }
  destruct (evict_loop (S (length (lru (get_dev st g)))) st g earlier) as [[ste e]|] eqn:Eev; [|discriminate].
  inversion H; subst st1 ev1; clear H.
  destruct (evict_loop_spec _ _ _ _ _ _ Eev) as (_ & _ & (c & Hc & _) & Hd & Hcap & _ & _).
  split; [rewrite cap_attach_new; exact Hcap|]. intros Hle.
  pose proof (resident_attach ste d g) as Ha.
  rewrite (resident_dats ste (set_slot st e g None) g Hd) in Ha.
  pose proof (resident_evict st e g c Hc). lia.
Qed.
Lemma reserve_from_cap g : forall fl st earlier ev st' ev',
  reserve_from st g earlier fl ev = Some (st', ev') ->
  cap st' = cap st /\ ((resident st g <= cap st)%nat -> (resident st' g <= cap st)%nat).
Proof.
  induction fl as [|f r IH]; intros st earlier ev st' ev' H; cbn [reserve_from] in H.
  - inversion H; subst; auto.
  - destruct (reserve_flow st g earlier (fd f) ev) as [[st1 ev1]|] eqn:Ef; [|discriminate].
    destruct (reserve_flow_cap _ _ _ _ _ _ _ Ef) as (Hc1 & Hr1).
    destruct (IH _ _ _ _ _ H) as (Hc2 & Hr2).
    split; [congruence|]. intros Hle. rewrite Hc1 in Hr2. auto.
Qed.
(* the reservation pass never leaves more copies attached on the device than the zone has tiles *)
Theorem reserve_capacity st g fl st' ev : reserve st g fl = Some (st', ev) ->
  (resident st g <= cap st)%nat -> (resident st' g <= cap st')%nat /\ cap st' = cap st.
Proof.
  intros H Hle. destruct (reserve_from_cap g fl st [] [] st' ev H) as (Hc & Hr).
  split; [rewrite Hc; auto|exact Hc].
Qed.

(* ---------- only the reservation pass attaches or detaches copies ---------- *)
Definition isS {A} (o : option A) : bool := match o with Some _ => true | None => false end.
Definition same_shape (a b : gstate) : Prop :=
  cap a = cap b /\ length (dats a) = length (dats b) /\ forall d i, isS (copy_at a d i) = isS (copy_at b d i).
Lemma same_shape_refl a : same_shape a a. Proof. repeat split. Qed.
Lemma same_shape_trans a b c : same_shape a b -> same_shape b c -> same_shape a c.
Proof.
  intros (A1 & A2 & A3) (B1 & B2 & B3). split; [congruence|]. split; [congruence|].
  intros d i. now rewrite A3.
Qed.

Lemma filter_len_ext {A} (p : A -> bool) (d0 : A) : forall l1 l2, length l1 = length l2 ->
  (forall i, (i < length l1)%nat -> p (nth i l1 d0) = p (nth i l2 d0)) -> length (filter p l1) = length (filter p l2).
Proof.
  induction l1 as [|x l1 IH]; intros [|y l2] Hl H; cbn [length] in Hl; try discriminate; [reflexivity|].
  cbn [filter]. pose proof (H 0%nat ltac:(cbn; lia)) as H0. cbn [nth] in H0. rewrite H0.
  assert (length (filter p l1) = length (filter p l2)) as IHl.
  { apply IH; [lia|]. intros i Hi. apply (H (S i)). cbn [length]. lia. }
  destruct (p y); cbn [length]; lia.
Qed.
Lemma resident_shape a b g : same_shape a b -> resident a g = resident b g.
Proof.
  intros (_ & Hl & Hs). rewrite !resident_eq. apply (filter_len_ext (has_on g) dflt_datum); [exact Hl|].
  intros i _. specialize (Hs i g). unfold copy_at, get_dat in Hs. unfold has_on, isS in *. exact Hs.
Qed.

Lemma shape_upd_dev st g f : same_shape (upd_dev st g f) st. Proof. repeat split. Qed.
Lemma shape_upd_coh st d f :
  (forall dt i, isS (getc (copies (f dt)) i) = isS (getc (copies dt) i)) -> same_shape (upd_coh st d f) st.
Proof.
  intros H. split; [reflexivity|]. split.
  - unfold upd_coh, upd_dat; cbn [dats]. apply length_upd.
  - intros e i. unfold copy_at, upd_coh. rewrite get_dat_upd_dat.
    destruct (Nat.eqb e d && Nat.ltb e (length (dats st))); [|reflexivity]. cbn [coh]. apply H.
Qed.
Lemma shape_set_val st d i v : same_shape (set_val st d i v) st.
Proof.
  split; [reflexivity|]. split.
  - unfold set_val, upd_dat; cbn [dats]. apply length_upd.
  - intros e j. now rewrite copy_at_set_val.
Qed.
Lemma isS_option_map {A B} (f : A -> B) o : isS (option_map f o) = isS o. Proof. destruct o; reflexivity. Qed.
Lemma shape_upd_copy st d i f : same_shape (upd_copy st d i f) st.
Proof. unfold upd_copy. apply shape_upd_coh. intros dt j. cbn [copies]. rewrite getc_upd_at. apply isS_option_map. Qed.

Lemma start_shape dt g m i : isS (getc (copies (fst (start dt g m))) i) = isS (getc (copies dt) i).
Proof.
  destruct (getc (copies dt) g) as [c|] eqn:Eg.
  - destruct (start_spec_gen dt g m c Eg) as (cs' & Hs & _ & Hg). rewrite Hs. cbn [fst copies].
    rewrite Hg. apply isS_option_map.
  - unfold start. now rewrite Eg.
Qed.
Lemma endt_shape dt g m i : isS (getc (copies (endt dt g m)) i) = isS (getc (copies dt) i).
Proof. unfold endt; cbn [copies]. rewrite getc_upd_at. apply isS_option_map. Qed.
Lemma setv_shape dt g v i : isS (getc (copies (setv dt g v)) i) = isS (getc (copies dt) i).
Proof. unfold setv; cbn [copies]. rewrite getc_upd_at. apply isS_option_map. Qed.
Lemma incv_shape dt g i : isS (getc (copies (incv dt g)) i) = isS (getc (copies dt) i).
Proof. unfold incv; cbn [copies]. rewrite getc_upd_at. apply isS_option_map. Qed.
Lemma transfer_shape dt g m i : isS (getc (copies (fst (transfer dt g m))) i) = isS (getc (copies dt) i).
Proof.
  unfold transfer. destruct (start dt g m) as [dt1 r] eqn:Es. cbn [fst].
  rewrite endt_shape. replace dt1 with (fst (start dt g m)) by now rewrite Es. apply start_shape.
Qed.

Ltac shape_step := first
  [ apply same_shape_refl
  | eapply same_shape_trans; [apply shape_upd_dev|]
  | eapply same_shape_trans; [apply shape_upd_copy|]
  | eapply same_shape_trans; [apply shape_set_val|]
  | eapply same_shape_trans; [apply shape_upd_coh; intros; first [apply start_shape|apply endt_shape|apply setv_shape|apply incv_shape|apply transfer_shape]|] ].

Lemma shape_chop st g d : same_shape (chop st g d) st. Proof. apply shape_upd_dev. Qed.
Lemma shape_push_lru st g d : same_shape (push_lru st g d) st. Proof. apply shape_upd_dev. Qed.
Lemma shape_push_owned st g d : same_shape (push_owned st g d) st. Proof. apply shape_upd_dev. Qed.

Lemma shape_release_reader st t d a : same_shape (release_reader st t d a) st.
Proof.
  unfold release_reader. destruct (copy_at st d t) as [c|]; [|apply same_shape_refl].
  destruct ((rdr c - 1 =? 0) && a); [|apply shape_upd_copy].
  destruct (is_owned (cst c)); (eapply same_shape_trans; [apply shape_upd_dev|]);
    (eapply same_shape_trans; [apply shape_upd_dev|]); apply shape_upd_copy.
Qed.

Lemma shape_pick_src n : forall t st d g inver pot,
  same_shape (snd (pick_src n t st d g inver pot)) st.
Proof.
  induction n as [|n IH]; intros t st d g inver pot; cbn [pick_src]; [apply same_shape_refl|].
  destruct (Nat.eqb t g); [apply IH|].
  destruct (copy_at st d t) as [c|]; [|apply IH].
  destruct (negb (ver c =? inver)); [apply IH|].
  destruct (is_invalid (cst c)); [apply IH|].
  destruct (0 <=? rdr c); [cbn [snd]; apply shape_upd_copy|apply IH].
Qed.

Lemma shape_stage_in st g f st' s c : stage_in st g f = Some (st', s, c) -> same_shape st' st.
Proof.
  unfold stage_in. intros H.
  destruct (copy_at st (fd f) g) as [ge|]; [|discriminate].
  destruct (copy_at st (fd f) 0) as [cin|]; [|discriminate].
  set (sta := if writes (fm f) then chop st g (fd f) else st) in *.
  assert (Ha : same_shape sta st) by (unfold sta; destruct (writes (fm f)); [apply shape_chop|apply same_shape_refl]).
  destruct (reads (fm f) && (xfer ge =? 1)).
  { inversion H; subst. eapply same_shape_trans; [|exact Ha]. apply shape_upd_coh. intros. apply start_shape. }
  destruct (if reads (fm f) && negb (writes (fm f))
            then pick_src (pred (ndev sta (fd f))) 1 sta (fd f) g (ver cin) false
            else (None, false, sta)) as [[sel pot] st1] eqn:Ep.
  assert (H1 : same_shape st1 sta).
  { destruct (reads (fm f) && negb (writes (fm f))).
    - pose proof (shape_pick_src (pred (ndev sta (fd f))) 1 sta (fd f) g (ver cin) false) as Hp.
      rewrite Ep in Hp. exact Hp.
    - inversion Ep; subst. apply same_shape_refl. }
  destruct (match sel with Some _ => false | None => pot && (is_invalid (cst cin) || (xfer cin =? 1)) end); [discriminate|].
  destruct (copy_at st1 (fd f) (match sel with Some t => t | None => 0%nat end)) as [sc|]; [|discriminate].
  assert (H2 : same_shape (upd_coh st1 (fd f) (fun dt => fst (start dt g (cmode (fm f))))) st1)
    by (apply shape_upd_coh; intros; apply start_shape).
  destruct (snd (start (coh (get_dat st1 (fd f))) g (cmode (fm f))) =? -1).
  - inversion H; subst st' s c; clear H.
    eapply same_shape_trans; [|eapply same_shape_trans; [exact H1|exact Ha]].
    eapply same_shape_trans; [|exact H2].
    destruct (writes (fm f)).
    + shape_step. shape_step. shape_step. destruct sel; [apply shape_release_reader|apply same_shape_refl].
    + shape_step. shape_step. destruct sel; [apply shape_release_reader|apply same_shape_refl].
  - inversion H; subst st' s c; clear H.
    eapply same_shape_trans; [|eapply same_shape_trans; [exact H1|exact Ha]].
    eapply same_shape_trans; [|exact H2].
    shape_step. shape_step. shape_step. apply same_shape_refl.
Qed.

Lemma shape_stage_all g : forall fl st srcs cps st' srcs' cps',
  stage_all st g fl srcs cps = Some (st', srcs', cps') -> same_shape st' st.
Proof.
  induction fl as [|f r IH]; intros st srcs cps st' srcs' cps' H; cbn [stage_all] in H.
  - inversion H; subst. apply same_shape_refl.
  - destruct (stage_in st g f) as [[[st1 s] c]|] eqn:Es; [|discriminate].
    eapply same_shape_trans; [eapply IH; exact H|]. eapply shape_stage_in; exact Es.
Qed.
Lemma shape_complete_push g : forall fl st srcs, same_shape (complete_push st g fl srcs) st.
Proof.
  induction fl as [|f r IH]; intros st srcs; cbn [complete_push]; [apply same_shape_refl|].
  destruct srcs as [|s sr]; [apply same_shape_refl|].
  eapply same_shape_trans; [apply IH|].
  destruct (copy_at st (fd f) g) as [c|]; [|apply same_shape_refl].
  destruct (xfer c =? 1); [|apply same_shape_refl].
  destruct (Nat.eqb s 0).
  - shape_step. shape_step. apply same_shape_refl.
  - eapply same_shape_trans; [apply shape_release_reader|]. shape_step. shape_step. apply same_shape_refl.
Qed.
Lemma shape_fold_flows (F : gstate -> flow -> gstate) :
  (forall s f, same_shape (F s f) s) -> forall fl st, same_shape (fold_left F fl st) st.
Proof.
  intros HF. induction fl as [|f r IH]; intros st; cbn [fold_left]; [apply same_shape_refl|].
  eapply same_shape_trans; [apply IH|apply HF].
Qed.
Lemma shape_write_all st i fl v : same_shape (write_all st i fl v) st.
Proof.
  unfold write_all. apply shape_fold_flows. intros s f.
  destruct (writes (fm f)); [apply shape_set_val|apply same_shape_refl].
Qed.
Lemma shape_run_d2h st g fl : same_shape (run_d2h st g fl) st.
Proof.
  unfold run_d2h. apply shape_fold_flows. intros s f.
  destruct (writes (fm f) && fpo f); [apply shape_set_val|apply same_shape_refl].
Qed.
Lemma shape_pop g : forall fl st cps, same_shape (fst (pop st g fl cps)) st.
Proof.
  induction fl as [|f r IH]; intros st cps; cbn [pop]; [apply same_shape_refl|].
  set (st1 := if reads (fm f) then release_reader st g (fd f) (negb (writes (fm f))) else st).
  assert (H1 : same_shape st1 st) by (unfold st1; destruct (reads (fm f)); [apply shape_release_reader|apply same_shape_refl]).
  destruct (writes (fm f) && fpo f).
  - eapply same_shape_trans; [apply IH|]. eapply same_shape_trans; [apply shape_upd_copy|exact H1].
  - eapply same_shape_trans; [apply IH|exact H1].
Qed.
Lemma shape_epilog g : forall fl st, same_shape (epilog st g fl) st.
Proof.
  induction fl as [|f r IH]; intros st; cbn [epilog]; [apply same_shape_refl|].
  destruct (negb (writes (fm f))); [apply IH|].
  destruct (fpo f).
  - destruct (copy_at st (fd f) g) as [gc|]; [|apply IH].
    eapply same_shape_trans; [apply IH|]. shape_step. shape_step. shape_step. shape_step. apply same_shape_refl.
  - eapply same_shape_trans; [apply IH|]. apply shape_push_owned.
Qed.
Lemma shape_cpu_prepare st f : same_shape (cpu_prepare st f) st.
Proof.
  unfold cpu_prepare. destruct (writes (fm f)); [|apply same_shape_refl].
  set (st1 := upd_coh st (fd f) (fun dt => incv dt 0)).
  assert (H1 : same_shape st1 st) by (apply shape_upd_coh; intros; apply incv_shape).
  destruct (1 <=? owner (coh (get_dat st1 (fd f)))); [|exact H1].
  destruct (reads (fm f)).
  - shape_step. shape_step. exact H1.
  - shape_step. exact H1.
Qed.
Lemma shape_cpu_task st direct tid fl : same_shape (tr_st (cpu_task st direct tid fl)) st.
Proof.
  unfold cpu_task; cbn [tr_st]. eapply same_shape_trans; [apply shape_write_all|].
  destruct direct; [apply same_shape_refl|]. apply shape_fold_flows. apply shape_cpu_prepare.
Qed.

Definition cap_ok (st : gstate) : Prop := forall g, (resident st g <= cap st)%nat.
Lemma cap_ok_shape a b : same_shape a b -> cap_ok b -> cap_ok a.
Proof. intros Hs Hb g. rewrite (resident_shape a b g Hs). destruct Hs as (Hc & _). rewrite Hc. apply Hb. Qed.

Lemma reserve_cap_ok st g fl st' ev : reserve st g fl = Some (st', ev) -> cap_ok st -> cap_ok st'.
Proof.
  intros H Hok g'. destruct (Nat.eq_dec g' g) as [->|Hne].
  - destruct (reserve_capacity st g fl st' ev H (Hok g)) as (Hr & _). exact Hr.
  - unfold reserve in H.
    destruct (reserve_from_spec st g fl st [] [] st' ev (Rinv_refl st g) H) as (HR & _).
    assert (resident st' g' = resident st g') as ->.
    { rewrite !resident_eq. apply (filter_len_ext (has_on g') dflt_datum); [apply (ri_len _ _ _ HR)|].
      intros i _. pose proof (ri_other _ _ _ HR i g' Hne) as Ho. unfold copy_at, get_dat in Ho.
      unfold has_on. now rewrite Ho. }
    rewrite (ri_cap _ _ _ HR). apply Hok.
Qed.

Lemma dev_task_cap_ok st tid g fl tr : dev_task st tid g fl = Some tr -> cap_ok st -> cap_ok (tr_st tr).
Proof.
  unfold dev_task. intros H Hok.
  destruct (reserve st g fl) as [[st1 ev]|] eqn:Er; [|discriminate].
  destruct (stage_all st1 g fl [] []) as [[[st2 srcs] cps]|] eqn:Es; [|discriminate].
  destruct (pop (write_all (complete_push st2 g fl srcs) g fl (fval tid (ins_of (complete_push st2 g fl srcs) g fl))) g fl cps)
    as [st5 cps2] eqn:Ep.
  inversion H; subst tr; clear H. cbn [tr_st].
  apply (cap_ok_shape _ st1); [|eapply reserve_cap_ok; eassumption].
  eapply same_shape_trans; [apply shape_epilog|].
  eapply same_shape_trans; [apply shape_run_d2h|].
  replace st5 with (fst (pop (write_all (complete_push st2 g fl srcs) g fl (fval tid (ins_of (complete_push st2 g fl srcs) g fl))) g fl cps))
    by now rewrite Ep.
  eapply same_shape_trans; [apply shape_pop|].
  eapply same_shape_trans; [apply shape_write_all|].
  eapply same_shape_trans; [apply shape_complete_push|].
  eapply shape_stage_all; exact Es.
Qed.
Lemma run_task_cap_ok st direct tid t tr : run_task st direct tid t = Some tr -> cap_ok st -> cap_ok (tr_st tr).
Proof.
  unfold run_task. destruct (place t) as [|g] eqn:Ep; intros H Hok.
  - inversion H; subst tr. eapply cap_ok_shape; [apply shape_cpu_task|exact Hok].
  - eapply dev_task_cap_ok; eassumption.
Qed.
Lemma run_from_cap_ok direct : forall ts st tid, cap_ok st ->
  forall tr, In tr (fst (run_from st direct tid ts)) -> cap_ok (tr_st tr).
Proof.
  induction ts as [|t r IH]; intros st tid Hok tr Hin; cbn [run_from] in Hin; [destruct Hin|].
  destruct (run_task st direct tid t) as [tr0|] eqn:Et; [|destruct Hin].
  pose proof (run_task_cap_ok _ _ _ _ _ Et Hok) as Hok0.
  destruct (run_from (tr_st tr0) direct (S tid) r) as [l ok] eqn:Er. cbn [fst] in Hin.
  destruct Hin as [<-|Hin]; [exact Hok0|].
  apply (IH (tr_st tr0) (S tid) Hok0). now rewrite Er.
Qed.

Lemma resident_init nd ngpu c g : (1 <= g)%nat -> resident (init_state nd ngpu c) g = 0%nat.
Proof.
  intros Hg. rewrite resident_eq. unfold init_state; cbn [dats].
  induction (init_vals nd) as [|v l IH]; [reflexivity|]. cbn [map filter].
  assert (has_on g (init_datum (S ngpu) v) = false) as ->; [|exact IH].
  unfold has_on, init_datum; cbn [coh copies]. unfold getc. destruct g; [lia|]. cbn [nth_error].
  cbn [pred]. destruct (nth_error (repeat (@None copy) ngpu) g) as [o|] eqn:E; [|reflexivity].
  apply nth_error_In in E. apply repeat_spec in E. now subst o.
Qed.

(* for every program, capacity and number of devices: after every task of the run, no device holds more copies
   than its zone has tiles (device 0 is the host and is not a zone) *)
Theorem capacity_respected nd ngpu c direct ts tr g :
  In tr (fst (grun nd ngpu c direct ts)) -> (1 <= g)%nat -> (resident (tr_st tr) g <= c)%nat.
Proof.
  intros Hin Hg. unfold grun in Hin.
  (* cap_ok quantifies over g = 0 too: restrict it to the devices *)
  revert Hin. generalize 0%nat at 1 as tid.
  assert (Hgen : forall ts st tid, (resident st g <= cap st)%nat -> cap st = c ->
                 forall tr, In tr (fst (run_from st direct tid ts)) -> (resident (tr_st tr) g <= c)%nat).
  { clear tr. induction ts0 as [|t r IH]; intros st tid Hok Hc tr Hin; cbn [run_from] in Hin; [destruct Hin|].
    destruct (run_task st direct tid t) as [tr0|] eqn:Et; [|destruct Hin].
    assert (Hstep : (resident (tr_st tr0) g <= cap (tr_st tr0))%nat /\ cap (tr_st tr0) = c).
    { unfold run_task in Et. destruct (place t) as [|g0] eqn:Ep.
      - inversion Et; subst tr0. pose proof (shape_cpu_task st direct tid (flows t)) as Hs.
        rewrite (resident_shape _ _ g Hs). destruct Hs as (Hcc & _). rewrite Hcc. split; [exact Hok|exact Hc].
      - unfold dev_task in Et.
        destruct (reserve st (S g0) (flows t)) as [[st1 ev]|] eqn:Er; [|discriminate].
        destruct (stage_all st1 (S g0) (flows t) [] []) as [[[st2 srcs] cps]|] eqn:Es; [|discriminate].
        destruct (pop (write_all (complete_push st2 (S g0) (flows t) srcs) (S g0) (flows t)
                        (fval tid (ins_of (complete_push st2 (S g0) (flows t) srcs) (S g0) (flows t)))) (S g0) (flows t) cps)
          as [st5 cps2] eqn:Epop.
        inversion Et; subst tr0; clear Et. cbn [tr_st].
        assert (Hsh : same_shape (epilog (run_d2h st5 (S g0) (flows t)) (S g0) (flows t)) st1).
        { eapply same_shape_trans; [apply shape_epilog|].
          eapply same_shape_trans; [apply shape_run_d2h|].
          replace st5 with (fst (pop (write_all (complete_push st2 (S g0) (flows t) srcs) (S g0) (flows t)
                        (fval tid (ins_of (complete_push st2 (S g0) (flows t) srcs) (S g0) (flows t)))) (S g0) (flows t) cps))
            by now rewrite Epop.
          eapply same_shape_trans; [apply shape_pop|].
          eapply same_shape_trans; [apply shape_write_all|].
          eapply same_shape_trans; [apply shape_complete_push|].
          eapply shape_stage_all; exact Es. }
        rewrite (resident_shape _ _ g Hsh). destruct Hsh as (Hcc & _). rewrite Hcc.
        destruct (Nat.eq_dec g (S g0)) as [->|Hne].
        + destruct (reserve_capacity _ _ _ _ _ Er Hok) as (Hr & Hcap). split; [exact Hr|congruence].
        + unfold reserve in Er.
          destruct (reserve_from_spec st (S g0) (flows t) st [] [] st1 ev (Rinv_refl st (S g0)) Er) as (HR & _).
          assert (resident st1 g = resident st g) as ->.
          { rewrite !resident_eq. apply (filter_len_ext (has_on g) dflt_datum); [apply (ri_len _ _ _ HR)|].
            intros i _. pose proof (ri_other _ _ _ HR i g Hne) as Ho. unfold copy_at, get_dat in Ho.
            unfold has_on. now rewrite Ho. }
          rewrite (ri_cap _ _ _ HR). split; [exact Hok|exact Hc]. }
    destruct Hstep as (Hok0 & Hc0).
    destruct (run_from (tr_st tr0) direct (S tid) r) as [l ok] eqn:Er. cbn [fst] in Hin.
    destruct Hin as [<-|Hin]; [rewrite <- Hc0; exact Hok0|].
    apply (IH (tr_st tr0) (S tid) Hok0 Hc0). now rewrite Er. }
  intros tid Hin. apply (Hgen ts (init_state nd ngpu c) tid); [|reflexivity|exact Hin].
  rewrite resident_init by exact Hg. lia.
Qed.

(* ---------- what a kernel reads: the memory of the source when a copy is made, its own memory otherwise ---------- *)
Definition same_vals (a b : gstate) : Prop := forall e i, val_at a e i = val_at b e i.
Lemma same_vals_refl a : same_vals a a. Proof. intros e i; reflexivity. Qed.
Lemma same_vals_trans a b c : same_vals a b -> same_vals b c -> same_vals a c.
Proof. intros H1 H2 e i. now rewrite H1. Qed.
Lemma vals_upd_dev st g f : same_vals (upd_dev st g f) st. Proof. intros e i; reflexivity. Qed.
Lemma vals_upd_coh st d f : same_vals (upd_coh st d f) st.
Proof.
  intros e i. unfold val_at, upd_coh. rewrite get_dat_upd_dat.
  destruct (Nat.eqb e d && Nat.ltb e (length (dats st))); reflexivity.
Qed.
Lemma vals_upd_copy st d i f : same_vals (upd_copy st d i f) st. Proof. apply vals_upd_coh. Qed.
Lemma vals_release_reader st t d a : same_vals (release_reader st t d a) st.
Proof.
  unfold release_reader. destruct (copy_at st d t) as [c|]; [|apply same_vals_refl].
  destruct ((rdr c - 1 =? 0) && a); [|apply vals_upd_copy].
  destruct (is_owned (cst c)); (eapply same_vals_trans; [apply vals_upd_dev|]);
    (eapply same_vals_trans; [apply vals_upd_dev|]); apply vals_upd_copy.
Qed.
Lemma vals_pick_src n : forall t st d g inver pot, same_vals (snd (pick_src n t st d g inver pot)) st.
Proof.
  induction n as [|n IH]; intros t st d g inver pot; cbn [pick_src]; [apply same_vals_refl|].
  destruct (Nat.eqb t g); [apply IH|].
  destruct (copy_at st d t) as [c|]; [|apply IH].
  destruct (negb (ver c =? inver)); [apply IH|].
  destruct (is_invalid (cst c)); [apply IH|].
  destruct (0 <=? rdr c); [cbn [snd]; apply vals_upd_copy|apply IH].
Qed.
Lemma val_at_set_val st d i v e j :
  val_at (set_val st d i v) e j =
  if (Nat.eqb e d && Nat.ltb e (length (dats st))) && (Nat.eqb j i && Nat.ltb j (length (vals (get_dat st d)))) then v
  else val_at st e j.
Proof.
  unfold val_at, set_val. rewrite get_dat_upd_dat.
  destruct (Nat.eqb e d && Nat.ltb e (length (dats st))) eqn:E; cbn [andb]; [|reflexivity].
  apply andb_prop in E. destruct E as [E1 _]. apply Nat.eqb_eq in E1. subst e. cbn [vals].
  destruct (Nat.ltb j (length (vals (get_dat st d)))) eqn:El.
  - apply Nat.ltb_lt in El. rewrite nth_upd by exact El. rewrite andb_true_r. reflexivity.
  - apply Nat.ltb_ge in El. rewrite nth_upd_over by exact El. rewrite andb_false_r. reflexivity.
Qed.
Lemma copy_at_in_range st d i c : copy_at st d i = Some c -> (d < length (dats st))%nat.
Proof.
  intros H. destruct (Nat.ltb d (length (dats st))) eqn:E; [now apply Nat.ltb_lt|]. apply Nat.ltb_ge in E.
  unfold copy_at, get_dat in H. rewrite nth_overflow in H by exact E. cbn in H. unfold getc in H. destruct i; discriminate.
Qed.

(* one flow of the stage-in pass: either no copy is enqueued and no memory changes, or exactly one copy
   (datum, source s, device g) is enqueued and the device tile receives the content of the source's memory *)
Theorem stage_in_value st g f st' s cps : stage_in st g f = Some (st', s, cps) ->
  (g < length (vals (get_dat st (fd f))))%nat ->
  (cps = [] /\ same_vals st' st) \/
  (cps = [(fd f, s, g)] /\ val_at st' (fd f) g = val_at st (fd f) s /\
   forall e i, (e <> fd f \/ i <> g) -> val_at st' e i = val_at st e i).
Proof.
  unfold stage_in. intros H Hg.
  destruct (copy_at st (fd f) g) as [ge|] eqn:Ege; [|discriminate].
  destruct (copy_at st (fd f) 0) as [cin|]; [|discriminate].
  pose proof (copy_at_in_range _ _ _ _ Ege) as Hd.
  set (sta := if writes (fm f) then chop st g (fd f) else st) in *.
  assert (Ha : same_vals sta st) by (unfold sta; destruct (writes (fm f)); [apply vals_upd_dev|apply same_vals_refl]).
  destruct (reads (fm f) && (xfer ge =? 1)).
  { inversion H; subst. left. split; [reflexivity|]. eapply same_vals_trans; [apply vals_upd_coh|exact Ha]. }
  destruct (if reads (fm f) && negb (writes (fm f))
            then pick_src (pred (ndev sta (fd f))) 1 sta (fd f) g (ver cin) false
            else (None, false, sta)) as [[sel pot] st1] eqn:Ep.
  assert (H1 : same_vals st1 sta).
  { destruct (reads (fm f) && negb (writes (fm f))).
    - pose proof (vals_pick_src (pred (ndev sta (fd f))) 1 sta (fd f) g (ver cin) false) as Hp.
      rewrite Ep in Hp. exact Hp.
    - inversion Ep; subst. apply same_vals_refl. }
  destruct (match sel with Some _ => false | None => pot && (is_invalid (cst cin) || (xfer cin =? 1)) end); [discriminate|].
  destruct (copy_at st1 (fd f) (match sel with Some t => t | None => 0%nat end)) as [sc|]; [|discriminate].
  set (st2 := upd_coh st1 (fd f) (fun dt => fst (start dt g (cmode (fm f))))) in *.
  assert (H2 : same_vals st2 st) by (eapply same_vals_trans; [apply vals_upd_coh|eapply same_vals_trans; [exact H1|exact Ha]]).
  destruct (snd (start (coh (get_dat st1 (fd f))) g (cmode (fm f))) =? -1).
  - inversion H; subst st' s cps; clear H. left. split; [reflexivity|].
    eapply same_vals_trans; [|exact H2].
    destruct (writes (fm f)).
    + eapply same_vals_trans; [apply vals_upd_coh|]. eapply same_vals_trans; [apply vals_upd_coh|].
      eapply same_vals_trans; [apply vals_upd_copy|]. destruct sel; [apply vals_release_reader|apply same_vals_refl].
    + eapply same_vals_trans; [apply vals_upd_coh|]. eapply same_vals_trans; [apply vals_upd_copy|].
      destruct sel; [apply vals_release_reader|apply same_vals_refl].
  - inversion H; subst st' s cps; clear H. right. split; [reflexivity|].
    set (st4 := upd_copy (upd_coh st2 (fd f) (fun dt => setv dt g (if writes (fm f) then ver sc + 1 else ver sc))) (fd f) g
                         (fun c => set_xfer c 1)) in *.
    assert (H4 : same_vals st4 st).
    { eapply same_vals_trans; [apply vals_upd_copy|]. eapply same_vals_trans; [apply vals_upd_coh|exact H2]. }
    assert (Hlen : length (dats st4) = length (dats st)).
    { unfold st4, upd_copy, upd_coh, upd_dat; cbn [dats]. rewrite !length_upd.
      unfold st2, upd_coh, upd_dat; cbn [dats]. rewrite length_upd.
      assert (length (dats st1) = length (dats sta)) as ->.
      { destruct (reads (fm f) && negb (writes (fm f))).
        - pose proof (shape_pick_src (pred (ndev sta (fd f))) 1 sta (fd f) g (ver cin) false) as Hp.
          rewrite Ep in Hp. cbn [snd] in Hp. destruct Hp as (_ & Hl & _). exact Hl.
        - inversion Ep; subst. reflexivity. }
      unfold sta. destruct (writes (fm f)); reflexivity. }
    assert (Hvl : length (vals (get_dat st4 (fd f))) = length (vals (get_dat st (fd f)))).
    { (* the vals of a datum are only changed by set_val *)
      assert (Hv : forall a b, same_vals a b -> length (dats a) = length (dats b) -> True) by auto.
      clear Hv.
      assert (Hsame : forall a d0 ff, vals (get_dat (upd_coh a d0 ff) (fd f)) = vals (get_dat a (fd f))).
      { intros a d0 ff. unfold upd_coh. rewrite get_dat_upd_dat.
        destruct (Nat.eqb (fd f) d0 && Nat.ltb (fd f) (length (dats a))); reflexivity. }
      unfold st4, upd_copy. rewrite !Hsame. unfold st2. rewrite Hsame.
      assert (vals (get_dat st1 (fd f)) = vals (get_dat sta (fd f))) as ->.
      { destruct (reads (fm f) && negb (writes (fm f))).
        - clear -Ep Hsame. revert Ep. generalize (pred (ndev sta (fd f))) as n. generalize 1%nat as t.
          generalize false as p0. revert st1 sel pot.
          assert (Hgen : forall n t a p0, vals (get_dat (snd (pick_src n t a (fd f) g (ver cin) p0)) (fd f)) = vals (get_dat a (fd f))).
          { induction n as [|n IH]; intros t a p0; cbn [pick_src]; [reflexivity|].
            destruct (Nat.eqb t g); [apply IH|].
            destruct (copy_at a (fd f) t) as [c|]; [|apply IH].
            destruct (negb (ver c =? ver cin)); [apply IH|].
            destruct (is_invalid (cst c)); [apply IH|].
            destruct (0 <=? rdr c); [cbn [snd]; unfold upd_copy; apply Hsame|apply IH]. }
          intros st1 sel pot p0 t n Ep. specialize (Hgen n t sta p0). rewrite Ep in Hgen. exact Hgen.
        - inversion Ep; subst. reflexivity. }
      unfold sta. destruct (writes (fm f)); reflexivity. }
    split.
    + rewrite val_at_set_val. rewrite !Nat.eqb_refl. rewrite Hlen, Hvl.
      apply Nat.ltb_lt in Hd, Hg. rewrite Hd, Hg. cbn [andb]. apply H4.
    + intros e i Hne. rewrite val_at_set_val.
      destruct Hne as [Hne|Hne]; apply Nat.eqb_neq in Hne; rewrite Hne; cbn [andb]; rewrite ?andb_false_r; apply H4.
Qed.
