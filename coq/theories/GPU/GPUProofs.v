(* Proofs about the device-memory model of GPUDefs.v (C43): the reservation pass of
   parsec_device_data_reserve_space evicts only idle copies of the clean list, keeps every copy the
   running task already holds, and never over-commits the zone. *)
From PV Require Import Base.Tac Coherency.CoherencyDefs Coherency.CoherencyProofs GPU.GPUDefs.
Local Open Scope Z_scope.

(* ---------- lists ---------- *)
Lemma nth_mapi_from {A B} (f : nat -> A -> B) l : forall k i d d', (i < length l)%nat ->
  nth i (mapi_from f k l) d' = f (k + i)%nat (nth i l d).
Proof.
  induction l as [|x l IH]; intros k i d d' Hi; cbn [length] in Hi; [lia|].
  destruct i; cbn [mapi_from nth].
  - now rewrite Nat.add_0_r.
  - rewrite (IH (S k) i d d') by lia. f_equal. lia.
Qed.
Lemma length_upd {A} i (f : A -> A) l : length (upd i f l) = length l.
Proof. apply length_mapi_from. Qed.
Lemma nth_upd {A} i j (f : A -> A) l d : (j < length l)%nat ->
  nth j (upd i f l) d = if Nat.eqb j i then f (nth j l d) else nth j l d.
Proof. intros Hj. unfold upd. rewrite (nth_mapi_from _ l 0 j d d Hj). reflexivity. Qed.
Lemma nth_upd_over {A} i j (f : A -> A) l d : (length l <= j)%nat -> nth j (upd i f l) d = nth j l d.
Proof. intros Hj. rewrite !nth_overflow; rewrite ?length_upd; auto. Qed.
Lemma nth_error_upd {A} i j (f : A -> A) l :
  nth_error (upd i f l) j = option_map (fun x => if Nat.eqb j i then f x else x) (nth_error l j).
Proof. unfold upd. now rewrite nth_error_mapi_from. Qed.

(* ---------- accessors under updates ---------- *)
Lemma dats_upd_dev st g f : dats (upd_dev st g f) = dats st. Proof. reflexivity. Qed.
Lemma copy_at_upd_dev st g f d i : copy_at (upd_dev st g f) d i = copy_at st d i. Proof. reflexivity. Qed.
Lemma cap_upd_dev st g f : cap (upd_dev st g f) = cap st. Proof. reflexivity. Qed.
Lemma cap_upd_dat st d f : cap (upd_dat st d f) = cap st. Proof. reflexivity. Qed.
Lemma get_dev_upd_dat st d f g : get_dev (upd_dat st d f) g = get_dev st g. Proof. reflexivity. Qed.

Lemma get_dev_upd_dev_same st g f : (pred g < length (devs st))%nat ->
  get_dev (upd_dev st g f) g = f (get_dev st g).
Proof. intros H. unfold get_dev, upd_dev; cbn [devs]. rewrite nth_upd by exact H. now rewrite Nat.eqb_refl. Qed.
Lemma get_dev_in_range st g x r : lru (get_dev st g) = x :: r -> (pred g < length (devs st))%nat.
Proof.
  intros H. destruct (Nat.ltb (pred g) (length (devs st))) eqn:E; [now apply Nat.ltb_lt|].
  apply Nat.ltb_ge in E. unfold get_dev in H. rewrite nth_overflow in H by exact E. discriminate.
Qed.

Lemma get_dat_upd_dat st d f e :
  get_dat (upd_dat st d f) e = if Nat.eqb e d && Nat.ltb e (length (dats st)) then f (get_dat st e) else get_dat st e.
Proof.
  unfold get_dat, upd_dat; cbn [dats]. destruct (Nat.ltb e (length (dats st))) eqn:E.
  - apply Nat.ltb_lt in E. rewrite nth_upd by exact E. now rewrite andb_true_r.
  - apply Nat.ltb_ge in E. rewrite nth_upd_over by exact E. now rewrite andb_false_r.
Qed.

Lemma getc_upd_set i j o cs : getc (upd i (fun _ => o) cs) j =
  if Nat.eqb j i && Nat.ltb j (length cs) then match o with Some c => Some c | None => None end else getc cs j.
Proof.
  unfold getc. rewrite nth_error_upd. destruct (nth_error cs j) as [x|] eqn:E; cbn [option_map].
  - assert (j < length cs)%nat as Hl by (apply nth_error_Some; congruence).
    apply Nat.ltb_lt in Hl. rewrite Hl, andb_true_r. destruct (Nat.eqb j i); reflexivity.
  - assert (length cs <= j)%nat as Hl by (now apply nth_error_None).
    apply Nat.ltb_ge in Hl. rewrite Hl, andb_false_r. reflexivity.
Qed.

(* the copy of (e, i) after the slot (d, g) was set *)
Lemma copy_at_set_slot st d g o e i :
  copy_at (set_slot st d g o) e i =
  if (Nat.eqb e d && Nat.ltb e (length (dats st))) && (Nat.eqb i g && Nat.ltb i (ndev st d)) then o else copy_at st e i.
Proof.
  unfold copy_at, set_slot, upd_coh. rewrite get_dat_upd_dat.
  destruct (Nat.eqb e d && Nat.ltb e (length (dats st))) eqn:E; cbn [andb]; [|reflexivity].
  cbn [coh copies]. rewrite getc_upd_set.
  apply andb_prop in E. destruct E as [E1 _]. apply Nat.eqb_eq in E1. subst e. unfold ndev.
  destruct (Nat.eqb i g && Nat.ltb i (length (copies (coh (get_dat st d))))); [destruct o|]; reflexivity.
Qed.
Lemma copy_at_set_val st d g v e i : copy_at (set_val st d g v) e i = copy_at st e i.
Proof.
  unfold copy_at, set_val. rewrite get_dat_upd_dat.
  destruct (Nat.eqb e d && Nat.ltb e (length (dats st))); reflexivity.
Qed.
Lemma copy_at_attach_new st d g e i :
  copy_at (attach_new st d g) e i =
  if (Nat.eqb e d && Nat.ltb e (length (dats st))) && (Nat.eqb i g && Nat.ltb i (ndev st d)) then Some fresh_dev_copy
  else copy_at st e i.
Proof. unfold attach_new. rewrite copy_at_set_val. apply copy_at_set_slot. Qed.
Lemma get_dev_set_slot st d g o t : get_dev (set_slot st d g o) t = get_dev st t. Proof. reflexivity. Qed.
Lemma get_dev_attach_new st d g t : get_dev (attach_new st d g) t = get_dev st t. Proof. reflexivity. Qed.
Lemma cap_attach_new st d g : cap (attach_new st d g) = cap st. Proof. reflexivity. Qed.

(* ---------- the eviction loop ---------- *)
(* what the loop returns: the victim was in the clean list, had no reader, is not named by an earlier flow of
   the task; only its slot changed; the dirty list is untouched and the clean list only lost elements *)
Lemma evict_loop_spec fuel : forall st g earlier st' e,
  evict_loop fuel st g earlier = Some (st', e) ->
  In e (lru (get_dev st g)) /\ ~ In e earlier /\
  (exists c, copy_at st e g = Some c /\ rdr c = 0) /\
  dats st' = dats (set_slot st e g None) /\ cap st' = cap st /\
  owned (get_dev st' g) = owned (get_dev st g) /\
  (forall x, In x (lru (get_dev st' g)) -> In x (lru (get_dev st g))).
Proof.
  induction fuel as [|f IH]; intros st g earlier st' e H; cbn [evict_loop] in H; [discriminate|].
  destruct (lru (get_dev st g)) as [|e0 rest] eqn:El; [discriminate|].
  pose proof (get_dev_in_range st g e0 rest El) as Hr.
  set (st1 := upd_dev st g (fun v => mkdev rest (owned v))) in *.
  assert (Hg1 : get_dev st1 g = mkdev rest (owned (get_dev st g))) by (unfold st1; now rewrite get_dev_upd_dev_same).
  assert (Hrec : evict_loop f st1 g earlier = Some (st', e) ->
                 In e (e0 :: rest) /\ ~ In e earlier /\ (exists c, copy_at st e g = Some c /\ rdr c = 0) /\
                 dats st' = dats (set_slot st e g None) /\ cap st' = cap st /\
                 owned (get_dev st' g) = owned (get_dev st g) /\
                 (forall x, In x (lru (get_dev st' g)) -> In x (e0 :: rest))).
  { intros Hq. destruct (IH _ _ _ _ _ Hq) as (Hi & Hn & Hc & Hd & Hcap & Ho & Hl).
    rewrite Hg1 in Hi, Ho, Hl. cbn [lru owned] in Hi, Ho, Hl.
    repeat split; auto.
    - now right.
    - intros x Hx. right. now apply Hl. }
  destruct (copy_at st1 e0 g) as [c|] eqn:Ec; [|now apply Hrec].
  destruct (negb (rdr c =? 0)) eqn:Er; [now apply Hrec|].
  destruct (existsb (Nat.eqb e0) earlier) eqn:Ee; [now apply Hrec|].
  inversion H; subst st' e; clear H.
  repeat split.
  - now left.
  - intros Hin. assert (existsb (Nat.eqb e0) earlier = true) as Hx; [|congruence].
    apply existsb_exists. exists e0. split; [exact Hin|apply Nat.eqb_refl].
  - exists c. split; [exact Ec|]. apply negb_false_iff in Er. lia.
  - rewrite get_dev_set_slot, Hg1. reflexivity.
  - intros x Hx. rewrite get_dev_set_slot, Hg1 in Hx. cbn [lru] in Hx. now right.
Qed.

(* ---------- the reservation pass ---------- *)
Lemma copy_at_dats a b d i : dats a = dats b -> copy_at a d i = copy_at b d i.
Proof. unfold copy_at, get_dat. now intros ->. Qed.
Lemma ndev_dats a b d : dats a = dats b -> ndev a d = ndev b d.
Proof. unfold ndev, get_dat. now intros ->. Qed.
Lemma length_dats_set_slot st d g o : length (dats (set_slot st d g o)) = length (dats st).
Proof. unfold set_slot, upd_coh, upd_dat; cbn [dats]. apply length_upd. Qed.
Lemma length_dats_attach_new st d g : length (dats (attach_new st d g)) = length (dats st).
Proof. unfold attach_new, set_val, upd_dat; cbn [dats]. rewrite length_upd. apply length_dats_set_slot. Qed.
Lemma ndev_set_slot st d g o e : ndev (set_slot st d g o) e = ndev st e.
Proof.
  unfold ndev, set_slot, upd_coh. rewrite get_dat_upd_dat.
  destruct (Nat.eqb e d && Nat.ltb e (length (dats st))) eqn:E; [|reflexivity].
  cbn [coh copies]. rewrite length_upd. reflexivity.
Qed.
Lemma ndev_set_val st d g v e : ndev (set_val st d g v) e = ndev st e.
Proof.
  unfold ndev, set_val. rewrite get_dat_upd_dat.
  destruct (Nat.eqb e d && Nat.ltb e (length (dats st))); reflexivity.
Qed.
Lemma ndev_attach_new st d g e : ndev (attach_new st d g) e = ndev st e.
Proof. unfold attach_new. rewrite ndev_set_val. apply ndev_set_slot. Qed.

(* relation between the state at the start of the pass (st0) and the current one *)
Record Rinv (st0 st : gstate) (g : nat) : Prop := mkRinv {
  ri_cap : cap st = cap st0;
  ri_len : length (dats st) = length (dats st0);
  ri_ndev : forall d, ndev st d = ndev st0 d;
  ri_lru : forall x, In x (lru (get_dev st g)) -> In x (lru (get_dev st0 g));
  ri_owned : owned (get_dev st g) = owned (get_dev st0 g);
  ri_other : forall d i, i <> g -> copy_at st d i = copy_at st0 d i;
  ri_busy : forall d c, copy_at st0 d g = Some c -> rdr c <> 0 -> copy_at st d g = Some c;
  ri_offlist : forall d c, copy_at st0 d g = Some c -> ~ In d (lru (get_dev st0 g)) -> copy_at st d g = Some c;
  ri_new : forall d c, copy_at st d g = Some c -> copy_at st0 d g = Some c \/ c = fresh_dev_copy }.

Lemma Rinv_refl st g : Rinv st st g.
Proof. constructor; auto. Qed.

Definition slot_ok (st : gstate) (d g : nat) : Prop := (d < length (dats st))%nat /\ (g < ndev st d)%nat.

Lemma attach_new_hit st d g : slot_ok st d g -> copy_at (attach_new st d g) d g = Some fresh_dev_copy.
Proof.
  intros [H1 H2]. rewrite copy_at_attach_new. rewrite !Nat.eqb_refl.
  apply Nat.ltb_lt in H1, H2. now rewrite H1, H2.
Qed.
Lemma attach_new_other st d g e i : (e <> d \/ i <> g) -> copy_at (attach_new st d g) e i = copy_at st e i.
Proof.
  intros H. rewrite copy_at_attach_new.
  destruct H as [H|H]; apply Nat.eqb_neq in H; rewrite H; cbn [andb]; rewrite ?andb_false_r; reflexivity.
Qed.
(* attaching on a slot that holds nothing changes no existing copy *)
Lemma attach_new_keeps st d g e i c : copy_at st d g = None -> copy_at st e i = Some c ->
  copy_at (attach_new st d g) e i = Some c.
Proof.
  intros Hn Hc. destruct (Nat.eq_dec e d) as [->|He]; [destruct (Nat.eq_dec i g) as [->|Hi]|].
  - congruence.
  - rewrite attach_new_other; auto.
  - rewrite attach_new_other; auto.
Qed.

Lemma set_slot_none_other st e g x i : (x <> e \/ i <> g) -> copy_at (set_slot st e g None) x i = copy_at st x i.
Proof.
  intros H. rewrite copy_at_set_slot.
  destruct H as [H|H]; apply Nat.eqb_neq in H; rewrite H; cbn [andb]; rewrite ?andb_false_r; reflexivity.
Qed.

Lemma reserve_flow_spec st0 st g earlier d ev st1 ev1 :
  Rinv st0 st g ->
  reserve_flow st g earlier d ev = Some (st1, ev1) ->
  Rinv st0 st1 g /\
  (forall x c, In x earlier -> copy_at st x g = Some c -> copy_at st1 x g = Some c) /\
  (slot_ok st d g -> copy_at st1 d g <> None) /\
  (forall e, In e ev1 -> In e ev \/ In e (lru (get_dev st0 g))).
Proof.
  intros HR H. unfold reserve_flow in H.
  destruct (copy_at st d g) as [c0|] eqn:Ed.
  { inversion H; subst st1 ev1; clear H. split; [exact HR|]. split; [auto|].
    split; [intros _; congruence|]. intros e He. now left. }
  assert (Hattach : forall sta, Rinv st0 sta g -> copy_at sta d g = None ->
                    Rinv st0 (attach_new sta d g) g /\
                    (forall x c, copy_at sta x g = Some c -> copy_at (attach_new sta d g) x g = Some c) /\
                    (slot_ok sta d g -> copy_at (attach_new sta d g) d g <> None)).
  { intros sta [A1 A2 A3 A4 A5 A6 A7 A8 A9] Hn. split; [constructor|split].
    - now rewrite cap_attach_new.
    - now rewrite length_dats_attach_new.
    - intros x. now rewrite ndev_attach_new.
    - intros x. rewrite get_dev_attach_new. apply A4.
    - rewrite get_dev_attach_new. exact A5.
    - intros x i Hi. rewrite attach_new_other by auto. now apply A6.
    - intros x c Hc Hr. apply attach_new_keeps; auto.
    - intros x c Hc Hr. apply attach_new_keeps; auto.
    - intros x c Hc. rewrite copy_at_attach_new in Hc.
      destruct ((Nat.eqb x d && Nat.ltb x (length (dats sta))) && (Nat.eqb g g && Nat.ltb g (ndev sta d))).
      + right. congruence.
      + now apply A9.
    - intros x cx Ex. now apply attach_new_keeps.
    - intros Hs. rewrite attach_new_hit by exact Hs. congruence. }
  destruct (Nat.ltb (resident st g) (cap st)) eqn:Ecap.
  { inversion H; subst st1 ev1; clear H.
    destruct (Hattach st HR Ed) as (B1 & B2 & B3).
    split; [exact B1|]. split; [intros x c _; apply B2|]. split; [exact B3|]. intros e He. now left. }
  destruct (evict_loop (S (length (lru (get_dev st g)))) st g earlier) as [[ste e]|] eqn:Eev; [|discriminate].
  inversion H; subst st1 ev1; clear H.
  destruct (evict_loop_spec _ _ _ _ _ _ Eev) as (Hi & Hne & (c & Hc & Hr0) & Hd & Hcap & Ho & Hl).
  destruct HR as [A1 A2 A3 A4 A5 A6 A7 A8 A9].
  assert (Hde : d <> e) by (intros ->; congruence).
  assert (HRe : Rinv st0 ste g).
  { constructor.
    - congruence.
    - rewrite Hd, length_dats_set_slot. exact A2.
    - intros x. rewrite (ndev_dats _ _ x Hd), ndev_set_slot. apply A3.
    - intros x Hx. apply A4. now apply Hl.
    - congruence.
    - intros x i Hi'. rewrite (copy_at_dats _ _ x i Hd), set_slot_none_other by auto. now apply A6.
    - intros x cx Hcx Hrx. rewrite (copy_at_dats _ _ x g Hd).
      destruct (Nat.eq_dec x e) as [->|Hxe].
      + specialize (A7 e cx Hcx Hrx). rewrite A7 in Hc. inversion Hc; subst. contradiction.
      + rewrite set_slot_none_other by auto. now apply A7.
    - intros x cx Hcx Hnl. rewrite (copy_at_dats _ _ x g Hd).
      destruct (Nat.eq_dec x e) as [->|Hxe].
      + exfalso. apply Hnl. now apply A4.
      + rewrite set_slot_none_other by auto. now apply A8.
    - intros x cx Hcx. rewrite (copy_at_dats _ _ x g Hd) in Hcx.
      destruct (Nat.eq_dec x e) as [->|Hxe].
      + rewrite copy_at_set_slot in Hcx.
        destruct ((Nat.eqb e e && Nat.ltb e (length (dats st))) && (Nat.eqb g g && Nat.ltb g (ndev st e))) eqn:E; [discriminate|].
        now apply A9.
      + rewrite set_slot_none_other in Hcx by auto. now apply A9. }
  assert (Hne' : copy_at ste d g = None).
  { rewrite (copy_at_dats _ _ d g Hd), set_slot_none_other by auto. exact Ed. }
  destruct (Hattach ste HRe Hne') as (B1 & B2 & B3).
  split; [exact B1|]. split; [|split].
  - intros x cx Hx Ex. apply B2. rewrite (copy_at_dats _ _ x g Hd).
    assert (x <> e) by (intros ->; contradiction).
    rewrite set_slot_none_other by auto. exact Ex.
  - intros [Hs1 Hs2]. apply B3. split.
    + rewrite Hd, length_dats_set_slot. exact Hs1.
    + rewrite (ndev_dats _ _ d Hd), ndev_set_slot. exact Hs2.
  - intros x Hx. apply in_app_or in Hx. destruct Hx as [Hx|[<-|[]]]; [now left|right].
    now apply A4.
Qed.

Lemma slot_ok_Rinv st0 st g d : Rinv st0 st g -> slot_ok st0 d g -> slot_ok st d g.
Proof. intros HR [H1 H2]. split; [rewrite (ri_len _ _ _ HR)|rewrite (ri_ndev _ _ _ HR)]; assumption. Qed.

Lemma reserve_from_spec st0 g : forall fl st earlier ev st' ev',
  Rinv st0 st g ->
  reserve_from st g earlier fl ev = Some (st', ev') ->
  Rinv st0 st' g /\
  (forall x c, In x earlier -> copy_at st x g = Some c -> copy_at st' x g = Some c) /\
  (forall f, In f fl -> slot_ok st0 (fd f) g -> copy_at st' (fd f) g <> None) /\
  (forall e, In e ev' -> In e ev \/ In e (lru (get_dev st0 g))).
Proof.
  induction fl as [|f r IH]; intros st earlier ev st' ev' HR H; cbn [reserve_from] in H.
  - inversion H; subst st' ev'; clear H. split; [exact HR|]. split; [auto|]. split; [intros f []|]. intros e He. now left.
  - destruct (reserve_flow st g earlier (fd f) ev) as [[st1 ev1]|] eqn:Ef; [|discriminate].
    destruct (reserve_flow_spec _ _ _ _ _ _ _ _ HR Ef) as (HR1 & He1 & Hd1 & Hv1).
    destruct (IH st1 (earlier ++ [fd f]) ev1 st' ev' HR1 H) as (HR2 & He2 & Hf2 & Hv2).
    split; [exact HR2|]. split; [|split].
    + intros x c Hx Ex. apply He2; [apply in_or_app; now left|]. now apply He1.
    + intros f0 [<-|Hin] Hs; [|now apply Hf2].
      destruct (copy_at st1 (fd f) g) as [c1|] eqn:E1.
      * rewrite (He2 (fd f) c1); [congruence| apply in_or_app; right; now left | exact E1].
      * exfalso. apply Hd1; [|reflexivity]. now apply (slot_ok_Rinv st0).
    + intros e He. destruct (Hv2 e He) as [Hx|Hx]; [|now right]. now apply Hv1.
Qed.

(* parsec_device_data_reserve_space, when it succeeds:
   - every evicted datum came from the clean list gpu_mem_lru of the device;
   - every flow of the task holds a copy on the device at the end of the pass (no flow lost its copy to another one);
   - a copy with readers != 0 is still there, unchanged; so is every copy that was not in the clean list
     (copies of the dirty list, copies held by running tasks);
   - the dirty list and the copies on the other devices are untouched. *)
Theorem reserve_spec st g fl st' ev : reserve st g fl = Some (st', ev) ->
  (forall e, In e ev -> In e (lru (get_dev st g))) /\
  (forall f, In f fl -> slot_ok st (fd f) g -> copy_at st' (fd f) g <> None) /\
  (forall d c, copy_at st d g = Some c -> rdr c <> 0 -> copy_at st' d g = Some c) /\
  (forall d c, copy_at st d g = Some c -> ~ In d (lru (get_dev st g)) -> copy_at st' d g = Some c) /\
  owned (get_dev st' g) = owned (get_dev st g) /\
  (forall d i, i <> g -> copy_at st' d i = copy_at st d i).
Proof.
  intros H. unfold reserve in H.
  destruct (reserve_from_spec st g fl st [] [] st' ev (Rinv_refl st g) H) as (HR & _ & Hf & Hv).
  split; [|split; [exact Hf|split; [|split; [|split]]]].
  - intros e He. destruct (Hv e He) as [[]|Hx]. exact Hx.
  - apply (ri_busy _ _ _ HR).
  - apply (ri_offlist _ _ _ HR).
  - apply (ri_owned _ _ _ HR).
  - apply (ri_other _ _ _ HR).
Qed.

(* ---------- the zone is never over-committed ---------- *)
Lemma mapi_from_ext {A B} (F G : nat -> A -> B) l : forall n,
  (forall k x, F k x = G k x) -> mapi_from F n l = mapi_from G n l.
Proof. induction l as [|x l IH]; intros n H; cbn [mapi_from]; [reflexivity|]. rewrite H. f_equal. now apply IH. Qed.
Lemma mapi_from_shift {A B} (F : nat -> A -> B) l : forall n,
  mapi_from F (S n) l = mapi_from (fun k => F (S k)) n l.
Proof. induction l as [|x l IH]; intros n; cbn [mapi_from]; [reflexivity|]. f_equal. apply IH. Qed.
Lemma mapi_from_id {A} (F : nat -> A -> A) l : forall n,
  (forall k x, (n <= k)%nat -> F k x = x) -> mapi_from F n l = l.
Proof.
  induction l as [|x l IH]; intros n H; cbn [mapi_from]; [reflexivity|].
  rewrite H by lia. f_equal. apply IH. intros k y Hk. apply H. lia.
Qed.
Lemma upd_cons_0 {A} (f : A -> A) x l : upd 0 f (x :: l) = f x :: l.
Proof.
  unfold upd; cbn [mapi_from Nat.eqb]. f_equal. apply mapi_from_id.
  intros k y Hk. destruct k; [lia|reflexivity].
Qed.
Lemma upd_cons_S {A} i (f : A -> A) x l : upd (S i) f (x :: l) = x :: upd i f l.
Proof.
  unfold upd; cbn [mapi_from Nat.eqb]. f_equal. rewrite mapi_from_shift. apply mapi_from_ext. reflexivity.
Qed.
Lemma upd_nil {A} i (f : A -> A) : upd i f [] = []. Proof. reflexivity. Qed.

Definition b2n (b : bool) : nat := if b then 1%nat else 0%nat.
Lemma count_upd {A} (p : A -> bool) (f : A -> A) (dflt : A) : forall l i, (i < length l)%nat ->
  (length (filter p (upd i f l)) + b2n (p (nth i l dflt)) = length (filter p l) + b2n (p (f (nth i l dflt))))%nat.
Proof.
  induction l as [|x l IH]; intros i Hi; cbn [length] in Hi; [lia|].
  destruct i.
  - rewrite upd_cons_0. cbn [filter nth]. destruct (p x), (p (f x)); cbn [length b2n]; lia.
  - rewrite upd_cons_S. cbn [filter nth]. specialize (IH i ltac:(lia)).
    destruct (p x); cbn [length]; lia.
Qed.
Lemma upd_over {A} i (f : A -> A) l : (length l <= i)%nat -> upd i f l = l.
Proof.
  revert i. induction l as [|x l IH]; intros i Hi; [reflexivity|]. cbn [length] in Hi.
  destruct i; [lia|]. rewrite upd_cons_S. f_equal. apply IH. lia.
Qed.

Definition has_on (g : nat) (x : datum) : bool := match getc (copies (coh x)) g with Some _ => true | None => false end.
Lemma resident_eq st g : resident st g = length (filter (has_on g) (dats st)). Proof. reflexivity. Qed.
Lemma resident_dats a b g : dats a = dats b -> resident a g = resident b g.
Proof. unfold resident. now intros ->. Qed.

Lemma resident_upd_dat st d f g : (forall x, has_on g (f x) = has_on g x) -> resident (upd_dat st d f) g = resident st g.
Proof.
  intros H. rewrite !resident_eq. unfold upd_dat; cbn [dats].
  destruct (Nat.ltb d (length (dats st))) eqn:E.
  - apply Nat.ltb_lt in E. pose proof (count_upd (has_on g) f dflt_datum (dats st) d E) as Hc.
    rewrite H in Hc. lia.
  - apply Nat.ltb_ge in E. now rewrite upd_over.
Qed.
Lemma resident_set_val st d i v g : resident (set_val st d i v) g = resident st g.
Proof. unfold set_val. apply resident_upd_dat. reflexivity. Qed.

Lemma resident_evict st e g c : copy_at st e g = Some c -> (resident (set_slot st e g None) g + 1 = resident st g)%nat.
Proof.
  intros Hc. rewrite !resident_eq. unfold set_slot, upd_coh, upd_dat; cbn [dats].
  assert (He : (e < length (dats st))%nat).
  { destruct (Nat.ltb e (length (dats st))) eqn:E; [now apply Nat.ltb_lt|]. apply Nat.ltb_ge in E.
    unfold copy_at, get_dat in Hc. rewrite nth_overflow in Hc by exact E. cbn in Hc. unfold getc in Hc.
    destruct g; discriminate. }
  set (F := fun x : datum => mkdatum (mkdata (owner (coh x)) (upd g (fun _ => None) (copies (coh x)))) (vals x)).
  pose proof (count_upd (has_on g) F dflt_datum (dats st) e He) as Hcnt.
  assert (H1 : has_on g (nth e (dats st) dflt_datum) = true).
  { unfold has_on. unfold copy_at, get_dat in Hc. now rewrite Hc. }
  assert (H2 : has_on g (F (nth e (dats st) dflt_datum)) = false).
  { unfold has_on, F; cbn [coh copies]. rewrite getc_upd_set. rewrite Nat.eqb_refl.
    unfold copy_at, get_dat in Hc. apply getc_lt in Hc. apply Nat.ltb_lt in Hc. now rewrite Hc. }
  rewrite H1, H2 in Hcnt. cbn [b2n] in Hcnt. fold F. lia.
Qed.
Lemma resident_attach st d g : (resident (attach_new st d g) g <= S (resident st g))%nat.
Proof.
  unfold attach_new. rewrite resident_set_val. rewrite !resident_eq. unfold set_slot, upd_coh, upd_dat; cbn [dats].
  destruct (Nat.ltb d (length (dats st))) eqn:E.
  - apply Nat.ltb_lt in E.
    set (F := fun x : datum => mkdatum (mkdata (owner (coh x)) (upd g (fun _ => Some fresh_dev_copy) (copies (coh x)))) (vals x)).
    pose proof (count_upd (has_on g) F dflt_datum (dats st) d E) as Hcnt. fold F.
    destruct (has_on g (nth d (dats st) dflt_datum)), (has_on g (F (nth d (dats st) dflt_datum))); cbn [b2n] in Hcnt; lia.
  - apply Nat.ltb_ge in E. rewrite upd_over by exact E. lia.
Qed.

Lemma reserve_flow_cap st g earlier d ev st1 ev1 :
  reserve_flow st g earlier d ev = Some (st1, ev1) ->
  cap st1 = cap st /\ ((resident st g <= cap st)%nat -> (resident st1 g <= cap st)%nat).
Proof.
  intros H. unfold reserve_flow in H.
  destruct (copy_at st d g) as [c0|] eqn:Ed.
  { inversion H; subst; auto. }
  destruct (Nat.ltb (resident st g) (cap st)) eqn:Ecap.
  { inversion H; subst st1 ev1; clear H. split; [reflexivity|]. intros _.
    apply Nat.ltb_lt in Ecap. pose proof (resident_attach st d g). lia. }
  destruct (evict_loop (S (length (lru (get_dev st g)))) st g earlier) as [[ste e]|] eqn:Eev; [|discriminate].
  inversion H; subst st1 ev1; clear H.
  destruct (evict_loop_spec _ _ _ _ _ _ Eev) as (_ & _ & (c & Hc & _) & Hd & Hcap & _ & _).
  split; [rewrite cap_attach_new; exact Hcap|]. intros Hle.
  pose proof (resident_attach ste d g) as Ha.
  rewrite (resident_dats ste (set_slot st e g None) g Hd) in Ha.
  pose proof (resident_evict st e g c Hc). lia.
Qed.
Lemma reserve_from_cap g : forall fl st earlier ev st' ev',
  reserve_from st g earlier fl ev = Some (st', ev') ->
  cap st' = cap st /\ ((resident st g <= cap st)%nat -> (resident st' g <= cap st)%nat).
Proof.
  induction fl as [|f r IH]; intros st earlier ev st' ev' H; cbn [reserve_from] in H.
  - inversion H; subst; auto.
  - destruct (reserve_flow st g earlier (fd f) ev) as [[st1 ev1]|] eqn:Ef; [|discriminate].
    destruct (reserve_flow_cap _ _ _ _ _ _ _ Ef) as (Hc1 & Hr1).
    destruct (IH _ _ _ _ _ H) as (Hc2 & Hr2).
    split; [congruence|]. intros Hle. rewrite Hc1 in Hr2. auto.
Qed.
(* the reservation pass never leaves more copies attached on the device than the zone has tiles *)
Theorem reserve_capacity st g fl st' ev : reserve st g fl = Some (st', ev) ->
  (resident st g <= cap st)%nat -> (resident st' g <= cap st')%nat /\ cap st' = cap st.
Proof.
  intros H Hle. destruct (reserve_from_cap g fl st [] [] st' ev H) as (Hc & Hr).
  split; [rewrite Hc; auto|exact Hc].
Qed.
