(* Executable model of the generic accelerator layer of PaRSEC
   (parsec/mca/device/device_gpu.c, transfer_gpu.c) on top of the ownership
   protocol of parsec/data.c (PV.Coherency.CoherencyDefs: [start], [endt], [transfer]),
   as driven by the DTD front-end when every task is inserted after the previous
   one completed (then the input copy handed to a task, data_in, is the host copy
   of the tile: insert_function.c sets it from tile->data_copy).

   What is mirrored, statement by statement, for a task placed on device g:
     parsec_device_data_reserve_space   -> [reserve]   (zone of [cap] tiles, gpu_mem_lru scan, eviction rules)
     parsec_device_data_stage_in        -> [stage_in]  (source selection, start_transfer_ownership, version assignment)
     parsec_device_callback_complete_push -> [complete_push]
     the kernel                          -> [exec_dev]
     parsec_device_kernel_pop           -> [pop]       (reader release, re-insertion in a list, write-back when PUSHOUT)
     parsec_device_kernel_epilog        -> [epilog]    (clean list gpu_mem_lru / dirty list gpu_mem_owned_lru)
   and for a task placed on the CPU: parsec_dtd_cpu_task_submit -> [cpu_task].
   Device memory content is part of the state ([vals]); memory handed out by the
   zone allocator holds [POISON] until something is copied or computed into it.
   The build compiles assertions out (-DNDEBUG): the functions say what the code does.
   NO proofs in this file. *)
From Coq Require Import ZArith List Bool.
From PV Require Import Coherency.CoherencyDefs.
Import ListNotations.
Local Open Scope Z_scope.

(* ---- programs ------------------------------------------------------------ *)
Inductive amode := MR | MW | MX.                    (* PARSEC_INPUT, PARSEC_OUTPUT, PARSEC_INOUT *)
Definition reads (m : amode) : bool := match m with MW => false | _ => true end.
Definition writes (m : amode) : bool := match m with MR => false | _ => true end.
Definition cmode (m : amode) : mode := mkmode (reads m) (writes m).

Record flow := mkflow { fd : nat; fm : amode; fpo : bool }.       (* datum, access, PARSEC_PUSHOUT *)
Record task := mktask { place : nat; flows : list flow }.         (* 0 = CPU, g >= 1 = device index g *)

(* ---- state ---------------------------------------------------------------- *)
(* one datum: the protocol state (owner_device, device_copies[0..N-1]) and the content of the
   memory of every copy; index 0 is the host *)
Record datum := mkdatum { coh : data; vals : list Z }.
(* one device: gpu_mem_lru (clean copies, head first) and gpu_mem_owned_lru (dirty copies), as datum ids *)
Record gdev := mkdev { lru : list nat; owned : list nat }.
Record gstate := mkst { dats : list datum; devs : list gdev; cap : nat }.

Definition POISON : Z := -11111.
Definition XVER : Z := two32 - 1.                   (* gpu_elem->version = UINT_MAX *)

Definition upd {A} (i : nat) (f : A -> A) (l : list A) : list A :=
  mapi_from (fun k x => if Nat.eqb k i then f x else x) 0%nat l.
Definition dflt_datum : datum := mkdatum (mkdata (-1) []) [].
Definition dflt_dev : gdev := mkdev [] [].
Definition get_dat (st : gstate) (d : nat) : datum := nth d (dats st) dflt_datum.
Definition get_dev (st : gstate) (g : nat) : gdev := nth (pred g) (devs st) dflt_dev.
Definition upd_dat (st : gstate) (d : nat) (f : datum -> datum) : gstate :=
  mkst (upd d f (dats st)) (devs st) (cap st).
Definition upd_dev (st : gstate) (g : nat) (f : gdev -> gdev) : gstate :=
  mkst (dats st) (upd (pred g) f (devs st)) (cap st).
Definition copy_at (st : gstate) (d i : nat) : option copy := getc (copies (coh (get_dat st d))) i.
Definition val_at (st : gstate) (d i : nat) : Z := nth i (vals (get_dat st d)) 0.
Definition upd_coh (st : gstate) (d : nat) (f : data -> data) : gstate :=
  upd_dat st d (fun x => mkdatum (f (coh x)) (vals x)).
Definition upd_copy (st : gstate) (d i : nat) (f : copy -> copy) : gstate :=
  upd_coh st d (fun dt => mkdata (owner dt) (upd_at i f (copies dt))).
Definition set_slot (st : gstate) (d i : nat) (o : option copy) : gstate :=
  upd_coh st d (fun dt => mkdata (owner dt) (upd i (fun _ => o) (copies dt))).
Definition set_val (st : gstate) (d i : nat) (v : Z) : gstate :=
  upd_dat st d (fun x => mkdatum (coh x) (upd i (fun _ => v) (vals x))).

Definition remove_nat (d : nat) (l : list nat) : list nat := filter (fun x => negb (Nat.eqb x d)) l.
(* parsec_list_item_ring_chop + SINGLETON on the copy of d on device g: out of whichever list holds it *)
Definition chop (st : gstate) (g d : nat) : gstate :=
  upd_dev st g (fun v => mkdev (remove_nat d (lru v)) (remove_nat d (owned v))).
Definition push_lru (st : gstate) (g d : nat) : gstate := upd_dev st g (fun v => mkdev (lru v ++ [d]) (owned v)).
Definition push_owned (st : gstate) (g d : nat) : gstate := upd_dev st g (fun v => mkdev (lru v) (owned v ++ [d])).

(* number of tiles of the zone of device g in use = copies attached on g (every tile is one unit) *)
Definition resident (st : gstate) (g : nat) : nat :=
  length (filter (fun x => match getc (copies (coh x)) g with Some _ => true | None => false end) (dats st)).

(* parsec_gpu_data_copy_release_reader(copy of d on device t, make_available):
     readers--; if (0 == readers && make_available) { chop; push_back(OWNED ? gpu_mem_owned_lru : gpu_mem_lru) } *)
Definition release_reader (st : gstate) (t d : nat) (avail : bool) : gstate :=
  match copy_at st d t with
  | None => st
  | Some c =>
      let st1 := upd_copy st d t (fun c => set_rdr c (rdr c - 1)) in
      if (rdr c - 1 =? 0) && avail
      then (let st2 := chop st1 t d in if is_owned (cst c) then push_owned st2 t d else push_lru st2 t d)
      else st1
  end.

(* ---- parsec_device_data_reserve_space ------------------------------------ *)
(* the find_another_data loop, entered when zone_malloc failed: pops gpu_mem_lru until a copy can be
   repurposed; a popped copy with readers != 0, or of a datum named by an earlier flow of the same task,
   is dropped from the list (not pushed back); the victim is detached from its datum and its tile freed.
   None = the list ran dry (release_temp_and_return: PARSEC_HOOK_RETURN_AGAIN).
   Second component: the datum evicted. *)
Fixpoint evict_loop (fuel : nat) (st : gstate) (g : nat) (earlier : list nat) : option (gstate * nat) :=
  match fuel with
  | O => None
  | S f =>
      match lru (get_dev st g) with
      | [] => None
      | e :: rest =>
          let st1 := upd_dev st g (fun v => mkdev rest (owned v)) in
          match copy_at st1 e g with
          | None => evict_loop f st1 g earlier
          | Some c =>
              if negb (rdr c =? 0) then evict_loop f st1 g earlier
              else if existsb (Nat.eqb e) earlier then evict_loop f st1 g earlier
              else Some (set_slot st1 e g None, e)
          end
      end
  end.

(* a new device copy: PARSEC_OBJ_NEW(parsec_data_copy_t), coherency INVALID, version UINT_MAX, attached;
   its tile holds whatever the allocator left there *)
Definition fresh_dev_copy : copy := mkcopy INVALID XVER 0 0.
Definition attach_new (st : gstate) (d g : nat) : gstate :=
  set_val (set_slot st d g (Some fresh_dev_copy)) d g POISON.

(* one flow of the reservation pass; [earlier] = data of the flows before it; the evicted data are accumulated *)
Definition reserve_flow (st : gstate) (g : nat) (earlier : list nat) (d : nat) (ev : list nat)
  : option (gstate * list nat) :=
  match copy_at st d g with
  | Some _ => Some (st, ev)                                     (* there is already a copy on the device *)
  | None =>
      if Nat.ltb (resident st g) (cap st) then Some (attach_new st d g, ev)
      else match evict_loop (S (length (lru (get_dev st g)))) st g earlier with
           | None => None
           | Some (st1, e) => Some (attach_new st1 d g, ev ++ [e])
           end
  end.
Fixpoint reserve_from (st : gstate) (g : nat) (earlier : list nat) (fl : list flow) (ev : list nat)
  : option (gstate * list nat) :=
  match fl with
  | [] => Some (st, ev)
  | f :: r =>
      match reserve_flow st g earlier (fd f) ev with
      | None => None
      | Some (st1, ev1) => reserve_from st1 g (earlier ++ [fd f]) r ev1
      end
  end.
Definition reserve (st : gstate) (g : nat) (fl : list flow) : option (gstate * list nat) :=
  reserve_from st g [] fl [].

(* ---- parsec_device_data_stage_in ------------------------------------------ *)
Definition ndev (st : gstate) (d : nat) : nat := length (copies (coh (get_dat st d))).

(* the scan "for t = 1 .. parsec_nb_devices-1" looking for a device copy to use as source of a read-only flow:
   skips the target, copies that are absent or whose version differs from data_in's; an INVALID copy with
   the right version sets potential_alt_src; otherwise parsec_gpu_data_copy_acquire_reader (readers++,
   kept when the old value was >= 0, undone otherwise).  Result: chosen device, potential_alt_src, state *)
Fixpoint pick_src (n : nat) (t : nat) (st : gstate) (d g : nat) (inver : Z) (pot : bool)
  : option nat * bool * gstate :=
  match n with
  | O => (None, pot, st)
  | S n' =>
      if Nat.eqb t g then pick_src n' (S t) st d g inver pot
      else match copy_at st d t with
           | None => pick_src n' (S t) st d g inver pot
           | Some c =>
               if negb (ver c =? inver) then pick_src n' (S t) st d g inver pot
               else if is_invalid (cst c) then pick_src n' (S t) st d g inver true
               else if 0 <=? rdr c then (Some t, pot, upd_copy st d t (fun c => set_rdr c (rdr c + 1)))
               else pick_src n' (S t) st d g inver pot
           end
  end.

(* result of staging one flow: None = the task cannot proceed (PARSEC_HOOK_RETURN_AGAIN / NEXT);
   otherwise the state, the source copy recorded in flow_info[i].source and the copies enqueued
   (datum, from, to) *)
Definition stage_in (st : gstate) (g : nat) (f : flow) : option (gstate * nat * list (nat * nat * nat)) :=
  let d := fd f in let m := fm f in
  match copy_at st d g, copy_at st d 0 with
  | Some ge, Some cin =>
      (* write access: the copy leaves the lists until the task completes *)
      let st := if writes m then chop st g d else st in
      if reads m && (xfer ge =? 1) then
        (* already under transfer: only start_transfer_ownership (it reserves the reader), no new copy *)
        Some (upd_coh st d (fun dt => fst (start dt g (cmode m))), 0%nat, [])
      else
        let '(sel, pot, st1) :=
          if reads m && negb (writes m) then pick_src (pred (ndev st d)) 1 st d g (ver cin) false
          else (None, false, st) in
        let blocked := match sel with
                       | Some _ => false
                       | None => pot && (is_invalid (cst cin) || (xfer cin =? 1))
                       end in
        if blocked then None else
        let s := match sel with Some t => t | None => 0%nat end in
        match copy_at st1 d s with
        | None => None
        | Some sc =>
            let r := snd (start (coh (get_dat st1 d)) g (cmode m)) in
            let st2 := upd_coh st1 d (fun dt => fst (start dt g (cmode m))) in
            if r =? -1 then
              let st3 := match sel with Some t => release_reader st2 t d true | None => st2 end in
              let st4 := upd_copy st3 d g (fun c => set_xfer c 2) in
              let st5 := upd_coh st4 d (fun dt => endt dt g (cmode m)) in
              let st6 := if writes m then upd_coh st5 d (fun dt => setv dt g (ver sc + 1)) else st5 in
              Some (st6, s, [])
            else
              (* the copy is enqueued on the input stream; version assigned now, status UNDER_TRANSFER *)
              let st3 := upd_coh st2 d (fun dt => setv dt g (if writes m then ver sc + 1 else ver sc)) in
              let st4 := upd_copy st3 d g (fun c => set_xfer c 1) in
              Some (set_val st4 d g (val_at st4 d s), s, [(d, s, g)])
        end
  | _, _ => None
  end.

Fixpoint stage_all (st : gstate) (g : nat) (fl : list flow) (srcs : list nat) (cps : list (nat * nat * nat))
  : option (gstate * list nat * list (nat * nat * nat)) :=
  match fl with
  | [] => Some (st, srcs, cps)
  | f :: r =>
      match stage_in st g f with
      | None => None
      | Some (st1, s, c) => stage_all st1 g r (srcs ++ [s]) (cps ++ c)
      end
  end.

(* parsec_device_callback_complete_push: a flow whose copy is still UNDER_TRANSFER becomes COMPLETE,
   end_transfer_ownership, and a device source gives its reader back *)
Fixpoint complete_push (st : gstate) (g : nat) (fl : list flow) (srcs : list nat) : gstate :=
  match fl, srcs with
  | f :: r, s :: sr =>
      let d := fd f in
      let st1 :=
        match copy_at st d g with
        | Some c =>
            if xfer c =? 1 then
              let sta := upd_copy st d g (fun c => set_xfer c 2) in
              let stb := upd_coh sta d (fun dt => endt dt g (cmode (fm f))) in
              if Nat.eqb s 0 then stb else release_reader stb s d true
            else st
        | None => st
        end in
      complete_push st1 g r sr
  | _, _ => st
  end.

(* ---- the bodies ------------------------------------------------------------ *)
(* same function as the harness (Fval): a hash of the task id and of the values read *)
Definition PMOD : Z := 1000003.
Definition fval (tid : nat) (ins : list Z) : Z :=
  let a := fold_left (fun a v => (a * 31 + (v mod two32) + 7) mod PMOD) ins (Z.of_nat tid + 1) in
  (a * 17 + 3) mod PMOD.

Definition ins_of (st : gstate) (i : nat) (fl : list flow) : list Z :=
  map (fun f => val_at st (fd f) i) (filter (fun f => reads (fm f)) fl).
Definition write_all (st : gstate) (i : nat) (fl : list flow) (v : Z) : gstate :=
  fold_left (fun s f => if writes (fm f) then set_val s (fd f) i v else s) fl st.

(* ---- parsec_device_kernel_pop / parsec_device_kernel_epilog ---------------- *)
Fixpoint pop (st : gstate) (g : nat) (fl : list flow) (cps : list (nat * nat * nat))
  : gstate * list (nat * nat * nat) :=
  match fl with
  | [] => (st, cps)
  | f :: r =>
      let d := fd f in
      let st1 := if reads (fm f) then release_reader st g d (negb (writes (fm f))) else st in
      if writes (fm f) && fpo f
      then pop (upd_copy st1 d 0 (fun c => set_xfer c 1)) g r (cps ++ [(d, g, 0%nat)])
      else pop st1 g r cps
  end.
(* the device-to-host copies run when the event of the output stream completes *)
Definition run_d2h (st : gstate) (g : nat) (fl : list flow) : gstate :=
  fold_left (fun s f => if writes (fm f) && fpo f then set_val s (fd f) 0 (val_at s (fd f) g) else s) fl st.
Fixpoint epilog (st : gstate) (g : nat) (fl : list flow) : gstate :=
  match fl with
  | [] => st
  | f :: r =>
      let d := fd f in
      if negb (writes (fm f)) then epilog st g r
      else if fpo f then
        match copy_at st d g with
        | Some gc =>
            let st1 := upd_copy st d 0 (fun c => set_xfer (set_st (set_ver c (ver gc)) SHARED) 2) in
            let st2 := upd_copy st1 d g (fun c => set_st c SHARED) in
            epilog (push_lru (chop st2 g d) g d) g r
        | None => epilog st g r
        end
      else epilog (push_owned st g d) g r
  end.

(* ---- one task --------------------------------------------------------------- *)
Record tres := mktres { tr_copies : list (nat * nat * nat); tr_ins : list Z; tr_evicted : list nat; tr_st : gstate }.

Definition dev_task (st : gstate) (tid g : nat) (fl : list flow) : option tres :=
  match reserve st g fl with
  | None => None
  | Some (st1, ev) =>
      match stage_all st1 g fl [] [] with
      | None => None
      | Some (st2, srcs, cps) =>
          let st3 := complete_push st2 g fl srcs in
          let ins := ins_of st3 g fl in
          let st4 := write_all st3 g fl (fval tid ins) in
          let '(st5, cps2) := pop st4 g fl cps in
          let st6 := run_d2h st5 g fl in
          Some (mktres cps2 ins ev (epilog st6 g fl))
      end
  end.

(* parsec_dtd_cpu_task_submit: for an INOUT / OUTPUT flow  data_in->version++  and, when the owner is an
   accelerator, parsec_data_transfer_ownership_to_copy(data, 0, access) followed (read access) by the
   release of the reader that call took; then the body runs on the host copy.
   [direct] = the task went through parsec_dtd_insert_task: the body is the hook, none of this runs. *)
Definition cpu_prepare (st : gstate) (f : flow) : gstate :=
  if writes (fm f) then
    let d := fd f in
    let st1 := upd_coh st d (fun dt => incv dt 0) in
    if 1 <=? owner (coh (get_dat st1 d)) then
      let st2 := upd_coh st1 d (fun dt => fst (transfer dt 0 (cmode (fm f)))) in
      if reads (fm f) then upd_copy st2 d 0 (fun c => set_rdr c (rdr c - 1)) else st2
    else st1
  else st.
Definition cpu_task (st : gstate) (direct : bool) (tid : nat) (fl : list flow) : tres :=
  let st1 := if direct then st else fold_left cpu_prepare fl st in
  let ins := ins_of st1 0 fl in
  mktres [] ins [] (write_all st1 0 fl (fval tid ins)).

Definition run_task (st : gstate) (direct : bool) (tid : nat) (t : task) : option tres :=
  match place t with
  | O => Some (cpu_task st direct tid (flows t))
  | g => dev_task st tid g (flows t)
  end.

(* the run: every task after the previous one completed; stops at the first task that cannot proceed
   (the real scheduler then retries it forever).  Second component: true = all tasks ran *)
Fixpoint run_from (st : gstate) (direct : bool) (tid : nat) (ts : list task) : list tres * bool :=
  match ts with
  | [] => ([], true)
  | t :: r =>
      match run_task st direct tid t with
      | None => ([], false)
      | Some tr => let '(l, ok) := run_from (tr_st tr) direct (S tid) r in (tr :: l, ok)
      end
  end.

(* parsec_data_create on a tile of the collection: host copy OWNED, version 0, owner_device 0;
   [n] device slots in all (host included) *)
Definition init_datum (n : nat) (v : Z) : datum :=
  mkdatum (mkdata 0 (Some (mkcopy OWNED 0 0 0) :: repeat None (pred n))) (v :: repeat POISON (pred n)).
Definition init_vals (nd : nat) : list Z := map (fun d => 100 + Z.of_nat d) (seq 0 nd).
Definition init_state (nd ngpu cap : nat) : gstate :=
  mkst (map (init_datum (S ngpu)) (init_vals nd)) (repeat dflt_dev ngpu) cap.
Definition grun (nd ngpu cap : nat) (direct : bool) (ts : list task) : list tres * bool :=
  run_from (init_state nd ngpu cap) direct 0 ts.

(* ---- PTG-like chaining: the input copy of a flow is the output copy of the last writer ---------------- *)
(* As PTG-generated code forwards it: data_in of a flow = data_out of the last writer of the tile, i.e. its device
   copy when it did not push out.  [din] = where the input copy of the flow lives (0 host, s >= 1 device s).
   Differences with the host-input case, device_gpu.c:
     reserve_space : "the input data is already on this device": data_out = data_in, nothing to allocate;
                     a copy whose reference count is above 1 (here: the inputs of the running task, which the
                     consumer holds) is pushed back to the tail of gpu_mem_lru, and meeting the first such copy
                     again ends the scan (cycle detection: PARSEC_HOOK_RETURN_AGAIN);
     stage_in      : gpu_elem == candidate -> version++ / chop for a writer, readers++ for a reader, no ownership call;
                     input on another device -> it is the D2D source (parsec_gpu_data_copy_acquire_reader), released by
                     parsec_device_callback_complete_push through parsec_gpu_data_copy_release_reader, which files it in
                     gpu_mem_owned_lru when it is OWNED, in gpu_mem_lru otherwise;
     complete_push : flows whose input is on this device are skipped. *)
Fixpoint evict_loop_p (fuel : nat) (st : gstate) (g : nat) (earlier held : list nat) (cyc : option nat)
  : option (gstate * nat) :=
  match fuel with
  | O => None
  | S f =>
      match lru (get_dev st g) with
      | [] => None
      | e :: rest =>
          let st1 := upd_dev st g (fun v => mkdev rest (owned v)) in
          if match cyc with Some x => Nat.eqb x e | None => false end then None else
          match copy_at st1 e g with
          | None => evict_loop_p f st1 g earlier held cyc
          | Some c =>
              if negb (rdr c =? 0) then evict_loop_p f st1 g earlier held cyc
              else if existsb (Nat.eqb e) held
              then evict_loop_p f (upd_dev st g (fun v => mkdev (rest ++ [e]) (owned v))) g earlier held
                                (match cyc with Some x => Some x | None => Some e end)
              else if existsb (Nat.eqb e) earlier then evict_loop_p f st1 g earlier held cyc
              else Some (set_slot st1 e g None, e)
          end
      end
  end.
Definition reserve_flow_p (st : gstate) (g : nat) (earlier held : list nat) (d din : nat) (ev : list nat)
  : option (gstate * list nat) :=
  if Nat.eqb din g then Some (st, ev) else
  match copy_at st d g with
  | Some _ => Some (st, ev)
  | None =>
      if Nat.ltb (resident st g) (cap st) then Some (attach_new st d g, ev)
      else match evict_loop_p (2 * S (length (lru (get_dev st g)))) st g earlier held None with
           | None => None
           | Some (st1, e) => Some (attach_new st1 d g, ev ++ [e])
           end
  end.
Fixpoint reserve_from_p (st : gstate) (g : nat) (earlier held : list nat) (fl : list flow) (dins : list nat) (ev : list nat)
  : option (gstate * list nat) :=
  match fl, dins with
  | f :: r, din :: dr =>
      match reserve_flow_p st g earlier held (fd f) din ev with
      | None => None
      | Some (st1, ev1) => reserve_from_p st1 g (earlier ++ [fd f]) held r dr ev1
      end
  | _, _ => Some (st, ev)
  end.

Definition stage_in_p (st : gstate) (g : nat) (f : flow) (din : nat) : option (gstate * nat * list (nat * nat * nat)) :=
  let d := fd f in let m := fm f in
  if Nat.eqb din 0 then stage_in st g f
  else if Nat.eqb din g then
    match copy_at st d g with
    | None => None
    | Some _ =>
        let st1 := if writes m then chop (upd_coh st d (fun dt => incv dt g)) g d else st in
        let st2 := if reads m then upd_copy st1 d g (fun c => set_rdr c (rdr c + 1)) else st1 in
        Some (st2, g, [])
    end
  else
  match copy_at st d g, copy_at st d din with
  | Some ge, Some cand =>
      let st := if writes m then chop st g d else st in
      if reads m && (xfer ge =? 1) then
        Some (upd_coh st d (fun dt => fst (start dt g (cmode m))), din, [])
      else
        let ready := negb (is_invalid (cst cand)) && negb (xfer cand =? 1) && (0 <=? rdr cand) in
        let acquire := upd_copy st d din (fun c => set_rdr c (rdr c + 1)) in
        (* (selected source, acquired?, state) or None = the task cannot proceed *)
        let choice : option (nat * bool * gstate) :=
          if reads m && negb (writes m) then
            if ready then Some (din, true, acquire)
            else let '(sel, pot, st1) := pick_src (pred (ndev st d)) 1 st d g (ver cand) false in
                 match sel with
                 | Some t => Some (t, true, st1)
                 | None =>
                     if pot && match copy_at st1 d 0 with
                               | None => true
                               | Some c0 => negb (ver c0 =? ver cand) || is_invalid (cst c0) || (xfer c0 =? 1)
                               end
                     then None else Some (0%nat, false, st1)
                 end
          else if reads m then (if 0 <=? rdr cand then Some (din, true, acquire) else None)
          else Some (din, false, st) in
        match choice with
        | None => None
        | Some (s, acq, st1) =>
            match copy_at st1 d s with
            | None => None
            | Some sc =>
                let r := snd (start (coh (get_dat st1 d)) g (cmode m)) in
                let st2 := upd_coh st1 d (fun dt => fst (start dt g (cmode m))) in
                if r =? -1 then
                  let st3 := if acq then release_reader st2 s d true else st2 in
                  let st4 := upd_copy st3 d g (fun c => set_xfer c 2) in
                  let st5 := upd_coh st4 d (fun dt => endt dt g (cmode m)) in
                  let st6 := if writes m then upd_coh st5 d (fun dt => setv dt g (ver sc + 1)) else st5 in
                  Some (st6, s, [])
                else
                  let st3 := upd_coh st2 d (fun dt => setv dt g (if writes m then ver sc + 1 else ver sc)) in
                  let st4 := upd_copy st3 d g (fun c => set_xfer c 1) in
                  Some (set_val st4 d g (val_at st4 d s), s, [(d, s, g)])
            end
        end
  | _, _ => None
  end.
Fixpoint stage_all_p (st : gstate) (g : nat) (fl : list flow) (dins : list nat) (srcs : list nat) (cps : list (nat * nat * nat))
  : option (gstate * list nat * list (nat * nat * nat)) :=
  match fl, dins with
  | f :: r, din :: dr =>
      match stage_in_p st g f din with
      | None => None
      | Some (st1, s, c) => stage_all_p st1 g r dr (srcs ++ [s]) (cps ++ c)
      end
  | _, _ => Some (st, srcs, cps)
  end.
Fixpoint complete_push_p (st : gstate) (g : nat) (fl : list flow) (dins srcs : list nat) : gstate :=
  match fl, dins, srcs with
  | f :: r, din :: dr, s :: sr =>
      let st1 := if Nat.eqb din g then st else complete_push st g [f] [s] in
      complete_push_p st1 g r dr sr
  | _, _, _ => st
  end.

(* where the next consumer of a tile finds its input: [cur] d = 0 host / device of the last writer *)
Definition dev_task_p (st : gstate) (cur : list nat) (tid g : nat) (fl : list flow) : option (tres * list nat) :=
  let dins := map (fun f => nth (fd f) cur 0%nat) fl in
  let held := map fd (filter (fun f => Nat.eqb (nth (fd f) cur 0%nat) g) fl) in
  match reserve_from_p st g [] held fl dins [] with
  | None => None
  | Some (st1, ev) =>
      (* an evicted copy is no input any more: its consumers read the tile from the collection *)
      let cur1 := mapi_from (fun d s => if Nat.eqb s g && existsb (Nat.eqb d) ev then 0%nat else s) 0%nat cur in
      match stage_all_p st1 g fl dins [] [] with
      | None => None
      | Some (st2, srcs, cps) =>
          let st3 := complete_push_p st2 g fl dins srcs in
          let ins := ins_of st3 g fl in
          let st4 := write_all st3 g fl (fval tid ins) in
          let '(st5, cps2) := pop st4 g fl cps in
          let st6 := run_d2h st5 g fl in
          let cur2 := fold_left (fun c f => if writes (fm f) then upd (fd f) (fun _ => if fpo f then 0%nat else g) c else c) fl cur1 in
          Some (mktres cps2 ins ev (epilog st6 g fl), cur2)
      end
  end.
Fixpoint prun_from (st : gstate) (cur : list nat) (tid : nat) (ts : list task) : list tres * bool :=
  match ts with
  | [] => ([], true)
  | t :: r =>
      match place t with
      | O => ([], false)                        (* device tasks only *)
      | g =>
          match dev_task_p st cur tid g (flows t) with
          | None => ([], false)
          | Some (tr, cur1) => let '(l, ok) := prun_from (tr_st tr) cur1 (S tid) r in (tr :: l, ok)
          end
      end
  end.
Definition prun (nd ngpu cap : nat) (ts : list task) : list tres * bool :=
  prun_from (init_state nd ngpu cap) (repeat 0%nat nd) 0 ts.

(* ---- parsec_gpu_task_update_pushout: which written flows must go back to the host -------------------- *)
(* DISTRIBUTED build, MPI may not send from device memory: after the kernel the manager walks the successors of
   the task (iterate_successors with the visitor parsec_gpu_pushout_remote_successor) to find the written flows that a
   successor on another rank will need on the host.  [po] = flow indices whose pushout bit is set, [rem] = plan.remaining_flows
   (written flows not yet known to need it), an event = one call of the visitor: (flow index, rank of the successor),
   rank 0 = this rank.  The visitor: flow not in remaining -> nothing; successor remote -> set the bit, drop the flow from
   remaining; in all cases the walk STOPs when remaining is empty. *)
Definition memb (i : nat) (l : list nat) : bool := existsb (Nat.eqb i) l.
Definition visit (acc : list nat * list nat * bool) (e : nat * nat) : list nat * list nat * bool :=
  let '(po, rem, stop) := acc in
  if stop then acc else
  let '(i, r) := e in
  if negb (memb i rem) then (po, rem, match rem with [] => true | _ => false end)
  else if negb (Nat.eqb r 0) then
    let rem' := remove_nat i rem in (i :: po, rem', match rem' with [] => true | _ => false end)
  else (po, rem, match rem with [] => true | _ => false end).
(* flows with their index *)
Fixpoint indexed_from (k : nat) (fl : list flow) : list (nat * flow) :=
  match fl with [] => [] | f :: r => (k, f) :: indexed_from (S k) r end.
Definition indexed (fl : list flow) : list (nat * flow) := indexed_from 0 fl.
(* bits set by the upper layer (PARSEC_PUSHOUT / final write-back) and the flows the walk looks at *)
Definition po_init (fl : list flow) : list nat := map fst (filter (fun p => fpo (snd p)) (indexed fl)).
Definition rem_init (fl : list flow) : list nat :=
  map fst (filter (fun p => writes (fm (snd p)) && negb (fpo (snd p))) (indexed fl)).
(* iterate_successors: flow by flow (those of the action mask = the remaining ones), successor by successor *)
Definition events (fl : list flow) (succs : list (list nat)) : list (nat * nat) :=
  flat_map (fun p => if memb (fst p) (rem_init fl) then map (fun r => (fst p, r)) (nth (fst p) succs []) else [])
           (indexed fl).
Definition pushout_bits (fl : list flow) (succs : list (list nat)) : list nat :=
  match (if match rem_init fl with [] => true | _ => false end then (po_init fl, rem_init fl, true)
         else fold_left visit (events fl succs) (po_init fl, rem_init fl, false)) with
  | (po, _, _) => po
  end.
(* the flows as kernel_pop / kernel_epilog see them *)
Definition with_pushout (fl : list flow) (succs : list (list nat)) : list flow :=
  map (fun p => mkflow (fd (snd p)) (fm (snd p)) (memb (fst p) (pushout_bits fl succs))) (indexed fl).
(* what the property requires: pushed out iff asked by the upper layer, or written with a successor on another rank *)
Definition has_remote (l : list nat) : bool := existsb (fun r => negb (Nat.eqb r 0)) l.
Definition needs_pushout (fl : list flow) (succs : list (list nat)) (i : nat) : bool :=
  match nth_error fl i with
  | Some f => fpo f || (writes (fm f) && has_remote (nth i succs []))
  | None => false
  end.
(* update_pushout -> kernel_pop -> device-to-host copies -> kernel_epilog *)
Definition post_kernel (st : gstate) (g : nat) (fl : list flow) (succs : list (list nat)) : gstate :=
  let fl' := with_pushout fl succs in
  epilog (run_d2h (fst (pop st g fl' [])) g fl') g fl'.

(* a program whose tasks carry the successor ranks of their flows *)
Definition prun_s (nd ngpu cap : nat) (ts : list (task * list (list nat))) : list tres * bool :=
  prun nd ngpu cap (map (fun p => mktask (place (fst p)) (with_pushout (flows (fst p)) (snd p))) ts).

(* ---- the reference: sequential semantics of the program (what C43 requires the tasks to see) ---- *)
Definition mem := list Z.
Definition ref_task (m : mem) (tid : nat) (fl : list flow) : list Z * mem :=
  let ins := map (fun f => nth (fd f) m 0) (filter (fun f => reads (fm f)) fl) in
  let v := fval tid ins in
  (ins, fold_left (fun s f => if writes (fm f) then upd (fd f) (fun _ => v) s else s) fl m).
Fixpoint ref_from (m : mem) (tid : nat) (ts : list task) : list (list Z) * mem :=
  match ts with
  | [] => ([], m)
  | t :: r => let '(ins, m1) := ref_task m tid (flows t) in
              let '(l, mf) := ref_from m1 (S tid) r in (ins :: l, mf)
  end.
Definition ref_run (nd : nat) (ts : list task) : list (list Z) * mem := ref_from (init_vals nd) 0 ts.
Definition final_host (st : gstate) : mem := map (fun x => nth 0 (vals x) 0) (dats st).
