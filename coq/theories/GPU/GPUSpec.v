(* Vocabulary of the C43 statements over the model of GPUDefs.v (booleans are executable:
   the refutations are decided by computation, the theorems quantify over everything).
   NO proofs in this file. *)
From Coq Require Import ZArith List Bool.
From PV Require Import Coherency.CoherencyDefs GPU.GPUDefs.
Import ListNotations.
Local Open Scope Z_scope.

(* ---- the contract DTD puts on the program -------------------------------- *)
(* a tile written by a device task without PARSEC_PUSHOUT must not be used next by a CPU task
   (nor be left so at the end: the flush reads the host copy).  [dirty] = such tiles *)
Definition flow_contract (onhost : bool) (dirty : list nat) (f : flow) : bool * list nat :=
  let d := fd f in
  if onhost then (negb (existsb (Nat.eqb d) dirty), if writes (fm f) then remove_nat d dirty else dirty)
  else (true, if writes (fm f) then (if fpo f then remove_nat d dirty else d :: remove_nat d dirty) else dirty).
Fixpoint flows_contract (onhost : bool) (dirty : list nat) (fl : list flow) : bool * list nat :=
  match fl with
  | [] => (true, dirty)
  | f :: r => let '(ok, d1) := flow_contract onhost dirty f in
              let '(ok2, d2) := flows_contract onhost d1 r in (ok && ok2, d2)
  end.
Fixpoint contract_from (dirty : list nat) (ts : list task) : bool :=
  match ts with
  | [] => match dirty with [] => true | _ => false end
  | t :: r => let '(ok, d1) := flows_contract (Nat.eqb (place t) 0) dirty (flows t) in ok && contract_from d1 r
  end.
Definition contract (ts : list task) : bool := contract_from [] ts.

(* every device write asks for the write-back *)
Definition all_pushout (ts : list task) : bool :=
  forallb (fun t => Nat.eqb (place t) 0 || forallb (fun f => negb (writes (fm f)) || fpo f) (flows t)) ts.

(* no tile twice in a task *)
Fixpoint nodupb (l : list nat) : bool :=
  match l with [] => true | x :: r => negb (existsb (Nat.eqb x) r) && nodupb r end.
Definition distinct_flows (ts : list task) : bool := forallb (fun t => nodupb (map fd (flows t))) ts.

(* ---- what C43 requires of a run --------------------------------------------- *)
Fixpoint zs_eqb (a b : list Z) : bool :=
  match a, b with
  | [], [] => true
  | x :: a', y :: b' => (x =? y) && zs_eqb a' b'
  | _, _ => false
  end.
Fixpoint all_ins_ok (trs : list tres) (ref : list (list Z)) : bool :=
  match trs, ref with
  | [], [] => true
  | tr :: r, i :: ri => zs_eqb (tr_ins tr) i && all_ins_ok r ri
  | _, _ => false
  end.
(* every task ran, read what the last writer in sequence order wrote, and the host holds the final values *)
Definition reads_ok (nd ngpu cap : nat) (direct : bool) (ts : list task) : bool :=
  let '(trs, ok) := grun nd ngpu cap direct ts in
  let '(rins, rmem) := ref_run nd ts in
  ok && all_ins_ok trs rins &&
  zs_eqb (final_host (match rev trs with tr :: _ => tr_st tr | [] => init_state nd ngpu cap end)) rmem.

(* the newest value of every tile is in the memory of some attached copy *)
Definition holds_newest (st : gstate) (m : mem) : bool :=
  forallb (fun d => existsb (fun i => match copy_at st d i with Some _ => val_at st d i =? nth d m 0 | None => false end)
                            (seq 0 (ndev st d)))
          (seq 0 (length (dats st))).

(* state after the first k tasks, and the reference memory at that point *)
Definition state_after (nd ngpu cap : nat) (direct : bool) (ts : list task) : gstate :=
  match rev (fst (grun nd ngpu cap direct ts)) with tr :: _ => tr_st tr | [] => init_state nd ngpu cap end.
Definition mem_after (nd : nat) (ts : list task) : mem := snd (ref_run nd ts).

(* ---- discipline under which the unchanged code is expected to be right ------ *)
(* "through the host": every device write asks for PUSHOUT, and a tile written by a device task is written
   by a CPU task (task-class API) before any device task names it again.  [pend] = tiles waiting for that *)
Definition flows_host (onhost : bool) (pend : list nat) (fl : list flow) : bool * list nat :=
  fold_left (fun (acc : bool * list nat) f =>
               let '(ok, p) := acc in
               let d := fd f in
               if onhost then (ok, if writes (fm f) then remove_nat d p else p)
               else (ok && negb (existsb (Nat.eqb d) p) && (negb (writes (fm f)) || fpo f),
                     p))
            fl (true, pend).
Fixpoint through_host_from (pend : list nat) (ts : list task) : bool :=
  match ts with
  | [] => true
  | t :: r =>
      let onhost := Nat.eqb (place t) 0 in
      let '(ok, p1) := flows_host onhost pend (flows t) in
      let p2 := if onhost then p1 else p1 ++ map fd (filter (fun f => writes (fm f)) (flows t)) in
      ok && through_host_from p2 r
  end.
Definition through_host (ts : list task) : bool := through_host_from [] ts.

(* accelerators only read: every device flow is PARSEC_INPUT *)
Definition devices_read_only (ts : list task) : bool :=
  forallb (fun t => Nat.eqb (place t) 0 || forallb (fun f => negb (writes (fm f))) (flows t)) ts.
