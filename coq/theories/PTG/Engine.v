(* Abstract dataflow engine over a finite DAG.  Definitions only (proofs: EngineProofs.v).

   tasks        the finite set of task instances (a list)
   preds/succs  predecessors / successors of a task, with multiplicity (one entry per
                dependency edge)
   A state gives every task a status and keeps the log of Begin/End events.  A
   schedule is an ARBITRARY list of events; an event that is not enabled is a no-op:

     Startup       every task that waits for 0 inputs becomes ready   (startup enumeration)
     StartupOne t  the same for one task (chunked / partial startup)
     Begin t       a ready task starts running; any number of tasks may be running
     End t         a running task completes and releases each of its successor edges:
                   the successor's count of missing inputs is decremented and the
                   successor becomes ready in the very step that delivers its last
                   input (the exactly-once specification proved for the real
                   dependency trackers in C07).
   This is the engine C02/C16/C15 extend with values, AGAIN and composition. *)
From Coq Require Import List Arith.
Import ListNotations.

Inductive status := Absent | Waiting (n : nat) | Ready | Running | Done.

Section Engine.
  Variable task : Type.
  Variable teq : forall a b : task, {a = b} + {a <> b}.
  Variable tasks : list task.
  Variable preds succs : task -> list task.

  Inductive event := Startup | StartupOne (t : task) | Begin (t : task) | End (t : task).
  Inductive logev := LBegin (t : task) | LEnd (t : task).
  (* log: most recent event first *)
  Record state := { st : task -> status; log : list logev }.

  Definition upd (f : task -> status) (t : task) (v : status) : task -> status :=
    fun x => if teq x t then v else f x.

  Definition init : state :=
    {| st := fun t => if in_dec teq t tasks then Waiting (length (preds t)) else Absent;
       log := [] |}.

  Definition start1 (s : status) : status := match s with Waiting O => Ready | _ => s end.
  Definition rel1 (s : status) : status :=
    match s with
    | Waiting (S O) => Ready
    | Waiting (S (S n)) => Waiting (S n)
    | _ => s
    end.
  Definition start_one (f : task -> status) (t : task) := upd f t (start1 (f t)).
  Definition release (f : task -> status) (s : task) := upd f s (rel1 (f s)).

  Definition step (s : state) (e : event) : state :=
    match e with
    | Startup => {| st := fold_left start_one tasks (st s); log := log s |}
    | StartupOne t => {| st := start_one (st s) t; log := log s |}
    | Begin t => match st s t with
                 | Ready => {| st := upd (st s) t Running; log := LBegin t :: log s |}
                 | _ => s
                 end
    | End t => match st s t with
               | Running => {| st := fold_left release (succs t) (upd (st s) t Done);
                               log := LEnd t :: log s |}
               | _ => s
               end
    end.
  Definition run (evs : list event) : state := fold_left step evs init.

  Definition begins (l : list logev) : list task :=
    flat_map (fun e => match e with LBegin t => [t] | LEnd _ => [] end) l.
  Definition ends (l : list logev) : list task :=
    flat_map (fun e => match e with LEnd t => [t] | LBegin _ => [] end) l.

  (* nothing can happen any more: startup is complete, nothing is ready, nothing runs *)
  Definition quiescent (s : state) : Prop :=
    forall t, In t tasks -> st s t <> Ready /\ st s t <> Running /\ st s t <> Waiting 0.
End Engine.

Arguments Startup {task}.
Arguments StartupOne {task} t.
Arguments Begin {task} t.
Arguments End {task} t.
Arguments LBegin {task} t.
Arguments LEnd {task} t.
