(* PTG — executable model of a subset of the JDF language (parameterized task
   graphs) as parsec-ptgpp (parsec/interfaces/ptg/ptg-compiler/jdf2c.c) compiles it.
   NO proofs here.

   A program is a value of an inductive AST: integer globals; task classes with
   ordered locals (parameter ranges lo..hi..step whose bounds are expressions over
   globals and EARLIER locals, derived locals v = e), a placement, flows
   (CTL/READ/WRITE/RW) with guarded input and output dependencies.

   Names are positions: global i, local i of the class (definition order), class c,
   flow f of the class.  A task instance is identified, as in the runtime, by its
   class and the values of its PARAMETERS in the order of the class header:
   tid = (class index, parameter values).

   What is mirrored from jdf2c.c (see docs/PTG_NOTES.md for the line references):
   * execution space = nested loops `for (v = lo; v <= hi; v += step)` in the order
     of the locals (jdf_generate_startup_tasks / jdf_generate_internal_init); derived
     locals are assignments inside the nest; expressions have C semantics (`/`, `%`
     truncate towards zero = Z.quot / Z.rem; comparisons and && || ! yield 0/1);
   * input dependencies of a DATA flow: the first dependency whose guard holds is the
     one that counts (parsec_check_IN_dependencies_with_mask and _with_counter); of a CTL flow: every dependency
     whose guard holds counts, a range in the arguments counts once per element
     (ctl_gather_nb);
   * output dependencies: every dependency whose guard holds is followed; a range
     in the arguments is expanded; successors whose parameters fall outside the
     BOUNDS lo..hi of the target's ranges are silently dropped (the generated
     iterate_successors tests `lo <= v && v <= hi`, not the step);
   * make_key / key_print: mixed radix encoding over min/range values computed by the
     generated internal_init (min starts at 0x7fffffff, max at 0 (sic); both are updated
     with min(lo,hi), max(lo,hi) every time the loop header of the parameter is reached).
   Single process: the placement is kept in the AST but every instance is local. *)
From Coq Require Import ZArith List Bool Arith.
Import ListNotations.
Local Open Scope Z_scope.

(* ------------------------------------------------------------------ AST *)
Inductive binop := Oadd | Osub | Omul | Odiv | Omod | Omin | Omax
                 | Oeq | One | Olt | Ole | Ogt | Oge | Oand | Oor.
Inductive expr :=
| Ec (z : Z)                 (* constant *)
| Eg (i : nat)               (* global i *)
| El (i : nat)               (* local i of the enclosing class *)
| Eb (o : binop) (a b : expr)
| En (a : expr)              (* !a *)
| Et (c a b : expr).         (* c ? a : b *)

Inductive local :=
| Lrange (lo hi st : expr)   (* v = lo .. hi .. st *)
| Ldef (e : expr).           (* v = e *)

Inductive arg := Aexp (e : expr) | Arng (lo hi st : expr).
Inductive target :=
| Ttask (c f : nat) (args : list arg)   (* flow f of class c, arguments in the order of c's header *)
| Tmem (args : list expr)               (* D(e…): the data collection *)
| Tnew                                  (* NEW *)
| Tnull.                                (* NULL *)
Inductive mode := MCtl | MRead | MWrite | MRW.
Record dep := { d_in : bool;               (* true: `<-`, false: `->` *)
                d_guard : option expr;
                d_then : target;
                d_else : option target }.  (* `g ? then : else` *)
Record flow := { f_mode : mode; f_deps : list dep }.
Record tclass := { c_locals : list local;
                   c_params : list nat;     (* header order: positions in c_locals *)
                   c_place : list expr;     (* `: D(e…)` *)
                   c_flows : list flow;
                   c_prio : option expr;
                   c_count : bool }.        (* [count_deps = on]: counter instead of mask *)
Record program := { p_globals : list Z; p_classes : list tclass }.

Definition tid : Type := (nat * list Z)%type.

(* ----------------------------------------------------------- expressions *)
Definition b2z (b : bool) : Z := if b then 1 else 0.
Definition z2b (z : Z) : bool := negb (z =? 0).
Definition evalop (o : binop) (x y : Z) : Z :=
  match o with
  | Oadd => x + y | Osub => x - y | Omul => x * y
  | Odiv => Z.quot x y | Omod => Z.rem x y
  | Omin => if x <=? y then x else y      (* parsec_imin *)
  | Omax => if x >=? y then x else y      (* parsec_imax *)
  | Oeq => b2z (x =? y) | One => b2z (negb (x =? y))
  | Olt => b2z (x <? y) | Ole => b2z (x <=? y)
  | Ogt => b2z (x >? y) | Oge => b2z (x >=? y)
  | Oand => b2z (z2b x && z2b y) | Oor => b2z (z2b x || z2b y)
  end.
Fixpoint eval (G L : list Z) (e : expr) : Z :=
  match e with
  | Ec z => z
  | Eg i => nth i G 0
  | El i => nth i L 0
  | Eb o a b => evalop o (eval G L a) (eval G L b)
  | En a => b2z (negb (z2b (eval G L a)))
  | Et c a b => if z2b (eval G L c) then eval G L a else eval G L b
  end.

(* for (v = lo; v <= hi; v += st) with st > 0 *)
Definition zrange (lo hi st : Z) : list Z :=
  if (st <=? 0) || (hi <? lo) then []
  else map (fun i => lo + Z.of_nat i * st) (seq 0 (S (Z.to_nat ((hi - lo) / st)))).

(* -------------------------------------------------------- execution space *)
(* environments list the values of the locals in definition order *)
Fixpoint enum (G : list Z) (ls : list local) (env : list Z) : list (list Z) :=
  match ls with
  | [] => [env]
  | Lrange lo hi st :: r =>
      flat_map (fun v => enum G r (env ++ [v]))
               (zrange (eval G env lo) (eval G env hi) (eval G env st))
  | Ldef e :: r => enum G r (env ++ [eval G env e])
  end.
Definition instances_of (G : list Z) (c : tclass) : list (list Z) := enum G (c_locals c) [].
Definition params_of (c : tclass) (env : list Z) : list Z := map (fun i => nth i env 0) (c_params c).

Fixpoint index_of (x : nat) (l : list nat) : option nat :=
  match l with
  | [] => None
  | y :: r => if Nat.eqb x y then Some O else option_map S (index_of x r)
  end.

(* rebuild the environment of an instance from its parameter values, as the generated
   iterate_successors does for a successor: parameters are taken from the call and
   tested against the BOUNDS of their range, derived locals are recomputed *)
Fixpoint complete_from (G : list Z) (params : list nat) (ps : list Z) (ls : list local)
         (pos : nat) (env : list Z) : option (list Z) :=
  match ls with
  | [] => Some env
  | l :: r =>
      match index_of pos params, l with
      | Some j, Lrange lo hi _ =>
          let v := nth j ps 0 in
          if (eval G env lo <=? v) && (v <=? eval G env hi)
          then complete_from G params ps r (S pos) (env ++ [v]) else None
      | Some j, Ldef _ => complete_from G params ps r (S pos) (env ++ [nth j ps 0])
      | None, Ldef e => complete_from G params ps r (S pos) (env ++ [eval G env e])
      | None, Lrange _ _ _ => None      (* a range that is not a parameter: not supported *)
      end
  end.
Definition complete (G : list Z) (c : tclass) (ps : list Z) : option (list Z) :=
  if Nat.eqb (length ps) (length (c_params c))
  then complete_from G (c_params c) ps (c_locals c) O [] else None.

Definition nth_class (P : program) (ci : nat) : option tclass := nth_error (p_classes P) ci.

Definition class_ids (G : list Z) (ci : nat) (c : tclass) : list tid :=
  map (fun env => (ci, params_of c env)) (instances_of G c).
Fixpoint ids_from (G : list Z) (ci : nat) (cs : list tclass) : list tid :=
  match cs with
  | [] => []
  | c :: r => class_ids G ci c ++ ids_from G (S ci) r
  end.
(* THE execution space of the program *)
Definition instances (P : program) : list tid := ids_from (p_globals P) O (p_classes P).

(* ------------------------------------------------------------ dependencies *)
Definition guard_val (G L : list Z) (g : option expr) : bool :=
  match g with None => true | Some e => z2b (eval G L e) end.
(* the target selected by a dependency in environment L, if any *)
Definition dep_target (G L : list Z) (d : dep) : option target :=
  if guard_val G L (d_guard d) then Some (d_then d) else d_else d.

Definition arg_values (G L : list Z) (a : arg) : list Z :=
  match a with
  | Aexp e => [eval G L e]
  | Arng lo hi st => zrange (eval G L lo) (eval G L hi) (eval G L st)
  end.
(* cartesian product, first argument outermost (the nesting of the generated loops) *)
Fixpoint expand_args (G L : list Z) (args : list arg) : list (list Z) :=
  match args with
  | [] => [[]]
  | a :: r => flat_map (fun v => map (cons v) (expand_args G L r)) (arg_values G L a)
  end.

(* an edge end: (my flow, other task, other task's flow) *)
Definition edge : Type := (nat * tid * nat)%type.
Definition target_tasks (G L : list Z) (fi : nat) (t : target) : list edge :=
  match t with
  | Ttask c f args => map (fun ps => (fi, (c, ps), f)) (expand_args G L args)
  | _ => []
  end.
Definition is_ctl (f : flow) : bool := match f_mode f with MCtl => true | _ => false end.

(* input side of one flow *)
Fixpoint first_active (G L : list Z) (ds : list dep) : option target :=
  match ds with
  | [] => None
  | d :: r => if d_in d then match dep_target G L d with Some t => Some t | None => first_active G L r end
              else first_active G L r
  end.
Definition flow_preds (G L : list Z) (fi : nat) (f : flow) : list edge :=
  if is_ctl f
  then flat_map (fun d => if d_in d then match dep_target G L d with
                                         | Some t => target_tasks G L fi t | None => [] end
                          else []) (f_deps f)
  else match first_active G L (f_deps f) with Some t => target_tasks G L fi t | None => [] end.

(* output side: bounds clipping of the generated iterate_successors *)
Definition in_bounds (P : program) (t : tid) : bool :=
  match nth_class P (fst t) with
  | Some c => match complete (p_globals P) c (snd t) with Some _ => true | None => false end
  | None => false
  end.
Definition flow_succs (P : program) (L : list Z) (fi : nat) (f : flow) : list edge :=
  flat_map (fun d => if d_in d then []
                     else match dep_target (p_globals P) L d with
                          | Some t => filter (fun e => in_bounds P (snd (fst e)))
                                             (target_tasks (p_globals P) L fi t)
                          | None => [] end) (f_deps f).

Fixpoint flat_mapi {A B} (f : nat -> A -> list B) (i : nat) (l : list A) : list B :=
  match l with [] => [] | x :: r => f i x ++ flat_mapi f (S i) r end.

Definition env_of (P : program) (t : tid) : option (tclass * list Z) :=
  match nth_class P (fst t) with
  | Some c => match complete (p_globals P) c (snd t) with Some env => Some (c, env) | None => None end
  | None => None
  end.
Definition pred_edges (P : program) (t : tid) : list edge :=
  match env_of P t with
  | Some (c, env) => flat_mapi (flow_preds (p_globals P) env) O (c_flows c)
  | None => []
  end.
Definition succ_edges (P : program) (t : tid) : list edge :=
  match env_of P t with
  | Some (c, env) => flat_mapi (flow_succs P env) O (c_flows c)
  | None => []
  end.
Definition preds (P : program) (t : tid) : list tid := map (fun e => snd (fst e)) (pred_edges P t).
Definition succs (P : program) (t : tid) : list tid := map (fun e => snd (fst e)) (succ_edges P t).

(* ------------------------------------------------------- decidable equality *)
Fixpoint zlist_eqb (a b : list Z) : bool :=
  match a, b with
  | [], [] => true
  | x :: a', y :: b' => (x =? y) && zlist_eqb a' b'
  | _, _ => false
  end.
Definition tid_eqb (a b : tid) : bool := Nat.eqb (fst a) (fst b) && zlist_eqb (snd a) (snd b).
Definition mem (t : tid) (l : list tid) : bool := existsb (tid_eqb t) l.
Definition count (t : tid) (l : list tid) : nat := length (filter (tid_eqb t) l).
Fixpoint nodupb (l : list tid) : bool :=
  match l with [] => true | x :: r => negb (mem x r) && nodupb r end.

(* the edge (p -flow fp-> flow ft- t) seen from both ends *)
Definition edge_eqb (a b : edge) : bool :=
  Nat.eqb (fst (fst a)) (fst (fst b)) && tid_eqb (snd (fst a)) (snd (fst b)) && Nat.eqb (snd a) (snd b).
Definition ecount (e : edge) (l : list edge) : nat := length (filter (edge_eqb e) l).

(* ---------------------------------------------------------- well-formedness *)
(* topological order by Kahn's algorithm: repeatedly move the tasks all of whose
   predecessors are already placed.  Only the RESULT is checked (check_order). *)
Fixpoint kahn (P : program) (fuel : nat) (todo placed : list tid) : list tid :=
  match fuel with
  | O => placed
  | S k =>
      let ready := filter (fun t => forallb (fun p => mem p placed) (preds P t)) todo in
      match ready with
      | [] => placed
      | _ => kahn P k (filter (fun t => negb (mem t ready)) todo) (placed ++ ready)
      end
  end.
Definition topo_order (P : program) : list tid :=
  kahn P (S (length (instances P))) (instances P) [].
(* every task of the order has all its predecessors strictly before it *)
Fixpoint check_order (P : program) (seen order : list tid) : bool :=
  match order with
  | [] => true
  | t :: r => forallb (fun p => mem p seen) (preds P t) && check_order P (t :: seen) r
  end.

(* runtime limits of this build (parsec_config.h): MAX_LOCAL_COUNT 20, MAX_PARAM_COUNT 20,
   MAX_DEP_IN_COUNT 10, MAX_DEP_OUT_COUNT 10; mask mode needs flow_index < 29 *)
Definition dep_slots (d : dep) : nat := match d_else d with Some _ => 2%nat | None => 1%nat end.
Definition flow_limits (f : flow) : bool :=
  Nat.leb (list_sum (map (fun d => if d_in d then dep_slots d else O) (f_deps f))) 10
  && Nat.leb (list_sum (map (fun d => if d_in d then O else dep_slots d) (f_deps f))) 10.
Definition class_limits (c : tclass) : bool :=
  Nat.leb (length (c_locals c)) 20 && Nat.leb (length (c_flows c)) 20
  && forallb flow_limits (c_flows c)
  && forallb (fun i => Nat.ltb i (length (c_locals c))) (c_params c)
  (* every range is a parameter (ptgpp only warns; otherwise instances share their name) *)
  && forallb (fun il => match snd il with
                        | Lrange _ _ _ => existsb (Nat.eqb (fst il)) (c_params c)
                        | Ldef _ => true end)
             (combine (seq 0 (length (c_locals c))) (c_locals c)).

(* number of input dependencies of a data flow whose guard holds; must be exactly 1
   when the flow has input dependencies at all *)
Definition active_inputs (G L : list Z) (f : flow) : nat :=
  length (filter (fun d => d_in d && match dep_target G L d with Some _ => true | None => false end) (f_deps f)).
Definition has_inputs (f : flow) : bool := existsb d_in (f_deps f).
Definition data_inputs_ok (G L : list Z) (f : flow) : bool :=
  if is_ctl f then
    (* an active CTL input names at least one task: the generated startup test
       `if (guard) continue;` does not look at the range *)
    forallb (fun d => if d_in d then match dep_target G L d with
                                     | Some t => match t with
                                                 | Ttask _ _ _ => negb (Nat.eqb (length (target_tasks G L O t)) O)
                                                 | _ => false end
                                     | None => true end
                      else true) (f_deps f)
  else if has_inputs f then Nat.eqb (active_inputs G L f) 1 else true.

Definition task_ok (P : program) (ids : list tid) (t : tid) : bool :=
  match env_of P t with
  | None => false
  | Some (c, env) =>
      forallb (data_inputs_ok (p_globals P) env) (c_flows c)
      (* predecessors and successors are instances, and the two views of every edge agree *)
      && forallb (fun e => let '(ft, p, fp) := e in
                           mem p ids && Nat.eqb (ecount (fp, t, ft) (succ_edges P p)) (ecount e (pred_edges P t)))
                 (pred_edges P t)
      && forallb (fun e => let '(ft, s, fs) := e in
                           mem s ids && Nat.eqb (ecount (fs, t, ft) (pred_edges P s)) (ecount e (succ_edges P t)))
                 (succ_edges P t)
      (* the same with the flows forgotten: multiplicities of p -> t agree in succs p and preds t *)
      && forallb (fun p => mem p ids && Nat.eqb (count t (succs P p)) (count p (preds P t))) (preds P t)
      && forallb (fun s => mem s ids && Nat.eqb (count t (preds P s)) (count s (succs P t))) (succs P t)
  end.

Definition wf_program (P : program) : bool :=
  let ids := instances P in
  forallb class_limits (p_classes P)
  && nodupb ids
  && forallb (task_ok P ids) ids
  && (let o := topo_order P in
      Nat.eqb (length o) (length ids) && forallb (fun t => mem t o) ids && check_order P [] o).

(* "First match wins".  The runtime takes the FIRST input dependency of a data flow whose guard holds
   (parsec_check_IN_dependencies_with_mask/_with_counter stop scanning there; flow_preds above does the
   same), so the common idiom
        RW A <- (k > 0) ? X PROD(k)
             <- D(k)                     an unguarded (or overlapping) fallback that must be final
   is a valid program although two guards hold at once.  wf_first_match is wf_program with "exactly one
   active input per data flow" relaxed to "at least one"; everything else is unchanged.  The C01 theorems
   are proved for wf_first_match (PTGProofs.v), wf_program implies it. *)
Definition data_inputs_first (G L : list Z) (f : flow) : bool :=
  if is_ctl f then data_inputs_ok G L f
  else if has_inputs f then negb (Nat.eqb (active_inputs G L f) 0) else true.
Definition task_ok_first (P : program) (ids : list tid) (t : tid) : bool :=
  match env_of P t with
  | None => false
  | Some (c, env) =>
      forallb (data_inputs_first (p_globals P) env) (c_flows c)
      && forallb (fun e => let '(ft, p, fp) := e in
                           mem p ids && Nat.eqb (ecount (fp, t, ft) (succ_edges P p)) (ecount e (pred_edges P t)))
                 (pred_edges P t)
      && forallb (fun e => let '(ft, s, fs) := e in
                           mem s ids && Nat.eqb (ecount (fs, t, ft) (pred_edges P s)) (ecount e (succ_edges P t)))
                 (succ_edges P t)
      && forallb (fun p => mem p ids && Nat.eqb (count t (succs P p)) (count p (preds P t))) (preds P t)
      && forallb (fun s => mem s ids && Nat.eqb (count t (preds P s)) (count s (succs P t))) (succs P t)
  end.
Definition wf_first_match (P : program) : bool :=
  let ids := instances P in
  forallb class_limits (p_classes P)
  && nodupb ids
  && forallb (task_ok_first P ids) ids
  && (let o := topo_order P in
      Nat.eqb (length o) (length ids) && forallb (fun t => mem t o) ids && check_order P [] o).

(* ------------------------------------------------------------------- keys *)
(* C23.  jdf_generate_internal_init: for every parameter that is a range,
     int32 min = 0x7fffffff, max = 0;
     … at the loop header of the parameter, inside the loops of the earlier locals:
         min = imin(min, imin(lo, hi));  max = imax(max, imax(lo, hi));
     tp->C_p_min = min;  tp->C_p_range = max - min + 1;
   parameters that are not ranges get min = 0, range = 1.
   jdf_generate_hashfunction_for:  key = Σ ((uint64)v_i - min_i) * Π_{j<i} range_j  over the
   parameters in the order of the LOCALS;  key_print: v_i = key % range_i + min_i; key /= range_i. *)
Definition INT_MAX : Z := 2147483647.
Definition zmin (a b : Z) : Z := if a <=? b then a else b.
Definition zmax (a b : Z) : Z := if a >=? b then a else b.

(* (min, range) of the local at position pos, from the enumeration of the earlier locals *)
Definition minmax_at (G : list Z) (ls : list local) (pos : nat) : Z * Z :=
  match nth_error ls pos with
  | Some (Lrange lo hi _) =>
      let prefixes := enum G (firstn pos ls) [] in
      let mn := fold_left (fun m env => zmin m (zmin (eval G env lo) (eval G env hi))) prefixes INT_MAX in
      let mx := fold_left (fun m env => zmax m (zmax (eval G env lo) (eval G env hi))) prefixes 0 in
      (mn, mx - mn + 1)
  | _ => (0, 1)
  end.
Definition is_param (c : tclass) (pos : nat) : bool := existsb (Nat.eqb pos) (c_params c).

(* Horner form of Σ (v_i - min_i) Π_{j<i} range_j over the parameter locals from position pos on *)
Fixpoint key_from (G : list Z) (c : tclass) (env : list Z) (pos : nat) (n : nat) : Z :=
  match n with
  | O => 0
  | S k =>
      if is_param c pos
      then let '(mn, rg) := minmax_at G (c_locals c) pos in
           (nth pos env 0 - mn) + rg * key_from G c env (S pos) k
      else key_from G c env (S pos) k
  end.
Definition make_keyZ (G : list Z) (c : tclass) (env : list Z) : Z :=
  key_from G c env O (length (c_locals c)).
Definition two64 : Z := 18446744073709551616.
(* the uint64_t value the generated function returns *)
Definition make_key (G : list Z) (c : tclass) (env : list Z) : Z := (make_keyZ G c env) mod two64.

(* key_print: rebuilds the locals in order; returns the environment it computed *)
Fixpoint decode_from (G : list Z) (c : tclass) (ls : list local) (pos : nat) (key : Z) (env : list Z) : list Z :=
  match ls with
  | [] => env
  | l :: r =>
      if is_param c pos
      then let '(mn, rg) := minmax_at G (c_locals c) pos in
           decode_from G c r (S pos) (key / rg) (env ++ [key mod rg + mn])
      else match l with
           | Ldef e => decode_from G c r (S pos) key (env ++ [eval G env e])
           | Lrange _ _ _ => decode_from G c r (S pos) key (env ++ [0])
           end
  end.
Definition decode (G : list Z) (c : tclass) (key : Z) : list Z :=
  decode_from G c (c_locals c) O key [].
(* the values key_print shows: the parameters in the order of the LOCALS *)
Definition params_in_local_order (c : tclass) (env : list Z) : list Z :=
  map (fun i => nth i env 0) (filter (is_param c) (seq 0 (length (c_locals c)))).
Definition key_print (G : list Z) (c : tclass) (key : Z) : list Z :=
  params_in_local_order c (decode G c key).

(* The header of a task class may list the parameters in another order than they are defined
   (`T(m, n)` with n defined before m).  make_key and key_print work in DEFINITION order; the header
   order is a separate permutation: to_header_order rearranges a definition-order tuple of
   parameter values into the order of the header (what parsec_task_snprintf shows). *)
Definition param_positions (c : tclass) : list nat := filter (is_param c) (seq 0 (length (c_locals c))).
Definition to_header_order (c : tclass) (vals : list Z) : list Z :=
  map (fun i => match index_of i (param_positions c) with Some j => nth j vals 0 | None => 0 end) (c_params c).
