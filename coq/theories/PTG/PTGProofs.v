(* From wf_program to the hypotheses of the abstract engine, and the C01 theorems
   for every well-formed program and every schedule. *)
From Coq Require Import ZArith List Bool Arith Lia Permutation.
From PV Require Import Base.Tac PTG.PTGDefs PTG.Engine PTG.EngineProofs.
Import ListNotations.

(* ------------------------------------------------------- decidable equality *)
Definition tid_eq_dec : forall a b : tid, {a = b} + {a <> b}.
Proof. intros a b. decide equality; [apply (list_eq_dec Z.eq_dec)|apply Nat.eq_dec]. Defined.

Lemma zlist_eqb_spec a : forall b, zlist_eqb a b = true <-> a = b.
Proof.
  induction a as [|x a IH]; intros [|y b]; cbn [zlist_eqb]; split; intros H; try discriminate; try reflexivity.
  - apply andb_true_iff in H. destruct H as [H1 H2]. apply Z.eqb_eq in H1. apply IH in H2. congruence.
  - inversion H; subst. apply andb_true_iff. split; [apply Z.eqb_refl|apply IH; reflexivity].
Qed.

Lemma tid_eqb_spec (a b : tid) : tid_eqb a b = true <-> a = b.
Proof.
  destruct a as [ca pa], b as [cb pb]. unfold tid_eqb; cbn [fst snd]. rewrite andb_true_iff, Nat.eqb_eq, zlist_eqb_spec.
  split; [intros [-> ->]; reflexivity|intros H; inversion H; auto].
Qed.

Lemma mem_In t l : mem t l = true <-> In t l.
Proof.
  unfold mem. rewrite existsb_exists. split.
  - intros (x & Hx & He). apply tid_eqb_spec in He. subst; assumption.
  - intros H. exists t. split; [assumption|apply tid_eqb_spec; reflexivity].
Qed.

Lemma count_count_occ t l : count t l = count_occ tid_eq_dec l t.
Proof.
  unfold count. induction l as [|x l IH]; [reflexivity|].
  cbn [filter count_occ]. destruct (tid_eq_dec x t) as [->|Hne].
  - replace (tid_eqb t t) with true by (symmetry; apply tid_eqb_spec; reflexivity). cbn [length]. congruence.
  - destruct (tid_eqb t x) eqn:E; [apply tid_eqb_spec in E; congruence|exact IH].
Qed.

Lemma nodupb_NoDup l : nodupb l = true -> NoDup l.
Proof.
  induction l as [|x l IH]; cbn [nodupb]; intros H; [constructor|].
  apply andb_true_iff in H. destruct H as [H1 H2]. constructor; [|apply IH; assumption].
  intros Hin. apply mem_In in Hin. rewrite Hin in H1. discriminate.
Qed.

(* ------------------------------------------------------- topological order *)
Lemma check_order_prefix P : forall order seen, check_order P seen order = true ->
  forall l1 t l2, order = l1 ++ t :: l2 -> forall p, In p (preds P t) -> In p l1 \/ In p seen.
Proof.
  induction order as [|x order IH]; intros seen H l1 t l2 Hs p Hp; [destruct l1; discriminate|].
  cbn [check_order] in H. apply andb_true_iff in H. destruct H as [H1 H2].
  destruct l1 as [|y l1]; cbn [app] in Hs; inversion Hs; subst.
  - right. rewrite forallb_forall in H1. apply mem_In. apply H1. assumption.
  - destruct (IH (y :: seen) H2 l1 t l2 eq_refl p Hp) as [Hin|[Hin|Hin]].
    + left; right; assumption.
    + left; left; assumption.
    + right; assumption.
Qed.

Fixpoint findex (t : tid) (l : list tid) : nat :=
  match l with
  | [] => O
  | x :: r => if tid_eq_dec t x then O else S (findex t r)
  end.

Lemma findex_first t l1 l2 : ~ In t l1 -> findex t (l1 ++ t :: l2) = length l1.
Proof.
  induction l1 as [|x l1 IH]; intros Hn; cbn [app findex length].
  - destruct (tid_eq_dec t t); congruence.
  - destruct (tid_eq_dec t x) as [->|Hne]; [exfalso; apply Hn; left; reflexivity|].
    f_equal. apply IH. intros H; apply Hn; right; assumption.
Qed.

Lemma findex_lt p l1 l2 : In p l1 -> findex p (l1 ++ l2) < length l1.
Proof.
  induction l1 as [|x l1 IH]; intros Hin; [destruct Hin|].
  cbn [app findex length]. destruct (tid_eq_dec p x) as [->|Hne]; [lia|].
  destruct Hin as [Hin|Hin]; [congruence|]. specialize (IH Hin). lia.
Qed.

Lemma in_split_first (t : tid) l : In t l -> exists l1 l2, l = l1 ++ t :: l2 /\ ~ In t l1.
Proof.
  induction l as [|x l IH]; intros Hin; [destruct Hin|].
  destruct (tid_eq_dec x t) as [->|Hne].
  - exists [], l. split; [reflexivity|intros []].
  - destruct Hin as [Hin|Hin]; [congruence|].
    destruct (IH Hin) as (l1 & l2 & -> & Hn). exists (x :: l1), l2. split; [reflexivity|].
    intros [H|H]; [congruence|contradiction].
Qed.

(* --------------------------------------------------- wf_program, unpacked *)
Definition ptg_rank (P : program) (t : tid) : nat := findex t (topo_order P).

Lemma wf_unpack P : wf_program P = true ->
  NoDup (instances P)
  /\ (forall t, In t (instances P) -> forall p, In p (preds P t) ->
        In p (instances P) /\ count t (succs P p) = count p (preds P t))
  /\ (forall t, In t (instances P) -> forall s, In s (succs P t) ->
        In s (instances P) /\ count t (preds P s) = count s (succs P t))
  /\ (forall t p, In t (instances P) -> In p (preds P t) -> ptg_rank P p < ptg_rank P t).
Proof.
  unfold wf_program. intros H.
  repeat (apply andb_true_iff in H; destruct H as [H ?]).
  rename H2 into Hnd, H1 into Htask.
  apply andb_true_iff in H0. destruct H0 as [H0 Hord].
  apply andb_true_iff in H0. destruct H0 as [Hlen Hmem].
  assert (Htask' : forall t, In t (instances P) -> task_ok P (instances P) t = true)
    by (apply forallb_forall; assumption).
  split; [apply nodupb_NoDup; assumption|].
  split; [|split].
  - intros t Ht p Hp. specialize (Htask' t Ht). unfold task_ok in Htask'.
    destruct (env_of P t) as [[c env]|]; [|discriminate].
    repeat (apply andb_true_iff in Htask'; destruct Htask' as [Htask' ?]).
    rename H1 into Hpr.
    rewrite forallb_forall in Hpr. specialize (Hpr p Hp).
    apply andb_true_iff in Hpr. destruct Hpr as [Hm Hc].
    split; [apply mem_In; assumption|apply Nat.eqb_eq; assumption].
  - intros t Ht s Hs. specialize (Htask' t Ht). unfold task_ok in Htask'.
    destruct (env_of P t) as [[c env]|]; [|discriminate].
    repeat (apply andb_true_iff in Htask'; destruct Htask' as [Htask' ?]).
    rename H0 into Hsu.
    rewrite forallb_forall in Hsu. specialize (Hsu s Hs).
    apply andb_true_iff in Hsu. destruct Hsu as [Hm Hc].
    split; [apply mem_In; assumption|apply Nat.eqb_eq; assumption].
  - intros t p Ht Hp. unfold ptg_rank.
    rewrite forallb_forall in Hmem. specialize (Hmem t Ht). apply mem_In in Hmem.
    destruct (in_split_first t _ Hmem) as (l1 & l2 & Heq & Hn).
    destruct (check_order_prefix P _ [] Hord l1 t l2 Heq p Hp) as [Hin|[]].
    rewrite Heq. rewrite (findex_first t l1 l2 Hn). apply findex_lt. assumption.
Qed.

Lemma count_zero_notin (t : tid) l : ~ In t l -> count t l = 0.
Proof. intros H. rewrite count_count_occ. apply count_occ_not_In. assumption. Qed.
Lemma count_pos_in (t : tid) l : In t l -> 0 < count t l.
Proof. intros H. rewrite count_count_occ. apply count_occ_In. assumption. Qed.

(* the hypotheses of EngineProofs *)
Lemma wf_engine P : wf_program P = true ->
  NoDup (instances P)
  /\ (forall p t, In p (instances P) -> In t (instances P) ->
        count_occ tid_eq_dec (succs P p) t = count_occ tid_eq_dec (preds P t) p)
  /\ (forall p s, In p (instances P) -> In s (succs P p) -> In s (instances P))
  /\ (forall t p, In t (instances P) -> In p (preds P t) -> In p (instances P))
  /\ (forall t p, In t (instances P) -> In p (preds P t) -> ptg_rank P p < ptg_rank P t).
Proof.
  intros H. destruct (wf_unpack P H) as (Hnd & Hpr & Hsu & Hrk).
  split; [assumption|]. split; [|split; [|split]].
  - intros p t Hp Ht. rewrite <- !count_count_occ.
    destruct (in_dec tid_eq_dec p (preds P t)) as [Hin|Hnin].
    + apply (Hpr t Ht p Hin).
    + rewrite (count_zero_notin p _ Hnin).
      destruct (in_dec tid_eq_dec t (succs P p)) as [Hin2|Hnin2]; [|apply count_zero_notin; assumption].
      destruct (Hsu p Hp t Hin2) as [_ Hc]. rewrite (count_zero_notin p _ Hnin) in Hc.
      pose proof (count_pos_in t _ Hin2). lia.
  - intros p s Hp Hs. apply (Hsu p Hp s Hs).
  - intros t p Ht Hp. apply (Hpr t Ht p Hp).
  - assumption.
Qed.

(* ------------------------------------------------------------ C01 theorems *)
Definition ptg_run (P : program) (evs : list (event tid)) : state tid :=
  run tid tid_eq_dec (instances P) (preds P) (succs P) evs.
Definition executed (P : program) (evs : list (event tid)) : list tid :=
  begins tid (log tid (ptg_run P evs)).
Definition ptg_quiescent (P : program) (evs : list (event tid)) : Prop :=
  quiescent tid (instances P) (ptg_run P evs).

Theorem ptg_no_task_begins_twice P : wf_program P = true ->
  forall evs, NoDup (executed P evs).
Proof.
  intros H evs. destruct (wf_engine P H) as (Hnd & Hc & Hs & Hp & Hr).
  apply (no_task_begins_twice tid tid_eq_dec (instances P) (preds P) (succs P) Hc Hs).
Qed.

Theorem ptg_only_instances_run P : wf_program P = true ->
  forall evs t, In t (executed P evs) -> In t (instances P).
Proof.
  intros H evs t. destruct (wf_engine P H) as (Hnd & Hc & Hs & Hp & Hr).
  apply (only_tasks_begin tid tid_eq_dec (instances P) (preds P) (succs P) Hc Hs).
Qed.

Theorem ptg_begin_after_preds_ended P : wf_program P = true ->
  forall evs l1 l2 t, log tid (ptg_run P evs) = l2 ++ LBegin t :: l1 ->
  forall p, In p (preds P t) -> In (LEnd p) l1.
Proof.
  intros H evs. destruct (wf_engine P H) as (Hnd & Hc & Hs & Hp & Hr).
  apply (begin_after_preds_ended tid tid_eq_dec (instances P) (preds P) (succs P) Hc Hs).
Qed.

Theorem ptg_quiescent_all_done P : wf_program P = true ->
  forall evs, ptg_quiescent P evs -> forall t, In t (instances P) -> st tid (ptg_run P evs) t = Done.
Proof.
  intros H evs. destruct (wf_engine P H) as (Hnd & Hc & Hs & Hp & Hr).
  apply (quiescent_all_done tid tid_eq_dec (instances P) (preds P) (succs P) Hc Hs Hp (ptg_rank P) Hr).
Qed.

Theorem ptg_complete_run_once P : wf_program P = true ->
  forall evs, ptg_quiescent P evs -> Permutation (executed P evs) (instances P).
Proof.
  intros H evs. destruct (wf_engine P H) as (Hnd & Hc & Hs & Hp & Hr).
  intros Q. apply (quiescent_executed_once tid tid_eq_dec (instances P) (preds P) (succs P) Hc Hs Hp (ptg_rank P) Hr evs Hnd Q).
Qed.

Theorem ptg_progress P : wf_program P = true ->
  forall evs t, In t (instances P) -> st tid (ptg_run P evs) t <> Done ->
  exists u, In u (instances P) /\
    (st tid (ptg_run P evs) u = Ready \/ st tid (ptg_run P evs) u = Running \/ st tid (ptg_run P evs) u = Waiting 0).
Proof.
  intros H evs. destruct (wf_engine P H) as (Hnd & Hc & Hs & Hp & Hr).
  apply (not_all_done_enabled tid tid_eq_dec (instances P) (preds P) (succs P) Hc Hs Hp (ptg_rank P) Hr).
Qed.

(* ------------------------------------------- first match wins: wf_first_match *)
Lemma data_inputs_ok_first G L f : data_inputs_ok G L f = true -> data_inputs_first G L f = true.
Proof.
  unfold data_inputs_first, data_inputs_ok. destruct (is_ctl f); [auto|].
  destruct (has_inputs f); [|auto]. intros H. apply Nat.eqb_eq in H. rewrite H. reflexivity.
Qed.

Lemma task_ok_first_of P ids t : task_ok P ids t = true -> task_ok_first P ids t = true.
Proof.
  unfold task_ok, task_ok_first. destruct (env_of P t) as [[c env]|]; [|auto].
  intros H. repeat (apply andb_true_iff in H; destruct H as [H ?]).
  repeat (apply andb_true_iff; split); try assumption.
  rewrite forallb_forall in *. intros f Hf. apply data_inputs_ok_first. auto.
Qed.

Theorem wf_program_first_match P : wf_program P = true -> wf_first_match P = true.
Proof.
  unfold wf_program, wf_first_match. intros H.
  repeat (apply andb_true_iff in H; destruct H as [H ?]).
  repeat (apply andb_true_iff; split); try assumption.
  - rewrite forallb_forall in *. intros t Ht. apply task_ok_first_of. auto.
  - apply andb_true_iff in H0. destruct H0 as [H0 ?]. apply andb_true_iff in H0. destruct H0. assumption.
  - apply andb_true_iff in H0. destruct H0 as [H0 ?]. apply andb_true_iff in H0. destruct H0. assumption.
  - apply andb_true_iff in H0. destruct H0 as [H0 ?]. assumption.
Qed.

Lemma wf_first_unpack P : wf_first_match P = true ->
  NoDup (instances P)
  /\ (forall t, In t (instances P) -> forall p, In p (preds P t) ->
        In p (instances P) /\ count t (succs P p) = count p (preds P t))
  /\ (forall t, In t (instances P) -> forall s, In s (succs P t) ->
        In s (instances P) /\ count t (preds P s) = count s (succs P t))
  /\ (forall t p, In t (instances P) -> In p (preds P t) -> ptg_rank P p < ptg_rank P t).
Proof.
  unfold wf_first_match. intros H.
  repeat (apply andb_true_iff in H; destruct H as [H ?]).
  rename H2 into Hnd, H1 into Htask.
  apply andb_true_iff in H0. destruct H0 as [H0 Hord].
  apply andb_true_iff in H0. destruct H0 as [Hlen Hmem].
  assert (Htask' : forall t, In t (instances P) -> task_ok_first P (instances P) t = true)
    by (apply forallb_forall; assumption).
  split; [apply nodupb_NoDup; assumption|].
  split; [|split].
  - intros t Ht p Hp. specialize (Htask' t Ht). unfold task_ok_first in Htask'.
    destruct (env_of P t) as [[c env]|]; [|discriminate].
    repeat (apply andb_true_iff in Htask'; destruct Htask' as [Htask' ?]).
    rename H1 into Hpr.
    rewrite forallb_forall in Hpr. specialize (Hpr p Hp).
    apply andb_true_iff in Hpr. destruct Hpr as [Hm Hc].
    split; [apply mem_In; assumption|apply Nat.eqb_eq; assumption].
  - intros t Ht s Hs. specialize (Htask' t Ht). unfold task_ok_first in Htask'.
    destruct (env_of P t) as [[c env]|]; [|discriminate].
    repeat (apply andb_true_iff in Htask'; destruct Htask' as [Htask' ?]).
    rename H0 into Hsu.
    rewrite forallb_forall in Hsu. specialize (Hsu s Hs).
    apply andb_true_iff in Hsu. destruct Hsu as [Hm Hc].
    split; [apply mem_In; assumption|apply Nat.eqb_eq; assumption].
  - intros t p Ht Hp. unfold ptg_rank.
    rewrite forallb_forall in Hmem. specialize (Hmem t Ht). apply mem_In in Hmem.
    destruct (in_split_first t _ Hmem) as (l1 & l2 & Heq & Hn).
    destruct (check_order_prefix P _ [] Hord l1 t l2 Heq p Hp) as [Hin|[]].
    rewrite Heq. rewrite (findex_first t l1 l2 Hn). apply findex_lt. assumption.
Qed.

Lemma wf_first_engine P : wf_first_match P = true ->
  NoDup (instances P)
  /\ (forall p t, In p (instances P) -> In t (instances P) ->
        count_occ tid_eq_dec (succs P p) t = count_occ tid_eq_dec (preds P t) p)
  /\ (forall p s, In p (instances P) -> In s (succs P p) -> In s (instances P))
  /\ (forall t p, In t (instances P) -> In p (preds P t) -> In p (instances P))
  /\ (forall t p, In t (instances P) -> In p (preds P t) -> ptg_rank P p < ptg_rank P t).
Proof.
  intros H. destruct (wf_first_unpack P H) as (Hnd & Hpr & Hsu & Hrk).
  split; [assumption|]. split; [|split; [|split]].
  - intros p t Hp Ht. rewrite <- !count_count_occ.
    destruct (in_dec tid_eq_dec p (preds P t)) as [Hin|Hnin].
    + apply (Hpr t Ht p Hin).
    + rewrite (count_zero_notin p _ Hnin).
      destruct (in_dec tid_eq_dec t (succs P p)) as [Hin2|Hnin2]; [|apply count_zero_notin; assumption].
      destruct (Hsu p Hp t Hin2) as [_ Hc]. rewrite (count_zero_notin p _ Hnin) in Hc.
      pose proof (count_pos_in t _ Hin2). lia.
  - intros p s Hp Hs. apply (Hsu p Hp s Hs).
  - intros t p Ht Hp. apply (Hpr t Ht p Hp).
  - assumption.
Qed.

Theorem first_no_task_begins_twice P : wf_first_match P = true ->
  forall evs, NoDup (executed P evs).
Proof.
  intros H evs. destruct (wf_first_engine P H) as (Hnd & Hc & Hs & Hp & Hr).
  apply (no_task_begins_twice tid tid_eq_dec (instances P) (preds P) (succs P) Hc Hs).
Qed.

Theorem first_only_instances_run P : wf_first_match P = true ->
  forall evs t, In t (executed P evs) -> In t (instances P).
Proof.
  intros H evs t. destruct (wf_first_engine P H) as (Hnd & Hc & Hs & Hp & Hr).
  apply (only_tasks_begin tid tid_eq_dec (instances P) (preds P) (succs P) Hc Hs).
Qed.

Theorem first_begin_after_preds_ended P : wf_first_match P = true ->
  forall evs l1 l2 t, log tid (ptg_run P evs) = l2 ++ LBegin t :: l1 ->
  forall p, In p (preds P t) -> In (LEnd p) l1.
Proof.
  intros H evs. destruct (wf_first_engine P H) as (Hnd & Hc & Hs & Hp & Hr).
  apply (begin_after_preds_ended tid tid_eq_dec (instances P) (preds P) (succs P) Hc Hs).
Qed.

Theorem first_quiescent_all_done P : wf_first_match P = true ->
  forall evs, ptg_quiescent P evs -> forall t, In t (instances P) -> st tid (ptg_run P evs) t = Done.
Proof.
  intros H evs. destruct (wf_first_engine P H) as (Hnd & Hc & Hs & Hp & Hr).
  apply (quiescent_all_done tid tid_eq_dec (instances P) (preds P) (succs P) Hc Hs Hp (ptg_rank P) Hr).
Qed.

Theorem first_complete_run_once P : wf_first_match P = true ->
  forall evs, ptg_quiescent P evs -> Permutation (executed P evs) (instances P).
Proof.
  intros H evs. destruct (wf_first_engine P H) as (Hnd & Hc & Hs & Hp & Hr).
  intros Q. apply (quiescent_executed_once tid tid_eq_dec (instances P) (preds P) (succs P) Hc Hs Hp (ptg_rank P) Hr evs Hnd Q).
Qed.

Theorem first_progress P : wf_first_match P = true ->
  forall evs t, In t (instances P) -> st tid (ptg_run P evs) t <> Done ->
  exists u, In u (instances P) /\
    (st tid (ptg_run P evs) u = Ready \/ st tid (ptg_run P evs) u = Running \/ st tid (ptg_run P evs) u = Waiting 0).
Proof.
  intros H evs. destruct (wf_first_engine P H) as (Hnd & Hc & Hs & Hp & Hr).
  apply (not_all_done_enabled tid tid_eq_dec (instances P) (preds P) (succs P) Hc Hs Hp (ptg_rank P) Hr).
Qed.
