(* C23: the generated make_key is injective on the instances of a class and
   key_print inverts it (mixed radix over the min/range values of internal_init). *)
From Coq Require Import ZArith List Bool Arith Lia.
From PV Require Import Base.Tac PTG.PTGDefs.
Import ListNotations.
Local Open Scope Z_scope.

(* ------------------------------------------------------ execution space, as a predicate *)
(* suf continues the environment pre through the locals ls *)
Fixpoint sufok (G : list Z) (ls : list local) (pre suf : list Z) : Prop :=
  match ls, suf with
  | [], [] => True
  | Lrange lo hi st :: r, v :: s =>
      In v (zrange (eval G pre lo) (eval G pre hi) (eval G pre st)) /\ sufok G r (pre ++ [v]) s
  | Ldef e :: r, v :: s => v = eval G pre e /\ sufok G r (pre ++ [v]) s
  | _, _ => False
  end.

Lemma enum_spec G ls : forall pre env,
  In env (enum G ls pre) <-> exists suf, env = pre ++ suf /\ sufok G ls pre suf.
Proof.
  induction ls as [|l r IH]; intros pre env; cbn [enum].
  - split.
    + intros [<-|[]]. exists []. split; [rewrite app_nil_r; reflexivity|exact I].
    + intros (suf & -> & H). destruct suf; [|destruct H]. left. rewrite app_nil_r; reflexivity.
  - destruct l as [lo hi st|e].
    + rewrite in_flat_map. split.
      * intros (v & Hv & Hin). apply IH in Hin. destruct Hin as (s & -> & Hs).
        exists (v :: s). split; [rewrite <- app_assoc; reflexivity|]. cbn [sufok]. auto.
      * intros (suf & -> & H). destruct suf as [|v s]; [destruct H|]. cbn [sufok] in H. destruct H as [Hv Hs].
        exists v. split; [assumption|]. apply IH. exists s. split; [rewrite <- app_assoc; reflexivity|assumption].
    + rewrite IH. split.
      * intros (s & -> & Hs). exists (eval G pre e :: s). split; [rewrite <- app_assoc; reflexivity|].
        cbn [sufok]. auto.
      * intros (suf & -> & H). destruct suf as [|v s]; [destruct H|]. cbn [sufok] in H. destruct H as [-> Hs].
        exists s. split; [rewrite <- app_assoc; reflexivity|assumption].
Qed.

Lemma sufok_length G ls : forall pre suf, sufok G ls pre suf -> length suf = length ls.
Proof.
  induction ls as [|l r IH]; intros pre suf H; destruct suf as [|v s]; cbn [sufok] in H; try reflexivity;
    try (destruct l; contradiction); try contradiction.
  destruct l; destruct H as [_ H]; cbn [length]; f_equal; eapply IH; eassumption.
Qed.

Lemma sufok_app G l1 : forall l2 pre s1 s2,
  sufok G l1 pre s1 -> sufok G l2 (pre ++ s1) s2 -> sufok G (l1 ++ l2) pre (s1 ++ s2).
Proof.
  induction l1 as [|l r IH]; intros l2 pre s1 s2 H1 H2.
  - destruct s1; [|destruct H1]. rewrite app_nil_r in H2. exact H2.
  - destruct s1 as [|v s]; [destruct l; destruct H1|].
    cbn [app sufok]. destruct l; cbn [sufok] in H1; destruct H1 as [Ha Hb]; (split; [assumption|]);
      apply IH; [assumption| rewrite <- app_assoc; exact H2| assumption | rewrite <- app_assoc; exact H2].
Qed.

(* a valid prefix of length |l1| extended by one more valid value is a valid prefix *)
Lemma prefix_extend G l1 l pre v :
  In pre (enum G l1 []) -> sufok G [l] pre [v] -> In (pre ++ [v]) (enum G (l1 ++ [l]) []).
Proof.
  intros Hp Hv. apply enum_spec in Hp. destruct Hp as (s & Hs & Hok). cbn [app] in Hs. subst s.
  apply enum_spec. exists (pre ++ [v]). split; [reflexivity|].
  apply sufok_app; [assumption|exact Hv].
Qed.

Lemma prefix_length G l1 pre : In pre (enum G l1 []) -> length pre = length l1.
Proof.
  intros Hp. apply enum_spec in Hp. destruct Hp as (s & Hs & Hok). cbn [app] in Hs. subst s.
  eapply sufok_length; eassumption.
Qed.

(* ------------------------------------------------------------------ ranges *)
Lemma zrange_bounds lo hi st v : In v (zrange lo hi st) -> lo <= v <= hi.
Proof.
  unfold zrange. destruct ((st <=? 0) || (hi <? lo)) eqn:E; [intros []|].
  apply orb_false_iff in E. destruct E as [E1 E2].
  apply Z.leb_gt in E1. apply Z.ltb_ge in E2.
  intros H. apply in_map_iff in H. destruct H as (i & <- & Hi). apply in_seq in Hi.
  assert (Hq : 0 <= (hi - lo) / st) by (apply Z.div_pos; lia).
  assert (Hi' : Z.of_nat i <= (hi - lo) / st) by lia.
  assert (Hm : st * ((hi - lo) / st) <= hi - lo) by (apply Z.mul_div_le; lia).
  nia.
Qed.

Lemma fold_min_le {A} (f : A -> Z) l : forall a,
  fold_left (fun m x => zmin m (f x)) l a <= a
  /\ forall x, In x l -> fold_left (fun m x => zmin m (f x)) l a <= f x.
Proof.
  induction l as [|y l IH]; intros a; cbn [fold_left]; [split; [lia|intros x []]|].
  destruct (IH (zmin a (f y))) as [H1 H2].
  assert (Hz : zmin a (f y) <= a /\ zmin a (f y) <= f y) by (unfold zmin; destruct (a <=? f y) eqn:E; lia).
  split; [lia|]. intros x [<-|Hx]; [lia|apply H2; assumption].
Qed.

Lemma fold_max_ge {A} (f : A -> Z) l : forall a,
  a <= fold_left (fun m x => zmax m (f x)) l a
  /\ forall x, In x l -> f x <= fold_left (fun m x => zmax m (f x)) l a.
Proof.
  induction l as [|y l IH]; intros a; cbn [fold_left]; [split; [lia|intros x []]|].
  destruct (IH (zmax a (f y))) as [H1 H2].
  assert (Hz : a <= zmax a (f y) /\ f y <= zmax a (f y)) by (unfold zmax; destruct (a >=? f y) eqn:E; lia).
  split; [lia|]. intros x [<-|Hx]; [lia|apply H2; assumption].
Qed.

Lemma firstn_app_exact {A} (l1 l2 : list A) : firstn (length l1) (l1 ++ l2) = l1.
Proof. induction l1 as [|x l1 IH]; cbn; [destruct l2; reflexivity|f_equal; exact IH]. Qed.
Lemma nth_error_app_exact {A} (l1 : list A) x l2 : nth_error (l1 ++ x :: l2) (length l1) = Some x.
Proof. induction l1 as [|y l1 IH]; cbn; [reflexivity|exact IH]. Qed.
Lemma nth_app_exact (l1 : list Z) x l2 : nth (length l1) (l1 ++ x :: l2) 0 = x.
Proof. induction l1 as [|y l1 IH]; cbn; [reflexivity|exact IH]. Qed.

(* the min/range collected by internal_init enclose every value the parameter takes *)
Lemma minmax_range G l1 lo hi st l2 pre v :
  In pre (enum G l1 []) ->
  In v (zrange (eval G pre lo) (eval G pre hi) (eval G pre st)) ->
  let '(mn, rg) := minmax_at G (l1 ++ Lrange lo hi st :: l2) (length l1) in
  0 <= v - mn < rg.
Proof.
  intros Hp Hv. unfold minmax_at. rewrite nth_error_app_exact, firstn_app_exact.
  apply zrange_bounds in Hv.
  set (fmin := fun env => zmin (eval G env lo) (eval G env hi)).
  set (fmax := fun env => zmax (eval G env lo) (eval G env hi)).
  destruct (fold_min_le fmin (enum G l1 []) INT_MAX) as [_ Hmin].
  destruct (fold_max_ge fmax (enum G l1 []) 0) as [_ Hmax].
  specialize (Hmin pre Hp). specialize (Hmax pre Hp).
  change (fold_left (fun m env => zmin m (zmin (eval G env lo) (eval G env hi))) (enum G l1 []) INT_MAX)
    with (fold_left (fun m x => zmin m (fmin x)) (enum G l1 []) INT_MAX).
  change (fold_left (fun m env => zmax m (zmax (eval G env lo) (eval G env hi))) (enum G l1 []) 0)
    with (fold_left (fun m x => zmax m (fmax x)) (enum G l1 []) 0).
  assert (H1 : fmin pre <= eval G pre lo) by (unfold fmin, zmin; destruct (eval G pre lo <=? eval G pre hi) eqn:E; lia).
  assert (H2 : eval G pre hi <= fmax pre) by (unfold fmax, zmax; destruct (eval G pre lo >=? eval G pre hi) eqn:E; lia).
  lia.
Qed.

Lemma minmax_def G l1 e l2 : minmax_at G (l1 ++ Ldef e :: l2) (length l1) = (0, 1).
Proof. unfold minmax_at. rewrite nth_error_app_exact. reflexivity. Qed.

(* ------------------------------------------------------------ class conditions *)
(* every range is a parameter (part of wf_program's class_limits) *)
Definition ranges_are_params (c : tclass) : Prop :=
  forall pos lo hi st, nth_error (c_locals c) pos = Some (Lrange lo hi st) -> is_param c pos = true.
(* every parameter is a range (no parameter defined by `p = e`) *)
Definition params_are_ranges (c : tclass) : Prop :=
  forall pos e, nth_error (c_locals c) pos = Some (Ldef e) -> is_param c pos = false.

Lemma in_combine_seq {A} (ls : list A) : forall s pos x, nth_error ls pos = Some x ->
  In ((s + pos)%nat, x) (combine (seq s (length ls)) ls).
Proof.
  induction ls as [|l r IH]; intros s pos x Hn; [destruct pos; discriminate|].
  cbn [length seq combine]. destruct pos as [|pos]; cbn [nth_error] in Hn.
  - inversion Hn; subst. left. f_equal. lia.
  - right. replace (s + S pos)%nat with (S s + pos)%nat by lia. apply IH. assumption.
Qed.

Lemma class_limits_ranges c : class_limits c = true -> ranges_are_params c.
Proof.
  unfold class_limits. intros H. apply andb_true_iff in H. destruct H as [_ H].
  intros pos lo hi st Hn. rewrite forallb_forall in H.
  specialize (H (pos, Lrange lo hi st)). cbn [fst snd] in H.
  unfold is_param. apply H.
  apply (in_combine_seq (c_locals c) 0 pos _ Hn).
Qed.

(* ------------------------------------------------------------- injectivity *)
Lemma radix_unique rg d1 k1 d2 k2 :
  0 <= d1 < rg -> 0 <= d2 < rg -> d1 + rg * k1 = d2 + rg * k2 -> d1 = d2 /\ k1 = k2.
Proof.
  intros H1 H2 He.
  assert (k1 = k2) by nia. subst. split; lia.
Qed.

Lemma key_inj_from G c : ranges_are_params c ->
  forall l2 l1 pre s1 s2, c_locals c = l1 ++ l2 -> In pre (enum G l1 []) ->
    sufok G l2 pre s1 -> sufok G l2 pre s2 ->
    key_from G c (pre ++ s1) (length l1) (length l2) = key_from G c (pre ++ s2) (length l1) (length l2) ->
    s1 = s2.
Proof.
  intros Hrp. induction l2 as [|l l2 IH]; intros l1 pre s1 s2 Hc Hp H1 H2 Hk.
  - destruct s1; [|destruct H1]. destruct s2; [|destruct H2]. reflexivity.
  - destruct s1 as [|v1 s1]; [destruct l; destruct H1|].
    destruct s2 as [|v2 s2]; [destruct l; destruct H2|].
    pose proof (prefix_length G l1 pre Hp) as Hlen.
    cbn [length key_from] in Hk.
    assert (Hn1 : nth (length l1) (pre ++ v1 :: s1) 0 = v1) by (rewrite <- Hlen; apply nth_app_exact).
    assert (Hn2 : nth (length l1) (pre ++ v2 :: s2) 0 = v2) by (rewrite <- Hlen; apply nth_app_exact).
    rewrite Hn1, Hn2 in Hk.
    assert (Hc' : c_locals c = (l1 ++ [l]) ++ l2) by (rewrite <- app_assoc; exact Hc).
    assert (Hl' : length (l1 ++ [l]) = S (length l1)) by (rewrite app_length; cbn; lia).
    destruct l as [lo hi st|e]; cbn [sufok] in H1, H2; destruct H1 as [Hv1 Hs1]; destruct H2 as [Hv2 Hs2].
    + (* a range: it is a parameter; its digit lies in [0, range) *)
      assert (Hip : is_param c (length l1) = true).
      { apply (Hrp (length l1) lo hi st). rewrite Hc. apply nth_error_app_exact. }
      rewrite Hip in Hk.
      pose proof (minmax_range G l1 lo hi st l2 pre v1 Hp Hv1) as Hb1.
      pose proof (minmax_range G l1 lo hi st l2 pre v2 Hp Hv2) as Hb2.
      rewrite <- Hc in Hb1, Hb2.
      destruct (minmax_at G (c_locals c) (length l1)) as [mn rg].
      destruct (radix_unique rg _ _ _ _ Hb1 Hb2 Hk) as [Hd Hr].
      assert (v1 = v2) by lia. subst v2. f_equal.
      apply (IH (l1 ++ [Lrange lo hi st]) (pre ++ [v1]) s1 s2 Hc').
      * apply prefix_extend; [assumption|]. cbn [sufok]. auto.
      * assumption.
      * assumption.
      * rewrite Hl', <- !app_assoc. cbn [app]. exact Hr.
    + subst v1 v2. f_equal.
      apply (IH (l1 ++ [Ldef e]) (pre ++ [eval G pre e]) s1 s2 Hc').
      * apply prefix_extend; [assumption|]. cbn [sufok]. auto.
      * assumption.
      * assumption.
      * rewrite Hl', <- !app_assoc. cbn [app].
        destruct (is_param c (length l1)); [|exact Hk].
        assert (Hmm : minmax_at G (c_locals c) (length l1) = (0, 1)) by (rewrite Hc; apply minmax_def).
        rewrite Hmm in Hk. lia.
Qed.

(* two instances of a class with the same (unbounded) key are the same instance *)
Theorem keyZ_injective G c : ranges_are_params c ->
  forall e1 e2, In e1 (instances_of G c) -> In e2 (instances_of G c) ->
    make_keyZ G c e1 = make_keyZ G c e2 -> e1 = e2.
Proof.
  intros Hrp e1 e2 H1 H2 Hk. unfold instances_of in H1, H2.
  apply enum_spec in H1. apply enum_spec in H2.
  destruct H1 as (s1 & -> & Hs1). destruct H2 as (s2 & -> & Hs2). cbn [app].
  apply (key_inj_from G c Hrp (c_locals c) [] [] s1 s2 eq_refl); [left; reflexivity|assumption|assumption|].
  exact Hk.
Qed.

(* ------------------------------------------------- bounds: the no-overflow hypothesis *)
Fixpoint range_prod_from (G : list Z) (c : tclass) (pos n : nat) : Z :=
  match n with
  | O => 1
  | S k => if is_param c pos
           then snd (minmax_at G (c_locals c) pos) * range_prod_from G c (S pos) k
           else range_prod_from G c (S pos) k
  end.
(* Π range_i over the parameters *)
Definition range_product (G : list Z) (c : tclass) : Z := range_prod_from G c O (length (c_locals c)).

Lemma key_bound_from G c : ranges_are_params c -> params_are_ranges c ->
  forall l2 l1 pre s, c_locals c = l1 ++ l2 -> In pre (enum G l1 []) -> sufok G l2 pre s ->
    0 <= key_from G c (pre ++ s) (length l1) (length l2) < range_prod_from G c (length l1) (length l2).
Proof.
  intros Hrp Hpr. induction l2 as [|l l2 IH]; intros l1 pre s Hc Hp Hs.
  - cbn. lia.
  - destruct s as [|v s]; [destruct l; destruct Hs|].
    pose proof (prefix_length G l1 pre Hp) as Hlen.
    cbn [length key_from range_prod_from].
    assert (Hn : nth (length l1) (pre ++ v :: s) 0 = v) by (rewrite <- Hlen; apply nth_app_exact).
    rewrite Hn.
    assert (Hc' : c_locals c = (l1 ++ [l]) ++ l2) by (rewrite <- app_assoc; exact Hc).
    assert (Hl' : length (l1 ++ [l]) = S (length l1)) by (rewrite app_length; cbn; lia).
    destruct l as [lo hi st|e]; cbn [sufok] in Hs; destruct Hs as [Hv Hs].
    + assert (Hip : is_param c (length l1) = true).
      { apply (Hrp (length l1) lo hi st). rewrite Hc. apply nth_error_app_exact. }
      rewrite Hip.
      pose proof (minmax_range G l1 lo hi st l2 pre v Hp Hv) as Hb. rewrite <- Hc in Hb.
      destruct (minmax_at G (c_locals c) (length l1)) as [mn rg]. cbn [snd].
      assert (Hp' : In (pre ++ [v]) (enum G (l1 ++ [Lrange lo hi st]) []))
        by (apply prefix_extend; [assumption|cbn [sufok]; auto]).
      specialize (IH (l1 ++ [Lrange lo hi st]) (pre ++ [v]) s Hc' Hp' Hs).
      rewrite Hl', <- app_assoc in IH. cbn [app] in IH. nia.
    + assert (Hip : is_param c (length l1) = false).
      { apply (Hpr (length l1) e). rewrite Hc. apply nth_error_app_exact. }
      rewrite Hip.
      assert (Hp' : In (pre ++ [v]) (enum G (l1 ++ [Ldef e]) []))
        by (apply prefix_extend; [assumption|cbn [sufok]; auto]).
      specialize (IH (l1 ++ [Ldef e]) (pre ++ [v]) s Hc' Hp' Hs).
      rewrite Hl', <- app_assoc in IH. exact IH.
Qed.

Theorem keyZ_bound G c : ranges_are_params c -> params_are_ranges c ->
  forall e, In e (instances_of G c) -> 0 <= make_keyZ G c e < range_product G c.
Proof.
  intros Hrp Hpr e He. unfold instances_of in He. apply enum_spec in He. destruct He as (s & -> & Hs).
  cbn [app]. apply (key_bound_from G c Hrp Hpr (c_locals c) [] [] s eq_refl); [left; reflexivity|assumption].
Qed.

(* the uint64 key, under the no-overflow hypothesis *)
Theorem make_key_injective G c : ranges_are_params c -> params_are_ranges c ->
  range_product G c <= two64 ->
  forall e1 e2, In e1 (instances_of G c) -> In e2 (instances_of G c) ->
    make_key G c e1 = make_key G c e2 -> e1 = e2.
Proof.
  intros Hrp Hpr Hov e1 e2 H1 H2 Hk.
  pose proof (keyZ_bound G c Hrp Hpr e1 H1) as B1. pose proof (keyZ_bound G c Hrp Hpr e2 H2) as B2.
  unfold make_key in Hk. rewrite !Z.mod_small in Hk by lia.
  apply (keyZ_injective G c Hrp e1 e2 H1 H2 Hk).
Qed.

(* ------------------------------------------------------------------ decoding *)
Lemma decode_from_spec G c : ranges_are_params c -> params_are_ranges c ->
  forall l2 l1 pre s, c_locals c = l1 ++ l2 -> In pre (enum G l1 []) -> sufok G l2 pre s ->
    decode_from G c l2 (length l1) (key_from G c (pre ++ s) (length l1) (length l2)) pre = pre ++ s.
Proof.
  intros Hrp Hpr. induction l2 as [|l l2 IH]; intros l1 pre s Hc Hp Hs.
  - destruct s; [|destruct Hs]. cbn. rewrite app_nil_r. reflexivity.
  - destruct s as [|v s]; [destruct l; destruct Hs|].
    pose proof (prefix_length G l1 pre Hp) as Hlen.
    cbn [length key_from decode_from].
    assert (Hn : nth (length l1) (pre ++ v :: s) 0 = v) by (rewrite <- Hlen; apply nth_app_exact).
    rewrite Hn.
    assert (Hc' : c_locals c = (l1 ++ [l]) ++ l2) by (rewrite <- app_assoc; exact Hc).
    assert (Hl' : length (l1 ++ [l]) = S (length l1)) by (rewrite app_length; cbn; lia).
    destruct l as [lo hi st|e]; cbn [sufok] in Hs; destruct Hs as [Hv Hs].
    + assert (Hip : is_param c (length l1) = true).
      { apply (Hrp (length l1) lo hi st). rewrite Hc. apply nth_error_app_exact. }
      rewrite Hip.
      pose proof (minmax_range G l1 lo hi st l2 pre v Hp Hv) as Hb. rewrite <- Hc in Hb.
      destruct (minmax_at G (c_locals c) (length l1)) as [mn rg].
      assert (Hp' : In (pre ++ [v]) (enum G (l1 ++ [Lrange lo hi st]) []))
        by (apply prefix_extend; [assumption|cbn [sufok]; auto]).
      specialize (IH (l1 ++ [Lrange lo hi st]) (pre ++ [v]) s Hc' Hp' Hs).
      rewrite Hl', <- app_assoc in IH. cbn [app] in IH.
      set (K := key_from G c (pre ++ v :: s) (S (length l1)) (length l2)) in *.
      assert (Hm : (v - mn + rg * K) mod rg = v - mn).
      { rewrite Z.mul_comm, Z.mod_add by lia. apply Z.mod_small. lia. }
      assert (Hd : (v - mn + rg * K) / rg = K).
      { rewrite Z.mul_comm, Z.div_add by lia. rewrite Z.div_small by lia. lia. }
      rewrite Hm, Hd. replace (v - mn + mn) with v by lia. exact IH.
    + assert (Hip : is_param c (length l1) = false).
      { apply (Hpr (length l1) e). rewrite Hc. apply nth_error_app_exact. }
      rewrite Hip. subst v.
      assert (Hp' : In (pre ++ [eval G pre e]) (enum G (l1 ++ [Ldef e]) []))
        by (apply prefix_extend; [assumption|cbn [sufok]; auto]).
      specialize (IH (l1 ++ [Ldef e]) (pre ++ [eval G pre e]) s Hc' Hp' Hs).
      rewrite Hl', <- app_assoc in IH. exact IH.
Qed.

(* key_print's inversion rebuilds the whole environment of the instance *)
Theorem decode_make_key G c : ranges_are_params c -> params_are_ranges c ->
  range_product G c <= two64 ->
  forall e, In e (instances_of G c) -> decode G c (make_key G c e) = e.
Proof.
  intros Hrp Hpr Hov e He.
  pose proof (keyZ_bound G c Hrp Hpr e He) as B.
  unfold make_key. rewrite Z.mod_small by lia.
  unfold instances_of in He. apply enum_spec in He. destruct He as (s & -> & Hs). cbn [app].
  apply (decode_from_spec G c Hrp Hpr (c_locals c) [] [] s eq_refl); [left; reflexivity|assumption].
Qed.

Theorem key_print_names_instance G c : ranges_are_params c -> params_are_ranges c ->
  range_product G c <= two64 ->
  forall e, In e (instances_of G c) ->
    key_print G c (make_key G c e) = params_in_local_order c e.
Proof.
  intros Hrp Hpr Hov e He. unfold key_print. rewrite (decode_make_key G c Hrp Hpr Hov e He). reflexivity.
Qed.

(* ------------------------------------------------ instances and their identifiers *)
(* the parameters determine the instance: different parameter tuples have different keys *)
Lemma wf_class_ranges P ci c : wf_program P = true -> nth_class P ci = Some c -> ranges_are_params c.
Proof.
  unfold wf_program. intros H Hc.
  repeat (apply andb_true_iff in H; destruct H as [H ?]).
  apply class_limits_ranges. rewrite forallb_forall in H. apply H.
  unfold nth_class in Hc. eapply nth_error_In; eassumption.
Qed.

(* ------------------------------------------------ header order as a permutation *)
Lemma index_of_nth x l : In x l -> exists j, index_of x l = Some j /\ nth j l O = x /\ (j < length l)%nat.
Proof.
  induction l as [|y l IH]; intros Hin; [destruct Hin|].
  cbn [index_of]. destruct (Nat.eqb x y) eqn:E.
  - apply Nat.eqb_eq in E. subst. exists O. cbn. repeat split; lia.
  - destruct Hin as [->|Hin]; [rewrite Nat.eqb_refl in E; discriminate|].
    destruct (IH Hin) as (j & -> & Hn & Hl). exists (S j). cbn. repeat split; [assumption|lia].
Qed.

Lemma class_limits_params_lt c : class_limits c = true -> forall i, In i (c_params c) -> (i < length (c_locals c))%nat.
Proof.
  unfold class_limits. intros H. apply andb_true_iff in H. destruct H as [H _].
  apply andb_true_iff in H. destruct H as [_ H]. rewrite forallb_forall in H.
  intros i Hi. apply Nat.ltb_lt. apply H. assumption.
Qed.

(* whatever permutation of the definition order the header is: rearranging the definition-order values
   gives the header-order parameters of the instance *)
Theorem to_header_order_params c : class_limits c = true ->
  forall e, to_header_order c (params_in_local_order c e) = params_of c e.
Proof.
  intros Hl e. unfold to_header_order, params_of, params_in_local_order. apply map_ext_in. intros i Hi.
  assert (Hin : In i (param_positions c)).
  { unfold param_positions. apply filter_In. split.
    - apply in_seq. pose proof (class_limits_params_lt c Hl i Hi). lia.
    - unfold is_param. apply existsb_exists. exists i. split; [assumption|apply Nat.eqb_refl]. }
  destruct (index_of_nth i _ Hin) as (j & -> & Hn & Hj).
  fold (param_positions c).
  rewrite (nth_indep _ 0 (nth O e 0)) by (rewrite map_length; assumption).
  rewrite (map_nth (fun i => nth i e 0) (param_positions c) O j). rewrite Hn. reflexivity.
Qed.

Theorem key_print_header_view G c : class_limits c = true -> params_are_ranges c ->
  range_product G c <= two64 ->
  forall e, In e (instances_of G c) ->
    to_header_order c (key_print G c (make_key G c e)) = params_of c e.
Proof.
  intros Hl Hpr Hov e He.
  rewrite (key_print_names_instance G c (class_limits_ranges c Hl) Hpr Hov e He).
  apply to_header_order_params. assumption.
Qed.

Lemma wf_class_limits P ci c : wf_program P = true -> nth_class P ci = Some c -> class_limits c = true.
Proof.
  unfold wf_program. intros H Hc.
  repeat (apply andb_true_iff in H; destruct H as [H ?]).
  rewrite forallb_forall in H. apply H. unfold nth_class in Hc. eapply nth_error_In; eassumption.
Qed.
