(* Invariant proofs for the abstract dataflow engine (Engine.v), for EVERY schedule. *)
From Coq Require Import List Arith Lia Permutation.
From PV Require Import Base.Tac PTG.Engine.
Import ListNotations.

Section EngineProofs.
  Variable task : Type.
  Variable teq : forall a b : task, {a = b} + {a <> b}.
  Variable tasks : list task.
  Variable preds succs : task -> list task.

  (* the finite DAG *)
  Hypothesis H_conv : forall p t, In p tasks -> In t tasks ->
                                  count_occ teq (succs p) t = count_occ teq (preds t) p.
  Hypothesis H_succ_in : forall p s, In p tasks -> In s (succs p) -> In s tasks.
  Hypothesis H_pred_in : forall t p, In t tasks -> In p (preds t) -> In p tasks.
  Variable rank : task -> nat.
  Hypothesis H_rank : forall t p, In t tasks -> In p (preds t) -> rank p < rank t.

  Local Notation State := (state task).
  Local Notation stepE := (step task teq tasks succs).
  Local Notation initE := (init task teq tasks preds).
  Local Notation runE := (run task teq tasks preds succs).
  Local Notation updE := (upd task teq).
  Local Notation releaseE := (release task teq).
  Local Notation start_oneE := (start_one task teq).
  Local Notation beginsE := (begins task).
  Local Notation endsE := (ends task).

  Definition isdone (s : status) : bool := match s with Done => true | _ => false end.
  Definition pending (f : task -> status) (t : task) : nat :=
    length (filter (fun p => negb (isdone (f p))) (preds t)).

  Record Inv (s : State) : Prop := {
    inv_absent : forall t, ~ In t tasks -> st task s t = Absent;
    inv_present : forall t, In t tasks -> st task s t <> Absent;
    inv_count : forall t, In t tasks ->
                          match st task s t with
                          | Waiting n => n = pending (st task s) t
                          | _ => pending (st task s) t = 0
                          end;
    inv_begins : forall t, count_occ teq (beginsE (log task s)) t
                           = match st task s t with Running | Done => 1 | _ => 0 end;
    inv_ends : forall t, count_occ teq (endsE (log task s)) t
                         = match st task s t with Done => 1 | _ => 0 end;
    inv_order : forall l1 l2 t, log task s = l2 ++ LBegin t :: l1 ->
                                forall p, In p (preds t) -> In (LEnd p) l1
  }.

  (* ------------------------------------------------------------ basic lemmas *)
  Lemma upd_same f t v : updE f t v t = v.
  Proof. unfold upd. destruct (teq t t); congruence. Qed.
  Lemma upd_other f t v x : x <> t -> updE f t v x = f x.
  Proof. unfold upd. destruct (teq x t); congruence. Qed.

  Lemma iter_S {A} (f : A -> A) n x : Nat.iter (S n) f x = f (Nat.iter n f x).
  Proof. reflexivity. Qed.
  Lemma iter_0 {A} (f : A -> A) x : Nat.iter 0 f x = x.
  Proof. reflexivity. Qed.

  Lemma isdone_rel1 s : isdone (rel1 s) = isdone s.
  Proof. destruct s as [|[|[|n]]| | |]; reflexivity. Qed.
  Lemma isdone_start1 s : isdone (start1 s) = isdone s.
  Proof. destruct s as [|[|n]| | |]; reflexivity. Qed.
  Lemma isdone_iter k s : isdone (Nat.iter k rel1 s) = isdone s.
  Proof. induction k as [|k IH]; [reflexivity|]. rewrite iter_S, isdone_rel1. exact IH. Qed.

  Lemma iter_succ_r {A} (f : A -> A) n : forall x, Nat.iter (S n) f x = Nat.iter n f (f x).
  Proof.
    induction n as [|n IH]; intros x; [reflexivity|].
    rewrite (iter_S f (S n)), IH. reflexivity.
  Qed.

  Lemma fold_release l : forall f x,
      fold_left releaseE l f x = Nat.iter (count_occ teq l x) rel1 (f x).
  Proof.
    induction l as [|a l IH]; intros f x; cbn [fold_left count_occ]; [reflexivity|].
    rewrite IH. unfold release.
    destruct (teq a x) as [->|Hne].
    - rewrite upd_same. rewrite iter_succ_r. reflexivity.
    - rewrite upd_other by congruence. reflexivity.
  Qed.

  Lemma iter_rel1_fixed k s :
    (forall n, s <> Waiting n) -> Nat.iter k rel1 s = s.
  Proof.
    intros Hs. induction k as [|k IH]; [reflexivity|].
    rewrite iter_S, IH. destruct s as [|n| | |]; try reflexivity. exfalso; eapply Hs; reflexivity.
  Qed.

  Lemma iter_rel1_waiting k : forall n, 0 < k -> k <= n ->
      Nat.iter k rel1 (Waiting n) = if Nat.eqb n k then Ready else Waiting (n - k).
  Proof.
    induction k as [|k IH]; intros n Hk Hn; [lia|].
    rewrite iter_S.
    destruct k as [|k].
    - rewrite iter_0. destruct n as [|[|n]]; [lia| reflexivity|].
      cbn [rel1 Nat.eqb]. f_equal; lia.
    - rewrite IH by lia.
      destruct (Nat.eqb n (S k)) eqn:E1; [apply Nat.eqb_eq in E1; lia|].
      apply Nat.eqb_neq in E1.
      destruct (Nat.eqb n (S (S k))) eqn:E2.
      + apply Nat.eqb_eq in E2. replace (n - S k) with 1 by lia. reflexivity.
      + apply Nat.eqb_neq in E2.
        destruct (n - S k) as [|[|m]] eqn:E3; [lia|lia|].
        cbn [rel1]. f_equal; lia.
  Qed.

  Lemma fold_start l : forall f x,
      fold_left start_oneE l f x = if in_dec teq x l then start1 (f x) else f x.
  Proof.
    induction l as [|a l IH]; intros f x; cbn [fold_left]; [reflexivity|].
    rewrite IH. unfold start_one.
    destruct (teq x a) as [->|Hne].
    - rewrite upd_same.
      destruct (in_dec teq a (a :: l)) as [_|Hn]; [|exfalso; apply Hn; left; reflexivity].
      destruct (in_dec teq a l); [|reflexivity].
      destruct (f a) as [|[|n]| | |]; reflexivity.
    - rewrite upd_other by assumption.
      destruct (in_dec teq x l) as [Hi|Hi]; destruct (in_dec teq x (a :: l)) as [Hj|Hj]; try reflexivity.
      + exfalso; apply Hj; right; assumption.
      + exfalso. destruct Hj as [Hj|Hj]; [congruence|contradiction].
  Qed.

  Lemma pending_ext f g t : (forall p, isdone (f p) = isdone (g p)) -> pending f t = pending g t.
  Proof.
    intros H. unfold pending. f_equal. apply filter_ext. intros p. rewrite H. reflexivity.
  Qed.

  (* when t (not done so far) becomes Done, the pending count of x drops by the
     number of occurrences of t among the predecessors of x *)
  Lemma filter_done_drop f t l : isdone (f t) = false ->
      length (filter (fun p => negb (isdone (updE f t Done p))) l) + count_occ teq l t
      = length (filter (fun p => negb (isdone (f p))) l).
  Proof.
    intros Ht. induction l as [|a l IH]; cbn [filter count_occ length]; [reflexivity|].
    destruct (teq a t) as [->|Hne].
    - rewrite upd_same, Ht. cbn [isdone negb length]. lia.
    - rewrite upd_other by assumption.
      destruct (negb (isdone (f a))); cbn [length]; lia.
  Qed.

  Lemma count_le_pending f t x : isdone (f t) = false -> count_occ teq (preds x) t <= pending f x.
  Proof. intros Ht. unfold pending. pose proof (filter_done_drop f t (preds x) Ht). lia. Qed.

  Lemma count_begins_cons_b t l x :
    count_occ teq (beginsE (LBegin t :: l)) x = (if teq t x then 1 else 0) + count_occ teq (beginsE l) x.
  Proof. cbn [begins flat_map app count_occ]. destruct (teq t x); reflexivity. Qed.
  Lemma count_begins_cons_e t l x :
    count_occ teq (beginsE (LEnd t :: l)) x = count_occ teq (beginsE l) x.
  Proof. reflexivity. Qed.
  Lemma count_ends_cons_e t l x :
    count_occ teq (endsE (LEnd t :: l)) x = (if teq t x then 1 else 0) + count_occ teq (endsE l) x.
  Proof. cbn [ends flat_map app count_occ]. destruct (teq t x); reflexivity. Qed.
  Lemma count_ends_cons_b t l x :
    count_occ teq (endsE (LBegin t :: l)) x = count_occ teq (endsE l) x.
  Proof. reflexivity. Qed.

  Lemma in_ends l p : In p (endsE l) <-> In (LEnd p) l.
  Proof.
    induction l as [|e l IH]; [cbn; tauto|].
    destruct e as [t|t]; cbn [ends flat_map app In].
    - rewrite IH. split; [tauto|]. intros [H|H]; [discriminate|assumption].
    - fold (endsE l). rewrite IH. split; intros [H|H]; auto; left; congruence.
  Qed.

  (* ------------------------------------------------------------ the invariant *)
  Lemma Inv_init : Inv initE.
  Proof.
    split; cbn [init st log]; intros.
    - destruct (in_dec teq t tasks); [contradiction|reflexivity].
    - destruct (in_dec teq t tasks); [discriminate|contradiction].
    - destruct (in_dec teq t tasks); [|contradiction].
      unfold pending. f_equal. symmetry.
      rewrite <- (filter_ext (fun _ => true)) at 1.
      + clear. induction (preds t) as [|a l IH]; cbn; congruence.
      + intros p. destruct (in_dec teq p tasks); reflexivity.
    - cbn. destruct (in_dec teq t tasks); reflexivity.
    - cbn. destruct (in_dec teq t tasks); reflexivity.
    - destruct l2; discriminate.
  Qed.

  (* a step that changes the status of tasks without touching Done-ness and keeps the log *)
  Lemma Inv_startish (s : State) (g : task -> status) :
    Inv s ->
    (forall x, g x = st task s x \/ (st task s x = Waiting 0 /\ g x = Ready)) ->
    Inv {| st := g; log := log task s |}.
  Proof.
    intros I Hg.
    assert (Hd : forall p, isdone (g p) = isdone (st task s p)).
    { intros p. destruct (Hg p) as [->|[H1 H2]]; [reflexivity|]. rewrite H1, H2. reflexivity. }
    split; cbn [st log].
    - intros t Ht. destruct (Hg t) as [->|[H1 _]]; [apply (inv_absent s I t Ht)|].
      rewrite (inv_absent s I t Ht) in H1. discriminate.
    - intros t Ht. destruct (Hg t) as [->|[_ H2]]; [apply (inv_present s I t Ht)|]. rewrite H2; discriminate.
    - intros t Ht. rewrite (pending_ext g (st task s) t Hd).
      pose proof (inv_count s I t Ht) as Hc.
      destruct (Hg t) as [->|[H1 H2]]; [exact Hc|].
      rewrite H1 in Hc. rewrite H2. symmetry; exact Hc.
    - intros t. rewrite (inv_begins s I t).
      destruct (Hg t) as [->|[H1 H2]]; [reflexivity|]. rewrite H1, H2. reflexivity.
    - intros t. rewrite (inv_ends s I t).
      destruct (Hg t) as [->|[H1 H2]]; [reflexivity|]. rewrite H1, H2. reflexivity.
    - apply (inv_order s I).
  Qed.

  Lemma done_in_ends (s : State) p : Inv s -> st task s p = Done -> In (LEnd p) (log task s).
  Proof.
    intros I Hp. apply in_ends. pose proof (inv_ends s I p) as H. rewrite Hp in H.
    apply (count_occ_In teq). lia.
  Qed.

  Lemma pending_zero_all_done f t : pending f t = 0 -> forall p, In p (preds t) -> f p = Done.
  Proof.
    unfold pending. intros H p Hp.
    destruct (isdone (f p)) eqn:E; [destruct (f p); try discriminate; reflexivity|].
    exfalso.
    assert (Hin : In p (filter (fun p => negb (isdone (f p))) (preds t))).
    { apply filter_In. split; [assumption|]. rewrite E. reflexivity. }
    destruct (filter (fun p => negb (isdone (f p))) (preds t)); [contradiction|discriminate].
  Qed.

  Lemma Inv_step (s : State) (e : event task) : Inv s -> Inv (stepE s e).
  Proof.
    intros I. destruct e as [|t|t|t]; cbn [step].
    - (* Startup *)
      apply Inv_startish; [assumption|]. intros x. rewrite fold_start.
      destruct (in_dec teq x tasks); [|left; reflexivity].
      destruct (st task s x) as [|[|n]| | |]; cbn [start1]; auto.
    - (* StartupOne *)
      apply Inv_startish; [assumption|]. intros x. unfold start_one.
      destruct (teq x t) as [->|Hne]; [rewrite upd_same|rewrite upd_other by assumption; left; reflexivity].
      destruct (st task s t) as [|[|n]| | |]; cbn [start1]; auto.
    - (* Begin t *)
      destruct (st task s t) eqn:Et; try assumption.
      assert (Hd : forall p, isdone (updE (st task s) t Running p) = isdone (st task s p)).
      { intros p. destruct (teq p t) as [->|Hne]; [rewrite upd_same, Et; reflexivity|rewrite upd_other by assumption; reflexivity]. }
      assert (Htin : In t tasks).
      { destruct (in_dec teq t tasks) as [Hi|Hi]; [assumption|]. rewrite (inv_absent s I t Hi) in Et. discriminate. }
      split; cbn [st log].
      + intros x Hx. rewrite upd_other; [apply (inv_absent s I x Hx)|]. intros ->. contradiction.
      + intros x Hx. destruct (teq x t) as [->|Hne]; [rewrite upd_same; discriminate|].
        rewrite upd_other by assumption. apply (inv_present s I x Hx).
      + intros x Hx. rewrite (pending_ext _ (st task s) x Hd).
        pose proof (inv_count s I x Hx) as Hc.
        destruct (teq x t) as [->|Hne]; [rewrite upd_same; rewrite Et in Hc; exact Hc|].
        rewrite upd_other by assumption. exact Hc.
      + intros x. rewrite count_begins_cons_b, (inv_begins s I x).
        destruct (teq t x) as [<-|Hne]; [rewrite upd_same, Et; reflexivity|].
        rewrite upd_other by congruence. reflexivity.
      + intros x. rewrite count_ends_cons_b, (inv_ends s I x).
        destruct (teq x t) as [->|Hne]; [rewrite upd_same, Et; reflexivity|].
        rewrite upd_other by assumption. reflexivity.
      + intros l1 l2 x Hl p Hp. destruct l2 as [|e l2]; cbn [app] in Hl.
        * inversion Hl; subst x l1.
          pose proof (inv_count s I t Htin) as Hc. rewrite Et in Hc.
          apply (done_in_ends s p I). apply (pending_zero_all_done _ t Hc p Hp).
        * inversion Hl. eapply (inv_order s I); eassumption.
    - (* End t *)
      destruct (st task s t) eqn:Et; try assumption.
      assert (Htin : In t tasks).
      { destruct (in_dec teq t tasks) as [Hi|Hi]; [assumption|]. rewrite (inv_absent s I t Hi) in Et. discriminate. }
      assert (Htnd : isdone (st task s t) = false) by (rewrite Et; reflexivity).
      set (f := st task s) in *.
      set (g := fold_left releaseE (succs t) (updE f t Done)).
      assert (Hg : forall x, g x = Nat.iter (count_occ teq (succs t) x) rel1 (updE f t Done x))
        by (intros x; unfold g; apply fold_release).
      assert (Hd : forall p, isdone (g p) = isdone (updE f t Done p))
        by (intros p; rewrite Hg; apply isdone_iter).
      assert (Hgt : g t = Done).
      { rewrite Hg, upd_same. apply iter_rel1_fixed. intros n; discriminate. }
      assert (Hpend : forall x, pending g x + count_occ teq (preds x) t = pending f x).
      { intros x. rewrite (pending_ext g (updE f t Done) x Hd). unfold pending. apply filter_done_drop. exact Htnd. }
      split; cbn [st log]; fold g.
      + intros x Hx. rewrite Hg. rewrite upd_other by (intros ->; contradiction).
        pose proof (inv_absent s I x Hx) as Ha. fold f in Ha. rewrite Ha.
        apply iter_rel1_fixed. intros n; discriminate.
      + intros x Hx. destruct (teq x t) as [->|Hne]; [rewrite Hgt; discriminate|].
        rewrite Hg, upd_other by assumption.
        pose proof (inv_present s I x Hx) as Hp. fold f in Hp.
        destruct (f x) as [|n| | |] eqn:Ex; try (rewrite iter_rel1_fixed; [discriminate|intros m; discriminate]).
        * contradiction.
        * pose proof (inv_count s I x Hx) as Hc. fold f in Hc. rewrite Ex in Hc.
          pose proof (count_le_pending f t x Htnd) as Hle.
          rewrite (H_conv t x Htin Hx).
          destruct (count_occ teq (preds x) t) as [|k] eqn:Ek; [cbn; discriminate|].
          rewrite iter_rel1_waiting by lia. destruct (Nat.eqb n (S k)); discriminate.
      + intros x Hx. pose proof (Hpend x) as Hpx.
        destruct (teq x t) as [->|Hne].
        * rewrite Hgt. pose proof (inv_count s I t Htin) as Hc. fold f in Hc. rewrite Et in Hc. lia.
        * rewrite Hg, upd_other by assumption.
          pose proof (inv_count s I x Hx) as Hc. fold f in Hc.
          pose proof (count_le_pending f t x Htnd) as Hle.
          rewrite (H_conv t x Htin Hx).
          destruct (f x) as [|n| | |] eqn:Ex.
          -- rewrite iter_rel1_fixed by (intros m; discriminate). lia.
          -- destruct (count_occ teq (preds x) t) as [|k] eqn:Ek.
             ++ rewrite iter_0. lia.
             ++ rewrite iter_rel1_waiting by lia.
                destruct (Nat.eqb n (S k)) eqn:En.
                ** apply Nat.eqb_eq in En. lia.
                ** apply Nat.eqb_neq in En. lia.
          -- rewrite iter_rel1_fixed by (intros m; discriminate). lia.
          -- rewrite iter_rel1_fixed by (intros m; discriminate). lia.
          -- rewrite iter_rel1_fixed by (intros m; discriminate). lia.
      + intros x. rewrite count_begins_cons_e, (inv_begins s I x). fold f.
        destruct (teq x t) as [->|Hne]; [rewrite Hgt, Et; reflexivity|].
        rewrite Hg, upd_other by assumption.
        destruct (f x) as [|n| | |] eqn:Ex; try (rewrite iter_rel1_fixed by (intros m; discriminate); reflexivity).
        destruct (count_occ teq (succs t) x) as [|k] eqn:Ek; [reflexivity|].
        assert (Hx : In x tasks).
        { apply (H_succ_in t x Htin). apply (count_occ_In teq). lia. }
        pose proof (inv_count s I x Hx) as Hc. fold f in Hc. rewrite Ex in Hc.
        pose proof (count_le_pending f t x Htnd) as Hle. rewrite <- (H_conv t x Htin Hx), Ek in Hle.
        rewrite iter_rel1_waiting by lia. destruct (Nat.eqb n (S k)); reflexivity.
      + intros x. rewrite count_ends_cons_e, (inv_ends s I x). fold f.
        destruct (teq t x) as [<-|Hne]; [rewrite Hgt, Et; reflexivity|].
        rewrite Hg, upd_other by congruence.
        destruct (f x) as [|n| | |] eqn:Ex; try (rewrite iter_rel1_fixed by (intros m; discriminate); reflexivity).
        destruct (count_occ teq (succs t) x) as [|k] eqn:Ek; [reflexivity|].
        assert (Hx : In x tasks).
        { apply (H_succ_in t x Htin). apply (count_occ_In teq). lia. }
        pose proof (inv_count s I x Hx) as Hc. fold f in Hc. rewrite Ex in Hc.
        pose proof (count_le_pending f t x Htnd) as Hle. rewrite <- (H_conv t x Htin Hx), Ek in Hle.
        rewrite iter_rel1_waiting by lia. destruct (Nat.eqb n (S k)); reflexivity.
      + intros l1 l2 x Hl p Hp. destruct l2 as [|e l2]; cbn [app] in Hl; [discriminate|].
        inversion Hl. eapply (inv_order s I); eassumption.
  Qed.

  Theorem Inv_run (evs : list (event task)) : Inv (runE evs).
  Proof. unfold run. apply fold_left_inv; [intros a b; apply Inv_step|apply Inv_init]. Qed.

  (* ------------------------------------------------------------- consequences *)
  Theorem no_task_begins_twice evs : NoDup (beginsE (log task (runE evs))).
  Proof.
    apply (NoDup_count_occ teq). intros t. rewrite (inv_begins _ (Inv_run evs) t).
    destruct (st task (runE evs) t); lia.
  Qed.

  Theorem no_task_ends_twice evs : NoDup (endsE (log task (runE evs))).
  Proof.
    apply (NoDup_count_occ teq). intros t. rewrite (inv_ends _ (Inv_run evs) t).
    destruct (st task (runE evs) t); lia.
  Qed.

  Theorem only_tasks_begin evs t : In t (beginsE (log task (runE evs))) -> In t tasks.
  Proof.
    intros H. apply (count_occ_In teq) in H. rewrite (inv_begins _ (Inv_run evs) t) in H.
    destruct (in_dec teq t tasks) as [Hi|Hi]; [assumption|].
    rewrite (inv_absent _ (Inv_run evs) t Hi) in H. lia.
  Qed.

  Theorem begin_after_preds_ended evs l1 l2 t :
    log task (runE evs) = l2 ++ LBegin t :: l1 -> forall p, In p (preds t) -> In (LEnd p) l1.
  Proof. apply (inv_order _ (Inv_run evs)). Qed.

  (* a task that has begun has all its predecessors done; a done task began exactly once *)
  Theorem begun_iff evs t :
    In t (beginsE (log task (runE evs))) <-> (st task (runE evs) t = Running \/ st task (runE evs) t = Done).
  Proof.
    rewrite (count_occ_In teq), (inv_begins _ (Inv_run evs) t).
    destruct (st task (runE evs) t); split; intros H; try lia; auto; destruct H; discriminate.
  Qed.

  Lemma quiescent_done_by_rank (s : State) : Inv s -> quiescent task tasks s ->
    forall n t, In t tasks -> rank t < n -> st task s t = Done.
  Proof.
    intros I Q n. induction n as [|n IH]; intros t Ht Hr; [lia|].
    assert (Hp : pending (st task s) t = 0).
    { unfold pending.
      rewrite (filter_ext_in _ (fun _ => false)); [clear; induction (preds t); auto|].
      intros p Hp. rewrite (IH p); [reflexivity|apply (H_pred_in t p Ht Hp)|].
      pose proof (H_rank t p Ht Hp). lia. }
    pose proof (inv_count s I t Ht) as Hc. pose proof (inv_present s I t Ht) as Hpr.
    destruct (Q t Ht) as (Q1 & Q2 & Q3).
    destruct (st task s t) as [|k| | |]; try contradiction; try reflexivity.
    exfalso. apply Q3. f_equal. lia.
  Qed.

  Theorem quiescent_all_done evs : quiescent task tasks (runE evs) ->
    forall t, In t tasks -> st task (runE evs) t = Done.
  Proof.
    intros Q t Ht. apply (quiescent_done_by_rank _ (Inv_run evs) Q (S (rank t)) t Ht). lia.
  Qed.

  (* in a quiescent state the multiset of executed tasks is exactly the task set *)
  Theorem quiescent_executed_once evs : NoDup tasks -> quiescent task tasks (runE evs) ->
    Permutation (beginsE (log task (runE evs))) tasks.
  Proof.
    intros Hnd Q. apply NoDup_Permutation; [apply no_task_begins_twice|assumption|].
    intros t. split; [apply only_tasks_begin|].
    intros Ht. apply begun_iff. right. apply quiescent_all_done; assumption.
  Qed.

  (* progress: as long as some task is not done, some event is enabled *)
  Theorem not_all_done_enabled evs t : In t tasks -> st task (runE evs) t <> Done ->
    exists u, In u tasks /\ (st task (runE evs) u = Ready \/ st task (runE evs) u = Running \/ st task (runE evs) u = Waiting 0).
  Proof.
    intros Ht Hnd.
    (* by contradiction on the decidable finite search *)
    assert (Hdec : forall l, (exists u, In u l /\ (st task (runE evs) u = Ready \/ st task (runE evs) u = Running \/ st task (runE evs) u = Waiting 0))
                             \/ (forall u, In u l -> st task (runE evs) u <> Ready /\ st task (runE evs) u <> Running /\ st task (runE evs) u <> Waiting 0)).
    { induction l as [|a l [IH|IH]].
      - right; intros u [].
      - left. destruct IH as (u & Hu & H). exists u; split; [right; assumption|assumption].
      - destruct (st task (runE evs) a) as [|[|k]| | |] eqn:Ea.
        + right. intros u [<-|Hu]; [rewrite Ea; repeat split; discriminate|auto].
        + left. exists a; split; [left; reflexivity|auto].
        + right. intros u [<-|Hu]; [rewrite Ea; repeat split; discriminate|auto].
        + left. exists a; split; [left; reflexivity|auto].
        + left. exists a; split; [left; reflexivity|auto].
        + right. intros u [<-|Hu]; [rewrite Ea; repeat split; discriminate|auto]. }
    destruct (Hdec tasks) as [H|H]; [assumption|].
    exfalso. apply Hnd. apply quiescent_all_done; assumption.
  Qed.
End EngineProofs.
