(* Proofs about the datatype model: list toolkit, what place/indexed/vector/
   contiguous over a basic type select, the C index loops against the region
   enumeration, bounds. *)
From PV Require Import Base.Tac DType.DTypeDefs.
Local Open Scope Z_scope.

(* ---------- zseq ---------- *)
Lemma zseq_nat_app a k1 k2 :
  zseq_nat a (k1 + k2) = zseq_nat a k1 ++ zseq_nat (a + Z.of_nat k1) k2.
Proof.
  revert a; induction k1 as [|k1 IH]; intros a.
  - cbn [Nat.add zseq_nat app Z.of_nat]. f_equal; lia.
  - cbn [Nat.add zseq_nat app]. f_equal. rewrite IH. f_equal. f_equal. lia.
Qed.

Lemma zseq_app a n1 n2 : 0 <= n1 -> 0 <= n2 -> zseq a (n1 + n2) = zseq a n1 ++ zseq (a + n1) n2.
Proof.
  intros H1 H2. unfold zseq. rewrite Z2Nat.inj_add by lia. rewrite zseq_nat_app.
  rewrite Z2Nat.id by lia. reflexivity.
Qed.

Lemma zseq_nil a n : n <= 0 -> zseq a n = [].
Proof. intros H. unfold zseq. replace (Z.to_nat n) with O by lia. reflexivity. Qed.

Lemma zseq_cons a n : 0 < n -> zseq a n = a :: zseq (a + 1) (n - 1).
Proof.
  intros H. unfold zseq. replace (Z.to_nat n) with (S (Z.to_nat (n - 1))) by lia. reflexivity.
Qed.

Lemma In_zseq_nat x a k : In x (zseq_nat a k) <-> a <= x < a + Z.of_nat k.
Proof.
  revert a; induction k as [|k IH]; intros a; cbn [zseq_nat In].
  - lia.
  - rewrite IH. lia.
Qed.

Lemma In_zseq x a n : In x (zseq a n) <-> a <= x < a + n.
Proof. unfold zseq. rewrite In_zseq_nat. lia. Qed.

Lemma length_zseq a n : length (zseq a n) = Z.to_nat n.
Proof.
  unfold zseq. generalize (Z.to_nat n) as k. intros k; revert a.
  induction k as [|k IH]; intros a; cbn [zseq_nat length]; auto.
Qed.

Lemma zseq_shift d a n : map (fun j => d + j) (zseq a n) = zseq (d + a) n.
Proof.
  unfold zseq. generalize (Z.to_nat n) as k. intros k; revert a.
  induction k as [|k IH]; intros a; cbn [zseq_nat map]; auto.
  rewrite IH. f_equal. f_equal. lia.
Qed.

Lemma zseq_as_map d n : zseq d n = map (fun j => d + j) (zseq 0 n).
Proof. rewrite zseq_shift. f_equal. lia. Qed.

Lemma NoDup_zseq a n : NoDup (zseq a n).
Proof.
  unfold zseq. generalize (Z.to_nat n) as k. intros k; revert a.
  induction k as [|k IH]; intros a; cbn [zseq_nat]; constructor; auto.
  rewrite In_zseq_nat. lia.
Qed.

(* ---------- generic list facts ---------- *)
Lemma filter_all_true {A} (f : A -> bool) l : (forall x, In x l -> f x = true) -> filter f l = l.
Proof.
  induction l as [|x l IH]; intros H; cbn [filter]; auto.
  rewrite (H x) by (left; reflexivity). f_equal. apply IH. intros y Hy. apply H. right; exact Hy.
Qed.

Lemma filter_all_false {A} (f : A -> bool) l : (forall x, In x l -> f x = false) -> filter f l = [].
Proof.
  induction l as [|x l IH]; intros H; cbn [filter]; auto.
  rewrite (H x) by (left; reflexivity). apply IH. intros y Hy. apply H. right; exact Hy.
Qed.

Lemma flat_map_ext_in' {A B} (f g : A -> list B) l :
  (forall x, In x l -> f x = g x) -> flat_map f l = flat_map g l.
Proof.
  induction l as [|x l IH]; intros H; cbn [flat_map]; auto.
  rewrite (H x) by (left; reflexivity). f_equal. apply IH. intros y Hy. apply H. right; exact Hy.
Qed.

Lemma flat_map_nil_in {A B} (f : A -> list B) l : (forall x, In x l -> f x = []) -> flat_map f l = [].
Proof.
  induction l as [|x l IH]; intros H; cbn [flat_map]; auto.
  rewrite (H x) by (left; reflexivity). apply IH. intros y Hy. apply H. right; exact Hy.
Qed.

Lemma map_flat_map' {A B C} (f : B -> C) (g : A -> list B) l :
  map f (flat_map g l) = flat_map (fun x => map f (g x)) l.
Proof. induction l as [|x l IH]; cbn [flat_map map]; auto. rewrite map_app, IH. reflexivity. Qed.

Lemma flat_map_map' {A B C} (f : A -> B) (g : B -> list C) l :
  flat_map g (map f l) = flat_map (fun x => g (f x)) l.
Proof. induction l as [|x l IH]; cbn [flat_map map]; auto. rewrite IH. reflexivity. Qed.

Lemma flat_map_flat_map' {A B C} (f : A -> list B) (g : B -> list C) l :
  flat_map g (flat_map f l) = flat_map (fun x => flat_map g (f x)) l.
Proof. induction l as [|x l IH]; cbn [flat_map]; auto. rewrite flat_map_app, IH. reflexivity. Qed.

Lemma combine_map_same {A B C} (f : A -> B) (g : A -> C) l :
  combine (map f l) (map g l) = map (fun x => (f x, g x)) l.
Proof. induction l as [|x l IH]; cbn [map combine]; auto. rewrite IH. reflexivity. Qed.

Lemma skipn_combine {A B} k (a : list A) (b : list B) :
  combine (skipn k a) (skipn k b) = skipn k (combine a b).
Proof.
  revert a b; induction k as [|k IH]; intros a b; cbn [skipn]; auto.
  destruct a as [|x a]; cbn [combine skipn]; auto.
  destruct b as [|y b]; cbn [combine skipn]; auto.
  destruct (skipn k a); reflexivity.
Qed.

Lemma skipn_length_app {A} (l1 l2 : list A) : skipn (length l1) (l1 ++ l2) = l2.
Proof. induction l1 as [|x l1 IH]; cbn [length skipn app]; auto. Qed.

Lemma firstn_length_app {A} (l1 l2 : list A) : firstn (length l1) (l1 ++ l2) = l1.
Proof. induction l1 as [|x l1 IH]; cbn [length firstn app]; auto. rewrite IH. reflexivity. Qed.

(* the cells d .. d+c-1 of an n-cell array indexed from 0 *)
Lemma zseq_window d c n : 0 <= d -> 0 <= c -> d + c <= n ->
  firstn (Z.to_nat c) (skipn (Z.to_nat d) (zseq 0 n)) = zseq d c.
Proof.
  intros Hd Hc Hn.
  replace n with (d + (c + (n - d - c))) by lia.
  rewrite (zseq_app 0 d) by lia. rewrite (zseq_app (0 + d) c) by lia.
  rewrite <- (length_zseq 0 d) at 1. rewrite skipn_length_app.
  rewrite <- (length_zseq (0 + d) c) at 1. rewrite firstn_length_app.
  f_equal.
Qed.

Lemma array_window {A} (h : Z -> A) d c n : 0 <= d -> 0 <= c -> d + c <= n ->
  firstn (Z.to_nat c) (skipn (Z.to_nat d) (map h (zseq 0 n))) = map h (zseq d c).
Proof.
  intros Hd Hc Hn. rewrite skipn_map, firstn_map. rewrite zseq_window by lia. reflexivity.
Qed.

(* rows a .. b-1 of a column of m rows *)
Lemma filter_interval (f : Z -> bool) a b m :
  0 <= a -> b <= m ->
  (forall i, 0 <= i < m -> f i = ((a <=? i) && (i <? b))%bool) ->
  filter f (zseq 0 m) = zseq a (b - a).
Proof.
  intros Ha Hb Hf.
  destruct (Z_lt_le_dec a b) as [Hab|Hab].
  - replace m with (a + ((b - a) + (m - b))) by lia.
    rewrite (zseq_app 0 a) by lia. rewrite (zseq_app (0 + a) (b - a)) by lia.
    rewrite !filter_app.
    rewrite (filter_all_false f (zseq 0 a)).
    2:{ intros x Hx. apply In_zseq in Hx. rewrite Hf by lia. lia. }
    rewrite (filter_all_true f (zseq (0 + a) (b - a))).
    2:{ intros x Hx. apply In_zseq in Hx. rewrite Hf by lia. lia. }
    rewrite (filter_all_false f (zseq _ (m - b))).
    2:{ intros x Hx. apply In_zseq in Hx. rewrite Hf by lia. lia. }
    cbn [app]. rewrite app_nil_r. f_equal.
  - rewrite (zseq_nil a) by lia. apply filter_all_false.
    intros x Hx. apply In_zseq in Hx. rewrite Hf by lia. lia.
Qed.

(* ---------- what the constructors select over a basic type ---------- *)
Lemma selected_resized t l e : selected (resized t l e) = selected t.
Proof. reflexivity. Qed.

Lemma selected_place_prim sz es :
  selected (place (prim sz) (map (fun e => e * sz) es)) = elems sz es.
Proof.
  unfold selected, place, prim, elems. cbn [tmap map fst snd].
  rewrite flat_map_flat_map'. rewrite flat_map_map'.
  apply flat_map_ext. intros e. cbn [flat_map fst snd]. rewrite app_nil_r. f_equal. lia.
Qed.

(* element offsets selected by an indexed type over a basic type *)
Definition indexed_elems (count : Z) (bls disps : list Z) : list Z :=
  flat_map (fun bd => zseq (snd bd) (fst bd)) (firstn (Z.to_nat count) (combine bls disps)).

Lemma indexed_prim_place sz count bls disps :
  indexed count bls disps (prim sz) = place (prim sz) (map (fun e => e * sz) (indexed_elems count bls disps)).
Proof.
  unfold indexed, indexed_elems. f_equal. cbn [ext prim].
  rewrite map_flat_map'. apply flat_map_ext. intros [b d]. cbn [fst snd].
  rewrite (zseq_as_map d b). rewrite map_map. reflexivity.
Qed.

Lemma selected_indexed_prim sz count bls disps :
  selected (indexed count bls disps (prim sz)) = elems sz (indexed_elems count bls disps).
Proof. rewrite indexed_prim_place. apply selected_place_prim. Qed.

Definition vector_elems (count bl stride : Z) : list Z :=
  flat_map (fun i => zseq (i * stride) bl) (zseq 0 count).

Lemma vector_prim_place sz count bl stride :
  vector count bl stride (prim sz) = place (prim sz) (map (fun e => e * sz) (vector_elems count bl stride)).
Proof.
  unfold vector, vector_elems. f_equal. cbn [ext prim].
  rewrite map_flat_map'. apply flat_map_ext. intros i.
  rewrite (zseq_as_map (i * stride) bl). rewrite map_map. reflexivity.
Qed.

Lemma contiguous_prim_place sz count :
  contiguous count (prim sz) = place (prim sz) (map (fun e => e * sz) (zseq 0 count)).
Proof. reflexivity. Qed.

(* ---------- bounds ---------- *)
Lemma fold_min_le d r : fold_right Z.min d r <= d /\ forall x, In x r -> fold_right Z.min d r <= x.
Proof.
  induction r as [|y r IH]; cbn [fold_right In].
  - split; [lia|tauto].
  - destruct IH as [IH1 IH2]. split; [lia|]. intros x [Hx|Hx]; [subst; lia|]. specialize (IH2 x Hx). lia.
Qed.

Lemma fold_min_in d r : In (fold_right Z.min d r) (d :: r).
Proof.
  induction r as [|y r IH]; cbn [fold_right]; [left; reflexivity|].
  destruct (Z.min_spec y (fold_right Z.min d r)) as [[_ E]|[_ E]]; rewrite E.
  - right; left; reflexivity.
  - destruct IH as [IH|IH]; [left; exact IH|right; right; exact IH].
Qed.

Lemma fold_max_ge d r : d <= fold_right Z.max d r /\ forall x, In x r -> x <= fold_right Z.max d r.
Proof.
  induction r as [|y r IH]; cbn [fold_right In].
  - split; [lia|tauto].
  - destruct IH as [IH1 IH2]. split; [lia|]. intros x [Hx|Hx]; [subst; lia|]. specialize (IH2 x Hx). lia.
Qed.

Lemma fold_max_in d r : In (fold_right Z.max d r) (d :: r).
Proof.
  induction r as [|y r IH]; cbn [fold_right]; [left; reflexivity|].
  destruct (Z.max_spec y (fold_right Z.max d r)) as [[_ E]|[_ E]]; rewrite E.
  - destruct IH as [IH|IH]; [left; exact IH|right; right; exact IH].
  - right; left; reflexivity.
Qed.

Lemma lmin_spec l x : In x l -> (forall y, In y l -> x <= y) -> lmin l = x.
Proof.
  destruct l as [|d r]; [intros []|]. intros Hin Hle. unfold lmin.
  pose proof (fold_min_le d r) as [H1 H2]. pose proof (fold_min_in d r) as H3.
  specialize (Hle _ H3). destruct Hin as [Hx|Hx]; [subst; lia|]. specialize (H2 _ Hx). lia.
Qed.

Lemma lmax_spec l x : In x l -> (forall y, In y l -> y <= x) -> lmax l = x.
Proof.
  destruct l as [|d r]; [intros []|]. intros Hin Hle. unfold lmax.
  pose proof (fold_max_ge d r) as [H1 H2]. pose proof (fold_max_in d r) as H3.
  specialize (Hle _ H3). destruct Hin as [Hx|Hx]; [subst; lia|]. specialize (H2 _ Hx). lia.
Qed.

(* a non-empty placement of a basic type whose first element is at lo and last at hi *)
Lemma place_prim_bounds sz es lo hi : 0 < sz ->
  In lo es -> In hi es -> (forall e, In e es -> lo <= e <= hi) ->
  lb (place (prim sz) (map (fun e => e * sz) es)) = lo * sz /\
  ext (place (prim sz) (map (fun e => e * sz) es)) = (hi - lo + 1) * sz.
Proof.
  intros Hsz Hlo Hhi Hall.
  assert (Hmin : lmin (map (fun e => e * sz) es) = lo * sz).
  { apply lmin_spec. - apply in_map_iff. exists lo. auto.
    - intros y Hy. apply in_map_iff in Hy. destruct Hy as [e [<- He]]. specialize (Hall e He). nia. }
  assert (Hmax : lmax (map (fun e => e * sz) es) = hi * sz).
  { apply lmax_spec. - apply in_map_iff. exists hi. auto.
    - intros y Hy. apply in_map_iff in Hy. destruct Hy as [e [<- He]]. specialize (Hall e He). nia. }
  unfold place. cbn [lb ext prim].
  destruct es as [|e0 es']; [destruct Hlo|].
  cbn [map] in *. rewrite Hmin, Hmax. split; lia.
Qed.

(* ---------- the region enumeration (specification) ---------- *)
Lemma region_enum_In P m n ld e :
  In e (region_enum P m n ld) <->
  exists i j, 0 <= i < m /\ 0 <= j < n /\ P i j = true /\ e = i + j * ld.
Proof.
  unfold region_enum. rewrite in_flat_map. split.
  - intros [j [Hj He]]. apply in_map_iff in He. destruct He as [i [<- Hi]].
    apply filter_In in Hi. destruct Hi as [Hi HP]. apply In_zseq in Hi. apply In_zseq in Hj.
    exists i, j. repeat split; try lia; exact HP.
  - intros [i [j [Hi [Hj [HP ->]]]]]. exists j. split; [apply In_zseq; lia|].
    apply in_map_iff. exists i. split; [reflexivity|]. apply filter_In. split; [apply In_zseq; lia|exact HP].
Qed.

Lemma NoDup_app' {A} (l1 l2 : list A) :
  NoDup l1 -> NoDup l2 -> (forall x, In x l1 -> In x l2 -> False) -> NoDup (l1 ++ l2).
Proof.
  induction l1 as [|x l1 IH]; intros H1 H2 Hd; cbn [app]; auto.
  inversion H1 as [|? ? Hx H1']; subst. constructor.
  - rewrite in_app_iff. intros [Hin|Hin]; [exact (Hx Hin)|]. apply (Hd x); [left; reflexivity|exact Hin].
  - apply IH; auto. intros y Hy1 Hy2. apply (Hd y); [right; exact Hy1|exact Hy2].
Qed.

Lemma NoDup_flat_map' {A B} (f : A -> list B) l :
  NoDup l -> (forall x, In x l -> NoDup (f x)) ->
  (forall x y b, In x l -> In y l -> In b (f x) -> In b (f y) -> x = y) ->
  NoDup (flat_map f l).
Proof.
  induction l as [|x l IH]; intros Hl Hf Hd; cbn [flat_map]; [constructor|].
  inversion Hl as [|? ? Hx Hl']; subst. apply NoDup_app'.
  - apply Hf. left; reflexivity.
  - apply IH; auto.
    + intros y Hy. apply Hf. right; exact Hy.
    + intros y z b Hy Hz. apply Hd; right; assumption.
  - intros b Hb1 Hb2. apply in_flat_map in Hb2. destruct Hb2 as [y [Hy Hb2]].
    assert (x = y) by (apply (Hd x y b); [left; reflexivity|right; exact Hy|exact Hb1|exact Hb2]).
    subst. exact (Hx Hy).
Qed.

Lemma NoDup_map_inj {A B} (f : A -> B) l :
  (forall x y, In x l -> In y l -> f x = f y -> x = y) -> NoDup l -> NoDup (map f l).
Proof.
  induction l as [|x l IH]; intros Hinj Hl; cbn [map]; [constructor|].
  inversion Hl as [|? ? Hx Hl']; subst. constructor.
  - intros Hin. apply in_map_iff in Hin. destruct Hin as [y [Hy Hin]].
    assert (y = x) by (apply Hinj; [right; exact Hin|left; reflexivity|exact Hy]). subst. exact (Hx Hin).
  - apply IH; auto. intros y z Hy Hz. apply Hinj; right; assumption.
Qed.

(* with ld >= m distinct positions have distinct offsets: every element exactly once *)
Lemma region_enum_NoDup P m n ld : m <= ld -> NoDup (region_enum P m n ld).
Proof.
  intros Hld. unfold region_enum. apply NoDup_flat_map'.
  - apply NoDup_zseq.
  - intros j Hj. apply NoDup_map_inj; [intros; lia|]. apply NoDup_filter. apply NoDup_zseq.
  - intros j1 j2 b Hj1 Hj2 Hb1 Hb2.
    apply in_map_iff in Hb1. destruct Hb1 as [i1 [<- Hi1]].
    apply in_map_iff in Hb2. destruct Hb2 as [i2 [E Hi2]].
    apply filter_In in Hi1. destruct Hi1 as [Hi1 _]. apply filter_In in Hi2. destruct Hi2 as [Hi2 _].
    apply In_zseq in Hi1. apply In_zseq in Hi2. apply In_zseq in Hj1. apply In_zseq in Hj2. nia.
Qed.

Lemma region_enum_spec P m n ld : m <= ld ->
  NoDup (region_enum P m n ld) /\
  forall e, In e (region_enum P m n ld) <->
    exists i j, 0 <= i < m /\ 0 <= j < n /\ P i j = true /\ e = i + j * ld.
Proof.
  intros H. split; [exact (region_enum_NoDup P m n ld H)|intro e; exact (region_enum_In P m n ld e)].
Qed.

(* column-major order is increasing memory order *)
Lemma column_major_increasing m ld i1 j1 i2 j2 :
  m <= ld -> 0 <= i1 < m -> 0 <= i2 < m -> 0 <= j1 -> 0 <= j2 ->
  (i1 + j1 * ld < i2 + j2 * ld <-> j1 < j2 \/ (j1 = j2 /\ i1 < i2)).
Proof. intros. nia. Qed.

Lemma elems_In sz es b : 0 < sz ->
  (In b (elems sz es) <-> exists e, In e es /\ e * sz <= b < (e + 1) * sz).
Proof.
  intros Hsz. unfold elems. rewrite in_flat_map. split.
  - intros [e [He Hb]]. apply In_zseq in Hb. exists e. split; [exact He|lia].
  - intros [e [He Hb]]. exists e. split; [exact He|]. apply In_zseq. lia.
Qed.

Lemma elems_NoDup sz es : 0 < sz -> NoDup es -> NoDup (elems sz es).
Proof.
  intros Hsz Hes. unfold elems. apply NoDup_flat_map'; auto.
  - intros e _. apply NoDup_zseq.
  - intros e1 e2 b _ _ H1 H2. apply In_zseq in H1. apply In_zseq in H2. nia.
Qed.

(* ---------- the index loops of parsec_matrix_define_triangle ---------- *)
Lemma column_shift j ld a c : map (fun i => i + j * ld) (zseq a c) = zseq (j * ld + a) c.
Proof.
  rewrite <- zseq_shift. apply map_ext. intros; lia.
Qed.

Lemma upper_elems diag m n ld : 1 <= m -> 1 <= n ->
  let d := if diag =? 0 then 1 else 0 in
  indexed_elems (n - d)
    (skipn (Z.to_nat d) (fill n d n (fun i => let mm := i + 1 - d in if mm <? m then mm else m)))
    (skipn (Z.to_nat d) (fill n d n (fun i => i * ld)))
  = region_enum (region PARSEC_MATRIX_UPPER diag) m n ld.
Proof.
  intros Hm Hn d.
  assert (Hd : d = 0 \/ d = 1) by (subst d; destruct (diag =? 0); lia).
  unfold indexed_elems, fill. rewrite skipn_combine, combine_map_same.
  rewrite array_window by lia.
  rewrite flat_map_map'. cbn [fst snd].
  unfold region_enum.
  assert (Hcol : forall j, d <= j < n ->
     (if (d <=? j) && (j <? n) then j * ld else 0) = j * ld /\
     (if (d <=? j) && (j <? n) then (if j + 1 - d <? m then j + 1 - d else m) else 0) = Z.min (j + 1 - d) m).
  { intros j Hj. replace ((d <=? j) && (j <? n))%bool with true by lia.
    split; [reflexivity|]. destruct (j + 1 - d <? m) eqn:?; lia. }
  assert (Hrow : forall j, d <= j < n ->
     map (fun i => i + j * ld) (filter (fun i => region PARSEC_MATRIX_UPPER diag i j) (zseq 0 m))
     = zseq (j * ld) (Z.min (j + 1 - d) m)).
  { intros j Hj.
    rewrite (filter_interval _ 0 (Z.min (j + 1 - d) m) m) by
      (try lia; intros i Hi; unfold region; cbn [Z.eqb PARSEC_MATRIX_UPPER Pos.eqb];
       subst d; destruct (diag =? 0); lia).
    rewrite column_shift. f_equal; lia. }
  destruct Hd as [Hd|Hd]; rewrite Hd in *.
  - rewrite Z.sub_0_r. apply flat_map_ext_in'. intros j Hj. apply In_zseq in Hj.
    destruct (Hcol j ltac:(lia)) as [E1 E2]. rewrite E1, E2. rewrite Hrow by lia. reflexivity.
  - rewrite (zseq_cons 0 n) by lia. cbn [flat_map].
    rewrite (filter_all_false _ (zseq 0 m)).
    2:{ intros i Hi. apply In_zseq in Hi. unfold region. cbn [Z.eqb PARSEC_MATRIX_UPPER Pos.eqb].
        subst d. destruct (diag =? 0); lia. }
    cbn [map app]. apply flat_map_ext_in'. intros j Hj. apply In_zseq in Hj.
    destruct (Hcol j ltac:(lia)) as [E1 E2]. rewrite E1, E2. rewrite Hrow by lia. reflexivity.
Qed.

Lemma lower_elems diag m n ld : 1 <= m -> 1 <= n ->
  let d := if diag =? 0 then 1 else 0 in
  let nmax := if m - d <=? n then m - d else n in
  indexed_elems nmax
    (skipn (Z.to_nat 0) (fill n 0 nmax (fun i => m - i - d)))
    (skipn (Z.to_nat 0) (fill n 0 nmax (fun i => i * ld + i + d)))
  = region_enum (region PARSEC_MATRIX_LOWER diag) m n ld.
Proof.
  intros Hm Hn d nmax.
  assert (Hd : d = 0 \/ d = 1) by (subst d; destruct (diag =? 0); lia).
  assert (Hnmax : nmax = Z.min (m - d) n) by (subst nmax; destruct (m - d <=? n) eqn:?; lia).
  unfold indexed_elems, fill. rewrite skipn_combine, combine_map_same.
  rewrite array_window by lia.
  rewrite flat_map_map'. cbn [fst snd].
  unfold region_enum.
  assert (Hrow : forall j, 0 <= j < n ->
     map (fun i => i + j * ld) (filter (fun i => region PARSEC_MATRIX_LOWER diag i j) (zseq 0 m))
     = zseq (j * ld + j + d) (m - j - d)).
  { intros j Hj.
    destruct (Z_lt_le_dec (j + d) m) as [Hlt|Hge].
    - rewrite (filter_interval _ (j + d) m m) by
        (try lia; intros i Hi; unfold region; cbn [Z.eqb PARSEC_MATRIX_UPPER PARSEC_MATRIX_LOWER Pos.eqb];
         subst d; destruct (diag =? 0); lia).
      rewrite column_shift. f_equal; lia.
    - rewrite (zseq_nil _ (m - j - d)) by lia.
      rewrite (filter_all_false _ (zseq 0 m)); [reflexivity|].
      intros i Hi. apply In_zseq in Hi. unfold region.
      cbn [Z.eqb PARSEC_MATRIX_UPPER PARSEC_MATRIX_LOWER Pos.eqb].
      subst d. destruct (diag =? 0); lia. }
  assert (Hsplit : zseq 0 n = zseq 0 nmax ++ zseq (0 + nmax) (n - nmax))
    by (rewrite <- zseq_app by lia; f_equal; lia).
  rewrite Hsplit. rewrite flat_map_app.
  rewrite (flat_map_nil_in _ (zseq (0 + nmax) (n - nmax))).
  2:{ intros j Hj. apply In_zseq in Hj. rewrite Hrow by lia. apply zseq_nil. lia. }
  rewrite app_nil_r. apply flat_map_ext_in'. intros j Hj. apply In_zseq in Hj.
  replace ((0 <=? j) && (j <? nmax))%bool with true by lia.
  rewrite Hrow by lia. reflexivity.
Qed.

(* ---------- the entry points ---------- *)
Lemma triangle_spec sz uplo diag m n ld :
  0 < sz -> 1 <= m -> 1 <= n -> m <= ld -> ld * n * sz < 2 ^ 31 ->
  uplo = PARSEC_MATRIX_UPPER \/ uplo = PARSEC_MATRIX_LOWER ->
  exists t, define_triangle sz uplo diag m n ld = Ok t /\
    selected t = elems sz (region_enum (region uplo diag) m n ld) /\
    lb t = 0 /\ ext t = ld * n * sz.
Proof.
  intros Hsz Hm Hn Hld Hov [-> | ->]; unfold define_triangle.
  - cbn [Z.eqb PARSEC_MATRIX_UPPER Pos.eqb]. eexists. split; [reflexivity|].
    pose proof (upper_elems diag m n ld Hm Hn) as HU. cbv zeta in HU |- *.
    rewrite selected_resized, selected_indexed_prim. cbn [lb ext resized].
    rewrite HU. auto.
  - cbn [Z.eqb PARSEC_MATRIX_UPPER PARSEC_MATRIX_LOWER Pos.eqb]. eexists. split; [reflexivity|].
    pose proof (lower_elems diag m n ld Hm Hn) as HL. cbv zeta in HL |- *.
    rewrite selected_resized, selected_indexed_prim. cbn [lb ext resized].
    rewrite HL. auto.
Qed.

Lemma triangle_bad_uplo sz uplo diag m n ld :
  uplo <> PARSEC_MATRIX_UPPER -> uplo <> PARSEC_MATRIX_LOWER ->
  define_triangle sz uplo diag m n ld = Err PARSEC_ERR_BAD_PARAM.
Proof.
  intros H1 H2. unfold define_triangle.
  destruct (uplo =? PARSEC_MATRIX_UPPER) eqn:E1; [lia|].
  destruct (uplo =? PARSEC_MATRIX_LOWER) eqn:E2; [lia|]. reflexivity.
Qed.

Lemma contiguous_spec sz nb rsz : 0 < sz -> 1 <= nb ->
  exists t, define_contiguous sz nb rsz = Ok t /\
    selected t = elems sz (zseq 0 nb) /\ lb t = 0 /\
    ext t = if 0 <=? rsz then rsz * sz else nb * sz.
Proof.
  intros Hsz Hnb. unfold define_contiguous.
  destruct (sz =? 0) eqn:E; [lia|]. eexists. split; [reflexivity|].
  rewrite contiguous_prim_place.
  destruct (place_prim_bounds sz (zseq 0 nb) 0 (nb - 1) Hsz) as [Hlb Hext].
  { apply In_zseq; lia. } { apply In_zseq; lia. } { intros e He. apply In_zseq in He. lia. }
  destruct (0 <=? rsz) eqn:Er.
  - rewrite selected_resized, selected_place_prim. cbn [lb ext resized]. auto.
  - rewrite selected_place_prim, Hlb, Hext. repeat split; lia.
Qed.

Lemma columns_contiguous m (k : nat) : 0 <= m ->
  flat_map (fun j => zseq (j * m) m) (zseq 0 (Z.of_nat k)) = zseq 0 (m * Z.of_nat k).
Proof.
  intros Hm. induction k as [|k IH].
  - rewrite Z.mul_0_r. reflexivity.
  - rewrite Nat2Z.inj_succ. unfold Z.succ. rewrite zseq_app by lia. rewrite flat_map_app, IH.
    rewrite (zseq_cons _ 1) by lia. rewrite (zseq_nil _ (1 - 1)) by lia. cbn [flat_map].
    rewrite app_nil_r. replace (m * (Z.of_nat k + 1)) with (m * Z.of_nat k + m) by lia.
    rewrite zseq_app by nia. f_equal. f_equal; lia.
Qed.

Lemma full_enum_contiguous m n : 0 <= m -> 0 <= n ->
  region_enum (fun _ _ => true) m n m = zseq 0 (m * n).
Proof.
  intros Hm Hn. unfold region_enum.
  rewrite (flat_map_ext_in' _ (fun j => zseq (j * m) m)).
  2:{ intros j _. rewrite filter_all_true by reflexivity. rewrite column_shift. f_equal; lia. }
  rewrite <- (Z2Nat.id n) by lia. apply columns_contiguous. exact Hm.
Qed.

Lemma full_enum_vector m n ld : region_enum (fun _ _ => true) m n ld = vector_elems n m ld.
Proof.
  unfold region_enum, vector_elems. apply flat_map_ext. intros j.
  rewrite filter_all_true by reflexivity. rewrite column_shift. f_equal; lia.
Qed.

Lemma rectangle_spec sz m n ld rsz :
  0 < sz -> 1 <= m -> 1 <= n -> m <= ld -> ld * n * sz < 2 ^ 31 ->
  exists t, define_rectangle sz m n ld rsz = Ok t /\
    selected t = elems sz (region_enum (fun _ _ => true) m n ld) /\ lb t = 0 /\
    ext t = if 0 <=? rsz then rsz * sz else ((n - 1) * ld + m) * sz.
Proof.
  intros Hsz Hm Hn Hld Hov. unfold define_rectangle.
  destruct (m =? ld) eqn:E.
  - assert (ld = m) by lia. subst ld.
    destruct (contiguous_spec sz (m * n) rsz Hsz ltac:(nia)) as [t [Ht [Hs [Hl He]]]].
    exists t. split; [exact Ht|]. rewrite full_enum_contiguous by lia.
    split; [exact Hs|]. split; [exact Hl|]. rewrite He. destruct (0 <=? rsz); lia.
  - destruct (sz =? 0) eqn:E0; [lia|]. eexists. split; [reflexivity|].
    rewrite vector_prim_place, full_enum_vector.
    destruct (place_prim_bounds sz (vector_elems n m ld) 0 ((n - 1) * ld + m - 1) Hsz) as [Hlb Hext].
    { unfold vector_elems. apply in_flat_map. exists 0. split; apply In_zseq; lia. }
    { unfold vector_elems. apply in_flat_map. exists (n - 1). split; apply In_zseq; lia. }
    { intros e He. unfold vector_elems in He. apply in_flat_map in He. destruct He as [j [Hj He]].
      apply In_zseq in Hj. apply In_zseq in He. nia. }
    destruct (0 <=? rsz) eqn:Er.
    + rewrite selected_resized, selected_place_prim. cbn [lb ext resized]. auto.
    + rewrite selected_place_prim, Hlb, Hext. repeat split; lia.
Qed.

Lemma region_full uplo diag :
  uplo <> PARSEC_MATRIX_UPPER -> uplo <> PARSEC_MATRIX_LOWER ->
  region uplo diag = fun _ _ => true.
Proof.
  intros H1 H2. unfold region.
  destruct (uplo =? PARSEC_MATRIX_UPPER) eqn:E1; [lia|].
  destruct (uplo =? PARSEC_MATRIX_LOWER) eqn:E2; [lia|]. reflexivity.
Qed.

(* the public entry: for every uplo (anything that is not UPPER/LOWER means FULL) *)
Lemma datatype_spec sz uplo diag m n ld rsz :
  0 < sz -> 1 <= m -> 1 <= n -> m <= ld -> ld * n * sz < 2 ^ 31 ->
  exists t, define_datatype sz uplo diag m n ld rsz = (Ok t, ext t) /\
    selected t = elems sz (region_enum (region uplo diag) m n ld) /\ lb t = 0 /\
    ext t = if (uplo =? PARSEC_MATRIX_UPPER) || (uplo =? PARSEC_MATRIX_LOWER) then ld * n * sz
            else if 0 <=? rsz then rsz * sz else ((n - 1) * ld + m) * sz.
Proof.
  intros Hsz Hm Hn Hld Hov. unfold define_datatype.
  destruct ((uplo =? PARSEC_MATRIX_LOWER) || (uplo =? PARSEC_MATRIX_UPPER))%bool eqn:Eu.
  - destruct (triangle_spec sz uplo diag m n ld Hsz Hm Hn Hld Hov ltac:(lia)) as [t [Ht [Hs [Hl He]]]].
    exists t. rewrite Ht. split; [reflexivity|]. split; [exact Hs|]. split; [exact Hl|].
    replace ((uplo =? PARSEC_MATRIX_UPPER) || (uplo =? PARSEC_MATRIX_LOWER))%bool with true by lia. exact He.
  - replace ((uplo =? PARSEC_MATRIX_UPPER) || (uplo =? PARSEC_MATRIX_LOWER))%bool with false by lia.
    rewrite region_full by lia.
    destruct (rectangle_spec sz m n ld rsz Hsz Hm Hn Hld Hov) as [t [Ht [Hs [Hl He]]]].
    assert (Hr : (if m =? ld then define_contiguous sz (ld * n) rsz else define_rectangle sz m n ld rsz)
                 = Ok t).
    { destruct (m =? ld) eqn:E; [|exact Ht]. unfold define_rectangle in Ht. rewrite E in Ht. exact Ht. }
    exists t. rewrite Hr. auto.
Qed.

(* the extent covers the tile: every selected byte, and the whole m-by-n tile
   stored with leading dimension ld, lies inside [lb, lb + extent) *)
Lemma datatype_covers sz uplo diag m n ld rsz t e :
  0 < sz -> 1 <= m -> 1 <= n -> m <= ld -> ld * n * sz < 2 ^ 31 -> rsz < 0 ->
  define_datatype sz uplo diag m n ld rsz = (Ok t, e) ->
  e = ext t /\ ((n - 1) * ld + m) * sz <= ext t /\
  forall b, In b (selected t) -> lb t <= b < lb t + ext t.
Proof.
  intros Hsz Hm Hn Hld Hov Hr Hdef.
  destruct (datatype_spec sz uplo diag m n ld rsz Hsz Hm Hn Hld Hov) as [t' [Ht [Hs [Hl He]]]].
  rewrite Ht in Hdef. inversion Hdef; subst t' e. clear Hdef. split; [reflexivity|].
  assert (Hcov : ((n - 1) * ld + m) * sz <= ext t).
  { rewrite He. destruct ((uplo =? PARSEC_MATRIX_UPPER) || (uplo =? PARSEC_MATRIX_LOWER))%bool; [nia|].
    destruct (0 <=? rsz) eqn:?; lia. }
  split; [exact Hcov|]. intros b Hb. rewrite Hs in Hb. apply elems_In in Hb; [|exact Hsz].
  destruct Hb as [x [Hx Hb]]. apply region_enum_In in Hx. destruct Hx as [i [j [Hi [Hj [_ ->]]]]].
  rewrite Hl.
  assert (H1 : j * ld <= (n - 1) * ld) by nia.
  assert (H2 : 0 <= j * ld) by nia.
  assert (H3 : (i + j * ld + 1) * sz <= ((n - 1) * ld + m) * sz) by nia.
  assert (H4 : 0 <= (i + j * ld) * sz) by nia.
  lia.
Qed.

(* the arena shorthands *)
Lemma adt_spec kind sz diag m n ld :
  0 < sz -> 1 <= m -> 1 <= n -> m <= ld -> ld * n * sz < 2 ^ 31 -> m * m * sz < 2 ^ 31 ->
  0 <= kind <= 3 ->
  let uplo := if kind =? 1 then PARSEC_MATRIX_UPPER else if kind =? 2 then PARSEC_MATRIX_LOWER else PARSEC_MATRIX_FULL in
  let n' := if kind =? 0 then n else m in
  let ld' := if kind =? 0 then ld else m in
  exists t, adt_define kind sz diag m n ld = (Ok t, ext t) /\
    selected t = elems sz (region_enum (region uplo diag) m n' ld') /\ lb t = 0 /\
    ((n' - 1) * ld' + m) * sz <= ext t.
Proof.
  intros Hsz Hm Hn Hld Hov Hov2 Hk uplo n' ld'. unfold adt_define.
  assert (Hcase : kind = 0 \/ kind = 1 \/ kind = 2 \/ kind = 3) by lia.
  destruct Hcase as [-> | [-> | [-> | ->]]]; cbn [Z.eqb Pos.eqb] in *; subst uplo n' ld'.
  - destruct (datatype_spec sz PARSEC_MATRIX_FULL 0 m n ld (-1) Hsz Hm Hn Hld Hov) as [t [Ht [Hs [Hl He]]]].
    exists t. split; [exact Ht|]. split; [exact Hs|]. split; [exact Hl|]. rewrite He. cbn. lia.
  - destruct (datatype_spec sz PARSEC_MATRIX_UPPER diag m m m (-1) Hsz Hm Hm ltac:(lia) Hov2) as [t [Ht [Hs [Hl He]]]].
    exists t. split; [exact Ht|]. split; [exact Hs|]. split; [exact Hl|]. rewrite He. cbn. nia.
  - destruct (datatype_spec sz PARSEC_MATRIX_LOWER diag m m m (-1) Hsz Hm Hm ltac:(lia) Hov2) as [t [Ht [Hs [Hl He]]]].
    exists t. split; [exact Ht|]. split; [exact Hs|]. split; [exact Hl|]. rewrite He. cbn. nia.
  - destruct (datatype_spec sz PARSEC_MATRIX_FULL 0 m m m (-1) Hsz Hm Hm ltac:(lia) Hov2) as [t [Ht [Hs [Hl He]]]].
    exists t. split; [exact Ht|]. split; [exact Hs|]. split; [exact Hl|]. rewrite He. cbn. nia.
Qed.

(* membership form: the bytes selected are those of the elements of the region, each once *)
Lemma datatype_exactly_once sz uplo diag m n ld rsz t e :
  0 < sz -> 1 <= m -> 1 <= n -> m <= ld -> ld * n * sz < 2 ^ 31 ->
  define_datatype sz uplo diag m n ld rsz = (Ok t, e) ->
  NoDup (selected t) /\
  forall b, In b (selected t) <->
    exists i j, 0 <= i < m /\ 0 <= j < n /\ region uplo diag i j = true /\
                (i + j * ld) * sz <= b < (i + j * ld + 1) * sz.
Proof.
  intros Hsz Hm Hn Hld Hov Hdef.
  destruct (datatype_spec sz uplo diag m n ld rsz Hsz Hm Hn Hld Hov) as [t' [Ht [Hs [Hl He]]]].
  rewrite Ht in Hdef. inversion Hdef; subst t' e. clear Hdef. rewrite Hs. split.
  - apply elems_NoDup; [exact Hsz|]. apply region_enum_NoDup. exact Hld.
  - intros b. rewrite elems_In by exact Hsz. split.
    + intros [x [Hx Hb]]. apply region_enum_In in Hx. destruct Hx as [i [j [Hi [Hj [HP ->]]]]].
      exists i, j. auto.
    + intros [i [j [Hi [Hj [HP Hb]]]]]. exists (i + j * ld). split; [|exact Hb].
      apply region_enum_In. exists i, j. auto.
Qed.
