(* Executable model of the matrix datatype constructors
   (parsec/data_dist/matrix/matrixtypes.c) over the MPI wrappers of
   parsec/datatype/datatype_mpi.c.  No proofs here.

   A datatype is its type map flattened to bytes: the list, in type order, of
   blocks (byte displacement, number of consecutive bytes), plus a lower bound
   and an extent in bytes.  A basic type of [sz] bytes is the single block
   (0, sz).  The constructors have the semantics of MPI-3.1 section 4.1
   (MPI_Type_contiguous / vector / indexed / create_resized): the new type map
   is the concatenation of copies of the old one displaced by multiples of the
   old extent; lb / ub are the min / max over the copies.  (The alignment
   padding epsilon of the standard is 0 for the types built here: every
   displacement is a multiple of the size of the one basic type involved.)
   All arithmetic is in Z: the model coincides with the C arithmetic
   (unsigned int / int / ptrdiff_t) as long as ld*n*sz < 2^31. *)
From Coq Require Import ZArith List Bool.
Import ListNotations.
Local Open Scope Z_scope.

(* a, a+1, ..., a+n-1  (empty when n <= 0): the values of  for (i = a; i < a+n; i++) *)
Fixpoint zseq_nat (a : Z) (k : nat) : list Z :=
  match k with O => [] | S k' => a :: zseq_nat (a + 1) k' end.
Definition zseq (a n : Z) : list Z := zseq_nat a (Z.to_nat n).

Record dtype := { tmap : list (Z * Z); lb : Z; ext : Z }.

(* a predefined basic type of sz bytes (extent = size) *)
Definition prim (sz : Z) : dtype := {| tmap := [(0, sz)]; lb := 0; ext := sz |}.

(* what MPI_Pack(buf, 1, t) reads: byte offsets from buf, in order *)
Definition selected (t : dtype) : list Z := flat_map (fun b => zseq (fst b) (snd b)) (tmap t).
(* MPI_Type_size *)
Definition size (t : dtype) : Z := fold_right Z.add 0 (map snd (tmap t)).

Definition lmin (l : list Z) : Z := match l with [] => 0 | d :: r => fold_right Z.min d r end.
Definition lmax (l : list Z) : Z := match l with [] => 0 | d :: r => fold_right Z.max d r end.

(* copies of [old] placed at the byte displacements [ds], in that order *)
Definition place (old : dtype) (ds : list Z) : dtype :=
  {| tmap := flat_map (fun D => map (fun b => (D + fst b, snd b)) (tmap old)) ds;
     lb := match ds with [] => 0 | _ => lmin ds + lb old end;
     ext := match ds with [] => 0 | _ => lmax ds - lmin ds + ext old end |}.

(* MPI_Type_contiguous(count, old) *)
Definition contiguous (count : Z) (old : dtype) : dtype :=
  place old (map (fun i => i * ext old) (zseq 0 count)).
(* MPI_Type_vector(count, blocklength, stride, old): stride in multiples of the old extent *)
Definition vector (count blocklength stride : Z) (old : dtype) : dtype :=
  place old (flat_map (fun i => map (fun j => (i * stride + j) * ext old) (zseq 0 blocklength)) (zseq 0 count)).
(* MPI_Type_indexed(count, blocklengths, displacements, old): the first [count] entries of both arrays *)
Definition indexed (count : Z) (bls disps : list Z) (old : dtype) : dtype :=
  place old (flat_map (fun bd => map (fun j => (snd bd + j) * ext old) (zseq 0 (fst bd)))
                      (firstn (Z.to_nat count) (combine bls disps))).
(* MPI_Type_create_resized(old, lb, extent) *)
Definition resized (old : dtype) (l e : Z) : dtype := {| tmap := tmap old; lb := l; ext := e |}.

(* ---- matrixtypes.c ---- *)
Definition PARSEC_MATRIX_UPPER := 121.
Definition PARSEC_MATRIX_LOWER := 122.
Definition PARSEC_MATRIX_FULL  := 123.
Definition PARSEC_ERR_BAD_PARAM := -4.
Definition PARSEC_ERR_NOT_SUPPORTED := -7.

Inductive res := Ok (t : dtype) | Err (rc : Z).

(* the base type is a basic type of [sz] bytes: parsec_type_size gives sz *)

(* parsec_matrix_define_contiguous(oldtype, nb_elem, resized, newtype) *)
Definition define_contiguous (sz nb_elem rsz : Z) : res :=
  if sz =? 0 then Err PARSEC_ERR_NOT_SUPPORTED else
  let t := contiguous nb_elem (prim sz) in
  Ok (if 0 <=? rsz then resized t 0 (rsz * sz) else t).

(* parsec_matrix_define_rectangle(oldtype, mb, nb, ld, resized, newtype) *)
Definition define_rectangle (sz mb nb ld rsz : Z) : res :=
  if mb =? ld then define_contiguous sz (ld * nb) rsz else
  if sz =? 0 then Err PARSEC_ERR_NOT_SUPPORTED else
  let t := vector nb mb ld (prim sz) in
  Ok (if 0 <=? rsz then resized t 0 (rsz * sz) else t).

(* an int array of n cells after  for (i = lo; i < hi; i++) a[i] = f(i);
   cells that the loop does not write are shown as 0 (the code never reads them,
   see the proofs) *)
Definition fill (n lo hi : Z) (f : Z -> Z) : list Z :=
  map (fun i => if ((lo <=? i) && (i <? hi))%bool then f i else 0) (zseq 0 n).

(* parsec_matrix_define_triangle(oldtype, uplo, diag, m, n, ld, newtype) *)
Definition define_triangle (sz uplo diag m n ld : Z) : res :=
  let d := if diag =? 0 then 1 else 0 in                        (* diag = (diag == 0) ? 1 : 0; *)
  if uplo =? PARSEC_MATRIX_UPPER then
    let nmax := n - d in
    let blocklens := fill n d n (fun i => let mm := i + 1 - d in if mm <? m then mm else m) in
    let indices   := fill n d n (fun i => i * ld) in
    (* parsec_type_create_indexed(nmax, blocklens+diag, indices+diag, oldtype, &tmp) *)
    let tmp := indexed nmax (skipn (Z.to_nat d) blocklens) (skipn (Z.to_nat d) indices) (prim sz) in
    Ok (resized tmp 0 (ld * n * sz))
  else if uplo =? PARSEC_MATRIX_LOWER then
    let nmax := if m - d <=? n then m - d else n in            (* n >= (m-diag) ? m-diag : n *)
    let blocklens := fill n 0 nmax (fun i => m - i - d) in
    let indices   := fill n 0 nmax (fun i => i * ld + i + d) in
    let d := 0 in                                               (* diag = 0; *)
    let tmp := indexed nmax (skipn (Z.to_nat d) blocklens) (skipn (Z.to_nat d) indices) (prim sz) in
    Ok (resized tmp 0 (ld * n * sz))
  else Err PARSEC_ERR_BAD_PARAM.

(* parsec_matrix_define_datatype(newtype, oldtype, uplo, diag, m, n, ld, resized, extent):
   result and the value stored in *extent (parsec_type_extent of the new type) *)
Definition define_datatype (sz uplo diag m n ld rsz : Z) : res * Z :=
  let r :=
    if ((uplo =? PARSEC_MATRIX_LOWER) || (uplo =? PARSEC_MATRIX_UPPER))%bool
    then define_triangle sz uplo diag m n ld
    else if m =? ld then define_contiguous sz (ld * n) rsz
    else define_rectangle sz m n ld rsz in
  match r with
  | Ok t => (r, ext t)
  | Err _ => (r, 0)                                             (* *extent = 0 set on entry *)
  end.

(* the shorthands parsec_matrix_adt_define_{rect,upper,lower,square}: datatype and
   the element size handed to the arena (the extent) *)
Definition adt_define (kind sz diag m n ld : Z) : res * Z :=
  if kind =? 0 then define_datatype sz PARSEC_MATRIX_FULL 0 m n ld (-1)
  else if kind =? 1 then define_datatype sz PARSEC_MATRIX_UPPER diag m m m (-1)
  else if kind =? 2 then define_datatype sz PARSEC_MATRIX_LOWER diag m m m (-1)
  else define_datatype sz PARSEC_MATRIX_FULL 0 m m m (-1).

(* ---- the property's vocabulary (specification side) ---- *)

(* element (i, j) of the tile belongs to the region named by (uplo, diag):
   diag <> 0 asks for the diagonal to be included *)
Definition region (uplo diag i j : Z) : bool :=
  if uplo =? PARSEC_MATRIX_UPPER then (if diag =? 0 then i <? j else i <=? j)
  else if uplo =? PARSEC_MATRIX_LOWER then (if diag =? 0 then j <? i else j <=? i)
  else true.

(* column-major enumeration of the element offsets i + j*ld of the region of an
   m-by-n tile with leading dimension ld: columns j = 0..n-1, inside a column rows i = 0..m-1 *)
Definition region_enum (P : Z -> Z -> bool) (m n ld : Z) : list Z :=
  flat_map (fun j => map (fun i => i + j * ld) (filter (fun i => P i j) (zseq 0 m))) (zseq 0 n).

(* the bytes of the elements of size sz at the element offsets es, in order *)
Definition elems (sz : Z) (es : list Z) : list Z := flat_map (fun e => zseq (e * sz) sz) es.
