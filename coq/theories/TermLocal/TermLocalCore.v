(* Core invariant of the atomic-step model of the local termination detector under the
   client discipline: reference accounting (nb_tasks = task references held or in transit;
   nb_pending_actions = pending-action references + [nb_tasks > 0] - pending increments +
   pending decrements), at most one pending increment, exactly one thread before its
   ready while the monitor is NOT_READY, and the solo phase of set_*. *)
From PV Require Import Base.Tac Base.ListX TermLocal.TermLocalDefs TermLocal.TermLocalAux.
Local Open Scope Z_scope.

Definition pending (p : pcT) : list op :=
  match p with R1 => [OReady] | AT1 v => [OAddT v] | AP1 v => [OAddP v]
             | ST1 v _ => [OSetT v] | SP1 v _ => [OSetP v] | _ => [] end.
Definition todo th := pending (pc th) ++ ops th.
Definition pre th := has_ready (todo th).
Definition soloP th := has_set (todo th).
Definition is_inc th := match pc th with AInc _ => true | _ => false end.
Definition is_dec th := match pc th with ADec _ => true | _ => false end.
Definition busy_pc p := match p with Idle | Done => false | _ => true end.
Definition quietP th := (ht th =? 0) && (hp th =? 0) && negb (busy_pc (pc th)).
Definition nsq th := negb (soloP th) && negb (quietP th).

Definition pc_ok th : Prop :=
  match pc th with
  | AInc _ => 1 <= ht th /\ (1 <= hp th \/ pre th = true)
  | AT1 v | AP1 v => v <> 0
  | Done => ops th = []
  | _ => True end.

Definition TOK th : Prop :=
  0 <= ht th /\ 0 <= hp th /\
  wf_from (pre th) (soloP th) (ht th) (hp th) (todo th) = true /\ pc_ok th.

Definition XX n := Z.b2z (0 <? n).

Record Core (s : sh) (L : list thr) : Prop := mkCore {
  c_tok : AllT TOK L;
  c_gt : 0 <= gt s; c_gp : 0 <= gp s;
  c_nt : nt s = gt s + sumZ ht L;
  c_pa : pa s = gp s + sumZ hp L + XX (nt s) - cnt is_inc L + cnt is_dec L;
  c_inc : cnt is_inc L <= 1;
  c_pre : cnt pre L = Z.b2z (is_notready (mon s));
  c_solo : cnt soloP L = 0 \/ (gt s = 0 /\ gp s = 0 /\ cnt nsq L = 0) }.

Lemma wf_set_fr fr so a b l : wf_from fr so a b l = true -> has_set l = true -> fr = true.
Proof.
  revert fr so a b; induction l as [|o l IH]; intros fr so a b H Hs; cbn [wf_from] in H;
    cbn [has_set existsb is_set_op orb] in Hs; [discriminate|].
  destruct o as [| | |v|v|v|v|k|k]; try discriminate; try destruct k; andbs;
    try assumption;
    try (match goal with Hw : wf_from _ _ _ _ l = true |- _ => pose proof (IH _ _ _ _ Hw Hs) end);
    try assumption; try discriminate.
Qed.

Lemma solo_pre q : TOK q -> soloP q = true -> pre q = true.
Proof. intros (_ & _ & Hw & _) Hs. eapply wf_set_fr; eassumption. Qed.

Lemma b2z_le1 b : 0 <= Z.b2z b <= 1. Proof. destruct b; cbn; lia. Qed.

Lemma solo_le1 s L : Core s L -> cnt soloP L <= 1.
Proof.
  intros HC. pose proof (cnt_le_imp soloP pre L) as H.
  pose proof (b2z_le1 (is_notready (mon s))). rewrite <- (c_pre _ _ HC) in *.
  assert (cnt soloP L <= cnt pre L); [|lia].
  apply H. intros u q Hu. apply solo_pre. exact (c_tok _ _ HC u q Hu).
Qed.

Lemma quiet_inv q : quietP q = true -> ht q = 0 /\ hp q = 0 /\ busy_pc (pc q) = false.
Proof. unfold quietP. intros H. andbs. destruct (busy_pc (pc q)); [discriminate|]. lia. Qed.

Lemma others_quiet s L t th : Core s L -> nth_error L t = Some th -> soloP th = true ->
  gt s = 0 /\ gp s = 0 /\
  forall u q, u <> t -> nth_error L u = Some q -> quietP q = true.
Proof.
  intros HC Ht Hs. pose proof (cnt_pos_of_nth soloP L t th Ht Hs) as Hpos.
  destruct (c_solo _ _ HC) as [H0|(Hg & Hp & Hn)]; [lia|].
  repeat split; try assumption. intros u q Hne Hu.
  pose proof (cnt_only soloP L t th (solo_le1 _ _ HC) Ht Hs u q Hne Hu) as Hq.
  pose proof (cnt_zero_all nsq L Hn u q Hu) as Hz. unfold nsq in Hz. rewrite Hq in Hz. cbn in Hz.
  destruct (quietP q); [reflexivity|discriminate].
Qed.

Lemma solo_facts s L t th : Core s L -> nth_error L t = Some th -> soloP th = true ->
  gt s = 0 /\ gp s = 0 /\ sumZ ht L = ht th /\ sumZ hp L = hp th /\
  cnt is_inc L = Z.b2z (is_inc th) /\ cnt is_dec L = Z.b2z (is_dec th).
Proof.
  intros HC Ht Hs. destruct (others_quiet s L t th HC Ht Hs) as (Hg & Hp & Hq).
  repeat split; try assumption.
  - apply (sumZ_only ht L t th Ht). intros u q Hne Hu. apply (quiet_inv q (Hq u q Hne Hu)).
  - apply (sumZ_only hp L t th Ht). intros u q Hne Hu. apply (quiet_inv q (Hq u q Hne Hu)).
  - rewrite (cnt_eq_self is_inc L t th Ht); [destruct (is_inc th); reflexivity|].
    intros u q Hne Hu. destruct (quiet_inv q (Hq u q Hne Hu)) as (_ & _ & Hb).
    unfold is_inc. destruct (pc q); try reflexivity; discriminate.
  - rewrite (cnt_eq_self is_dec L t th Ht); [destruct (is_dec th); reflexivity|].
    intros u q Hne Hu. destruct (quiet_inv q (Hq u q Hne Hu)) as (_ & _ & Hb).
    unfold is_dec. destruct (pc q); try reflexivity; discriminate.
Qed.

Lemma nonsolo_quiet s L t th : Core s L -> nth_error L t = Some th -> soloP th = false ->
  0 < cnt soloP L -> quietP th = true /\ gt s = 0 /\ gp s = 0.
Proof.
  intros HC Ht Hs Hpos. destruct (c_solo _ _ HC) as [H0|(Hg & Hp & Hn)]; [lia|].
  repeat split; try assumption.
  pose proof (cnt_zero_all nsq L Hn t th Ht) as Hz. unfold nsq in Hz. rewrite Hs in Hz. cbn in Hz.
  destruct (quietP th); [reflexivity|discriminate].
Qed.

Lemma has_ready_cons o l : has_ready (o :: l) = is_ready_op o || has_ready l. Proof. reflexivity. Qed.
Lemma has_set_cons o l : has_set (o :: l) = is_set_op o || has_set l. Proof. reflexivity. Qed.

Lemma core_upd s' L t th th' : nth_error L t = Some th -> AllT TOK L ->
  (TOK th' /\
  0 <= gt s' /\ 0 <= gp s' /\
  nt s' = gt s' + (sumZ ht L - ht th + ht th') /\
  pa s' = gp s' + (sumZ hp L - hp th + hp th') + XX (nt s')
          - (cnt is_inc L - Z.b2z (is_inc th) + Z.b2z (is_inc th'))
          + (cnt is_dec L - Z.b2z (is_dec th) + Z.b2z (is_dec th')) /\
  cnt is_inc L - Z.b2z (is_inc th) + Z.b2z (is_inc th') <= 1 /\
  cnt pre L - Z.b2z (pre th) + Z.b2z (pre th') = Z.b2z (is_notready (mon s')) /\
  (cnt soloP L - Z.b2z (soloP th) + Z.b2z (soloP th') = 0 \/
   (gt s' = 0 /\ gp s' = 0 /\ cnt nsq L - Z.b2z (nsq th) + Z.b2z (nsq th') = 0))) ->
  Core s' (upd L t th').
Proof.
  intros Ht Hall (H1 & H2 & H3 & H4 & H5 & H6 & H7 & H8).
  constructor; rewrite ?(sumZ_upd _ _ _ _ _ Ht), ?(cnt_upd _ _ _ _ _ Ht); try assumption.
  apply (AllT_upd _ _ _ _ _ Ht Hall). auto.
Qed.

Ltac simp_in_all :=
    cbn [pc_ok is_inc is_dec XX goto ret_to add_ht add_hp
         pending pc ops ht hp rets app is_ready_op is_set_op orb andb negb wf_from busy_pc Z.b2z
         nt pa mon gt gp set_nt set_pa set_mon set_rc set_rdy set_gt set_gp cb_start cb_end is_notready] in *.

Lemma core_step s k L t th s' th' : nth_error L t = Some th -> Core s L ->
  tstep s k th = (s', th') -> Core s' (upd L t th').
Proof.
  intros Ht HC E.
  pose proof (c_tok _ _ HC t th Ht) as (Hht & Hhp & Hw & Hpc).
  assert (Hnn_t : AllT (fun q => 0 <= ht q) L) by (intros u q Hu; apply (c_tok _ _ HC u q Hu)).
  assert (Hnn_p : AllT (fun q => 0 <= hp q) L) by (intros u q Hu; apply (c_tok _ _ HC u q Hu)).
  pose proof (sumZ_ge_nth ht L t th Hnn_t Ht) as Hle_t.
  pose proof (sumZ_ge_nth hp L t th Hnn_p Ht) as Hle_p.
  pose proof (cnt_nonneg is_inc L) as Hn1. pose proof (cnt_nonneg is_dec L) as Hn2.
  pose proof (cnt_nonneg pre L) as Hn3. pose proof (cnt_nonneg soloP L) as Hn4.
  pose proof (cnt_nonneg nsq L) as Hn5.
  pose proof (c_gt _ _ HC) as Cgt. pose proof (c_gp _ _ HC) as Cgp.
  pose proof (c_nt _ _ HC) as Cnt. pose proof (c_pa _ _ HC) as Cpa.
  pose proof (c_inc _ _ HC) as Cinc. pose proof (c_pre _ _ HC) as Cpre.
  pose proof (c_solo _ _ HC) as Csolo. pose proof (solo_le1 _ _ HC) as Csolo1.
  assert (Hp1 : pre th = true -> 1 <= cnt pre L).
  { intros H. pose proof (cnt_pos_of_nth pre L t th Ht H). lia. }
  assert (Hi1 : is_inc th = true -> 1 <= cnt is_inc L).
  { intros H. pose proof (cnt_pos_of_nth is_inc L t th Ht H). lia. }
  assert (Hd1 : is_dec th = true -> 1 <= cnt is_dec L).
  { intros H. pose proof (cnt_pos_of_nth is_dec L t th Ht H). lia. }
  assert (Hs1 : soloP th = true -> 1 <= cnt soloP L).
  { intros H. pose proof (cnt_pos_of_nth soloP L t th Ht H). lia. }
  assert (Hq1 : nsq th = true -> 1 <= cnt nsq L).
  { intros H. pose proof (cnt_pos_of_nth nsq L t th Ht H). lia. }
  assert (Hinc_nt : 1 <= cnt is_inc L -> 1 <= sumZ ht L).
  { intros H. destruct (cnt_pos_exists is_inc L) as (u & q & Hu & Hq); [lia|].
    pose proof (sumZ_ge_nth ht L u q Hnn_t Hu). destruct (c_tok _ _ HC u q Hu) as (_ & _ & _ & Hpq).
    unfold pc_ok in Hpq. unfold is_inc in Hq. destruct (pc q); try discriminate. lia. }
  assert (Hps : Z.b2z (pre th) - Z.b2z (soloP th) <= cnt pre L - cnt soloP L).
  { pose (th0 := mkThr Done [] [] 0 0).
    assert (Hle : cnt soloP (upd L t th0) <= cnt pre (upd L t th0)).
    { apply cnt_le_imp. apply (AllT_upd _ _ _ _ _ Ht).
      - intros u q Hu. apply solo_pre. exact (c_tok _ _ HC u q Hu).
      - cbn. discriminate. }
    rewrite !(cnt_upd _ _ _ _ _ Ht) in Hle. cbn in Hle.
    destruct (pre th), (soloP th); cbn in *; lia. }
  pose proof (solo_facts s L t th HC Ht) as Hsolo.
  pose proof (nonsolo_quiet s L t th HC Ht) as Hnsq.
  apply (core_upd s' L t th th' Ht (c_tok _ _ HC)).
  clear HC Hnn_t Hnn_p Ht.
  generalize dependent (cnt is_inc L); intros Ni.
  generalize dependent (cnt is_dec L); intros Nd.
  generalize dependent (cnt pre L); intros Np.
  generalize dependent (cnt soloP L); intros Ns.
  generalize dependent (cnt nsq L); intros Nq.
  generalize dependent (sumZ ht L); intros St.
  generalize dependent (sumZ hp L); intros Sp.
  clear L t.
  intros.
  destruct th as [p o r a b]. unfold tstep in E. cbn [pc ops rets ht hp] in *.
  destruct p; [destruct o as [|[| | |v|v|v|v|[|]|[|]] o]|..].
  all: unfold chk in E.
  all: repeat match type of E with context [if ?b then _ else _] => destruct b eqn:? end.
  all: inversion E.
  all: subst s' th'; clear E.
  all: (unfold TOK, pc_ok, nsq, quietP, pre, soloP, todo, XX in *; simp_in_all; rewrite ?has_ready_cons, ?has_set_cons in *; simp_in_all).
  all: repeat match goal with H : context [if ?b then _ else _] |- _ => destruct b eqn:? end.
  all: (try discriminate; andbs).
  all: repeat match goal with
    | H : wf_from ?fr ?so ?x ?y ?l = true |- _ =>
        lazymatch goal with
        | _ : wf_from (has_ready l) (has_set l) x y l = true |- _ => fail
        | _ => pose proof (wf_norm _ _ _ _ _ H); pose proof (wf_fr _ _ _ _ _ H);
               pose proof (wf_so _ _ _ _ _ H)
        end
    end.
  all: repeat apply conj.
  all: try assumption.
  all: try lia.
  all: try reflexivity.
  all: try (match goal with H : wf_from ?f ?g ?x ?y ?l = true |- wf_from ?f ?g ?x' ?y' ?l = true =>
        replace x' with x by lia; replace y' with y by lia; exact H end).
  all: try lia.
  all: destruct (mon s); cbn in *; try discriminate; lia.
Qed.
