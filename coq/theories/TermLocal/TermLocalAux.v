(* Sums / counts over the per-thread list, and the static-discipline lemmas. *)
From PV Require Import Base.Tac Base.ListX TermLocal.TermLocalDefs.
Local Open Scope Z_scope.

Section Sum.
Context {A : Type}.
Definition sumZ (f : A -> Z) (l : list A) : Z := fold_right (fun x a => f x + a) 0 l.

Lemma sumZ_cons f x l : sumZ f (x :: l) = f x + sumZ f l. Proof. reflexivity. Qed.
Lemma sumZ_app f a b : sumZ f (a ++ b) = sumZ f a + sumZ f b.
Proof. induction a as [|x a IH]; [reflexivity|]. cbn [app]. rewrite !sumZ_cons, IH. lia. Qed.

Lemma sumZ_upd f (l : list A) t p q : nth_error l t = Some p ->
  sumZ f (upd l t q) = sumZ f l - f p + f q.
Proof.
  intros H. unfold upd. rewrite (split_nth l t p H) at 3.
  rewrite !sumZ_app, !sumZ_cons. lia.
Qed.

Definition AllT (P : A -> Prop) (l : list A) : Prop := forall u q, nth_error l u = Some q -> P q.

Lemma AllT_cons P x l : AllT P (x :: l) -> P x /\ AllT P l.
Proof. intros H. split; [apply (H 0%nat); reflexivity|]. intros u q Hu. apply (H (S u)). exact Hu. Qed.

Lemma AllT_upd P (l : list A) t p q : nth_error l t = Some p -> AllT P l -> P q -> AllT P (upd l t q).
Proof.
  intros Ht Hall Hq u r Hu. destruct (Nat.eq_dec u t) as [->|Hne].
  - rewrite (nth_upd_same _ _ _ _ Ht) in Hu. inversion Hu; subst; assumption.
  - rewrite (nth_upd_other _ _ _ _ _ Ht Hne) in Hu. eapply Hall; eassumption.
Qed.

Lemma AllT_imp (P Q : A -> Prop) l : (forall q, P q -> Q q) -> AllT P l -> AllT Q l.
Proof. intros H Hl u q Hu. apply H. eapply Hl; eassumption. Qed.

Lemma sumZ_nonneg f l : AllT (fun q => 0 <= f q) l -> 0 <= sumZ f l.
Proof.
  induction l as [|x l IH]; intros H; [cbn; lia|].
  apply AllT_cons in H. destruct H as [Hx Hl]. rewrite sumZ_cons. specialize (IH Hl). lia.
Qed.

Lemma sumZ_ge_nth f l t p : AllT (fun q => 0 <= f q) l -> nth_error l t = Some p -> f p <= sumZ f l.
Proof.
  revert t; induction l as [|x l IH]; intros t H Ht; [destruct t; discriminate|].
  apply AllT_cons in H. destruct H as [Hx Hl]. rewrite sumZ_cons.
  destruct t as [|t]; cbn in Ht.
  - inversion Ht; subst. pose proof (sumZ_nonneg f l Hl). lia.
  - specialize (IH t Hl Ht). lia.
Qed.

Lemma sumZ_zero_all f l : AllT (fun q => 0 <= f q) l -> sumZ f l = 0 -> AllT (fun q => f q = 0) l.
Proof.
  intros Hnn Hs u q Hu. pose proof (sumZ_ge_nth f l u q Hnn Hu). pose proof (Hnn u q Hu). cbn in *. lia.
Qed.

(* only position t contributes *)
Lemma sumZ_only f l t p : nth_error l t = Some p ->
  (forall u q, u <> t -> nth_error l u = Some q -> f q = 0) -> sumZ f l = f p.
Proof.
  revert t; induction l as [|x l IH]; intros t Ht H; [destruct t; discriminate|].
  rewrite sumZ_cons. destruct t as [|t]; cbn in Ht.
  - inversion Ht; subst.
    assert (Hz : sumZ f l = 0).
    { clear -H. assert (H' : forall u q, nth_error l u = Some q -> f q = 0).
      { intros u q Hu. apply (H (S u) q); [discriminate|exact Hu]. }
      clear H. induction l as [|y l IH]; [reflexivity|]. rewrite sumZ_cons.
      rewrite (H' 0%nat y eq_refl). rewrite IH; [lia|]. intros u q Hu. apply (H' (S u)). exact Hu. }
    lia.
  - rewrite (H 0%nat x); [|discriminate|reflexivity].
    rewrite (IH t Ht); [lia|]. intros u q Hne Hu. apply (H (S u) q); [congruence|exact Hu].
Qed.

Lemma cnt_zero_of_all (f : A -> bool) l : AllT (fun q => f q = false) l -> cnt f l = 0.
Proof.
  induction l as [|x l IH]; intros H; [reflexivity|].
  apply AllT_cons in H. destruct H as [Hx Hl]. rewrite cnt_cons, Hx, (IH Hl). lia.
Qed.

Lemma cnt_pos_exists (f : A -> bool) l : 0 < cnt f l -> exists u q, nth_error l u = Some q /\ f q = true.
Proof.
  induction l as [|x l IH]; intros H; [rewrite cnt_nil in H; lia|].
  destruct (f x) eqn:E.
  - exists 0%nat, x. auto.
  - rewrite cnt_cons, E in H. destruct IH as (u & q & Hu & Hq); [lia|]. exists (S u), q. auto.
Qed.

Lemma cnt_le_imp (f g : A -> bool) l : AllT (fun q => f q = true -> g q = true) l -> cnt f l <= cnt g l.
Proof.
  induction l as [|x l IH]; intros H; [rewrite !cnt_nil; lia|].
  apply AllT_cons in H. destruct H as [Hx Hl]. rewrite !cnt_cons. specialize (IH Hl).
  destruct (f x) eqn:E; [rewrite (Hx eq_refl); lia|]. destruct (g x); lia.
Qed.

Lemma cnt_only (f : A -> bool) l t p : cnt f l <= 1 -> nth_error l t = Some p -> f p = true ->
  forall u q, u <> t -> nth_error l u = Some q -> f q = false.
Proof.
  revert t; induction l as [|x l IH]; intros t Hc Ht Hp u q Hne Hu; [destruct t; discriminate|].
  rewrite cnt_cons in Hc. pose proof (cnt_nonneg f l) as Hnn.
  destruct t as [|t], u as [|u]; cbn in Ht, Hu; try congruence.
  - inversion Ht; subst x. rewrite Hp in Hc.
    destruct (f q) eqn:E; [|reflexivity]. pose proof (cnt_pos_of_nth f l u q Hu E). lia.
  - inversion Hu; subst x. destruct (f q) eqn:E; [|reflexivity].
    pose proof (cnt_pos_of_nth f l t p Ht Hp). lia.
  - apply (IH t) with (u := u); auto. destruct (f x); lia.
Qed.

Lemma cnt_eq_self (f : A -> bool) l t p : nth_error l t = Some p ->
  (forall u q, u <> t -> nth_error l u = Some q -> f q = false) ->
  cnt f l = if f p then 1 else 0.
Proof.
  revert t; induction l as [|x l IH]; intros t Ht H; [destruct t; discriminate|].
  rewrite cnt_cons. destruct t as [|t]; cbn in Ht.
  - inversion Ht; subst. rewrite (cnt_zero_of_all f l); [lia|].
    intros u q Hu. apply (H (S u) q); [discriminate|exact Hu].
  - rewrite (H 0%nat x); [|discriminate|reflexivity].
    rewrite (IH t Ht); [lia|]. intros u q Hne Hu. apply (H (S u) q); [congruence|exact Hu].
Qed.
End Sum.

Lemma cnt_map_comp {A B} (g : B -> A) (f : A -> bool) l : cnt f (map g l) = cnt (fun x => f (g x)) l.
Proof. rewrite cnt_map. reflexivity. Qed.

(* ---- the static discipline ------------------------------------------------------- *)
Ltac andbs := repeat match goal with H : _ && _ = true |- _ => apply andb_prop in H; destruct H end.

Lemma wf_fr fr so a b l : wf_from fr so a b l = true -> fr = has_ready l.
Proof.
  revert fr so a b; induction l as [|o l IH]; intros fr so a b H; cbn [wf_from] in H.
  - destruct fr; [discriminate|reflexivity].
  - destruct o as [| | |v|v|v|v|k|k]; cbn [has_ready existsb is_ready_op orb];
      try discriminate; try destruct k; andbs;
      try (eapply IH; eassumption).
    all: destruct fr; [reflexivity|discriminate].
Qed.

Lemma wf_so fr so a b l : wf_from fr so a b l = true -> has_set l = true -> so = true.
Proof.
  revert fr so a b; induction l as [|o l IH]; intros fr so a b H Hs; cbn [wf_from] in H;
    cbn [has_set existsb is_set_op orb] in Hs; [discriminate|].
  destruct o as [| | |v|v|v|v|k|k]; try discriminate; try destruct k; andbs;
    try assumption;
    try (match goal with Hw : wf_from _ _ _ _ l = true |- _ => pose proof (IH _ _ _ _ Hw Hs) end);
    try assumption; try discriminate.
Qed.

Lemma wf_so_irrel fr so so' a b l : has_set l = false -> wf_from fr so a b l = wf_from fr so' a b l.
Proof.
  revert fr so so' a b; induction l as [|o l IH]; intros fr so so' a b Hs; [reflexivity|].
  cbn [has_set existsb is_set_op] in Hs.
  destruct o as [| | |v|v|v|v|k|k]; cbn [wf_from]; cbn [orb] in Hs; try discriminate; try reflexivity;
    try destruct k; try (f_equal; apply IH; exact Hs); try (apply IH; exact Hs).
Qed.

(* the parameters are determined by the remaining list *)
Lemma wf_norm fr so a b l : wf_from fr so a b l = true ->
  wf_from (has_ready l) (has_set l) a b l = true.
Proof.
  intros H. rewrite <- (wf_fr _ _ _ _ _ H).
  destruct (has_set l) eqn:E.
  - rewrite (wf_so _ _ _ _ _ H E) in H. exact H.
  - rewrite (wf_so_irrel fr false so a b l E). exact H.
Qed.
