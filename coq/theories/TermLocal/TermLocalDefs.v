(* Executable atomic-step model of parsec/mca/termdet/local/termdet_local_module.c.

   Shared state: nb_tasks, nb_pending_actions, tdm.monitor (NOT_READY / BUSY /
   TERMINATING / TERMINATED), the taskpool's object reference count (ready
   retains, termination_detected releases), callback start / return counts.

   One model thread runs a list of module operations.  One step = the code
   between two scheduling points of the harness (harness/h_termlocal.c): a
   scheduling point sits before every parsec_atomic_* read-modify-write of the
   module (interpose.h), inside the user callback, and between two operations.
   Plain reads (tp->tdm.monitor, tp->nb_pending_actions, tp->nb_tasks) belong
   to the segment that contains them.

   Ghost state (no influence on the non-ghost fields): per-thread numbers of
   references held (ht: task references, hp: pending-action references) and
   the references in transit between threads (gt, gp).  OGive/OTake hand a
   reference from one thread to another (harness: a mailbox counter; OTake
   blocks, i.e. stutters, until one is available). *)
From Coq Require Import ZArith List Bool.
From PV Require Import Base.ListX.
Import ListNotations.
Local Open Scope Z_scope.

Inductive monst := NotReady | Busy | Terminating | Terminated.

Inductive op :=
| OMonitor                (* monitor_taskpool: plain store NOT_READY *)
| OReady                  (* taskpool_ready *)
| OState                  (* taskpool_state: plain read *)
| OAddT (v : Z)           (* taskpool_addto_nb_tasks *)
| OAddP (v : Z)           (* taskpool_addto_runtime_actions *)
| OSetT (v : Z)           (* taskpool_set_nb_tasks *)
| OSetP (v : Z)           (* taskpool_set_runtime_actions *)
| OGive (task : bool)     (* ghost: put one held reference into the mailbox *)
| OTake (task : bool).    (* ghost: wait for a reference in the mailbox and take it *)

Inductive pcT :=
| Idle                    (* between two operations *)
| R1                      (* ready: before CAS NOT_READY -> BUSY *)
| R2                      (* ready: before OBJ_RETAIN (then plain read of nb_pending_actions) *)
| AT1 (v : Z)             (* addto_nb_tasks: before fetch_add(nb_tasks, v) *)
| AInc (ret : Z)          (* before fetch_inc(nb_pending_actions) (then plain read of monitor) *)
| ADec (ret : Z)          (* before fetch_dec(nb_pending_actions) (then plain read of monitor) *)
| AP1 (v : Z)             (* addto_runtime_actions: before fetch_add(nb_pending_actions, v) *)
| ST1 (v ov : Z)          (* set_nb_tasks: before CAS(nb_tasks, ov, v) *)
| SP1 (v ov : Z)          (* set_runtime_actions: before CAS(nb_pending_actions, ov, v) *)
| TCas (ret : Z)          (* before CAS BUSY -> TERMINATING *)
| TCb (ret : Z)           (* inside the user callback *)
| TFin (ret : Z)          (* before CAS TERMINATING -> TERMINATED *)
| TRel (ret : Z)          (* before OBJ_RELEASE *)
| Done.

Record thr := mkThr { pc : pcT; ops : list op; rets : list Z; ht : Z; hp : Z }.

Record sh := mkSh {
  nt : Z; pa : Z; mon : monst; rc : Z; dead : Z;
  cbs : Z; cbd : Z;          (* callback started / returned *)
  cb_at : Z;                 (* clock of the first callback start, 0 = never *)
  cb_bad : Z;                (* callback entries/exits that saw a non-zero counter *)
  rdy_at : Z;                (* clock at which the first ready() call began, 0 = never *)
  gt : Z; gp : Z }.          (* ghost: references in transit *)

Definition set_nt s v := mkSh v (pa s) (mon s) (rc s) (dead s) (cbs s) (cbd s) (cb_at s) (cb_bad s) (rdy_at s) (gt s) (gp s).
Definition set_pa s v := mkSh (nt s) v (mon s) (rc s) (dead s) (cbs s) (cbd s) (cb_at s) (cb_bad s) (rdy_at s) (gt s) (gp s).
Definition set_mon s v := mkSh (nt s) (pa s) v (rc s) (dead s) (cbs s) (cbd s) (cb_at s) (cb_bad s) (rdy_at s) (gt s) (gp s).
Definition set_rc s v d := mkSh (nt s) (pa s) (mon s) v d (cbs s) (cbd s) (cb_at s) (cb_bad s) (rdy_at s) (gt s) (gp s).
Definition set_rdy s v := mkSh (nt s) (pa s) (mon s) (rc s) (dead s) (cbs s) (cbd s) (cb_at s) (cb_bad s) v (gt s) (gp s).
Definition set_gt s v := mkSh (nt s) (pa s) (mon s) (rc s) (dead s) (cbs s) (cbd s) (cb_at s) (cb_bad s) (rdy_at s) v (gp s).
Definition set_gp s v := mkSh (nt s) (pa s) (mon s) (rc s) (dead s) (cbs s) (cbd s) (cb_at s) (cb_bad s) (rdy_at s) (gt s) v.

Definition nonzero s : Z := if (nt s =? 0) && (pa s =? 0) then 0 else 1.
(* CAS BUSY -> TERMINATING succeeded: the callback starts in the same segment *)
Definition cb_start s k := mkSh (nt s) (pa s) Terminating (rc s) (dead s) (cbs s + 1) (cbd s)
  (if cbs s =? 0 then k else cb_at s) (cb_bad s + nonzero s) (rdy_at s) (gt s) (gp s).
Definition cb_end s := mkSh (nt s) (pa s) (mon s) (rc s) (dead s) (cbs s) (cbd s + 1)
  (cb_at s) (cb_bad s + nonzero s) (rdy_at s) (gt s) (gp s).

Definition is_busy m := match m with Busy => true | _ => false end.
Definition is_notready m := match m with NotReady => true | _ => false end.
Definition is_terminating m := match m with Terminating => true | _ => false end.
Definition is_terminated m := match m with Terminated => true | _ => false end.

(* value returned by taskpool_state (parsec_termdet_taskpool_state_t), plus what the
   harness adds when it sees TERMINATED: +100 a counter is non-zero, +200 the callback
   has not returned *)
Definition state_ret s : Z :=
  match mon s with
  | NotReady => 1
  | Busy | Terminating => 2
  | Terminated => 4 + (if nonzero s =? 0 then 0 else 100) + (if cbd s =? 0 then 200 else 0)
  end.

Definition goto th p := mkThr p (ops th) (rets th) (ht th) (hp th).
Definition ret_to th r := mkThr Idle (ops th) (r :: rets th) (ht th) (hp th).
Definition add_ht th d := mkThr (pc th) (ops th) (rets th) (ht th + d) (hp th).
Definition add_hp th d := mkThr (pc th) (ops th) (rets th) (ht th) (hp th + d).

(* "if( tp->tdm.monitor == BUSY && nbpa == 0 ) if( CAS... )" : the plain read of the
   monitor is in the segment of the preceding atomic, the CAS is the next segment *)
Definition chk s th (nbpa ret : Z) : thr :=
  if is_busy (mon s) && (nbpa =? 0) then goto th (TCas ret) else ret_to th ret.

Definition tstep (s : sh) (k : Z) (th : thr) : sh * thr :=
  match pc th with
  | Done => (s, th)
  | Idle =>
    match ops th with
    | [] => (s, goto th Done)
    | o :: rest =>
      let th0 := mkThr Idle rest (rets th) (ht th) (hp th) in
      match o with
      | OMonitor => (set_mon s NotReady, th0)
      | OReady => (set_rdy s (if rdy_at s =? 0 then k else rdy_at s), goto th0 R1)
      | OState => (s, ret_to th0 (state_ret s))
      | OAddT v => if v =? 0 then (s, ret_to th0 (nt s)) else (s, goto th0 (AT1 v))
      | OAddP v => if v =? 0 then (s, ret_to th0 (pa s)) else (s, goto th0 (AP1 v))
      | OSetT v => if nt s =? v then (s, ret_to th0 (nt s)) else (s, goto th0 (ST1 v (nt s)))
      | OSetP v => (s, goto th0 (SP1 v (pa s)))
      | OGive true => (set_gt s (gt s + 1), add_ht th0 (-1))
      | OGive false => (set_gp s (gp s + 1), add_hp th0 (-1))
      | OTake true => if 0 <? gt s then (set_gt s (gt s - 1), add_ht th0 1) else (s, th)
      | OTake false => if 0 <? gp s then (set_gp s (gp s - 1), add_hp th0 1) else (s, th)
      end
    end
  | R1 => ((if is_notready (mon s) then set_mon s Busy else s), goto th R2)
  | R2 => let s' := set_rc s (rc s + 1) (dead s) in
          if pa s =? 0 then (s', goto th (TCas 0)) else (s', ret_to th 0)
  | AT1 v =>
    let ov := nt s in
    let s' := set_nt s (ov + v) in
    let th' := add_ht th v in
    if (ov =? 0) && (0 <? v) then (s', goto th' (AInc (ov + v)))
    else if (ov + v =? 0) && (0 <? ov) then (s', goto th' (ADec (ov + v)))
    else (s', ret_to th' (ov + v))
  | AInc r => let s' := set_pa s (pa s + 1) in (s', chk s' th (pa s + 1) r)
  | ADec r => let s' := set_pa s (pa s - 1) in (s', chk s' th (pa s - 1) r)
  | AP1 v => let s' := set_pa s (pa s + v) in (s', chk s' (add_hp th v) (pa s + v) (pa s + v))
  | ST1 v ov =>
    if nt s =? ov then
      let s' := set_nt s v in
      let th' := add_ht th (v - ov) in
      if (ov =? 0) && (0 <? v) then (s', goto th' (AInc v))
      else if (0 <? ov) && (v =? 0) then (s', goto th' (ADec v))
      else (s', ret_to th' v)
    else (s, goto th (ST1 v (nt s)))
  | SP1 v ov =>
    if pa s =? ov then
      let s' := set_pa s v in (s', chk s' (add_hp th (v - ov)) v v)
    else (s, goto th (SP1 v (pa s)))
  | TCas r => if is_busy (mon s) then (cb_start s k, goto th (TCb r)) else (s, ret_to th r)
  | TCb r => (cb_end s, goto th (TFin r))
  | TFin r => ((if is_terminating (mon s) then set_mon s Terminated else s), goto th (TRel r))
  | TRel r => (set_rc s (rc s - 1) (dead s + (if rc s - 1 =? 0 then 1 else 0)), ret_to th r)
  end.

Record cfg := mkCfg { shd : sh; clk : Z; thrs : list thr }.

Definition is_done th := match pc th with Done => true | _ => false end.

Definition step (c : cfg) (t : nat) : cfg :=
  match nth_error (thrs c) t with
  | None => c
  | Some th =>
    if is_done th then c
    else let '(s', th') := tstep (shd c) (clk c + 1) th in
         mkCfg s' (clk c + 1) (upd (thrs c) t th')
  end.

Definition init_sh (rc0 : Z) := mkSh 0 0 NotReady rc0 0 0 0 0 0 0 0 0.
Definition init_thr (l : list op) := mkThr Idle l [] 0 0.
Definition init (rc0 : Z) (prog : list (list op)) : cfg := mkCfg (init_sh rc0) 0 (map init_thr prog).
Definition run (c : cfg) (sched : list nat) : cfg := fold_left step sched c.

(* ---- the client discipline, a static check of each thread's operation list --------
   fr  : this thread still has its (single) ready ahead: increments need no reference
   so  : no reference has been handed over yet by this thread (set_* allowed; see Proofs)
   a b : references it holds (task / pending-action)                                    *)
Fixpoint wf_from (fr so : bool) (a b : Z) (l : list op) : bool :=
  match l with
  | [] => negb fr
  | OMonitor :: _ => false
  | OState :: r => wf_from fr so a b r
  | OReady :: r => fr && wf_from false false a b r
  | OAddT v :: r =>
      (if 0 <? v then fr || (0 <? a + b) else 0 <=? a + v) && wf_from fr so (a + v) b r
  | OAddP v :: r =>
      (if 0 <? v then fr || (0 <? a + b) else 0 <=? b + v) && wf_from fr so a (b + v) r
  | OSetT v :: r => fr && so && (0 <=? v) && wf_from fr so v b r
  | OSetP v :: r =>
      let x := Z.b2z (0 <? a) in
      fr && so && (0 <=? v - x) && wf_from fr so a (v - x) r
  | OGive true :: r => (1 <=? a) && wf_from fr false (a - 1) b r
  | OGive false :: r => (1 <=? b) && wf_from fr false a (b - 1) r
  | OTake true :: r => wf_from fr so (a + 1) b r
  | OTake false :: r => wf_from fr so a (b + 1) r
  end.

Definition is_ready_op o := match o with OReady => true | _ => false end.
Definition is_set_op o := match o with OSetT _ | OSetP _ => true | _ => false end.
Definition has_ready (l : list op) := existsb is_ready_op l.
Definition has_set (l : list op) := existsb is_set_op l.

(* a program: one operation list per thread; exactly one thread calls ready (once);
   only that thread may use set_*, and only before it hands over a reference *)
Definition wf_prog (prog : list (list op)) : bool :=
  forallb (fun l => wf_from (has_ready l) (has_ready l) 0 0 l) prog &&
  (cnt has_ready prog =? 1).

(* observations used by the driver *)
Definition mon_code m : Z := match m with NotReady => 1 | Busy => 2 | Terminating => 3 | Terminated => 0 end.
