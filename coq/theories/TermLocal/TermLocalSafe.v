(* Safety and operational invariants of the local termination detector model:
   - Quiet: nobody holds a reference, both counters are 0, no counter update in flight;
     once the monitor has left NOT_READY a quiet state stays quiet (quiet_step), and a BUSY
     state with nb_pending_actions = 0 is quiet (quiet_of_core);
   - Safe: TERMINATING/TERMINATED, or BUSY with a thread about to CAS, implies Quiet;
     callback bookkeeping;
   - Oper: a detection is never missed; clocks of ready and of the callback. *)
From PV Require Import Base.Tac Base.ListX TermLocal.TermLocalDefs TermLocal.TermLocalAux TermLocal.TermLocalCore.
Local Open Scope Z_scope.

Definition calm p := match p with AT1 _ | AInc _ | ADec _ | AP1 _ | ST1 _ _ | SP1 _ _ => false | _ => true end.
Definition activeP th := negb ((ht th =? 0) && (hp th =? 0) && calm (pc th)).
Definition at_cas th := match pc th with TCas _ => true | _ => false end.
Definition at_r1 th := match pc th with R1 => true | _ => false end.
Definition at_r2 th := match pc th with R2 => true | _ => false end.
Definition in_cb th := match pc th with TCb _ => true | _ => false end.
Definition in_term th := match pc th with TCb _ | TFin _ => true | _ => false end.

Lemma cnt_upd2 {A} (f : A -> bool) l t p q : nth_error l t = Some p ->
  cnt f (upd l t q) = cnt f l - Z.b2z (f p) + Z.b2z (f q).
Proof. intros H. rewrite (cnt_upd f l t p q H). destruct (f p), (f q); reflexivity. Qed.

Definition Quiet s L := gt s = 0 /\ gp s = 0 /\ nt s = 0 /\ pa s = 0 /\ cnt activeP L = 0.

Ltac simp2 :=
    cbn [pc_ok is_inc is_dec goto ret_to add_ht add_hp calm at_cas at_r1 at_r2 in_cb in_term
         pending pc ops ht hp rets app is_ready_op is_set_op orb andb negb wf_from busy_pc Z.b2z
         nt pa mon gt gp cbs cbd cb_at cb_bad rdy_at rc dead
         set_nt set_pa set_mon set_rc set_rdy set_gt set_gp cb_start cb_end
         is_notready is_busy is_terminating is_terminated] in *.

Ltac tcases th s' th' E :=
  destruct th as [p o r a b]; unfold tstep in E; cbn [pc ops rets ht hp] in *;
  destruct p; [destruct o as [|[| | |v|v|v|v|[|]|[|]] o]|..]; unfold chk in E;
  repeat match type of E with context [if ?b then _ else _] => destruct b eqn:? end;
  inversion E; subst s' th'; clear E.

Ltac unf := unfold TOK, pc_ok, nsq, quietP, activeP, pre, soloP, todo, XX, nonzero in *.
Ltac prep := unf; simp2; rewrite ?has_ready_cons, ?has_set_cons in *; simp2;
  repeat match goal with H : context [if ?b then _ else _] |- _ => destruct b eqn:? end;
  try discriminate; andbs.

(* a state with the monitor BUSY and no pending action is quiescent: nobody holds a
   reference, no counter update is in flight *)
Lemma quiet_of_core s L : Core s L -> pa s = 0 -> is_busy (mon s) = true -> Quiet s L.
Proof.
  intros HC Hpa Hb.
  assert (Hnn_t : AllT (fun q => 0 <= ht q) L) by (intros u q Hu; apply (c_tok _ _ HC u q Hu)).
  assert (Hnn_p : AllT (fun q => 0 <= hp q) L) by (intros u q Hu; apply (c_tok _ _ HC u q Hu)).
  pose proof (sumZ_nonneg ht L Hnn_t) as Ht0. pose proof (sumZ_nonneg hp L Hnn_p) as Hp0.
  pose proof (cnt_nonneg is_inc L) as Hn1. pose proof (cnt_nonneg is_dec L) as Hn2.
  pose proof (c_gt _ _ HC) as Cgt. pose proof (c_gp _ _ HC) as Cgp.
  pose proof (c_nt _ _ HC) as Cnt. pose proof (c_pa _ _ HC) as Cpa.
  pose proof (c_inc _ _ HC) as Cinc. pose proof (c_pre _ _ HC) as Cpre.
  assert (Hnr : is_notready (mon s) = false) by (destruct (mon s); try discriminate; reflexivity).
  rewrite Hnr in Cpre. cbn in Cpre.
  assert (Hi0 : cnt is_inc L = 0).
  { destruct (Z.eq_dec (cnt is_inc L) 0) as [|Hne]; [assumption|exfalso].
    destruct (cnt_pos_exists is_inc L) as (u & q & Hu & Hq); [lia|].
    destruct (c_tok _ _ HC u q Hu) as (_ & _ & _ & Hpq).
    pose proof (sumZ_ge_nth ht L u q Hnn_t Hu). pose proof (sumZ_ge_nth hp L u q Hnn_p Hu).
    unfold pc_ok in Hpq. unfold is_inc in Hq. destruct (pc q); try discriminate.
    destruct Hpq as (Hq1 & [Hq2|Hq2]).
    - unfold XX in *. lia.
    - pose proof (cnt_pos_of_nth pre L u q Hu Hq2). lia. }
  unfold XX in *.
  assert (Hs : gt s = 0 /\ gp s = 0 /\ nt s = 0 /\ sumZ ht L = 0 /\ sumZ hp L = 0 /\ cnt is_dec L = 0) by lia.
  destruct Hs as (H1 & H2 & H3 & H4 & H5 & H6).
  repeat split; try assumption.
  apply cnt_zero_of_all. intros u q Hu.
  pose proof (sumZ_zero_all ht L Hnn_t H4 u q Hu) as Ha. pose proof (sumZ_zero_all hp L Hnn_p H5 u q Hu) as Hb'.
  cbn in Ha, Hb'.
  pose proof (cnt_zero_all is_inc L Hi0 u q Hu) as Hqi. pose proof (cnt_zero_all is_dec L H6 u q Hu) as Hqd.
  pose proof (cnt_zero_all pre L Cpre u q Hu) as Hqp.
  destruct (c_tok _ _ HC u q Hu) as (_ & _ & Hw & Hpq).
  destruct q as [p o r a b]. unfold activeP, is_inc, is_dec, pre, soloP, todo, pc_ok in *. simp2. subst a b.
  rewrite Hqp in Hw.
  destruct p; simp2; try reflexivity; try discriminate;
    rewrite ?has_ready_cons, ?has_set_cons in *; simp2; andbs; try discriminate.
  - destruct (0 <? v) eqn:E; [discriminate|]. lia.
  - destruct (0 <? v) eqn:E; [discriminate|]. lia.
Qed.

Lemma quiet_step s k L t th s' th' : Core s L -> Quiet s L -> is_notready (mon s) = false ->
  nth_error L t = Some th -> tstep s k th = (s', th') ->
  Quiet s' (upd L t th') /\ is_notready (mon s') = false.
Proof.
  intros HC (Q1 & Q2 & Q3 & Q4 & Q5) Hnr Ht E.
  pose proof (c_tok _ _ HC t th Ht) as (Hht & Hhp & Hw & Hpc).
  pose proof (cnt_zero_all activeP L Q5 t th Ht) as Hact.
  pose proof (c_pre _ _ HC) as Cpre. rewrite Hnr in Cpre. cbn in Cpre.
  pose proof (cnt_zero_all pre L Cpre t th Ht) as Hpre.
  unfold Quiet. rewrite (cnt_upd2 _ _ _ _ _ Ht), Q5, Hact.
  clear HC Q5 Cpre Ht.
  tcases th s' th' E; prep; repeat apply conj; try assumption; try lia.
Qed.

Definition trig s L : Prop :=
  is_terminating (mon s) || is_terminated (mon s) = true \/ (is_busy (mon s) = true /\ 0 < cnt at_cas L).

Record Safe (s : sh) (L : list thr) : Prop := mkSafe {
  s_quiet : trig s L -> Quiet s L;
  s_cbs : cbs s = Z.b2z (is_terminating (mon s) || is_terminated (mon s));
  s_incb : cnt in_cb L = cbs s - cbd s;
  s_interm : cnt in_term L = Z.b2z (is_terminating (mon s));
  s_bad : cb_bad s = 0;
  s_nr : is_notready (mon s) = true -> cnt at_cas L + cnt at_r2 L = 0 }.

Lemma mon_excl m : Z.b2z (is_notready m) + Z.b2z (is_busy m) + Z.b2z (is_terminating m) + Z.b2z (is_terminated m) = 1.
Proof. destruct m; reflexivity. Qed.

Lemma safe_arith s k L t th s' th' : Core s L -> Safe s L ->
  nth_error L t = Some th -> tstep s k th = (s', th') ->
  cbs s' = Z.b2z (is_terminating (mon s') || is_terminated (mon s')) /\
  cnt in_cb (upd L t th') = cbs s' - cbd s' /\
  cnt in_term (upd L t th') = Z.b2z (is_terminating (mon s')) /\
  cb_bad s' = 0 /\
  (is_notready (mon s') = true -> cnt at_cas (upd L t th') + cnt at_r2 (upd L t th') = 0) /\
  (trig s' (upd L t th') -> trig s L \/ (pa s' = 0 /\ is_busy (mon s') = true)).
Proof.
  intros HC HS Ht E.
  pose proof (c_tok _ _ HC t th Ht) as (Hht & Hhp & Hw & Hpc).
  assert (Hq : trig s L -> nt s = 0 /\ pa s = 0).
  { intros H. destruct (s_quiet _ _ HS H) as (_ & _ & H3 & H4 & _). auto. }
  pose proof (s_cbs _ _ HS) as K1. pose proof (s_incb _ _ HS) as K2.
  pose proof (s_interm _ _ HS) as K3. pose proof (s_bad _ _ HS) as K4. pose proof (s_nr _ _ HS) as K5.
  pose proof (cnt_nonneg at_cas L) as Hn1. pose proof (cnt_nonneg at_r2 L) as Hn2.
  pose proof (cnt_nonneg in_cb L) as Hn3. pose proof (cnt_nonneg in_term L) as Hn4.
  assert (Hc1 : at_cas th = true -> 1 <= cnt at_cas L).
  { intros H. pose proof (cnt_pos_of_nth at_cas L t th Ht H). lia. }
  assert (Hc2 : at_r2 th = true -> 1 <= cnt at_r2 L).
  { intros H. pose proof (cnt_pos_of_nth at_r2 L t th Ht H). lia. }
  assert (Hc3 : in_cb th = true -> 1 <= cnt in_cb L).
  { intros H. pose proof (cnt_pos_of_nth in_cb L t th Ht H). lia. }
  assert (Hc4 : in_term th = true -> 1 <= cnt in_term L).
  { intros H. pose proof (cnt_pos_of_nth in_term L t th Ht H). lia. }
  pose proof (mon_excl (mon s)) as Hm.
  unfold trig in *. rewrite !(cnt_upd2 _ _ _ _ _ Ht).
  clear HC HS Ht.
  generalize dependent (cnt at_cas L); intros Nc.
  generalize dependent (cnt at_r2 L); intros Nr.
  generalize dependent (cnt in_cb L); intros Nb.
  generalize dependent (cnt in_term L); intros Nm.
  clear L t. intros.
  tcases th s' th' E; prep; repeat apply conj; try assumption; try lia.
  all: unfold nonzero; destruct ((nt s =? 0) && (pa s =? 0)) eqn:?; lia.
Qed.

Lemma safe_step s k L t th s' th' : Core s L -> Safe s L ->
  nth_error L t = Some th -> tstep s k th = (s', th') -> Safe s' (upd L t th').
Proof.
  intros HC HS Ht E.
  pose proof (core_step _ _ _ _ _ _ _ Ht HC E) as HC'.
  destruct (safe_arith _ _ _ _ _ _ _ HC HS Ht E) as (A1 & A2 & A3 & A4 & A5 & A6).
  constructor; try assumption.
  intros Htr. destruct (A6 Htr) as [Hold|(Hpa & Hb)].
  - assert (Hnr : is_notready (mon s) = false).
    { destruct Hold as [H|[H _]]; destruct (mon s); cbn in *; try discriminate; reflexivity. }
    exact (proj1 (quiet_step _ _ _ _ _ _ _ HC (s_quiet _ _ HS Hold) Hnr Ht E)).
  - exact (quiet_of_core _ _ HC' Hpa Hb).
Qed.

(* facts that hold of every run, disciplined or not: a detection is never missed, and the
   clocks of ready / callback are ordered *)
Record Oper (s : sh) (k : Z) (L : list thr) : Prop := mkOper {
  o_live : is_busy (mon s) = true -> pa s = 0 -> 0 < cnt at_cas L + cnt at_r2 L;
  o_clk : 0 <= k;
  o_rdy : 0 <= rdy_at s <= k;
  o_rdypos : is_notready (mon s) = false \/ 0 < cnt at_r1 L -> 0 < rdy_at s;
  o_cb : 1 <= cbs s -> 0 < rdy_at s /\ rdy_at s < cb_at s <= k;
  o_cbs0 : 0 <= cbs s }.

Lemma oper_step s k L t th s' th' : Oper s k L ->
  nth_error L t = Some th -> tstep s (k + 1) th = (s', th') -> Oper s' (k + 1) (upd L t th').
Proof.
  intros [O1 O2 O3 O4 O5 O6] Ht E.
  pose proof (cnt_nonneg at_cas L) as Hn1. pose proof (cnt_nonneg at_r2 L) as Hn2.
  pose proof (cnt_nonneg at_r1 L) as Hn3.
  assert (Hc1 : at_cas th = true -> 1 <= cnt at_cas L).
  { intros H. pose proof (cnt_pos_of_nth at_cas L t th Ht H). lia. }
  assert (Hc2 : at_r2 th = true -> 1 <= cnt at_r2 L).
  { intros H. pose proof (cnt_pos_of_nth at_r2 L t th Ht H). lia. }
  assert (Hc3 : at_r1 th = true -> 1 <= cnt at_r1 L).
  { intros H. pose proof (cnt_pos_of_nth at_r1 L t th Ht H). lia. }
  pose proof (mon_excl (mon s)) as Hm.
  constructor; rewrite ?(cnt_upd2 _ _ _ _ _ Ht); clear Ht;
  generalize dependent (cnt at_cas L); intros Nc;
  generalize dependent (cnt at_r2 L); intros Nr;
  generalize dependent (cnt at_r1 L); intros N1;
  clear L t; intros;
  tcases th s' th' E; simp2;
  repeat match goal with H : context [if ?b then _ else _] |- _ => destruct b eqn:? end;
  repeat match goal with |- context [if ?b then _ else _] => destruct b eqn:? end;
  try lia.
Qed.
