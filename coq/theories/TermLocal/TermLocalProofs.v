(* The invariant lifted to every schedule, and the statements of C10. *)
From PV Require Import Base.Tac Base.ListX TermLocal.TermLocalDefs TermLocal.TermLocalAux TermLocal.TermLocalCore TermLocal.TermLocalSafe.
Local Open Scope Z_scope.

Record Inv (c : cfg) : Prop := mkInv {
  i_core : Core (shd c) (thrs c);
  i_safe : Safe (shd c) (thrs c);
  i_oper : Oper (shd c) (clk c) (thrs c) }.

Lemma inv_step c t : Inv c -> Inv (step c t).
Proof.
  intros [HC HS HO]. unfold step.
  destruct (nth_error (thrs c) t) as [th|] eqn:Ht; [|constructor; assumption].
  destruct (is_done th); [constructor; assumption|].
  destruct (tstep (shd c) (clk c + 1) th) as [s' th'] eqn:E.
  constructor; cbn [shd clk thrs].
  - eapply core_step; eassumption.
  - eapply safe_step; eassumption.
  - eapply oper_step; eassumption.
Qed.

Lemma inv_run c sched : Inv c -> Inv (run c sched).
Proof. unfold run. apply fold_left_inv. intros a b. apply inv_step. Qed.

Lemma sumZ_map0 {B} (g : B -> thr) f l : (forall x, f (g x) = 0) -> sumZ f (map g l) = 0.
Proof. intros H. induction l as [|x l IH]; [reflexivity|]. cbn [map]. rewrite sumZ_cons, H, IH. reflexivity. Qed.
Lemma cnt_map0 {B} (g : B -> thr) (f : thr -> bool) l : (forall x, f (g x) = false) -> cnt f (map g l) = 0.
Proof. intros H. induction l as [|x l IH]; [reflexivity|]. cbn [map]. rewrite cnt_cons, H, IH. reflexivity. Qed.

Lemma inv_init rc0 prog : wf_prog prog = true -> Inv (init rc0 prog).
Proof.
  unfold wf_prog. intros H. apply andb_prop in H. destruct H as [Hall Hone].
  rewrite forallb_forall in Hall.
  constructor; cbn [init shd clk thrs].
  - constructor; cbn [init_sh nt pa mon gt gp].
    + intros u q Hu. apply nth_error_map_inv in Hu. destruct Hu as (l & Hl & <-).
      unfold TOK, pc_ok, pre, soloP, todo. cbn [init_thr pc ops ht hp pending app].
      repeat split; try lia. apply (wf_norm (has_ready l) (has_ready l)).
      apply Hall. eapply nth_error_In; eassumption.
    + lia.
    + lia.
    + rewrite sumZ_map0; [reflexivity|intros; reflexivity].
    + rewrite sumZ_map0, !cnt_map0; try (intros; reflexivity).
    + rewrite cnt_map0; [lia|intros; reflexivity].
    + rewrite cnt_map_comp. cbn [is_notready Z.b2z].
      change (fun x => pre (init_thr x)) with has_ready. lia.
    + right. repeat split. apply cnt_map0. intros x. unfold nsq, quietP. cbn.
      rewrite andb_false_r. reflexivity.
  - constructor; cbn [init_sh nt pa mon gt gp cbs cbd cb_bad is_notready is_busy is_terminating is_terminated orb Z.b2z].
    + intros [H|[H _]]; discriminate.
    + reflexivity.
    + rewrite cnt_map0; [reflexivity|intros; reflexivity].
    + rewrite cnt_map0; [reflexivity|intros; reflexivity].
    + reflexivity.
    + intros _. rewrite !cnt_map0; try (intros; reflexivity).
  - constructor; cbn [init_sh nt pa mon gt gp cbs cbd cb_bad cb_at rdy_at is_notready is_busy]; try lia; try (intros; discriminate).
    rewrite cnt_map0; [|intros; reflexivity]. intros [H|H]; [discriminate|lia].
Qed.

Theorem inv_reach rc0 prog sched : wf_prog prog = true -> Inv (run (init rc0 prog) sched).
Proof. intros H. apply inv_run, inv_init, H. Qed.

(* ---- consequences of the invariant ------------------------------------------------ *)
Lemma inv_quiet_when_started c : Inv c -> 1 <= cbs (shd c) -> Quiet (shd c) (thrs c) /\ is_notready (mon (shd c)) = false.
Proof.
  intros [HC HS HO] H. rewrite (s_cbs _ _ HS) in H.
  destruct (is_terminating (mon (shd c)) || is_terminated (mon (shd c))) eqn:E; [|cbn in H; lia].
  split; [apply (s_quiet _ _ HS); left; exact E|].
  destruct (mon (shd c)); try discriminate; reflexivity.
Qed.

Lemma incb_le_interm L : cnt in_cb L <= cnt in_term L.
Proof. apply cnt_le_imp. intros u q _. unfold in_cb, in_term. destruct (pc q); auto. Qed.

Theorem callback_at_most_once c : Inv c ->
  0 <= cbd (shd c) <= cbs (shd c) /\ cbs (shd c) <= 1.
Proof.
  intros [HC HS HO]. pose proof (s_cbs _ _ HS). pose proof (s_incb _ _ HS). pose proof (s_interm _ _ HS).
  pose proof (incb_le_interm (thrs c)). pose proof (cnt_nonneg in_cb (thrs c)).
  destruct (mon (shd c)); cbn in *; lia.
Qed.

Definition no_refs (c : cfg) : Prop :=
  gt (shd c) = 0 /\ gp (shd c) = 0 /\ AllT (fun q => ht q = 0 /\ hp q = 0) (thrs c).

Theorem callback_only_when_ready_and_zero c : Inv c -> 1 <= cbs (shd c) ->
  is_notready (mon (shd c)) = false /\
  0 < rdy_at (shd c) /\ rdy_at (shd c) < cb_at (shd c) /\ cb_at (shd c) <= clk c /\
  nt (shd c) = 0 /\ pa (shd c) = 0 /\ no_refs c /\ cb_bad (shd c) = 0.
Proof.
  intros HI H. destruct (inv_quiet_when_started c HI H) as ((Q1 & Q2 & Q3 & Q4 & Q5) & Hnr).
  destruct HI as [HC HS HO]. destruct (o_cb _ _ _ HO H) as (R1 & R2 & R3).
  repeat split; try assumption; try (apply (s_bad _ _ HS)).
  - pose proof (cnt_zero_all activeP _ Q5 u q H0) as Ha. unfold activeP in Ha.
    destruct (ht q =? 0) eqn:E; [lia|discriminate].
  - pose proof (cnt_zero_all activeP _ Q5 u q H0) as Ha. unfold activeP in Ha.
    destruct (ht q =? 0) eqn:E; [|discriminate]. destruct (hp q =? 0) eqn:E2; [lia|discriminate].
Qed.

Lemma cbs_mono_step c t : cbs (shd c) <= cbs (shd (step c t)).
Proof.
  unfold step. destruct (nth_error (thrs c) t) as [th|]; [|lia].
  destruct (is_done th); [lia|].
  destruct (tstep (shd c) (clk c + 1) th) as [s' th'] eqn:E. cbn [shd].
  tcases th s' th' E; simp2; lia.
Qed.
Lemma cbs_mono_run sched : forall c, cbs (shd c) <= cbs (shd (run c sched)).
Proof.
  induction sched as [|t l IH]; intros c; [cbn; lia|]. cbn [run fold_left].
  pose proof (cbs_mono_step c t). specialize (IH (step c t)). unfold run in IH. lia.
Qed.

Theorem terminated_implies_callback_returned c : Inv c -> is_terminated (mon (shd c)) = true ->
  cbs (shd c) = 1 /\ cbd (shd c) = 1 /\ state_ret (shd c) = 4.
Proof.
  intros HI Ht. pose proof HI as [HC HS HO].
  pose proof (s_cbs _ _ HS) as K1. pose proof (s_incb _ _ HS) as K2. pose proof (s_interm _ _ HS) as K3.
  pose proof (incb_le_interm (thrs c)). pose proof (cnt_nonneg in_cb (thrs c)).
  assert (Hc : cbs (shd c) = 1) by (destruct (mon (shd c)); try discriminate; cbn in *; lia).
  destruct (inv_quiet_when_started c HI) as ((_ & _ & Q3 & Q4 & _) & _); [lia|].
  assert (Hd : cbd (shd c) = 1) by (destruct (mon (shd c)); try discriminate; cbn in *; lia).
  repeat split; try assumption.
  unfold state_ret, nonzero. rewrite Q3, Q4, Hd. destruct (mon (shd c)); try discriminate. reflexivity.
Qed.

Definition all_done (c : cfg) : bool := forallb is_done (thrs c).
Definition refs_held (c : cfg) : Z := gt (shd c) + gp (shd c) + sumZ ht (thrs c) + sumZ hp (thrs c).

Lemma cnt_done0 (f : thr -> bool) L : forallb is_done L = true ->
  AllT (fun q => is_done q = true -> f q = false) L -> cnt f L = 0.
Proof.
  intros Hd Hf. apply cnt_zero_of_all. intros u q Hu. apply (Hf u q Hu).
  rewrite forallb_forall in Hd. apply Hd. eapply nth_error_In; eassumption.
Qed.

Theorem termination_reported c : Inv c -> all_done c = true -> refs_held c = 0 ->
  cbs (shd c) = 1 /\ cbd (shd c) = 1 /\ is_terminated (mon (shd c)) = true.
Proof.
  intros HI Hd Hr. pose proof HI as [HC HS HO]. unfold all_done, refs_held in *.
  assert (Hnn_t : AllT (fun q => 0 <= ht q) (thrs c)) by (intros u q Hu; apply (c_tok _ _ HC u q Hu)).
  assert (Hnn_p : AllT (fun q => 0 <= hp q) (thrs c)) by (intros u q Hu; apply (c_tok _ _ HC u q Hu)).
  pose proof (sumZ_nonneg ht _ Hnn_t). pose proof (sumZ_nonneg hp _ Hnn_p).
  pose proof (c_gt _ _ HC). pose proof (c_gp _ _ HC).
  assert (Z1 : cnt is_inc (thrs c) = 0).
  { apply cnt_done0; [assumption|]. intros u q _. unfold is_done, is_inc. destruct (pc q); auto; discriminate. }
  assert (Z2 : cnt is_dec (thrs c) = 0).
  { apply cnt_done0; [assumption|]. intros u q _. unfold is_done, is_dec. destruct (pc q); auto; discriminate. }
  assert (Z3 : cnt at_cas (thrs c) = 0).
  { apply cnt_done0; [assumption|]. intros u q _. unfold is_done, at_cas. destruct (pc q); auto; discriminate. }
  assert (Z4 : cnt at_r2 (thrs c) = 0).
  { apply cnt_done0; [assumption|]. intros u q _. unfold is_done, at_r2. destruct (pc q); auto; discriminate. }
  assert (Z5 : cnt in_term (thrs c) = 0).
  { apply cnt_done0; [assumption|]. intros u q _. unfold is_done, in_term. destruct (pc q); auto; discriminate. }
  assert (Z6 : cnt pre (thrs c) = 0).
  { apply cnt_done0; [assumption|]. intros u q Hu Hdq.
    destruct (c_tok _ _ HC u q Hu) as (_ & _ & _ & Hpq). unfold is_done in Hdq. unfold pc_ok in Hpq.
    unfold pre, todo. destruct (pc q); try discriminate. rewrite Hpq. reflexivity. }
  pose proof (c_nt _ _ HC) as Cnt. pose proof (c_pa _ _ HC) as Cpa. pose proof (c_pre _ _ HC) as Cpre.
  unfold XX in Cpa. rewrite Z1, Z2 in Cpa. rewrite Z6 in Cpre.
  assert (Hpa : pa (shd c) = 0) by lia.
  pose proof (o_live _ _ _ HO) as Hl. rewrite Z3, Z4 in Hl.
  pose proof (s_interm _ _ HS) as K3. rewrite Z5 in K3.
  pose proof (s_cbs _ _ HS) as K1. pose proof (s_incb _ _ HS) as K2.
  pose proof (incb_le_interm (thrs c)). pose proof (cnt_nonneg in_cb (thrs c)).
  destruct (mon (shd c)); cbn in *; try discriminate; try lia.
Qed.
