(* Counter-mode dependency tracking: for any goal g > 0, any number n <= g of
   releases and any schedule, at most one release returns "ready", and one does
   exactly when all g read-modify-writes have happened. *)
From PV Require Import Base.Tac Base.ListX Deps.DepsDefs.
Local Open Scope Z_scope.

Definition CInv (g : Z) (c : ccfg) : Prop :=
  let k := cnt c_is_done (cpcs c) in
  Z.of_nat (length (cpcs c)) <= g /\
  (k = 0 -> cdeps c = 0) /\ (0 < k -> cdeps c = g - k) /\
  (0 < cnt c_is_dec (cpcs c) -> 0 < k) /\
  cnt c_is_ready (cpcs c) = (if k =? g then 1 else 0).

Lemma cinv_step g c t : 0 < g -> CInv g c -> CInv g (cstep g c t).
Proof.
  intros Hg (Hlen & Hk0 & Hk & Hdec & Hrdy). unfold cstep.
  destruct (nth_error (cpcs c) t) as [p|] eqn:E; [|repeat split; assumption].
  pose proof (cnt_nonneg c_is_done (cpcs c)) as Hkn.
  pose proof (cnt_nonneg c_is_dec (cpcs c)) as Hdn.
  assert (Hnd : c_is_done p = false -> cnt c_is_done (cpcs c) <= g - 1).
  { intros Hf. pose proof (cnt_lt_len c_is_done _ _ _ E Hf). lia. }
  destruct p as [| | |r]; unfold CInv; cbn [cdeps cpcs].
  - pose proof (Hnd eq_refl).
    destruct (cdeps c =? 0) eqn:Ez;
      rewrite ?(len_upd _ _ _ _ E), !(cnt_upd _ _ _ _ _ E); cbn [c_is_done c_is_dec c_is_ready];
      repeat split; try lia; iflia.
  - pose proof (Hnd eq_refl).
    destruct (cdeps c =? 0) eqn:Ez.
    + assert (cnt c_is_done (cpcs c) = 0) by lia.
      cbn [cdeps cpcs].
      rewrite ?(len_upd _ _ _ _ E), !(cnt_upd _ _ _ _ _ E); cbn [c_is_done c_is_dec c_is_ready].
      destruct (g - 1 =? 0) eqn:Eg; cbn [c_is_ready];
        repeat split; try lia; iflia.
    + cbn [cdeps cpcs].
      rewrite ?(len_upd _ _ _ _ E), !(cnt_upd _ _ _ _ _ E); cbn [c_is_done c_is_dec c_is_ready].
      repeat split; try lia; iflia.
  - pose proof (Hnd eq_refl).
    pose proof (cnt_pos_of_nth c_is_dec _ _ _ E eq_refl).
    rewrite ?(len_upd _ _ _ _ E), !(cnt_upd _ _ _ _ _ E); cbn [c_is_done c_is_dec c_is_ready].
    destruct (cdeps c - 1 =? 0) eqn:Eg; cbn [c_is_ready];
      repeat split; try lia; iflia.
  - repeat split; assumption.
Qed.

Lemma cinv_init g n : 0 < g -> Z.of_nat n <= g -> CInv g (cinit n).
Proof.
  intros Hg Hn. unfold CInv, cinit; cbn [cdeps cpcs].
  rewrite repeat_length, !cnt_repeat. cbn [c_is_done c_is_dec c_is_ready].
  repeat split; try lia. destruct (0 =? g) eqn:E; lia.
Qed.

Lemma cinv_run g n sched : 0 < g -> Z.of_nat n <= g -> CInv g (crun g (cinit n) sched).
Proof.
  intros Hg Hn. unfold crun. apply fold_left_inv.
  - intros a b Ha. apply cinv_step; assumption.
  - apply cinv_init; assumption.
Qed.

Lemma cstep_len g c t : length (cpcs (cstep g c t)) = length (cpcs c).
Proof.
  unfold cstep. destruct (nth_error (cpcs c) t) as [p|] eqn:E; [|reflexivity].
  destruct p; cbn [cpcs]; try reflexivity;
    try (destruct (cdeps c =? 0); cbn [cpcs]); rewrite (len_upd _ _ _ _ E); reflexivity.
Qed.
Lemma crun_len g c sched : length (cpcs (crun g c sched)) = length (cpcs c).
Proof. revert c; induction sched as [|t s IH]; intros c; [reflexivity|].
  cbn [crun fold_left]. fold (crun g (cstep g c t) s). rewrite IH. apply cstep_len. Qed.

(* main statements *)
Theorem counter_at_most_once g n sched : 0 < g -> Z.of_nat n <= g ->
  cnt c_is_ready (cpcs (crun g (cinit n) sched)) <= 1.
Proof. intros Hg Hn. destruct (cinv_run g n sched Hg Hn) as (_ & _ & _ & _ & Hr). iflia. Qed.

Theorem counter_ready_iff_all g n sched : 0 < g -> Z.of_nat n <= g ->
  (cnt c_is_ready (cpcs (crun g (cinit n) sched)) = 1 <->
   cnt c_is_done (cpcs (crun g (cinit n) sched)) = g).
Proof. intros Hg Hn. destruct (cinv_run g n sched Hg Hn) as (_ & _ & _ & _ & Hr).
  destruct (cnt c_is_done (cpcs (crun g (cinit n) sched)) =? g) eqn:E; split; lia. Qed.

(* a release that returned "ready" did so after every release performed its RMW:
   in every reachable state holding a ready thread, all g threads are done *)
Theorem counter_ready_is_last g n sched t : 0 < g -> Z.of_nat n <= g ->
  nth_error (cpcs (crun g (cinit n) sched)) t = Some (CDone true) ->
  forall u p, nth_error (cpcs (crun g (cinit n) sched)) u = Some p -> c_is_done p = true.
Proof.
  intros Hg Hn Ht u p Hu.
  destruct (cinv_run g n sched Hg Hn) as (Hlen & _ & _ & _ & Hr).
  pose proof (cnt_pos_of_nth c_is_ready _ _ _ Ht eq_refl) as Hpos.
  destruct (cnt c_is_done (cpcs (crun g (cinit n) sched)) =? g) eqn:E; [|lia].
  apply (cnt_full_all c_is_done (cpcs (crun g (cinit n) sched))) with (t := u); [|exact Hu].
  pose proof (cnt_le_len c_is_done (cpcs (crun g (cinit n) sched))). lia.
Qed.

(* the dependency word counts the releases still missing *)
Theorem counter_value g n sched : 0 < g -> Z.of_nat n <= g ->
  let c := crun g (cinit n) sched in
  cdeps c = (if cnt c_is_done (cpcs c) =? 0 then 0 else g - cnt c_is_done (cpcs c)).
Proof. intros Hg Hn c. destruct (cinv_run g n sched Hg Hn) as (_ & H0 & H1 & _).
  pose proof (cnt_nonneg c_is_done (cpcs c)). fold c in H0, H1.
  destruct (cnt c_is_done (cpcs c) =? 0) eqn:E; lia. Qed.
