(* Mask-mode dependency tracking: releases carry distinct flow bits that belong
   to the goal and are not collection inputs; for every schedule exactly the
   release whose fetch-or is last returns "ready". *)
From PV Require Import Base.Tac Base.ListX Deps.DepsDefs.
Local Open Scope N_scope.

Lemma land_eq_iff x g : N.land x g = g <-> forall k, N.testbit g k = true -> N.testbit x k = true.
Proof.
  split.
  - intros H k Hk. rewrite <- H in Hk. rewrite N.land_spec in Hk. apply andb_true_iff in Hk. tauto.
  - intros H. apply N.bits_inj. intros k. rewrite N.land_spec. destruct (N.testbit g k) eqn:E.
    + rewrite H by assumption. reflexivity.
    + apply andb_false_r.
Qed.

Lemma bit_spec i k : N.testbit (bit i) k = (i =? k).
Proof. unfold bit. rewrite N.shiftl_1_l. apply N.pow2_bits_eqb. Qed.
Lemma IN_DONE_spec k : N.testbit IN_DONE k = (30 =? k).
Proof. apply (bit_spec 30). Qed.

Section Mask.
Variables (goal inmask : N) (idxs : list N).
Hypothesis Hnd : NoDup idxs.
Hypothesis Hidx : forall i, In i idxs -> i <> 30 /\ N.testbit goal i = true /\ N.testbit inmask i = false.
Hypothesis Hcov : forall k, N.testbit goal k = true -> N.testbit inmask k = true \/ In k idxs \/ k = 30.

Definition nv_ok (c : mcfg) (i nv : N) : Prop :=
  nv = N.lor (N.lor IN_DONE (bit i)) inmask \/
  (nv = N.lor IN_DONE (bit i) /\ (0 < cnt m_is_done (mpcs c))%Z).

Definition MInv (c : mcfg) : Prop :=
  map m_idx (mpcs c) = idxs /\
  (forall k, N.testbit (mdeps c) k = true <->
     ((0 < cnt m_is_done (mpcs c))%Z /\ (k = 30 \/ N.testbit inmask k = true)) \/
     (exists t r, nth_error (mpcs c) t = Some (MDone k r))) /\
  (forall t i nv, nth_error (mpcs c) t = Some (MOr i nv) -> nv_ok c i nv) /\
  cnt m_is_ready (mpcs c) = (if (cnt m_is_done (mpcs c) =? Z.of_nat (length idxs))%Z then 1 else 0)%Z.

Lemma nv_bits i nv c k : nv_ok c i nv -> N.testbit nv k = true ->
  k = 30 \/ k = i \/ N.testbit inmask k = true.
Proof.
  intros [->|[-> _]] H; rewrite ?N.lor_spec, IN_DONE_spec, bit_spec in H;
    repeat (apply orb_true_iff in H; destruct H as [H|H]); auto;
    apply N.eqb_eq in H; auto.
Qed.

Lemma idx_of_nth c t p : map m_idx (mpcs c) = idxs -> nth_error (mpcs c) t = Some p ->
  nth_error idxs t = Some (m_idx p) /\ In (m_idx p) idxs.
Proof.
  intros Ha Hp. assert (H : nth_error idxs t = Some (m_idx p)).
  { rewrite <- Ha. apply map_nth_error. exact Hp. }
  split; [exact H|]. eapply nth_error_In; eauto.
Qed.

Lemma minv_step c t : MInv c -> MInv (mstep goal inmask c t).
Proof.
  intros HI. pose proof HI as (Ha & Hb & Hc & Hd). unfold mstep.
  destruct (nth_error (mpcs c) t) as [p|] eqn:E; [|exact HI].
  destruct p as [i|i nv|i r].
  - (* MStart: plain read *)
    set (nv := N.lor (N.lor IN_DONE (bit i)) (if N.testbit (mdeps c) 30 then 0 else inmask)).
    assert (Hcnt : cnt m_is_done (upd (mpcs c) t (MOr i nv)) = cnt m_is_done (mpcs c)).
    { rewrite (cnt_upd _ _ _ _ _ E). cbn. lia. }
    unfold MInv; cbn [mdeps mpcs]. rewrite Hcnt. repeat split.
    + rewrite (map_upd m_idx _ _ _ _ E); auto.
    + intros H. apply Hb in H. destruct H as [H|(u & r & Hu)]; [left; exact H|right].
      exists u, r. rewrite (nth_upd_other _ _ _ _ _ E); [exact Hu|]. intros ->. congruence.
    + intros [H|(u & r & Hu)]; apply Hb; [left; exact H|right].
      exists u, r. destruct (Nat.eq_dec u t) as [->|Hne].
      * rewrite (nth_upd_same _ _ _ _ E) in Hu. discriminate.
      * rewrite (nth_upd_other _ _ _ _ _ E) in Hu; auto.
    + intros u j nv' Hu. unfold nv_ok. cbn [mpcs]. rewrite Hcnt.
      destruct (Nat.eq_dec u t) as [->|Hne].
      * rewrite (nth_upd_same _ _ _ _ E) in Hu. inversion Hu; subst j nv'. unfold nv.
        destruct (N.testbit (mdeps c) 30) eqn:E30.
        -- right. split; [now rewrite N.lor_0_r|].
           apply Hb in E30. destruct E30 as [[H _]|(v & r & Hv)]; [exact H|].
           apply (cnt_pos_of_nth m_is_done _ _ _ Hv). reflexivity.
        -- left. reflexivity.
      * rewrite (nth_upd_other _ _ _ _ _ E) in Hu by auto. apply (Hc _ _ _ Hu).
    + rewrite (cnt_upd _ _ _ _ _ E). cbn. lia.
  - (* MOr: the atomic fetch-or *)
    pose proof (Hc _ _ _ E) as Hnv.
    set (cur := N.lor (mdeps c) nv).
    set (r := N.land cur goal =? goal).
    assert (Hcnt : cnt m_is_done (upd (mpcs c) t (MDone i r)) = (cnt m_is_done (mpcs c) + 1)%Z).
    { rewrite (cnt_upd _ _ _ _ _ E). cbn. lia. }
    pose proof (cnt_nonneg m_is_done (mpcs c)) as Hnn.
    assert (Hlen : Z.of_nat (length (mpcs c)) = Z.of_nat (length idxs)).
    { rewrite <- Ha, map_length. reflexivity. }
    pose proof (cnt_lt_len m_is_done _ _ _ E eq_refl) as Hlt.
    destruct (idx_of_nth c t _ Ha E) as [Hti Hiin]. cbn [m_idx] in Hti, Hiin.
    (* bits of the new word *)
    assert (Hcur : forall k, N.testbit cur k = true <->
              (k = 30 \/ N.testbit inmask k = true) \/ k = i \/
              (exists u r', u <> t /\ nth_error (mpcs c) u = Some (MDone k r'))).
    { intros k. unfold cur. rewrite N.lor_spec, orb_true_iff. split.
      - intros [H|H].
        + apply Hb in H. destruct H as [[_ H]|(u & r' & Hu)]; [left; exact H|].
          right; right. exists u, r'. split; [intros ->; congruence|exact Hu].
        + destruct (nv_bits _ _ _ _ Hnv H) as [H1|[H1|H1]]; auto.
      - intros [[H|H]|[H|(u & r' & Hne & Hu)]].
        + right. subst k. destruct Hnv as [->|[-> _]]; rewrite ?N.lor_spec, IN_DONE_spec; reflexivity.
        + destruct Hnv as [->|[-> Hpos]].
          * right. rewrite !N.lor_spec, H. apply orb_true_r.
          * left. apply Hb. left. auto.
        + right. subst k. destruct Hnv as [->|[-> _]]; rewrite ?N.lor_spec, bit_spec, N.eqb_refl;
            rewrite ?orb_true_r; reflexivity.
        + left. apply Hb. right. eauto. }
    assert (Hr : r = true <-> (cnt m_is_done (mpcs c) + 1 = Z.of_nat (length idxs))%Z).
    { unfold r. rewrite N.eqb_eq, land_eq_iff. split.
      - intros Hall.
        destruct (Z_le_gt_dec (cnt m_is_done (mpcs c)) (Z.of_nat (length (mpcs c)) - 2)) as [Hle|Hgt]; [|lia].
        exfalso. destruct (exists_other_false m_is_done _ t Hle) as (u & q & Hne & Hu & Hq).
        destruct (idx_of_nth c u _ Ha Hu) as [Huj Hjin].
        destruct (Hidx _ Hjin) as (Hj30 & Hjg & Hjm).
        specialize (Hall _ Hjg). apply Hcur in Hall.
        destruct Hall as [[H|H]|[H|(v & r' & Hvt & Hv)]]; try congruence.
        + subst i. apply Hne. eapply NoDup_nth_inj; eauto.
        + destruct (idx_of_nth c v _ Ha Hv) as [Hvj _]. cbn [m_idx] in Hvj.
          assert (v = u) by (eapply NoDup_nth_inj; eauto). subst v.
          rewrite Hu in Hv. inversion Hv as [Hq']. rewrite Hq' in Hq. discriminate.
      - intros Hall k Hk. apply Hcur. destruct (Hcov _ Hk) as [H|[H|H]]; auto.
        apply In_nth_error in H. destruct H as (u & Hu).
        rewrite <- Ha in Hu. apply nth_error_map_inv in Hu. destruct Hu as (q & Hq & Hqk).
        destruct (Nat.eq_dec u t) as [->|Hne].
        + rewrite E in Hq. inversion Hq; subst q. cbn in Hqk. auto.
        + right; right. destruct (m_is_done q) eqn:Eq.
          * destruct q as [?|? ?|j r']; try discriminate. cbn in Hqk; subst j. exists u, r'. auto.
          * pose proof (cnt_two_false m_is_done _ t u _ _ (not_eq_sym Hne) E eq_refl Hq Eq). lia. }
    unfold MInv; cbn [mdeps mpcs]. rewrite Hcnt. repeat split.
    + rewrite (map_upd m_idx _ _ _ _ E); auto.
    + intros H. apply Hcur in H. destruct H as [H|[H|(u & r' & Hne & Hu)]].
      * left. split; [lia|exact H].
      * right. subst k. exists t, r. apply (nth_upd_same _ _ _ _ E).
      * right. exists u, r'. rewrite (nth_upd_other _ _ _ _ _ E); auto.
    + intros H. apply Hcur. destruct H as [[_ H]|(u & r' & Hu)]; [left; exact H|right].
      destruct (Nat.eq_dec u t) as [->|Hne].
      * rewrite (nth_upd_same _ _ _ _ E) in Hu. inversion Hu. auto.
      * rewrite (nth_upd_other _ _ _ _ _ E) in Hu by auto. right. eauto.
    + intros u j nv' Hu. destruct (Nat.eq_dec u t) as [->|Hne].
      * rewrite (nth_upd_same _ _ _ _ E) in Hu. discriminate.
      * rewrite (nth_upd_other _ _ _ _ _ E) in Hu by auto.
        destruct (Hc _ _ _ Hu) as [H|[H H']]; [left; exact H|right]. split; [exact H|].
        cbn [mpcs]. rewrite Hcnt. lia.
    + rewrite (cnt_upd _ _ _ _ _ E). cbn [m_is_ready].
      assert (Hd0 : cnt m_is_ready (mpcs c) = 0%Z).
      { rewrite Hd. destruct (cnt m_is_done (mpcs c) =? Z.of_nat (length idxs))%Z eqn:E1; lia. }
      rewrite Hd0. destruct r eqn:Er.
      * destruct Hr as [Hr _]. rewrite (Hr eq_refl), Z.eqb_refl. reflexivity.
      (* not ready *)
      * destruct (cnt m_is_done (mpcs c) + 1 =? Z.of_nat (length idxs))%Z eqn:E1; [|reflexivity].
        destruct Hr as [_ Hr]. assert (false = true) by (apply Hr; lia). discriminate.
  - exact HI.
Qed.

Lemma cnt_map_start f (Hf : forall i, f (MStart i) = false) l : cnt f (map MStart l) = 0%Z.
Proof. induction l as [|x l IH]; [reflexivity|]. cbn [map]. rewrite cnt_cons, Hf, IH. reflexivity. Qed.

Lemma minv_init : idxs <> [] -> MInv (minit idxs).
Proof.
  intros Hne. unfold MInv, minit; cbn [mdeps mpcs].
  rewrite !cnt_map_start by reflexivity. repeat split.
  - rewrite map_map. cbn. apply map_id.
  - intros H. rewrite N.bits_0 in H. discriminate.
  - intros [[H _]|(t & r & Ht)]; [lia|].
    apply nth_error_map_inv in Ht. destruct Ht as (x & _ & Hx). discriminate.
  - intros t i nv Ht. apply nth_error_map_inv in Ht. destruct Ht as (x & _ & Hx). discriminate.
  - destruct idxs; [congruence|]. cbn [length]. destruct (0 =? Z.of_nat (S (length l)))%Z eqn:E; lia.
Qed.

Lemma minv_run sched : idxs <> [] -> MInv (mrun goal inmask (minit idxs) sched).
Proof.
  intros Hne. unfold mrun. apply fold_left_inv.
  - intros a b Ha. apply minv_step; assumption.
  - apply minv_init; assumption.
Qed.

Theorem mask_at_most_once sched : idxs <> [] ->
  (cnt m_is_ready (mpcs (mrun goal inmask (minit idxs) sched)) <= 1)%Z.
Proof. intros Hne. destruct (minv_run sched Hne) as (_ & _ & _ & Hr). rewrite Hr. iflia. Qed.

Theorem mask_ready_iff_all sched : idxs <> [] ->
  (cnt m_is_ready (mpcs (mrun goal inmask (minit idxs) sched)) = 1 <->
   cnt m_is_done (mpcs (mrun goal inmask (minit idxs) sched)) = Z.of_nat (length idxs))%Z.
Proof. intros Hne. destruct (minv_run sched Hne) as (_ & _ & _ & Hr). rewrite Hr.
  destruct (cnt m_is_done (mpcs (mrun goal inmask (minit idxs) sched)) =? Z.of_nat (length idxs))%Z eqn:E;
  split; lia. Qed.

(* whoever returned "ready" did so after every release performed its fetch-or *)
Theorem mask_ready_is_last sched t i : idxs <> [] ->
  nth_error (mpcs (mrun goal inmask (minit idxs) sched)) t = Some (MDone i true) ->
  forall u p, nth_error (mpcs (mrun goal inmask (minit idxs) sched)) u = Some p -> m_is_done p = true.
Proof.
  intros Hne Ht u p Hu. destruct (minv_run sched Hne) as (Ha & _ & _ & Hr).
  set (c := mrun goal inmask (minit idxs) sched) in *.
  pose proof (cnt_pos_of_nth m_is_ready _ _ _ Ht eq_refl) as Hpos.
  destruct (cnt m_is_done (mpcs c) =? Z.of_nat (length idxs))%Z eqn:E; [|lia].
  apply (cnt_full_all m_is_done (mpcs c)) with (t := u); [|exact Hu].
  rewrite <- Ha, map_length in E. lia.
Qed.
End Mask.
