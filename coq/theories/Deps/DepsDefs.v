(* Executable model of the dependency-update functions of parsec/parsec.c:
     parsec_check_IN_dependencies_with_counter / _with_mask   (pure goal computation)
     parsec_update_deps_with_counter / _with_mask             (atomic-step model)
   One model thread = one release (one call of update_deps on the same
   dependency word); a step = the code between two shared-memory accesses. *)
From Coq Require Import ZArith NArith List Bool.
From PV Require Import Base.ListX.
Import ListNotations.

(* ---- input-dependency descriptors (what the goal computation reads) ---- *)
Record dep := { d_cond : option bool;   (* None: no condition; Some b: inline condition evaluates to b *)
                d_local : bool;         (* task_class_id == PARSEC_LOCAL_DATA_TASK_CLASS_ID (reads the collection) *)
                d_gather : option Z }.  (* ctl_gather_nb value when present *)
Record flow := { f_ctl : bool;          (* PARSEC_FLOW_ACCESS_NONE *)
                 f_index : N;
                 f_has_in : bool;       (* PARSEC_FLOW_HAS_IN_DEPS *)
                 f_deps : list dep }.

Definition dep_active (d : dep) : bool := match d_cond d with None => true | Some b => b end.

Local Open Scope Z_scope.
(* control flow, counter mode: every dep whose condition holds counts 1 or its gather number *)
Definition ctl_count (ds : list dep) : Z :=
  fold_left (fun acc d => if dep_active d
                          then acc + match d_gather d with None => 1 | Some k => k end
                          else acc) ds 0.
(* data flow, counter mode: the first dep whose condition holds decides; 0 when it reads the collection *)
Fixpoint data_count (ds : list dep) : Z :=
  match ds with
  | [] => 0
  | d :: r => if dep_active d then (if d_local d then 0 else 1) else data_count r
  end.
Definition counter_goal (dynamic : bool) (static_goal : Z) (fl : list flow) : Z :=
  if dynamic
  then fold_left (fun acc f => acc + (if f_ctl f then ctl_count (f_deps f) else data_count (f_deps f))) fl 0
  else static_goal.

Local Open Scope N_scope.
Definition bit (i : N) : N := N.shiftl 1 i.
Definition IN_DONE : N := N.shiftl 1 30.
Fixpoint data_mask (idx : N) (ds : list dep) : N :=
  match ds with
  | [] => 0
  | d :: r => if dep_active d then (if d_local d then bit idx else 0) else data_mask idx r
  end.
Definition flow_mask (f : flow) : N :=
  if f_ctl f then (if existsb dep_active (f_deps f) then 0 else bit (f_index f))
  else if negb (f_has_in f) then 0
  else match f_deps f with [] => bit (f_index f) | ds => data_mask (f_index f) ds end.
Definition mask_in (has_in_in : bool) (fl : list flow) : N :=
  if has_in_in then fold_left (fun acc f => N.lor acc (flow_mask f)) fl 0 else 0.

(* ---- counter mode ------------------------------------------------------ *)
Inductive cpc := CStart | CTryCAS | CDoDec | CDone (ready : bool).
Record ccfg := { cdeps : Z; cpcs : list cpc }.

Local Open Scope Z_scope.
Definition cstep (g : Z) (c : ccfg) (t : nat) : ccfg :=
  match nth_error (cpcs c) t with
  | None => c
  | Some CStart =>                       (* if( 0 == *deps ) : plain read *)
      {| cdeps := cdeps c; cpcs := upd (cpcs c) t (if cdeps c =? 0 then CTryCAS else CDoDec) |}
  | Some CTryCAS =>                      (* parsec_atomic_cas_int32(deps, 0, goal-1) *)
      if cdeps c =? 0
      then {| cdeps := g - 1; cpcs := upd (cpcs c) t (CDone (g - 1 =? 0)) |}
      else {| cdeps := cdeps c; cpcs := upd (cpcs c) t CDoDec |}
  | Some CDoDec =>                       (* parsec_atomic_fetch_dec_int32(deps) - 1 *)
      {| cdeps := cdeps c - 1; cpcs := upd (cpcs c) t (CDone (cdeps c - 1 =? 0)) |}
  | Some (CDone _) => c
  end.
Definition crun (g : Z) (c : ccfg) (sched : list nat) : ccfg := fold_left (cstep g) sched c.
Definition cinit (n : nat) : ccfg := {| cdeps := 0; cpcs := repeat CStart n |}.
Definition c_is_done (p : cpc) : bool := match p with CDone _ => true | _ => false end.
Definition c_is_ready (p : cpc) : bool := match p with CDone true => true | _ => false end.
Definition c_is_dec (p : cpc) : bool := match p with CDoDec => true | _ => false end.

(* ---- mask mode --------------------------------------------------------- *)
Inductive mpc := MStart (idx : N) | MOr (idx : N) (newv : N) | MDone (idx : N) (ready : bool).
Record mcfg := { mdeps : N; mpcs : list mpc }.
Local Open Scope N_scope.
Definition mstep (goal inmask : N) (c : mcfg) (t : nat) : mcfg :=
  match nth_error (mpcs c) t with
  | None => c
  | Some (MStart i) =>                   (* plain read of *deps for the IN_DONE test *)
      let nv := N.lor (N.lor IN_DONE (bit i)) (if N.testbit (mdeps c) 30 then 0 else inmask) in
      {| mdeps := mdeps c; mpcs := upd (mpcs c) t (MOr i nv) |}
  | Some (MOr i nv) =>                   (* parsec_atomic_fetch_or_int32(deps, nv) | nv *)
      let cur := N.lor (mdeps c) nv in
      {| mdeps := cur; mpcs := upd (mpcs c) t (MDone i (N.land cur goal =? goal)) |}
  | Some (MDone _ _) => c
  end.
Definition mrun (goal inmask : N) (c : mcfg) (sched : list nat) : mcfg := fold_left (mstep goal inmask) sched c.
Definition minit (idxs : list N) : mcfg := {| mdeps := 0; mpcs := map MStart idxs |}.
Definition m_idx (p : mpc) : N := match p with MStart i => i | MOr i _ => i | MDone i _ => i end.
Definition m_is_done (p : mpc) : bool := match p with MDone _ _ => true | _ => false end.
Definition m_is_ready (p : mpc) : bool := match p with MDone _ true => true | _ => false end.
