(* A small solver for Permutation goals whose two sides are built with ++ and ::
   from the same atoms (used by the Sched proofs). *)
From Coq Require Import List Permutation.
Import ListNotations.

Lemma perm_pad {A} (l r : list A) : Permutation (l ++ []) (r ++ []) -> Permutation l r.
Proof. rewrite !app_nil_r. auto. Qed.
Lemma perm_front_step {A} (a b t t' : list A) :
  Permutation t (a ++ t') -> Permutation (b ++ t) (a ++ b ++ t').
Proof.
  intros H. eapply Permutation_trans; [apply Permutation_app_head, H|].
  rewrite !app_assoc. apply Permutation_app_tail, Permutation_app_comm.
Qed.

(* atoms are compared up to conversion (heap = list task, ...) *)
Ltac perm_find a l :=
  lazymatch l with
  | ?h ++ ?y =>
      let r := match constr:(Set) with
               | _ => let _ := match goal with _ => unify h a end in constr:(true)
               | _ => constr:(false)
               end in
      lazymatch r with
      | true => constr:(Permutation_refl l : Permutation l (a ++ y))
      | false => let H := perm_find a y in constr:(perm_front_step a h _ _ H)
      end
  end.

Ltac perm_go :=
  lazymatch goal with
  | |- Permutation [] _ => apply Permutation_refl
  | |- Permutation (?a ++ ?r) ?rhs =>
      let H := perm_find a rhs in
      eapply Permutation_trans; [|apply Permutation_sym; exact H];
      apply Permutation_app_head; perm_go
  end.

Ltac perm_prep :=
  cbn [app]; rewrite ?app_nil_r;
  repeat match goal with
         | |- context [?x :: ?l] =>
             lazymatch l with
             | [] => fail
             | _ => change (x :: l) with ([x] ++ l)
             end
         end;
  apply perm_pad; rewrite <- ?app_assoc.

(* atoms must occur the same number of times on both sides, syntactically *)
Ltac perm_solve := intros; perm_prep; perm_go.

Example perm_solve_test {A} (a b c : list A) (x y : A) :
  Permutation (a ++ x :: b ++ [y] ++ c) (y :: c ++ (b ++ a) ++ [x]).
Proof. perm_solve. Qed.
