(* C08 over histories: the dispatch layer (next_task retention, schedule_vp,
   get_next_task, drain) on top of any of the 11 modules. *)
From Coq Require Import ZArith List Bool Arith Lia Permutation.
From PV Require Import Base.Tac Sched.SchedDefs Sched.SchedPerm Sched.SchedContProofs Sched.SchedProofs.
Import ListNotations.

Definition oids (l : list (option task)) : list task :=
  flat_map (fun o => match o with None => [] | Some t => [t] end) l.
Lemma vpend_eq {m} (s : vstate m) : vpend s = oids (v_next s) ++ mpend m (v_mod s).
Proof. reflexivity. Qed.

Definition vinv {m} (c : config) (s : vstate m) : Prop :=
  minv m c (v_mod s) /\ length (v_next s) = cn c.

(* what an operation hands to the scheduler / what its observation hands back *)
Definition op_in (o : op) : list Z :=
  match o with
  | OSched _ _ ring _ | OVp _ _ ring _ => ids ring
  | _ => []
  end.
Definition ob_out (b : ob) : list Z :=
  match b with
  | ObNone | ObSel None => []
  | ObSel (Some t) => [tid t]
  | ObDrain l => ids (map snd l)
  end.

Lemma vinit_inv m c : vinv c (vinit m c).
Proof. split; [apply minv_init|apply repeat_length]. Qed.
Lemma vinit_pend m c : vpend (vinit m c) = [].
Proof.
  rewrite vpend_eq. cbn [vinit v_next v_mod]. rewrite mpend_init, app_nil_r.
  unfold oids. induction (cn c); cbn; auto.
Qed.

Lemma ids_app a b : ids (a ++ b) = ids a ++ ids b.
Proof. apply map_app. Qed.

(* ---- next_task slots ---------------------------------------------------------------- *)
Lemma oids_set i (l : list (option task)) : i < length l ->
  exists R, Permutation (oids l) (oids [nth i l None] ++ R) /\
            forall v, Permutation (oids (set_nth i v l)) (oids [v] ++ R).
Proof.
  intros H. destruct (flat_set_nth (fun o : option task => match o with None => [] | Some t => [t] end) None i l H)
    as (R & H1 & H2).
  exists R. unfold oids. cbn [flat_map]. split; [rewrite app_nil_r; exact H1|].
  intros v. rewrite app_nil_r. apply H2.
Qed.

(* ---- single operations ---------------------------------------------------------------- *)
Lemma vsched_spec {m} c (s : vstate m) es d ring rnds : vinv c s ->
  vinv c (vsched c s es d ring rnds) /\
  Permutation (ids (vpend (vsched c s es d ring rnds))) (ids (vpend s) ++ ids ring).
Proof.
  intros [Hm Hn]. unfold vsched. destruct ring as [|t r].
  - split; [split; auto|]. cbn. rewrite app_nil_r. apply Permutation_refl.
  - split; [split; [apply msched_inv; auto|auto]|].
    rewrite !vpend_eq. cbn [v_mod v_next]. rewrite !ids_app.
    rewrite (msched_perm m c (v_mod s) es d (t :: r) rnds Hm). perm_solve.
Qed.

Lemma vvp_spec {m} c (s : vstate m) oes d ring rnds : vinv c s ->
  vinv c (vvp c s oes d ring rnds) /\
  Permutation (ids (vpend (vvp c s oes d ring rnds))) (ids (vpend s) ++ ids ring).
Proof.
  intros Hi. unfold vvp. destruct oes as [es0|]; [|apply vsched_spec; auto].
  destruct (Z.eqb d 0); [|apply vsched_spec; auto].
  destruct (nth (norm c es0) (v_next s) None) as [t0|] eqn:En; [apply vsched_spec; auto|].
  destruct ring as [|t rest]; [apply vsched_spec; auto|].
  destruct Hi as [Hm Hn].
  set (s1 := mkV (v_mod s) (set_nth (norm c es0) (Some t) (v_next s))).
  assert (Hi1 : vinv c s1) by (split; [auto|cbn; rewrite set_nth_length; auto]).
  destruct (vsched_spec c s1 (norm c es0) d rest rnds Hi1) as [H1 H2].
  split; auto. rewrite H2.
  assert (Hlt : norm c es0 < length (v_next s)) by (rewrite Hn; apply norm_lt).
  destruct (oids_set _ _ Hlt) as (R & Ha & Hb). rewrite En in Ha.
  rewrite !vpend_eq. subst s1. cbn [v_mod v_next]. rewrite !ids_app.
  rewrite (Hb (Some t)), Ha. cbn [oids flat_map app]. rewrite ?ids_app. cbn [ids map]. perm_solve.
Qed.

Lemma vnext_spec {m} c (s : vstate m) es s' o : vinv c s -> vnext c s es = (s', o) ->
  vinv c s' /\ match o with
               | Some t => Permutation (vpend s) (t :: vpend s')
               | None => s' = s /\ nth (norm c es) (v_next s) None = None /\
                         snd (msel m c (v_mod s) (norm c es)) = None
               end.
Proof.
  intros [Hm Hn] H. unfold vnext in H.
  destruct (nth (norm c es) (v_next s) None) as [t|] eqn:En.
  - injection H as <- <-. split; [split; [auto|cbn; rewrite set_nth_length; auto]|].
    assert (Hlt : norm c es < length (v_next s)) by (rewrite Hn; apply norm_lt).
    destruct (oids_set _ _ Hlt) as (R & Ha & Hb). rewrite En in Ha.
    rewrite !vpend_eq. cbn [v_mod v_next]. rewrite (Hb None), Ha. cbn [oids flat_map app]. perm_solve.
  - destruct (msel m c (v_mod s) (norm c es)) as [sm om] eqn:Es. injection H as <- <-.
    split; [split; [eapply msel_inv; eauto|auto]|].
    destruct om as [t|].
    + rewrite !vpend_eq. cbn [v_mod v_next]. rewrite (msel_some _ _ _ _ _ _ Hm Es). perm_solve.
    + apply msel_none in Es; auto. subst sm. destruct s; auto.
Qed.

Lemma vflush_spec {m} c (s : vstate m) es : vinv c s ->
  vinv c (vflush c s es) /\ Permutation (ids (vpend (vflush c s es))) (ids (vpend s)).
Proof.
  intros Hi. unfold vflush. destruct (nth (norm c es) (v_next s) None) as [t|] eqn:En; [|split; auto].
  destruct Hi as [Hm Hn].
  set (s1 := mkV (v_mod s) (set_nth (norm c es) None (v_next s))).
  assert (Hi1 : vinv c s1) by (split; [auto|cbn; rewrite set_nth_length; auto]).
  destruct (vsched_spec c s1 (norm c es) 0 [t] [] Hi1) as [H1 H2]. split; auto. rewrite H2.
  assert (Hlt : norm c es < length (v_next s)) by (rewrite Hn; apply norm_lt).
  destruct (oids_set _ _ Hlt) as (R & Ha & Hb). rewrite En in Ha.
  rewrite !vpend_eq. subst s1. cbn [v_mod v_next]. rewrite !ids_app.
  rewrite (Hb None), Ha. cbn [oids flat_map app]. rewrite ?ids_app. cbn [ids map]. perm_solve.
Qed.

Lemma msel_norm m c s es : msel m c s (norm c es) = msel m c s es.
Proof.
  assert (E : norm c (norm c es) = norm c es) by (apply norm_id, norm_lt).
  destruct m; cbn [msel]; rewrite ?E; reflexivity.
Qed.

Lemma vsel_spec {m} c (s : vstate m) es s' o : vinv c s -> vsel c s es = (s', o) ->
  vinv c s' /\ match o with
               | Some t => Permutation (vpend s) (t :: vpend s')
               | None => s' = s
               end.
Proof.
  intros [Hm Hn] H. unfold vsel in H.
  destruct (msel m c (v_mod s) es) as [sm om] eqn:Es. injection H as <- <-.
  split; [split; [eapply msel_inv; eauto|auto]|].
  destruct om as [t|].
  - rewrite !vpend_eq. cbn [v_mod v_next]. rewrite (msel_some _ _ _ _ _ _ Hm Es). perm_solve.
  - apply msel_none in Es; auto. subst sm. destruct s; auto.
Qed.

(* ---- rounds ------------------------------------------------------------------------------ *)
Lemma vround_spec {m} c ess : forall (s s' : vstate m) l, vinv c s -> vround c s ess = (s', l) ->
  vinv c s' /\ Permutation (vpend s) (map snd l ++ vpend s') /\
  (l = [] -> s' = s /\ forall es, In es ess -> snd (vnext c s es) = None) /\
  Forall (fun p => In (fst p) ess) l.
Proof.
  induction ess as [|es r IH]; intros s s' l Hi H; cbn [vround] in H.
  - injection H as <- <-. split; [auto|]. split; [apply Permutation_refl|]. split; [|constructor].
    intros _. split; [reflexivity|]. intros es [].
  - destruct (vnext c s es) as [s1 o] eqn:En. destruct (vround c s1 r) as [s2 l2] eqn:Er.
    injection H as <- <-.
    destruct (vnext_spec _ _ _ _ _ Hi En) as [Hi1 Ho].
    destruct (IH _ _ _ Hi1 Er) as (Hi2 & Hp & Hn & Hf).
    split; auto.
    assert (Hf' : Forall (fun p : nat * task => In (fst p) (es :: r)) l2).
    { eapply Forall_impl; [|apply Hf]. intros p Hp'. right; auto. }
    destruct o as [t|].
    + split; [cbn [map snd]; rewrite Ho, Hp; perm_solve|]. split; [discriminate|].
      constructor; auto. left; auto.
    + destruct Ho as (-> & Ho1 & Ho2). split; [exact Hp|]. split; [|exact Hf'].
      intros ->. destruct (Hn eq_refl) as [Hs Hall]. split; [exact Hs|].
      intros es' [<-|Hin]; [rewrite En; auto|]. apply Hall; auto.
Qed.

Lemma in_seq0 n i : i < n -> In i (seq 0 n).
Proof. intros H. apply in_seq. lia. Qed.

Lemma oids_all_none (l : list (option task)) : (forall i, i < length l -> nth i l None = None) -> oids l = [].
Proof.
  induction l as [|x r IH]; intros H; [reflexivity|].
  unfold oids. cbn [flat_map]. fold (oids r).
  rewrite IH; [|intros i Hi; apply (H (S i)); cbn; lia].
  specialize (H 0 ltac:(cbn; lia)). cbn in H. subst. reflexivity.
Qed.

(* every stream asked, nobody got anything: nothing is held *)
Lemma idle_means_empty {m} c (s : vstate m) : wf c -> vinv c s ->
  (forall es, es < cn c -> snd (vnext c s es) = None) -> vpend s = [].
Proof.
  intros Hwf Hi Hall. rewrite vpend_eq.
  assert (Hk : forall es, es < cn c -> nth es (v_next s) None = None /\ snd (msel m c (v_mod s) es) = None).
  { intros es Hes. specialize (Hall es Hes). destruct (vnext c s es) as [s' o] eqn:E. cbn in Hall; subst.
    destruct (vnext_spec _ _ _ _ _ Hi E) as (_ & _ & H1 & H2). rewrite norm_id in H1, H2 by auto. auto. }
  destruct Hi as [Hm Hn].
  rewrite oids_all_none; [|intros i Hlt; apply Hk; lia].
  cbn. apply (mlive m c (v_mod s) Hwf Hm). intros es Hes. apply Hk; auto.
Qed.

(* k full rounds, without stopping early *)
Fixpoint vrounds {m} (k : nat) (c : config) (s : vstate m) : vstate m * list (nat * task) :=
  match k with
  | O => (s, [])
  | S j => let (s1, l) := vround c s (seq 0 (cn c)) in
           let (s2, l2) := vrounds j c s1 in (s2, l ++ l2)
  end.

Lemma vrounds_spec {m} c k : forall (s s' : vstate m) l, wf c -> vinv c s -> vrounds k c s = (s', l) ->
  vinv c s' /\ Permutation (vpend s) (map snd l ++ vpend s') /\
  (length (vpend s) <= k -> vpend s' = []).
Proof.
  induction k as [|j IH]; intros s s' l Hwf Hi H; cbn [vrounds] in H.
  - injection H as <- <-. split; [auto|]. split; [apply Permutation_refl|].
    intros Hl. destruct (vpend s); [auto|cbn in Hl; lia].
  - destruct (vround c s (seq 0 (cn c))) as [s1 l1] eqn:Er. destruct (vrounds j c s1) as [s2 l2] eqn:Ek.
    injection H as <- <-.
    destruct (vround_spec _ _ _ _ _ Hi Er) as (Hi1 & Hp1 & Hn1 & _).
    destruct (IH _ _ _ Hwf Hi1 Ek) as (Hi2 & Hp2 & Hb2).
    split; auto. split; [rewrite map_app, Hp1, Hp2; perm_solve|].
    intros Hl. destruct l1 as [|p l1'].
    + destruct (Hn1 eq_refl) as [-> Hnone]. apply Hb2.
      rewrite (idle_means_empty c s Hwf Hi); [cbn; lia|]. intros es Hes. apply Hnone, in_seq0; auto.
    + apply Hb2. apply Permutation_length in Hp1. rewrite app_length, map_length in Hp1. cbn [length] in Hp1. lia.
Qed.

Lemma vdrain_spec {m} c fuel : forall (s s' : vstate m) l, wf c -> vinv c s -> length (vpend s) < fuel ->
  vdrain fuel c s = (s', l) ->
  vinv c s' /\ vpend s' = [] /\ Permutation (vpend s) (map snd l) /\ Forall (fun p => fst p < cn c) l.
Proof.
  induction fuel as [|f IH]; intros s s' l Hwf Hi Hlen H; [lia|]. cbn [vdrain] in H.
  destruct (vround c s (seq 0 (cn c))) as [s1 l1] eqn:Er.
  destruct (vround_spec _ _ _ _ _ Hi Er) as (Hi1 & Hp1 & Hn1 & Hf1).
  assert (Hf1' : Forall (fun p : nat * task => fst p < cn c) l1).
  { eapply Forall_impl; [|apply Hf1]. intros p Hp. apply in_seq in Hp. lia. }
  destruct l1 as [|p l1'].
  - injection H as <- <-. destruct (Hn1 eq_refl) as [-> Hnone].
    assert (He : vpend s = []).
    { apply (idle_means_empty c s Hwf Hi). intros es Hes. apply Hnone, in_seq0; auto. }
    split; [auto|]. split; [exact He|]. split; [rewrite He; constructor|constructor].
  - destruct (vdrain f c s1) as [s2 l2] eqn:Ed. injection H as <- <-.
    assert (Hlen1 : length (vpend s1) < f).
    { apply Permutation_length in Hp1. rewrite app_length, map_length in Hp1. cbn [length] in Hp1. lia. }
    destruct (IH _ _ _ Hwf Hi1 Hlen1 Ed) as (Hi2 & He2 & Hp2 & Hf2).
    change (p :: l1' ++ l2) with ((p :: l1') ++ l2).
    split; [auto|]. split; [exact He2|]. split.
    + rewrite map_app, Hp1, Hp2. perm_solve.
    + apply Forall_app; auto.
Qed.

(* ---- histories ----------------------------------------------------------------------------- *)
Lemma vstep_spec {m} c (s s' : vstate m) o b : wf c \/ o <> ODrain -> vinv c s -> vstep c s o = (s', b) ->
  vinv c s' /\ Permutation (ids (vpend s) ++ op_in o) (ob_out b ++ ids (vpend s')).
Proof.
  intros Hw Hi H. destruct o as [es d ring rnds|es|oes d ring rnds|es|es|]; cbn [vstep] in H.
  - injection H as <- <-. destruct (vsched_spec c s es d ring rnds Hi) as [H1 H2].
    split; auto. cbn [op_in ob_out app]. rewrite H2. apply Permutation_refl.
  - destruct (vsel c s es) as [s1 r] eqn:E. injection H as <- <-.
    destruct (vsel_spec _ _ _ _ _ Hi E) as [H1 H2]. split; auto.
    cbn [op_in]. rewrite app_nil_r. destruct r as [t|]; cbn [ob_out app].
    + unfold ids. rewrite H2. apply Permutation_refl.
    + subst. apply Permutation_refl.
  - injection H as <- <-. destruct (vvp_spec c s oes d ring rnds Hi) as [H1 H2].
    split; auto. cbn [op_in ob_out app]. rewrite H2. apply Permutation_refl.
  - destruct (vnext c s es) as [s1 r] eqn:E. injection H as <- <-.
    destruct (vnext_spec _ _ _ _ _ Hi E) as [H1 H2]. split; auto.
    cbn [op_in]. rewrite app_nil_r. destruct r as [t|]; cbn [ob_out app].
    + unfold ids. rewrite H2. apply Permutation_refl.
    + destruct H2 as [-> _]. apply Permutation_refl.
  - injection H as <- <-. destruct (vflush_spec c s es Hi) as [H1 H2].
    split; auto. cbn [op_in ob_out app]. rewrite app_nil_r, H2. apply Permutation_refl.
  - destruct (vdrain (S (length (vpend s))) c s) as [s1 l] eqn:E. injection H as <- <-.
    destruct Hw as [Hw|Hw]; [|congruence].
    destruct (vdrain_spec c _ _ _ _ Hw Hi (Nat.lt_succ_diag_r _) E) as (H1 & H2 & H3 & _).
    split; auto. cbn [op_in ob_out]. rewrite app_nil_r, H2. cbn [ids map]. rewrite app_nil_r.
    unfold ids. rewrite H3. apply Permutation_refl.
Qed.

(* the drain conserves even on a configuration that is not well formed (it may then stop early) *)
Lemma vdrain_perm {m} c fuel : forall (s s' : vstate m) l, vinv c s -> vdrain fuel c s = (s', l) ->
  vinv c s' /\ Permutation (vpend s) (map snd l ++ vpend s').
Proof.
  induction fuel as [|f IH]; intros s s' l Hi H; cbn [vdrain] in H.
  - injection H as <- <-. split; auto.
  - destruct (vround c s (seq 0 (cn c))) as [s1 l1] eqn:Er.
    destruct (vround_spec _ _ _ _ _ Hi Er) as (Hi1 & Hp1 & _ & _).
    destruct l1 as [|p l1'].
    + injection H as <- <-. split; auto.
    + destruct (vdrain f c s1) as [s2 l2] eqn:Ed. injection H as <- <-.
      destruct (IH _ _ _ Hi1 Ed) as [Hi2 Hp2]. split; auto.
      change (p :: l1' ++ l2) with ((p :: l1') ++ l2).
      rewrite map_app, Hp1, Hp2. perm_solve.
Qed.

Lemma vstep_cons {m} c (s s' : vstate m) o b : vinv c s -> vstep c s o = (s', b) ->
  vinv c s' /\ Permutation (ids (vpend s) ++ op_in o) (ob_out b ++ ids (vpend s')).
Proof.
  intros Hi H. destruct o as [es d ring rnds|es|oes d ring rnds|es|es|];
    try (apply (vstep_spec c s s' _ b); [right; discriminate|auto|auto]).
  cbn [vstep] in H.
  destruct (vdrain (S (length (vpend s))) c s) as [s1 l] eqn:E. injection H as <- <-.
  destruct (vdrain_perm c _ _ _ _ Hi E) as [H1 H2]. split; auto.
  cbn [op_in ob_out]. rewrite app_nil_r. unfold ids. rewrite H2, map_app. apply Permutation_refl.
Qed.

Lemma vrun_spec {m} c ops : forall (s s' : vstate m) obs, vinv c s -> vrun c s ops = (s', obs) ->
  vinv c s' /\ Permutation (ids (vpend s) ++ flat_map op_in ops) (flat_map ob_out obs ++ ids (vpend s')) /\
  length obs = length ops.
Proof.
  induction ops as [|o r IH]; intros s s' obs Hi H; cbn [vrun] in H.
  - injection H as <- <-. cbn. rewrite app_nil_r. auto.
  - destruct (vstep c s o) as [s1 b] eqn:Es. destruct (vrun c s1 r) as [s2 bs] eqn:Er.
    injection H as <- <-.
    destruct (vstep_cons _ _ _ _ _ Hi Es) as [Hi1 Hp1].
    destruct (IH _ _ _ Hi1 Er) as (Hi2 & Hp2 & Hl). split; auto. split; [|cbn; lia].
    cbn [flat_map].
    transitivity ((ids (vpend s) ++ op_in o) ++ flat_map op_in r); [perm_solve|].
    rewrite Hp1.
    transitivity (ob_out b ++ (ids (vpend s1) ++ flat_map op_in r)); [perm_solve|].
    rewrite Hp2. perm_solve.
Qed.

Lemma vrun_app {m} c ops1 : forall ops2 (s : vstate m),
  vrun c s (ops1 ++ ops2) =
  let (s1, o1) := vrun c s ops1 in let (s2, o2) := vrun c s1 ops2 in (s2, o1 ++ o2).
Proof.
  induction ops1 as [|o r IH]; intros ops2 s; cbn [vrun app].
  - destruct (vrun c s ops2); reflexivity.
  - destruct (vstep c s o) as [s1 b]. rewrite IH.
    destruct (vrun c s1 r) as [s2 o1]. destruct (vrun c s2 ops2) as [s3 o2]. reflexivity.
Qed.

(* states reachable by a history *)
Definition reach (m : modid) (c : config) (s : vstate m) : Prop :=
  exists ops obs, vrun c (vinit m c) ops = (s, obs).
Lemma reach_inv m c s : reach m c s -> vinv c s.
Proof. intros (ops & obs & H). apply (vrun_spec c ops _ _ _ (vinit_inv m c) H). Qed.

(* ---- the C08 statements ------------------------------------------------------------------------ *)
Theorem conservation m c ops s obs : vrun c (vinit m c) ops = (s, obs) ->
  Permutation (flat_map op_in ops) (flat_map ob_out obs ++ ids (vpend s)).
Proof.
  intros H. destruct (vrun_spec c ops _ _ _ (vinit_inv m c) H) as (_ & Hp & _).
  rewrite vinit_pend in Hp. exact Hp.
Qed.

Theorem returned_were_scheduled m c ops1 ops2 s obs : vrun c (vinit m c) (ops1 ++ ops2) = (s, obs) ->
  incl (flat_map ob_out (firstn (length ops1) obs)) (flat_map op_in ops1).
Proof.
  intros H. rewrite vrun_app in H.
  destruct (vrun c (vinit m c) ops1) as [s1 o1] eqn:E1. destruct (vrun c s1 ops2) as [s2 o2] eqn:E2.
  injection H as <- <-.
  destruct (vrun_spec c ops1 _ _ _ (vinit_inv m c) E1) as (_ & Hp & Hl).
  rewrite <- Hl, firstn_app, Nat.sub_diag, firstn_all. cbn [firstn]. rewrite app_nil_r.
  rewrite vinit_pend in Hp. cbn [ids map app] in Hp.
  intros x Hx. eapply Permutation_in; [apply Permutation_sym, Hp|]. apply in_or_app; auto.
Qed.

Theorem select_none_is_stutter m c s es : reach m c s ->
  (forall s', vsel c s es = (s', None) -> s' = s) /\ (forall s', vnext c s es = (s', None) -> s' = s).
Proof.
  intros Hr. apply reach_inv in Hr. split; intros s' H.
  - apply (vsel_spec _ _ _ _ _ Hr H).
  - apply (vnext_spec _ _ _ _ _ Hr H).
Qed.

Theorem all_streams_idle_means_empty m c s : wf c -> reach m c s ->
  (forall es, es < cn c -> snd (vnext c s es) = None) -> vpend s = [].
Proof. intros Hwf Hr. apply idle_means_empty; auto. apply reach_inv; auto. Qed.

Theorem drain_returns_everything m c s s' l : wf c -> reach m c s ->
  vstep c s ODrain = (s', ObDrain l) ->
  Permutation (vpend s) (map snd l) /\ vpend s' = [] /\ Forall (fun p => fst p < cn c) l /\
  forall es, snd (vnext c s' es) = None.
Proof.
  intros Hwf Hr H. apply reach_inv in Hr. cbn [vstep] in H.
  destruct (vdrain (S (length (vpend s))) c s) as [s1 l1] eqn:E. injection H as <- <-.
  destruct (vdrain_spec c _ _ _ _ Hwf Hr (Nat.lt_succ_diag_r _) E) as (H1 & H2 & H3 & H4).
  repeat split; auto. intros es. destruct (vnext c s1 es) as [s2 [t|]] eqn:En; auto.
  destruct (vnext_spec _ _ _ _ _ H1 En) as [_ Hp]. rewrite H2 in Hp. apply Permutation_nil in Hp. discriminate.
Qed.

(* |held| rounds in which every stream of the VP selects once return every held task *)
Theorem task_returned_within_bound m c s s' l : wf c -> reach m c s ->
  vrounds (length (vpend s)) c s = (s', l) ->
  Permutation (vpend s) (map snd l) /\ vpend s' = [].
Proof.
  intros Hwf Hr H. apply reach_inv in Hr.
  destruct (vrounds_spec c _ _ _ _ Hwf Hr H) as (_ & Hp & Hb).
  specialize (Hb (Nat.le_refl _)). rewrite Hb, app_nil_r in Hp. auto.
Qed.

Theorem exactly_once m c ops s obs : wf c -> NoDup (flat_map op_in ops) ->
  vrun c (vinit m c) (ops ++ [ODrain]) = (s, obs) ->
  Permutation (flat_map op_in ops) (flat_map ob_out obs) /\ NoDup (flat_map ob_out obs) /\ vpend s = [].
Proof.
  intros Hwf Hnd H. pose proof (conservation _ _ _ _ _ H) as Hc.
  rewrite vrun_app in H.
  destruct (vrun c (vinit m c) ops) as [s1 o1] eqn:E1. cbn [vrun] in H.
  destruct (vstep c s1 ODrain) as [s2 b] eqn:E2. injection H as <- <-.
  assert (Hr : reach m c s1) by (exists ops, o1; auto).
  assert (Hb : exists l, b = ObDrain l).
  { cbn [vstep] in E2. destruct (vdrain (S (length (vpend s1))) c s1). injection E2 as <- <-. eauto. }
  destruct Hb as [l ->].
  destruct (drain_returns_everything _ _ _ _ _ Hwf Hr E2) as (_ & He & _).
  rewrite He in Hc. cbn [ids map] in Hc. rewrite app_nil_r in Hc.
  rewrite flat_map_app in Hc. cbn [flat_map op_in] in Hc. rewrite !app_nil_r in Hc.
  repeat split; auto. eapply Permutation_NoDup; eauto.
Qed.
