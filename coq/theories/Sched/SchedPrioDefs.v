(* C09: reference semantics of "honouring priorities", independent of the
   module models.  The reference state is the list of pending (distance, task)
   pairs in arrival order (order of the schedule calls, then ring order); a
   schedule appends, a select removes one element chosen by a [pick] function. *)
From Coq Require Import ZArith List Bool.
From PV Require Import Sched.SchedDefs.
Import ListNotations.
Local Open Scope Z_scope.

Notation ptask := (Z * task)%type. (* distance it was scheduled with, task *)
Definition pprio (x : ptask) : Z := tprio (snd x).

(* remove the first / the last element satisfying f *)
Fixpoint take (f : ptask -> bool) (l : list ptask) : list ptask * option ptask :=
  match l with
  | [] => ([], None)
  | x :: r => if f x then (r, Some x) else let (r', o) := take f r in (x :: r', o)
  end.
Definition take_last (f : ptask -> bool) (l : list ptask) : list ptask * option ptask :=
  let (r, o) := take f (rev l) in (rev r, o).

Definition zmax_list (l : list Z) : option Z :=
  match l with [] => None | x :: r => Some (fold_left Z.max r x) end.
Definition zmin_list (l : list Z) : option Z :=
  match l with [] => None | x :: r => Some (fold_left Z.min r x) end.

(* ap: a maximum-priority pending task, the earliest scheduled among equals *)
Definition ap_pick (P : list ptask) : list ptask * option ptask :=
  match zmax_list (map pprio P) with
  | None => (P, None)
  | Some k => take (fun x => pprio x =? k) P
  end.
(* ip (inverse priority): a minimum-priority pending task, the latest scheduled among equals *)
Definition ip_pick (P : list ptask) : list ptask * option ptask :=
  match zmin_list (map pprio P) with
  | None => (P, None)
  | Some k => take_last (fun x => pprio x =? k) P
  end.
(* spq: the smallest pending distance first; within it as ap *)
Definition spq_pick (P : list ptask) : list ptask * option ptask :=
  match zmin_list (map fst P) with
  | None => (P, None)
  | Some dm =>
      match zmax_list (map pprio (filter (fun x => fst x =? dm) P)) with
      | None => (P, None)
      | Some k => take (fun x => (fst x =? dm) && (pprio x =? k)) P
      end
  end.

(* histories of plain module operations *)
Definition plain_op (o : op) : Prop :=
  match o with OSched _ _ _ _ | OSel _ => True | _ => False end.
Definition plain (ops : list op) : Prop := Forall plain_op ops.

Fixpoint srun (pick : list ptask -> list ptask * option ptask) (P : list ptask) (ops : list op) : list ob :=
  match ops with
  | [] => []
  | OSched _ d ring _ :: r => ObNone :: srun pick (P ++ map (pair d) ring) r
  | OSel _ :: r => let (P', o) := pick P in ObSel (option_map snd o) :: srun pick P' r
  | _ :: r => ObNone :: srun pick P r
  end.

(* priority of the task an observation returned *)
Definition ob_prio (b : ob) : option Z :=
  match b with ObSel (Some t) => Some (tprio t) | _ => None end.
(* identity returned by a select observation (-1: NULL); schedule observations are dropped by [ob_out_id_list] users *)
Definition ob_out_id (b : ob) : Z :=
  match b with ObSel (Some t) => tid t | ObSel None => -1 | _ => -2 end.
