(* Executable models of the 11 scheduler modules of parsec/mca/sched
   (ap gd ip lfq lhq ll llp ltq pbq rnd spq) and of the dispatch layer of
   parsec/scheduling.c (__parsec_schedule_vp / next_task retention /
   __parsec_get_next_task), at operation granularity: one model step is one
   whole call of module.schedule / module.select run to completion (so every
   compare-and-swap and trylock of the containers succeeds at the first
   attempt).  The containers are modelled at list level: parsec_list_t /
   parsec_dequeue_t = list, head first; parsec_lifo_t = list, top first;
   parsec_hbbuffer_t = list of optional slots; parsec_heap_t = the complete
   binary tree in level order (index 1 = top, children 2i = list_prev,
   2i+1 = list_next).  NO proofs in this file.

   A task is (identity, priority, data tag, class-is-high-priority).  The tag
   stands for task->data[0].data_in (ltq groups consecutive ring elements with a
   common input into one heap; the harness gives every task one flow); the flag
   for task_class->flags & PARSEC_HIGH_PRIORITY_TASK (read by gd). *)
From Coq Require Import ZArith List Bool Arith.
Import ListNotations.

Record task := mkT { tid : Z; tprio : Z; ttag : Z; thi : bool }.

(* ------------------------------------------------------------------------ *)
(* list helpers                                                             *)
Fixpoint set_nth {A} (i : nat) (v : A) (l : list A) : list A :=
  match l with
  | [] => []
  | x :: r => match i with O => v :: r | S j => x :: set_nth j v r end
  end.
Definition insert_at {A} (i : nat) (x : A) (l : list A) : list A := firstn i l ++ x :: skipn i l.
Definition pop_back {A} (l : list A) : list A * option A :=
  match l with [] => ([], None) | x :: r => (removelast l, Some (last r x)) end.
Definition pop_front {A} (l : list A) : list A * option A :=
  match l with [] => ([], None) | x :: r => (r, Some x) end.

Local Open Scope Z_scope.

(* ------------------------------------------------------------------------ *)
(* list.h: parsec_list_nolock_chain_sorted (HIGHER_IS_BETTER)               *)
(* index (from the start of [l]) of the first element that [newel] (priority
   p) is strictly higher than; length l when there is none (the ghost) *)
Fixpoint scan (p : Z) (l : list task) : nat :=
  match l with [] => O | x :: r => if tprio x <? p then O else S (scan p r) end.
(* the for(newel...) loop; [pos] is the index of the `pos` element: the tail at
   first, then the last inserted element; a newel higher than pos restarts from
   the head, otherwise the search continues forward from pos *)
Fixpoint chain_from (l : list task) (pos : nat) (items : list task) : list task :=
  match items with
  | [] => l
  | e :: r =>
      let pos' := if tprio (nth pos l e) <? tprio e then O else pos in
      let j := (pos' + scan (tprio e) (skipn pos' l))%nat in
      chain_from (insert_at j e l) j r
  end.
Definition chain_sorted (l items : list task) : list task :=
  match items with
  | [] => l
  | e :: r => match l with
              | [] => chain_from [e] O r
              | _ :: _ => chain_from l (length l - 1)%nat items
              end
  end.

(* list.h: parsec_list_nolock_sort = bottom-up merge sort (Tatham); the merge
   takes from p only when p is strictly lower: ascending order, q first on ties *)
Fixpoint merge_asc (p : list task) : list task -> list task :=
  fix mq (q : list task) : list task :=
    match p, q with
    | [], _ => q
    | _, [] => p
    | a :: p', b :: q' => if tprio a <? tprio b then a :: merge_asc p' q else b :: mq q'
    end.
Fixpoint ms_pass (fuel k : nat) (l : list task) : list task :=
  match fuel with
  | O => l
  | S f => match l with
           | [] => []
           | _ :: _ => merge_asc (firstn k l) (firstn k (skipn k l)) ++ ms_pass f k (skipn (k + k) l)
           end
  end.
Fixpoint ms_loop (fuel k : nat) (l : list task) : list task :=
  match fuel with
  | O => l
  | S f => let l' := ms_pass (length l) k l in
           if (length l <=? k + k)%nat then l' else ms_loop f (k + k)%nat l'
  end.
Definition list_sort (l : list task) : list task := ms_loop (length l) 1%nat l.

(* ------------------------------------------------------------------------ *)
(* hbbuffer.c, generic in the element type (tasks, or heaps for ltq)        *)
Section HB.
  Variable A : Type.
  Variable pr : A -> Z.          (* COMPARISON_VAL at the offset given to the call *)

  (* push_all: the slot index only moves forward; each element takes the next
     empty slot; returns the array and what did not fit, in ring order *)
  Fixpoint fill (b : list (option A)) (elts : list A) : list (option A) * list A :=
    match b with
    | [] => ([], elts)
    | s :: rest =>
        match elts with
        | [] => (b, [])
        | e :: es =>
            match s with
            | Some _ => let (r, left) := fill rest elts in (s :: r, left)
            | None => let (r, left) := fill rest es in (Some e :: r, left)
            end
        end
    end.

  (* pop_best: highest priority, lowest index among equals *)
  Fixpoint best_idx (b : list (option A)) (i : nat) (best : option (nat * Z)) : option nat :=
    match b with
    | [] => match best with None => None | Some (k, _) => Some k end
    | None :: r => best_idx r (S i) best
    | Some c :: r =>
        match best with
        | None => best_idx r (S i) (Some (i, pr c))
        | Some (_, bp) => if bp <? pr c then best_idx r (S i) (Some (i, pr c)) else best_idx r (S i) best
        end
    end.
  Definition pop_best (b : list (option A)) : list (option A) * option A :=
    match best_idx b O None with
    | None => (b, None)
    | Some i => match nth i b None with
                | None => (b, None)
                | Some c => (set_nth i None b, Some c)
                end
    end.

  (* push_all_by_priority, the scan for one element: the first empty slot stops
     the scan; otherwise the first slot holding the lowest priority strictly
     below best_context (initially topush) *)
  Fixpoint prio_scan (b : list (option A)) (i : nat) (best : option nat) (bp : Z) : option nat :=
    match b with
    | [] => best
    | None :: _ => Some i
    | Some c :: r => if pr c <? bp then prio_scan r (S i) (Some i) (pr c) else prio_scan r (S i) best bp
    end.
  (* the while(1) loop: [ej] is the ejected ring (victims are put in front);
     when topush finds no slot the result is topush, ejected, rest of the list *)
  Fixpoint prio_push (b : list (option A)) (ej : list A) (ring : list A) : list (option A) * list A :=
    match ring with
    | [] => (b, ej)
    | t :: rest =>
        match prio_scan b O None (pr t) with
        | Some i => match nth i b None with
                    | None => prio_push (set_nth i (Some t) b) ej rest
                    | Some c => prio_push (set_nth i (Some t) b) (c :: ej) rest
                    end
        | None => (b, t :: ej ++ rest)
        end
    end.

  (* buffers of one virtual process and the system (overflow) dequeue *)
  Record hbst := mkHB { hb_bufs : list (list (option A)); hb_sys : list A }.

  (* parents: None = the system queue (parsec_mca_sched_push_in_system_queue_wrapper:
     dequeue chain_back), Some p = buffer p (parsec_mca_sched_push_in_buffer_wrapper:
     parsec_hbbuffer_push_all).  [fuel] bounds the walk up the parents. *)
  Variable parent : nat -> option nat.

  Fixpoint push_all (fuel : nat) (s : hbst) (b : nat) (ring : list A) (d : Z) : hbst :=
    match ring with
    | [] => s
    | _ :: _ =>
      match fuel with
      | O => mkHB (hb_bufs s) (hb_sys s ++ ring)
      | S f =>
          let up (s' : hbst) (r : list A) :=
            match parent b with
            | None => mkHB (hb_bufs s') (hb_sys s' ++ r)
            | Some p => push_all f s' p r (d - 1)
            end in
          if d =? 0 then
            let (b', left) := fill (nth b (hb_bufs s) []) ring in
            let s' := mkHB (set_nth b b' (hb_bufs s)) (hb_sys s) in
            match left with [] => s' | _ :: _ => up s' left end
          else up s ring
      end
    end.

  Definition push_all_prio (fuel : nat) (s : hbst) (b : nat) (ring : list A) (d : Z) : hbst :=
    match ring with
    | [] => s
    | _ :: _ =>
        let up (s' : hbst) (r : list A) :=
          match parent b with
          | None => mkHB (hb_bufs s') (hb_sys s' ++ r)
          | Some p => push_all fuel s' p r (d - 1)
          end in
        if d =? 0 then
          let (b', ej) := prio_push (nth b (hb_bufs s) []) [] ring in
          let s' := mkHB (set_nth b b' (hb_bufs s)) (hb_sys s) in
          match ej with [] => s' | _ :: _ => up s' ej end
        else up s ring
    end.

  (* pop_best over a list of buffers, in order; first hit wins *)
  Fixpoint pop_chain (bufs : list (list (option A))) (order : list nat) : list (list (option A)) * option A :=
    match order with
    | [] => (bufs, None)
    | b :: r => match pop_best (nth b bufs []) with
                | (b', Some x) => (set_nth b b' bufs, Some x)
                | (_, None) => pop_chain bufs r
                end
    end.
End HB.
Arguments mkHB {A}.
Arguments hb_bufs {A}.
Arguments hb_sys {A}.

(* ------------------------------------------------------------------------ *)
(* maxheap.c on the level-order array                                       *)
Definition heap := list task.
Definition hprio (h : heap) : Z := match h with [] => 0 | t :: _ => tprio t end.
Definition swap_nth (l : list task) (i j : nat) : list task :=
  match nth_error l i, nth_error l j with
  | Some a, Some b => set_nth i b (set_nth j a l)
  | _, _ => l
  end.
(* positions are 1-based as in the bit arithmetic of the C code *)
Fixpoint sift_up (fuel : nat) (l : list task) (i : nat) : list task :=
  match fuel with
  | O => l
  | S f =>
      if (i <=? 1)%nat then l else
      let p := Nat.div2 i in
      match nth_error l (p - 1), nth_error l (i - 1) with
      | Some a, Some e => if tprio a <? tprio e then sift_up f (swap_nth l (p - 1) (i - 1)) p else l
      | _, _ => l
      end
  end.
Definition heap_insert (h : heap) (e : task) : heap :=
  sift_up (S (length h)) (h ++ [e]) (S (length h)).
(* bubble down: toward prev (2i) when it is higher than the bubbler and not
   lower than next; else toward next (2i+1) when it is higher than the bubbler
   and strictly higher than prev *)
Fixpoint sift_down (fuel : nat) (l : list task) (i : nat) : list task :=
  match fuel with
  | O => l
  | S f =>
      match nth_error l (i - 1) with
      | None => l
      | Some b =>
          let pv := nth_error l (2 * i - 1) in
          let nx := nth_error l (2 * i) in
          let go_prev := match pv with
                         | None => false
                         | Some p => (tprio b <? tprio p) &&
                                     match nx with None => true | Some n => tprio n <=? tprio p end
                         end in
          let go_next := match nx with
                         | None => false
                         | Some n => (tprio b <? tprio n) &&
                                     match pv with None => true | Some p => tprio p <? tprio n end
                         end in
          if go_prev then sift_down f (swap_nth l (i - 1) (2 * i - 1)) (2 * i)
          else if go_next then sift_down f (swap_nth l (i - 1) (2 * i)) (2 * i + 1)
          else l
      end
  end.
(* heap_remove: (returned task, remaining heap; [] = destroyed) *)
Definition heap_remove (h : heap) : option task * heap :=
  match h with
  | [] => (None, [])
  | top :: rest =>
      match rest with
      | [] => (Some top, [])
      | x :: r => let l := last r x :: removelast rest in (Some top, sift_down (length l) l 1)
      end
  end.
(* the two subtrees of the top, each in level order: levels of width w, 2w, ... *)
Fixpoint split_lv (fuel w : nat) (l : list task) : list task * list task :=
  match fuel with
  | O => ([], [])
  | S f => match l with
           | [] => ([], [])
           | _ :: _ =>
               let a := firstn w l in let r1 := skipn w l in
               let b := firstn w r1 in let r2 := skipn w r1 in
               let (x, y) := split_lv f (w + w) r2 in (a ++ x, b ++ y)
           end
  end.
(* heap_split_and_steal: (returned task, *heap_ptr, *new_heap_ptr) *)
Definition heap_split (h : heap) : option task * heap * heap :=
  match h with
  | [] => (None, [], [])
  | top :: rest =>
      match rest with
      | [] => (Some top, [], [])
      | [x] => (Some top, [x], [])
      | _ :: _ :: _ => let (lft, rgt) := split_lv (length rest) 1 rest in (Some top, rgt, lft)
      end
  end.

(* ------------------------------------------------------------------------ *)
(* configuration of one virtual process                                     *)
Record config := mkCfg {
  c_n1 : nat;                       (* number of execution streams - 1 *)
  c_sizes : list nat;               (* hbbuffers of the VP: size *)
  c_parents : list (option nat);    (*                       parent (None = system queue) *)
  c_tq : list nat;                  (* per stream: task_queue *)
  c_chains : list (list nat)        (* per stream: hierarch_queues[0..nb-1] *)
}.
Definition cn (c : config) : nat := S (c_n1 c).
Definition norm (c : config) (es : nat) : nat := if (es <? cn c)%nat then es else O.
Definition cparent (c : config) (b : nat) : option nat := nth b (c_parents c) None.
Definition cfuel (c : config) : nat := S (length (c_sizes c)).
Definition ctq (c : config) (es : nat) : nat := nth es (c_tq c) O.
Definition cchain (c : config) (es : nat) : list nat := nth es (c_chains c) [].

(* ------------------------------------------------------------------------ *)
(* the modules.  Every schedule takes (stream, distance, ring, random draws)  *)

(* ap: one sorted list per VP; schedule = chain_sorted, select = pop_front *)
Definition ap_sched (l : list task) (ring : list task) : list task := chain_sorted l ring.

(* ip: distance 0 -> chain_sorted, else chain_back; select = pop_back *)
Definition ip_sched (l : list task) (d : Z) (ring : list task) : list task :=
  if d =? 0 then chain_sorted l ring else l ++ ring.

(* gd: one dequeue; high-priority class at distance 0 -> chain_front, else chain_back *)
Definition gd_sched (l : list task) (d : Z) (ring : list task) : list task :=
  match ring with
  | [] => l
  | t :: _ => if thi t && (d =? 0) then ring ++ l else l ++ ring
  end.

(* rnd: priority := rand() + distance for each ring element in ring order,
   list sort of the ring, chain_sorted *)
Fixpoint rnd_assign (ring : list task) (rnds : list Z) (d : Z) : list task :=
  match ring with
  | [] => []
  | t :: r => let (x, rs) := match rnds with [] => (0, []) | x :: rs => (x, rs) end in
              mkT (tid t) (x + d) (ttag t) (thi t) :: rnd_assign r rs d
  end.
Definition rnd_sched (l : list task) (d : Z) (ring : list task) (rnds : list Z) : list task :=
  chain_sorted l (list_sort (rnd_assign ring rnds d)).

(* spq: list of (distance, sorted list), ascending distances *)
Fixpoint spq_sched (q : list (Z * list task)) (d : Z) (ring : list task) : list (Z * list task) :=
  match q with
  | [] => [(d, chain_sorted [] ring)]
  | (p, l) :: r =>
      if p =? d then (p, chain_sorted l ring) :: r
      else if d <? p then (d, chain_sorted [] ring) :: q
      else (p, l) :: spq_sched r d ring
  end.
Fixpoint spq_sel (q : list (Z * list task)) : list (Z * list task) * option task :=
  match q with
  | [] => ([], None)
  | (p, l) :: r =>
      match l with
      | t :: l' => ((p, l') :: r, Some t)
      | [] => let (r', o) := spq_sel r in ((p, l) :: r', o)
      end
  end.

(* ll / llp: one LIFO per stream; stealing visits es+1, es+2, ... (mod n) *)
Definition steal_order (n es : nat) : list nat := map (fun k => Nat.modulo (es + k) n) (seq 1 (n - 1)).
Fixpoint pop_lifos (ls : list (list task)) (order : list nat) : list (list task) * option task :=
  match order with
  | [] => (ls, None)
  | i :: r => match nth i ls [] with
              | t :: l' => (set_nth i l' ls, Some t)
              | [] => pop_lifos ls r
              end
  end.
Definition lifos_sel (c : config) (ls : list (list task)) (es : nat) : list (list task) * option task :=
  pop_lifos ls (es :: steal_order (cn c) es).

Definition ll_target (c : config) (es : nat) (d : Z) : nat :=
  if 0 <? d then
    let t := Z.to_nat ((Z.of_nat es + d) mod Z.of_nat (cn c)) in
    if (t =? es)%nat then Nat.modulo (es + 1) (cn c) else t
  else es.
Definition ll_sched (c : config) (ls : list (list task)) (es : nat) (d : Z) (ring : list task) : list (list task) :=
  let t := ll_target c es d in set_nth t (ring ++ nth t ls []) ls.

(* llp: lifo_chain_sorted / lifo_merge_ring (CHECK_RING_SORTED = 0, sorted = true).
   [pre] ends with `prev`, [suf] starts with `next`; [mid] are the items that
   single insertions have put after prev (they are in front of next, which the
   code does not move); when prev is NULL the inserted item becomes next. *)
Fixpoint llp_adv (dist : Z) (rp : Z) (pre mid suf : list task) (d : Z)
  : list task * list task * list task * Z :=
  match suf with
  | [] => (pre, mid, suf, d)
  | n :: s => if negb ((d <? dist) || (rp <? tprio n))
              then llp_adv dist rp (pre ++ mid ++ [n]) [] s (d + 1)
              else (pre, mid, suf, d)
  end.
Fixpoint llp_merge (dist : Z) (pre mid suf : list task) (d : Z) (ring : list task) : list task :=
  match ring with
  | [] => pre ++ mid ++ suf
  | r0 :: rest =>
      match llp_adv dist (tprio r0) pre mid suf d with
      | (pre', mid', suf', d') =>
          let rl := last rest r0 in
          let fits := match suf' with [] => true | n :: _ => negb (tprio rl <? tprio n) end in
          if fits then pre' ++ ring ++ suf'        (* prev->list_next = ring: mid' is not relinked *)
          else match pre' with
               | [] => llp_merge dist [] mid' (r0 :: suf') d' rest
               | _ :: _ => llp_merge dist pre' (r0 :: mid') suf' d' rest
               end
      end
  end.
Definition llp_chain (l : list task) (d : Z) (ring : list task) : list task :=
  match ring with
  | [] => l
  | r0 :: rest =>
      let rl := last rest r0 in
      let front := match l with [] => true | n :: _ => negb (tprio rl <? tprio n) end in
      if (d =? 0) && front then ring ++ l else llp_merge d [] [] l 0 ring
  end.
Definition llp_sched (c : config) (ls : list (list task)) (es : nat) (d : Z) (ring : list task) : list (list task) :=
  set_nth es (llp_chain (nth es ls []) d ring) ls.

(* lfq / lhq / pbq: hbbuffers of tasks; the three differ by the configuration
   (lfq, pbq: one buffer per stream whose parent is the system queue, chains =
   all buffers by hwloc distance; lhq: a tree of buffers following the hwloc
   levels, chains = the ancestors) and by the push function (pbq: by priority) *)
Definition hb_init {A} (c : config) : hbst A := mkHB (map (fun sz => repeat None sz) (c_sizes c)) [].
Definition hb_sched (byprio : bool) (c : config) (s : hbst task) (es : nat) (d : Z) (ring : list task) : hbst task :=
  if byprio then push_all_prio task tprio (cparent c) (cfuel c) s (ctq c es) ring d
  else push_all task (cparent c) (cfuel c) s (ctq c es) ring d.
Definition hb_sel (c : config) (s : hbst task) (es : nat) : hbst task * option task :=
  match pop_chain task tprio (hb_bufs s) (ctq c es :: cchain c es) with
  | (bufs', Some t) => (mkHB bufs' (hb_sys s), Some t)
  | (_, None) => match hb_sys s with
                 | [] => (s, None)
                 | t :: r => (mkHB (hb_bufs s) r, Some t)
                 end
  end.

(* ltq: hbbuffers of heaps *)
Fixpoint ltq_group (h : heap) (cur : task) (rest : list task) : list heap :=
  match rest with
  | [] => [heap_insert h cur]
  | nx :: r => let h' := heap_insert h cur in
               if ttag cur =? ttag nx then ltq_group h' nx r else h' :: ltq_group [] nx r
  end.
Definition ltq_sched (c : config) (s : hbst heap) (es : nat) (d : Z) (ring : list task) : hbst heap :=
  match ring with
  | [] => s
  | t :: r => push_all heap (cparent c) (cfuel c) s (ctq c es) (ltq_group [] t r) d
  end.
Definition ltq_push (c : config) (s : hbst heap) (b : nat) (hs : list heap) : hbst heap :=
  push_all heap (cparent c) (cfuel c) s b hs 0.
Definition nonempty (hs : list heap) : list heap := filter (fun h => match h with [] => false | _ => true end) hs.
(* the for(i = 1 ...) loop over hierarch_queues[1..] *)
Fixpoint ltq_steal (c : config) (s : hbst heap) (tq : nat) (order : list nat) : hbst heap * option task :=
  match order with
  | [] => (s, None)
  | b :: r =>
      match pop_best heap hprio (nth b (hb_bufs s) []) with
      | (_, None) => ltq_steal c s tq r
      | (b', Some h) =>
          let s1 := mkHB (set_nth b b' (hb_bufs s)) (hb_sys s) in
          match heap_split h with
          | (ot, hp, nh) =>
              let s2 := match hp with
                        | [] => s1
                        | _ :: _ => ltq_push c (ltq_push c s1 b (nonempty [nh])) tq [hp]
                        end in
              match ot with Some t => (s2, Some t) | None => ltq_steal c s2 tq r end
          end
      end
  end.
Definition ltq_sel (c : config) (s : hbst heap) (es : nat) : hbst heap * option task :=
  let tq := ctq c es in
  let (s1, ot) :=
    match pop_best heap hprio (nth tq (hb_bufs s) []) with
    | (_, None) => (s, None)
    | (b', Some h) =>
        let s0 := mkHB (set_nth tq b' (hb_bufs s)) (hb_sys s) in
        match heap_remove h with
        | (ot, []) => (s0, ot)
        | (ot, (_ :: _) as h') => (ltq_push c s0 tq [h'], ot)
        end
    end in
  match ot with
  | Some t => (s1, Some t)
  | None =>
      match ltq_steal c s1 tq (tl (cchain c es)) with
      | (s2, Some t) => (s2, Some t)
      | (s2, None) =>
          match hb_sys s2 with
          | [] => (s2, None)
          | h :: sys' =>
              let s3 := mkHB (hb_bufs s2) sys' in
              match heap_split h with
              | (ot, hp, nh) =>
                  (match hp with [] => s3 | _ :: _ => ltq_push c s3 tq (hp :: nonempty [nh]) end, ot)
              end
          end
      end
  end.

(* ------------------------------------------------------------------------ *)
(* the 11 modules behind one interface                                      *)
Inductive modid := AP | GD | IP | LFQ | LHQ | LL | LLP | LTQ | PBQ | RND | SPQ.

Definition mstate (m : modid) : Type :=
  match m with
  | AP | GD | IP | RND => list task
  | SPQ => list (Z * list task)
  | LL | LLP => list (list task)
  | LFQ | LHQ | PBQ => hbst task
  | LTQ => hbst heap
  end.

Definition minit (m : modid) (c : config) : mstate m :=
  match m with
  | AP | GD | IP | RND => []
  | SPQ => []
  | LL | LLP => repeat [] (cn c)
  | LFQ | LHQ | PBQ => hb_init c
  | LTQ => hb_init c
  end.

Definition msched (m : modid) (c : config) : mstate m -> nat -> Z -> list task -> list Z -> mstate m :=
  match m with
  | AP => fun s _ _ ring _ => ap_sched s ring
  | GD => fun s _ d ring _ => gd_sched s d ring
  | IP => fun s _ d ring _ => ip_sched s d ring
  | RND => fun s _ d ring rnds => rnd_sched s d ring rnds
  | SPQ => fun s _ d ring _ => spq_sched s d ring
  | LL => fun s es d ring _ => ll_sched c s (norm c es) d ring
  | LLP => fun s es d ring _ => llp_sched c s (norm c es) d ring
  | LFQ | LHQ => fun s es d ring _ => hb_sched false c s (norm c es) d ring
  | PBQ => fun s es d ring _ => hb_sched true c s (norm c es) d ring
  | LTQ => fun s es d ring _ => ltq_sched c s (norm c es) d ring
  end.

Definition msel (m : modid) (c : config) : mstate m -> nat -> mstate m * option task :=
  match m with
  | AP | GD | RND => fun s _ => pop_front s
  | IP => fun s _ => pop_back s
  | SPQ => fun s _ => spq_sel s
  | LL | LLP => fun s es => lifos_sel c s (norm c es)
  | LFQ | LHQ | PBQ => fun s es => hb_sel c s (norm c es)
  | LTQ => fun s es => ltq_sel c s (norm c es)
  end.

(* every task the module holds *)
Definition hb_items {A} (s : hbst A) : list A :=
  flat_map (fun b => flat_map (fun o => match o with None => [] | Some x => [x] end) b) (hb_bufs s) ++ hb_sys s.
Definition mpend (m : modid) : mstate m -> list task :=
  match m with
  | AP | GD | IP | RND => fun s => s
  | SPQ => fun s => flat_map snd s
  | LL | LLP => fun s => concat s
  | LFQ | LHQ | PBQ => fun s => hb_items s
  | LTQ => fun s => concat (hb_items s)
  end.

(* ------------------------------------------------------------------------ *)
(* scheduling.c on top of the installed module, one virtual process:
   next_task of each stream; __parsec_schedule_vp with
   parsec_runtime_keep_highest_priority_task = 1 (the default)             *)
Record vstate (m : modid) := mkV { v_mod : mstate m; v_next : list (option task) }.
Arguments mkV {m}.
Arguments v_mod {m}.
Arguments v_next {m}.
Definition vinit (m : modid) (c : config) : vstate m := mkV (minit m c) (repeat None (cn c)).

Inductive op :=
| OSched (es : nat) (d : Z) (ring : list task) (rnds : list Z)   (* module.schedule *)
| OSel (es : nat)                                                (* module.select *)
| OVp (es : option nat) (d : Z) (ring : list task) (rnds : list Z) (* __parsec_schedule_vp; None = foreign thread / comm thread *)
| ONext (es : nat)                                               (* __parsec_get_next_task *)
| OFlush (es : nat)                                              (* __parsec_schedule_flush_private *)
| ODrain.                                                        (* rounds of get_next_task by every stream until a round is empty *)

Definition vsched {m} (c : config) (s : vstate m) (es : nat) (d : Z) (ring : list task) (rnds : list Z) : vstate m :=
  match ring with
  | [] => s
  | _ :: _ => mkV (msched m c (v_mod s) es d ring rnds) (v_next s)
  end.
Definition vvp {m} (c : config) (s : vstate m) (oes : option nat) (d : Z) (ring : list task) (rnds : list Z) : vstate m :=
  match oes with
  | Some es0 =>
      let es := norm c es0 in
      if d =? 0 then
        match nth es (v_next s) None, ring with
        | None, t :: rest => vsched c (mkV (v_mod s) (set_nth es (Some t) (v_next s))) es d rest rnds
        | _, _ => vsched c s es d ring rnds
        end
      else vsched c s O d ring rnds
  | None => vsched c s O d ring rnds
  end.
Definition vnext {m} (c : config) (s : vstate m) (es0 : nat) : vstate m * option task :=
  let es := norm c es0 in
  match nth es (v_next s) None with
  | Some t => (mkV (v_mod s) (set_nth es None (v_next s)), Some t)
  | None => let (s', o) := msel m c (v_mod s) es in (mkV s' (v_next s), o)
  end.
(* __parsec_schedule_flush_private: hand the retained task to the module as a
   ring of one task at distance 0.  (The code passes the retained task as it is;
   this is a ring of one task only if the task was retained from a ring of one
   task, or was made a singleton since: see notes/findings/C08-flush-private-stale-ring.md) *)
Definition vflush {m} (c : config) (s : vstate m) (es0 : nat) : vstate m :=
  let es := norm c es0 in
  match nth es (v_next s) None with
  | Some t => vsched c (mkV (v_mod s) (set_nth es None (v_next s))) es 0 [t] []
  | None => s
  end.
Definition vsel {m} (c : config) (s : vstate m) (es : nat) : vstate m * option task :=
  let (s', o) := msel m c (v_mod s) es in (mkV s' (v_next s), o).

(* one round: streams 0 .. n-1 in order; returns what was obtained *)
Fixpoint vround {m} (c : config) (s : vstate m) (ess : list nat) : vstate m * list (nat * task) :=
  match ess with
  | [] => (s, [])
  | es :: r => let (s1, o) := vnext c s es in
               let (s2, l) := vround c s1 r in
               (s2, match o with Some t => (es, t) :: l | None => l end)
  end.
Fixpoint vdrain {m} (fuel : nat) (c : config) (s : vstate m) : vstate m * list (nat * task) :=
  match fuel with
  | O => (s, [])
  | S f => let (s1, l) := vround c s (seq 0 (cn c)) in
           match l with
           | [] => (s1, [])
           | _ :: _ => let (s2, l2) := vdrain f c s1 in (s2, l ++ l2)
           end
  end.
Definition vpend {m} (s : vstate m) : list task :=
  flat_map (fun o => match o with None => [] | Some t => [t] end) (v_next s) ++ mpend m (v_mod s).

Inductive ob := ObNone | ObSel (r : option task) | ObDrain (l : list (nat * task)).

Definition vstep {m} (c : config) (s : vstate m) (o : op) : vstate m * ob :=
  match o with
  | OSched es d ring rnds => (vsched c s es d ring rnds, ObNone)
  | OSel es => let (s', r) := vsel c s es in (s', ObSel r)
  | OVp es d ring rnds => (vvp c s es d ring rnds, ObNone)
  | ONext es => let (s', r) := vnext c s es in (s', ObSel r)
  | OFlush es => (vflush c s es, ObNone)
  | ODrain => let (s', l) := vdrain (S (length (vpend s))) c s in (s', ObDrain l)
  end.
Fixpoint vrun {m} (c : config) (s : vstate m) (ops : list op) : vstate m * list ob :=
  match ops with
  | [] => (s, [])
  | o :: r => let (s1, b) := vstep c s o in
              let (s2, bs) := vrun c s1 r in (s2, b :: bs)
  end.
(* what the driver prints: the observations and how many tasks are still held *)
Definition run (m : modid) (c : config) (ops : list op) : list ob * nat :=
  let (s, obs) := vrun c (vinit m c) ops in (obs, length (vpend s)).
