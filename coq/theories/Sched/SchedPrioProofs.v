(* C09: the priority schedulers ap, ip (distance 0) and spq refine the reference
   semantics of Sched/SchedPrioDefs.v; the unrestricted ip statement is refuted. *)
From Coq Require Import ZArith List Bool Arith Lia Permutation.
From PV Require Import Sched.SchedDefs Sched.SchedPrioDefs Sched.SchedContProofs.
Import ListNotations.
Local Open Scope Z_scope.

(* tasks of priority k, in list order *)
Definition cls (k : Z) (l : list task) : list task := filter (fun t => tprio t =? k) l.
(* non-increasing priorities *)
Fixpoint desc (l : list task) : Prop :=
  match l with [] => True | x :: r => Forall (fun y => tprio y <= tprio x) r /\ desc r end.
(* stable insertion: after every element that is not strictly lower *)
Definition sins (l : list task) (e : task) : list task := insert_at (scan (tprio e) l) e l.

Lemma cls_app k a b : cls k (a ++ b) = cls k a ++ cls k b.
Proof. apply filter_app. Qed.
Lemma cls_cons k x l : cls k (x :: l) = if tprio x =? k then x :: cls k l else cls k l.
Proof. reflexivity. Qed.
Lemma cls_in k l x : In x (cls k l) <-> In x l /\ tprio x = k.
Proof. unfold cls. rewrite filter_In, Z.eqb_eq. tauto. Qed.
Lemma cls_nil_forall k l : Forall (fun x => tprio x <> k) l -> cls k l = [].
Proof.
  induction 1 as [|x r Hx Hr IH]; cbn; auto. apply Z.eqb_neq in Hx. rewrite Hx. auto.
Qed.
Lemma cls_rev k l : cls k (rev l) = rev (cls k l).
Proof.
  induction l as [|x r IH]; [reflexivity|]. cbn [rev]. rewrite cls_app, IH. unfold cls at 2 3. cbn [filter].
  destruct (tprio x =? k); cbn [rev app]; auto. rewrite app_nil_r; auto.
Qed.

Lemma desc_app a b : desc (a ++ b) <-> desc a /\ desc b /\ Forall (fun x => Forall (fun y => tprio y <= tprio x) b) a.
Proof.
  induction a as [|x r IH]; cbn [app desc].
  - split; [intros H; repeat split; auto|intros (_ & H & _); auto].
  - rewrite IH. rewrite Forall_app. split.
    + intros ((H1 & H2) & H3 & H4 & H5). repeat split; auto.
    + intros ((H1 & H2) & H3 & H4). inversion H4; subst. repeat split; auto.
Qed.

(* ---- scan ------------------------------------------------------------------------ *)
Lemma scan_split p l : exists a b, l = a ++ b /\ length a = scan p l /\
  Forall (fun x => p <= tprio x) a /\ match b with [] => True | y :: _ => tprio y < p end.
Proof.
  induction l as [|x r IH]; cbn [scan].
  - exists [], []. cbn. auto.
  - destruct (tprio x <? p) eqn:E.
    + exists [], (x :: r). cbn. repeat split; auto. apply Z.ltb_lt; auto.
    + destruct IH as (a & b & H1 & H2 & H3 & H4). exists (x :: a), b. cbn. subst.
      repeat split; auto. constructor; auto. apply Z.ltb_ge; auto.
Qed.
Lemma insert_at_app {A} (a b : list A) e : insert_at (length a) e (a ++ b) = a ++ e :: b.
Proof.
  unfold insert_at. rewrite firstn_app, Nat.sub_diag, firstn_all, skipn_app, Nat.sub_diag, skipn_all. cbn.
  rewrite app_nil_r. reflexivity.
Qed.

Lemma sins_split l e : desc l -> exists a b, l = a ++ b /\ sins l e = a ++ e :: b /\
  Forall (fun x => tprio e <= tprio x) a /\ Forall (fun y => tprio y < tprio e) b.
Proof.
  intros Hd. destruct (scan_split (tprio e) l) as (a & b & H1 & H2 & H3 & H4).
  exists a, b. subst l. unfold sins. rewrite <- H2, insert_at_app. repeat split; auto.
  destruct b as [|y r]; [constructor|]. apply desc_app in Hd. destruct Hd as (_ & (Hy & _) & _).
  constructor; auto. eapply Forall_impl; [|apply Hy]. cbn. intros; lia.
Qed.

Lemma sins_desc l e : desc l -> desc (sins l e).
Proof.
  intros Hd. destruct (sins_split l e Hd) as (a & b & H1 & H2 & H3 & H4). rewrite H2. subst l.
  apply desc_app in Hd. destruct Hd as (Ha & Hb & Hab).
  apply desc_app. split; [exact Ha|]. split.
  - cbn [desc]. split; [|exact Hb]. eapply Forall_impl; [|apply H4]. cbn; intros; lia.
  - rewrite Forall_forall in *. intros x Hx. constructor; [apply H3; auto|]. apply Hab; auto.
Qed.
Lemma sins_cls l e k : desc l -> cls k (sins l e) = if tprio e =? k then cls k l ++ [e] else cls k l.
Proof.
  intros Hd. destruct (sins_split l e Hd) as (a & b & H1 & H2 & H3 & H4). rewrite H2. subst l.
  rewrite !cls_app. change (cls k (e :: b)) with (if tprio e =? k then e :: cls k b else cls k b).
  destruct (tprio e =? k) eqn:E; auto.
  apply Z.eqb_eq in E. subst k. rewrite (cls_nil_forall (tprio e) b).
  - rewrite app_nil_r. reflexivity.
  - eapply Forall_impl; [|apply H4]. cbn; intros; lia.
Qed.

Lemma fold_sins items : forall l, desc l ->
  desc (fold_left sins items l) /\ forall k, cls k (fold_left sins items l) = cls k l ++ cls k items.
Proof.
  induction items as [|e r IH]; intros l Hd; cbn [fold_left].
  - split; auto. intros k. cbn. rewrite app_nil_r; auto.
  - destruct (IH _ (sins_desc l e Hd)) as [H1 H2]. split; auto.
    intros k. rewrite H2, sins_cls by auto.
    change (cls k (e :: r)) with (if tprio e =? k then e :: cls k r else cls k r).
    destruct (tprio e =? k); auto. rewrite <- app_assoc. reflexivity.
Qed.

(* ---- chain_sorted on a sorted list is the stable insertion of each element --------- *)
Lemma scan_skip p n : forall l, Forall (fun x => p <= tprio x) (firstn n l) -> (n <= length l)%nat ->
  scan p l = (n + scan p (skipn n l))%nat.
Proof.
  induction n as [|n IH]; intros l H Hn; [reflexivity|].
  destruct l as [|x r]; [cbn in Hn; lia|]. cbn [firstn] in H. inversion H; subst.
  cbn [scan skipn]. assert (E : tprio x <? p = false) by (apply Z.ltb_ge; auto). rewrite E.
  rewrite (IH r); auto. cbn in Hn; lia.
Qed.
Lemma desc_prefix_ge l : forall pos d, desc l -> (pos < length l)%nat ->
  Forall (fun x => tprio (nth pos l d) <= tprio x) (firstn pos l).
Proof.
  induction l as [|x r IH]; intros pos d Hd Hp; [cbn in Hp; lia|].
  destruct pos as [|pos]; [constructor|]. cbn [firstn nth]. destruct Hd as [Hx Hr].
  constructor; [|apply IH; auto; cbn in Hp; lia].
  rewrite Forall_forall in Hx. apply Hx, nth_In. cbn in Hp; lia.
Qed.

Lemma chain_from_sorted items : forall l pos, desc l -> (pos < length l)%nat ->
  chain_from l pos items = fold_left sins items l.
Proof.
  induction items as [|e r IH]; intros l pos Hd Hp; cbn [chain_from fold_left]; auto.
  assert (Hj : ((if (tprio (nth pos l e) <? tprio e)%Z then 0 else pos) +
                scan (tprio e) (skipn (if (tprio (nth pos l e) <? tprio e)%Z then 0 else pos) l))%nat
               = scan (tprio e) l).
  { destruct (tprio (nth pos l e) <? tprio e) eqn:E; [reflexivity|].
    symmetry. apply scan_skip; [|lia].
    eapply Forall_impl; [|apply (desc_prefix_ge l pos e Hd Hp)]. cbn. apply Z.ltb_ge in E. intros; lia. }
  rewrite Hj. fold (sins l e). apply IH; [apply sins_desc; auto|].
  unfold sins, insert_at. rewrite app_length, firstn_length. cbn [length]. rewrite skipn_length.
  destruct (scan_split (tprio e) l) as (a & b & H1 & H2 & _). rewrite <- H2. subst l. rewrite app_length. lia.
Qed.

Lemma chain_sorted_sorted l items : desc l -> chain_sorted l items = fold_left sins items l.
Proof.
  intros Hd. unfold chain_sorted. destruct items as [|e r]; auto.
  destruct l as [|x l'].
  - cbn [fold_left]. replace (sins [] e) with [e] by reflexivity.
    apply chain_from_sorted; cbn; auto.
  - apply chain_from_sorted; auto. cbn [length]. lia.
Qed.

(* ---- the simulation invariant ---------------------------------------------------------- *)
Definition sameI (Q : list task) (P : list ptask) : Prop := forall k, cls k Q = cls k (map snd P).
Definition apI (Q : list task) (P : list ptask) : Prop := desc Q /\ sameI Q P.

Lemma apI_sched Q P d ring : apI Q P -> apI (chain_sorted Q ring) (P ++ map (pair d) ring).
Proof.
  intros [Hd Hs]. rewrite chain_sorted_sorted by auto. destruct (fold_sins ring Q Hd) as [H1 H2].
  split; auto. intros k. rewrite H2, Hs, map_app, cls_app. f_equal. f_equal.
  rewrite map_map. cbn. rewrite map_id. reflexivity.
Qed.

Lemma sameI_in Q P u : sameI Q P -> (In u Q <-> In u (map snd P)).
Proof.
  intros Hs. split; intros H.
  - assert (Hc : In u (cls (tprio u) Q)) by (apply cls_in; auto). rewrite Hs in Hc. apply cls_in in Hc. tauto.
  - assert (Hc : In u (cls (tprio u) (map snd P))) by (apply cls_in; auto). rewrite <- Hs in Hc. apply cls_in in Hc. tauto.
Qed.

(* take *)
Lemma take_some f : forall P, (exists y, In y P /\ f y = true) ->
  exists a x b, P = a ++ x :: b /\ Forall (fun y => f y = false) a /\ f x = true /\ take f P = (a ++ b, Some x).
Proof.
  induction P as [|z r IH]; intros (y & Hy & Hf); [destruct Hy|]. cbn [take].
  destruct (f z) eqn:E.
  - exists [], z, r. cbn. auto.
  - destruct IH as (a & x & b & H1 & H2 & H3 & H4).
    { destruct Hy as [->|Hy]; [congruence|eauto]. }
    exists (z :: a), x, b. subst r. rewrite H4. cbn. repeat split; auto.
Qed.
Lemma take_none f : forall P, Forall (fun y => f y = false) P -> take f P = (P, None).
Proof.
  induction 1 as [|z r Hz Hr IH]; cbn [take]; auto. rewrite Hz, IH. reflexivity.
Qed.

(* removing the head t of R corresponds to taking the first element of priority
   tprio t out of P *)
Lemma take_sim R' t P : sameI (t :: R') P ->
  exists a x b, P = a ++ x :: b /\ take (fun y => pprio y =? tprio t) P = (a ++ b, Some x) /\
                snd x = t /\ sameI R' (a ++ b) /\ Forall (fun y => pprio y <> tprio t) a.
Proof.
  intros Hs.
  assert (Hin : In t (map snd P)) by (apply (sameI_in _ _ t Hs); left; auto).
  apply in_map_iff in Hin. destruct Hin as (y & Hy1 & Hy2).
  destruct (take_some (fun y => pprio y =? tprio t) P) as (a & x & b & H1 & H2 & H3 & H4).
  { exists y. split; auto. unfold pprio. rewrite Hy1. apply Z.eqb_refl. }
  exists a, x, b. split; auto. split; auto.
  assert (Ha : Forall (fun y => pprio y <> tprio t) a).
  { eapply Forall_impl; [|apply H2]. cbn. intros z Hz. apply Z.eqb_neq; auto. }
  assert (Hca : cls (tprio t) (map snd a) = []).
  { apply cls_nil_forall. rewrite Forall_map. exact Ha. }
  pose proof (Hs (tprio t)) as Hk. subst P.
  rewrite map_app, cls_app, Hca in Hk. cbn [map app] in Hk. rewrite !cls_cons in Hk.
  rewrite Z.eqb_refl in Hk. change (tprio (snd x)) with (pprio x) in Hk. rewrite H3 in Hk.
  injection Hk as Hx Hrest.
  split; [auto|]. split; [|exact Ha].
  intros k. pose proof (Hs k) as Hk'. rewrite !map_app, !cls_app in *. cbn [map] in Hk'. rewrite !cls_cons in Hk'.
  rewrite <- Hx in Hk'.
  destruct (tprio t =? k) eqn:E.
  - apply Z.eqb_eq in E. subst k. rewrite Hca. cbn [app]. exact Hrest.
  - exact Hk'.
Qed.

Lemma sameI_nil P : sameI [] P -> P = [].
Proof.
  intros Hs. destruct P as [|x r]; auto. exfalso.
  assert (H : In (snd x) []) by (apply (sameI_in _ _ (snd x) Hs); left; auto). destruct H.
Qed.

(* extrema *)
Lemma fold_max_spec r : forall x, In (fold_left Z.max r x) (x :: r) /\ forall y, In y (x :: r) -> y <= fold_left Z.max r x.
Proof.
  induction r as [|z r IH]; intros x; cbn [fold_left].
  - split; [left; auto|]. intros y [->|[]]; lia.
  - destruct (IH (Z.max x z)) as [H1 H2]. split.
    + destruct H1 as [H1|H1]; [|right; right; exact H1]. rewrite <- H1.
      destruct (Z.max_spec x z) as [[_ E]|[_ E]]; rewrite E; [right; left; reflexivity|left; reflexivity].
    + intros y [->|[->|Hy]].
      * specialize (H2 (Z.max y z) (or_introl eq_refl)). lia.
      * specialize (H2 (Z.max x y) (or_introl eq_refl)). lia.
      * apply H2. right; auto.
Qed.
Lemma fold_min_spec r : forall x, In (fold_left Z.min r x) (x :: r) /\ forall y, In y (x :: r) -> fold_left Z.min r x <= y.
Proof.
  induction r as [|z r IH]; intros x; cbn [fold_left].
  - split; [left; auto|]. intros y [->|[]]; lia.
  - destruct (IH (Z.min x z)) as [H1 H2]. split.
    + destruct H1 as [H1|H1]; [|right; right; exact H1]. rewrite <- H1.
      destruct (Z.min_spec x z) as [[_ E]|[_ E]]; rewrite E; [left; reflexivity|right; left; reflexivity].
    + intros y [->|[->|Hy]].
      * specialize (H2 (Z.min y z) (or_introl eq_refl)). lia.
      * specialize (H2 (Z.min x y) (or_introl eq_refl)). lia.
      * apply H2. right; auto.
Qed.
Lemma zmax_list_is l k : In k l -> (forall y, In y l -> y <= k) -> zmax_list l = Some k.
Proof.
  destruct l as [|x r]; intros H1 H2; [destruct H1|]. cbn [zmax_list]. f_equal.
  destruct (fold_max_spec r x) as [H3 H4]. specialize (H2 _ H3). specialize (H4 _ H1). lia.
Qed.
Lemma zmin_list_is l k : In k l -> (forall y, In y l -> k <= y) -> zmin_list l = Some k.
Proof.
  destruct l as [|x r]; intros H1 H2; [destruct H1|]. cbn [zmin_list]. f_equal.
  destruct (fold_min_spec r x) as [H3 H4]. specialize (H2 _ H3). specialize (H4 _ H1). lia.
Qed.
Lemma zmax_list_some l k : zmax_list l = Some k -> In k l /\ forall y, In y l -> y <= k.
Proof. destruct l as [|x r]; [discriminate|]. cbn. intros H; inversion H; subst. apply fold_max_spec. Qed.
Lemma zmin_list_some l k : zmin_list l = Some k -> In k l /\ forall y, In y l -> k <= y.
Proof. destruct l as [|x r]; [discriminate|]. cbn. intros H; inversion H; subst. apply fold_min_spec. Qed.

(* ---- ap ------------------------------------------------------------------------------------ *)
Lemma ap_sel_sim t Q' P : apI (t :: Q') P ->
  exists x P', ap_pick P = (P', Some x) /\ snd x = t /\ apI Q' P'.
Proof.
  intros [[Hle Hd] Hs].
  destruct (take_sim Q' t P Hs) as (a & x & b & H1 & H2 & H3 & H4 & _).
  exists x, (a ++ b). split; [|split; [auto|split; auto]].
  unfold ap_pick. rewrite (zmax_list_is (map pprio P) (tprio t)); auto.
  - apply in_map_iff. exists x. split; [unfold pprio; rewrite H3; auto|]. subst P. apply in_or_app; right; left; auto.
  - intros y Hy. apply in_map_iff in Hy. destruct Hy as (z & <- & Hz).
    assert (Hq : In (snd z) (t :: Q')) by (apply (sameI_in _ _ _ Hs), in_map; auto).
    destruct Hq as [Hq|Hq]; [unfold pprio; rewrite <- Hq; lia|]. rewrite Forall_forall in Hle. apply Hle; auto.
Qed.

(* ---- ip with distance 0 ------------------------------------------------------------------------ *)
Lemma sameI_rev Q P : sameI Q P -> sameI (rev Q) (rev P).
Proof. intros Hs k. rewrite map_rev, !cls_rev, Hs. reflexivity. Qed.

Lemma desc_last Q' t : desc (Q' ++ [t]) -> forall u, In u Q' -> tprio t <= tprio u.
Proof.
  intros Hd u Hu. apply desc_app in Hd. destruct Hd as (_ & _ & H). rewrite Forall_forall in H.
  specialize (H u Hu). inversion H; auto.
Qed.

Lemma ip_sel_sim t Q' P : apI (Q' ++ [t]) P ->
  exists x P', ip_pick P = (P', Some x) /\ snd x = t /\ apI Q' P'.
Proof.
  intros [Hd Hs]. pose proof (sameI_rev _ _ Hs) as Hr. rewrite rev_app_distr in Hr. cbn [rev app] in Hr.
  destruct (take_sim (rev Q') t (rev P) Hr) as (a & x & b & H1 & H2 & H3 & H4 & _).
  exists x, (rev (a ++ b)). split; [|split; [auto|split]].
  - unfold ip_pick. rewrite (zmin_list_is (map pprio P) (tprio t)).
    + unfold take_last. rewrite H2. reflexivity.
    + apply in_map_iff. exists x. split; [unfold pprio; rewrite H3; auto|].
      apply in_rev. rewrite H1. apply in_or_app; right; left; auto.
    + intros y Hy. apply in_map_iff in Hy. destruct Hy as (z & <- & Hz).
      assert (Hq : In (snd z) (Q' ++ [t])) by (apply (sameI_in _ _ _ Hs), in_map; auto).
      apply in_app_or in Hq. destruct Hq as [Hq|[Hq|[]]]; [|unfold pprio; rewrite <- Hq; lia].
      apply (desc_last _ _ Hd); auto.
  - apply desc_app in Hd. tauto.
  - apply sameI_rev in H4. rewrite rev_involutive in H4. exact H4.
Qed.

(* ---- what the picks are -------------------------------------------------------------------------- *)
Lemma take_split f P P' x : take f P = (P', Some x) ->
  exists a b, P = a ++ x :: b /\ P' = a ++ b /\ Forall (fun y => f y = false) a /\ f x = true.
Proof.
  revert P'. induction P as [|z r IH]; intros P' H; cbn [take] in H; [discriminate|].
  destruct (f z) eqn:E.
  - injection H as <- <-. exists [], r. cbn. auto.
  - destruct (take f r) as [r' o] eqn:Et. injection H as <- ->.
    destruct (IH _ eq_refl) as (a & b & H1 & H2 & H3 & H4). exists (z :: a), b. subst. cbn. auto.
Qed.
Lemma take_none_inv f P P' : take f P = (P', None) -> P' = P /\ Forall (fun y => f y = false) P.
Proof.
  revert P'. induction P as [|z r IH]; intros P' H; cbn [take] in H.
  - inversion H; auto.
  - destruct (f z) eqn:E; [discriminate|]. destruct (take f r) as [r' o] eqn:Et. injection H as <- ->.
    destruct (IH _ eq_refl) as [H1 H2]. subst. auto.
Qed.

Lemma ap_pick_meaning P P' x : ap_pick P = (P', Some x) ->
  exists a b, P = a ++ x :: b /\ P' = a ++ b /\
              (forall y, In y P -> pprio y <= pprio x) /\ (forall y, In y a -> pprio y < pprio x).
Proof.
  unfold ap_pick. destruct (zmax_list (map pprio P)) as [k|] eqn:Ek; [|discriminate].
  intros H. destruct (take_split _ _ _ _ H) as (a & b & H1 & H2 & H3 & H4).
  apply zmax_list_some in Ek. destruct Ek as [_ Hmax]. apply Z.eqb_eq in H4.
  exists a, b. repeat split; auto.
  - intros y Hy. rewrite H4. apply Hmax, in_map; auto.
  - intros y Hy. rewrite Forall_forall in H3. specialize (H3 y Hy). apply Z.eqb_neq in H3.
    assert (pprio y <= k) by (apply Hmax, in_map; subst P; apply in_or_app; auto). lia.
Qed.
Lemma ap_pick_none P P' : ap_pick P = (P', None) -> P = [].
Proof.
  unfold ap_pick. destruct (zmax_list (map pprio P)) as [k|] eqn:Ek.
  - intros H. apply take_none_inv in H. destruct H as [_ H]. apply zmax_list_some in Ek. destruct Ek as [Hin _].
    apply in_map_iff in Hin. destruct Hin as (y & Hy1 & Hy2). rewrite Forall_forall in H. specialize (H y Hy2).
    apply Z.eqb_neq in H. congruence.
  - destruct P; [auto|discriminate].
Qed.

Lemma ip_pick_meaning P P' x : ip_pick P = (P', Some x) ->
  exists a b, P = a ++ x :: b /\ P' = a ++ b /\
              (forall y, In y P -> pprio x <= pprio y) /\ (forall y, In y b -> pprio x < pprio y).
Proof.
  unfold ip_pick. destruct (zmin_list (map pprio P)) as [k|] eqn:Ek; [|discriminate].
  unfold take_last. destruct (take (fun x0 => pprio x0 =? k) (rev P)) as [r o] eqn:Et.
  intros H. inversion H; subst. destruct (take_split _ _ _ _ Et) as (a & b & H1 & H2 & H3 & H4).
  apply zmin_list_some in Ek. destruct Ek as [_ Hmin]. apply Z.eqb_eq in H4.
  exists (rev b), (rev a).
  assert (HP : P = rev b ++ x :: rev a).
  { rewrite <- (rev_involutive P), H1, rev_app_distr. cbn [rev]. rewrite <- app_assoc. reflexivity. }
  repeat split; auto.
  - subst r. rewrite rev_app_distr. reflexivity.
  - intros y Hy. rewrite H4. apply Hmin, in_map; auto.
  - intros y Hy. apply in_rev in Hy. rewrite Forall_forall in H3. specialize (H3 y Hy). apply Z.eqb_neq in H3.
    assert (k <= pprio y).
    { apply Hmin, in_map. apply in_rev. rewrite H1. apply in_or_app; auto. }
    lia.
Qed.

(* ---- spq ----------------------------------------------------------------------------------------- *)
Fixpoint qd (q : list (Z * list task)) (d : Z) : list task :=
  match q with [] => [] | (p, l) :: r => if p =? d then l else qd r d end.
Fixpoint ascl (l : list Z) : Prop :=
  match l with [] => True | p :: r => Forall (fun e => p < e) r /\ ascl r end.
Definition asc (q : list (Z * list task)) : Prop := ascl (map fst q).
Definition pd (P : list ptask) (d : Z) : list ptask := filter (fun x => fst x =? d) P.
Definition spI (q : list (Z * list task)) (P : list ptask) : Prop :=
  asc q /\ forall d, apI (qd q d) (pd P d).

Lemma qd_absent q d : ~ In d (map fst q) -> qd q d = [].
Proof.
  induction q as [|[p l] r IH]; intros H; cbn [qd]; auto.
  destruct (p =? d) eqn:E; [apply Z.eqb_eq in E; subst; exfalso; apply H; left; auto|].
  apply IH. intros Hin. apply H. right; auto.
Qed.
Lemma qd_below q d : Forall (fun e => d < e) (map fst q) -> qd q d = [].
Proof.
  intros H. apply qd_absent. intros Hin. rewrite Forall_forall in H. specialize (H d Hin). lia.
Qed.

Lemma spq_sched_fsts q : forall p d ring, Forall (fun e => p < e) (map fst q) -> p < d ->
  Forall (fun e => p < e) (map fst (spq_sched q d ring)).
Proof.
  induction q as [|[p0 l] r IH]; intros p d ring H Hd; cbn [spq_sched].
  - cbn. constructor; auto.
  - cbn [map fst] in H. inversion H; subst.
    destruct (p0 =? d); [cbn; constructor; auto|].
    destruct (d <? p0); [cbn; constructor; auto|].
    cbn. constructor; auto.
Qed.

Lemma spq_sched_spec q : forall d ring, asc q ->
  asc (spq_sched q d ring) /\
  forall d', qd (spq_sched q d ring) d' = if d' =? d then chain_sorted (qd q d) ring else qd q d'.
Proof.
  induction q as [|[p l] r IH]; intros d ring Ha; cbn [spq_sched].
  - split; [cbn; auto|]. intros d'. cbn [qd]. rewrite Z.eqb_sym. reflexivity.
  - destruct Ha as [Hp Hr]. fold (ascl (map fst r)) in Hr. fold (asc r) in Hr.
    destruct (p =? d) eqn:E1.
    + apply Z.eqb_eq in E1. subst p. split; [split; auto|].
      intros d'. cbn [qd]. rewrite Z.eqb_refl. rewrite (Z.eqb_sym d' d). destruct (d =? d'); reflexivity.
    + destruct (d <? p) eqn:E2.
      * apply Z.ltb_lt in E2. split.
        { cbn. split; [|split; auto]. constructor; auto.
          eapply Forall_impl; [|apply Hp]. cbn; intros; lia. }
        intros d'. cbn [qd]. rewrite E1.
        assert (Hq : qd r d = []).
        { apply qd_below. eapply Forall_impl; [|apply Hp]. cbn; intros; lia. }
        rewrite Hq. rewrite (Z.eqb_sym d' d). destruct (d =? d') eqn:E3; auto.
      * apply Z.ltb_ge in E2. apply Z.eqb_neq in E1. assert (Hlt : p < d) by lia.
        destruct (IH d ring Hr) as [H1 H2]. split.
        { cbn. split; [apply spq_sched_fsts; auto|exact H1]. }
        assert (Epd : p =? d = false) by (apply Z.eqb_neq; lia).
        intros d'. cbn [qd]. rewrite H2, Epd. destruct (p =? d') eqn:E3; auto.
        apply Z.eqb_eq in E3. subst d'. rewrite Epd. reflexivity.
Qed.

Lemma spq_sel_spec q : forall q' o, asc q -> spq_sel q = (q', o) ->
  map fst q' = map fst q /\
  match o with
  | Some t => exists p l', qd q p = t :: l' /\ (forall d', d' < p -> qd q d' = []) /\
                           forall d', qd q' d' = if d' =? p then l' else qd q d'
  | None => q' = q /\ forall d, qd q d = []
  end.
Proof.
  induction q as [|[p l] r IH]; intros q' o Ha H; cbn [spq_sel] in H.
  - inversion H; subst. auto.
  - destruct Ha as [Hp Hr]. fold (ascl (map fst r)) in Hr. fold (asc r) in Hr.
    destruct l as [|t l'].
    + destruct (spq_sel r) as [r' o'] eqn:E. inversion H; subst.
      destruct (IH _ _ Hr eq_refl) as [Hf Ho]. split; [cbn; f_equal; auto|].
      destruct o as [t|].
      * destruct Ho as (p0 & l' & H1 & H2 & H3).
        assert (Hne : p =? p0 = false).
        { apply Z.eqb_neq. intros ->. rewrite qd_below in H1; [discriminate|exact Hp]. }
        exists p0, l'. cbn [qd]. rewrite Hne. split; [auto|]. split.
        { intros d' Hd. destruct (p =? d'); auto. }
        intros d'. rewrite H3. destruct (p =? d') eqn:E3; auto.
        apply Z.eqb_eq in E3. subst d'. rewrite Hne. reflexivity.
      * destruct Ho as [-> Ho]. split; auto. intros d. cbn [qd]. destruct (p =? d); auto.
    + inversion H; subst. split; [reflexivity|].
      exists p, l'. cbn [qd]. rewrite Z.eqb_refl. split; [auto|]. split.
      * intros d' Hd. replace (p =? d') with false by (symmetry; apply Z.eqb_neq; lia).
        apply qd_below. eapply Forall_impl; [|apply Hp]. cbn; intros; lia.
      * intros d'. rewrite (Z.eqb_sym d' p). destruct (p =? d'); reflexivity.
Qed.

Lemma pd_app P1 P2 d : pd (P1 ++ P2) d = pd P1 d ++ pd P2 d.
Proof. apply filter_app. Qed.
Lemma pd_ring d ring d' : pd (map (pair d) ring) d' = if d =? d' then map (pair d) ring else [].
Proof.
  unfold pd. induction ring as [|t r IH]; cbn [map filter fst]; [destruct (d =? d'); auto|].
  rewrite IH. destruct (d =? d'); reflexivity.
Qed.

Lemma spI_sched q P d ring : spI q P -> spI (spq_sched q d ring) (P ++ map (pair d) ring).
Proof.
  intros [Ha Hq]. destruct (spq_sched_spec q d ring Ha) as [H1 H2]. split; auto.
  intros d'. rewrite H2, pd_app, pd_ring. rewrite (Z.eqb_sym d' d). destruct (d =? d') eqn:E.
  - apply Z.eqb_eq in E. subst d'. apply apI_sched. apply Hq.
  - rewrite app_nil_r. apply Hq.
Qed.

Lemma take_filter g h : forall P L' x, take h (filter g P) = (L', Some x) ->
  exists P', take (fun y => g y && h y) P = (P', Some x) /\ filter g P' = L' /\
             forall g', (forall y, g' y = true -> g y = false) -> filter g' P' = filter g' P.
Proof.
  induction P as [|z r IH]; intros L' x H; cbn [filter] in H; [discriminate|].
  cbn [take]. destruct (g z) eqn:Eg; cbn [andb].
  - cbn [take] in H. destruct (h z) eqn:Eh.
    + injection H as <- <-. exists r. repeat split; auto.
      intros g' Hg'. cbn [filter]. destruct (g' z) eqn:E; auto. apply Hg' in E. congruence.
    + destruct (take h (filter g r)) as [L'' o] eqn:Et. injection H as <- ->.
      destruct (IH _ _ eq_refl) as (P'' & H1 & H2 & H3). rewrite H1. exists (z :: P''). cbn [filter]. rewrite Eg.
      repeat split; auto. { f_equal; auto. }
      intros g' Hg'. cbn [filter]. rewrite (H3 g' Hg'). reflexivity.
  - destruct (IH _ _ H) as (P'' & H1 & H2 & H3). rewrite H1. exists (z :: P''). cbn [filter]. rewrite Eg.
    repeat split; auto. intros g' Hg'. cbn [filter]. rewrite (H3 g' Hg'). reflexivity.
Qed.

Lemma pd_all_nil P : (forall d, pd P d = []) -> P = [].
Proof.
  intros H. destruct P as [|x r]; auto. specialize (H (fst x)). unfold pd in H. cbn [filter] in H.
  rewrite Z.eqb_refl in H. discriminate.
Qed.

Lemma spq_sel_sim q P q' t : spI q P -> spq_sel q = (q', Some t) ->
  exists x P', spq_pick P = (P', Some x) /\ snd x = t /\ spI q' P'.
Proof.
  intros [Ha Hq] Hs. destruct (spq_sel_spec q _ _ Ha Hs) as [Hf (p & l' & H1 & H2 & H3)].
  pose proof (Hq p) as Hp. rewrite H1 in Hp.
  destruct (ap_sel_sim _ _ _ Hp) as (x & L' & Hpick & Hx & HI).
  unfold ap_pick in Hpick. destruct (zmax_list (map pprio (pd P p))) as [k|] eqn:Ek; [|discriminate].
  destruct (take_split _ _ _ _ Hpick) as (a & b & Hab & _ & _ & _).
  assert (Hxin : In x P /\ fst x = p).
  { assert (Hin : In x (pd P p)) by (rewrite Hab; apply in_or_app; right; left; auto).
    unfold pd in Hin. apply filter_In in Hin. rewrite Z.eqb_eq in Hin. exact Hin. }
  assert (Hdm : zmin_list (map fst P) = Some p).
  { apply zmin_list_is.
    - apply in_map_iff. exists x. tauto.
    - intros d' Hd'. apply in_map_iff in Hd'. destruct Hd' as (y & <- & Hy).
      destruct (Z.lt_ge_cases (fst y) p) as [Hlt|]; [|lia]. exfalso.
      pose proof (Hq (fst y)) as [_ Hsame]. rewrite (H2 _ Hlt) in Hsame. apply sameI_nil in Hsame.
      assert (Hin : In y (pd P (fst y))) by (unfold pd; apply filter_In; split; auto; apply Z.eqb_refl).
      rewrite Hsame in Hin. destruct Hin. }
  destruct (take_filter (fun y => fst y =? p) (fun y => pprio y =? k) P L' x Hpick) as (P' & Ht & Hg & Hother).
  exists x, P'. split; [|split; auto].
  - unfold spq_pick. rewrite Hdm. fold (pd P p). rewrite Ek. exact Ht.
  - split.
    + unfold asc. rewrite Hf. exact Ha.
    + intros d'. rewrite H3. destruct (d' =? p) eqn:E.
      * apply Z.eqb_eq in E. subst d'. unfold pd. rewrite Hg. exact HI.
      * unfold pd. rewrite (Hother (fun y => fst y =? d')); [apply Hq|].
        intros y Hy. apply Z.eqb_eq in Hy. apply Z.eqb_neq in E. apply Z.eqb_neq. congruence.
Qed.

Lemma spq_sel_none_sim q P q' : spI q P -> spq_sel q = (q', None) -> q' = q /\ P = [].
Proof.
  intros [Ha Hq] Hs. destruct (spq_sel_spec q _ _ Ha Hs) as [_ [-> Hall]]. split; auto.
  apply pd_all_nil. intros d. destruct (Hq d) as [_ Hsame]. rewrite Hall in Hsame. apply sameI_nil in Hsame. exact Hsame.
Qed.

Lemma spq_pick_meaning P P' x : spq_pick P = (P', Some x) ->
  exists a b, P = a ++ x :: b /\ P' = a ++ b /\
              (forall y, In y P -> fst x <= fst y) /\
              (forall y, In y P -> fst y = fst x -> pprio y <= pprio x) /\
              (forall y, In y a -> fst y = fst x -> pprio y < pprio x).
Proof.
  unfold spq_pick. destruct (zmin_list (map fst P)) as [dm|] eqn:Ed; [|discriminate].
  destruct (zmax_list (map pprio (filter (fun x0 => fst x0 =? dm) P))) as [k|] eqn:Ek; [|discriminate].
  intros H. destruct (take_split _ _ _ _ H) as (a & b & H1 & H2 & H3 & H4).
  apply andb_true_iff in H4. destruct H4 as [H4 H5]. apply Z.eqb_eq in H4, H5.
  apply zmin_list_some in Ed. destruct Ed as [_ Hmin]. apply zmax_list_some in Ek. destruct Ek as [_ Hmax].
  exists a, b. repeat split; auto.
  - intros y Hy. rewrite H4. apply Hmin, in_map; auto.
  - intros y Hy Hf. rewrite H5. apply Hmax, in_map. apply filter_In. split; auto. apply Z.eqb_eq. congruence.
  - intros y Hy Hf. rewrite Forall_forall in H3. specialize (H3 y Hy). apply andb_false_iff in H3.
    assert (Hle : pprio y <= k).
    { apply Hmax, in_map. apply filter_In. split; [subst P; apply in_or_app; auto|apply Z.eqb_eq; congruence]. }
    destruct H3 as [H3|H3]; apply Z.eqb_neq in H3; [congruence|lia].
Qed.

(* ---- simulations over histories ------------------------------------------------------------------------ *)
Lemma ap_sim c ops : forall (Q : list task) P nx, plain ops -> apI Q P ->
  snd (vrun c (@mkV AP Q nx) ops) = srun ap_pick P ops.
Proof.
  induction ops as [|o r IH]; intros Q P nx Hpl HI; [reflexivity|].
  inversion Hpl as [|? ? Ho Hr]; subst. destruct o as [es d ring rnds|es| | | |]; try contradiction; cbn [vrun vstep srun].
  - unfold vsched. cbn [v_mod v_next]. destruct ring as [|t0 rr].
    + cbn [map]. rewrite app_nil_r. specialize (IH Q P nx Hr HI).
      destruct (vrun c (@mkV AP Q nx) r). cbn [snd] in *. rewrite IH. reflexivity.
    + cbn [msched]. specialize (IH (ap_sched Q (t0 :: rr)) (P ++ map (pair d) (t0 :: rr)) nx Hr (apI_sched _ _ d _ HI)).
      destruct (vrun c (@mkV AP (ap_sched Q (t0 :: rr)) nx) r). cbn [snd] in *. rewrite IH. reflexivity.
  - unfold vsel. cbn [v_mod v_next msel]. destruct Q as [|t Q']; cbn [pop_front].
    + destruct HI as [_ HI]. apply sameI_nil in HI. subst P. cbn [ap_pick zmax_list map option_map].
      specialize (IH [] [] nx Hr (conj I (fun k => eq_refl))).
      destruct (vrun c (@mkV AP [] nx) r). cbn [snd] in *. rewrite IH. reflexivity.
    + destruct (ap_sel_sim _ _ _ HI) as (x & P' & Hp & Hx & HI'). rewrite Hp. cbn [option_map]. rewrite Hx.
      specialize (IH Q' P' nx Hr HI').
      destruct (vrun c (@mkV AP Q' nx) r). cbn [snd] in *. rewrite IH. reflexivity.
Qed.

Definition dist0 (ops : list op) : Prop :=
  Forall (fun o => match o with OSched _ d _ _ => d = 0 | _ => True end) ops.

Lemma ip_sim c ops : forall (Q : list task) P nx, plain ops -> dist0 ops -> apI Q P ->
  snd (vrun c (@mkV IP Q nx) ops) = srun ip_pick P ops.
Proof.
  induction ops as [|o r IH]; intros Q P nx Hpl Hd0 HI; [reflexivity|].
  inversion Hpl as [|? ? Ho Hr]; subst. inversion Hd0 as [|? ? Hd Hdr]; subst.
  destruct o as [es d ring rnds|es| | | |]; try contradiction; cbn [vrun vstep srun].
  - subst d. unfold vsched. cbn [v_mod v_next]. destruct ring as [|t0 rr].
    + cbn [map]. rewrite app_nil_r. specialize (IH Q P nx Hr Hdr HI).
      destruct (vrun c (@mkV IP Q nx) r). cbn [snd] in *. rewrite IH. reflexivity.
    + cbn [msched]. unfold ip_sched. cbn [Z.eqb].
      specialize (IH (chain_sorted Q (t0 :: rr)) (P ++ map (pair 0) (t0 :: rr)) nx Hr Hdr (apI_sched _ _ 0 _ HI)).
      destruct (vrun c (@mkV IP (chain_sorted Q (t0 :: rr)) nx) r). cbn [snd] in *. rewrite IH. reflexivity.
  - unfold vsel. cbn [v_mod v_next msel]. destruct (pop_back Q) as [Q' [t|]] eqn:Ep.
    + apply pop_back_some in Ep. subst Q.
      destruct (ip_sel_sim _ _ _ HI) as (x & P' & Hp & Hx & HI'). rewrite Hp. cbn [option_map]. rewrite Hx.
      specialize (IH Q' P' nx Hr Hdr HI').
      destruct (vrun c (@mkV IP Q' nx) r). cbn [snd] in *. rewrite IH. reflexivity.
    + apply pop_back_none in Ep. destruct Ep as [-> ->].
      destruct HI as [_ HI]. apply sameI_nil in HI. subst P. cbn [ip_pick zmin_list map option_map].
      specialize (IH [] [] nx Hr Hdr (conj I (fun k => eq_refl))).
      destruct (vrun c (@mkV IP [] nx) r). cbn [snd] in *. rewrite IH. reflexivity.
Qed.

Lemma spq_sim c ops : forall (q : list (Z * list task)) P nx, plain ops -> spI q P ->
  snd (vrun c (@mkV SPQ q nx) ops) = srun spq_pick P ops.
Proof.
  induction ops as [|o r IH]; intros q P nx Hpl HI; [reflexivity|].
  inversion Hpl as [|? ? Ho Hr]; subst. destruct o as [es d ring rnds|es| | | |]; try contradiction; cbn [vrun vstep srun].
  - unfold vsched. cbn [v_mod v_next]. destruct ring as [|t0 rr].
    + cbn [map]. rewrite app_nil_r. specialize (IH q P nx Hr HI).
      destruct (vrun c (@mkV SPQ q nx) r). cbn [snd] in *. rewrite IH. reflexivity.
    + cbn [msched]. specialize (IH (spq_sched q d (t0 :: rr)) (P ++ map (pair d) (t0 :: rr)) nx Hr (spI_sched _ _ d _ HI)).
      destruct (vrun c (@mkV SPQ (spq_sched q d (t0 :: rr)) nx) r). cbn [snd] in *. rewrite IH. reflexivity.
  - unfold vsel. cbn [v_mod v_next msel]. destruct (spq_sel q) as [q' [t|]] eqn:Es.
    + destruct (spq_sel_sim _ _ _ _ HI Es) as (x & P' & Hp & Hx & HI'). rewrite Hp. cbn [option_map]. rewrite Hx.
      specialize (IH q' P' nx Hr HI').
      destruct (vrun c (@mkV SPQ q' nx) r). cbn [snd] in *. rewrite IH. reflexivity.
    + destruct (spq_sel_none_sim _ _ _ HI Es) as [-> ->]. cbn [spq_pick zmin_list map option_map].
      specialize (IH q [] nx Hr HI).
      destruct (vrun c (@mkV SPQ q nx) r). cbn [snd] in *. rewrite IH. reflexivity.
Qed.

Lemma apI_init : apI [] [].
Proof. split; [exact I|intros k; reflexivity]. Qed.
Lemma spI_init : spI [] [].
Proof. split; [exact I|intros d; apply apI_init]. Qed.

Theorem ap_refines c ops : plain ops -> snd (vrun c (vinit AP c) ops) = srun ap_pick [] ops.
Proof. intros H. apply ap_sim; auto. apply apI_init. Qed.
Theorem ip_refines_dist0 c ops : plain ops -> dist0 ops -> snd (vrun c (vinit IP c) ops) = srun ip_pick [] ops.
Proof. intros H H0. apply ip_sim; auto. apply apI_init. Qed.
Theorem spq_refines c ops : plain ops -> snd (vrun c (vinit SPQ c) ops) = srun spq_pick [] ops.
Proof. intros H. apply spq_sim; auto. apply spI_init. Qed.

(* ---- ip with a non-zero distance: refuted ------------------------------------------------------------------ *)
Definition c1 : config := mkCfg 0 [] [] [] [].
Definition ip_witness : list op :=
  [OSched 0 0 [mkT 0 5 0 false] []; OSched 0 0 [mkT 1 3 0 false] []; OSched 0 1 [mkT 2 10 0 false] [];
   OSel 0; OSel 0; OSel 0].
Theorem ip_distance_refuted :
  plain ip_witness /\
  snd (vrun c1 (vinit IP c1) ip_witness) <> srun ip_pick [] ip_witness /\
  map ob_prio (snd (vrun c1 (vinit IP c1) ip_witness)) = [None; None; None; Some 10; Some 3; Some 5].
Proof.
  split; [repeat constructor|]. split; [vm_compute; discriminate|vm_compute; reflexivity].
Qed.
