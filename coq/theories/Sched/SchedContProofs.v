(* Element conservation of the container models of Sched/SchedDefs.v:
   every operation permutes what it is given (nothing lost, nothing duplicated). *)
From Coq Require Import ZArith List Bool Arith Lia Permutation.
From PV Require Import Sched.SchedDefs Sched.SchedPerm.
Import ListNotations.

Ltac pauto := eauto using Permutation_refl, Permutation_sym, Permutation_app, Permutation_app_comm,
  Permutation_cons, Permutation_middle, Permutation_trans.

(* ---- list helpers ------------------------------------------------------- *)
Lemma insert_at_perm {A} i (x : A) l : Permutation (insert_at i x l) (x :: l).
Proof.
  unfold insert_at. rewrite <- (firstn_skipn i l) at 3.
  apply Permutation_sym, Permutation_middle.
Qed.

Lemma set_nth_length {A} i (v : A) l : length (set_nth i v l) = length l.
Proof. revert i; induction l as [|x l IH]; intros [|i]; cbn; auto. Qed.

Lemma set_nth_ge {A} i (v : A) l : length l <= i -> set_nth i v l = l.
Proof.
  revert i; induction l as [|x l IH]; intros [|i] H; cbn in *; auto; try lia.
  f_equal. apply IH. lia.
Qed.

Lemma nth_set_nth_same {A} i (v d : A) l : i < length l -> nth i (set_nth i v l) d = v.
Proof. revert i; induction l as [|x l IH]; intros [|i] H; cbn in *; auto; try lia. apply IH. lia. Qed.

Lemma nth_set_nth_other {A} i j (v d : A) l : i <> j -> nth j (set_nth i v l) d = nth j l d.
Proof.
  revert i j; induction l as [|x l IH]; intros [|i] [|j] H; cbn in *; auto; try lia.
Qed.

(* replacing the i-th component of a list of "bags": what the others hold is
   a fixed remainder R *)
Lemma flat_set_nth {A B} (f : A -> list B) (dflt : A) i l : i < length l ->
  exists R, Permutation (flat_map f l) (f (nth i l dflt) ++ R) /\
            forall v, Permutation (flat_map f (set_nth i v l)) (f v ++ R).
Proof.
  revert i; induction l as [|x l IH]; intros [|i] H; cbn in *; try lia.
  - exists (flat_map f l). split; intros; apply Permutation_refl.
  - destruct (IH i) as (R & H1 & H2); [lia|].
    exists (f x ++ R). split.
    + eapply Permutation_trans; [apply Permutation_app_head, H1|].
      rewrite !app_assoc. apply Permutation_app_tail, Permutation_app_comm.
    + intros v. eapply Permutation_trans; [apply Permutation_app_head, H2|].
      rewrite !app_assoc. apply Permutation_app_tail, Permutation_app_comm.
Qed.

Lemma concat_flat_map {A} (l : list (list A)) : concat l = flat_map (fun x => x) l.
Proof. induction l; cbn; congruence. Qed.

Lemma pop_front_some {A} (l l' : list A) t : pop_front l = (l', Some t) -> l = t :: l'.
Proof. destruct l; cbn; intros H; inversion H; auto. Qed.
Lemma pop_front_none {A} (l l' : list A) : pop_front l = (l', None) -> l = [] /\ l' = [].
Proof. destruct l; cbn; intros H; inversion H; auto. Qed.

Lemma pop_back_some {A} (l l' : list A) t : pop_back l = (l', Some t) -> l = l' ++ [t].
Proof.
  destruct l as [|x r]; cbn [pop_back]; intros H; inversion H; subst; clear H.
  assert (Hl : last r x = last (x :: r) x) by (destruct r; reflexivity).
  rewrite Hl. apply app_removelast_last. discriminate.
Qed.
Lemma pop_back_none {A} (l l' : list A) : pop_back l = (l', None) -> l = [] /\ l' = [].
Proof. destruct l; cbn; intros H; inversion H; auto. Qed.

(* ---- list.h -------------------------------------------------------------- *)
Lemma chain_from_perm items : forall l pos, Permutation (chain_from l pos items) (items ++ l).
Proof.
  induction items as [|e r IH]; intros l pos; cbn [chain_from app]; [apply Permutation_refl|].
  eapply Permutation_trans; [apply IH|].
  eapply Permutation_trans; [apply Permutation_app_head, insert_at_perm|].
  apply Permutation_sym, Permutation_middle.
Qed.

Lemma chain_sorted_perm l items : Permutation (chain_sorted l items) (items ++ l).
Proof.
  unfold chain_sorted. destruct items as [|e r]; [apply Permutation_refl|].
  destruct l as [|x l].
  - eapply Permutation_trans; [apply chain_from_perm|].
    rewrite app_nil_r. cbn. apply Permutation_sym.
    change (e :: r) with ([e] ++ r). apply Permutation_app_comm.
  - apply chain_from_perm.
Qed.

Lemma merge_asc_perm p : forall q, Permutation (merge_asc p q) (p ++ q).
Proof.
  induction p as [|a p IHp]; intros q.
  - destruct q; cbn; apply Permutation_refl.
  - induction q as [|b q IHq].
    + cbn. rewrite app_nil_r. apply Permutation_refl.
    + cbn [merge_asc]. destruct (Z.ltb (tprio a) (tprio b)).
      * cbn. apply perm_skip. apply IHp.
      * eapply Permutation_trans; [apply perm_skip; exact IHq|].
        apply (Permutation_middle (a :: p) q b).
Qed.

Lemma skipn_add {A} a b (l : list A) : skipn a (skipn b l) = skipn (b + a) l.
Proof.
  revert l; induction b as [|b IH]; intros l; cbn; auto.
  destruct l; cbn; auto. destruct a; reflexivity.
Qed.

Lemma ms_pass_perm fuel k : forall l, Permutation (ms_pass fuel k l) l.
Proof.
  induction fuel as [|f IH]; intros l; cbn [ms_pass]; [apply Permutation_refl|].
  destruct l as [|x l]; [apply Permutation_refl|].
  set (L := x :: l).
  eapply Permutation_trans; [apply Permutation_app; [apply merge_asc_perm|apply IH]|].
  rewrite <- skipn_add, <- app_assoc, (firstn_skipn k (skipn k L)), (firstn_skipn k L).
  apply Permutation_refl.
Qed.

Lemma ms_loop_perm fuel : forall k l, Permutation (ms_loop fuel k l) l.
Proof.
  induction fuel as [|f IH]; intros k l; cbn [ms_loop]; [apply Permutation_refl|].
  destruct (length l <=? k + k).
  - apply ms_pass_perm.
  - eapply Permutation_trans; [apply IH|apply ms_pass_perm].
Qed.
Lemma list_sort_perm l : Permutation (list_sort l) l.
Proof. apply ms_loop_perm. Qed.

Lemma rnd_assign_ids ring : forall rnds d, map tid (rnd_assign ring rnds d) = map tid ring.
Proof.
  induction ring as [|t r IH]; intros rnds d; cbn [rnd_assign map]; auto.
  destruct rnds as [|x rs]; cbn; f_equal; apply IH.
Qed.

(* ---- hbbuffer.c ----------------------------------------------------------- *)
Section HBP.
  Context {A : Type}.
  Variable pr : A -> Z.
  Definition ol (o : option A) : list A := match o with None => [] | Some x => [x] end.
  Definition bitems (b : list (option A)) : list A := flat_map ol b.
  Definition allitems (bufs : list (list (option A))) : list A := flat_map bitems bufs.

  Lemma hb_items_eq (s : hbst A) : hb_items s = allitems (hb_bufs s) ++ hb_sys s.
  Proof. reflexivity. Qed.

  Lemma fill_perm b : forall elts b' left, fill A b elts = (b', left) ->
    Permutation (bitems b' ++ left) (bitems b ++ elts).
  Proof.
    induction b as [|s rest IH]; intros elts b' left H; cbn [fill] in H.
    - inversion H; subst. apply Permutation_refl.
    - destruct elts as [|e es].
      + inversion H; subst. apply Permutation_refl.
      + destruct s as [x|].
        * destruct (fill A rest (e :: es)) as [r l] eqn:E. inversion H; subst.
          cbn. apply perm_skip. apply IH; auto.
        * destruct (fill A rest es) as [r l] eqn:E. inversion H; subst.
          cbn. eapply Permutation_trans; [apply perm_skip, (IH _ _ _ E)|].
          apply Permutation_middle.
  Qed.
  Lemma fill_length b : forall elts b' left, fill A b elts = (b', left) -> length b' = length b.
  Proof.
    induction b as [|s rest IH]; intros elts b' left H; cbn [fill] in H.
    - inversion H; auto.
    - destruct elts as [|e es]; [inversion H; auto|].
      destruct s as [x|].
      + destruct (fill A rest (e :: es)) as [r l] eqn:E. inversion H; subst. cbn. f_equal. eauto.
      + destruct (fill A rest es) as [r l] eqn:E. inversion H; subst. cbn. f_equal. eauto.
  Qed.

  (* slots: replacing one *)
  Lemma slot_set i (b : list (option A)) : i < length b ->
    exists R, Permutation (bitems b) (ol (nth i b None) ++ R) /\
              forall v, Permutation (bitems (set_nth i v b)) (ol v ++ R).
  Proof. intros H. apply (flat_set_nth ol None i b H). Qed.

  Lemma nth_some_lt i (b : list (option A)) c : nth i b None = Some c -> i < length b.
  Proof.
    intros H. destruct (Nat.lt_ge_cases i (length b)); auto.
    rewrite nth_overflow in H; auto; discriminate.
  Qed.

  Lemma take_slot i b c : nth i b None = Some c ->
    Permutation (bitems b) (c :: bitems (set_nth i None b)).
  Proof.
    intros H. destruct (slot_set i b (nth_some_lt _ _ _ H)) as (R & H1 & H2).
    rewrite H in H1. eapply Permutation_trans; [apply H1|]. cbn.
    apply perm_skip. apply Permutation_sym. apply (H2 None).
  Qed.

  Lemma put_slot i b t : i < length b ->
    Permutation (bitems (set_nth i (Some t) b)) (t :: bitems (set_nth i None b)).
  Proof.
    intros H. destruct (slot_set i b H) as (R & H1 & H2).
    eapply Permutation_trans; [apply (H2 (Some t))|]. cbn. apply perm_skip.
    apply Permutation_sym, (H2 None).
  Qed.

  (* best_idx *)
  Lemma best_idx_spec b : forall i best k, best_idx A pr b i best = Some k ->
    (exists p, best = Some (k, p)) \/ (i <= k /\ exists c, nth (k - i) b None = Some c).
  Proof.
    induction b as [|s r IH]; intros i best k H; cbn [best_idx] in H.
    - destruct best as [[k' p]|]; inversion H; subst. left; eauto.
    - destruct s as [c|].
      + assert (Hh : forall bb, best_idx A pr r (S i) bb = Some k ->
                  bb = Some (i, pr c) \/ bb = best ->
                  (exists p, best = Some (k, p)) \/ (i <= k /\ exists c0, nth (k - i) (Some c :: r) None = Some c0)).
        { intros bb Hb Hbb. destruct (IH _ _ _ Hb) as [[p Hp]|[Hle [c0 Hc0]]].
          - destruct Hbb as [Hbb|Hbb]; subst bb.
            + inversion Hp; subst. right. split; [lia|]. rewrite Nat.sub_diag. cbn. eauto.
            + left; eauto.
          - right. split; [lia|]. exists c0. replace (k - i) with (S (k - S i)) by lia. exact Hc0. }
        destruct best as [[k' bp]|].
        * destruct (Z.ltb bp (pr c)); eapply Hh; eauto.
        * eapply Hh; eauto.
      + destruct (IH _ _ _ H) as [Hp|[Hle [c0 Hc0]]]; [left; auto|].
        right. split; [lia|]. exists c0. replace (k - i) with (S (k - S i)) by lia. exact Hc0.
  Qed.
  Lemma best_idx_none b : forall i best, best_idx A pr b i best = None -> best = None /\ bitems b = [].
  Proof.
    induction b as [|s r IH]; intros i best H; cbn [best_idx] in H.
    - destruct best as [[k' p]|]; [discriminate|auto].
    - destruct s as [c|].
      + destruct best as [[k' bp]|].
        * destruct (Z.ltb bp (pr c)); apply IH in H; destruct H; discriminate.
        * apply IH in H; destruct H; discriminate.
      + apply IH in H. cbn. exact H.
  Qed.

  Lemma pop_best_some b b' x : pop_best A pr b = (b', Some x) -> Permutation (bitems b) (x :: bitems b').
  Proof.
    unfold pop_best. destruct (best_idx A pr b 0 None) as [i|]; [|discriminate].
    destruct (nth i b None) as [c|] eqn:E; [|discriminate].
    intros H; inversion H; subst. apply take_slot; auto.
  Qed.
  Lemma pop_best_none b b' : pop_best A pr b = (b', None) -> b' = b /\ bitems b = [].
  Proof.
    unfold pop_best. destruct (best_idx A pr b 0 None) as [i|] eqn:Eb.
    - destruct (nth i b None) as [c|] eqn:E; [discriminate|].
      destruct (best_idx_spec _ _ _ _ Eb) as [[p Hp]|[_ [c Hc]]]; [discriminate|].
      rewrite Nat.sub_0_r in Hc. congruence.
    - intros H; inversion H; subst. split; auto. apply best_idx_none in Eb. apply Eb.
  Qed.
  Lemma pop_best_length b b' o : pop_best A pr b = (b', o) -> length b' = length b.
  Proof.
    unfold pop_best. destruct (best_idx A pr b 0 None) as [i|]; [|intros H; inversion H; auto].
    destruct (nth i b None); intros H; inversion H; subst; auto using set_nth_length.
  Qed.

  (* prio_scan / prio_push *)
  Lemma prio_scan_range b : forall i best bp k, prio_scan A pr b i best bp = Some k ->
    best = Some k \/ (i <= k < i + length b).
  Proof.
    induction b as [|s r IH]; intros i best bp k H; cbn [prio_scan] in H.
    - left; auto.
    - destruct s as [c|].
      + destruct (Z.ltb (pr c) bp); apply IH in H; destruct H as [H|H]; cbn [length]; try (right; lia); auto.
        inversion H; subst. right; lia.
      + inversion H; subst. right. cbn; lia.
  Qed.

  Lemma prio_push_perm ring : forall b ej b' ej', prio_push A pr b ej ring = (b', ej') ->
    Permutation (bitems b' ++ ej') (bitems b ++ ej ++ ring).
  Proof.
    induction ring as [|t rest IH]; intros b ej b' ej' H; cbn [prio_push] in H.
    - inversion H; subst. rewrite app_nil_r. apply Permutation_refl.
    - destruct (prio_scan A pr b 0 None (pr t)) as [i|] eqn:Es.
      + assert (Hi : i < length b).
        { apply prio_scan_range in Es. destruct Es as [Es|Es]; [discriminate|lia]. }
        destruct (nth i b None) as [c|] eqn:En.
        * apply IH in H. rewrite H, (put_slot i b t Hi), (take_slot i b c En). perm_solve.
        * apply IH in H. rewrite H, (put_slot i b t Hi).
          assert (E0 : set_nth i None b = b).
          { clear -En Hi. revert i En Hi. induction b as [|s r IHb]; intros [|i] En Hi; cbn in *; try lia.
            - subst; auto.
            - f_equal. apply IHb; auto. lia. }
          rewrite E0. perm_solve.
      + inversion H; subst. perm_solve.
  Qed.
  Lemma prio_push_length ring : forall b ej b' ej', prio_push A pr b ej ring = (b', ej') -> length b' = length b.
  Proof.
    induction ring as [|t rest IH]; intros b ej b' ej' H; cbn [prio_push] in H.
    - inversion H; auto.
    - destruct (prio_scan A pr b 0 None (pr t)) as [i|]; [|inversion H; auto].
      destruct (nth i b None); apply IH in H; rewrite H; apply set_nth_length.
  Qed.
End HBP.

(* ---- buffers of a VP -------------------------------------------------------- *)
Section HBS.
  Context {A : Type}.
  Variable pr : A -> Z.
  Variable parent : nat -> option nat.

  Lemma bufs_set i (bufs : list (list (option A))) : i < length bufs ->
    exists R, Permutation (allitems bufs) (bitems (nth i bufs []) ++ R) /\
              forall v, Permutation (allitems (set_nth i v bufs)) (bitems v ++ R).
  Proof. intros H. apply (flat_set_nth bitems [] i bufs H). Qed.

  (* replacing buffer i by b' when b' ++ extra is a permutation of old ++ added *)
  Lemma bufs_replace i (bufs : list (list (option A))) b' extra added :
    Permutation (bitems b' ++ extra) (bitems (nth i bufs []) ++ added) ->
    (length bufs <= i -> b' = []) ->
    Permutation (allitems (set_nth i b' bufs) ++ extra) (allitems bufs ++ added).
  Proof.
    intros H Hout. destruct (Nat.lt_ge_cases i (length bufs)) as [Hi|Hi].
    - destruct (bufs_set i bufs Hi) as (R & H1 & H2).
      rewrite (H2 b'), H1.
      transitivity ((bitems b' ++ extra) ++ R); [perm_solve|]. rewrite H. perm_solve.
    - rewrite set_nth_ge by auto. rewrite (Hout Hi) in H. rewrite nth_overflow in H by auto.
      cbn in H. rewrite H. apply Permutation_refl.
  Qed.

  Lemma fill_nil elts : fill A [] elts = ([], elts).
  Proof. reflexivity. Qed.

  Lemma push_all_perm fuel : forall s b ring d,
    Permutation (hb_items (push_all A parent fuel s b ring d)) (hb_items s ++ ring).
  Proof.
    induction fuel as [|f IH]; intros s b ring d; destruct ring as [|r0 rr].
    - cbn. rewrite app_nil_r. apply Permutation_refl.
    - cbn [push_all]. rewrite !hb_items_eq. cbn [hb_bufs hb_sys]. perm_solve.
    - cbn. rewrite app_nil_r. apply Permutation_refl.
    - cbn [push_all].
      assert (Hup : forall s' r, Permutation
                (hb_items match parent b with
                          | Some p => push_all A parent f s' p r (d - 1)
                          | None => mkHB (hb_bufs s') (hb_sys s' ++ r)
                          end) (hb_items s' ++ r)).
      { intros s' r. destruct (parent b); [apply IH|]. rewrite !hb_items_eq; cbn [hb_bufs hb_sys]. perm_solve. }
      destruct (Z.eqb d 0); [|apply Hup].
      destruct (fill A (nth b (hb_bufs s) []) (r0 :: rr)) as [b' left] eqn:Ef.
      assert (Hb : Permutation (allitems (set_nth b b' (hb_bufs s)) ++ left) (allitems (hb_bufs s) ++ r0 :: rr)).
      { apply bufs_replace; [apply fill_perm; auto|].
        intros Hge. rewrite nth_overflow in Ef by auto. cbn in Ef. inversion Ef; auto. }
      destruct left as [|l0 lr].
      + rewrite !hb_items_eq; cbn [hb_bufs hb_sys]. rewrite app_nil_r in Hb.
        transitivity ((allitems (hb_bufs s) ++ r0 :: rr) ++ hb_sys s); [rewrite <- Hb; apply Permutation_refl|perm_solve].
      + rewrite Hup. rewrite !hb_items_eq; cbn [hb_bufs hb_sys].
        transitivity ((allitems (set_nth b b' (hb_bufs s)) ++ l0 :: lr) ++ hb_sys s); [perm_solve|].
        rewrite Hb. perm_solve.
  Qed.

  Lemma push_all_prio_perm fuel s b ring d :
    Permutation (hb_items (push_all_prio A pr parent fuel s b ring d)) (hb_items s ++ ring).
  Proof.
    destruct ring as [|r0 rr]; [cbn; rewrite app_nil_r; apply Permutation_refl|].
    cbn [push_all_prio].
    assert (Hup : forall s' r, Permutation
              (hb_items match parent b with
                        | Some p => push_all A parent fuel s' p r (d - 1)
                        | None => mkHB (hb_bufs s') (hb_sys s' ++ r)
                        end) (hb_items s' ++ r)).
    { intros s' r. destruct (parent b); [apply push_all_perm|]. rewrite !hb_items_eq; cbn [hb_bufs hb_sys]. perm_solve. }
    destruct (Z.eqb d 0); [|apply Hup].
    destruct (prio_push A pr (nth b (hb_bufs s) []) [] (r0 :: rr)) as [b' ej] eqn:Ef.
    assert (Hb : Permutation (allitems (set_nth b b' (hb_bufs s)) ++ ej) (allitems (hb_bufs s) ++ r0 :: rr)).
    { apply bufs_replace; [apply (prio_push_perm pr _ _ _ _ _ Ef)|].
      intros Hge. apply prio_push_length in Ef. rewrite nth_overflow in Ef by auto.
      destruct b'; [auto|discriminate]. }
    destruct ej as [|l0 lr].
    - rewrite !hb_items_eq; cbn [hb_bufs hb_sys]. rewrite app_nil_r in Hb.
      transitivity ((allitems (hb_bufs s) ++ r0 :: rr) ++ hb_sys s); [rewrite <- Hb; apply Permutation_refl|perm_solve].
    - rewrite Hup. rewrite !hb_items_eq; cbn [hb_bufs hb_sys].
      transitivity ((allitems (set_nth b b' (hb_bufs s)) ++ l0 :: lr) ++ hb_sys s); [perm_solve|].
      rewrite Hb. perm_solve.
  Qed.

  (* number of buffers never changes *)
  Lemma push_all_nbufs fuel : forall s b ring d,
    length (hb_bufs (push_all A parent fuel s b ring d)) = length (hb_bufs s).
  Proof.
    induction fuel as [|f IH]; intros s b ring d; destruct ring as [|r0 rr]; cbn [push_all]; auto.
    assert (Hup : forall s' r, length (hb_bufs match parent b with
                          | Some p => push_all A parent f s' p r (d - 1)
                          | None => mkHB (hb_bufs s') (hb_sys s' ++ r)
                          end) = length (hb_bufs s')).
    { intros s' r. destruct (parent b); [apply IH|reflexivity]. }
    destruct (Z.eqb d 0); [|apply Hup].
    destruct (fill A (nth b (hb_bufs s) []) (r0 :: rr)) as [b' left].
    destruct left; [|rewrite Hup]; cbn; apply set_nth_length.
  Qed.

  Lemma pop_chain_some order : forall bufs bufs' x, pop_chain A pr bufs order = (bufs', Some x) ->
    Permutation (allitems bufs) (x :: allitems bufs').
  Proof.
    induction order as [|b r IH]; intros bufs bufs' x H; cbn [pop_chain] in H; [discriminate|].
    destruct (pop_best A pr (nth b bufs [])) as [b' [y|]] eqn:E.
    - inversion H; subst. pose proof (pop_best_some pr _ _ _ E) as Hp.
      assert (Hr : Permutation (allitems (set_nth b b' bufs) ++ [x]) (allitems bufs ++ [])).
      { apply bufs_replace.
        - rewrite Hp. perm_solve.
        - intros Hge. rewrite nth_overflow in Hp by auto. cbn in Hp. apply Permutation_nil in Hp. discriminate. }
      rewrite app_nil_r in Hr. rewrite <- Hr. perm_solve.
    - eauto.
  Qed.
  Lemma pop_chain_none order : forall bufs bufs', pop_chain A pr bufs order = (bufs', None) ->
    bufs' = bufs /\ forall b, In b order -> bitems (nth b bufs []) = [].
  Proof.
    induction order as [|b r IH]; intros bufs bufs' H; cbn [pop_chain] in H.
    - inversion H; subst. split; auto. intros b [].
    - destruct (pop_best A pr (nth b bufs [])) as [b' [y|]] eqn:E; [discriminate|].
      apply pop_best_none in E. destruct (IH _ _ H) as [H1 H2]. split; auto.
      intros b0 [Hb|Hb]; subst; auto. apply E.
  Qed.
  Lemma pop_chain_nbufs order : forall bufs bufs' o, pop_chain A pr bufs order = (bufs', o) -> length bufs' = length bufs.
  Proof.
    induction order as [|b r IH]; intros bufs bufs' o H; cbn [pop_chain] in H.
    - inversion H; auto.
    - destruct (pop_best A pr (nth b bufs [])) as [b' [y|]]; [inversion H; apply set_nth_length|eauto].
  Qed.
End HBS.

(* ---- maxheap.c --------------------------------------------------------------- *)
Lemma flat_map_single {A} (l : list A) : flat_map (fun x => [x]) l = l.
Proof. induction l; cbn; congruence. Qed.

Lemma list_set_nth {A} (d : A) i l : i < length l ->
  exists R, Permutation l (nth i l d :: R) /\ forall v, Permutation (set_nth i v l) (v :: R).
Proof.
  intros H. destruct (flat_set_nth (fun x : A => [x]) d i l H) as (R & H1 & H2).
  exists R. split.
  - rewrite flat_map_single in H1. exact H1.
  - intros v. specialize (H2 v). rewrite flat_map_single in H2. exact H2.
Qed.

Lemma swap_nth_perm l i j : Permutation (swap_nth l i j) l.
Proof.
  unfold swap_nth. destruct (nth_error l i) as [a|] eqn:Ei; [|apply Permutation_refl].
  destruct (nth_error l j) as [b|] eqn:Ej; [|apply Permutation_refl].
  assert (Hi : i < length l) by (apply nth_error_Some; congruence).
  assert (Hj : j < length l) by (apply nth_error_Some; congruence).
  pose proof (nth_error_nth l i a Ei) as Na. pose proof (nth_error_nth l j a Ej) as Nb.
  destruct (list_set_nth a j l Hj) as (R1 & H1 & H2). rewrite Nb in H1.
  assert (Hi' : i < length (set_nth j a l)) by (rewrite set_nth_length; auto).
  destruct (list_set_nth a i (set_nth j a l) Hi') as (R2 & H3 & H4).
  assert (Ni : nth i (set_nth j a l) a = a).
  { destruct (Nat.eq_dec j i) as [->|Hne]; [apply nth_set_nth_same; auto|].
    rewrite nth_set_nth_other; auto. }
  rewrite Ni in H3.
  assert (HR : Permutation R1 R2).
  { apply (Permutation_cons_inv (a := a)). rewrite <- (H2 a). exact H3. }
  rewrite (H4 b), H1, HR. apply Permutation_refl.
Qed.

Lemma sift_up_perm fuel : forall l i, Permutation (sift_up fuel l i) l.
Proof.
  induction fuel as [|f IH]; intros l i; cbn [sift_up]; [apply Permutation_refl|].
  destruct (i <=? 1); [apply Permutation_refl|].
  destruct (nth_error l (Nat.div2 i - 1)) as [a|]; [|apply Permutation_refl].
  destruct (nth_error l (i - 1)) as [e|]; [|apply Permutation_refl].
  destruct (Z.ltb (tprio a) (tprio e)); [|apply Permutation_refl].
  rewrite IH. apply swap_nth_perm.
Qed.
Lemma sift_down_perm fuel : forall l i, Permutation (sift_down fuel l i) l.
Proof.
  induction fuel as [|f IH]; intros l i; cbn [sift_down]; [apply Permutation_refl|].
  destruct (nth_error l (i - 1)) as [b|]; [|apply Permutation_refl].
  match goal with |- Permutation (if ?c then _ else _) _ => destruct c end.
  - rewrite IH. apply swap_nth_perm.
  - match goal with |- Permutation (if ?c then _ else _) _ => destruct c end.
    + rewrite IH. apply swap_nth_perm.
    + apply Permutation_refl.
Qed.

Local Opaque sift_up sift_down.

Lemma heap_insert_perm h e : Permutation (heap_insert h e) (e :: h).
Proof. unfold heap_insert. rewrite sift_up_perm. perm_solve. Qed.

Lemma heap_remove_some h t h' : heap_remove h = (Some t, h') -> Permutation h (t :: h').
Proof.
  destruct h as [|top [|x r]]; intros H.
  - discriminate.
  - cbn in H. injection H as <- <-. apply Permutation_refl.
  - set (L := last r x :: removelast (x :: r)) in *.
    change (heap_remove (top :: x :: r)) with (Some top, sift_down (length L) L 1) in H.
    assert (E1 : t = top) by congruence.
    assert (E2 : h' = sift_down (length L) L 1) by congruence.
    subst t h'. apply perm_skip. symmetry. rewrite sift_down_perm. subst L.
    assert (Hl : last r x = last (x :: r) x) by (destruct r; reflexivity).
    rewrite Hl.
    assert (E : x :: r = removelast (x :: r) ++ [last (x :: r) x]) by (apply app_removelast_last; discriminate).
    transitivity (removelast (x :: r) ++ [last (x :: r) x]); [perm_solve|rewrite <- E; apply Permutation_refl].
Qed.
Lemma heap_remove_nonempty h : h <> [] -> exists t h', heap_remove h = (Some t, h').
Proof.
  destruct h as [|top rest]; [congruence|]. intros _. unfold heap_remove.
  destruct rest; eauto.
Qed.
Lemma heap_remove_none h h' : heap_remove h = (None, h') -> h = [].
Proof. unfold heap_remove. destruct h as [|top [|x r]]; intros H; inversion H; auto. Qed.

Lemma split_lv_perm fuel : forall w l x y, length l <= fuel -> 0 < w -> split_lv fuel w l = (x, y) ->
  Permutation l (x ++ y).
Proof.
  induction fuel as [|f IH]; intros w l x y Hl Hw H; cbn [split_lv] in H.
  - destruct l; [|cbn in Hl; lia]. inversion H; subst. apply Permutation_refl.
  - destruct l as [|z l]; [inversion H; subst; apply Permutation_refl|].
    set (L := z :: l) in *.
    destruct (split_lv f (w + w) (skipn w (skipn w L))) as [x' y'] eqn:E.
    inversion H; subst; clear H.
    assert (Hlen : length (skipn w (skipn w L)) <= f).
    { rewrite !skipn_length. subst L. cbn [length] in *. lia. }
    apply IH in E; [|auto|lia].
    rewrite <- (firstn_skipn w L) at 1. rewrite <- (firstn_skipn w (skipn w L)) at 1.
    rewrite E. perm_solve.
Qed.

Lemma heap_split_some h t hp nh : heap_split h = (Some t, hp, nh) -> Permutation h (t :: hp ++ nh).
Proof.
  unfold heap_split. destruct h as [|top rest]; [discriminate|].
  destruct rest as [|x [|y r]]; intros H.
  - inversion H; subst. apply Permutation_refl.
  - inversion H; subst. apply Permutation_refl.
  - destruct (split_lv (length (x :: y :: r)) 1 (x :: y :: r)) as [lft rgt] eqn:E.
    inversion H; subst. apply perm_skip.
    apply split_lv_perm in E; [|auto|lia]. rewrite E. perm_solve.
Qed.
Lemma heap_split_nonempty h : h <> [] -> exists t hp nh, heap_split h = (Some t, hp, nh).
Proof.
  destruct h as [|top rest]; [congruence|]. intros _. unfold heap_split.
  destruct rest as [|x [|y r]]; eauto.
  destruct (split_lv (length (x :: y :: r)) 1 (x :: y :: r)); eauto.
Qed.
Lemma heap_split_none h hp nh : heap_split h = (None, hp, nh) -> h = [].
Proof.
  unfold heap_split. destruct h as [|top [|x [|y r]]]; intros H; inversion H; auto.
  destruct (split_lv (length (x :: y :: r)) 1 (x :: y :: r)); discriminate.
Qed.
(* when the heap had three or more elements both halves are non-empty *)
Lemma split_lv_first fuel w l x y : 0 < w -> 0 < fuel -> split_lv fuel w l = (x, y) ->
  (l <> [] -> x <> []) /\ (w < length l -> y <> []).
Proof.
  intros Hw Hf H. destruct fuel as [|f]; [lia|]. cbn [split_lv] in H.
  destruct l as [|z l]; [inversion H; subst; split; [congruence|cbn; lia]|].
  destruct (split_lv f (w + w) (skipn w (skipn w (z :: l)))) as [x' y'].
  inversion H; subst. split.
  - intros _. destruct w; [lia|]. cbn. discriminate.
  - intros Hlt. assert (Hn : firstn w (skipn w (z :: l)) <> []).
    { intros E. apply (f_equal (@length _)) in E. rewrite firstn_length, skipn_length in E. cbn [length] in E, Hlt. lia. }
    destruct (firstn w (skipn w (z :: l))); [congruence|discriminate].
Qed.

Lemma ltq_group_perm rest : forall h cur, Permutation (concat (ltq_group h cur rest)) (h ++ cur :: rest).
Proof.
  induction rest as [|nx r IH]; intros h cur; cbn [ltq_group].
  - cbn. rewrite app_nil_r, heap_insert_perm. perm_solve.
  - destruct (Z.eqb (ttag cur) (ttag nx)).
    + rewrite IH, heap_insert_perm. perm_solve.
    + cbn [concat]. rewrite IH, heap_insert_perm. perm_solve.
Qed.
Lemma heap_insert_nonempty h e : heap_insert h e <> [].
Proof.
  intros E. pose proof (heap_insert_perm h e) as H. rewrite E in H.
  apply Permutation_nil in H. discriminate.
Qed.
Lemma ltq_group_nonempty rest : forall h cur, Forall (fun g => g <> []) (ltq_group h cur rest).
Proof.
  induction rest as [|nx r IH]; intros h cur; cbn [ltq_group].
  - constructor; [apply heap_insert_nonempty|constructor].
  - destruct (Z.eqb (ttag cur) (ttag nx)); [apply IH|].
    constructor; [apply heap_insert_nonempty|apply IH].
Qed.
Lemma ltq_group_nonnil rest h cur : ltq_group h cur rest <> [].
Proof.
  revert h cur; induction rest as [|nx r IH]; intros h cur; cbn [ltq_group]; [discriminate|].
  destruct (Z.eqb (ttag cur) (ttag nx)); [apply IH|discriminate].
Qed.

(* ---- spq ------------------------------------------------------------------- *)
Lemma spq_sched_perm q : forall d ring, Permutation (flat_map snd (spq_sched q d ring)) (flat_map snd q ++ ring).
Proof.
  induction q as [|[p l] r IH]; intros d ring; cbn [spq_sched].
  - cbn. rewrite app_nil_r, chain_sorted_perm. perm_solve.
  - destruct (Z.eqb p d).
    + cbn. rewrite chain_sorted_perm. perm_solve.
    + destruct (Z.ltb d p).
      * cbn. rewrite chain_sorted_perm. perm_solve.
      * cbn. rewrite IH. perm_solve.
Qed.
Lemma spq_sel_some q : forall q' t, spq_sel q = (q', Some t) -> flat_map snd q = t :: flat_map snd q'.
Proof.
  induction q as [|[p l] r IH]; intros q' t H; cbn [spq_sel] in H; [discriminate|].
  destruct l as [|x l'].
  - destruct (spq_sel r) as [r' o] eqn:E. inversion H; subst. cbn. eauto.
  - inversion H; subst. reflexivity.
Qed.
Lemma spq_sel_none q : forall q', spq_sel q = (q', None) -> q' = q /\ flat_map snd q = [].
Proof.
  induction q as [|[p l] r IH]; intros q' H; cbn [spq_sel] in H.
  - inversion H; auto.
  - destruct l as [|x l']; [|discriminate].
    destruct (spq_sel r) as [r' o] eqn:E. inversion H; subst.
    destruct (IH _ eq_refl) as [H1 H2]. subst. auto.
Qed.

(* ---- lifos (ll, llp) ---------------------------------------------------------- *)
Lemma lifos_set i (ls : list (list task)) : i < length ls ->
  exists R, Permutation (concat ls) (nth i ls [] ++ R) /\
            forall v, Permutation (concat (set_nth i v ls)) (v ++ R).
Proof.
  intros H. destruct (flat_set_nth (fun x : list task => x) [] i ls H) as (R & H1 & H2).
  exists R. split; [rewrite concat_flat_map; exact H1|]. intros v. rewrite concat_flat_map. apply H2.
Qed.

Lemma pop_lifos_some order : forall ls ls' t, pop_lifos ls order = (ls', Some t) ->
  Permutation (concat ls) (t :: concat ls') /\ length ls' = length ls.
Proof.
  induction order as [|i r IH]; intros ls ls' t H; cbn [pop_lifos] in H; [discriminate|].
  destruct (nth i ls []) as [|x l'] eqn:E; [eauto|].
  inversion H; subst. split; [|apply set_nth_length].
  assert (Hi : i < length ls).
  { destruct (Nat.lt_ge_cases i (length ls)); auto. rewrite nth_overflow in E; auto; discriminate. }
  destruct (lifos_set i ls Hi) as (R & H1 & H2). rewrite E in H1.
  rewrite H1, (H2 l'). perm_solve.
Qed.
Lemma pop_lifos_none order : forall ls ls', pop_lifos ls order = (ls', None) ->
  ls' = ls /\ forall i, In i order -> nth i ls [] = [].
Proof.
  induction order as [|i r IH]; intros ls ls' H; cbn [pop_lifos] in H.
  - inversion H; subst. split; auto. intros i [].
  - destruct (nth i ls []) as [|x l'] eqn:E; [|discriminate].
    destruct (IH _ _ H) as [H1 H2]. split; auto. intros j [Hj|Hj]; subst; auto.
Qed.

(* ---- llp: lifo_merge_ring ----------------------------------------------------- *)
Lemma llp_adv_spec dist rp suf : forall pre mid d pre' mid' suf' d',
  llp_adv dist rp pre mid suf d = (pre', mid', suf', d') ->
  pre' ++ mid' ++ suf' = pre ++ mid ++ suf /\
  ((pre', mid', suf') = (pre, mid, suf) \/ (mid' = [] /\ pre' <> [])).
Proof.
  induction suf as [|n s IH]; intros pre mid d pre' mid' suf' d' H; cbn [llp_adv] in H.
  - inversion H; subst. auto.
  - destruct (negb ((Z.ltb d dist) || (Z.ltb rp (tprio n)))).
    + apply IH in H. destruct H as [H1 H2]. split.
      * rewrite H1. cbn. rewrite <- !app_assoc. reflexivity.
      * right. destruct H2 as [H2|[H2 H3]]; [|auto].
        inversion H2; subst. split; auto. destruct pre; destruct mid; discriminate.
    + inversion H; subst. auto.
Qed.

(* [mid] is only non-empty while `next` is strictly above the ring's last
   element, in which case the code never takes the "all at once" branch that
   would unlink it *)
Definition llp_ok (pre mid suf ring : list task) : Prop :=
  mid = [] \/ (pre <> [] /\ match ring with
                           | [] => True
                           | r0 :: rest => match suf with
                                           | [] => False
                                           | n :: _ => (tprio (last rest r0) < tprio n)%Z
                                           end
                           end).

Lemma llp_merge_perm dist ring : forall pre mid suf d, llp_ok pre mid suf ring ->
  Permutation (llp_merge dist pre mid suf d ring) (pre ++ mid ++ suf ++ ring).
Proof.
  induction ring as [|r0 rest IH]; intros pre mid suf d Hok; cbn [llp_merge].
  - rewrite app_nil_r. apply Permutation_refl.
  - destruct (llp_adv dist (tprio r0) pre mid suf d) as [[[pre' mid'] suf'] d'] eqn:Ea.
    destruct (llp_adv_spec _ _ _ _ _ _ _ _ _ _ Ea) as [Heq Hcase].
    assert (Hall : Permutation (pre ++ mid ++ suf ++ r0 :: rest) (pre' ++ mid' ++ suf' ++ r0 :: rest)).
    { rewrite !app_assoc. rewrite <- (app_assoc pre'), <- (app_assoc pre), Heq. apply Permutation_refl. }
    rewrite Hall.
    match goal with |- Permutation (if ?c then _ else _) _ => destruct c eqn:Efit end.
    + (* the whole ring goes between prev and next *)
      assert (Hm : mid' = []).
      { destruct Hcase as [Hc|[Hc _]]; auto. inversion Hc; subst.
        destruct Hok as [Hok|[_ Hok]]; auto.
        destruct suf as [|n s]; [contradiction|]. apply negb_true_iff, Z.ltb_ge in Efit. lia. }
      subst. perm_solve.
    + assert (Hs : exists n s, suf' = n :: s /\ (tprio (last rest r0) < tprio n)%Z).
      { destruct suf' as [|n s]; [discriminate|]. apply negb_false_iff, Z.ltb_lt in Efit. eauto. }
      destruct Hs as (n & s & -> & Hlt).
      destruct pre' as [|p0 pr'].
      * assert (Hm : mid' = []).
        { destruct Hcase as [Hc|[Hc Hd]]; [|congruence]. inversion Hc; subst.
          destruct Hok as [Hok|[Hok _]]; auto. congruence. }
        subst. rewrite IH; [perm_solve|]. left; auto.
      * rewrite IH; [perm_solve|]. right. split; [discriminate|].
        destruct rest as [|r1 rest']; auto.
        assert (Hc : forall l (a d : task), last (a :: l) d = last l a).
        { clear. induction l as [|b l IHl]; intros a d; [reflexivity|].
          change (last (a :: b :: l) d) with (last (b :: l) d). rewrite !IHl. reflexivity. }
        rewrite Hc in Hlt. exact Hlt.
Qed.

Lemma llp_chain_perm l d ring : Permutation (llp_chain l d ring) (l ++ ring).
Proof.
  unfold llp_chain. destruct ring as [|r0 rest]; [rewrite app_nil_r; apply Permutation_refl|].
  match goal with |- Permutation (if ?c then _ else _) _ => destruct c end.
  - perm_solve.
  - rewrite llp_merge_perm; [perm_solve|]. left; auto.
Qed.

(* heap_split_and_steal leaves *heap_ptr NULL only when nothing else is left *)
Lemma heap_split_hp_nil h t nh : heap_split h = (Some t, [], nh) -> nh = [].
Proof.
  unfold heap_split. destruct h as [|top [|x [|y rr]]]; intros Es; try (inversion Es; subst; auto; fail).
  destruct (split_lv (length (x :: y :: rr)) 1 (x :: y :: rr)) as [lft rgt] eqn:El.
  inversion Es; subst. apply split_lv_first in El; [|lia|cbn; lia].
  destruct El as [_ El]. exfalso. apply El; auto. cbn; lia.
Qed.
