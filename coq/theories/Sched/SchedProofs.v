(* C08: no scheduler module loses or duplicates a task; selection by the
   streams of the virtual process drains everything.  Per-module lemmas, then
   the theorems over histories of whole operations (any module, any
   configuration, any streams). *)
From Coq Require Import ZArith List Bool Arith Lia Permutation Morphisms.
From PV Require Import Sched.SchedDefs Sched.SchedPerm Sched.SchedContProofs.
Import ListNotations.

Definition ids (l : list task) : list Z := map tid l.
Global Instance ids_proper : Proper (@Permutation task ==> @Permutation Z) ids.
Proof. intros a b H. apply Permutation_map, H. Qed.

(* every buffer of the VP is some stream's task queue or one of its steal targets *)
Definition wf (c : config) : Prop :=
  forall b, b < length (c_sizes c) ->
  exists es, es < cn c /\ (b = ctq c es \/ In b (tl (cchain c es))).

Definition minv (m : modid) (c : config) : mstate m -> Prop :=
  match m with
  | LL | LLP => fun s => length s = cn c
  | LFQ | LHQ | PBQ => fun s => length (hb_bufs s) = length (c_sizes c)
  | LTQ => fun s => length (hb_bufs s) = length (c_sizes c) /\ Forall (fun h : heap => h <> []) (hb_items s)
  | AP | GD | IP | RND | SPQ => fun _ => True
  end.

Lemma norm_lt c es : norm c es < cn c.
Proof. unfold norm. destruct (es <? cn c) eqn:E; [apply Nat.ltb_lt; auto|unfold cn; lia]. Qed.
Lemma norm_id c es : es < cn c -> norm c es = es.
Proof. intros H. unfold norm. apply Nat.ltb_lt in H. rewrite H. auto. Qed.

(* ---- initial state ------------------------------------------------------------ *)
Lemma allitems_init (A : Type) (sizes : list nat) :
  allitems (map (fun sz => repeat (@None A) sz) sizes) = [].
Proof.
  induction sizes as [|n r IH]; cbn; auto. unfold allitems in IH. rewrite IH, app_nil_r.
  induction n; cbn; auto.
Qed.
Lemma minv_init m c : minv m c (minit m c).
Proof.
  destruct m; cbn [minv minit]; auto; try apply repeat_length; try (unfold hb_init; cbn [hb_bufs]; apply map_length).
  split; [unfold hb_init; cbn [hb_bufs]; apply map_length|].
  unfold hb_init. rewrite hb_items_eq. cbn [hb_bufs hb_sys]. rewrite allitems_init. constructor.
Qed.
Lemma mpend_init m c : mpend m (minit m c) = [].
Proof.
  destruct m; cbn [mpend minit]; auto; unfold hb_init;
    try (rewrite hb_items_eq; cbn [hb_bufs hb_sys]; rewrite allitems_init; reflexivity).
  - induction (cn c); cbn; auto.
  - induction (cn c); cbn; auto.
Qed.

(* ---- ll target ------------------------------------------------------------------ *)
Lemma ll_target_lt c es d : es < cn c -> ll_target c es d < cn c.
Proof.
  intros H. unfold ll_target. destruct (Z.ltb 0 d); auto.
  assert (Hn : 0 < cn c) by (unfold cn; lia).
  match goal with |- (if ?x then _ else _) < _ => destruct x end.
  - apply Nat.mod_upper_bound. lia.
  - assert (Hm := Z.mod_pos_bound (Z.of_nat es + d) (Z.of_nat (cn c))). lia.
Qed.

(* ---- schedule ------------------------------------------------------------------- *)
Lemma hb_sched_perm byprio c s es d ring :
  Permutation (hb_items (hb_sched byprio c s es d ring)) (hb_items s ++ ring).
Proof. unfold hb_sched. destruct byprio; [apply push_all_prio_perm|apply push_all_perm]. Qed.

Lemma hb_sched_nbufs byprio c s es d ring :
  length (hb_bufs (hb_sched byprio c s es d ring)) = length (hb_bufs s).
Proof.
  unfold hb_sched. destruct byprio; [|apply push_all_nbufs].
  unfold push_all_prio. destruct ring as [|r0 rr]; auto.
  assert (Hup : forall s' r, length (hb_bufs match cparent c (ctq c es) with
                          | Some p => push_all task (cparent c) (cfuel c) s' p r (d - 1)
                          | None => mkHB (hb_bufs s') (hb_sys s' ++ r)
                          end) = length (hb_bufs s')).
  { intros s' r. destruct (cparent c (ctq c es)); [apply push_all_nbufs|reflexivity]. }
  destruct (Z.eqb d 0); [|apply Hup].
  destruct (prio_push task tprio (nth (ctq c es) (hb_bufs s) []) [] (r0 :: rr)) as [b' ej].
  destruct ej; [|rewrite Hup]; cbn; apply set_nth_length.
Qed.

Lemma concat_perm {A} (l l' : list (list A)) : Permutation l l' -> Permutation (concat l) (concat l').
Proof. intros H. rewrite !concat_flat_map. rewrite H. apply Permutation_refl. Qed.

Lemma ltq_sched_items c s es d ring :
  Permutation (concat (hb_items (ltq_sched c s es d ring))) (concat (hb_items s) ++ ring) /\
  length (hb_bufs (ltq_sched c s es d ring)) = length (hb_bufs s) /\
  (Forall (fun h : heap => h <> []) (hb_items s) -> Forall (fun h : heap => h <> []) (hb_items (ltq_sched c s es d ring))).
Proof.
  unfold ltq_sched. destruct ring as [|t r].
  - rewrite app_nil_r. auto.
  - pose proof (push_all_perm (cparent c) (cfuel c) s (ctq c es) (ltq_group [] t r) d) as Hp.
    split; [|split].
    + rewrite (concat_perm _ _ Hp), concat_app, ltq_group_perm. apply Permutation_refl.
    + apply push_all_nbufs.
    + intros HF. rewrite Hp. apply Forall_app. split; auto. apply ltq_group_nonempty.
Qed.

Lemma msched_inv m c s es d ring rnds : minv m c s -> minv m c (msched m c s es d ring rnds).
Proof.
  destruct m; cbn [minv msched]; auto.
  - intros H. rewrite hb_sched_nbufs; auto.
  - intros H. rewrite hb_sched_nbufs; auto.
  - intros H. unfold ll_sched. rewrite set_nth_length; auto.
  - intros H. unfold llp_sched. rewrite set_nth_length; auto.
  - intros [H1 H2]. destruct (ltq_sched_items c s (norm c es) d ring) as (_ & Hl & HF).
    split; [congruence|auto].
  - intros H. rewrite hb_sched_nbufs; auto.
Qed.

Lemma msched_perm m c s es d ring rnds : minv m c s ->
  Permutation (ids (mpend m (msched m c s es d ring rnds))) (ids (mpend m s) ++ ids ring).
Proof.
  unfold ids. rewrite <- map_app.
  destruct m; cbn [minv msched mpend mstate]; intros Hinv.
  - (* ap *) apply Permutation_map. unfold ap_sched. rewrite chain_sorted_perm. perm_solve.
  - (* gd *) apply Permutation_map. unfold gd_sched. destruct ring as [|t r]; [rewrite app_nil_r; auto|].
    destruct (thi t && Z.eqb d 0); perm_solve.
  - (* ip *) apply Permutation_map. unfold ip_sched. destruct (Z.eqb d 0); [rewrite chain_sorted_perm|]; perm_solve.
  - apply Permutation_map, hb_sched_perm.
  - apply Permutation_map, hb_sched_perm.
  - (* ll *) apply Permutation_map. unfold ll_sched.
    assert (Ht : ll_target c (norm c es) d < length s) by (rewrite Hinv; apply ll_target_lt, norm_lt).
    destruct (lifos_set _ s Ht) as (R & H1 & H2). rewrite H2, H1. perm_solve.
  - (* llp *) apply Permutation_map. unfold llp_sched.
    assert (Ht : norm c es < length s) by (rewrite Hinv; apply norm_lt).
    destruct (lifos_set _ s Ht) as (R & H1 & H2). rewrite H2, H1, llp_chain_perm. perm_solve.
  - (* ltq *) apply Permutation_map. apply ltq_sched_items.
  - apply Permutation_map, hb_sched_perm.
  - (* rnd *) unfold rnd_sched. rewrite chain_sorted_perm, list_sort_perm.
    rewrite !map_app. fold (ids (rnd_assign ring rnds d)). unfold ids. rewrite rnd_assign_ids. perm_solve.
  - (* spq *) apply Permutation_map. apply spq_sched_perm.
Qed.

(* ---- select ---------------------------------------------------------------------- *)
Lemma hb_sel_some c s es s' t : hb_sel c s es = (s', Some t) ->
  Permutation (hb_items s) (t :: hb_items s') /\ length (hb_bufs s') = length (hb_bufs s).
Proof.
  unfold hb_sel. destruct (pop_chain task tprio (hb_bufs s) (ctq c es :: cchain c es)) as [bufs' [x|]] eqn:E.
  - intros H; inversion H; subst. rewrite !hb_items_eq. cbn [hb_bufs hb_sys].
    split; [|eapply pop_chain_nbufs; eauto].
    rewrite (pop_chain_some tprio _ _ _ _ E). perm_solve.
  - destruct (hb_sys s) as [|y r] eqn:Es; intros H; inversion H; subst.
    rewrite !hb_items_eq. cbn [hb_bufs hb_sys]. rewrite Es. split; auto. perm_solve.
Qed.
Lemma hb_sel_none c s es s' : hb_sel c s es = (s', None) ->
  s' = s /\ hb_sys s = [] /\ forall b, In b (ctq c es :: cchain c es) -> bitems (nth b (hb_bufs s) []) = [].
Proof.
  unfold hb_sel. destruct (pop_chain task tprio (hb_bufs s) (ctq c es :: cchain c es)) as [bufs' [x|]] eqn:E; [discriminate|].
  destruct (hb_sys s) as [|y r] eqn:Es; intros H; inversion H; subst.
  apply pop_chain_none in E. destruct E as [_ E]. auto.
Qed.

(* ltq: a state is good when every stored heap is non-empty *)
Definition lgood (s : hbst heap) : Prop := Forall (fun h : heap => h <> []) (hb_items s).

Lemma ltq_push_spec c s b hs :
  Permutation (hb_items (ltq_push c s b hs)) (hb_items s ++ hs) /\
  length (hb_bufs (ltq_push c s b hs)) = length (hb_bufs s).
Proof. unfold ltq_push. split; [apply push_all_perm|apply push_all_nbufs]. Qed.

Lemma nonempty_one (h : heap) : (h = [] /\ nonempty [h] = []) \/ (h <> [] /\ nonempty [h] = [h]).
Proof. destruct h; cbn; [left; auto|right; split; [discriminate|auto]]. Qed.

Local Opaque nonempty.

(* taking buffer b's best heap out *)
Lemma take_heap (s : hbst heap) b b' h : pop_best heap hprio (nth b (hb_bufs s) []) = (b', Some h) ->
  Permutation (hb_items s) (h :: hb_items (mkHB (set_nth b b' (hb_bufs s)) (hb_sys s))).
Proof.
  intros E. rewrite !hb_items_eq. cbn [hb_bufs hb_sys].
  pose proof (pop_best_some hprio _ _ _ E) as Hp.
  assert (Hr : Permutation (allitems (set_nth b b' (hb_bufs s)) ++ [h]) (allitems (hb_bufs s) ++ [])).
  { apply bufs_replace.
    - rewrite Hp. perm_solve.
    - intros Hge. rewrite nth_overflow in Hp by auto. cbn in Hp. apply Permutation_nil in Hp. discriminate. }
  rewrite app_nil_r in Hr. rewrite <- Hr. perm_solve.
Qed.

Lemma ltq_steal_spec c tq order : forall s s' o, lgood s -> ltq_steal c s tq order = (s', o) ->
  length (hb_bufs s') = length (hb_bufs s) /\ lgood s' /\
  match o with
  | Some t => Permutation (concat (hb_items s)) (t :: concat (hb_items s'))
  | None => s' = s /\ forall b, In b order -> bitems (nth b (hb_bufs s) []) = []
  end.
Proof.
  induction order as [|b r IH]; intros s s' o Hg H; cbn [ltq_steal] in H.
  - injection H as <- <-. repeat split; auto. intros b [].
  - destruct (pop_best heap hprio (nth b (hb_bufs s) [])) as [b' [h|]] eqn:E.
    + pose proof (take_heap s b b' h E) as Ht.
      set (s1 := mkHB (set_nth b b' (hb_bufs s)) (hb_sys s)) in *.
      assert (Hg1 : lgood s1 /\ h <> []).
      { unfold lgood in *. rewrite Ht in Hg. inversion Hg; auto. }
      destruct Hg1 as [Hg1 Hh].
      destruct (heap_split_nonempty h Hh) as (t & hp & nh & Es). rewrite Es in H.
      pose proof (heap_split_some _ _ _ _ Es) as Hs.
      assert (Hl1 : length (hb_bufs s1) = length (hb_bufs s)) by (cbn; apply set_nth_length).
      assert (Hnn : hp = [] -> nh = []) by (intros ->; eapply heap_split_hp_nil; eauto).
      destruct hp as [|p0 pr].
      * injection H as <- <-. rewrite (Hnn eq_refl) in Hs.
        repeat split; auto. rewrite !concat_flat_map, Ht. cbn [flat_map]. rewrite Hs. perm_solve.
      * destruct (ltq_push_spec c s1 b (nonempty [nh])) as [Hq1 Hq2].
        destruct (ltq_push_spec c (ltq_push c s1 b (nonempty [nh])) tq [p0 :: pr]) as [Hq3 Hq4].
        injection H as <- <-.
        split; [etransitivity; [apply Hq4|]; etransitivity; [apply Hq2|exact Hl1]|]. split.
        { unfold lgood. rewrite Hq3, Hq1. apply Forall_app. split; [apply Forall_app; split; auto|].
          - destruct (nonempty_one nh) as [[_ ->]|[Hn ->]]; constructor; auto.
          - constructor; [discriminate|constructor]. }
        rewrite !concat_flat_map, Hq3, Hq1, Ht. rewrite !flat_map_app. cbn [flat_map]. rewrite Hs.
        destruct (nonempty_one nh) as [[-> ->]|[_ ->]]; cbn [flat_map]; perm_solve.
    + apply pop_best_none in E. destruct E as [_ E].
      destruct (IH _ _ _ Hg H) as (H1 & H2 & H3). repeat split; auto.
      destruct o; auto. destruct H3 as [H3 H4]. split; auto.
      intros b0 [Hb|Hb]; subst; auto.
Qed.

Lemma ltq_sel_spec c s es s' o : lgood s -> ltq_sel c s es = (s', o) ->
  length (hb_bufs s') = length (hb_bufs s) /\ lgood s' /\
  match o with
  | Some t => Permutation (concat (hb_items s)) (t :: concat (hb_items s'))
  | None => s' = s /\ hb_sys s = [] /\
            forall b, In b (ctq c es :: tl (cchain c es)) -> bitems (nth b (hb_bufs s) []) = []
  end.
Proof.
  intros Hg. unfold ltq_sel.
  destruct (pop_best heap hprio (nth (ctq c es) (hb_bufs s) [])) as [b' [h|]] eqn:E.
  - (* own queue has a heap: its top is returned *)
    pose proof (take_heap s _ b' h E) as Ht.
    set (s0 := mkHB (set_nth (ctq c es) b' (hb_bufs s)) (hb_sys s)) in *.
    assert (Hg0 : lgood s0 /\ h <> []).
    { unfold lgood in *. rewrite Ht in Hg. inversion Hg; auto. }
    destruct Hg0 as [Hg0 Hh].
    destruct (heap_remove_nonempty h Hh) as (t & h' & Er). rewrite Er.
    pose proof (heap_remove_some _ _ _ Er) as Hr.
    assert (Hl0 : length (hb_bufs s0) = length (hb_bufs s)) by (cbn; apply set_nth_length).
    destruct h' as [|x r].
    + intros H; injection H as <- <-. repeat split; auto.
      rewrite !concat_flat_map, Ht. cbn [flat_map]. rewrite Hr. perm_solve.
    + destruct (ltq_push_spec c s0 (ctq c es) [x :: r]) as [Hq1 Hq2].
      intros H; injection H as <- <-. split; [etransitivity; [apply Hq2|exact Hl0]|]. split.
      * unfold lgood. rewrite Hq1. apply Forall_app. split; auto. constructor; [discriminate|constructor].
      * rewrite !concat_flat_map, Hq1, Ht. rewrite flat_map_app. cbn [flat_map]. rewrite Hr. perm_solve.
  - apply pop_best_none in E. destruct E as [_ E].
    destruct (ltq_steal c s (ctq c es) (tl (cchain c es))) as [s2 [t|]] eqn:Est.
    + destruct (ltq_steal_spec _ _ _ _ _ _ Hg Est) as (H1 & H2 & H3).
      intros H; injection H as <- <-. auto.
    + destruct (ltq_steal_spec _ _ _ _ _ _ Hg Est) as (H1 & H2 & [H3 H4]). subst s2.
      destruct (hb_sys s) as [|h sys'] eqn:Es.
      * intros H; injection H as <- <-. repeat split; auto.
        intros b [Hb|Hb]; subst; auto.
      * set (s3 := mkHB (hb_bufs s) sys').
        assert (Hi : hb_items s = allitems (hb_bufs s) ++ h :: sys') by (rewrite hb_items_eq, Es; auto).
        assert (Hg3 : lgood s3 /\ h <> []).
        { unfold lgood in *. rewrite Hi in Hg. apply Forall_app in Hg. destruct Hg as [Ha Hb]. inversion Hb; subst.
          split; auto. rewrite hb_items_eq. cbn. apply Forall_app; auto. }
        destruct Hg3 as [Hg3 Hh].
        destruct (heap_split_nonempty h Hh) as (t & hp & nh & Esp). rewrite Esp.
        pose proof (heap_split_some _ _ _ _ Esp) as Hs.
        assert (Hnn : hp = [] -> nh = []) by (intros ->; eapply heap_split_hp_nil; eauto).
        assert (Hi3 : Permutation (concat (hb_items s)) (h ++ concat (hb_items s3))).
        { rewrite Hi. rewrite (hb_items_eq s3). cbn [hb_bufs hb_sys]. rewrite !concat_app. cbn [concat]. perm_solve. }
        destruct hp as [|p0 pr].
        -- intros H; injection H as <- <-. rewrite (Hnn eq_refl) in Hs. repeat split; auto.
           rewrite Hi3, Hs. perm_solve.
        -- destruct (ltq_push_spec c s3 (ctq c es) ((p0 :: pr) :: nonempty [nh])) as [Hq1 Hq2].
           intros H; injection H as <- <-. split; [etransitivity; [apply Hq2|reflexivity]|]. split.
           ++ unfold lgood. rewrite Hq1. apply Forall_app. split; auto.
              constructor; [discriminate|]. destruct (nonempty_one nh) as [[_ ->]|[Hn ->]]; constructor; auto.
           ++ rewrite Hi3. rewrite !concat_flat_map, Hq1. rewrite flat_map_app. cbn [flat_map]. rewrite Hs.
              destruct (nonempty_one nh) as [[-> ->]|[_ ->]]; cbn [flat_map]; perm_solve.
Qed.

Lemma lifos_sel_some c ls es ls' t : lifos_sel c ls es = (ls', Some t) ->
  Permutation (concat ls) (t :: concat ls') /\ length ls' = length ls.
Proof. apply pop_lifos_some. Qed.

Lemma msel_inv m c s es s' o : minv m c s -> msel m c s es = (s', o) -> minv m c s'.
Proof.
  destruct m; cbn [minv msel]; auto.
  - intros H E. destruct o; [apply hb_sel_some in E; destruct E; congruence|apply hb_sel_none in E; destruct E; subst; auto].
  - intros H E. destruct o; [apply hb_sel_some in E; destruct E; congruence|apply hb_sel_none in E; destruct E; subst; auto].
  - intros H E. destruct o; [apply lifos_sel_some in E; destruct E; congruence|apply pop_lifos_none in E; destruct E; subst; auto].
  - intros H E. destruct o; [apply lifos_sel_some in E; destruct E; congruence|apply pop_lifos_none in E; destruct E; subst; auto].
  - intros [H1 H2] E. destruct (ltq_sel_spec _ _ _ _ _ H2 E) as (Hl & Hg & _). split; [congruence|auto].
  - intros H E. destruct o; [apply hb_sel_some in E; destruct E; congruence|apply hb_sel_none in E; destruct E; subst; auto].
Qed.

Lemma msel_some m c s es s' t : minv m c s -> msel m c s es = (s', Some t) ->
  Permutation (mpend m s) (t :: mpend m s').
Proof.
  destruct m; cbn [minv msel mpend mstate]; intros Hinv E.
  - apply pop_front_some in E. subst. auto.
  - apply pop_front_some in E. subst. auto.
  - apply pop_back_some in E. subst. perm_solve.
  - apply hb_sel_some in E. apply E.
  - apply hb_sel_some in E. apply E.
  - apply lifos_sel_some in E. apply E.
  - apply lifos_sel_some in E. apply E.
  - destruct Hinv as [_ Hg]. apply (ltq_sel_spec _ _ _ _ _ Hg E).
  - apply hb_sel_some in E. apply E.
  - apply pop_front_some in E. subst. auto.
  - apply spq_sel_some in E. rewrite E. auto.
Qed.

Lemma msel_none m c s es s' : minv m c s -> msel m c s es = (s', None) -> s' = s.
Proof.
  destruct m; cbn [minv msel mstate]; intros Hinv E.
  - apply pop_front_none in E. destruct E; subst; auto.
  - apply pop_front_none in E. destruct E; subst; auto.
  - apply pop_back_none in E. destruct E; subst; auto.
  - apply hb_sel_none in E. apply E.
  - apply hb_sel_none in E. apply E.
  - apply pop_lifos_none in E. apply E.
  - apply pop_lifos_none in E. apply E.
  - destruct Hinv as [_ Hg]. apply (ltq_sel_spec _ _ _ _ _ Hg E).
  - apply hb_sel_none in E. apply E.
  - apply pop_front_none in E. destruct E; subst; auto.
  - apply spq_sel_none in E. apply E.
Qed.

(* ---- when every stream's select finds nothing, the module is empty ------------------ *)
Lemma allitems_nil {A} (bufs : list (list (option A))) :
  (forall b, b < length bufs -> bitems (nth b bufs []) = []) -> allitems bufs = [].
Proof.
  induction bufs as [|x r IH]; intros H; [reflexivity|].
  change (allitems (x :: r)) with (bitems x ++ allitems r).
  rewrite IH; [|intros b Hb; apply (H (S b)); cbn; lia].
  rewrite app_nil_r. apply (H 0). cbn; lia.
Qed.
Lemma concat_nil (ls : list (list task)) : (forall i, i < length ls -> nth i ls [] = []) -> concat ls = [].
Proof.
  induction ls as [|x r IH]; intros H; [reflexivity|].
  change (concat (x :: r)) with (x ++ concat r).
  rewrite IH; [|intros b Hb; apply (H (S b)); cbn; lia].
  rewrite app_nil_r. apply (H 0). cbn; lia.
Qed.

Lemma mlive m c s : wf c -> minv m c s ->
  (forall es, es < cn c -> snd (msel m c s es) = None) -> mpend m s = [].
Proof.
  intros Hwf Hinv Hall.
  assert (H0 : 0 < cn c) by (unfold cn; lia).
  destruct m; cbn [minv msel mpend mstate] in *.
  - specialize (Hall 0 H0). destruct s; [auto|discriminate].
  - specialize (Hall 0 H0). destruct s; [auto|discriminate].
  - specialize (Hall 0 H0). destruct s; [auto|discriminate].
  - (* lfq *)
    assert (Hs : hb_sys s = []).
    { specialize (Hall 0 H0). destruct (hb_sel c s (norm c 0)) as [s' o] eqn:E. cbn in Hall; subst.
      apply hb_sel_none in E. apply E. }
    rewrite hb_items_eq, Hs, app_nil_r. apply allitems_nil. intros b Hb. rewrite Hinv in Hb.
    destruct (Hwf b Hb) as (es & Hes & Hin). specialize (Hall es Hes).
    destruct (hb_sel c s (norm c es)) as [s' o] eqn:E. cbn in Hall; subst. rewrite norm_id in E by auto.
    apply hb_sel_none in E. destruct E as (_ & _ & E). apply E.
    destruct Hin as [->|Hin]; [left; auto|right]. destruct (cchain c es); [destruct Hin|right; auto].
  - (* lhq *)
    assert (Hs : hb_sys s = []).
    { specialize (Hall 0 H0). destruct (hb_sel c s (norm c 0)) as [s' o] eqn:E. cbn in Hall; subst.
      apply hb_sel_none in E. apply E. }
    rewrite hb_items_eq, Hs, app_nil_r. apply allitems_nil. intros b Hb. rewrite Hinv in Hb.
    destruct (Hwf b Hb) as (es & Hes & Hin). specialize (Hall es Hes).
    destruct (hb_sel c s (norm c es)) as [s' o] eqn:E. cbn in Hall; subst. rewrite norm_id in E by auto.
    apply hb_sel_none in E. destruct E as (_ & _ & E). apply E.
    destruct Hin as [->|Hin]; [left; auto|right]. destruct (cchain c es); [destruct Hin|right; auto].
  - (* ll *)
    apply concat_nil. intros i Hi. rewrite Hinv in Hi. specialize (Hall i Hi).
    unfold lifos_sel in Hall. rewrite norm_id in Hall by auto.
    destruct (pop_lifos s (i :: steal_order (cn c) i)) as [s' o] eqn:E. cbn in Hall; subst.
    apply pop_lifos_none in E. apply E. left; auto.
  - (* llp *)
    apply concat_nil. intros i Hi. rewrite Hinv in Hi. specialize (Hall i Hi).
    unfold lifos_sel in Hall. rewrite norm_id in Hall by auto.
    destruct (pop_lifos s (i :: steal_order (cn c) i)) as [s' o] eqn:E. cbn in Hall; subst.
    apply pop_lifos_none in E. apply E. left; auto.
  - (* ltq *)
    destruct Hinv as [Hlen Hg].
    assert (Hs : hb_sys s = []).
    { specialize (Hall 0 H0). destruct (ltq_sel c s (norm c 0)) as [s' o] eqn:E. cbn in Hall; subst.
      apply (ltq_sel_spec _ _ _ _ _ Hg E). }
    rewrite hb_items_eq, Hs, app_nil_r.
    rewrite (allitems_nil (hb_bufs s)); auto. intros b Hb. rewrite Hlen in Hb.
    destruct (Hwf b Hb) as (es & Hes & Hin). specialize (Hall es Hes).
    destruct (ltq_sel c s (norm c es)) as [s' o] eqn:E. cbn in Hall; subst. rewrite norm_id in E by auto.
    destruct (ltq_sel_spec _ _ _ _ _ Hg E) as (_ & _ & _ & _ & E'). apply E'.
    destruct Hin as [->|Hin]; [left; auto|right; auto].
  - (* pbq *)
    assert (Hs : hb_sys s = []).
    { specialize (Hall 0 H0). destruct (hb_sel c s (norm c 0)) as [s' o] eqn:E. cbn in Hall; subst.
      apply hb_sel_none in E. apply E. }
    rewrite hb_items_eq, Hs, app_nil_r. apply allitems_nil. intros b Hb. rewrite Hinv in Hb.
    destruct (Hwf b Hb) as (es & Hes & Hin). specialize (Hall es Hes).
    destruct (hb_sel c s (norm c es)) as [s' o] eqn:E. cbn in Hall; subst. rewrite norm_id in E by auto.
    apply hb_sel_none in E. destruct E as (_ & _ & E). apply E.
    destruct Hin as [->|Hin]; [left; auto|right]. destruct (cchain c es); [destruct Hin|right; auto].
  - specialize (Hall 0 H0). destruct s; [auto|discriminate].
  - specialize (Hall 0 H0). destruct (spq_sel s) as [s' o] eqn:E. cbn in Hall; subst.
    apply spq_sel_none in E. apply E.
Qed.
