(* Several chains in one file: every chain takes its offsets from its own row
   of an injective allocation, so the chains do not disturb each other. *)
From PV Require Import Base.Tac Prof.ProfDefs Prof.ProfBytes Prof.ProfWriter Prof.ProfEvents.
From Coq Require Import NArith.
Local Open Scope N_scope.

(* every entry of [l] sits at an offset of the row [al], and its content is a function of the index *)
Definition chain_fun (al : nat -> N) (l : list (N * list N)) : Prop :=
  exists f : nat -> list N, forall k v, In (k, v) l -> exists j, k = al j /\ v = f j.

Lemma chain_fun_emit {A} (ser : A -> list N) avail bt al cs : chain_fun al (emit ser avail bt al cs).
Proof.
  exists (fun j => cbuf ser avail bt (next_of al (length cs) j) (nth j cs []) (al j)).
  intros k v Hin. apply in_emit in Hin. destruct Hin as (j & _ & -> & ->). exists j. split; reflexivity.
Qed.
Lemma chain_fun_nil al : chain_fun al [].
Proof. exists (fun _ => []). intros k v []. Qed.

Lemma in_concat_snd {K B} : forall (chains : list (K * list B)) x,
  In x (concat (map snd chains)) <-> exists c l, In (c, l) chains /\ In x l.
Proof.
  intros chains x. rewrite in_concat. split.
  - intros (l & Hl & Hx). apply in_map_iff in Hl. destruct Hl as ([c l'] & <- & Hin). exists c, l'. split; assumption.
  - intros (c & l & Hin & Hx). exists l. split; [|exact Hx]. apply in_map_iff. exists (c, l). split; [reflexivity|exact Hin].
Qed.
Lemma nodup_fst_fun {K B} : forall (l : list (K * B)) c x y,
  NoDup (map fst l) -> In (c, x) l -> In (c, y) l -> x = y.
Proof.
  induction l as [|[c0 z] l IH]; intros c x y Hnd Hx Hy; [destruct Hx|].
  cbn [map fst] in Hnd. inversion Hnd as [|? ? Hni Hnd']; subst.
  destruct Hx as [Hx|Hx], Hy as [Hy|Hy].
  - inversion Hx; inversion Hy; subst; reflexivity.
  - inversion Hx; subst. exfalso. apply Hni. apply in_map_iff. exists (c, y). split; [reflexivity|exact Hy].
  - inversion Hy; subst. exfalso. apply Hni. apply in_map_iff. exists (c, x). split; [reflexivity|exact Hx].
  - eapply IH; eauto.
Qed.
Lemma length_in_concat_snd {K B} : forall (chains : list (K * list B)) c l,
  In (c, l) chains -> (length l <= length (concat (map snd chains)))%nat.
Proof.
  induction chains as [|[c0 l0] chains IH]; intros c l Hin; [destruct Hin|].
  cbn [map snd concat]. rewrite app_length. destruct Hin as [Hin|Hin].
  - inversion Hin; subst. lia.
  - specialize (IH c l Hin). lia.
Qed.

Section File.
  Variable alloc : nat -> nat -> N.
  Hypothesis Hinj : forall c j c' j', alloc c j = alloc c' j' -> c = c' /\ j = j'.
  Variable chains : list (nat * list (N * list N)).
  Hypothesis Hnd : NoDup (map fst chains).
  Hypothesis Hcf : forall c l, In (c, l) chains -> chain_fun (alloc c) l.
  Definition whole : list (N * list N) := concat (map snd chains).

  Lemma whole_functional : forall k v v', In (k, v) whole -> In (k, v') whole -> v = v'.
  Proof.
    intros k v v' H1 H2. unfold whole in *.
    apply in_concat_snd in H1. destruct H1 as (c1 & l1 & Hc1 & Hl1).
    apply in_concat_snd in H2. destruct H2 as (c2 & l2 & Hc2 & Hl2).
    destruct (Hcf c1 l1 Hc1) as (f1 & Hf1). destruct (Hcf c2 l2 Hc2) as (f2 & Hf2).
    destruct (Hf1 k v Hl1) as (j1 & Hk1 & _). destruct (Hf2 k v' Hl2) as (j2 & Hk2 & _).
    assert (c1 = c2) by (apply (Hinj c1 j1 c2 j2); congruence). subst c2.
    assert (l1 = l2) by (eapply nodup_fst_fun; eauto). subst l2.
    destruct (Hf1 k v Hl1) as (i1 & Hi1 & Hv1). destruct (Hf1 k v' Hl2) as (i2 & Hi2 & Hv2).
    assert (i1 = i2) by (apply (Hinj c1 i1 c1 i2); congruence). subst. reflexivity.
  Qed.

  Lemma whole_lookup : forall c l k v, In (c, l) chains -> In (k, v) l -> lookup k whole = Some v.
  Proof.
    intros c l k v Hc Hl.
    assert (Hin : In (k, v) whole) by (apply in_concat_snd; exists c, l; split; assumption).
    apply lookup_in; [exact Hin|]. intros v' Hv'. eapply whole_functional; eauto.
  Qed.

  Lemma whole_lookup_emit {A} : forall (ser : A -> list N) avail bt c cs j,
    In (c, emit ser avail bt (alloc c) cs) chains -> (j < length cs)%nat ->
    lookup (alloc c j) whole = Some (cbuf ser avail bt (next_of (alloc c) (length cs) j) (nth j cs []) (alloc c j)).
  Proof.
    intros ser avail bt c cs j Hc Hj. eapply whole_lookup; [exact Hc|].
    apply in_emit. exists j. repeat split; auto.
  Qed.
End File.

(* ---- the events of one stream ---- *)
Definition evs_ok (il : list N) (avail : N) (evs : list event) : Prop :=
  Forall (fun e => ev_ok il e /\ ev_len il e <= avail) evs.

Lemma evs_item_ok : forall il avail evs,
  evs_ok il avail evs -> Forall (item_ok (ev_len il) true avail) evs.
Proof.
  intros il avail evs H. eapply Forall_impl; [|exact H]. intros e [_ Hl]. split; [|exact Hl].
  unfold ev_len. lia.
Qed.

Lemma sumlen_ge : forall il c, 24 * N.of_nat (length c) <= sumlen (ev_len il) c.
Proof.
  intros il c. unfold sumlen. induction c as [|e c IH]; cbn [length fold_right]; [lia|].
  unfold ev_len at 1. lia.
Qed.

(* what enc_events sends to the file *)
Theorem enc_events_spec : forall il avail al evs,
  evs_ok il avail evs -> evs <> [] ->
  exists cs, concat cs = evs /\ cs <> [] /\ Forall (chunk_ok (ev_len il) true avail) cs /\
             enc_events il avail al evs = emit ser_event avail BT_EVENTS al cs.
Proof.
  intros il avail al evs Hok Hne.
  destruct (writer_spec (ev_len il) ser_event true avail BT_EVENTS al evs (evs_item_ok _ _ _ Hok) Hne)
    as (cs & Hcat & Hcs & Hch & Hfl & Hpos).
  exists cs. repeat apply conj; auto. unfold enc_events.
  destruct (w_pos (w_run (ev_len il) ser_event true avail BT_EVENTS al evs) =? 0) eqn:E.
  - apply N.eqb_eq in E. contradiction.
  - exact Hfl.
Qed.
Lemma enc_events_nil : forall il avail al, enc_events il avail al [] = [].
Proof. reflexivity. Qed.
Lemma chain_fun_enc_events : forall il avail al evs, evs_ok il avail evs -> chain_fun al (enc_events il avail al evs).
Proof.
  intros il avail al evs Hok. destruct evs as [|e evs]; [apply chain_fun_nil|].
  destruct (enc_events_spec il avail al (e :: evs) Hok ltac:(discriminate)) as (cs & _ & _ & _ & ->).
  apply chain_fun_emit.
Qed.

Section StreamInFile.
  Variable alloc : nat -> nat -> N.
  Hypothesis Hinj : forall c j c' j', alloc c j = alloc c' j' -> c = c' /\ j = j'.
  Hypothesis Halloc : forall c j, alloc c j < NOOFF.
  Variable chains : list (nat * list (N * list N)).
  Hypothesis Hnd : NoDup (map fst chains).
  Hypothesis Hcf : forall c l, In (c, l) chains -> chain_fun (alloc c) l.
  Variable il : list N.
  Variable avail : N.
  Hypothesis Havail : avail < 4294967296.

  Theorem stream_roundtrip : forall c evs fuel,
    In (c, enc_events il avail (alloc c) evs) chains ->
    evs_ok il avail evs -> evs <> [] ->
    (length (whole chains) <= fuel)%nat ->
    dec_chain fuel (fun o => lookup o (whole chains)) il (alloc c 0%nat) = evs.
  Proof.
    intros c evs fuel Hin Hok Hne Hfuel.
    destruct (enc_events_spec il avail (alloc c) evs Hok Hne) as (cs & Hcat & Hcs & Hch & Henc).
    rewrite Henc in Hin. rewrite <- Hcat.
    apply (dec_chain_emit il avail (alloc c) cs (fun o => lookup o (whole chains))).
    - intros j. apply Halloc.
    - intros j Hj. apply (whole_lookup_emit alloc Hinj chains Hnd Hcf ser_event avail BT_EVENTS c cs j Hin Hj).
    - unfold evs_ok in Hok. rewrite Forall_forall in *. intros ch Hch'. destruct (Hch ch Hch') as [Hne' Hw].
      repeat apply conj; [exact Hne'| |].
      + rewrite Forall_forall. intros e He. apply Hok. rewrite <- Hcat. apply in_concat. exists ch. split; assumption.
      + pose proof (sumlen_ge il ch). unfold within in Hw. lia.
    - exact Hcs.
    - pose proof (length_in_concat_snd chains c _ Hin) as Hl. rewrite length_emit in Hl. unfold whole in Hfuel. lia.
  Qed.
End StreamInFile.

(* ---- the chains of [encode] ---- *)
Lemma chain_fun_keys : forall al l n, map fst l = map al (seq 0 n) -> chain_fun al l.
Proof.
  intros al l n H. exists (fun j => nth j (map snd l) []). intros k v Hin.
  assert (Hn : n = length l) by (apply (f_equal (@length N)) in H; rewrite !map_length, seq_length in H; lia).
  destruct (In_nth l (k, v) (0, []) Hin) as (j & Hj & Hnth). exists j. split.
  - assert (Hk : nth j (map fst l) (fst (0, @nil N)) = k) by (rewrite map_nth, Hnth; reflexivity).
    cbn [fst] in Hk. rewrite H in Hk. rewrite <- Hk.
    rewrite (nth_indep _ 0 (al 0%nat)) by (rewrite map_length, seq_length; lia).
    rewrite (map_nth al (seq 0 n) 0%nat j), seq_nth by lia. reflexivity.
  - change (@nil N) with (snd (0, @nil N)). rewrite map_nth, Hnth. reflexivity.
Qed.
Lemma chain_fun_enc_events_any : forall il avail al evs, chain_fun al (enc_events il avail al evs).
Proof.
  intros il avail al evs. unfold enc_events.
  pose proof (w_run_keys (ev_len il) ser_event true avail BT_EVENTS al evs) as Hk. cbv zeta in Hk.
  destruct (w_pos _ =? 0).
  - eapply chain_fun_keys, Hk.
  - eapply chain_fun_keys. apply w_flush_keys, Hk.
Qed.
Lemma chain_fun_enc_table : forall avail bt al xs, chain_fun al (enc_table avail bt al xs).
Proof.
  intros avail bt al xs. unfold enc_table. eapply chain_fun_keys.
  apply w_flush_keys. apply (w_run_keys (fun x : list N => N.of_nat (length x)) (fun x => x) false avail bt al xs).
Qed.

Lemma map_fst_indexed {A} : forall (l : list A) a, map fst (indexed a l) = seq a (length l).
Proof. induction l as [|x l IH]; intros a; cbn [indexed map length seq fst]; [reflexivity|]. rewrite IH. reflexivity. Qed.
Lemma in_indexed {A} : forall (l : list A) a i x,
  In (i, x) (indexed a l) <-> (a <= i)%nat /\ nth_error l (i - a) = Some x.
Proof.
  induction l as [|y l IH]; intros a i x; cbn [indexed In].
  - split; [intros []|]. intros [_ H]. destruct (i - a)%nat; discriminate.
  - rewrite IH. split.
    + intros [H|[Hle H]].
      * inversion H; subst. rewrite Nat.sub_diag. split; [lia|reflexivity].
      * split; [lia|]. replace (i - a)%nat with (S (i - S a)) by lia. exact H.
    + intros [Hle H]. destruct (Nat.eq_dec i a) as [->|Hne].
      * left. rewrite Nat.sub_diag in H. cbn in H. inversion H; reflexivity.
      * right. split; [lia|]. replace (i - a)%nat with (S (i - S a)) in H by lia. exact H.
Qed.

Definition dict_chain avail alloc (d : list kent) : list (N * list N) :=
  enc_table avail BT_DICT (alloc 0%nat) (map ser_key d).
Definition stored (ss : list stream) : list (nat * stream) :=
  filter (fun p => has_events (snd p)) (indexed 0 ss).
Definition thread_chain avail (alloc : nat -> nat -> N) (ss : list stream) : list (N * list N) :=
  enc_table avail BT_THREAD (alloc 1%nat)
    (map (fun p => ser_thread (thread_of avail alloc (fst p) (snd p))) (stored ss)).
Definition chains_of avail (alloc : nat -> nat -> N) (d : list kent) (ss : list stream)
  : list (nat * list (N * list N)) :=
  (0%nat, dict_chain avail alloc d) :: (1%nat, thread_chain avail alloc ss)
  :: map (fun p => ((2 + fst p)%nat, enc_events (map k_ilen d) avail (alloc (2 + fst p)%nat) (s_events (snd p))))
         (indexed 0 ss).

Lemma encode_whole : forall avail alloc d ss, encode avail alloc d ss = whole (chains_of avail alloc d ss).
Proof.
  intros. unfold encode, whole, chains_of, dict_chain, thread_chain, stored.
  cbn [map snd concat]. rewrite map_map. cbn [snd]. reflexivity.
Qed.
Lemma chains_of_nodup : forall avail alloc d ss, NoDup (map fst (chains_of avail alloc d ss)).
Proof.
  intros. unfold chains_of. cbn [map fst]. rewrite map_map. cbn [fst].
  rewrite <- (map_map fst (fun i => (2 + i)%nat)), map_fst_indexed.
  change (fun i => (2 + i)%nat) with (fun i => S (S i)).
  rewrite <- (map_map S S), !seq_shift.
  change (0%nat :: 1%nat :: seq 2 (length ss)) with (seq 0 (2 + length ss)). apply seq_NoDup.
Qed.
Lemma chains_of_fun : forall avail alloc d ss c l,
  In (c, l) (chains_of avail alloc d ss) -> chain_fun (alloc c) l.
Proof.
  intros avail alloc d ss c l Hin. unfold chains_of in Hin.
  destruct Hin as [H|[H|H]].
  - inversion H; subst. apply chain_fun_enc_table.
  - inversion H; subst. apply chain_fun_enc_table.
  - apply in_map_iff in H. destruct H as ([i s] & Heq & _). inversion Heq; subst. apply chain_fun_enc_events_any.
Qed.

(* the events of stream number i of a whole profile, whatever the other streams logged *)
Theorem encode_stream_roundtrip : forall avail alloc d ss i s fuel,
  (forall c j c' j', alloc c j = alloc c' j' -> c = c' /\ j = j') ->
  (forall c j, alloc c j < NOOFF) ->
  avail < 4294967296 ->
  nth_error ss i = Some s ->
  evs_ok (map k_ilen d) avail (s_events s) -> s_events s <> [] ->
  (length (encode avail alloc d ss) <= fuel)%nat ->
  dec_chain fuel (fun o => lookup o (encode avail alloc d ss)) (map k_ilen d) (alloc (2 + i)%nat 0%nat) = s_events s.
Proof.
  intros avail alloc d ss i s fuel Hinj Hlt Hav Hnth Hok Hne Hfuel.
  rewrite encode_whole in *.
  apply (stream_roundtrip alloc Hinj Hlt (chains_of avail alloc d ss) (chains_of_nodup _ _ _ _)
           (chains_of_fun _ _ _ _) (map k_ilen d) avail Hav (2 + i)%nat (s_events s) fuel); auto.
  unfold chains_of. right. right. apply in_map_iff. exists (i, s). split; [reflexivity|].
  apply in_indexed. split; [lia|]. rewrite Nat.sub_0_r. exact Hnth.
Qed.

(* no event is split between two buffers: the file holds, for a sequence of
   chunks of the logged events, one buffer of exactly 25 + avail bytes per
   chunk, made of the header, the events of the chunk back to back, zeros *)
Theorem enc_events_layout : forall il avail al evs,
  evs_ok il avail evs -> evs <> [] ->
  exists cs, concat cs = evs /\
    enc_events il avail al evs =
      map (fun j => (al j, ser_buffer avail (al j) (next_of al (length cs) j)
                             (N.of_nat (length (nth j cs []))) BT_EVENTS (flat ser_event (nth j cs []))))
          (seq 0 (length cs)) /\
    Forall (fun c => c <> [] /\ N.of_nat (length (flat ser_event c)) <= avail) cs /\
    Forall (fun kv => length (snd kv) = (25 + N.to_nat avail)%nat) (enc_events il avail al evs).
Proof.
  intros il avail al evs Hok Hne.
  destruct (enc_events_spec il avail al evs Hok Hne) as (cs & Hcat & Hcs & Hch & Henc).
  assert (Hlen : forall c, In c cs -> c <> [] /\ N.of_nat (length (flat ser_event c)) <= avail).
  { intros c Hc. rewrite Forall_forall in Hch. destruct (Hch c Hc) as [Hn Hw]. split; [exact Hn|].
    assert (Hs : N.of_nat (length (flat ser_event c)) = sumlen (ev_len il) c).
    { assert (Hall : Forall (ev_ok il) c).
      { unfold evs_ok in Hok. rewrite Forall_forall in *. intros e He. apply Hok. rewrite <- Hcat.
        apply in_concat. exists c. split; assumption. }
      clear -Hall. unfold flat, sumlen. induction c as [|e c IH]; [reflexivity|].
      inversion Hall as [|? ? He Hc']; subst. cbn [flat_map fold_right].
      rewrite app_length, Nat2N.inj_add, (length_ser_event il e He), IH by exact Hc'. reflexivity. }
    rewrite Hs. exact Hw. }
  exists cs. repeat apply conj.
  - exact Hcat.
  - rewrite Henc. reflexivity.
  - rewrite Forall_forall. exact Hlen.
  - rewrite Henc. rewrite Forall_forall. intros [k v] Hin. apply in_emit in Hin.
    destruct Hin as (j & Hj & _ & ->). cbn [snd]. unfold cbuf. apply length_ser_buffer.
    destruct (Hlen (nth j cs [])) as [_ Hl]; [apply nth_In; exact Hj|]. lia.
Qed.

(* ---- a global trace: the calls of n streams interleaved in time ---- *)
Definition streams_of_trace (n : nat) (hr : nat -> list N) (infos : nat -> list (list N * list N))
                            (tr : list (nat * event)) : list stream :=
  map (fun i => mk_stream (hr i) (infos i) (proj i tr)) (seq 0 n).
Lemma nth_error_streams_of_trace : forall n hr infos tr i,
  (i < n)%nat -> nth_error (streams_of_trace n hr infos tr) i = Some (mk_stream (hr i) (infos i) (proj i tr)).
Proof.
  intros n hr infos tr i Hi. unfold streams_of_trace.
  rewrite nth_error_map, nth_error_nth' with (d := 0%nat) by (rewrite seq_length; exact Hi).
  rewrite seq_nth by exact Hi. reflexivity.
Qed.

Theorem trace_order_preserved : forall avail alloc d n hr infos tr i fuel,
  (forall c j c' j', alloc c j = alloc c' j' -> c = c' /\ j = j') ->
  (forall c j, alloc c j < NOOFF) ->
  avail < 4294967296 ->
  (i < n)%nat ->
  evs_ok (map k_ilen d) avail (proj i tr) -> proj i tr <> [] ->
  let ss := streams_of_trace n hr infos tr in
  (length (encode avail alloc d ss) <= fuel)%nat ->
  dec_chain fuel (fun o => lookup o (encode avail alloc d ss)) (map k_ilen d) (alloc (2 + i)%nat 0%nat) = proj i tr.
Proof.
  intros avail alloc d n hr infos tr i fuel Hinj Hlt Hav Hi Hok Hne ss Hfuel.
  apply (encode_stream_roundtrip avail alloc d ss i (mk_stream (hr i) (infos i) (proj i tr)) fuel); auto.
  apply nth_error_streams_of_trace, Hi.
Qed.

(* ---- START_KEY / END_KEY / BASE_KEY ---- *)
Lemma key_of_base : forall k b,
  base_key (key_of k b) = k /\ key_is_end (key_of k b) = b /\ key_is_start (key_of k b) = negb b.
Proof.
  intros k b. unfold key_is_end, key_is_start, base_key, key_of, end_key, start_key.
  assert (H1 : (2 * k + 1) / 2 = k) by (symmetry; apply (N.div_unique (2 * k + 1) 2 k 1); lia).
  assert (H0 : (2 * k) / 2 = k) by (symmetry; apply (N.div_unique (2 * k) 2 k 0); lia).
  destruct b; rewrite ?H1, ?H0; repeat split; cbn [negb];
    try apply N.eqb_refl; apply N.eqb_neq; lia.
Qed.
Lemma base_key_of : forall key, key_of (base_key key) (key_is_end key) = key.
Proof.
  intros key. unfold key_is_end, base_key, key_of, end_key, start_key.
  pose proof (N.div_mod key 2 ltac:(lia)) as Hd. pose proof (N.mod_lt key 2 ltac:(lia)) as Hm.
  remember (key / 2) as q eqn:Hq. remember (key mod 2) as m eqn:Hmm. clear Hq Hmm.
  destruct (key =? 2 * q + 1) eqn:E.
  - apply N.eqb_eq in E. lia.
  - apply N.eqb_neq in E. lia.
Qed.
Lemma key_of_uint16 : forall k b, k < 32768 -> key_of k b mod 65536 = key_of k b.
Proof.
  intros k b Hk. apply N.mod_small. unfold key_of, end_key, start_key. destruct b; lia.
Qed.
