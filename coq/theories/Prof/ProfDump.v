(* The infos of a thread entry (dump_thread after the repair 54d29e4: an info
   that does not fit is skipped) and the loop as it was before. *)
From PV Require Import Base.Tac Prof.ProfDefs.
From Coq Require Import NArith.
Local Open Scope N_scope.

Definition infos_sz (infos : list (list N * list N)) : N := fold_right (fun kv a => info_sz kv + a) 0 infos.

(* thread_size() and the copy loop make the same choices: the entry is as long as
   thread_size says, it always ends before the end of the buffer, and the copy
   loop keeps the same infos wherever the entry is placed *)
Lemma thread_size_kept : forall avail infos s,
  thread_size_from avail s infos = s + infos_sz (kept_from avail s infos).
Proof.
  intros avail infos. unfold infos_sz. induction infos as [|kv r IH]; intros s; cbn [thread_size_from kept_from fold_right].
  - lia.
  - destruct (avail <=? s + info_sz kv); [apply IH|]. rewrite IH. cbn [fold_right]. lia.
Qed.
Lemma thread_size_lt : forall avail infos s, s < avail -> thread_size_from avail s infos < avail.
Proof.
  intros avail infos. induction infos as [|kv r IH]; intros s Hs; cbn [thread_size_from]; [exact Hs|].
  destruct (avail <=? s + info_sz kv) eqn:E; [apply IH, Hs|]. apply N.leb_gt in E. apply IH, E.
Qed.
Lemma kept_shift : forall avail infos s p,
  p + thread_size_from avail s infos < avail ->
  kept_from avail (p + s) infos = kept_from avail s infos.
Proof.
  intros avail infos.
  induction infos as [|kv r IH]; intros s p Hp; cbn [thread_size_from kept_from] in *; [reflexivity|].
  destruct (avail <=? s + info_sz kv) eqn:E.
  - apply N.leb_le in E.
    destruct (avail <=? p + s + info_sz kv) eqn:E1; [|apply N.leb_gt in E1; lia].
    apply IH, Hp.
  - apply N.leb_gt in E.
    pose proof (thread_size_kept avail r (s + info_sz kv)) as Hk.
    destruct (avail <=? p + s + info_sz kv) eqn:E1; [apply N.leb_le in E1; lia|].
    replace (p + s + info_sz kv) with (p + (s + info_sz kv)) by lia. rewrite (IH _ _ Hp). reflexivity.
Qed.
Theorem kept_position_independent : forall avail infos p,
  p + thread_size_from avail 156 infos < avail ->
  kept_from avail (p + 156) infos = kept_infos avail infos.
Proof. intros avail infos p Hp. apply (kept_shift avail infos 156 p Hp). Qed.
Lemma kept_size : forall avail infos,
  156 + infos_sz (kept_infos avail infos) = thread_size_from avail 156 infos.
Proof. intros. symmetry. apply thread_size_kept. Qed.

(* every info that fits is kept: nothing is omitted from an entry that fits a buffer *)
Lemma kept_all : forall avail infos s, s + infos_sz infos < avail -> kept_from avail s infos = infos.
Proof.
  intros avail infos. unfold infos_sz. induction infos as [|kv r IH]; intros s Hs; cbn [kept_from fold_right] in *; [reflexivity|].
  destruct (avail <=? s + info_sz kv) eqn:E; [apply N.leb_le in E; lia|].
  rewrite IH by lia. reflexivity.
Qed.
Theorem kept_infos_all_when_fit : forall avail infos,
  156 + infos_sz infos < avail -> kept_infos avail infos = infos /\ omits avail infos = false.
Proof.
  intros avail infos H. unfold omits. rewrite (kept_all avail infos 156 H : kept_infos avail infos = infos).
  rewrite Nat.eqb_refl. split; reflexivity.
Qed.
(* what is kept is a subsequence, in order, of what was added *)
Lemma kept_incl : forall avail infos s kv, In kv (kept_from avail s infos) -> In kv infos.
Proof.
  intros avail infos. induction infos as [|k r IH]; intros s kv Hin; cbn [kept_from] in Hin; [destruct Hin|].
  destruct (avail <=? s + info_sz k).
  - right. eapply IH, Hin.
  - destruct Hin as [->|Hin]; [left; reflexivity|right; eapply IH, Hin].
Qed.
Lemma kept_length : forall avail infos s, (length (kept_from avail s infos) <= length infos)%nat.
Proof.
  intros avail infos. induction infos as [|k r IH]; intros s; cbn [kept_from length]; [lia|].
  destruct (avail <=? s + info_sz k); [specialize (IH s)|specialize (IH (s + info_sz k)); cbn [length]]; lia.
Qed.
(* an info that cannot fit any buffer is always omitted *)
Lemma too_large_omitted : forall avail infos s kv,
  avail <= 156 + info_sz kv -> 156 <= s -> ~ In kv (kept_from avail s infos).
Proof.
  intros avail infos. induction infos as [|k r IH]; intros s kv Hbig Hs Hin; cbn [kept_from] in Hin; [destruct Hin|].
  destruct (avail <=? s + info_sz k) eqn:E.
  - eapply IH; eauto.
  - apply N.leb_gt in E. destruct Hin as [->|Hin]; [lia|]. eapply (IH (s + info_sz k)); eauto. lia.
Qed.

(* size of the infos as the thread entry stores them *)
Lemma infos_sz_ser : forall infos, infos_sz infos = N.of_nat (length (concat (map ser_info infos))).
Proof.
  induction infos as [|kv r IH]; cbn [infos_sz fold_right map concat]; [reflexivity|].
  fold (infos_sz r). rewrite IH, app_length, Nat2N.inj_add. f_equal.
  unfold info_sz, ser_info. rewrite !app_length. cbn [length].
  assert (Hl : forall k n, length (le k n) = k) by (induction k; intros; cbn [le length]; auto).
  rewrite !Hl. f_equal. lia.
Qed.

(* ---- the loop before the repair ---- *)
(* where the old loop returned, the repaired one copies the same infos *)
Theorem repaired_loop_agrees_with_prefix : forall avail infos pos p,
  copy_infos_prefix avail pos infos = Some p ->
  kept_from avail pos infos = infos /\ p = pos + infos_sz infos.
Proof.
  intros avail infos. unfold infos_sz. induction infos as [|kv r IH]; intros pos p H; cbn [copy_infos_prefix kept_from fold_right] in *.
  - inversion H. split; [reflexivity|lia].
  - destruct (avail <=? pos + info_sz kv); [discriminate|].
    destruct (IH _ _ H) as [H1 H2]. rewrite H1. split; [reflexivity|lia].
Qed.

Theorem oversized_info_omitted : forall avail infos kv,
  avail <= 156 + info_sz kv -> ~ In kv (kept_infos avail infos).
Proof. intros avail infos kv H. apply (too_large_omitted avail infos 156 kv H). apply N.le_refl. Qed.
Theorem kept_infos_position_independent : forall avail infos p,
  p + thread_size_from avail 156 infos < avail ->
  kept_from avail (p + 156) infos = kept_infos avail infos /\
  156 + infos_sz (kept_infos avail infos) = thread_size_from avail 156 infos.
Proof.
  intros avail infos p H. split; [apply kept_position_independent, H|apply kept_size].
Qed.

(* since the repair 73717d1 a thread entry always ends before the end of a buffer ... *)
Theorem thread_entry_ends_before_buffer_end : forall avail infos,
  156 < avail -> thread_size_from avail 156 infos < avail.
Proof. intros avail infos H. apply thread_size_lt, H. Qed.
