(* The whole profile: dictionary, thread table and the events of every stream
   are read back from the file the writer produced. *)
From PV Require Import Base.Tac Prof.ProfDefs Prof.ProfBytes Prof.ProfWriter Prof.ProfEvents Prof.ProfFile Prof.ProfTables Prof.ProfDump.
From Coq Require Import NArith.
Local Open Scope N_scope.

Lemma length_le_sumlen {A} (len : A -> N) : forall c,
  Forall (fun x => 0 < len x) c -> N.of_nat (length c) <= sumlen len c.
Proof.
  intros c Hc. unfold sumlen. induction c as [|x c IH]; cbn [length fold_right]; [lia|].
  inversion Hc as [|? ? Hx Hc']; subst. specialize (IH Hc'). lia.
Qed.

Section TableInFile.
  Variable alloc : nat -> nat -> N.
  Hypothesis Hinj : forall c j c' j', alloc c j = alloc c' j' -> c = c' /\ j = j'.
  Hypothesis Halloc : forall c j, alloc c j < NOOFF.
  Variable chains : list (nat * list (N * list N)).
  Hypothesis Hnd : NoDup (map fst chains).
  Hypothesis Hcf : forall c l, In (c, l) chains -> chain_fun (alloc c) l.
  Variable avail : N.
  Hypothesis Havail : avail < 4294967296.

  Lemma table_in_file {V} : forall (parse1 : list N -> V * nat) (vw : list N -> V) c bt xs,
    In (c, enc_table avail bt (alloc c) xs) chains ->
    Forall (fun x => 0 < N.of_nat (length x) < avail) xs ->
    (forall x, In x xs -> forall rest, parse1 (x ++ rest) = (vw x, length x)) ->
    exists buf0, lookup (alloc c 0%nat) (whole chains) = Some buf0 /\
      dec_table parse1 (fun o => lookup o (whole chains)) (length xs) buf0 0 (Z.of_N (b_nb buf0)) = Some (map vw xs).
  Proof.
    intros parse1 vw c bt xs Hin Hlen Hparse.
    destruct xs as [|x0 xs0].
    - (* an empty table: one buffer announcing nothing *)
      eexists. split; [|reflexivity].
      eapply (whole_lookup alloc Hinj chains Hnd Hcf c _ _ _ Hin).
      unfold enc_table, w_flush, w_run. cbn [fold_left w_init w_out w_idx app]. left. reflexivity.
    - set (xs := x0 :: xs0) in *.
      assert (Hitem : Forall (item_ok (fun x : list N => N.of_nat (length x)) false avail) xs).
      { eapply Forall_impl; [|exact Hlen]. intros x [H1 H2]. split; [exact H1|exact H2]. }
      destruct (writer_spec (fun x : list N => N.of_nat (length x)) (fun x => x) false avail bt (alloc c) xs
                  Hitem ltac:(discriminate)) as (cs & Hcat & Hcs & Hch & Hfl & _).
      unfold enc_table in Hin. rewrite Hfl in Hin.
      assert (H0 : (0 < length cs)%nat) by (destruct cs; [contradiction|cbn [length]; lia]).
      pose proof (whole_lookup_emit alloc Hinj chains Hnd Hcf (fun x : list N => x) avail bt c cs 0%nat Hin H0) as Hb0.
      eexists. split; [exact Hb0|].
      rewrite <- Hcat.
      apply (dec_table_emit parse1 vw avail bt (alloc c) cs (fun o => lookup o (whole chains))).
      + intros j. apply Halloc.
      + intros j Hj. apply (whole_lookup_emit alloc Hinj chains Hnd Hcf (fun x : list N => x) avail bt c cs j Hin Hj).
      + rewrite Forall_forall in *. intros ch Hch'. destruct (Hch ch Hch') as [Hne Hw]. split; [exact Hne|].
        assert (Hpos : Forall (fun x : list N => 0 < N.of_nat (length x)) ch).
        { rewrite Forall_forall. intros x Hx. apply Hlen. rewrite <- Hcat. apply in_concat. exists ch. split; assumption. }
        pose proof (length_le_sumlen (fun x : list N => N.of_nat (length x)) ch Hpos). unfold within in Hw. lia.
      + intros x Hx. apply Hparse. rewrite <- Hcat. exact Hx.
      + exact Hcs.
      + exact Hb0.
  Qed.
End TableInFile.

(* what the writer API needs from a profile for the file to be readable *)
Definition dict_ok (avail : N) (d : list kent) : Prop :=
  Forall (fun k => key_ok k /\ N.of_nat (203 + length (k_conv k)) < avail) d.
Definition stream_ok (il : list N) (avail : N) (s : stream) : Prop :=
  nonul (s_hr s) /\ N.of_nat (length (s_events s)) < 18446744073709551616 /\
  N.of_nat (length (s_infos s)) < 4294967296 /\
  Forall (fun kv => N.of_nat (length (fst kv)) < 4294967296 /\ N.of_nat (length (snd kv)) < 4294967296) (s_infos s) /\
  156 < avail /\                                         (* an entry without infos fits; then thread_size(thread) < event_avail_space *)
  evs_ok il avail (s_events s).

Lemma length_ser_thread : forall t, length (ser_thread t) = (156 + length (concat (map ser_info (t_infos t))))%nat.
Proof.
  intros t. unfold ser_thread. rewrite !app_length, !length_le, length_padz.
  - lia.
  - pose proof (firstn_le_length 127 (t_hr t)). lia.
Qed.

Lemma in_stored : forall ss i s, In (i, s) (stored ss) -> nth_error ss i = Some s /\ s_events s <> [].
Proof.
  intros ss i s Hin. unfold stored in Hin. apply filter_In in Hin. destruct Hin as [Hin Hev].
  apply in_indexed in Hin. destruct Hin as [_ Hn]. rewrite Nat.sub_0_r in Hn. split; [exact Hn|].
  cbn [snd] in Hev. unfold has_events in Hev. destruct (s_events s); [discriminate|discriminate].
Qed.

Theorem encode_read_back : forall avail alloc d ss fuel,
  (forall c j c' j', alloc c j = alloc c' j' -> c = c' /\ j = j') ->
  (forall c j, alloc c j < NOOFF) ->
  avail < 4294967296 ->
  dict_ok avail d ->
  Forall (stream_ok (map k_ilen d) avail) ss ->
  (length (encode avail alloc d ss) <= fuel)%nat ->
  decode fuel (fun o => lookup o (encode avail alloc d ss))
         (alloc 0%nat 0%nat) (length d) (alloc 1%nat 0%nat) (length (stored ss))
  = Some (profile_view avail alloc d ss).
Proof.
  intros avail alloc d ss fuel Hinj Hlt Hav Hd Hss Hfuel.
  rewrite encode_whole in *.
  set (chains := chains_of avail alloc d ss) in *.
  pose proof (chains_of_nodup avail alloc d ss) as Hnd. fold chains in Hnd.
  pose proof (chains_of_fun avail alloc d ss) as Hcf. fold chains in Hcf.
  unfold dict_ok in Hd. rewrite Forall_forall in Hd, Hss.
  (* dictionary *)
  destruct (table_in_file alloc Hinj Hlt chains Hnd Hcf avail Hav parse_key (fun x => fst (parse_key x))
              0%nat BT_DICT (map ser_key d)) as (db & Hdb & Hdict).
  { left. reflexivity. }
  { rewrite Forall_forall. intros x Hx. apply in_map_iff in Hx. destruct Hx as (k & <- & Hk).
    destruct (Hd k Hk) as [_ Hl]. rewrite length_ser_key. lia. }
  { intros x Hx rest. apply in_map_iff in Hx. destruct Hx as (k & <- & Hk). destruct (Hd k Hk) as [Hok _].
    rewrite (parse_key_ser k rest Hok).
    pose proof (parse_key_ser k [] Hok) as H0. rewrite app_nil_r in H0. rewrite H0. reflexivity. }
  (* thread table *)
  set (txs := map (fun p => ser_thread (thread_of avail alloc (fst p) (snd p))) (stored ss)).
  assert (Htok : forall i s, In (i, s) (stored ss) -> thread_ok (thread_of avail alloc i s) /\ stream_ok (map k_ilen d) avail s).
  { intros i s Hin. destruct (in_stored ss i s Hin) as [Hn _]. apply nth_error_In in Hn.
    pose proof (Hss s Hn) as Hs. split; [|exact Hs].
    destruct Hs as (H1 & H2 & H3 & H4 & _ & _).
    unfold thread_ok, thread_of, kept_infos. cbn [t_hr t_nbev t_first t_infos]. repeat apply conj; auto.
    - pose proof (Hlt (2 + i)%nat 0%nat) as Hl. unfold NOOFF in Hl. lia.
    - pose proof (kept_length avail (s_infos s) 156). lia.
    - rewrite Forall_forall in *. intros kv Hkv. apply H4. eapply kept_incl, Hkv. }
  destruct (table_in_file alloc Hinj Hlt chains Hnd Hcf avail Hav parse_thread (fun x => fst (parse_thread x))
              1%nat BT_THREAD txs) as (tb & Htb & Hths).
  { right. left. reflexivity. }
  { rewrite Forall_forall. intros x Hx. apply in_map_iff in Hx. destruct Hx as ([i s] & <- & Hp).
    destruct (Htok i s Hp) as [_ (_ & _ & _ & _ & Hsz & _)]. cbn [fst snd].
    rewrite length_ser_thread. unfold thread_of. cbn [t_infos].
    pose proof (kept_size avail (s_infos s)) as Hk. rewrite infos_sz_ser in Hk.
    pose proof (thread_size_lt avail (s_infos s) 156 Hsz). lia. }
  { intros x Hx rest. apply in_map_iff in Hx. destruct Hx as ([i s] & <- & Hp).
    destruct (Htok i s Hp) as [Hok _]. cbn [fst snd].
    rewrite (parse_thread_ser _ rest Hok).
    pose proof (parse_thread_ser _ [] Hok) as H0. rewrite app_nil_r in H0. rewrite H0. reflexivity. }
  unfold decode. rewrite Hdb. rewrite map_length in Hdict. rewrite Hdict.
  rewrite Htb. unfold txs in Hths. rewrite map_length in Hths. rewrite Hths.
  unfold profile_view. fold (stored ss). f_equal. f_equal.
  - rewrite map_map. apply map_ext_in. intros k Hk. destruct (Hd k Hk) as [Hok _].
    pose proof (parse_key_ser k [] Hok) as H0. rewrite app_nil_r in H0. rewrite H0. reflexivity.
  - rewrite !map_map. apply map_ext_in. intros [i s] Hp. cbn [fst snd].
    destruct (Htok i s Hp) as [Hok (_ & _ & _ & _ & _ & Hev)].
    pose proof (parse_thread_ser _ [] Hok) as H0. rewrite app_nil_r in H0. rewrite H0. cbn [fst].
    f_equal. unfold thread_view, thread_of. cbn [t_first].
    assert (Hil : map (fun x : kent => k_ilen (fst (parse_key (ser_key x)))) d = map k_ilen d).
    { apply map_ext_in. intros k Hk. destruct (Hd k Hk) as [Hkok _].
      pose proof (parse_key_ser k [] Hkok) as H1. rewrite app_nil_r in H1. rewrite H1. reflexivity. }
    rewrite Hil.
    destruct (in_stored ss i s Hp) as [Hn Hne].
    apply (stream_roundtrip alloc Hinj Hlt chains Hnd Hcf (map k_ilen d) avail Hav (2 + i)%nat (s_events s) fuel); auto.
    unfold chains, chains_of. right. right. apply in_map_iff. exists (i, s). split; [reflexivity|].
    apply in_indexed. split; [lia|]. rewrite Nat.sub_0_r. exact Hn.
Qed.

(* a stream whose infos all fit is stored with all of them *)
Lemma thread_of_all_infos : forall avail alloc i s,
  156 + infos_sz (s_infos s) < avail -> t_infos (thread_of avail alloc i s) = s_infos s.
Proof. intros. unfold thread_of. cbn [t_infos]. apply kept_infos_all_when_fit. assumption. Qed.
