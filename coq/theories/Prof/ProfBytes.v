(* Byte-level lemmas for the trace-format model: little-endian integers,
   prefixes/suffixes of known length, C strings, the offset map. *)
From PV Require Import Base.Tac Prof.ProfDefs.
From Coq Require Import NArith.
Local Open Scope N_scope.

Lemma length_le : forall k n, length (le k n) = k.
Proof. induction k as [|k IH]; intros n; cbn [le length]; auto. Qed.

Lemma unle_le : forall k n, n < 256 ^ N.of_nat k -> unle (le k n) = n.
Proof.
  induction k as [|k IH]; intros n Hn.
  - cbn in *. lia.
  - cbn [le unle]. rewrite IH.
    + pose proof (N.div_mod n 256 ltac:(lia)) as Hd. lia.
    + rewrite Nat2N.inj_succ, N.pow_succ_r' in Hn.
      apply N.div_lt_upper_bound; lia.
Qed.

Lemma firstn_app_len {A} : forall n (a b : list A), length a = n -> firstn n (a ++ b) = a.
Proof.
  intros n a b <-. rewrite firstn_app, Nat.sub_diag, firstn_all. cbn. apply app_nil_r.
Qed.
Lemma skipn_app_len {A} : forall n (a b : list A), length a = n -> skipn n (a ++ b) = b.
Proof.
  intros n a b <-. rewrite skipn_app, Nat.sub_diag, skipn_all. reflexivity.
Qed.
Lemma skipn_app_ge {A} : forall n (a b : list A), (length a <= n)%nat -> skipn n (a ++ b) = skipn (n - length a) b.
Proof.
  intros n a b Hl. rewrite skipn_app. rewrite (skipn_all2 a) by lia. reflexivity.
Qed.
Lemma skipn_app_lt {A} : forall n (a b : list A), (n <= length a)%nat -> skipn n (a ++ b) = skipn n a ++ b.
Proof.
  intros n a b Hl. rewrite skipn_app. replace (n - length a)%nat with O by lia. reflexivity.
Qed.

(* reading a k-byte field that sits at the front *)
Lemma unle_field : forall k n r, n < 256 ^ N.of_nat k -> unle (firstn k (le k n ++ r)) = n.
Proof. intros k n r Hn. rewrite firstn_app_len by apply length_le. apply unle_le, Hn. Qed.
Lemma skip_field : forall k n r, skipn k (le k n ++ r) = r.
Proof. intros. apply skipn_app_len, length_le. Qed.

(* ---- C strings ---- *)
Definition nonul (s : list N) : Prop := Forall (fun b => b <> 0) s.
Lemma cstr_app_nul : forall s r, nonul s -> cstr (s ++ 0 :: r) = s.
Proof.
  induction s as [|b s IH]; intros r Hs; cbn [cstr app].
  - reflexivity.
  - inversion Hs as [|? ? Hb Hs']; subst. destruct (b =? 0) eqn:E.
    + apply N.eqb_eq in E. contradiction.
    + f_equal. apply IH, Hs'.
Qed.
Lemma nonul_firstn : forall n s, nonul s -> nonul (firstn n s).
Proof. intros n s Hs. unfold nonul in *. rewrite Forall_forall in *. intros x Hx. apply Hs. eapply In_firstn; eauto using firstn_subset. Unshelve. Abort.
