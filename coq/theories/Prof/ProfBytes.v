(* Byte-level lemmas for the trace-format model: little-endian integers,
   prefixes/suffixes of known length, C strings, the offset map. *)
From PV Require Import Base.Tac Prof.ProfDefs.
From Coq Require Import NArith.
Local Open Scope N_scope.

Lemma length_le : forall k n, length (le k n) = k.
Proof. induction k as [|k IH]; intros n; cbn [le length]; auto. Qed.

Lemma unle_le : forall k n, n < 256 ^ N.of_nat k -> unle (le k n) = n.
Proof.
  induction k as [|k IH]; intros n Hn.
  - cbn in *. lia.
  - cbn [le unle]. rewrite IH.
    + pose proof (N.div_mod n 256 ltac:(lia)) as Hd. lia.
    + rewrite Nat2N.inj_succ, N.pow_succ_r' in Hn.
      apply N.div_lt_upper_bound; lia.
Qed.

Lemma firstn_app_len {A} : forall n (a b : list A), length a = n -> firstn n (a ++ b) = a.
Proof.
  intros n a b <-. rewrite firstn_app, Nat.sub_diag, firstn_all. cbn. apply app_nil_r.
Qed.
Lemma skipn_app_len {A} : forall n (a b : list A), length a = n -> skipn n (a ++ b) = b.
Proof.
  intros n a b <-. rewrite skipn_app, Nat.sub_diag, skipn_all. reflexivity.
Qed.
Lemma skipn_app_ge {A} : forall n (a b : list A), (length a <= n)%nat -> skipn n (a ++ b) = skipn (n - length a) b.
Proof.
  intros n a b Hl. rewrite skipn_app. rewrite (skipn_all2 a) by lia. reflexivity.
Qed.
Lemma skipn_app_lt {A} : forall n (a b : list A), (n <= length a)%nat -> skipn n (a ++ b) = skipn n a ++ b.
Proof.
  intros n a b Hl. rewrite skipn_app. replace (n - length a)%nat with O by lia. reflexivity.
Qed.

(* reading a k-byte field that sits at the front *)
Lemma unle_field : forall k n r, n < 256 ^ N.of_nat k -> unle (firstn k (le k n ++ r)) = n.
Proof. intros k n r Hn. rewrite firstn_app_len by apply length_le. apply unle_le, Hn. Qed.
Lemma skip_field : forall k n r, skipn k (le k n ++ r) = r.
Proof. intros. apply skipn_app_len, length_le. Qed.

(* ---- C strings ---- *)
Definition nonul (s : list N) : Prop := Forall (fun b => b <> 0) s.
Lemma cstr_app_nul : forall s r, nonul s -> cstr (s ++ 0 :: r) = s.
Proof.
  induction s as [|b s IH]; intros r Hs; cbn [cstr app].
  - reflexivity.
  - inversion Hs as [|? ? Hb Hs']; subst. destruct (b =? 0) eqn:E.
    + apply N.eqb_eq in E. contradiction.
    + f_equal. apply IH, Hs'.
Qed.
Lemma nonul_firstn : forall n s, nonul s -> nonul (firstn n s).
Proof.
  induction n as [|n IH]; intros s Hs; destruct s as [|b s]; cbn [firstn]; try constructor.
  - inversion Hs; auto.
  - apply IH. inversion Hs; auto.
Qed.
Lemma nonul_skipn : forall n s, nonul s -> nonul (skipn n s).
Proof.
  induction n as [|n IH]; intros s Hs; destruct s as [|b s]; cbn [skipn]; auto.
  apply IH. inversion Hs; auto.
Qed.
Lemma firstn_repeat0 : forall n m, (n <= m)%nat -> firstn n (repeat 0 m) = repeat 0 n.
Proof.
  induction n as [|n IH]; intros m Hm; cbn [firstn repeat]; auto.
  destruct m as [|m]; [lia|]. cbn [repeat]. f_equal. apply IH. lia.
Qed.
(* a string stored in a field wider than itself, read back within the field *)
Lemma cstr_padz_field : forall w s r, nonul s -> (length s < w)%nat -> cstr (firstn w (padz w s ++ r)) = s.
Proof.
  intros w s r Hs Hl. unfold padz.
  rewrite firstn_app_len by (rewrite app_length, repeat_length; lia).
  replace (w - length s)%nat with (S (w - length s - 1)) by lia. cbn [repeat].
  apply cstr_app_nul, Hs.
Qed.
Lemma cstr_padz : forall w s r, nonul s -> (length s < w)%nat -> cstr (padz w s ++ r) = s.
Proof.
  intros w s r Hs Hl. unfold padz.
  replace (w - length s)%nat with (S (w - length s - 1)) by lia. cbn [repeat].
  rewrite <- app_assoc. cbn [app]. apply cstr_app_nul, Hs.
Qed.
Lemma length_padz : forall w s, (length s <= w)%nat -> length (padz w s) = w.
Proof. intros. unfold padz. rewrite app_length, repeat_length. lia. Qed.

(* ---- the offset map ---- *)
Lemma lookup_in : forall l k v,
  In (k, v) l -> (forall v', In (k, v') l -> v' = v) -> lookup k l = Some v.
Proof.
  induction l as [|[k0 v0] l IH]; intros k v Hin Hf; cbn [lookup].
  - destruct Hin.
  - destruct (k0 =? k) eqn:E.
    + apply N.eqb_eq in E; subst. f_equal. apply Hf. left; reflexivity.
    + apply IH.
      * destruct Hin as [H|H]; [inversion H; subst; rewrite N.eqb_refl in E; discriminate|exact H].
      * intros v' Hv'. apply Hf. right; exact Hv'.
Qed.
