(* Executable model of the PaRSEC binary trace format (C42), NO proofs.

   Writer:  parsec/profiling.c  (parsec_profiling_trace_flags_info_fn,
            switch_event_buffer, write_down_existing_buffer, dump_dictionary,
            dump_thread, parsec_profiling_dbp_dump)
   Layout:  parsec/parsec_binary_profile.h
   Reader:  tools/profiling/dbpreader.c (event iterator, read_dictionary,
            read_threads, read_thread_infos)

   Bytes are [N] (payload bytes are only copied, never interpreted); integers
   are little-endian (x86-64, the reader refuses another byte order).  A file is
   a partial map from file offsets to buffers of [25 + avail] bytes, where
   avail = event_avail_space = event_buffer_size - offsetof(buffer).  The
   offsets at which buffers land are chosen by find_free_segment (a shared
   counter, advanced by the I/O helper thread when it recycles a buffer): the
   model takes them from an arbitrary allocation function [alloc : nat -> N]
   (j-th buffer of a chain); the theorems only need it to be injective.

   Outside the model: the file header (magic, byte order, buffer size, the
   three entry offsets and counts are inputs of [decode]), the global key/value
   infos, the merge of the files of several ranks (dico_map), mmap/write/
   ftruncate and the helper thread. *)
From Coq Require Import NArith ZArith List Bool.
Import ListNotations.
Local Open Scope N_scope.

(* ---------- little-endian integers, C strings ---------------------------- *)
Fixpoint le (k : nat) (n : N) : list N :=
  match k with O => [] | S k' => (n mod 256) :: le k' (n / 256) end.
Fixpoint unle (l : list N) : N :=
  match l with [] => 0 | b :: r => b + 256 * unle r end.
(* bytes up to the first NUL (strlen / strcpy view of a char array) *)
Fixpoint cstr (l : list N) : list N :=
  match l with [] => [] | b :: r => if b =? 0 then [] else b :: cstr r end.
(* strncpy(dst, src, n) into a zero-filled field of [w] bytes *)
Definition padz (w : nat) (l : list N) : list N := l ++ repeat 0 (w - length l).

Definition NOOFF : N := 18446744073709551615.        (* (off_t)-1 *)
Definition HDR : nat := 25.                          (* offsetof(parsec_profiling_buffer_t, buffer) *)
Definition BT_EVENTS : N := 1.
Definition BT_DICT : N := 2.
Definition BT_THREAD : N := 3.

(* ---------- START_KEY / END_KEY / BASE_KEY ------------------------------- *)
Definition start_key (k : N) : N := 2 * k.           (* ((key) << 1) + 0 *)
Definition end_key (k : N) : N := 2 * k + 1.         (* ((key) << 1) + 1 *)
Definition base_key (key : N) : N := key / 2.        (* (key) >> 1 *)
Definition key_of (k : N) (is_end : bool) : N := if is_end then end_key k else start_key k.
Definition key_is_end (key : N) : bool := key =? end_key (base_key key).
Definition key_is_start (key : N) : bool := key =? start_key (base_key key).

(* ---------- dictionary ---------------------------------------------------- *)
Record kent := mk_kent { k_name : list N; k_attr : list N; k_conv : list N; k_ilen : N }.
(* info length of the dictionary entry an event key refers to
   (parsec_prof_keys[BASE_KEY(key)].info_length, dico_keys[..].keylen) *)
Definition ilen_of (il : list N) (key : N) : N := nth (N.to_nat (base_key key)) il 0.

(* ---------- events -------------------------------------------------------- *)
Record event := mk_event {
  e_key : N; e_flags : N; e_tp : N; e_id : N; e_ts : N;
  e_info : option (list N) }.          (* None: info pointer (or info_fn) was NULL *)

(* one call of parsec_profiling_trace_flags_info_fn, and the record it logs *)
Record call := mk_call { c_key : N; c_id : N; c_tp : N; c_info : option (list N); c_flags : N }.
Definition log_event (c : call) (ts : N) : event :=
  mk_event (c_key c mod 65536)                                       (* (uint16_t)key *)
           (N.lor (match c_info c with Some _ => 1 | None => 0 end)  (* PARSEC_PROFILING_EVENT_HAS_INFO *)
                  (N.land (c_flags c mod 65536) 65534))              (* flags |= (flags & ~HAS_INFO) *)
           (c_tp c mod 4294967296) (c_id c mod 18446744073709551616) (ts mod 18446744073709551616)
           (c_info c).
(* before the repair 27f62af the caller's HAS_INFO bit was kept: flags |= flags *)
Definition log_event_prefix (c : call) (ts : N) : event :=
  mk_event (c_key c mod 65536)
           (N.lor (match c_info c with Some _ => 1 | None => 0 end) (c_flags c mod 65536))
           (c_tp c mod 4294967296) (c_id c mod 18446744073709551616) (ts mod 18446744073709551616)
           (c_info c).

(* EVENT_LENGTH(key, has_info): decided by the presence of the info pointer *)
Definition ev_len (il : list N) (e : event) : N :=
  24 + match e_info e with Some _ => ilen_of il (e_key e) | None => 0 end.
(* parsec_profiling_output_t: key, flags, taskpool_id, event_id, timestamp, info bytes *)
Definition ser_event (e : event) : list N :=
  le 2 (e_key e) ++ le 2 (e_flags e) ++ le 4 (e_tp e) ++ le 8 (e_id e) ++ le 8 (e_ts e)
  ++ match e_info e with Some bs => bs | None => [] end.

(* ---------- buffers -------------------------------------------------------- *)
(* parsec_profiling_buffer_t as it reaches the file: this offset, next offset,
   entry count, type, payload, then zeros (write_down_existing_buffer memsets
   the unused tail) *)
Definition ser_buffer (avail : N) (this next nb btype : N) (pay : list N) : list N :=
  le 8 this ++ le 8 next ++ le 8 nb ++ [btype] ++ pay ++ repeat 0 (N.to_nat avail - length pay).
Definition b_next (buf : list N) : N := unle (firstn 8 (skipn 8 buf)).
Definition b_nb (buf : list N) : N := unle (firstn 8 (skipn 16 buf)).
Definition b_pay (buf : list N) : list N := skipn HDR buf.

(* ---------- the buffered writer (shared by events, dictionary, threads) ---- *)
Section Writer.
  Context {A : Type}.
  Variable len : A -> N.             (* bytes the entry advances the position by *)
  Variable ser : A -> list N.        (* bytes stored at the position *)
  Variable strict : bool.            (* true:  switch when pos + len >  avail (events)
                                        false: switch when pos + len >= avail (dictionary, threads) *)
  Variable avail : N.
  Variable btype : N.
  Variable alloc : nat -> N.         (* file offset of the j-th buffer of this chain *)

  Record wst := mk_wst {
    w_idx : nat;                     (* current buffer is the w_idx-th of the chain *)
    w_pos : N;                       (* next_event_position / pos *)
    w_nb : N;                        (* this_buffer.nb_* of the current buffer *)
    w_pay : list N;                  (* payload written so far in the current buffer *)
    w_out : list (N * list N) }.     (* buffers already sent to the file: (offset, bytes) *)
  Definition w_init : wst := mk_wst 0 0 0 [] [].
  Definition overflows (pos l : N) : bool :=
    if strict then avail <? pos + l else avail <=? pos + l.
  (* switch_event_buffer: the old buffer points to the new one and is written down *)
  Definition w_switch (st : wst) : wst :=
    mk_wst (S (w_idx st)) 0 0 []
      (w_out st ++ [(alloc (w_idx st),
                     ser_buffer avail (alloc (w_idx st)) (alloc (S (w_idx st))) (w_nb st) btype (w_pay st))]).
  Definition w_put (st : wst) (x : A) : wst :=
    let st1 := if overflows (w_pos st) (len x) then w_switch st else st in
    mk_wst (w_idx st1) (w_pos st1 + len x) (w_nb st1 + 1) (w_pay st1 ++ ser x) (w_out st1).
  (* last buffer of the chain: next offset stays (off_t)-1 *)
  Definition w_flush (st : wst) : list (N * list N) :=
    w_out st ++ [(alloc (w_idx st), ser_buffer avail (alloc (w_idx st)) NOOFF (w_nb st) btype (w_pay st))].
  Definition w_run (xs : list A) : wst := fold_left w_put xs w_init.
End Writer.

(* events of one stream: parsec_profiling_dbp_dump flushes the current buffer
   only when something was written into it *)
Definition enc_events (il : list N) (avail : N) (alloc : nat -> N) (evs : list event) : list (N * list N) :=
  let st := w_run (ev_len il) ser_event true avail BT_EVENTS alloc evs in
  if w_pos st =? 0 then w_out st else w_flush avail BT_EVENTS alloc st.
(* dictionary / thread table: entries are byte strings, the last buffer is always written *)
Definition enc_table (avail btype : N) (alloc : nat -> N) (xs : list (list N)) : list (N * list N) :=
  w_flush avail btype alloc
          (w_run (fun x => N.of_nat (length x)) (fun x => x) false avail btype alloc xs).

(* parsec_profiling_key_buffer_t: name[64], attributes[128], convertor length,
   info length, convertor bytes; the position advances by sizeof - 1 + cs = 203 + cs *)
Definition ser_key (k : kent) : list N :=
  padz 64 (firstn 63 (k_name k)) ++ padz 128 (firstn 127 (k_attr k))
  ++ le 4 (N.of_nat (length (k_conv k))) ++ le 4 (k_ilen k) ++ k_conv k ++ [0; 0; 0].

(* parsec_profiling_info_buffer_t inside a thread entry: advances by ks + vs + 11 *)
Definition ser_info (kv : list N * list N) : list N :=
  le 4 (N.of_nat (length (fst kv))) ++ le 4 (N.of_nat (length (snd kv))) ++ fst kv ++ snd kv ++ [0; 0; 0].
Record thread := mk_thread { t_hr : list N; t_nbev : N; t_first : N; t_infos : list (list N * list N) }.
(* parsec_profiling_stream_buffer_t: next_thread_offset (never set), nb_events,
   hr_id[128], first_events_buffer_offset, nb_infos, infos *)
Definition ser_thread (t : thread) : list N :=
  le 8 0 ++ le 8 (t_nbev t) ++ padz 128 (firstn 127 (t_hr t)) ++ le 8 (t_first t)
  ++ le 4 (N.of_nat (length (t_infos t))) ++ concat (map ser_info (t_infos t)).

(* a whole profile: dictionary and streams (hr_id, infos, events) *)
Record stream := mk_stream { s_hr : list N; s_infos : list (list N * list N); s_events : list event }.
Definition has_events (s : stream) : bool := match s_events s with [] => false | _ => true end.

(* dump_thread (after the repair 54d29e4): an info that does not fit the space
   left in the thread buffer is skipped, the others are copied.  thread_size()
   makes the same choice with the entry placed at the start of a buffer (same
   test >= since the repair 73717d1, so thread_size < avail), and the entry is
   moved to a fresh buffer when pos + thread_size >= avail: the infos kept do
   not depend on the position of the entry (ProfDump.kept_position_independent),
   so the model computes them at position 0. *)
Definition info_sz (kv : list N * list N) : N := N.of_nat (length (fst kv) + length (snd kv) + 11).
Fixpoint thread_size_from (avail s : N) (infos : list (list N * list N)) : N :=
  match infos with
  | [] => s
  | kv :: r => if avail <=? s + info_sz kv then thread_size_from avail s r
               else thread_size_from avail (s + info_sz kv) r
  end.
Fixpoint kept_from (avail pos : N) (infos : list (list N * list N)) : list (list N * list N) :=
  match infos with
  | [] => []
  | kv :: r => if avail <=? pos + info_sz kv then kept_from avail pos r
               else kv :: kept_from avail (pos + info_sz kv) r
  end.
Definition kept_infos (avail : N) (infos : list (list N * list N)) : list (list N * list N) :=
  kept_from avail 156 infos.
(* thread_size() warned about an info: parsec_profiling_dbp_dump returns PARSEC_ERROR (the file is complete) *)
Definition omits (avail : N) (infos : list (list N * list N)) : bool :=
  negb (Nat.eqb (length (kept_infos avail infos)) (length infos)).

(* chains: 0 = dictionary, 1 = thread table, 2+i = events of stream i *)
Definition thread_of (avail : N) (alloc : nat -> nat -> N) (i : nat) (s : stream) : thread :=
  mk_thread (s_hr s) (N.of_nat (length (s_events s))) (alloc (2 + i)%nat 0%nat) (kept_infos avail (s_infos s)).
Fixpoint indexed {A} (i : nat) (l : list A) : list (nat * A) :=
  match l with [] => [] | x :: r => (i, x) :: indexed (S i) r end.
Definition encode (avail : N) (alloc : nat -> nat -> N) (d : list kent) (ss : list stream) : list (N * list N) :=
  let il := map k_ilen d in
  enc_table avail BT_DICT (alloc 0%nat) (map ser_key d)
  (* dump_thread: "We don't store threads with no events at all" *)
  ++ enc_table avail BT_THREAD (alloc 1%nat)
       (map (fun p => ser_thread (thread_of avail alloc (fst p) (snd p)))
            (filter (fun p => has_events (snd p)) (indexed 0 ss)))
  ++ concat (map (fun p => enc_events il avail (alloc (2 + fst p)%nat) (s_events (snd p))) (indexed 0 ss)).

(* the file as the reader sees it: refer_events_buffer(offset) *)
Fixpoint lookup (off : N) (l : list (N * list N)) : option (list N) :=
  match l with [] => None | (k, v) :: r => if k =? off then Some v else lookup off r end.

(* ---------- the reader ------------------------------------------------------ *)
(* DBP_EVENT_LENGTH: decided by the HAS_INFO bit of the stored flags *)
Fixpoint parse_events (il : list N) (n : nat) (bs : list N) : list event :=
  match n with
  | O => []
  | S n' =>
      let key := unle (firstn 2 bs) in let r1 := skipn 2 bs in
      let fl := unle (firstn 2 r1) in let r2 := skipn 2 r1 in
      let tp := unle (firstn 4 r2) in let r3 := skipn 4 r2 in
      let id := unle (firstn 8 r3) in let r4 := skipn 8 r3 in
      let ts := unle (firstn 8 r4) in let r5 := skipn 8 r4 in
      let has := N.testbit fl 0 in
      let n_info := if has then N.to_nat (ilen_of il key) else O in
      mk_event key fl tp id ts (if has then Some (firstn n_info r5) else None)
      :: parse_events il n' (skipn n_info r5)
  end.

(* dbp_iterator_first / dbp_iterator_next: all events of a buffer, then the
   buffer at next_buffer_file_offset until it is -1 (or cannot be read).  The
   iterator delivers the first event of every buffer it enters without looking
   at nb_events, hence max 1. *)
Fixpoint dec_chain (fuel : nat) (file : N -> option (list N)) (il : list N) (off : N) : list event :=
  match fuel with
  | O => []
  | S f =>
      if off =? NOOFF then []
      else match file off with
           | None => []
           | Some buf =>
               parse_events il (Nat.max 1 (N.to_nat (b_nb buf))) (b_pay buf)
               ++ dec_chain f file il (b_next buf)
           end
  end.

(* read_dictionary / read_threads: [n] entries in total, [nbthis] left in the
   current buffer (an int: a buffer announcing 0 entries is never left) *)
Section Table.
  Context {V : Type}.
  Variable parse1 : list N -> V * nat.     (* entry at the position: value, advance *)
  Variable file : N -> option (list N).
  Fixpoint dec_table (n : nat) (buf : list N) (pos : nat) (nbthis : Z) : option (list V) :=
    match n with
    | O => Some []
    | S n' =>
        let (v, adv) := parse1 (skipn pos (b_pay buf)) in
        let nbthis' := (nbthis - 1)%Z in
        let rest :=
          if negb (Nat.eqb n' 0) && (nbthis' =? 0)%Z then
            match file (b_next buf) with
            | None => None                                 (* "Dictionary broken" / "Profile file broken" *)
            | Some b' => dec_table n' b' 0 (Z.of_N (b_nb b'))
            end
          else dec_table n' buf (pos + adv) nbthis' in
        match rest with None => None | Some l => Some (v :: l) end
    end.
End Table.

(* what the reader keeps of a dictionary entry: name (strncpy 64), the last 6
   characters of the attributes (a->attributes + strlen(a->attributes) - 6), the
   convertor bytes, the info length *)
Definition parse_key (ent : list N) : kent * nat :=
  let name := cstr (firstn 64 ent) in
  let alen := length (cstr (skipn 64 ent)) in
  let attr := cstr (firstn 128 (skipn (64 + alen - 6) ent)) in
  let cs := N.to_nat (unle (firstn 4 (skipn 192 ent))) in
  let il := unle (firstn 4 (skipn 196 ent)) in
  (mk_kent name attr (firstn cs (skipn 200 ent)) il, (203 + cs)%nat).
Definition key_view (k : kent) : kent :=
  let a := firstn 127 (k_attr k) in
  mk_kent (firstn 63 (k_name k)) (skipn (length a - 6) a) (k_conv k) (k_ilen k).

(* read_thread_infos *)
Fixpoint parse_infos (n : nat) (bs : list N) : list (list N * list N) * nat :=
  match n with
  | O => ([], O)
  | S n' =>
      let ks := N.to_nat (unle (firstn 4 bs)) in
      let vs := N.to_nat (unle (firstn 4 (skipn 4 bs))) in
      let adv := (ks + vs + 11)%nat in
      let (l, a) := parse_infos n' (skipn adv bs) in
      ((firstn ks (skipn 8 bs), firstn vs (skipn (8 + ks) bs)) :: l, (adv + a)%nat)
  end.
Definition parse_thread (ent : list N) : thread * nat :=
  let nbev := unle (firstn 8 (skipn 8 ent)) in
  let hr := cstr (firstn 128 (skipn 16 ent)) in
  let first := unle (firstn 8 (skipn 144 ent)) in
  let ni := N.to_nat (unle (firstn 4 (skipn 152 ent))) in
  let (infos, a) := parse_infos ni (skipn 156 ent) in
  (mk_thread hr nbev first infos, (156 + a)%nat).
Definition thread_view (t : thread) : thread :=
  mk_thread (firstn 127 (t_hr t)) (t_nbev t) (t_first t) (t_infos t).

(* open_files after the header was read: dictionary at [doff] with [dn]
   entries, thread table at [toff] with [tn] entries, then the events of every
   thread through its first_events_buffer_offset *)
Definition decode (fuel : nat) (file : N -> option (list N)) (doff : N) (dn : nat) (toff : N) (tn : nat)
  : option (list kent * list (thread * list event)) :=
  match file doff with
  | None => None
  | Some db =>
      match dec_table parse_key file dn db 0 (Z.of_N (b_nb db)) with
      | None => None
      | Some keys =>
          match file toff with
          | None => None
          | Some tb =>
              match dec_table parse_thread file tn tb 0 (Z.of_N (b_nb tb)) with
              | None => None
              | Some ths =>
                  let il := map k_ilen keys in
                  Some (keys, map (fun t => (t, dec_chain fuel file il (t_first t))) ths)
              end
          end
      end
  end.

(* ---------- several files: the merged dictionary of the reader ----------------
   read_dictionary keeps one dictionary for all the files it opens: an entry of a
   file that has the info length, the name and the convertor of an entry already
   known (of the same file or of an earlier one) is not added again; dico_map
   translates the local index of the file into the index of the merged
   dictionary, and every later lookup (DBP_EVENT_LENGTH, dbp_event_info_len,
   dbp_file_get_dictionary) goes through it. *)
Fixpoint bytes_eqb (a b : list N) : bool :=
  match a, b with
  | [], [] => true
  | x :: a', y :: b' => (x =? y) && bytes_eqb a' b'
  | _, _ => false
  end.
Definition key_eqb (a b : kent) : bool :=
  (k_ilen a =? k_ilen b) && bytes_eqb (k_name a) (k_name b) && bytes_eqb (cstr (k_conv a)) (cstr (k_conv b)).
Fixpoint find_key (k : kent) (m : list kent) (i : nat) : nat :=
  match m with [] => i | x :: r => if key_eqb k x then i else find_key k r (S i) end.
Definition merge_one (st : list kent * list nat) (k : kent) : list kent * list nat :=
  let i := find_key k (fst st) 0 in
  (if Nat.eqb i (length (fst st)) then fst st ++ [k] else fst st, snd st ++ [i]).
Definition merge_file (m : list kent) (local : list kent) : list kent * list nat :=
  fold_left merge_one local (m, []).
Fixpoint merge_files (m : list kent) (files : list (list kent)) : list kent * list (list nat) :=
  match files with
  | [] => (m, [])
  | l :: r => let (m1, mp) := merge_file m l in
              let (m2, mps) := merge_files m1 r in (m2, mp :: mps)
  end.
Definition kent0 : kent := mk_kent [] [] [] 0.
(* the dictionary of a file as the reader presents it: dbp_file_get_dictionary(file, j) *)
Definition presented (merged : list kent) (mp : list nat) : list kent := map (fun i => nth i merged kent0) mp.

(* [decode] in two steps, the dictionary used for the events being a parameter *)
Definition decode_keys (file : N -> option (list N)) (doff : N) (dn : nat) : option (list kent) :=
  match file doff with
  | None => None
  | Some db => dec_table parse_key file dn db 0 (Z.of_N (b_nb db))
  end.
Definition decode_rest (fuel : nat) (file : N -> option (list N)) (toff : N) (tn : nat) (keys : list kent)
  : option (list (thread * list event)) :=
  match file toff with
  | None => None
  | Some tb =>
      match dec_table parse_thread file tn tb 0 (Z.of_N (b_nb tb)) with
      | None => None
      | Some ths => Some (map (fun t => (t, dec_chain fuel file (map k_ilen keys) (t_first t))) ths)
      end
  end.

(* what a faithful read-back of a profile is *)
Definition profile_view (avail : N) (alloc : nat -> nat -> N) (d : list kent) (ss : list stream)
  : list kent * list (thread * list event) :=
  (map key_view d,
   map (fun p => (thread_view (thread_of avail alloc (fst p) (snd p)), s_events (snd p)))
       (filter (fun p => has_events (snd p)) (indexed 0 ss))).

(* ---------- dump_thread before the repair 54d29e4 ----------------------------
   the copy loop did `continue` without advancing when an info did not fit: it
   never returned.  [None] / [false] = parsec_profiling_dbp_dump does not terminate. *)
Fixpoint thread_size_prefix (avail s : N) (infos : list (list N * list N)) : N :=      (* test > before 73717d1 *)
  match infos with
  | [] => s
  | kv :: r => if avail <? s + info_sz kv then thread_size_prefix avail s r
               else thread_size_prefix avail (s + info_sz kv) r
  end.
Fixpoint copy_infos_prefix (avail pos : N) (infos : list (list N * list N)) : option N :=
  match infos with
  | [] => Some pos
  | kv :: r => if avail <=? pos + info_sz kv then None else copy_infos_prefix avail (pos + info_sz kv) r
  end.
Fixpoint dump_threads_prefix (avail pos : N) (ths : list (list (list N * list N))) : bool :=
  match ths with
  | [] => true
  | infos :: r =>
      let sz := thread_size_prefix avail 156 infos in
      let pos1 := if avail <=? pos + sz then 0 else pos in          (* next thread buffer *)
      match copy_infos_prefix avail (pos1 + 156) infos with
      | None => false
      | Some p => dump_threads_prefix avail p r
      end
  end.
Definition dump_terminates_prefix (avail : N) (ss : list stream) : bool :=
  dump_threads_prefix avail 0 (map s_infos (filter has_events ss)).

(* a global trace: calls of several streams interleaved in time *)
Definition proj (s : nat) (tr : list (nat * event)) : list event :=
  map snd (filter (fun p => Nat.eqb (fst p) s) tr).
