(* Count-driven tables (dictionary, thread table): the walk of the reader along
   a chain of buffers, and the read-back of one dictionary entry and of one
   thread-table entry. *)
From PV Require Import Base.Tac Prof.ProfDefs Prof.ProfBytes Prof.ProfWriter Prof.ProfEvents.
From Coq Require Import NArith.
Local Open Scope N_scope.

(* ---- auxiliary list facts ---- *)
Lemma length_flat_id_snoc : forall (pre : list (list N)) x,
  length (flat (fun y : list N => y) (pre ++ [x])) = (length (flat (fun y : list N => y) pre) + length x)%nat.
Proof.
  intros pre x. rewrite flat_app, app_length. unfold flat at 2. cbn [flat_map].
  rewrite app_nil_r. reflexivity.
Qed.

Lemma concat_nil_length {A} : forall (l : list (list A)), length (concat l) = O -> concat l = [].
Proof. intros l Hl. destruct (concat l); [reflexivity|cbn [length] in Hl; lia]. Qed.

(* 1. walk of a count-driven table (dictionary, thread table) along a chain of buffers *)
Section TableChain.
  Context {V : Type}.
  Variable parse1 : list N -> V * nat.
  Variable vw : list N -> V.
  Variable avail : N.
  Variable bt : N.
  Variable alloc : nat -> N.
  Variable cs : list (list (list N)).          (* chunks of entries; an entry is its byte string *)
  Variable file : N -> option (list N).
  Hypothesis Halloc : forall j, alloc j < NOOFF.
  Hypothesis Hfile : forall j, (j < length cs)%nat ->
    file (alloc j) = Some (cbuf (fun x : list N => x) avail bt (next_of alloc (length cs) j) (nth j cs []) (alloc j)).
  Hypothesis Hcs : Forall (fun c => c <> [] /\ N.of_nat (length c) < 18446744073709551616) cs.
  Hypothesis Hparse : forall x, In x (concat cs) -> forall rest, parse1 (x ++ rest) = (vw x, length x).

  Let buf (j : nat) : list N :=
    cbuf (fun x : list N => x) avail bt (next_of alloc (length cs) j) (nth j cs []) (alloc j).

  Lemma chunk_props : forall j, (j < length cs)%nat ->
    nth j cs [] <> [] /\ N.of_nat (length (nth j cs [])) < 18446744073709551616.
  Proof.
    intros j Hj. rewrite Forall_forall in Hcs. apply Hcs. apply nth_In. exact Hj.
  Qed.

  Lemma skipn_S_nonempty : forall j, length (concat (skipn (S j) cs)) <> O -> (S j < length cs)%nat.
  Proof.
    intros j Hne. destruct (Nat.lt_ge_cases (S j) (length cs)) as [Hlt|Hge]; [exact Hlt|].
    rewrite skipn_all2 in Hne by exact Hge. cbn in Hne. contradiction.
  Qed.

  Lemma dec_table_from : forall n j pre post,
    (j < length cs)%nat -> nth j cs [] = pre ++ post -> post <> [] ->
    n = (length post + length (concat (skipn (S j) cs)))%nat ->
    dec_table parse1 file n (buf j) (length (flat (fun x : list N => x) pre)) (Z.of_nat (length post))
    = Some (map vw (post ++ concat (skipn (S j) cs))).
  Proof.
    induction n as [|n IH]; intros j pre post Hj Hsplit Hpost Hn.
    - destruct post as [|x post']; [contradiction|cbn [length] in Hn; lia].
    - destruct post as [|x post']; [contradiction|]. clear Hpost.
      cbn [length] in Hn.
      assert (Hn' : n = (length post' + length (concat (skipn (S j) cs)))%nat) by lia. clear Hn.
      cbn [dec_table].
      (* the entry at the position *)
      assert (Hpay : skipn (length (flat (fun y : list N => y) pre)) (b_pay (buf j)) =
                     x ++ (flat (fun y : list N => y) post'
                           ++ repeat 0 (N.to_nat avail - length (flat (fun y : list N => y) (nth j cs [])))) ).
      { unfold buf, cbuf. rewrite b_pay_ser. rewrite Hsplit at 1.
        rewrite flat_app. rewrite <- app_assoc. rewrite skipn_app_len by reflexivity.
        unfold flat at 1. cbn [flat_map]. fold (flat (fun y : list N => y) post').
        rewrite <- app_assoc. reflexivity. }
      rewrite Hpay.
      assert (Hin : In x (concat cs)).
      { apply in_concat. exists (nth j cs []). split; [apply nth_In; exact Hj|].
        rewrite Hsplit. apply in_or_app. right. left. reflexivity. }
      rewrite (Hparse x Hin). cbv beta iota.
      destruct post' as [|y post''].
      + (* last entry of this buffer *)
        cbn [length] in *. cbn [Nat.add] in Hn'.
        replace (Z.of_nat 1 - 1)%Z with 0%Z by lia. cbn [Z.eqb].
        destruct (Nat.eqb n 0) eqn:En.
        * (* and of the table *)
          apply Nat.eqb_eq in En. subst n. cbn [negb andb dec_table].
          rewrite (concat_nil_length (skipn (S j) cs)) by lia. reflexivity.
        * apply Nat.eqb_neq in En. cbn [negb andb].
          assert (HSj : (S j < length cs)%nat) by (apply skipn_S_nonempty; lia).
          assert (Hnext : b_next (buf j) = alloc (S j)).
          { unfold buf, cbuf, next_of.
            destruct (Nat.eqb (S j) (length cs)) eqn:E2; [apply Nat.eqb_eq in E2; lia|].
            pose proof (Halloc (S j)) as H1. apply b_next_ser. unfold NOOFF in H1. lia. }
          rewrite Hnext, (Hfile (S j) HSj). fold (buf (S j)).
          destruct (chunk_props (S j) HSj) as [Hne Hlen].
          assert (Hnb : b_nb (buf (S j)) = N.of_nat (length (nth (S j) cs []))).
          { unfold buf, cbuf. apply b_nb_ser. exact Hlen. }
          rewrite Hnb, nat_N_Z.
          assert (Hsk : skipn (S j) cs = nth (S j) cs [] :: skipn (S (S j)) cs)
            by (apply skipn_nth_cons; exact HSj).
          assert (IHs := IH (S j) [] (nth (S j) cs []) HSj eq_refl Hne).
          unfold flat in IHs. cbn [flat_map length] in IHs.
          rewrite IHs.
          -- rewrite Hsk. cbn [concat app map]. reflexivity.
          -- rewrite Hn', Hsk. cbn [concat]. rewrite app_length. reflexivity.
      + (* more entries in this buffer *)
        assert (Hz : ((Z.of_nat (length (x :: y :: post'')) - 1 =? 0)%Z = false)).
        { cbn [length]. lia. }
        rewrite Hz, andb_false_r.
        replace (Z.of_nat (length (x :: y :: post'')) - 1)%Z with (Z.of_nat (length (y :: post'')))
          by (cbn [length]; lia).
        rewrite <- length_flat_id_snoc.
        rewrite (IH j (pre ++ [x]) (y :: post'') Hj).
        * reflexivity.
        * rewrite Hsplit, <- app_assoc. reflexivity.
        * discriminate.
        * exact Hn'.
  Qed.

  Theorem dec_table_emit : forall buf0,
    cs <> [] -> file (alloc 0%nat) = Some buf0 ->
    dec_table parse1 file (length (concat cs)) buf0 0 (Z.of_N (b_nb buf0)) = Some (map vw (concat cs)).
  Proof.
    intros buf0 Hne Hb.
    assert (H0 : (0 < length cs)%nat) by (destruct cs; [contradiction|cbn [length]; lia]).
    rewrite (Hfile 0%nat H0) in Hb. inversion Hb as [Hb']. clear Hb. fold (buf 0%nat).
    destruct (chunk_props 0%nat H0) as [Hc Hlen].
    assert (Hnb : b_nb (buf 0%nat) = N.of_nat (length (nth 0%nat cs []))).
    { unfold buf, cbuf. apply b_nb_ser. exact Hlen. }
    rewrite Hnb, nat_N_Z.
    assert (Hsk : cs = nth 0%nat cs [] :: skipn 1 cs).
    { rewrite <- (skipn_nth_cons cs 0%nat []) by exact H0. reflexivity. }
    assert (Hcc : concat cs = nth 0%nat cs [] ++ concat (skipn 1 cs)).
    { rewrite Hsk at 1. reflexivity. }
    assert (Hd := dec_table_from (length (concat cs)) 0%nat [] (nth 0%nat cs []) H0 eq_refl Hc).
    unfold flat in Hd. cbn [flat_map length] in Hd.
    rewrite Hd.
    - rewrite Hcc. reflexivity.
    - rewrite Hcc, app_length. reflexivity.
  Qed.
End TableChain.

(* ---- auxiliary facts on fields ---- *)
(* a NUL-terminated string read within a 128-byte window *)
Lemma cstr_firstn_nul : forall w s r,
  nonul s -> (length s < w)%nat -> cstr (firstn w (s ++ 0 :: r)) = s.
Proof.
  intros w s r Hs Hl. rewrite firstn_app, (firstn_all2 s) by lia.
  replace (w - length s)%nat with (S (w - length s - 1)) by lia. cbn [firstn].
  apply cstr_app_nul, Hs.
Qed.

Lemma length_firstn_le {A} : forall n (l : list A), (length (firstn n l) <= n)%nat.
Proof. intros. apply firstn_le_length. Qed.

Lemma skipn_add {A} : forall n m (l : list A), skipn (n + m) l = skipn m (skipn n l).
Proof.
  induction n as [|n IH]; intros m l; [reflexivity|].
  destruct l as [|x l]; cbn [Nat.add skipn]; [destruct m; reflexivity|apply IH].
Qed.

(* 2. one dictionary entry *)
Definition key_ok (k : kent) : Prop :=
  nonul (k_name k) /\ nonul (k_attr k) /\ (6 <= length (k_attr k))%nat /\
  N.of_nat (length (k_conv k)) < 4294967296 /\ k_ilen k < 4294967296.

Lemma length_ser_key : forall k, length (ser_key k) = (203 + length (k_conv k))%nat.
Proof.
  intros k. unfold ser_key. rewrite !app_length, !length_le.
  rewrite !length_padz by (pose proof (length_firstn_le 63 (k_name k)); pose proof (length_firstn_le 127 (k_attr k)); lia).
  cbn [length]. lia.
Qed.

Lemma parse_key_ser : forall k rest, key_ok k -> parse_key (ser_key k ++ rest) = (key_view k, length (ser_key k)).
Proof.
  intros k rest (Hname & Hattr & Hal & Hcs & Hil).
  rewrite length_ser_key. unfold ser_key, key_view. repeat rewrite <- app_assoc.
  remember (firstn 63 (k_name k)) as nm eqn:Enm.
  remember (firstn 127 (k_attr k)) as a eqn:Ea.
  assert (Hnm : nonul nm) by (subst nm; apply nonul_firstn, Hname).
  assert (Ha : nonul a) by (subst a; apply nonul_firstn, Hattr).
  assert (Hlnm : (length nm <= 63)%nat) by (subst nm; apply firstn_le_length).
  assert (Hla : (6 <= length a <= 127)%nat).
  { subst a. rewrite firstn_length. lia. }
  remember (le 4 (N.of_nat (length (k_conv k))) ++ le 4 (k_ilen k) ++ k_conv k ++ [0; 0; 0] ++ rest) as R eqn:ER.
  unfold parse_key. cbv zeta.
  (* name *)
  rewrite (cstr_padz_field 64 nm) by (try exact Hnm; lia).
  (* strlen of the attributes *)
  assert (H64 : skipn 64 (padz 64 nm ++ padz 128 a ++ R) = padz 128 a ++ R).
  { apply skipn_app_len. apply length_padz. lia. }
  rewrite H64.
  rewrite (cstr_padz 128 a) by (try exact Ha; lia).
  (* the last 6 characters *)
  assert (Hat : skipn (64 + length a - 6) (padz 64 nm ++ padz 128 a ++ R)
                = skipn (length a - 6) a ++ 0 :: (repeat 0 (127 - length a) ++ R)).
  { rewrite skipn_app_ge by (rewrite length_padz; lia). rewrite length_padz by lia.
    replace (64 + length a - 6 - 64)%nat with (length a - 6)%nat by lia.
    unfold padz. rewrite <- app_assoc. rewrite skipn_app_lt by lia.
    replace (128 - length a)%nat with (S (127 - length a)) by lia. cbn [repeat app]. reflexivity. }
  rewrite Hat.
  rewrite cstr_firstn_nul; [|apply nonul_skipn, Ha|rewrite skipn_length; lia].
  (* the fixed-size fields *)
  assert (H192 : skipn 192 (padz 64 nm ++ padz 128 a ++ R) = R).
  { rewrite skipn_app_ge by (rewrite length_padz; lia). rewrite length_padz by lia.
    apply skipn_app_len. apply length_padz. lia. }
  assert (H196 : skipn 196 (padz 64 nm ++ padz 128 a ++ R) = skipn 4 R).
  { rewrite skipn_app_ge by (rewrite length_padz; lia). rewrite length_padz by lia.
    rewrite skipn_app_ge by (rewrite length_padz; lia). rewrite length_padz by lia.
    f_equal. }
  assert (H200 : skipn 200 (padz 64 nm ++ padz 128 a ++ R) = skipn 8 R).
  { rewrite skipn_app_ge by (rewrite length_padz; lia). rewrite length_padz by lia.
    rewrite skipn_app_ge by (rewrite length_padz; lia). rewrite length_padz by lia.
    f_equal. }
  rewrite H192, H196, H200. subst R.
  rewrite unle_field by (rewrite pow4; exact Hcs).
  rewrite skip_field.
  rewrite unle_field by (rewrite pow4; exact Hil).
  change 8%nat with (4 + 4)%nat.
  rewrite skipn_add.
  rewrite !skip_field.
  rewrite Nat2N.id. rewrite firstn_app_len by reflexivity.
  reflexivity.
Qed.

(* 3. one thread-table entry *)
Definition thread_ok (t : thread) : Prop :=
  nonul (t_hr t) /\ t_nbev t < 18446744073709551616 /\ t_first t < 18446744073709551616 /\
  N.of_nat (length (t_infos t)) < 4294967296 /\
  Forall (fun kv => N.of_nat (length (fst kv)) < 4294967296 /\ N.of_nat (length (snd kv)) < 4294967296) (t_infos t).

Lemma length_ser_info : forall kv, length (ser_info kv) = (length (fst kv) + length (snd kv) + 11)%nat.
Proof. intros kv. unfold ser_info. rewrite !app_length, !length_le. cbn [length]. lia. Qed.

Lemma parse_infos_ser : forall infos rest,
  Forall (fun kv => N.of_nat (length (fst kv)) < 4294967296 /\ N.of_nat (length (snd kv)) < 4294967296) infos ->
  parse_infos (length infos) (concat (map ser_info infos) ++ rest)
  = (infos, length (concat (map ser_info infos))).
Proof.
  induction infos as [|kv infos IH]; intros rest Hok; [reflexivity|].
  inversion Hok as [|? ? [Hk Hv] Hok']; subst.
  cbn [length map concat]. rewrite <- app_assoc.
  remember (concat (map ser_info infos) ++ rest) as R eqn:ER.
  cbn [parse_infos]. cbv zeta.
  assert (Hks : N.to_nat (unle (firstn 4 (ser_info kv ++ R))) = length (fst kv)).
  { unfold ser_info. repeat rewrite <- app_assoc.
    rewrite unle_field by (rewrite pow4; exact Hk). apply Nat2N.id. }
  assert (Hvs : N.to_nat (unle (firstn 4 (skipn 4 (ser_info kv ++ R)))) = length (snd kv)).
  { unfold ser_info. repeat rewrite <- app_assoc. rewrite skip_field.
    rewrite unle_field by (rewrite pow4; exact Hv). apply Nat2N.id. }
  rewrite Hks, Hvs.
  rewrite (skipn_app_len (length (fst kv) + length (snd kv) + 11) (ser_info kv) R)
    by apply length_ser_info.
  subst R. rewrite (IH rest Hok').
  rewrite app_length, length_ser_info.
  f_equal. f_equal.
  destruct kv as [ky vl]. cbn [fst snd]. unfold ser_info. cbn [fst snd]. repeat rewrite <- app_assoc.
  f_equal.
  - change 8%nat with (4 + 4)%nat. rewrite skipn_add, !skip_field.
    apply firstn_app_len. reflexivity.
  - rewrite skipn_add. change 8%nat with (4 + 4)%nat. rewrite skipn_add, !skip_field.
    rewrite skipn_app_len by reflexivity. apply firstn_app_len. reflexivity.
Qed.

Lemma parse_thread_ser : forall t rest, thread_ok t -> parse_thread (ser_thread t ++ rest) = (thread_view t, length (ser_thread t)).
Proof.
  intros t rest (Hhr & Hnbev & Hfirst & Hni & Hinfos).
  unfold ser_thread, thread_view. repeat rewrite <- app_assoc.
  remember (firstn 127 (t_hr t)) as hr eqn:Ehr.
  assert (Hnh : nonul hr) by (subst hr; apply nonul_firstn, Hhr).
  assert (Hlh : (length hr <= 127)%nat) by (subst hr; apply firstn_le_length).
  remember (concat (map ser_info (t_infos t))) as I eqn:EI.
  assert (Hlen : length (le 8 0 ++ le 8 (t_nbev t) ++ padz 128 hr ++ le 8 (t_first t)
                         ++ le 4 (N.of_nat (length (t_infos t))) ++ I) = (156 + length I)%nat).
  { rewrite !app_length, !length_le, length_padz by lia. lia. }
  rewrite Hlen. clear Hlen.
  unfold parse_thread. cbv zeta.
  (* nb_events *)
  rewrite skip_field, unle_field by (rewrite pow8; exact Hnbev).
  (* hr_id *)
  assert (H16 : forall X, skipn 16 (le 8 0 ++ le 8 (t_nbev t) ++ X) = X).
  { intros X. change 16%nat with (8 + 8)%nat. rewrite skipn_add, !skip_field. reflexivity. }
  rewrite H16, (cstr_padz_field 128 hr) by (try exact Hnh; lia).
  (* first_events_buffer_offset, nb_infos, infos *)
  assert (H144 : forall X, skipn 144 (le 8 0 ++ le 8 (t_nbev t) ++ padz 128 hr ++ X) = X).
  { intros X. change 144%nat with (16 + 128)%nat. rewrite skipn_add, H16.
    apply skipn_app_len, length_padz. lia. }
  assert (H152 : forall X, skipn 152 (le 8 0 ++ le 8 (t_nbev t) ++ padz 128 hr ++ le 8 (t_first t) ++ X) = X).
  { intros X. change 152%nat with (144 + 8)%nat. rewrite skipn_add, H144. apply skip_field. }
  assert (H156 : forall X, skipn 156 (le 8 0 ++ le 8 (t_nbev t) ++ padz 128 hr ++ le 8 (t_first t)
                                      ++ le 4 (N.of_nat (length (t_infos t))) ++ X) = X).
  { intros X. change 156%nat with (152 + 4)%nat. rewrite skipn_add, H152. apply skip_field. }
  rewrite H144, H152, H156.
  rewrite (unle_field 8) by (rewrite pow8; exact Hfirst).
  rewrite (unle_field 4) by (rewrite pow4; exact Hni).
  rewrite Nat2N.id. subst I. rewrite (parse_infos_ser (t_infos t) rest Hinfos).
  reflexivity.
Qed.
