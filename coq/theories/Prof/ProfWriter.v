(* The buffered writer of ProfDefs packs any sequence of entries into chunks,
   one chunk per buffer: nothing is lost, nothing is reordered, no entry is
   split between two buffers, and the buffers are chained in order. *)
From PV Require Import Base.Tac Prof.ProfDefs Prof.ProfBytes.
From Coq Require Import NArith.
Local Open Scope N_scope.

Section WriterProofs.
  Context {A : Type}.
  Variable len : A -> N.
  Variable ser : A -> list N.
  Variable strict : bool.
  Variable avail : N.
  Variable btype : N.
  Variable alloc : nat -> N.

  Definition sumlen (c : list A) : N := fold_right (fun x a => len x + a) 0 c.
  Definition flat (c : list A) : list N := flat_map ser c.
  (* the space test of the writer, seen from the other side *)
  Definition within (s : N) : Prop := if strict then s <= avail else s < avail.
  Definition chunk_ok (c : list A) : Prop := c <> [] /\ within (sumlen c).
  Definition item_ok (x : A) : Prop := 0 < len x /\ within (len x).

  (* the buffer holding chunk [c] at offset [this], pointing to [next] *)
  Definition cbuf (next : N) (c : list A) (this : N) : list N :=
    ser_buffer avail this next (N.of_nat (length c)) btype (flat c).
  Definition emit_closed (cs : list (list A)) : list (N * list N) :=
    map (fun j => (alloc j, cbuf (alloc (S j)) (nth j cs []) (alloc j))) (seq 0 (length cs)).
  Definition next_of (n j : nat) : N := if Nat.eqb (S j) n then NOOFF else alloc (S j).
  (* the chain of a list of chunks: buffer j at alloc j, pointing to alloc (j+1), the last one to -1 *)
  Definition emit (cs : list (list A)) : list (N * list N) :=
    map (fun j => (alloc j, cbuf (next_of (length cs) j) (nth j cs []) (alloc j))) (seq 0 (length cs)).

  Lemma sumlen_app : forall a b, sumlen (a ++ b) = sumlen a + sumlen b.
  Proof. unfold sumlen. induction a as [|x a IH]; intros b; cbn [fold_right app]; [lia|]. rewrite IH. lia. Qed.
  Lemma flat_app : forall a b, flat (a ++ b) = flat a ++ flat b.
  Proof. intros. apply flat_map_app. Qed.

  Lemma emit_closed_snoc : forall cs c,
    emit_closed (cs ++ [c]) =
    emit_closed cs ++ [(alloc (length cs), cbuf (alloc (S (length cs))) c (alloc (length cs)))].
  Proof.
    intros cs c. unfold emit_closed. rewrite app_length. cbn [length].
    rewrite Nat.add_1_r, seq_S, map_app. cbn [map Nat.add]. f_equal.
    - apply map_ext_in. intros j Hj. apply in_seq in Hj.
      rewrite app_nth1 by lia. reflexivity.
    - rewrite nth_middle. reflexivity.
  Qed.
  Lemma emit_snoc : forall cs c,
    emit (cs ++ [c]) = emit_closed cs ++ [(alloc (length cs), cbuf NOOFF c (alloc (length cs)))].
  Proof.
    intros cs c. unfold emit, emit_closed. rewrite app_length. cbn [length].
    rewrite Nat.add_1_r, seq_S, map_app. cbn [map Nat.add]. f_equal.
    - apply map_ext_in. intros j Hj. apply in_seq in Hj.
      rewrite app_nth1 by lia. unfold next_of.
      destruct (Nat.eqb (S j) (S (length cs))) eqn:E; [apply Nat.eqb_eq in E; lia|reflexivity].
    - rewrite nth_middle. unfold next_of. rewrite Nat.eqb_refl. reflexivity.
  Qed.

  Definition Inv (xs : list A) (st : wst) : Prop :=
    exists cs cur,
      xs = concat cs ++ cur /\ w_idx st = length cs /\ w_out st = emit_closed cs /\
      w_pay st = flat cur /\ w_pos st = sumlen cur /\ w_nb st = N.of_nat (length cur) /\
      Forall chunk_ok cs /\ ((cur = [] /\ cs = []) \/ chunk_ok cur).

  Lemma Inv_init : Inv [] w_init.
  Proof. exists [], []. cbn. repeat split; auto. Qed.

  Lemma sumlen_pos : forall c, Forall item_ok c -> c <> [] -> 0 < sumlen c.
  Proof.
    intros c Hc Hne. destruct c as [|x c]; [contradiction|].
    inversion Hc as [|? ? [Hx _] _]; subst. unfold sumlen. cbn [fold_right]. lia.
  Qed.

  Lemma Inv_step : forall xs st x,
    Inv xs st -> item_ok x -> Inv (xs ++ [x]) (w_put len ser strict avail btype alloc st x).
  Proof.
    intros xs st x (cs & cur & Hxs & Hidx & Hout & Hpay & Hpos & Hnb & Hcs & Hcur) [Hx0 Hxw].
    unfold w_put. destruct (overflows strict avail (w_pos st) (len x)) eqn:Hov.
    - (* the entry does not fit: the current buffer is closed *)
      assert (Hok : chunk_ok cur).
      { destruct Hcur as [[Hc _]|Hc]; [|exact Hc]. subst cur. cbn [sumlen fold_right] in Hpos.
        unfold overflows, within in *. rewrite Hpos in Hov. destruct strict; lia. }
      exists (cs ++ [cur]), [x]. cbn [w_switch w_idx w_pos w_nb w_pay w_out].
      repeat apply conj.
      + rewrite concat_app. cbn [concat]. rewrite app_nil_r, Hxs. reflexivity.
      + rewrite app_length. cbn [length]. lia.
      + rewrite emit_closed_snoc, Hout, Hidx, Hnb, Hpay. reflexivity.
      + cbn [flat flat_map app]. rewrite app_nil_r. reflexivity.
      + unfold sumlen. cbn [fold_right]. lia.
      + cbn [length]. lia.
      + apply Forall_app; split; [exact Hcs|]. constructor; [exact Hok|constructor].
      + right. split; [discriminate|]. unfold sumlen. cbn [fold_right]. rewrite N.add_0_r. exact Hxw.
    - (* it fits *)
      exists cs, (cur ++ [x]). cbn [w_idx w_pos w_nb w_pay w_out].
      repeat apply conj; auto.
      + rewrite Hxs, app_assoc. reflexivity.
      + rewrite flat_app, Hpay. cbn [flat flat_map]. rewrite app_nil_r. reflexivity.
      + rewrite sumlen_app, Hpos. unfold sumlen. cbn [fold_right]. lia.
      + rewrite app_length, Hnb. cbn [length]. lia.
      + right. split; [destruct cur; discriminate|].
        rewrite sumlen_app. unfold sumlen at 2. cbn [fold_right]. rewrite N.add_0_r.
        unfold overflows, within in *. rewrite Hpos in Hov. destruct strict; lia.
  Qed.

  Lemma Inv_run_from : forall xs done st,
    Inv done st -> Forall item_ok xs ->
    Inv (done ++ xs) (fold_left (w_put len ser strict avail btype alloc) xs st).
  Proof.
    induction xs as [|x xs IH]; intros done st Hinv Hok; cbn [fold_left].
    - rewrite app_nil_r. exact Hinv.
    - inversion Hok as [|? ? Hx Hxs]; subst.
      replace (done ++ x :: xs) with ((done ++ [x]) ++ xs) by (rewrite <- app_assoc; reflexivity).
      apply IH; [apply Inv_step; assumption|exact Hxs].
  Qed.
  Lemma Inv_run : forall xs, Forall item_ok xs -> Inv xs (w_run len ser strict avail btype alloc xs).
  Proof. intros xs Hok. apply (Inv_run_from xs [] w_init Inv_init Hok). Qed.

  (* what reaches the file when a non-empty sequence is written and flushed *)
  Theorem writer_spec : forall xs,
    Forall item_ok xs -> xs <> [] ->
    let st := w_run len ser strict avail btype alloc xs in
    exists cs, concat cs = xs /\ cs <> [] /\ Forall chunk_ok cs /\
               w_flush avail btype alloc st = emit cs /\ w_pos st <> 0.
  Proof.
    intros xs Hok Hne st.
    destruct (Inv_run xs Hok) as (cs & cur & Hxs & Hidx & Hout & Hpay & Hpos & Hnb & Hcs & Hcur).
    fold st in Hidx, Hout, Hpay, Hpos, Hnb.
    assert (Hc : chunk_ok cur).
    { destruct Hcur as [[H1 H2]|H]; [|exact H]. rewrite H1, H2 in Hxs. cbn in Hxs. contradiction. }
    exists (cs ++ [cur]). repeat apply conj.
    - rewrite concat_app. cbn [concat]. rewrite app_nil_r. symmetry. exact Hxs.
    - destruct cs; discriminate.
    - apply Forall_app; split; [exact Hcs|]. constructor; [exact Hc|constructor].
    - unfold w_flush. rewrite emit_snoc, Hout, Hidx, Hnb, Hpay. reflexivity.
    - rewrite Hpos. destruct Hc as [Hc1 _].
      assert (Hin : Forall item_ok cur).
      { rewrite Forall_forall in *. intros y Hy. apply Hok. rewrite Hxs. apply in_or_app. right; exact Hy. }
      pose proof (sumlen_pos cur Hin Hc1). lia.
  Qed.

  (* the entries of a chain, by index *)
  Lemma in_emit : forall cs k v,
    In (k, v) (emit cs) <->
    exists j, (j < length cs)%nat /\ k = alloc j /\ v = cbuf (next_of (length cs) j) (nth j cs []) (alloc j).
  Proof.
    intros cs k v. unfold emit. rewrite in_map_iff. split.
    - intros (j & Hj & Hin). apply in_seq in Hin. inversion Hj; subst. exists j. repeat split; auto. lia.
    - intros (j & Hj & -> & ->). exists j. split; [reflexivity|]. apply in_seq. lia.
  Qed.
  Lemma length_emit : forall cs, length (emit cs) = length cs.
  Proof. intros. unfold emit. rewrite map_length, seq_length. reflexivity. Qed.

  (* without any hypothesis on the entries: buffer j goes to offset alloc j *)
  Lemma w_put_keys : forall st x,
    map fst (w_out st) = map alloc (seq 0 (w_idx st)) ->
    map fst (w_out (w_put len ser strict avail btype alloc st x)) =
    map alloc (seq 0 (w_idx (w_put len ser strict avail btype alloc st x))).
  Proof.
    intros st x H. unfold w_put. destruct (overflows strict avail (w_pos st) (len x)); cbn [w_out w_idx w_switch].
    - rewrite map_app, H, seq_S, map_app. reflexivity.
    - exact H.
  Qed.
  Lemma w_run_keys : forall xs,
    let st := w_run len ser strict avail btype alloc xs in
    map fst (w_out st) = map alloc (seq 0 (w_idx st)).
  Proof.
    intros xs. cbv zeta. unfold w_run.
    apply (fold_left_inv (w_put len ser strict avail btype alloc)
             (fun st => map fst (w_out st) = map alloc (seq 0 (w_idx st)))).
    - intros a b Ha. apply w_put_keys, Ha.
    - reflexivity.
  Qed.
  Lemma w_flush_keys : forall st,
    map fst (w_out st) = map alloc (seq 0 (w_idx st)) ->
    map fst (w_flush avail btype alloc st) = map alloc (seq 0 (S (w_idx st))).
  Proof. intros st H. unfold w_flush. rewrite map_app, H, seq_S, map_app. reflexivity. Qed.
End WriterProofs.
