(* The merged dictionary of the reader: through dico_map every file gets back
   the keys it wrote, whatever the other files registered and in which order. *)
From PV Require Import Base.Tac Prof.ProfDefs.
From Coq Require Import NArith.
Local Open Scope N_scope.

Lemma bytes_eqb_eq : forall a b, bytes_eqb a b = true <-> a = b.
Proof.
  induction a as [|x a IH]; intros [|y b]; cbn [bytes_eqb]; split; intros H; try discriminate; auto.
  - apply andb_prop in H. destruct H as [H1 H2]. apply N.eqb_eq in H1. apply IH in H2. subst. reflexivity.
  - inversion H; subst. rewrite N.eqb_refl. apply IH. reflexivity.
Qed.
Lemma key_eqb_refl : forall k, key_eqb k k = true.
Proof.
  intros k. unfold key_eqb. rewrite N.eqb_refl. rewrite (proj2 (bytes_eqb_eq _ _) eq_refl).
  rewrite (proj2 (bytes_eqb_eq _ _) eq_refl). reflexivity.
Qed.
Lemma key_eqb_fields : forall a b, key_eqb a b = true ->
  k_ilen a = k_ilen b /\ k_name a = k_name b /\ cstr (k_conv a) = cstr (k_conv b).
Proof.
  intros a b H. unfold key_eqb in H. apply andb_prop in H. destruct H as [H H3].
  apply andb_prop in H. destruct H as [H1 H2].
  apply N.eqb_eq in H1. apply bytes_eqb_eq in H2. apply bytes_eqb_eq in H3. auto.
Qed.

(* find_key returns the index of an equal entry, or the length of the list *)
Lemma find_key_spec : forall k m i,
  (exists x, nth_error m (find_key k m i - i) = Some x /\ key_eqb k x = true /\ (i <= find_key k m i)%nat)
  \/ find_key k m i = (i + length m)%nat.
Proof.
  intros k m. induction m as [|x m IH]; intros i; cbn [find_key length].
  - right. lia.
  - destruct (key_eqb k x) eqn:E.
    + left. exists x. rewrite Nat.sub_diag. repeat split; auto.
    + destruct (IH (S i)) as [(y & Hn & He & Hle)|Hr].
      * left. exists y. repeat split; auto; [|lia].
        replace (find_key k m (S i) - i)%nat with (S (find_key k m (S i) - S i)) by lia. exact Hn.
      * right. lia.
Qed.

(* one entry: the merged dictionary only grows at the end, and the index recorded points to an equal entry *)
Lemma merge_one_spec : forall m mp k,
  exists ext i x, merge_one (m, mp) k = (m ++ ext, mp ++ [i]) /\
                  nth_error (m ++ ext) i = Some x /\ key_eqb k x = true.
Proof.
  intros m mp k. unfold merge_one. cbn [fst snd].
  destruct (find_key_spec k m 0) as [(x & Hn & He & _)|Hr].
  - rewrite Nat.sub_0_r in Hn.
    assert (Hlt : (find_key k m 0 < length m)%nat) by (apply nth_error_Some; congruence).
    destruct (Nat.eqb (find_key k m 0) (length m)) eqn:E; [apply Nat.eqb_eq in E; lia|].
    exists [], (find_key k m 0), x. rewrite app_nil_r. auto.
  - cbn [Nat.add] in Hr. rewrite Hr, Nat.eqb_refl.
    exists [k], (length m), k. repeat split.
    + rewrite nth_error_app2, Nat.sub_diag by lia. reflexivity.
    + apply key_eqb_refl.
Qed.

Definition map_ok (merged : list kent) (local : list kent) (mp : list nat) : Prop :=
  length mp = length local /\
  forall j k, nth_error local j = Some k ->
    exists i x, nth_error mp j = Some i /\ nth_error merged i = Some x /\ key_eqb k x = true.

Lemma map_ok_grow : forall merged ext local mp, map_ok merged local mp -> map_ok (merged ++ ext) local mp.
Proof.
  intros merged ext local mp [Hl H]. split; [exact Hl|]. intros j k Hj.
  destruct (H j k Hj) as (i & x & H1 & H2 & H3). exists i, x. repeat split; auto.
  rewrite nth_error_app1; [exact H2|]. apply nth_error_Some. congruence.
Qed.

Lemma merge_fold_spec : forall rest m mp done,
  map_ok m done mp ->
  exists ext mp', fold_left merge_one rest (m, mp) = (m ++ ext, mp') /\ map_ok (m ++ ext) (done ++ rest) mp'.
Proof.
  induction rest as [|k rest IH]; intros m mp done Hok; cbn [fold_left].
  - exists [], mp. rewrite !app_nil_r. split; [reflexivity|exact Hok].
  - destruct (merge_one_spec m mp k) as (e1 & i & x & Hm & Hn & He). rewrite Hm.
    assert (Hok1 : map_ok (m ++ e1) (done ++ [k]) (mp ++ [i])).
    { destruct (map_ok_grow m e1 done mp Hok) as [Hl H]. split; [rewrite !app_length; cbn [length]; lia|].
      intros j k' Hj. destruct (Nat.lt_ge_cases j (length done)) as [Hlt|Hge].
      - rewrite nth_error_app1 in Hj by exact Hlt. destruct (H j k' Hj) as (i' & x' & H1 & H2 & H3).
        exists i', x'. repeat split; auto. rewrite nth_error_app1; [exact H1|]. lia.
      - rewrite nth_error_app2 in Hj by exact Hge.
        destruct (j - length done)%nat eqn:Ej; [|destruct n; discriminate]. cbn in Hj. inversion Hj; subst k'.
        assert (j = length mp) by lia. subst j.
        exists i, x. repeat split; auto. rewrite nth_error_app2, Nat.sub_diag by lia. reflexivity. }
    destruct (IH (m ++ e1) (mp ++ [i]) (done ++ [k]) Hok1) as (e2 & mp' & Hf & Hok2).
    exists (e1 ++ e2), mp'. rewrite app_assoc. split; [exact Hf|].
    replace (done ++ k :: rest) with ((done ++ [k]) ++ rest) by (rewrite <- app_assoc; reflexivity). exact Hok2.
Qed.
Lemma merge_file_spec : forall m local,
  exists ext mp, merge_file m local = (m ++ ext, mp) /\ map_ok (m ++ ext) local mp.
Proof.
  intros m local. unfold merge_file.
  destruct (merge_fold_spec local m [] []) as (ext & mp & H1 & H2).
  - split; [reflexivity|]. intros j k Hj. destruct j; discriminate.
  - exists ext, mp. split; [exact H1|exact H2].
Qed.

Theorem merge_files_spec : forall files m merged maps,
  merge_files m files = (merged, maps) ->
  (exists ext, merged = m ++ ext) /\ length maps = length files /\
  forall f local, nth_error files f = Some local ->
    exists mp, nth_error maps f = Some mp /\ map_ok merged local mp.
Proof.
  induction files as [|l files IH]; intros m merged maps H; cbn [merge_files] in H.
  - inversion H; subst. split; [exists []; rewrite app_nil_r; reflexivity|]. split; [reflexivity|].
    intros f local Hf. destruct f; discriminate.
  - destruct (merge_file_spec m l) as (e1 & mp & Hm & Hok). rewrite Hm in H.
    destruct (merge_files (m ++ e1) files) as [m2 mps] eqn:E. inversion H; subst merged maps.
    destruct (IH _ _ _ E) as ((e2 & He2) & Hlen & Hall). subst m2.
    split; [exists (e1 ++ e2); rewrite app_assoc; reflexivity|]. split; [cbn [length]; lia|].
    intros f local Hf. destruct f as [|f].
    + cbn in Hf. inversion Hf; subst local. exists mp. split; [reflexivity|]. apply map_ok_grow, Hok.
    + cbn in Hf. destruct (Hall f local Hf) as (mp' & H1 & H2). exists mp'. split; [exact H1|exact H2].
Qed.

(* through dico_map every file gets back, entry by entry, the name, the info
   length and the convertor it wrote *)
Theorem presented_is_written : forall files merged maps f local,
  merge_files [] files = (merged, maps) -> nth_error files f = Some local ->
  exists mp, nth_error maps f = Some mp /\ length (presented merged mp) = length local /\
    forall j k, nth_error local j = Some k ->
      let p := nth j (presented merged mp) kent0 in
      k_name p = k_name k /\ k_ilen p = k_ilen k /\ cstr (k_conv p) = cstr (k_conv k).
Proof.
  intros files merged maps f local Hm Hf.
  destruct (merge_files_spec files [] merged maps Hm) as (_ & _ & Hall).
  destruct (Hall f local Hf) as (mp & Hmp & Hl & Hok). exists mp. split; [exact Hmp|].
  unfold presented. split; [rewrite map_length; exact Hl|].
  intros j k Hj. cbv zeta. destruct (Hok j k Hj) as (i & x & H1 & H2 & H3).
  assert (Hjl : (j < length mp)%nat) by (apply nth_error_Some; congruence).
  rewrite (nth_indep _ kent0 (nth 0 merged kent0)) by (rewrite map_length; exact Hjl).
  change (nth 0 merged kent0) with ((fun i => nth i merged kent0) 0%nat). rewrite map_nth.
  rewrite (nth_error_nth mp j 0%nat H1), (nth_error_nth merged i kent0 H2).
  destruct (key_eqb_fields k x H3) as (Ha & Hb & Hc). auto.
Qed.
Corollary presented_ilens : forall files merged maps f local,
  merge_files [] files = (merged, maps) -> nth_error files f = Some local ->
  exists mp, nth_error maps f = Some mp /\ map k_ilen (presented merged mp) = map k_ilen local.
Proof.
  intros files merged maps f local Hm Hf.
  destruct (presented_is_written files merged maps f local Hm Hf) as (mp & Hmp & Hl & H).
  exists mp. split; [exact Hmp|].
  apply (nth_ext _ _ 0 0); [rewrite !map_length; exact Hl|].
  intros j Hj. rewrite map_length in Hj.
  change 0 with (k_ilen kent0). rewrite !map_nth.
  assert (Hjl : (j < length local)%nat) by lia.
  destruct (nth_error local j) as [k|] eqn:E; [|apply nth_error_None in E; lia].
  destruct (H j k E) as (_ & Hi & _). cbv zeta in Hi. rewrite Hi, (nth_error_nth local j kent0 E). reflexivity.
Qed.

(* hence the events of a file are decoded through the merged dictionary exactly
   as with the file's own dictionary *)
Theorem decode_rest_through_merge : forall files merged maps f local fuel file toff tn,
  merge_files [] files = (merged, maps) -> nth_error files f = Some local ->
  exists mp, nth_error maps f = Some mp /\
    decode_rest fuel file toff tn (presented merged mp) = decode_rest fuel file toff tn local.
Proof.
  intros files merged maps f local fuel file toff tn Hm Hf.
  destruct (presented_ilens files merged maps f local Hm Hf) as (mp & Hmp & Hil).
  exists mp. split; [exact Hmp|]. unfold decode_rest. rewrite Hil. reflexivity.
Qed.
Lemma decode_split : forall fuel file doff dn toff tn,
  decode fuel file doff dn toff tn =
  match decode_keys file doff dn with
  | None => None
  | Some keys => match decode_rest fuel file toff tn keys with None => None | Some r => Some (keys, r) end
  end.
Proof.
  intros. unfold decode, decode_keys, decode_rest. destruct (file doff) as [db|]; [|reflexivity].
  destruct (dec_table parse_key file dn db 0 (Z.of_N (b_nb db))) as [keys|]; [|reflexivity].
  destruct (file toff) as [tb|]; [|reflexivity].
  destruct (dec_table parse_thread file tn tb 0 (Z.of_N (b_nb tb))); reflexivity.
Qed.
