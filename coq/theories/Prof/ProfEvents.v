(* Events: what the reader parses out of a buffer the writer filled, and the
   walk along a chain of such buffers. *)
From PV Require Import Base.Tac Prof.ProfDefs Prof.ProfBytes Prof.ProfWriter.
From Coq Require Import NArith.
Local Open Scope N_scope.

(* the calls the C types allow (uint16 key and flags, uint32 taskpool id,
   uint64 ids and dates), an info area of the length the dictionary declares,
   and the HAS_INFO flag set exactly when an info pointer was given *)
Definition ev_ok (il : list N) (e : event) : Prop :=
  e_key e < 65536 /\ e_flags e < 65536 /\ e_tp e < 4294967296 /\
  e_id e < 18446744073709551616 /\ e_ts e < 18446744073709551616 /\
  match e_info e with
  | Some bs => N.testbit (e_flags e) 0 = true /\ length bs = N.to_nat (ilen_of il (e_key e))
  | None => N.testbit (e_flags e) 0 = false
  end.

Lemma pow2 : 256 ^ N.of_nat 2 = 65536. Proof. reflexivity. Qed.
Lemma pow4 : 256 ^ N.of_nat 4 = 4294967296. Proof. reflexivity. Qed.
Lemma pow8 : 256 ^ N.of_nat 8 = 18446744073709551616. Proof. reflexivity. Qed.

Lemma length_ser_event : forall il e, ev_ok il e -> N.of_nat (length (ser_event e)) = ev_len il e.
Proof.
  intros il e (_ & _ & _ & _ & _ & Hi). unfold ser_event, ev_len.
  rewrite !app_length, !length_le. destruct (e_info e) as [bs|].
  - destruct Hi as [_ Hl]. rewrite Hl. lia.
  - cbn [length]. lia.
Qed.

Lemma parse_events_flat : forall il c rest,
  Forall (ev_ok il) c -> parse_events il (length c) (flat ser_event c ++ rest) = c.
Proof.
  intros il c rest. induction c as [|e c IH]; intros Hok; [reflexivity|].
  inversion Hok as [|? ? (Hk & Hf & Ht & Hi & Hs & Hinfo) Hc]; subst.
  cbn [length flat flat_map]. fold (flat ser_event c).
  rewrite <- app_assoc. remember (flat ser_event c ++ rest) as R eqn:HR.
  unfold ser_event. repeat rewrite <- app_assoc. cbn [parse_events]. cbv zeta.
  repeat (rewrite ?unle_field, ?skip_field by (rewrite ?pow2, ?pow4, ?pow8; assumption)).
  destruct e as [key fl tp id ts info]; cbn [e_key e_flags e_tp e_id e_ts e_info] in *.
  destruct info as [bs|].
  - destruct Hinfo as [Hb Hl]. rewrite Hb.
    rewrite firstn_app_len, skipn_app_len by exact Hl.
    f_equal. subst R. apply IH, Hc.
  - rewrite Hinfo. cbn [firstn skipn app]. f_equal. subst R. apply IH, Hc.
Qed.

(* ---- the fields of a buffer, read back ---- *)
Lemma b_next_ser : forall avail this next nb bt pay,
  next < 18446744073709551616 -> b_next (ser_buffer avail this next nb bt pay) = next.
Proof.
  intros. unfold b_next, ser_buffer. rewrite skip_field, unle_field; [reflexivity|rewrite pow8; assumption].
Qed.
Lemma b_nb_ser : forall avail this next nb bt pay,
  nb < 18446744073709551616 -> b_nb (ser_buffer avail this next nb bt pay) = nb.
Proof.
  intros. unfold b_nb, ser_buffer. rewrite (app_assoc (le 8 this)).
  rewrite skipn_app_len by (rewrite app_length, !length_le; reflexivity).
  rewrite unle_field; [reflexivity|rewrite pow8; assumption].
Qed.
Lemma b_pay_ser : forall avail this next nb bt pay,
  b_pay (ser_buffer avail this next nb bt pay) = pay ++ repeat 0 (N.to_nat avail - length pay).
Proof.
  intros. unfold b_pay, ser_buffer, HDR.
  do 3 (rewrite skipn_app_ge by (rewrite length_le; lia); rewrite length_le; cbn [Nat.sub]).
  reflexivity.
Qed.
Lemma length_ser_buffer : forall avail this next nb bt pay,
  (length pay <= N.to_nat avail)%nat -> length (ser_buffer avail this next nb bt pay) = (25 + N.to_nat avail)%nat.
Proof.
  intros. unfold ser_buffer. rewrite !app_length, !length_le, repeat_length. cbn [length]. lia.
Qed.

Lemma skipn_nth_cons {A} : forall (l : list A) j d, (j < length l)%nat -> skipn j l = nth j l d :: skipn (S j) l.
Proof.
  induction l as [|x l IH]; intros j d Hj; cbn [length] in Hj; [lia|].
  destruct j as [|j]; [reflexivity|]. cbn [skipn nth]. rewrite (IH j d) by lia. reflexivity.
Qed.

Lemma dec_chain_nooff : forall f file il, dec_chain f file il NOOFF = [].
Proof. intros [|f] file il; reflexivity. Qed.

(* ---- the walk along the chain of one stream ---- *)
Section Chain.
  Variable il : list N.
  Variable avail : N.
  Variable alloc : nat -> N.
  Variable cs : list (list event).
  Variable file : N -> option (list N).
  Hypothesis Halloc : forall j, alloc j < NOOFF.
  Hypothesis Hfile : forall j, (j < length cs)%nat ->
    file (alloc j) = Some (cbuf ser_event avail BT_EVENTS (next_of alloc (length cs) j) (nth j cs []) (alloc j)).
  Hypothesis Hcs : Forall (fun c => c <> [] /\ Forall (ev_ok il) c /\ N.of_nat (length c) < 18446744073709551616) cs.

  Lemma dec_chain_from : forall m j fuel,
    (j + m = length cs)%nat -> (0 < m)%nat -> (m <= fuel)%nat ->
    dec_chain fuel file il (alloc j) = concat (skipn j cs).
  Proof.
    induction m as [|m IH]; intros j fuel Hjm Hm Hf; [lia|].
    destruct fuel as [|f]; [lia|]. cbn [dec_chain].
    pose proof (Halloc j) as Haj.
    destruct (alloc j =? NOOFF) eqn:E; [apply N.eqb_eq in E; lia|].
    rewrite Hfile by lia. unfold cbuf.
    assert (Hc : nth j cs [] <> [] /\ Forall (ev_ok il) (nth j cs []) /\
                 N.of_nat (length (nth j cs [])) < 18446744073709551616).
    { rewrite Forall_forall in Hcs. apply Hcs. apply nth_In. lia. }
    destruct Hc as (Hne & Hok & Hlen).
    rewrite b_nb_ser, b_pay_ser by exact Hlen.
    rewrite Nat2N.id.
    replace (Nat.max 1 (length (nth j cs []))) with (length (nth j cs []))
      by (destruct (nth j cs []); [contradiction|cbn [length]; lia]).
    rewrite parse_events_flat by exact Hok.
    rewrite (skipn_nth_cons cs j []) by lia. cbn [concat]. f_equal.
    unfold next_of. destruct (Nat.eqb (S j) (length cs)) eqn:E2.
    - apply Nat.eqb_eq in E2. rewrite b_next_ser by reflexivity.
      rewrite dec_chain_nooff, skipn_all2 by lia. reflexivity.
    - apply Nat.eqb_neq in E2. pose proof (Halloc (S j)) as H1.
      rewrite b_next_ser by (unfold NOOFF in H1; lia).
      apply IH; lia.
  Qed.

  Lemma dec_chain_emit : forall fuel,
    cs <> [] -> (length cs <= fuel)%nat -> dec_chain fuel file il (alloc 0%nat) = concat cs.
  Proof.
    intros fuel Hne Hf. rewrite (dec_chain_from (length cs) 0 fuel); [reflexivity|lia| |exact Hf].
    destruct cs; [contradiction|cbn [length]; lia].
  Qed.
End Chain.

(* ---- the record a well-formed call logs is a well-formed event ---- *)
Lemma lor_lt_pow2 : forall a b n, a < 2^n -> b < 2^n -> N.lor a b < 2^n.
Proof.
  intros a b n Ha Hb.
  destruct (N.eq_dec (N.lor a b) 0) as [E|E]; [rewrite E; apply N.neq_0_lt_0, N.pow_nonzero; lia|].
  apply N.log2_lt_pow2; [lia|]. rewrite N.log2_lor.
  destruct (N.eq_dec a 0) as [Ea|Ea]; destruct (N.eq_dec b 0) as [Eb|Eb]; subst; cbn [N.log2].
  - cbn in E. contradiction.
  - rewrite N.max_r by lia. apply N.log2_lt_pow2; lia.
  - rewrite N.max_l by lia. apply N.log2_lt_pow2; lia.
  - apply N.max_lub_lt; apply N.log2_lt_pow2; lia.
Qed.

Lemma land_lt_pow2 : forall a b n, a < 2^n -> N.land a b < 2^n.
Proof.
  intros a b n Ha.
  destruct (N.eq_dec (N.land a b) 0) as [E|E]; [rewrite E; apply N.neq_0_lt_0, N.pow_nonzero; lia|].
  assert (Ha0 : a <> 0) by (intros ->; rewrite N.land_0_l in E; contradiction).
  apply N.log2_lt_pow2; [lia|].
  pose proof (N.log2_land a b) as Hl.
  assert (N.log2 a < n) by (apply N.log2_lt_pow2; lia). lia.
Qed.

(* the info area has the declared length (whatever flags the caller passes) *)
Definition call_ok (il : list N) (c : call) : Prop :=
  match c_info c with
  | Some bs => length bs = N.to_nat (ilen_of il (c_key c mod 65536))
  | None => True
  end.
Lemma log_event_ok : forall il c ts, call_ok il c -> ev_ok il (log_event c ts).
Proof.
  intros il c ts Hc. unfold ev_ok, log_event, call_ok in *.
  cbn [e_key e_flags e_tp e_id e_ts e_info].
  repeat apply conj; try (apply N.mod_lt; discriminate).
  - change 65536 with (2 ^ 16). apply lor_lt_pow2.
    + destruct (c_info c); cbn; lia.
    + apply land_lt_pow2. apply N.mod_lt. discriminate.
  - destruct (c_info c) as [bs|].
    + split; [|exact Hc]. rewrite N.lor_spec. reflexivity.
    + rewrite N.lor_spec, N.land_spec. cbn [N.testbit]. rewrite Bool.andb_false_r. reflexivity.
Qed.

(* before the repair the flag had to be part of the precondition *)
Definition call_ok_prefix (il : list N) (c : call) : Prop :=
  match c_info c with
  | Some bs => length bs = N.to_nat (ilen_of il (c_key c mod 65536))
  | None => N.testbit (c_flags c) 0 = false
  end.
Lemma log_event_prefix_ok : forall il c ts, call_ok_prefix il c -> ev_ok il (log_event_prefix c ts).
Proof.
  intros il c ts Hc. unfold ev_ok, log_event_prefix, call_ok_prefix in *.
  cbn [e_key e_flags e_tp e_id e_ts e_info].
  repeat apply conj; try (apply N.mod_lt; discriminate).
  - change 65536 with (2 ^ 16). apply lor_lt_pow2.
    + destruct (c_info c); cbn; lia.
    + apply N.mod_lt. discriminate.
  - destruct (c_info c) as [bs|].
    + split; [|exact Hc]. rewrite N.lor_spec. reflexivity.
    + rewrite N.lor_spec. change 65536 with (2 ^ 16). rewrite N.mod_pow2_bits_low by lia.
      rewrite Hc. reflexivity.
Qed.
