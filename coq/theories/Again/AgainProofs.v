(* C16 — proofs for Again/AgainDefs.v. *)
From Coq Require Import ZArith List Bool Arith Lia.
From PV Require Import Base.Tac PTG.PTGDefs PTG.Engine PTG.EngineProofs PTG.PTGProofs PTGVal.PTGValDefs Again.AgainDefs.
Import ListNotations.

(* ================================================================== (1) one task *)
Definition dem (n : nat) (p : Z) : Z := Nat.iter n demote p.

Lemma dem_S n p : dem (S n) p = demote (dem n p).
Proof. reflexivity. Qed.
Lemma dem_S_r n p : dem (S n) p = dem n (demote p).
Proof. unfold dem. apply iter_succ_r. Qed.

Lemma iter_demote_snoc m : forall q, iter_demote (S m) q = iter_demote m q ++ [dem m q].
Proof.
  induction m as [|m IH]; intros q; [reflexivity|].
  change (iter_demote (S (S m)) q) with (q :: iter_demote (S m) (demote q)).
  rewrite IH. cbn [iter_demote app]. rewrite dem_S_r. reflexivity.
Qed.
Lemma iter_demote_length m : forall q, length (iter_demote m q) = m.
Proof. induction m as [|m IH]; intros q; cbn [iter_demote length]; [reflexivity|]. rewrite IH. reflexivity. Qed.

(* the state of the task after n calls of __parsec_task_progress *)
Definition expect (a k : nat) (p : Z) (n : nat) : tstate :=
  if Nat.leb n a then
    {| ts_task := {| t_status := 0; t_prio := dem n p |}; ts_pi := n; ts_hook := 0; ts_rel := 0;
       ts_queued := true; ts_prios := [] |}
  else if Nat.leb n (a + k) then
    {| ts_task := {| t_status := ST_HOOK; t_prio := dem n p |}; ts_pi := S a; ts_hook := n - a; ts_rel := 0;
       ts_queued := true; ts_prios := rev (iter_demote (n - a) (dem a p)) |}
  else
    {| ts_task := {| t_status := ST_COMPLETE; t_prio := dem (a + k) p |}; ts_pi := S a; ts_hook := S k; ts_rel := 1;
       ts_queued := false; ts_prios := rev (iter_demote (S k) (dem a p)) |}.

Lemma expect_lo a k p n : n <= a ->
  expect a k p n = {| ts_task := {| t_status := 0; t_prio := dem n p |}; ts_pi := n; ts_hook := 0; ts_rel := 0;
                      ts_queued := true; ts_prios := [] |}.
Proof. intros H. unfold expect. replace (Nat.leb n a) with true by (symmetry; apply Nat.leb_le; lia). reflexivity. Qed.
Lemma expect_mid a k p n : a < n -> n <= a + k ->
  expect a k p n = {| ts_task := {| t_status := ST_HOOK; t_prio := dem n p |}; ts_pi := S a; ts_hook := n - a; ts_rel := 0;
                      ts_queued := true; ts_prios := rev (iter_demote (n - a) (dem a p)) |}.
Proof.
  intros H1 H2. unfold expect. replace (Nat.leb n a) with false by (symmetry; apply Nat.leb_gt; lia).
  replace (Nat.leb n (a + k)) with true by (symmetry; apply Nat.leb_le; lia). reflexivity.
Qed.
Lemma expect_hi a k p n : a + k < n ->
  expect a k p n = {| ts_task := {| t_status := ST_COMPLETE; t_prio := dem (a + k) p |}; ts_pi := S a; ts_hook := S k; ts_rel := 1;
                      ts_queued := false; ts_prios := rev (iter_demote (S k) (dem a p)) |}.
Proof.
  intros H. unfold expect. replace (Nat.leb n a) with false by (symmetry; apply Nat.leb_gt; lia).
  replace (Nat.leb n (a + k)) with false by (symmetry; apply Nat.leb_gt; lia). reflexivity.
Qed.

Lemma dem_add n m p : dem n (dem m p) = dem (m + n) p.
Proof.
  induction n as [|n IH]; [rewrite Nat.add_0_r; reflexivity|].
  rewrite dem_S, IH. replace (m + S n) with (S (m + n)) by lia. reflexivity.
Qed.

Lemma expect_step a k p n d : tstep a k (expect a k p n) d = expect a k p (S n).
Proof.
  destruct (le_lt_dec n a) as [H1|H1].
  - rewrite (expect_lo a k p n H1). unfold tstep, progress, call_for.
    cbn [ts_queued ts_task ts_pi ts_hook ts_rel ts_prios t_status t_prio pi_ret hk_ret].
    change (Nat.leb 0 ST_PREPARE_INPUT) with true. change (Nat.leb 0 ST_HOOK) with true. cbv iota.
    destruct (Nat.ltb n a) eqn:E2.
    + apply Nat.ltb_lt in E2. rewrite (expect_lo a k p (S n)) by lia.
      cbn [r_task r_pi r_hook r_complete r_resched t_prio t_status]. reflexivity.
    + apply Nat.ltb_ge in E2. assert (n = a) by lia. subst n.
      destruct (Nat.ltb 0 k) eqn:E3.
      * apply Nat.ltb_lt in E3. rewrite (expect_mid a k p (S a)) by lia.
        cbn [r_task r_pi r_hook r_complete r_resched t_prio t_status].
        replace (S a - a) with 1 by lia. reflexivity.
      * apply Nat.ltb_ge in E3. assert (k = 0) by lia. subst k. rewrite (expect_hi a 0 p (S a)) by lia.
        cbn [r_task r_pi r_hook r_complete r_resched t_prio t_status].
        rewrite Nat.add_0_r. reflexivity.
  - destruct (le_lt_dec n (a + k)) as [H2|H2].
    + rewrite (expect_mid a k p n H1 H2). unfold tstep, progress, call_for.
      cbn [ts_queued ts_task ts_pi ts_hook ts_rel ts_prios t_status t_prio pi_ret hk_ret].
      change (Nat.leb ST_HOOK ST_PREPARE_INPUT) with false. change (Nat.leb ST_HOOK ST_HOOK) with true. cbv iota.
      destruct (Nat.ltb (n - a) k) eqn:E3.
      * apply Nat.ltb_lt in E3. rewrite (expect_mid a k p (S n)) by lia.
        cbn [r_task r_pi r_hook r_complete r_resched t_prio t_status].
        replace (S n - a) with (S (n - a)) by lia.
        rewrite (iter_demote_snoc (n - a)), rev_app_distr. cbn [rev app].
        rewrite dem_add. replace (a + (n - a)) with n by lia. reflexivity.
      * apply Nat.ltb_ge in E3. assert (n = a + k) by lia. subst n. rewrite (expect_hi a k p (S (a + k))) by lia.
        cbn [r_task r_pi r_hook r_complete r_resched t_prio t_status].
        replace (a + k - a) with k by lia.
        rewrite (iter_demote_snoc k), rev_app_distr. cbn [rev app].
        rewrite dem_add. reflexivity.
    + rewrite (expect_hi a k p n H2), (expect_hi a k p (S n)) by lia. reflexivity.
Qed.

Lemma trun_expect a k p ds : trun a k p ds = expect a k p (length ds).
Proof.
  unfold trun. change (tinit p) with (expect a k p 0) at 1.
  assert (H : forall ds n, fold_left (tstep a k) ds (expect a k p n) = expect a k p (n + length ds)).
  { clear. induction ds as [|d ds IH]; intros n; cbn [fold_left length]; [rewrite Nat.add_0_r; reflexivity|].
    rewrite expect_step, IH. f_equal. lia. }
  rewrite (H ds 0). reflexivity.
Qed.

(* a body returning AGAIN k times (after a deferred prepare_input calls) is invoked exactly k+1 times,
   prepare_input a+1 times, release_deps once, in the call of the last invocation; whatever the distances *)
Theorem task_completes a k p ds : length ds = a + k + 1 ->
  ts_hook (trun a k p ds) = S k /\ ts_pi (trun a k p ds) = S a /\ ts_rel (trun a k p ds) = 1
  /\ ts_queued (trun a k p ds) = false
  /\ rev (ts_prios (trun a k p ds)) = iter_demote (S k) (dem a p).
Proof.
  intros Hl. rewrite trun_expect, Hl. unfold expect.
  replace (Nat.leb (a + k + 1) a) with false by (symmetry; apply Nat.leb_gt; lia).
  replace (Nat.leb (a + k + 1) (a + k)) with false by (symmetry; apply Nat.leb_gt; lia).
  cbn [ts_hook ts_pi ts_rel ts_queued ts_prios]. rewrite rev_involutive. repeat split; reflexivity.
Qed.

(* before that the task is always in the scheduler (never lost) and nothing was released *)
Theorem task_pending a k p ds : length ds < a + k + 1 ->
  ts_queued (trun a k p ds) = true /\ ts_rel (trun a k p ds) = 0 /\ ts_hook (trun a k p ds) <= k
  /\ (ts_hook (trun a k p ds) = 0 <-> length ds <= a).
Proof.
  intros Hl. rewrite trun_expect. unfold expect.
  destruct (Nat.leb (length ds) a) eqn:E1.
  - apply Nat.leb_le in E1. cbn. repeat split; try lia.
  - apply Nat.leb_gt in E1.
    replace (Nat.leb (length ds) (a + k)) with true by (symmetry; apply Nat.leb_le; lia).
    cbn. repeat split; lia.
Qed.

(* and afterwards nothing happens any more: no second release, no further invocation *)
Theorem task_stable a k p ds : a + k + 1 <= length ds ->
  trun a k p ds = expect a k p (a + k + 1).
Proof.
  intros Hl. rewrite trun_expect. unfold expect.
  replace (Nat.leb (length ds) a) with false by (symmetry; apply Nat.leb_gt; lia).
  replace (Nat.leb (length ds) (a + k)) with false by (symmetry; apply Nat.leb_gt; lia).
  replace (Nat.leb (a + k + 1) a) with false by (symmetry; apply Nat.leb_gt; lia).
  replace (Nat.leb (a + k + 1) (a + k)) with false by (symmetry; apply Nat.leb_gt; lia).
  reflexivity.
Qed.

(* the hook AGAIN does not look the inputs up again: once the hook has run, prepare_input is not called *)
Theorem inputs_not_looked_up_twice a k p ds :
  0 < ts_hook (trun a k p ds) -> ts_pi (trun a k p ds) = S a.
Proof.
  rewrite trun_expect. unfold expect.
  destruct (Nat.leb (length ds) a); cbn [ts_hook ts_pi]; [lia|].
  destruct (Nat.leb (length ds) (a + k)); cbn [ts_hook ts_pi]; reflexivity.
Qed.

(* demotion: int32 stays int32; a positive priority decreases to 0, then alternates -1, 0 *)
Local Open Scope Z_scope.
Lemma quot10_neg p : p < 0 -> exists q r, Z.quot p 10 = - q /\ - p = 10 * q + r /\ 0 <= r < 10.
Proof.
  intros H. exists (Z.quot (- p) 10), (Z.rem (- p) 10).
  replace p with (- - p) at 1 by lia. rewrite Z.quot_opp_l by lia.
  pose proof (Z.quot_rem' (- p) 10). pose proof (Z.rem_bound_pos (- p) 10). lia.
Qed.
Theorem demote_int32 p : -2147483648 <= p <= 2147483647 -> -2147483648 <= demote p <= 2147483647.
Proof.
  intros H. unfold demote. destruct (p =? 0) eqn:E; [lia|].
  destruct (Z_le_gt_dec 0 p).
  - pose proof (Z.quot_rem' p 10). pose proof (Z.rem_bound_pos p 10). lia.
  - destruct (quot10_neg p) as (q & r & -> & H1 & H2); lia.
Qed.
Theorem demote_positive p : 0 < p -> 0 <= demote p < p.
Proof.
  intros H. unfold demote. replace (p =? 0) with false by (symmetry; apply Z.eqb_neq; lia).
  pose proof (Z.quot_rem' p 10). pose proof (Z.rem_bound_pos p 10). lia.
Qed.
Theorem demote_low : demote 0 = -1 /\ demote (-1) = 0.
Proof. split; reflexivity. Qed.
(* a negative priority is "demoted" towards 0, i.e. promoted (observation; not part of the property) *)
Theorem demote_negative p : p < 0 -> p < demote p <= 0.
Proof.
  intros H. unfold demote. replace (p =? 0) with false by (symmetry; apply Z.eqb_neq; lia).
  destruct (quot10_neg p H) as (q & r & -> & H1 & H2). lia.
Qed.
Local Close Scope Z_scope.

(* ================================================================== (3) chunked startup *)
Local Open Scope Z_scope.
Lemma zrange_nil lo hi st : st <= 0 \/ hi < lo -> zrange lo hi st = [].
Proof.
  intros H. unfold zrange. destruct ((st <=? 0) || (hi <? lo)) eqn:E; [reflexivity|].
  apply orb_false_iff in E. destruct E as [E1 E2]. apply Z.leb_gt in E1. apply Z.ltb_ge in E2. lia.
Qed.

Lemma zrange_cons lo hi st : 0 < st -> lo <= hi -> zrange lo hi st = lo :: zrange (lo + st) hi st.
Proof.
  intros Hst Hle. unfold zrange at 1.
  replace ((st <=? 0) || (hi <? lo)) with false
    by (symmetry; apply orb_false_iff; split; [apply Z.leb_gt|apply Z.ltb_ge]; lia).
  cbn [seq map]. f_equal; [lia|].
  destruct (Z_lt_le_dec hi (lo + st)) as [Hlt|Hge].
  - rewrite (zrange_nil (lo + st) hi st) by lia.
    rewrite Z.div_small by lia. reflexivity.
  - unfold zrange.
    replace ((st <=? 0) || (hi <? lo + st)) with false
      by (symmetry; apply orb_false_iff; split; [apply Z.leb_gt|apply Z.ltb_ge]; lia).
    replace (hi - lo) with ((hi - (lo + st)) + 1 * st) by lia.
    rewrite Z.div_add by lia.
    assert (0 <= (hi - (lo + st)) / st) by (apply Z.div_pos; lia).
    rewrite Z2Nat.inj_add by lia. change (Z.to_nat 1) with 1%nat. rewrite Nat.add_1_r.
    rewrite <- seq_shift, map_map. apply map_ext. intros i. rewrite Nat2Z.inj_succ. lia.
Qed.

Lemma zrange_suffix hi st : forall a lo v b, zrange lo hi st = a ++ v :: b -> b = zrange (v + st) hi st.
Proof.
  induction a as [|x a IH]; intros lo v b H.
  - destruct (Z_le_gt_dec st 0); [rewrite zrange_nil in H by lia; discriminate|].
    destruct (Z_lt_le_dec hi lo); [rewrite zrange_nil in H by lia; discriminate|].
    rewrite zrange_cons in H by lia. cbn [app] in H. inversion H; subst. reflexivity.
  - destruct (Z_le_gt_dec st 0); [rewrite zrange_nil in H by lia; discriminate|].
    destruct (Z_lt_le_dec hi lo); [rewrite zrange_nil in H by lia; discriminate|].
    rewrite zrange_cons in H by lia. cbn [app] in H. injection H as Hx Ht.
    apply (IH (lo + st)). assumption.
Qed.
Local Close Scope Z_scope.

Lemma find_some_hd {A C} (f : A -> option C) (g : A -> list C) :
  (forall v, f v = hd_error (g v)) -> forall vs, find_some f vs = hd_error (flat_map g vs).
Proof.
  intros H. induction vs as [|a vs IH]; cbn [find_some flat_map]; [reflexivity|].
  rewrite H. destruct (g a) as [|x r]; cbn [hd_error app]; [assumption|reflexivity].
Qed.

Lemma flat_map_split {A C} (g : A -> list C) : forall vs l1 x l2,
  flat_map g vs = l1 ++ x :: l2 ->
  exists va v vb m1 m2, vs = va ++ v :: vb /\ g v = m1 ++ x :: m2
                        /\ l1 = flat_map g va ++ m1 /\ l2 = m2 ++ flat_map g vb.
Proof.
  induction vs as [|a vs IH]; intros l1 x l2 H; cbn [flat_map] in H; [destruct l1; discriminate|].
  (* either x falls in g a, or later *)
  assert (Hc : (exists m2, g a = l1 ++ x :: m2 /\ l2 = m2 ++ flat_map g vs)
               \/ (exists l1', l1 = g a ++ l1' /\ flat_map g vs = l1' ++ x :: l2)).
  { clear IH. revert l1 H. induction (g a) as [|y ys IHy]; intros l1 H; cbn [app] in H.
    - right. exists l1. split; [reflexivity|assumption].
    - destruct l1 as [|z l1]; cbn [app] in H; inversion H; subst.
      + left. exists ys. split; reflexivity.
      + destruct (IHy l1 H2) as [(m2 & E1 & E2)|(l1' & E1 & E2)].
        * left. exists m2. split; [cbn [app]; congruence|assumption].
        * right. exists l1'. split; [cbn [app]; congruence|assumption]. }
  destruct Hc as [(m2 & E1 & E2)|(l1' & E1 & E2)].
  - exists [], a, vs, l1, m2. repeat split; try assumption; reflexivity.
  - destruct (IH l1' x l2 E2) as (va & v & vb & m1 & m2 & H1 & H2 & H3 & H4).
    exists (a :: va), v, vb, m1, m2. repeat split; try assumption.
    + cbn [app]. congruence.
    + cbn [flat_map]. rewrite <- app_assoc. congruence.
Qed.

Lemma enum_shape G : forall ls pre e, In e (enum G ls pre) -> exists cur, e = pre ++ cur /\ length cur = length ls.
Proof.
  induction ls as [|l ls IH]; intros pre e H; cbn [enum] in H.
  - destruct H as [<-|[]]. exists []. split; [rewrite app_nil_r; reflexivity|reflexivity].
  - destruct l as [lo hi st|ex].
    + apply in_flat_map in H. destruct H as (v & _ & H).
      destruct (IH _ _ H) as (cur & -> & Hl). exists (v :: cur). split; [rewrite <- app_assoc; reflexivity|cbn [length]; lia].
    + destruct (IH _ _ H) as (cur & -> & Hl). exists (eval G pre ex :: cur).
      split; [rewrite <- app_assoc; reflexivity|cbn [length]; lia].
Qed.

Lemma first_env_hd G : forall ls pre, first_env G ls pre = hd_error (enum G ls pre).
Proof.
  induction ls as [|l ls IH]; intros pre; cbn [first_env enum]; [reflexivity|].
  destruct l as [lo hi st|ex]; [|apply IH].
  apply find_some_hd. intros v. apply IH.
Qed.

Lemma next_env_hd G : forall ls pre l1 c1 l2,
  enum G ls pre = l1 ++ (pre ++ c1) :: l2 -> length c1 = length ls -> next_env G ls pre c1 = hd_error l2.
Proof.
  induction ls as [|l ls IH]; intros pre l1 c1 l2 H Hl.
  - cbn [enum] in H. destruct c1; [|discriminate]. cbn [next_env].
    destruct l1 as [|x l1]; [inversion H; reflexivity|]. inversion H. destruct l1; discriminate.
  - destruct c1 as [|v c1]; [discriminate|]. cbn [length] in Hl. injection Hl as Hl.
    destruct l as [lo hi st|ex]; cbn [enum next_env] in *.
    + apply flat_map_split in H.
      destruct H as (va & v0 & vb & m1 & m2 & Hvs & Hg & -> & ->).
      assert (v0 = v /\ In (pre ++ v :: c1) (enum G ls (pre ++ [v0]))) as [-> Hin].
      { assert (Hin : In (pre ++ v :: c1) (enum G ls (pre ++ [v0]))) by (rewrite Hg; apply in_elt).
        split; [|assumption].
        destruct (enum_shape G ls _ _ Hin) as (cur & He & _).
        rewrite <- app_assoc in He. apply app_inv_head in He. inversion He; reflexivity. }
      replace (pre ++ v :: c1) with ((pre ++ [v]) ++ c1) in Hg by (rewrite <- app_assoc; reflexivity).
      rewrite (IH (pre ++ [v]) m1 c1 m2 Hg Hl).
      destruct m2 as [|e2 m2]; cbn [hd_error app]; [|reflexivity].
      rewrite <- (zrange_suffix _ _ _ _ _ _ Hvs).
      apply find_some_hd. intros v'. apply first_env_hd.
    + assert (Hin : In (pre ++ v :: c1) (enum G ls (pre ++ [eval G pre ex]))) by (rewrite H; apply in_elt).
      destruct (enum_shape G ls _ _ Hin) as (cur & He & _).
      rewrite <- app_assoc in He. apply app_inv_head in He. inversion He; subst.
      replace (pre ++ eval G pre ex :: cur) with ((pre ++ [eval G pre ex]) ++ cur) in H by (rewrite <- app_assoc; reflexivity).
      apply (IH _ l1 cur l2 H Hl).
Qed.

Lemma walk_from_none G ls n : walk_from G ls n None = [].
Proof. destruct n; reflexivity. Qed.

Lemma walk_from_suffix G ls : forall l2 l1 e fuel,
  enum G ls [] = l1 ++ e :: l2 -> length l2 < fuel -> walk_from G ls fuel (Some e) = e :: l2.
Proof.
  induction l2 as [|e2 l2 IH]; intros l1 e fuel H Hf; (destruct fuel as [|n]; [lia|]); cbn [walk_from].
  - assert (Hin : In e (enum G ls [])) by (rewrite H; apply in_elt).
    destruct (enum_shape G ls [] e Hin) as (cur & -> & Hl). cbn [app] in *.
    rewrite (next_env_hd G ls [] l1 cur [] H Hl). cbn [hd_error]. rewrite walk_from_none. reflexivity.
  - assert (Hin : In e (enum G ls [])) by (rewrite H; apply in_elt).
    destruct (enum_shape G ls [] e Hin) as (cur & -> & Hl). cbn [app] in *.
    rewrite (next_env_hd G ls [] l1 cur (e2 :: l2) H Hl). cbn [hd_error].
    f_equal. apply (IH (l1 ++ [cur])); [rewrite <- app_assoc; assumption|cbn [length] in Hf; lia].
Qed.

(* resuming from the saved locals enumerates exactly the execution space, in order *)
Theorem walk_is_enum G ls fuel : length (enum G ls []) <= fuel -> walk G ls fuel = enum G ls [].
Proof.
  intros Hf. unfold walk. rewrite first_env_hd.
  destruct (enum G ls []) as [|e l] eqn:E; cbn [hd_error]; [apply walk_from_none|].
  apply (walk_from_suffix G ls l [] e fuel); [rewrite E; reflexivity|cbn [length] in Hf; lia].
Qed.

Lemma invocation_spec {A} iter chunk : forall (l : list A) acc r nb total,
  let '(c, rest, again) := invocation iter chunk r nb total l acc in
  c ++ rest = rev acc ++ l /\ (again = false -> rest = []) /\ (again = true -> length rest < length l).
Proof.
  induction l as [|x l IH]; intros acc r nb total; cbn [invocation].
  - repeat split; try reflexivity. discriminate.
  - destruct (Nat.ltb r (S nb)).
    + destruct (Nat.ltb chunk (total + S nb)).
      * cbn [rev length]. repeat split; [rewrite <- app_assoc; reflexivity|discriminate|lia].
      * specialize (IH (x :: acc) (if Nat.ltb r iter then 2 * r else r) 0 (total + S nb)).
        destruct (invocation iter chunk (if Nat.ltb r iter then 2 * r else r) 0 (total + S nb) l (x :: acc)) as [[c rest] again].
        destruct IH as (H1 & H2 & H3). cbn [rev] in H1. rewrite <- app_assoc in H1. cbn [app] in H1.
        repeat split; [assumption|assumption|]. intros Ha. specialize (H3 Ha). cbn [length]. lia.
    + specialize (IH (x :: acc) r (S nb) total).
      destruct (invocation iter chunk r (S nb) total l (x :: acc)) as [[c rest] again].
      destruct IH as (H1 & H2 & H3). cbn [rev] in H1. rewrite <- app_assoc in H1. cbn [app] in H1.
      repeat split; [assumption|assumption|]. intros Ha. specialize (H3 Ha). cbn [length]. lia.
Qed.

(* whatever task_startup_iter and task_startup_chunk are, the successive invocations create every
   instance exactly once, in enumeration order *)
Theorem chunks_concat {A} iter chunk : forall fuel (l : list A), length l < fuel ->
  concat (chunks fuel iter chunk l) = l.
Proof.
  induction fuel as [|f IH]; intros l Hl; [lia|]. cbn [chunks].
  pose proof (invocation_spec iter chunk l [] 1 0 0) as H.
  destruct (invocation iter chunk 1 0 0 l []) as [[c rest] again]. destruct H as (H1 & H2 & H3). cbn [rev app] in H1.
  destruct again.
  - cbn [concat]. rewrite IH; [assumption|]. specialize (H3 eq_refl). lia.
  - rewrite (H2 eq_refl) in H1. cbn [concat]. rewrite app_nil_r in *. assumption.
Qed.

(* an invocation that asks to be called again has created something: the generation progresses *)
Theorem again_chunk_progress {A} iter chunk (l : list A) :
  let '(c, rest, again) := invocation iter chunk 1 0 0 l [] in again = true -> c <> [].
Proof.
  pose proof (invocation_spec iter chunk l [] 1 0 0) as H.
  destruct (invocation iter chunk 1 0 0 l []) as [[c rest] again]. destruct H as (H1 & _ & H3).
  intros Ha Hc. specialize (H3 Ha). subst c. cbn [rev app] in H1. subst rest. lia.
Qed.

Theorem startup_chunks_exact P ci c iter chunk :
  concat (startup_chunks P ci c iter chunk) = startup_space P ci c.
Proof.
  unfold startup_chunks, startup_space, instances_of.
  rewrite walk_is_enum by lia. apply chunks_concat. lia.
Qed.

(* ================================================================== (2) the engine with AGAIN *)
Section AgainEngineProofs.
  Variable task : Type.
  Variable teq : forall a b : task, {a = b} + {a <> b}.
  Variable tasks : list task.
  Variable preds succs : task -> list task.
  Variable kagain : task -> nat.
  Hypothesis H_conv : forall p t, In p tasks -> In t tasks ->
                                  count_occ teq (succs p) t = count_occ teq (preds t) p.
  Hypothesis H_succ_in : forall p s, In p tasks -> In s (succs p) -> In s tasks.
  Hypothesis H_pred_in : forall t p, In t tasks -> In p (preds t) -> In p tasks.
  Variable rank : task -> nat.
  Hypothesis H_rank : forall t p, In t tasks -> In p (preds t) -> rank p < rank t.

  Local Notation astateT := (astate task).
  Local Notation astepE := (astep task teq tasks succs kagain).
  Local Notation arunE := (arun task teq tasks preds succs kagain).
  Local Notation stepE := (step task teq tasks succs).
  Local Notation InvE := (Inv task teq tasks preds).
  Local Notation stE := (st task).
  Local Notation invokesE := (invokes task).
  Local Notation releasesE := (releases task).
  Local Notation fupdE := (fupd task teq).

  Lemma fupd_same {B} (f : task -> B) t v : fupdE f t v t = v.
  Proof. unfold fupd. destruct (teq t t); congruence. Qed.
  Lemma fupd_other {B} (f : task -> B) t v x : x <> t -> fupdE f t v x = f x.
  Proof. unfold fupd. destruct (teq x t); congruence. Qed.

  Record AInv (s : astateT) : Prop := {
    ai_core : InvE (acore task s);
    ai_inv : forall t, count_occ teq (invokesE (alog task s)) t = ainv task s t;
    ai_rel : forall t, count_occ teq (releasesE (alog task s)) t
                       = match stE (acore task s) t with Done => 1 | _ => 0 end;
    ai_range : forall t, match stE (acore task s) t with
                         | Running => 1 <= ainv task s t <= S (kagain t) /\ (asub task s t = true -> ainv task s t <= kagain t)
                         | Done => ainv task s t = S (kagain t)
                         | _ => ainv task s t = 0
                         end;
    ai_order : forall l1 l2 t, alog task s = l2 ++ AInvoke t :: l1 ->
                               forall p, In p (preds t) -> In (ARelease p) l1;
    ai_final : forall l1 l2 t, alog task s = l2 ++ ARelease t :: l1 ->
                               count_occ teq (invokesE l1) t = S (kagain t)
  }.

  Lemma in_releases l p : In p (releasesE l) <-> In (ARelease p) l.
  Proof.
    induction l as [|e l IH]; [cbn; tauto|].
    destruct e as [t|t|t]; cbn [releases flat_map app In]; fold (releasesE l); rewrite IH.
    - split; [tauto|]. intros [H|H]; [discriminate|assumption].
    - split; [tauto|]. intros [H|H]; [discriminate|assumption].
    - split; intros [H|H]; auto; left; congruence.
  Qed.

  Lemma done_released (s : astateT) p : AInv s -> stE (acore task s) p = Done -> In (ARelease p) (alog task s).
  Proof.
    intros I Hp. apply in_releases. pose proof (ai_rel s I p) as H. rewrite Hp in H.
    apply (count_occ_In teq). lia.
  Qed.

  Lemma preds_released (s : astateT) t : AInv s -> In t tasks ->
    (stE (acore task s) t = Ready \/ stE (acore task s) t = Running) ->
    forall p, In p (preds t) -> In (ARelease p) (alog task s).
  Proof.
    intros I Ht Hs p Hp. apply (done_released s p I).
    pose proof (inv_count _ _ _ _ _ (ai_core s I) t Ht) as Hc.
    apply (pending_zero_all_done task preds (stE (acore task s)) t); [|assumption].
    destruct Hs as [Hs|Hs]; rewrite Hs in Hc; exact Hc.
  Qed.

  Lemma status_of_task c t : InvE c -> stE c t <> Absent -> In t tasks.
  Proof.
    intros I H. destruct (in_dec teq t tasks) as [Hi|Hi]; [assumption|].
    exfalso. apply H. apply (inv_absent _ _ _ _ c I t Hi).
  Qed.

  (* a core step other than an enabled Begin / End keeps "not started / running / done" of every task *)
  Definition kind (s : status) : nat := match s with Running => 1 | Done => 2 | _ => 0 end.
  Lemma kind_rel1 s : kind (rel1 s) = kind s.
  Proof. destruct s as [|[|[|n]]| | |]; reflexivity. Qed.
  Lemma kind_start1 s : kind (start1 s) = kind s.
  Proof. destruct s as [|[|n]| | |]; reflexivity. Qed.
  Lemma kind_iter k s : kind (Nat.iter k rel1 s) = kind s.
  Proof. induction k as [|k IH]; [reflexivity|]. rewrite iter_S, kind_rel1. exact IH. Qed.

  Lemma AInv_kind (s : astateT) c' : AInv s -> InvE c' ->
    (forall v, kind (stE c' v) = kind (stE (acore task s) v)) ->
    AInv {| acore := c'; asub := asub task s; ainv := ainv task s; alog := alog task s |}.
  Proof.
    intros I I' Hk. split; cbn [acore asub ainv alog].
    - assumption.
    - apply (ai_inv s I).
    - intros t. rewrite (ai_rel s I t). specialize (Hk t).
      destruct (stE c' t), (stE (acore task s) t); cbn in Hk; try discriminate; reflexivity.
    - intros t. pose proof (ai_range s I t) as H. specialize (Hk t).
      destruct (stE c' t), (stE (acore task s) t); cbn in Hk; try discriminate; assumption.
    - apply (ai_order s I).
    - apply (ai_final s I).
  Qed.

  Lemma count_invokes_cons_i t l x :
    count_occ teq (invokesE (AInvoke t :: l)) x = (if teq t x then 1 else 0) + count_occ teq (invokesE l) x.
  Proof. cbn [invokes flat_map app count_occ]. destruct (teq t x); reflexivity. Qed.
  Lemma count_releases_cons_r t l x :
    count_occ teq (releasesE (ARelease t :: l)) x = (if teq t x then 1 else 0) + count_occ teq (releasesE l) x.
  Proof. cbn [releases flat_map app count_occ]. destruct (teq t x); reflexivity. Qed.

  Lemma AInv_init : AInv (ainit task teq tasks preds).
  Proof.
    split; cbn [ainit acore asub ainv alog].
    - apply Inv_init.
    - reflexivity.
    - intros t. cbn. destruct (in_dec teq t tasks); reflexivity.
    - intros t. cbn. destruct (in_dec teq t tasks); reflexivity.
    - intros l1 l2 t H. destruct l2; discriminate.
    - intros l1 l2 t H. destruct l2; discriminate.
  Qed.

  Lemma AInv_step (s : astateT) e : AInv s -> AInv (astepE s e).
  Proof.
    intros I. pose proof (ai_core s I) as Ic.
    destruct e as [ev|t|t].
    - destruct ev as [|t|t|t].
      + (* Startup *)
        cbn [astep]. apply AInv_kind; [assumption|apply Inv_step; assumption|].
        intros v. cbn [step st]. rewrite fold_start. destruct (in_dec teq v tasks); [apply kind_start1|reflexivity].
      + (* StartupOne *)
        cbn [astep]. apply AInv_kind; [assumption|apply Inv_step; assumption|].
        intros v. cbn [step st]. unfold start_one.
        destruct (teq v t) as [->|Hne]; [rewrite upd_same; apply kind_start1|rewrite upd_other by assumption; reflexivity].
      + (* Begin t *)
        cbn [astep]. destruct (stE (acore task s) t) eqn:Et; try assumption.
        assert (Ht : In t tasks) by (apply (status_of_task _ t Ic); rewrite Et; discriminate).
        assert (Hst : forall v, stE (stepE (acore task s) (Begin t)) v = if teq v t then Running else stE (acore task s) v).
        { intros v. cbn [step]. rewrite Et. cbn [st].
          destruct (teq v t) as [->|Hne]; [apply upd_same|apply upd_other; assumption]. }
        split; cbn [acore asub ainv alog].
        * apply Inv_step; assumption.
        * intros x. rewrite count_invokes_cons_i, (ai_inv s I x).
          destruct (teq t x) as [<-|Hne].
          -- rewrite fupd_same. pose proof (ai_range s I t) as Hr. rewrite Et in Hr. lia.
          -- rewrite fupd_other by congruence. reflexivity.
        * intros x. cbn [releases flat_map app]. fold (releasesE (alog task s)). rewrite (ai_rel s I x), Hst.
          destruct (teq x t) as [->|Hne]; [rewrite Et; reflexivity|reflexivity].
        * intros x. rewrite Hst. destruct (teq x t) as [->|Hne].
          -- rewrite !fupd_same. split; [lia|discriminate].
          -- rewrite !fupd_other by assumption. apply (ai_range s I x).
        * intros l1 l2 x Hl p Hp. destruct l2 as [|e l2]; cbn [app] in Hl.
          -- inversion Hl; subst x l1. apply (preds_released s t I Ht (or_introl Et) p Hp).
          -- inversion Hl. eapply (ai_order s I); eassumption.
        * intros l1 l2 x Hl. destruct l2 as [|e l2]; cbn [app] in Hl; [discriminate|].
          inversion Hl. eapply (ai_final s I); eassumption.
      + (* End t *)
        cbn [astep]. destruct (stE (acore task s) t) eqn:Et; try assumption.
        destruct (negb (asub task s t) && Nat.eqb (ainv task s t) (S (kagain t))) eqn:Ec; [|assumption].
        apply andb_true_iff in Ec. destruct Ec as [Ec1 Ec2]. apply Nat.eqb_eq in Ec2.
        assert (Ht : In t tasks) by (apply (status_of_task _ t Ic); rewrite Et; discriminate).
        assert (Hk : forall v, kind (stE (stepE (acore task s) (End t)) v) = if teq v t then 2 else kind (stE (acore task s) v)).
        { intros v. cbn [step]. rewrite Et. cbn [st]. rewrite fold_release, kind_iter.
          destruct (teq v t) as [->|Hne]; [rewrite upd_same; reflexivity|rewrite upd_other by assumption; reflexivity]. }
        split; cbn [acore asub ainv alog].
        * apply Inv_step; assumption.
        * intros x. cbn [invokes flat_map app]. apply (ai_inv s I x).
        * intros x. rewrite count_releases_cons_r, (ai_rel s I x). specialize (Hk x).
          destruct (teq t x) as [<-|Hne].
          -- destruct (teq t t); [|congruence]. rewrite Et.
             destruct (stE (stepE (acore task s) (End t)) t); cbn in Hk; try discriminate. reflexivity.
          -- destruct (teq x t); [congruence|].
             destruct (stE (stepE (acore task s) (End t)) x), (stE (acore task s) x); cbn in Hk; try discriminate; reflexivity.
        * intros x. pose proof (ai_range s I x) as Hr. specialize (Hk x).
          destruct (teq x t) as [->|Hne].
          -- destruct (stE (stepE (acore task s) (End t)) t); cbn in Hk; try discriminate. assumption.
          -- destruct (stE (stepE (acore task s) (End t)) x), (stE (acore task s) x); cbn in Hk; try discriminate; assumption.
        * intros l1 l2 x Hl p Hp. destruct l2 as [|e l2]; cbn [app] in Hl; [discriminate|].
          inversion Hl. eapply (ai_order s I); eassumption.
        * intros l1 l2 x Hl. destruct l2 as [|e l2]; cbn [app] in Hl.
          -- inversion Hl; subst x l1. rewrite (ai_inv s I t). assumption.
          -- inversion Hl. eapply (ai_final s I); eassumption.
    - (* Again t *)
      cbn [astep]. destruct (stE (acore task s) t) eqn:Et; try assumption.
      destruct (negb (asub task s t) && Nat.leb (ainv task s t) (kagain t)) eqn:Ec; [|assumption].
      apply andb_true_iff in Ec. destruct Ec as [Ec1 Ec2]. apply Nat.leb_le in Ec2.
      split; cbn [acore asub ainv alog].
      + assumption.
      + intros x. cbn [invokes flat_map app]. apply (ai_inv s I x).
      + intros x. cbn [releases flat_map app]. apply (ai_rel s I x).
      + intros x. pose proof (ai_range s I x) as Hr.
        destruct (teq x t) as [->|Hne].
        * rewrite Et in *. rewrite fupd_same. split; [tauto|]. intros _. assumption.
        * rewrite fupd_other by assumption. assumption.
      + intros l1 l2 x Hl p Hp. destruct l2 as [|e l2]; cbn [app] in Hl; [discriminate|].
        inversion Hl. eapply (ai_order s I); eassumption.
      + intros l1 l2 x Hl. destruct l2 as [|e l2]; cbn [app] in Hl; [discriminate|].
        inversion Hl. eapply (ai_final s I); eassumption.
    - (* Rerun t *)
      cbn [astep]. destruct (stE (acore task s) t) eqn:Et; try assumption.
      destruct (asub task s t) eqn:Es; [|assumption].
      assert (Ht : In t tasks) by (apply (status_of_task _ t Ic); rewrite Et; discriminate).
      split; cbn [acore asub ainv alog].
      + assumption.
      + intros x. rewrite count_invokes_cons_i, (ai_inv s I x).
        destruct (teq t x) as [<-|Hne]; [rewrite fupd_same; lia|rewrite fupd_other by congruence; reflexivity].
      + intros x. cbn [releases flat_map app]. apply (ai_rel s I x).
      + intros x. pose proof (ai_range s I x) as Hr.
        destruct (teq x t) as [->|Hne].
        * rewrite Et in *. rewrite !fupd_same. destruct Hr as [Hr1 Hr2]. specialize (Hr2 Es).
          split; [lia|discriminate].
        * rewrite !fupd_other by assumption. assumption.
      + intros l1 l2 x Hl p Hp. destruct l2 as [|e l2]; cbn [app] in Hl.
        * inversion Hl; subst x l1. apply (preds_released s t I Ht (or_intror Et) p Hp).
        * inversion Hl. eapply (ai_order s I); eassumption.
      + intros l1 l2 x Hl. destruct l2 as [|e l2]; cbn [app] in Hl; [discriminate|].
        inversion Hl. eapply (ai_final s I); eassumption.
  Qed.

  Theorem AInv_run evs : AInv (arunE evs).
  Proof. unfold arun. apply fold_left_inv; [intros a b; apply AInv_step|apply AInv_init]. Qed.

  (* in every run: never more than k+1 invocations, never more than one release *)
  Theorem invocations_bounded evs t :
    count_occ teq (invokesE (alog task (arunE evs))) t <= S (kagain t)
    /\ count_occ teq (releasesE (alog task (arunE evs))) t <= 1.
  Proof.
    pose proof (AInv_run evs) as I. rewrite (ai_inv _ I t), (ai_rel _ I t).
    pose proof (ai_range _ I t) as Hr. destruct (stE (acore task (arunE evs)) t); lia.
  Qed.

  (* the release comes after the k+1 invocations, and no invocation follows it *)
  Theorem release_after_last_invocation evs l1 l2 t :
    alog task (arunE evs) = l2 ++ ARelease t :: l1 ->
    count_occ teq (invokesE l1) t = S (kagain t) /\ count_occ teq (invokesE l2) t = 0.
  Proof.
    intros Hl. pose proof (AInv_run evs) as I. pose proof (ai_final _ I l1 l2 t Hl) as H1.
    split; [assumption|].
    destruct (invocations_bounded evs t) as [Hb _]. rewrite Hl in Hb.
    assert (Hsplit : forall a b, invokesE (a ++ b) = invokesE a ++ invokesE b)
      by (intros a b; unfold invokes; apply flat_map_app).
    rewrite Hsplit, count_occ_app in Hb. cbn [invokes flat_map app] in Hb. fold (invokesE l1) in Hb. lia.
  Qed.

  (* every invocation of a task, the first and the repeated ones, follows the release of all its predecessors *)
  Theorem invocation_after_predecessors_released evs l1 l2 t :
    alog task (arunE evs) = l2 ++ AInvoke t :: l1 -> forall p, In p (preds t) -> In (ARelease p) l1.
  Proof. apply (ai_order _ (AInv_run evs)). Qed.

  (* a running task is never stuck: one of Again / Rerun / End is enabled *)
  Theorem running_task_can_move evs t : stE (acore task (arunE evs)) t = Running ->
    exists e, (e = Again t \/ e = Rerun t \/ e = AE (End t)) /\ alog task (astepE (arunE evs) e) <> alog task (arunE evs).
  Proof.
    intros Hs. pose proof (AInv_run evs) as I. pose proof (ai_range _ I t) as Hr. rewrite Hs in Hr.
    destruct Hr as [Hr1 Hr2].
    assert (Hcons : forall (x : alogev task) l, x :: l <> l).
    { intros x l H. assert (length (x :: l) = length l) by congruence. cbn [length] in *. lia. }
    destruct (asub task (arunE evs) t) eqn:Es.
    - exists (Rerun t). split; [tauto|]. cbn [astep]. rewrite Hs, Es. cbn [alog]. apply Hcons.
    - destruct (Nat.eq_dec (ainv task (arunE evs) t) (S (kagain t))) as [He|Hne].
      + exists (AE (End t)). split; [tauto|]. cbn [astep]. rewrite Hs, Es, He, Nat.eqb_refl. cbn [negb andb alog]. apply Hcons.
      + exists (Again t). split; [tauto|]. cbn [astep]. rewrite Hs, Es.
        replace (Nat.leb (ainv task (arunE evs) t) (kagain t)) with true by (symmetry; apply Nat.leb_le; lia).
        cbn [negb andb alog]. apply Hcons.
  Qed.

  (* when nothing can happen any more every task is done: invoked k+1 times, released once *)
  Theorem quiescent_all_invoked evs : aquiescent task tasks (arunE evs) ->
    forall t, In t tasks ->
      stE (acore task (arunE evs)) t = Done
      /\ count_occ teq (invokesE (alog task (arunE evs))) t = S (kagain t)
      /\ count_occ teq (releasesE (alog task (arunE evs))) t = 1.
  Proof.
    intros Q t Ht. pose proof (AInv_run evs) as I.
    assert (Hd : stE (acore task (arunE evs)) t = Done).
    { apply (quiescent_done_by_rank task teq tasks preds H_pred_in rank H_rank (acore task (arunE evs)) (ai_core _ I) Q (S (rank t)) t Ht). lia. }
    split; [assumption|].
    rewrite (ai_inv _ I t), (ai_rel _ I t). pose proof (ai_range _ I t) as Hr. rewrite Hd in *. split; [assumption|reflexivity].
  Qed.
End AgainEngineProofs.

(* ================================================================== (1b) several tasks and a conserving scheduler *)
Lemma take_nth_spec {A} : forall i (l : list A) x r, take_nth i l = Some (x, r) ->
  nth_error l i = Some x /\ (forall y, In y l <-> y = x \/ In y r) /\ (NoDup l -> NoDup r /\ ~ In x r).
Proof.
  induction i as [|i IH]; intros [|a l] x r H; cbn [take_nth] in H; try discriminate.
  - inversion H; subst. split; [reflexivity|]. split.
    + intros y. cbn [In]. split; intros [E|E]; auto.
    + intros Hnd. inversion Hnd; auto.
  - destruct (take_nth i l) as [[y r']|] eqn:E; [|discriminate]. inversion H; subst.
    destruct (IH l x r' E) as (H1 & H2 & H3). split; [assumption|]. split.
    + intros y. cbn [In]. rewrite H2. tauto.
    + intros Hnd. inversion Hnd as [|a' l' Hna Hnd']; subst. destruct (H3 Hnd') as [H4 H5]. split.
      * constructor; [|assumption]. intros Hin. apply Hna. apply H2. right; assumption.
      * intros [Hin|Hin]; [subst; apply Hna; apply H2; left; reflexivity|contradiction].
Qed.
Lemma take_nth_some {A} : forall i (l : list A), i < length l -> exists x r, take_nth i l = Some (x, r).
Proof.
  induction i as [|i IH]; intros [|a l] H; cbn [length] in H; try lia; cbn [take_nth].
  - eauto.
  - destruct (IH l) as (x & r & E); [lia|]. rewrite E. eauto.
Qed.
Lemma set_nth_length {A} (v : A) : forall i l, length (set_nth i v l) = length l.
Proof. induction i as [|i IH]; intros [|a l]; cbn [set_nth length]; auto. Qed.
Lemma set_nth_same {A} (v : A) : forall i l, i < length l -> nth_error (set_nth i v l) i = Some v.
Proof. induction i as [|i IH]; intros [|a l] H; cbn [length] in H; try lia; cbn [set_nth nth_error]; [reflexivity|apply IH; lia]. Qed.
Lemma set_nth_other {A} (v : A) : forall i j l, i <> j -> nth_error (set_nth i v l) j = nth_error l j.
Proof.
  induction i as [|i IH]; intros [|j] [|a l] H; cbn [set_nth nth_error]; try reflexivity; try congruence.
  apply IH. congruence.
Qed.

Section Sys.
  Variable scripts : list (nat * nat).
  Variable prios : list Z.
  Hypothesis H_len : length prios = length scripts.

  (* every task is some number of calls into its script; the ready list holds, once each, exactly
     the tasks that still have calls to make *)
  Record SInv (s : sys) : Prop := {
    si_len : length (sy_tasks s) = length scripts;
    si_nodup : NoDup (sy_ready s);
    si_ready : forall j, In j (sy_ready s) <->
                         exists ts, nth_error (sy_tasks s) j = Some ts /\ ts_queued ts = true;
    si_expect : forall j ts a k p, nth_error (sy_tasks s) j = Some ts -> nth_error scripts j = Some (a, k) ->
                                   nth_error prios j = Some p -> exists m, ts = expect a k p m
  }.

  Lemma SInv_init : SInv (sys_init prios).
  Proof.
    split; cbn [sys_init sy_tasks sy_ready].
    - rewrite map_length. assumption.
    - apply seq_NoDup.
    - intros j. rewrite in_seq. split.
      + intros [_ Hj]. cbn [Nat.add] in Hj. destruct (nth_error prios j) as [p|] eqn:E; [|apply nth_error_None in E; lia].
        exists (tinit p). split; [apply map_nth_error; assumption|reflexivity].
      + intros (ts & H & _). assert (j < length (map tinit prios)) by (apply nth_error_Some; congruence).
        rewrite map_length in *. lia.
    - intros j ts a k p H _ Hp. rewrite (map_nth_error tinit j prios Hp) in H. inversion H; subst.
      exists 0. reflexivity.
  Qed.

  Lemma SInv_step s c : SInv s -> SInv (sys_step scripts s c).
  Proof.
    intros I. unfold sys_step. destruct (sy_ready s) as [|j0 r0] eqn:Er; [assumption|]. rewrite <- Er.
    assert (Hi : Nat.modulo c (length (sy_ready s)) < length (sy_ready s))
      by (apply Nat.mod_upper_bound; rewrite Er; discriminate).
    destruct (take_nth_some _ _ Hi) as (j & rest & Et). rewrite Et.
    destruct (take_nth_spec _ _ _ _ Et) as (Hn & Hin & Hnd). destruct (Hnd (si_nodup s I)) as [Hnd1 Hnd2].
    assert (Hjr : In j (sy_ready s)) by (apply Hin; left; reflexivity).
    destruct (proj1 (si_ready s I j) Hjr) as (ts & Ets & Hq).
    assert (Hjl : j < length scripts) by (rewrite <- (si_len s I); apply nth_error_Some; congruence).
    destruct (nth_error scripts j) as [[a k]|] eqn:Es; [|apply nth_error_None in Es; lia].
    destruct (nth_error prios j) as [p|] eqn:Ep; [|apply nth_error_None in Ep; lia].
    rewrite Ets.
    destruct (si_expect s I j ts a k p Ets Es Ep) as (m & ->).
    rewrite expect_step.
    assert (Hjt : j < length (sy_tasks s)) by (rewrite (si_len s I); assumption).
    split; cbn [sy_tasks sy_ready].
    - rewrite set_nth_length. apply (si_len s I).
    - destruct (ts_queued (expect a k p (S m))); [|assumption].
      clear - Hnd1 Hnd2. induction rest as [|x rest IH]; cbn [app]; [constructor; [intros []|constructor]|].
      inversion Hnd1; subst. constructor.
      + intros Hin. apply in_app_or in Hin. destruct Hin as [Hin|[Hin|[]]]; [contradiction|].
        subst. apply Hnd2. left; reflexivity.
      + apply IH; [assumption|]. intros Hin. apply Hnd2. right; assumption.
    - intros j'. destruct (Nat.eq_dec j j') as [<-|Hne].
      + rewrite set_nth_same by assumption. split.
        * intros Hin'. exists (expect a k p (S m)). split; [reflexivity|].
          destruct (ts_queued (expect a k p (S m))); [reflexivity|contradiction].
        * intros (ts' & H & Hq'). inversion H; subst. rewrite Hq'. apply in_or_app. right; left; reflexivity.
      + rewrite set_nth_other by assumption. rewrite <- (si_ready s I j'), Hin.
        destruct (ts_queued (expect a k p (S m))).
        * split; [intros H; apply in_app_or in H; destruct H as [H|[H|[]]]; [right; assumption|congruence]|].
          intros [H|H]; [congruence|apply in_or_app; left; assumption].
        * split; [intros H; right; assumption|intros [H|H]; [congruence|assumption]].
    - intros j' ts' a' k' p' H Hs Hp. destruct (Nat.eq_dec j j') as [<-|Hne].
      + rewrite set_nth_same in H by assumption. inversion H; subst. rewrite Es in Hs. rewrite Ep in Hp.
        inversion Hs; inversion Hp; subst. exists (S m). reflexivity.
      + rewrite set_nth_other in H by assumption. apply (si_expect s I j' ts' a' k' p' H Hs Hp).
  Qed.

  Theorem SInv_run cs : SInv (sys_run scripts prios cs).
  Proof. unfold sys_run. apply fold_left_inv; [intros a b; apply SInv_step|apply SInv_init]. Qed.

  (* never lost, never duplicated: whatever the scheduler selects, a task that has not released its
     dependencies is in the ready list, exactly once *)
  Theorem unreleased_task_is_ready_once cs j ts : nth_error (sy_tasks (sys_run scripts prios cs)) j = Some ts ->
    ts_rel ts = 0 -> count_occ Nat.eq_dec (sy_ready (sys_run scripts prios cs)) j = 1.
  Proof.
    intros H Hr. pose proof (SInv_run cs) as I.
    assert (Hjl : j < length scripts) by (rewrite <- (si_len _ I); apply nth_error_Some; congruence).
    destruct (nth_error scripts j) as [[a k]|] eqn:Es; [|apply nth_error_None in Es; lia].
    destruct (nth_error prios j) as [p|] eqn:Ep; [|apply nth_error_None in Ep; lia].
    destruct (si_expect _ I j ts a k p H Es Ep) as (m & ->).
    assert (Hq : ts_queued (expect a k p m) = true).
    { unfold expect in *. destruct (Nat.leb m a); [reflexivity|]. destruct (Nat.leb m (a + k)); [reflexivity|].
      cbn [ts_rel] in Hr. discriminate. }
    assert (Hin : In j (sy_ready (sys_run scripts prios cs))) by (apply (si_ready _ I j); eauto).
    pose proof (proj1 (NoDup_count_occ Nat.eq_dec _) (si_nodup _ I) j).
    pose proof (proj1 (count_occ_In Nat.eq_dec _ j) Hin). lia.
  Qed.

  (* when the scheduler is empty every task has been invoked k+1 times and released once *)
  Theorem empty_scheduler_all_complete cs : sy_ready (sys_run scripts prios cs) = [] ->
    forall j ts a k, nth_error (sy_tasks (sys_run scripts prios cs)) j = Some ts -> nth_error scripts j = Some (a, k) ->
    ts_hook ts = S k /\ ts_pi ts = S a /\ ts_rel ts = 1.
  Proof.
    intros He j ts a k H Hs. pose proof (SInv_run cs) as I.
    assert (Hjl : j < length scripts) by (apply nth_error_Some; congruence).
    destruct (nth_error prios j) as [p|] eqn:Ep; [|apply nth_error_None in Ep; lia].
    destruct (si_expect _ I j ts a k p H Hs Ep) as (m & ->).
    assert (Hq : ts_queued (expect a k p m) = false).
    { destruct (ts_queued (expect a k p m)) eqn:E; [|reflexivity].
      assert (Hin : In j (sy_ready (sys_run scripts prios cs))) by (apply (si_ready _ I j); eauto).
      rewrite He in Hin. destruct Hin. }
    unfold expect in *. destruct (Nat.leb m a); [discriminate|]. destruct (Nat.leb m (a + k)); [discriminate|].
    repeat split; reflexivity.
  Qed.

  (* and as long as it is not empty the next selection makes one of the tasks advance *)
  Theorem nonempty_scheduler_advances cs c : sy_ready (sys_run scripts prios cs) <> [] ->
    exists j a k p m, nth_error scripts j = Some (a, k) /\ nth_error prios j = Some p
      /\ nth_error (sy_tasks (sys_run scripts prios cs)) j = Some (expect a k p m)
      /\ ts_queued (expect a k p m) = true
      /\ nth_error (sy_tasks (sys_run scripts prios (cs ++ [c]))) j = Some (expect a k p (S m)).
  Proof.
    intros Hne. pose proof (SInv_run cs) as I. set (s := sys_run scripts prios cs) in *.
    assert (Hrun : sys_run scripts prios (cs ++ [c]) = sys_step scripts s c)
      by (unfold sys_run; rewrite fold_left_app; reflexivity).
    rewrite Hrun. unfold sys_step. destruct (sy_ready s) as [|j0 r0] eqn:Er; [congruence|]. rewrite <- Er.
    assert (Hi : Nat.modulo c (length (sy_ready s)) < length (sy_ready s))
      by (apply Nat.mod_upper_bound; rewrite Er; discriminate).
    destruct (take_nth_some _ _ Hi) as (j & rest & Et). rewrite Et.
    destruct (take_nth_spec _ _ _ _ Et) as (Hn & Hin & Hnd).
    assert (Hjr : In j (sy_ready s)) by (apply Hin; left; reflexivity).
    destruct (proj1 (si_ready s I j) Hjr) as (ts & Ets & Hq).
    assert (Hjl : j < length scripts) by (rewrite <- (si_len s I); apply nth_error_Some; congruence).
    destruct (nth_error scripts j) as [[a k]|] eqn:Es; [|apply nth_error_None in Es; lia].
    destruct (nth_error prios j) as [p|] eqn:Ep; [|apply nth_error_None in Ep; lia].
    rewrite Ets. destruct (si_expect s I j ts a k p Ets Es Ep) as (m & ->).
    exists j, a, k, p, m. repeat split; try assumption; try reflexivity.
    cbn [sy_tasks]. rewrite expect_step. apply set_nth_same. rewrite (si_len s I). assumption.
  Qed.
End Sys.

(* ================================================================== the same on the instances of a wf program *)
Section AgainPTG.
  Variable P : program.
  Hypothesis H_wf : wf_program P = true.
  Variable kagain : tid -> nat.
  Let Hconv := proj1 (proj2 (wf_engine P H_wf)).
  Let Hsucc := proj1 (proj2 (proj2 (wf_engine P H_wf))).
  Let Hpred := proj1 (proj2 (proj2 (proj2 (wf_engine P H_wf)))).
  Let Hrank := proj2 (proj2 (proj2 (proj2 (wf_engine P H_wf)))).

  Theorem ptg_invocations_bounded evs t :
    count_occ tid_eq_dec (invokes tid (alog tid (ptg_arun P kagain evs))) t <= S (kagain t)
    /\ count_occ tid_eq_dec (releases tid (alog tid (ptg_arun P kagain evs))) t <= 1.
  Proof. apply (invocations_bounded tid tid_eq_dec (instances P) (preds P) (succs P) kagain Hconv Hsucc). Qed.

  Theorem ptg_release_after_last_invocation evs l1 l2 t :
    alog tid (ptg_arun P kagain evs) = l2 ++ ARelease t :: l1 ->
    count_occ tid_eq_dec (invokes tid l1) t = S (kagain t) /\ count_occ tid_eq_dec (invokes tid l2) t = 0.
  Proof. apply (release_after_last_invocation tid tid_eq_dec (instances P) (preds P) (succs P) kagain Hconv Hsucc). Qed.

  Theorem ptg_invocation_after_predecessors evs l1 l2 t :
    alog tid (ptg_arun P kagain evs) = l2 ++ AInvoke t :: l1 -> forall p, In p (preds P t) -> In (ARelease p) l1.
  Proof. apply (invocation_after_predecessors_released tid tid_eq_dec (instances P) (preds P) (succs P) kagain Hconv Hsucc). Qed.

  Theorem ptg_running_task_can_move evs t : st tid (acore tid (ptg_arun P kagain evs)) t = Running ->
    exists e, (e = Again t \/ e = Rerun t \/ e = AE (End t))
              /\ alog tid (astep tid tid_eq_dec (instances P) (succs P) kagain (ptg_arun P kagain evs) e)
                 <> alog tid (ptg_arun P kagain evs).
  Proof. apply (running_task_can_move tid tid_eq_dec (instances P) (preds P) (succs P) kagain Hconv Hsucc). Qed.

  Theorem ptg_quiescent_all_invoked evs : ptg_aquiescent P (ptg_arun P kagain evs) ->
    forall t, In t (instances P) ->
      st tid (acore tid (ptg_arun P kagain evs)) t = Done
      /\ count_occ tid_eq_dec (invokes tid (alog tid (ptg_arun P kagain evs))) t = S (kagain t)
      /\ count_occ tid_eq_dec (releases tid (alog tid (ptg_arun P kagain evs))) t = 1.
  Proof.
    apply (quiescent_all_invoked tid tid_eq_dec (instances P) (preds P) (succs P) kagain Hconv Hsucc Hpred (ptg_rank P) Hrank).
  Qed.
End AgainPTG.
